import Restic.Model.Crypto
import Restic.Gen.Source
/-!
# C05 — Authenticated encryption round-trips and rejects every forgery

Theorems about `Restic.Model.Crypto` (transcription of `Key.Seal` / `Key.Open` / `Valid` /
`validNonce` / `KDF`). The primitives are parameters `P : Prims`; the only laws assumed about
them are collected in `Laws` (CTR is a length-preserving involution, Poly1305 tags have
`macSize` bytes) and are hypotheses of exactly the theorems that need them.

Unforgeability of Poly1305-AES is *not* a law one can state about a function (for every function
`mac` there are valid triples), so "every changed bit is rejected" is proved in the only form that
is true for all keys: a tampered message is accepted **iff** its tag is the correct tag of the
tampered (nonce, body) — `open_ok_iff_mac`, `body_change_accepted_iff`, `nonce_change_accepted_iff`,
`other_mac_key_accepted_iff` — i.e. every acceptance exhibits a concrete MAC collision/forgery;
a change of the *tag alone* is rejected unconditionally (`tag_change_rejected`).
-/
namespace Restic.Props.C05
open Restic.Model.Crypto

/-- laws assumed of the primitives -/
structure Laws (P : Prims) : Prop where
  ctr_len : ∀ k n d, (P.ctr k n d).length = d.length
  ctr_inv : ∀ k n d, P.ctr k n (P.ctr k n d) = d
  poly_len : ∀ k m, (P.poly k m).length = macSize

/-! ### T1: regenerated constants and call orders -/

/-- the size constants the model is built on, as the current source defines them -/
theorem sizes : ivSize = 16 ∧ macSize = 16 ∧ extension = ivSize + macSize ∧ aesKeySize = 32 ∧
    macKeySizeK = 16 ∧ macKeySizeR = 16 ∧ saltLength = 64 ∧ dkLen = 32 := by decide

/-- `Key.Open`: key check, then nonce check, then MAC verification, and only then decryption;
    nothing is decrypted before the MAC has been verified. -/
theorem open_verifies_before_decrypt :
    let c := Restic.Gen.crypto_Open_calls
    c.idxOf "k.Valid" < c.idxOf "validNonce" ∧ c.idxOf "validNonce" < c.idxOf "poly1305Verify" ∧
    c.idxOf "poly1305Verify" < c.idxOf "cipher.NewCTR" ∧ c.idxOf "poly1305Verify" < c.idxOf "e.XORKeyStream" ∧
    "e.XORKeyStream" ∈ c ∧ c.count "e.XORKeyStream" = 1 ∧ c.count "poly1305Verify" = 1 := by decide

/-- `Key.Seal`: key and nonce checks precede encryption; the MAC is computed after (over) the
    ciphertext (encrypt-then-MAC). -/
theorem seal_checks_then_encrypt_then_mac :
    let c := Restic.Gen.crypto_Seal_calls
    c.idxOf "k.Valid" < c.idxOf "validNonce" ∧ c.idxOf "validNonce" < c.idxOf "e.XORKeyStream" ∧
    c.idxOf "e.XORKeyStream" < c.idxOf "poly1305MAC" ∧ "poly1305MAC" ∈ c := by decide

/-- `KDF`: the parameter check precedes the call of scrypt. -/
theorem kdf_checks_before_scrypt :
    let c := Restic.Gen.crypto_KDF_calls
    c.idxOf "params.Check" < c.idxOf "scrypt.Key" ∧ "scrypt.Key" ∈ c ∧
    c.idxOf "scrypt.Key" < c.idxOf "macKeyFromSlice" := by decide

/-- `poly1305Verify` verifies with the prepared one-time key and does nothing else. -/
theorem verify_uses_prepared_key :
    Restic.Gen.crypto_poly1305Verify_calls = ["poly1305PrepareKey", "copy", "poly1305.Verify"] := by decide

/-! ### Validity predicates: the loops compute "not all zero" -/

theorem foldl_or_eq_zero (n : Bytes) (acc : UInt8) :
    n.foldl (fun sum b => sum ||| b) acc = 0 ↔ acc = 0 ∧ ∀ b ∈ n, b = 0 := by
  induction n generalizing acc with
  | nil => simp
  | cons a as ih =>
    simp only [List.foldl_cons, ih, UInt8.or_eq_zero_iff, List.mem_cons, forall_eq_or_imp]
    exact and_assoc

theorem validNonce_eq (n : Bytes) : validNonce n = !allZero n := by
  unfold validNonce allZero
  rw [Bool.eq_iff_iff]
  simp [UInt8.pos_iff_ne_zero, foldl_or_eq_zero]

theorem foldl_flag (l : Bytes) (acc : Bool) :
    l.foldl (fun acc b => if b != 0 then true else acc) acc = (acc || l.any (· != 0)) := by
  induction l generalizing acc with
  | nil => simp
  | cons a as ih =>
    simp only [List.foldl_cons, ih, List.any_cons]
    by_cases h : (a != 0) = true <;> simp [h]

theorem any_ne_zero_eq (l : Bytes) : l.any (· != 0) = !allZero l := by
  unfold allZero
  induction l with
  | nil => rfl
  | cons a as ih =>
    simp only [bne] at ih
    simp only [List.any_cons, List.all_cons, Bool.not_and, bne, ih]

/-- `Key.Valid` is exactly "no part of the key is all zero" -/
theorem keyValid_eq (k : Key) : keyValid k = !keyInvalid k := by
  unfold keyValid keyInvalid encKeyValid macKeyValid
  simp only [foldl_flag, Bool.false_or, any_ne_zero_eq]
  cases allZero k.enc <;> cases allZero k.macK <;> cases allZero k.macR <;> rfl

/-! ### Seal -/

/-- `Seal` succeeds exactly on a valid key, no additional data, a 16-byte non-zero nonce;
    otherwise it panics (nothing is ever encrypted under an invalid key or an all-zero nonce). -/
theorem seal_ok_iff (P : Prims) (k : Key) (dst n p ad c : Bytes) :
    sealK P k dst n p ad = .ok c ↔
      keyValid k = true ∧ ad = [] ∧ n.length = ivSize ∧ validNonce n = true ∧
      c = dst ++ P.ctr k.enc n p ++ poly1305MAC P (P.ctr k.enc n p) n k := by
  unfold sealK
  by_cases h1 : keyValid k = true <;> simp only [h1, Bool.not_true, Bool.false_eq_true, if_false,
    Bool.not_false, if_true, reduceCtorEq, false_and, true_and] <;> try simp
  cases ad with
  | cons a as => simp
  | nil =>
    simp only [List.length_nil, Nat.lt_irrefl, if_false, true_and]
    by_cases h2 : n.length = ivSize
    · by_cases h3 : validNonce n = true
      · simp [h2, h3, eq_comm]
      · simp [h2, h3]
    · simp [h2]

theorem seal_rejects (P : Prims) (k : Key) (dst n p ad : Bytes)
    (h : keyInvalid k = true ∨ allZero n = true) : ∃ w, sealK P k dst n p ad = .panic w := by
  cases hs : sealK P k dst n p ad with
  | panic w => exact ⟨w, rfl⟩
  | ok c =>
    have := (seal_ok_iff P k dst n p ad c).mp hs
    rw [keyValid_eq, validNonce_eq] at this
    rcases h with h | h <;> simp [h] at this

theorem seal_len (P : Prims) (L : Laws P) (k : Key) (dst n p ad c : Bytes)
    (h : sealK P k dst n p ad = .ok c) : c.length = dst.length + p.length + macSize := by
  have := (seal_ok_iff P k dst n p ad c).mp h
  rw [this.2.2.2.2]
  simp [poly1305MAC, L.ctr_len, L.poly_len, Nat.add_assoc]

/-- the stored form `nonce ‖ body ‖ tag` is exactly `Extension` bytes longer than the plaintext
    (`Extension` as regenerated from the source) and starts with the nonce -/
theorem sealWithNonce_len (P : Prims) (L : Laws P) (k : Key) (n p c : Bytes)
    (h : sealWithNonce P k n p = .ok c) :
    c.length = p.length + Restic.Gen.crypto_Extension ∧ c.take ivSize = n := by
  have h' := (seal_ok_iff P k n n p [] c).mp h
  have hl := seal_len P L k n n p [] c h
  have he : Restic.Gen.crypto_Extension = ivSize + macSize := by decide
  refine ⟨by rw [hl, h'.2.2.1, he]; omega, ?_⟩
  rw [h'.2.2.2.2, List.append_assoc, ← h'.2.2.1, List.take_left']
  rfl

/-! ### Open -/

/-- **No path to plaintext bypasses the MAC**: `Open` returns plaintext exactly when key and nonce
    are valid, the input has room for a tag, and the last `macSize` bytes are the Poly1305-AES tag of
    everything before them under this key and nonce; the plaintext is then the CTR decryption of
    the authenticated bytes. -/
theorem open_ok_iff_mac (P : Prims) (k : Key) (dst n c q : Bytes) :
    openK P k dst n c = .ok q ↔
      keyValid k = true ∧ n.length = ivSize ∧ validNonce n = true ∧ macSize ≤ c.length ∧
      poly1305MAC P (c.take (c.length - macSize)) n k = c.drop (c.length - macSize) ∧
      q = dst ++ P.ctr k.enc n (c.take (c.length - macSize)) := by
  unfold openK poly1305Verify poly1305MAC
  by_cases h1 : keyValid k = true
  · by_cases h2 : n.length = ivSize
    · by_cases h3 : validNonce n = true
      · by_cases h4 : c.length < macSize
        · simp [h1, h2, h3, h4]; omega
        · by_cases h5 : P.poly (poly1305PrepareKey P n k) (c.take (c.length - macSize)) = c.drop (c.length - macSize)
          · simp [h1, h2, h3, h4, h5, eq_comm]; omega
          · simp [h1, h2, h3, h4, h5]
      · simp [h1, h2, h3]
    · simp [h1, h2]
  · simp [h1]

theorem open_short (P : Prims) (k : Key) (dst n c : Bytes) (h : c.length < macSize) :
    ∀ q, openK P k dst n c ≠ .ok q := by
  intro q hq
  have := (open_ok_iff_mac P k dst n c q).mp hq
  omega

/-- a stored buffer shorter than `Extension` never decrypts -/
theorem openBuf_short (P : Prims) (k : Key) (buf : Bytes) (h : buf.length < extension) :
    ∀ q, openBuf P k buf ≠ .ok q := by
  intro q hq
  have h' := (open_ok_iff_mac P k [] _ _ q).mp hq
  have he : extension = ivSize + macSize := by decide
  have h1 := h'.2.1
  have h2 := h'.2.2.2.1
  simp only [List.length_take, List.length_drop] at h1 h2
  omega

theorem open_invalid_key (P : Prims) (k : Key) (dst n c : Bytes) (h : keyInvalid k = true) :
    openK P k dst n c = .err .invalidKey := by
  unfold openK; simp [keyValid_eq, h]

theorem open_zero_nonce (P : Prims) (k : Key) (dst n c : Bytes) (h : allZero n = true) :
    ∀ q, openK P k dst n c ≠ .ok q := by
  intro q hq
  have := (open_ok_iff_mac P k dst n c q).mp hq
  rw [validNonce_eq] at this; simp [h] at this

/-- with a nonce of the right length (what every caller passes) `Open` never panics -/
theorem open_no_panic (P : Prims) (k : Key) (dst n c : Bytes) (h : n.length = ivSize) :
    ∀ w, openK P k dst n c ≠ .panic w := by
  intro w hw
  unfold openK at hw
  split at hw; · cases hw
  split at hw; · simp_all
  split at hw; · cases hw
  split at hw; · cases hw
  dsimp only at hw
  split at hw <;> cases hw

/-- **Round trip**: what `Seal` produced (after the caller's `dst` prefix) opens to the plaintext. -/
theorem open_seal (P : Prims) (L : Laws P) (k : Key) (dst dst' n p c : Bytes)
    (h : sealK P k dst n p [] = .ok c) :
    openK P k dst' n (c.drop dst.length) = .ok (dst' ++ p) := by
  obtain ⟨hk, -, hn, hv, hc⟩ := (seal_ok_iff P k dst n p [] c).mp h
  rw [open_ok_iff_mac]
  have hd : c.drop dst.length = P.ctr k.enc n p ++ poly1305MAC P (P.ctr k.enc n p) n k := by
    rw [hc, List.append_assoc, List.drop_left']; rfl
  have hlen : (c.drop dst.length).length - macSize = (P.ctr k.enc n p).length := by
    rw [hd]; simp [poly1305MAC, L.poly_len]
  refine ⟨hk, hn, hv, ?_, ?_, ?_⟩
  · rw [hd]; simp [poly1305MAC, L.poly_len]
  · rw [hlen, hd, List.take_left', List.drop_left'] <;> rfl
  · rw [hlen, hd, List.take_left' rfl, L.ctr_inv]

/-- round trip in the stored form used by every call site -/
theorem openBuf_sealWithNonce (P : Prims) (L : Laws P) (k : Key) (n p c : Bytes)
    (h : sealWithNonce P k n p = .ok c) : openBuf P k c = .ok p := by
  have hn := ((seal_ok_iff P k n n p [] c).mp h).2.2.1
  have ht := (sealWithNonce_len P L k n p c h).2
  unfold openBuf
  rw [ht, ← hn]
  exact open_seal P L k n [] n p c h

/-! ### Tampering: exact acceptance conditions -/

/-- A change of the tag alone is rejected, for every key — no assumption on the primitives. -/
theorem tag_change_rejected (P : Prims) (k : Key) (dst n body tag tag' : Bytes)
    (htag : tag = poly1305MAC P body n k) (hl : tag'.length = macSize) (hne : tag' ≠ tag) :
    ∀ q, openK P k dst n (body ++ tag') ≠ .ok q := by
  intro q hq
  have h := ((open_ok_iff_mac P k dst n _ q).mp hq).2.2.2.2.1
  have hlen : (body ++ tag').length - macSize = body.length := by simp [hl]
  rw [hlen, List.take_left' rfl, List.drop_left' rfl] at h
  exact hne (by rw [← h, htag])

/-- A changed body under the original tag is accepted iff the two bodies collide under the
    one-time Poly1305-AES key of this (key, nonce). -/
theorem body_change_accepted_iff (P : Prims) (k : Key) (dst n body body' tag : Bytes)
    (hk : keyValid k = true) (hn : n.length = ivSize) (hv : validNonce n = true)
    (htag : tag = poly1305MAC P body n k) (hl : tag.length = macSize) :
    (∃ q, openK P k dst n (body' ++ tag) = .ok q) ↔ poly1305MAC P body' n k = poly1305MAC P body n k := by
  have hlen : (body' ++ tag).length - macSize = body'.length := by simp [hl]
  constructor
  · rintro ⟨q, hq⟩
    have h := ((open_ok_iff_mac P k dst n _ q).mp hq).2.2.2.2.1
    rw [hlen, List.take_left' rfl, List.drop_left' rfl] at h
    rw [h, htag]
  · intro h
    refine ⟨_, (open_ok_iff_mac P k dst n _ _).mpr ⟨hk, hn, hv, by simp [hl], ?_, rfl⟩⟩
    rw [hlen, List.take_left' rfl, List.drop_left' rfl, h, htag]

/-- A changed nonce is accepted iff the tag is also the tag of the same body under the other nonce. -/
theorem nonce_change_accepted_iff (P : Prims) (k : Key) (dst n n' body tag : Bytes)
    (hk : keyValid k = true) (hn : n'.length = ivSize) (hv : validNonce n' = true)
    (htag : tag = poly1305MAC P body n k) (hl : tag.length = macSize) :
    (∃ q, openK P k dst n' (body ++ tag) = .ok q) ↔ poly1305MAC P body n' k = poly1305MAC P body n k := by
  have hlen : (body ++ tag).length - macSize = body.length := by simp [hl]
  constructor
  · rintro ⟨q, hq⟩
    have h := ((open_ok_iff_mac P k dst n' _ q).mp hq).2.2.2.2.1
    rw [hlen, List.take_left' rfl, List.drop_left' rfl] at h
    rw [h, htag]
  · intro h
    refine ⟨_, (open_ok_iff_mac P k dst n' _ _).mpr ⟨hk, hn, hv, by simp [hl], ?_, rfl⟩⟩
    rw [hlen, List.take_left' rfl, List.drop_left' rfl, h, htag]

/-- Opening with another key is accepted iff that key produces the same tag (whatever its
    encryption part is). -/
theorem other_key_accepted_iff (P : Prims) (k k' : Key) (dst n body tag : Bytes)
    (hk : keyValid k' = true) (hn : n.length = ivSize) (hv : validNonce n = true)
    (htag : tag = poly1305MAC P body n k) (hl : tag.length = macSize) :
    (∃ q, openK P k' dst n (body ++ tag) = .ok q) ↔ poly1305MAC P body n k' = poly1305MAC P body n k := by
  have hlen : (body ++ tag).length - macSize = body.length := by simp [hl]
  constructor
  · rintro ⟨q, hq⟩
    have h := ((open_ok_iff_mac P k' dst n _ q).mp hq).2.2.2.2.1
    rw [hlen, List.take_left' rfl, List.drop_left' rfl] at h
    rw [h, htag]
  · intro h
    refine ⟨_, (open_ok_iff_mac P k' dst n _ _).mpr ⟨hk, hn, hv, by simp [hl], ?_, rfl⟩⟩
    rw [hlen, List.take_left' rfl, List.drop_left' rfl, h, htag]

/-- Boundary of the statement "fails when a different key is used": the encryption key takes no
    part in authentication. A key with the same MAC part and another (valid) encryption part is
    accepted and yields the CTR stream of *that* key. (Real keys are generated as a whole, so this
    needs a key sharing 32 secret bytes with the right one; recorded, not claimed.) -/
theorem enc_key_only_swap_accepted (P : Prims) (L : Laws P) (k k' : Key) (n p c : Bytes)
    (h : sealK P k [] n p [] = .ok c) (hK : k'.macK = k.macK) (hR : k'.macR = k.macR)
    (hv : keyValid k' = true) :
    openK P k' [] n c = .ok (P.ctr k'.enc n (P.ctr k.enc n p)) := by
  obtain ⟨-, -, hn, hvn, hc⟩ := (seal_ok_iff P k [] n p [] c).mp h
  simp only [List.nil_append] at hc
  rw [open_ok_iff_mac]
  have hlen : c.length - macSize = (P.ctr k.enc n p).length := by
    rw [hc]; simp [poly1305MAC, L.poly_len]
  have hm : ∀ b, poly1305MAC P b n k' = poly1305MAC P b n k := by
    intro b; simp [poly1305MAC, poly1305PrepareKey, hK, hR]
  refine ⟨hv, hn, hvn, by rw [hc]; simp [poly1305MAC, L.poly_len], ?_, ?_⟩
  · rw [hlen, hc, List.take_left' rfl, List.drop_left' rfl, hm]
  · rw [hlen, hc, List.take_left' rfl]; rfl

/-- General form: any accepted input different from the sealed one carries a *forgery*: a valid
    (nonce, body, tag) triple different from the one `Seal` issued. -/
theorem modified_accepted_is_forgery (P : Prims) (k : Key) (dst n p c n' c' q : Bytes)
    (h : sealK P k [] n p [] = .ok c) (hne : (n', c') ≠ (n, c))
    (ho : openK P k dst n' c' = .ok q) :
    ∃ body' tag', c' = body' ++ tag' ∧ tag'.length = macSize ∧ tag' = poly1305MAC P body' n' k ∧
      (n', body', tag') ≠ (n, P.ctr k.enc n p, poly1305MAC P (P.ctr k.enc n p) n k) := by
  obtain ⟨-, -, -, -, hc⟩ := (seal_ok_iff P k [] n p [] c).mp h
  obtain ⟨-, -, -, hlen, hmac, -⟩ := (open_ok_iff_mac P k dst n' c' q).mp ho
  refine ⟨c'.take (c'.length - macSize), c'.drop (c'.length - macSize),
    (List.take_append_drop _ _).symm, by simp; omega, hmac.symm, ?_⟩
  intro heq
  apply hne
  simp only [Prod.mk.injEq] at heq ⊢
  refine ⟨heq.1, ?_⟩
  rw [hc, List.nil_append, ← heq.2.2, ← heq.2.1, List.take_append_drop]

/-! ### KDF -/

theorem kdf_rejects_bad_salt (sc) (p : Params) (salt pw : Bytes) (h : salt.length ≠ saltLength) :
    kdf sc p salt pw = .err .badSalt := by
  unfold kdf; simp [h]

theorem kdf_ok_checks (sc) (p : Params) (salt pw : Bytes) (k : Key) (h : kdf sc p salt pw = .ok k) :
    salt.length = saltLength ∧ paramsCheck p.N p.R p.P salt.length dkLen = true ∧
    scryptKeyCheck p.N p.R p.P = true := by
  unfold kdf at h
  repeat' split at h
  all_goals simp_all

/-- a derived key is the scrypt output cut into `EncryptionKey ‖ K ‖ R`, nothing else -/
theorem kdf_key_split (sc) (p : Params) (salt pw : Bytes) (k : Key) (h : kdf sc p salt pw = .ok k) :
    k.enc ++ k.macK ++ k.macR = sc pw salt p.N p.R p.P 64 ∧
    k.enc.length = 32 ∧ k.macK.length = 16 ∧ k.macR.length = 16 := by
  have hkK : macKeySizeK = 16 := by decide
  have hkR : macKeySizeR = 16 := by decide
  have hak : aesKeySize = 32 := by decide
  obtain ⟨hs, hp, hc⟩ := kdf_ok_checks sc p salt pw k h
  have h1 : (salt.length != saltLength) = false := by simp [hs]
  unfold kdf at h
  simp only [h1, hp, hc, Bool.false_eq_true, if_false, Bool.not_true, hkK, hkR, hak, Nat.reduceAdd] at h
  split at h
  · cases h
  · rename_i hlen
    simp only [bne_iff_ne, ne_eq, Decidable.not_not] at hlen
    injection h with h
    subst h
    simp only [List.length_take, List.length_drop, hlen]
    refine ⟨?_, by omega, by omega, by omega⟩
    generalize sc pw salt p.N p.R p.P 64 = sk at hlen ⊢
    have h3 : List.take 16 (List.drop 16 (List.drop 32 sk)) = List.drop 16 (List.drop 32 sk) := by
      apply List.take_of_length_le; simp [hlen]
    rw [h3, List.append_assoc, List.take_append_drop, List.take_append_drop]

/-- the accepted parameter region, in plain arithmetic: this is `specKdfOK` -/
theorem kdf_spec (sc) (p : Params) (salt pw : Bytes) :
    specKdfOK p salt.length (match kdf sc p salt pw with | .ok _ => true | .err _ => false) = true := by
  cases hk : kdf sc p salt pw with
  | err e => simp [specKdfOK]
  | ok k =>
    obtain ⟨hs, hp, hc⟩ := kdf_ok_checks sc p salt pw k hk
    unfold paramsCheck at hp
    unfold scryptKeyCheck at hc
    repeat' split at hp
    all_goals try (simp at hp; done)
    repeat' split at hc
    all_goals try (simp at hc; done)
    simp only [specKdfOK, hs, Bool.not_true, Bool.false_or, beq_self_eq_true, Bool.true_and,
      Bool.and_eq_true, decide_eq_true_eq, beq_iff_eq]
    simp only [Bool.or_eq_true, decide_eq_true_eq, bne_iff_ne, ne_eq, not_or, Int.not_lt,
      Int.not_le, Decidable.not_not] at *
    omega

/-! ### The transcription meets the executable statement -/

/-- encryption side of `specOK`: for every key, nonce and plaintext -/
theorem seal_spec (P : Prims) (L : Laws P) (k : Key) (n p : Bytes) :
    specSealOK k n p (sealWithNonce P k n p)
      (match sealWithNonce P k n p with | .ok c => some (openBuf P k c) | .panic _ => none) = true := by
  unfold specSealOK
  cases hs : sealWithNonce P k n p with
  | panic w =>
    by_cases h1 : (keyInvalid k || allZero n) = true
    · simp [h1]
    · by_cases h2 : n.length = ivSize
      · exfalso
        simp only [Bool.or_eq_true, not_or, Bool.not_eq_true] at h1
        have : sealWithNonce P k n p = .ok _ :=
          (seal_ok_iff P k n n p [] _).mpr ⟨by rw [keyValid_eq, h1.1]; rfl, rfl, h2,
            by rw [validNonce_eq, h1.2]; rfl, rfl⟩
        rw [hs] at this; cases this
      · simp [h1, h2]
  | ok c =>
    have h' := (seal_ok_iff P k n n p [] c).mp hs
    have hl := sealWithNonce_len P L k n p c hs
    have hk : keyInvalid k = false := by have := h'.1; rw [keyValid_eq] at this; simpa using this
    have hz : allZero n = false := by have := h'.2.2.2.1; rw [validNonce_eq] at this; simpa using this
    have ho := openBuf_sealWithNonce P L k n p c hs
    simp [hk, hz, h'.2.2.1, hl.1, hl.2, ho, extension]

/-- decryption side, untouched message -/
theorem open_spec_untouched (P : Prims) (L : Laws P) (k : Key) (n p c : Bytes)
    (h : sealWithNonce P k n p = .ok c) : specOpenOK .none p (openBuf P k c) = true := by
  simp [specOpenOK, openBuf_sealWithNonce P L k n p c h]

/-- decryption side, any tampering class for which the statement claims rejection: either the
    implementation-level predicate holds, or the tampered input carries a correct tag (a MAC
    forgery, `open_ok_iff_mac`). -/
theorem open_spec_tampered (P : Prims) (k' : Key) (t : Tamper) (orig dst n' c' : Bytes)
    (ht : t ≠ .none) :
    specOpenOK t orig (openK P k' dst n' c') = true ∨
      (macSize ≤ c'.length ∧
       poly1305MAC P (c'.take (c'.length - macSize)) n' k' = c'.drop (c'.length - macSize)) := by
  cases hr : openK P k' dst n' c' with
  | ok q =>
    right
    have := (open_ok_iff_mac P k' dst n' c' q).mp hr
    exact ⟨this.2.2.2.1, this.2.2.2.2.1⟩
  | panic w => left; cases t <;> simp_all [specOpenOK]
  | err e => left; cases t <;> simp_all [specOpenOK]

/-! ### Non-vacuity -/

/-- a concrete instance of the primitives satisfying `Laws` (so the hypotheses are satisfiable) -/
def toyPrims : Prims where
  aes128 := fun k b => (k ++ b).take 16
  poly := fun k m => (m ++ k ++ List.replicate 16 0).take 16
  ctr := fun _ _ d => d.map (fun b => b ^^^ 0x5a)

theorem toy_laws : Laws toyPrims where
  ctr_len := by intros; simp [toyPrims]
  ctr_inv := by
    intro k n d; simp only [toyPrims, List.map_map]
    conv => rhs; rw [← List.map_id d]
    congr 1; funext b; simp [UInt8.xor_assoc]
  poly_len := by
    intro k m; have : macSize = 16 := by decide
    simp [toyPrims, this]; omega

def toyKey : Key := { macK := List.replicate 16 1, macR := List.replicate 16 2, enc := List.replicate 32 3 }
def toyNonce : Bytes := List.replicate 16 7

example : keyValid toyKey = true := by decide
example : ∃ c, sealWithNonce toyPrims toyKey toyNonce [1, 2, 3] = .ok c ∧ c.length = 35 ∧
    openBuf toyPrims toyKey c = .ok [1, 2, 3] := by
  refine ⟨_, rfl, by decide, by decide⟩
example : ∃ w, sealWithNonce toyPrims { toyKey with macR := List.replicate 16 0 } toyNonce [1] = .panic w :=
  ⟨_, rfl⟩
example : openBuf toyPrims toyKey (toyNonce ++ [1, 2, 3] ++ List.replicate 16 9) = .err .unauthenticated := by
  decide
example : kdf (fun _ _ _ _ _ n => List.replicate n 5) ⟨16, 1, 1⟩ (List.replicate 64 0) [] =
    .ok { enc := List.replicate 32 5, macK := List.replicate 16 5, macR := List.replicate 16 5 } := by
  decide
example : kdf (fun _ _ _ _ _ n => List.replicate n 5) ⟨12, 1, 1⟩ (List.replicate 64 0) [] =
    .err .scryptErr := by decide

end Restic.Props.C05
