import Restic.Proofs.RepoTrace
import Restic.Proofs.Writer
import Restic.Gen.Source
/-!
# C11 — An interrupted or failed backup leaves the repository consistent

Statement (properties.jsonl): if backup stops at any point (crash, cancellation or backend
error), existing snapshots remain restorable, the repository passes `check` (unreferenced packs
are only hints), and no snapshot refers to data that was not fully stored and indexed first.
A later backup or prune on that state succeeds.

Formal reading. The backend operations of one backup form a trace in the language
`accept_backup r0` (`Restic.Model.RepoTrace`): guarded pack / index saves, then at most one
snapshot save, which is last. "Stops at any point" = any prefix `tr.take k`.
 * `backup_prefix_safe`   every prefix state passes the abstract check (`checkOK`: index files name
                          only saved packs with matching entries, every snapshot present is
                          restorable), every old snapshot is still there and restorable;
 * `snapshot_only_at_end` before the last operation no new snapshot file exists;
 * `backup_monotone`      prefix states only grow — so the preconditions of a later run
                          (`checkOK`) hold in every crash state, and
 * `backup_then_backup`   a later backup from any crash state is again safe at each of its prefixes;
 * `backupRun_accepted`   (module `Restic.Proofs.Writer`) the transcribed writer
                          (uploader pool schedule + flush + snapshot, with failures) only produces
                          traces of that language, and a failed run contains no snapshot save.
The prune half of "a later backup or prune succeeds" is C09's subject (its precondition is the
`checkOK` established here); the correspondence run executes a real `prune` on crash states.
-/
namespace Restic.Props.C11
open Restic.Model.RepoTrace Restic.Proofs.RepoTrace

theorem accept_backup_take {r : Repo} {tr : List Ev} (h : accept_backup r tr = true) (k : Nat) :
    acceptAdds r (tr.take k) = true := by
  unfold accept_backup at h
  rw [Bool.and_eq_true] at h
  exact acceptAdds_take h.1 k

/-- **C11**: every crash point of an accepted backup trace leaves a repository that passes the
    abstract check, with every earlier snapshot still present and restorable. -/
theorem backup_prefix_safe (r : Repo) (tr : List Ev) (hacc : accept_backup r tr = true)
    (hc : checkOK r = true) (k : Nat) :
    checkOK (applyAll r (tr.take k)) = true ∧
    (∀ x ∈ r.snaps, x ∈ (applyAll r (tr.take k)).snaps ∧ restorable (applyAll r (tr.take k)) x.2 = true) ∧
    specC11State r (applyAll r (tr.take k)) = true := by
  have hk := accept_backup_take hacc k
  obtain ⟨hsub, hchk⟩ := acceptAdds_safe hk
  have hck := hchk hc
  have hold : ∀ x ∈ r.snaps, x ∈ (applyAll r (tr.take k)).snaps ∧ restorable (applyAll r (tr.take k)) x.2 = true := by
    intro x hx
    refine ⟨hsub.snaps x hx, restorable_mono hsub.toSubPI ?_⟩
    unfold checkOK snapsOK at hc
    rw [Bool.and_eq_true, List.all_eq_true] at hc
    exact hc.2 x hx
  refine ⟨hck, hold, ?_⟩
  unfold specC11State
  rw [Bool.and_eq_true, List.all_eq_true]
  refine ⟨hck, fun x hx => ?_⟩
  rw [Bool.and_eq_true]
  exact ⟨snapPresent_of_mem (hold x hx).1, (hold x hx).2⟩

theorem snaps_unchanged_of_no_snap {r : Repo} {tr : List Ev} (h : acceptAdds r tr = true)
    (hn : tr.all (fun e => !isSaveSnap e) = true) : (applyAll r tr).snaps = r.snaps := by
  induction tr generalizing r with
  | nil => rfl
  | cons e tr ih =>
    simp only [acceptAdds, List.all_cons, Bool.and_eq_true] at h hn
    rw [applyAll_cons, ih h.2 hn.2]
    cases e <;> simp_all [addGuard, isSaveSnap, apply]

theorem snapOnlyLast_take {tr : List Ev} (h : snapOnlyLast tr = true) {k : Nat} (hk : k < tr.length) :
    (tr.take k).all (fun e => !isSaveSnap e) = true := by
  induction tr generalizing k with
  | nil => simp
  | cons e tr ih =>
    cases k with
    | zero => simp
    | succ k =>
      cases tr with
      | nil => simp at hk
      | cons e2 tr2 =>
        simp only [snapOnlyLast, Bool.and_eq_true] at h
        simp only [List.take_succ_cons, List.all_cons, Bool.and_eq_true]
        exact ⟨h.1, ih h.2 (by simpa using hk)⟩

/-- a backup that did not reach its last operation has not written a snapshot file -/
theorem snapshot_only_at_end (r : Repo) (tr : List Ev) (hacc : accept_backup r tr = true)
    (k : Nat) (hk : k < tr.length) : (applyAll r (tr.take k)).snaps = r.snaps := by
  have h := hacc
  unfold accept_backup at h
  rw [Bool.and_eq_true] at h
  exact snaps_unchanged_of_no_snap (accept_backup_take hacc k) (snapOnlyLast_take h.2 hk)

theorem acceptAdds_split {r : Repo} {a b : List Ev} (h : acceptAdds r (a ++ b) = true) :
    acceptAdds r a = true ∧ acceptAdds (applyAll r a) b = true := by
  induction a generalizing r with
  | nil => exact ⟨rfl, h⟩
  | cons e a ih =>
    simp only [List.cons_append, acceptAdds, Bool.and_eq_true] at h ⊢
    obtain ⟨h1, h2⟩ := ih h.2
    exact ⟨⟨h.1, h1⟩, by rw [applyAll_cons]; exact h2⟩

/-- **monotone**: crash states only grow (nothing is ever taken away by a backup) -/
theorem backup_monotone (r : Repo) (tr : List Ev) (hacc : accept_backup r tr = true) (j k : Nat)
    (hjk : j ≤ k) : Sub (applyAll r (tr.take j)) (applyAll r (tr.take k)) := by
  have hk := accept_backup_take hacc k
  have : tr.take k = (tr.take k).take j ++ (tr.take k).drop j := (List.take_append_drop j _).symm
  rw [this] at hk
  have h2 := (acceptAdds_split hk).2
  have htake : (tr.take k).take j = tr.take j := by
    rw [List.take_take, Nat.min_eq_left hjk]
  rw [htake] at h2
  have := (acceptAdds_safe h2).1
  rw [← applyAll_append, ← htake, List.take_append_drop] at this
  rw [← htake]
  exact this

/-- a later backup started from *any* crash state of an earlier one is again safe at each of
    its own crash points (the precondition `checkOK` is what `backup_prefix_safe` established) -/
theorem backup_then_backup (r : Repo) (tr tr2 : List Ev) (hacc : accept_backup r tr = true)
    (hc : checkOK r = true) (k : Nat) (hacc2 : accept_backup (applyAll r (tr.take k)) tr2 = true) (j : Nat) :
    specC11State r (applyAll (applyAll r (tr.take k)) (tr2.take j)) = true := by
  have h1 := backup_prefix_safe r tr hacc hc k
  have h2 := backup_prefix_safe _ tr2 hacc2 h1.1 j
  unfold specC11State
  rw [Bool.and_eq_true, List.all_eq_true]
  refine ⟨h2.1, fun x hx => ?_⟩
  have hx1 := (h1.2.1 x hx).1
  have := h2.2.1 x hx1
  rw [Bool.and_eq_true]
  exact ⟨snapPresent_of_mem this.1, this.2⟩

/-- **C11 end to end for the transcribed writer**: whatever the pack jobs, the uploader schedule
    and the failure points are, every crash state of the run satisfies the executable statement
    of C11 (`specC11State`: abstract check, every older snapshot present and restorable). -/
theorem backupRun_safe (r0 : Repo) (jobs : List PackJob) (sched : List (Nat × Bool)) (fid : Nat)
    (flushFails : Bool) (sid : Nat) (sn : Snap) (snapFails : Bool)
    (hplan : Restic.Proofs.Writer.PlanOK r0 jobs sn) (hc : checkOK r0 = true) (k : Nat) :
    specC11State r0 (applyAll r0 ((backupRun jobs sched fid flushFails sid sn snapFails).take k)) = true :=
  (backup_prefix_safe r0 _
    (Restic.Proofs.Writer.backupRun_accepted r0 jobs sched fid flushFails sid sn snapFails hplan) hc k).2.2

/-- a failed attempt of the retry layer — the file was stored, the error was reported, the retry
    layer removed the file again — leaves the repository exactly as it was (the correspondence
    stream drops such save/remove pairs from the recorded trace) -/
theorem failed_attempt_noop (r : Repo) (p : Nat) (bs : List Blob) (hfresh : ∀ x ∈ r.packs, x.1 ≠ p) :
    apply (apply r (.savePack p bs)) (.removePack p) = r := by
  cases r with
  | mk packs indexes snaps =>
    simp only [apply, List.filter_cons, bne_self_eq_false, Bool.false_eq_true, if_false]
    congr
    rw [List.filter_eq_self]
    intro x hx
    simpa using hfresh x hx

/-! ### T1: call orders the writer transcription relies on (regenerated on every run) -/

def idx (l : List String) (c : String) : Nat := l.idxOf c

/-- `savePacker`: the pack is saved to the backend before `StorePack` puts it into the index;
    `StorePack`: storePack then saveFullIndex; `saveIndex`: every index is saved (then merged);
    `flush`: packers flushed and uploader waited for before `idx.Flush`;
    `WithBlobUploader`: callback, then flush; `Archiver.Snapshot`: WithBlobUploader, then SaveSnapshot
    (and no other SaveSnapshot). -/
theorem writer_call_orders :
    idx Restic.Gen.savePacker_calls "r.be.Save" < idx Restic.Gen.savePacker_calls "r.idx.StorePack" ∧
    "r.idx.StorePack" ∈ Restic.Gen.savePacker_calls ∧
    Restic.Gen.MasterIndex_StorePack_calls = ["mi.storePack", "mi.saveFullIndex"] ∧
    Restic.Gen.MasterIndex_saveFullIndex_calls = ["mi.finalizeFullIndexes", "mi.saveIndex"] ∧
    Restic.Gen.MasterIndex_Flush_calls = ["mi.finalizeNotFinalIndexes", "mi.saveIndex"] ∧
    Restic.Gen.Repository_flush_calls = ["r.flushBlobSaver", "r.flushPackUploader", "r.idx.Flush"] ∧
    Restic.Gen.Repository_flushPackUploader_calls
      = ["r.treePM.Flush", "r.dataPM.Flush", "r.uploader.TriggerShutdown", "r.packerWg.Wait"] ∧
    idx Restic.Gen.Repository_WithBlobUploader_calls "fn" < idx Restic.Gen.Repository_WithBlobUploader_calls "r.flush" ∧
    "r.flush" ∈ Restic.Gen.Repository_WithBlobUploader_calls ∧
    idx Restic.Gen.Archiver_Snapshot_calls "arch.Repo.WithBlobUploader"
      < idx Restic.Gen.Archiver_Snapshot_calls "data.SaveSnapshot" ∧
    (Restic.Gen.Archiver_Snapshot_calls.filter (· == "data.SaveSnapshot")).length = 1 := by decide

/-! ### Non-vacuity -/

def b1 : Blob := ⟨0, 11, 0, 100⟩
def b2 : Blob := ⟨1, 12, 0, 60⟩
def r0 : Repo := { packs := [(1, [b1])], indexes := [(2, [(1, [b1])])],
                   snaps := [(3, { key := 1, tree := 0, orig := none, needs := [(0, 11)] })] }
def goodTrace : List Ev :=
  [.savePack 20 [b2], .saveIndex 21 [(20, [b2])], .saveSnap 22 { key := 2, tree := 12, orig := none, needs := [(1, 12), (0, 11)] }]

example : checkOK r0 = true := by decide
example : accept_backup r0 goodTrace = true := by decide
example : endsWithSnap goodTrace = true := by decide
-- snapshot before the index that names its tree: outside the language, and really unsafe
example : accept_backup r0 [.savePack 20 [b2], .saveSnap 22 { key := 2, tree := 12, orig := none, needs := [(1, 12)] },
    .saveIndex 21 [(20, [b2])]] = false := by decide
example : checkOK (applyAll r0 [.savePack 20 [b2], .saveSnap 22 { key := 2, tree := 12, orig := none, needs := [(1, 12)] }]) = false := by decide
-- index before its pack: outside the language, and really unsafe
example : accept_backup r0 [.saveIndex 21 [(20, [b2])], .savePack 20 [b2]] = false := by decide
example : checkOK (applyAll r0 [.saveIndex 21 [(20, [b2])]]) = false := by decide

/-! the transcribed writer on a concrete plan: two packs, the uploader pool interleaves them, the
index is "full" after the first, flush saves the rest, then the snapshot -/
open Restic.Proofs.Writer in
example : backupRun [⟨20, [b2], true, 21⟩, ⟨30, [⟨0, 13, 0, 7⟩], false, 31⟩]
    [(0, false), (1, false), (0, false), (0, false), (1, false), (1, false)] 40 false 22
    { key := 2, tree := 12, orig := none, needs := [(1, 12), (0, 13), (0, 11)] } false
  = [.savePack 20 [b2], .savePack 30 [⟨0, 13, 0, 7⟩], .saveIndex 21 [(20, [b2])], .saveIndex 40 [(30, [⟨0, 13, 0, 7⟩])],
     .saveSnap 22 { key := 2, tree := 12, orig := none, needs := [(1, 12), (0, 13), (0, 11)] }] := by decide
-- the upload of the second pack fails: no flush, no snapshot
example : backupRun [⟨20, [b2], true, 21⟩, ⟨30, [⟨0, 13, 0, 7⟩], false, 31⟩]
    [(0, false), (1, true), (0, false), (0, false)] 40 false 22
    { key := 2, tree := 12, orig := none, needs := [(1, 12)] } false
  = [.savePack 20 [b2], .saveIndex 21 [(20, [b2])]] := by decide

end Restic.Props.C11
