import Restic.Model.Location
import Restic.Gen.Source
/-!
# C50 — Repository passwords embedded in locations are never displayed

Theorems over `Restic.Model.Location` (transcription of `location.StripPassword`,
`rest.StripPassword`, `prepareURL`, `strings.Replace(…, 1)`), for all location strings and all
`url.Parse` oracles.

* `strip_total` — `location.StripPassword` never panics (false for the code before the F14 fix:
  `unguarded_panics_on_rest`).
* `rest_shape` — with a password set, the display form is `rest:` + scheme part + user name +
  `:***@` + remainder, assembled from password-free parts only.
* `noninterference` — two parsed URLs that differ only in the password have the same display form.
* `secret_absent` — the literal reading: a secret that does not already occur in the password-free
  skeleton does not occur in the display form.
* `no_password_untouched`, `other_scheme_identity`, `unregistered_identity`.
* `model_meets_spec` — the transcription satisfies the executable statement `specOK`.
-/
namespace Restic.Props.C50
open Restic.Model.Location

/-! ### helper lemmas -/

theorem hasPrefix_len {s p : Bytes} (h : hasPrefix s p = true) : p.length ≤ s.length := by
  unfold hasPrefix at h
  exact (List.isPrefixOf_iff_prefix.mp h).length_le

theorem restPrefix_length : restPrefix.length = 5 := rfl

theorem replaceFirst_here (old new post : Bytes) :
    replaceFirst (old ++ post) old new = new ++ post := by
  unfold replaceFirst
  have h : old.isPrefixOf (old ++ post) = true :=
    List.isPrefixOf_iff_prefix.mpr (List.prefix_append old post)
  simp [h]

/-- `strings.Replace(pre ++ old ++ post, old, new, 1)` hits the occurrence after `pre` when no
    earlier occurrence is possible: `old` ends in a byte `z` that does not occur in `pre`, and
    `pre` ends in a byte `y` that does not occur in `old`. -/
theorem replaceFirst_after (pre old new post : Bytes) (y z : UInt8)
    (hz : z ∈ old) (hzpre : z ∉ pre)
    (hy : ∀ k, k < pre.length → y ∈ pre.drop k) (hyold : y ∉ old) :
    replaceFirst (pre ++ old ++ post) old new = pre ++ new ++ post := by
  induction pre with
  | nil => simpa using replaceFirst_here old new post
  | cons c t ih =>
    have hnot : old.isPrefixOf (c :: t ++ old ++ post) = false := by
      apply Bool.eq_false_iff.mpr
      intro hp
      have hp' : old <+: (c :: t) ++ (old ++ post) := by
        have := List.isPrefixOf_iff_prefix.mp hp
        simpa [List.append_assoc] using this
      have hpre : (c :: t) <+: (c :: t) ++ (old ++ post) := List.prefix_append _ _
      by_cases hl : old.length ≤ (c :: t).length
      · have : old <+: (c :: t) := List.prefix_of_prefix_length_le hp' hpre hl
        exact hzpre (this.subset hz)
      · have hl' : (c :: t).length ≤ old.length := by omega
        have : (c :: t) <+: old := List.prefix_of_prefix_length_le hpre hp' hl'
        have hy0 : y ∈ (c :: t).drop 0 := hy 0 (by simp)
        exact hyold (this.subset (by simpa using hy0))
    have hz' : z ∉ t := fun h => hzpre (List.mem_cons_of_mem _ h)
    have hy' : ∀ k, k < t.length → y ∈ t.drop k := by
      intro k hk
      have := hy (k + 1) (by simp; omega)
      simpa using this
    simp only [List.cons_append] at hnot ⊢
    rw [replaceFirst, hnot]
    simp only [Bool.false_eq_true, if_false]
    rw [ih hz' hy']

theorem last_mem_drop (pre : Bytes) (y : UInt8) (h : pre.getLast? = some y) :
    ∀ k, k < pre.length → y ∈ pre.drop k := by
  intro k hk
  have hne : pre.drop k ≠ [] := by
    intro h0
    have := congrArg List.length h0
    simp at this
    omega
  have hl : (pre.drop k).getLast? = some y := by
    rw [List.getLast?_drop]
    simp [h]
    omega
  exact List.mem_of_getLast? hl

/-! ### totality (F14) -/

theorem restStripUnguarded_total (parse : Parser) (s : Bytes) (h : 5 ≤ s.length) :
    restStripUnguarded parse s ≠ .panic := by
  unfold restStripUnguarded prepareURL sliceTo sliceFrom
  simp only [h, if_true]
  repeat' split
  all_goals simp

theorem restStrip_total (parse : Parser) (s : Bytes) : restStrip parse s ≠ .panic := by
  unfold restStrip
  by_cases hp : hasPrefix s restPrefix = true
  · simp only [hp, Bool.not_true, Bool.false_eq_true, if_false]
    exact restStripUnguarded_total parse s (by simpa [restPrefix_length] using hasPrefix_len hp)
  · simp [hp]

/-- **C50 totality**: `location.StripPassword` never panics, for every registry, every location
    string and every behaviour of `url.Parse`. -/
theorem strip_total (parse : Parser) (reg : Registry) (s : Bytes) :
    locStrip parse reg s ≠ .panic := by
  unfold locStrip
  split
  · exact restStrip_total parse s
  · simp
  · simp

/-- F14 negation witness: the code before the fix panics on the location `rest` (for every
    registry that has the REST backend under its name, e.g. restic's). -/
theorem unguarded_panics_on_rest (parse : Parser) : restStripUnguarded parse restName = .panic := by
  rfl

/-- … and `rest` is dispatched to the REST stripper: no colon, so the whole string is the scheme. -/
theorem rest_dispatches_to_rest (parse : Parser) :
    locStrip parse [(restName, .rest)] restName = restStrip parse restName := by
  rfl

/-! ### shape and noninterference -/

/-- the password-free skeleton the display form is made of -/
def skeleton (pre username post : Bytes) : Bytes := pre ++ username ++ stars ++ post

theorem stripUrl_shape (u : Url) (ui : UserInfo) (p : Bytes)
    (hu : u.user = some ui) (hp : ui.password = some p) (hwf : u.wf = true) :
    stripUrl u ui = skeleton u.pre ui.username u.post := by
  unfold Url.wf at hwf
  simp only [hu, hp, Bool.and_eq_true, Bool.not_eq_true', beq_iff_eq] at hwf
  obtain ⟨⟨⟨hlast, hat⟩, hus⟩, hps⟩ := hwf
  unfold stripUrl Url.str skeleton
  simp only [hu]
  have hold : cAt ∈ ui.str ++ [cAt] := by simp
  have hatpre : cAt ∉ u.pre := by simpa using hat
  have hslash : cSlash ∉ ui.str ++ [cAt] := by
    unfold UserInfo.str
    simp only [hp, List.mem_append, List.mem_cons, List.not_mem_nil, or_false, not_or]
    refine ⟨⟨?_, ?_, ?_⟩, by decide⟩
    · simpa using hus
    · decide
    · simpa using hps
  have := replaceFirst_after u.pre (ui.str ++ [cAt]) (ui.username ++ stars) u.post cSlash cAt
    hold hatpre (last_mem_drop u.pre cSlash hlast) hslash
  simpa [List.append_assoc] using this

/-- **Shape**: when `url.Parse` accepts the prepared URL with a password set, the display form is
    `rest:` followed by the password-free skeleton `scheme:// user :***@ rest`. -/
theorem rest_shape (parse : Parser) (s s' : Bytes) (u : Url) (ui : UserInfo) (p : Bytes)
    (hpre : hasPrefix s restPrefix = true) (hprep : prepareURL s = some s')
    (hparse : parse s' = some u) (hu : u.user = some ui) (hp : ui.password = some p)
    (hwf : u.wf = true) :
    restStrip parse s = .ok (restPrefix ++ skeleton u.pre ui.username u.post) := by
  have h5 : 5 ≤ s.length := by simpa [restPrefix_length] using hasPrefix_len hpre
  have hscheme : s.take 5 = restPrefix := by
    unfold hasPrefix at hpre
    have := List.isPrefixOf_iff_prefix.mp hpre
    exact (List.prefix_iff_eq_take.mp this).symm ▸ rfl
  unfold restStrip
  simp only [hpre, Bool.not_true, Bool.false_eq_true, if_false]
  unfold restStripUnguarded sliceTo
  simp only [h5, if_true, hprep, hparse, hu, hp, hscheme]
  rw [stripUrl_shape u ui p hu hp hwf]

/-- **Noninterference** (on the structure): two parsed URLs that differ only in the password give
    the same display form. -/
theorem noninterference_url (pre post username escUser p₁ p₂ : Bytes)
    (h₁ : (Url.mk pre (some ⟨username, escUser, some p₁⟩) post).wf = true)
    (h₂ : (Url.mk pre (some ⟨username, escUser, some p₂⟩) post).wf = true) :
    stripUrl ⟨pre, some ⟨username, escUser, some p₁⟩, post⟩ ⟨username, escUser, some p₁⟩ =
    stripUrl ⟨pre, some ⟨username, escUser, some p₂⟩, post⟩ ⟨username, escUser, some p₂⟩ := by
  rw [stripUrl_shape _ _ p₁ rfl rfl h₁, stripUrl_shape _ _ p₂ rfl rfl h₂]

/-- **Noninterference** (on `rest.StripPassword`): two accepted locations whose parses differ only
    in the password are displayed identically. -/
theorem noninterference (parse : Parser) (s₁ s₂ s₁' s₂' pre post username escUser p₁ p₂ : Bytes)
    (hs₁ : hasPrefix s₁ restPrefix = true) (hs₂ : hasPrefix s₂ restPrefix = true)
    (hq₁ : prepareURL s₁ = some s₁') (hq₂ : prepareURL s₂ = some s₂')
    (hp₁ : parse s₁' = some ⟨pre, some ⟨username, escUser, some p₁⟩, post⟩)
    (hp₂ : parse s₂' = some ⟨pre, some ⟨username, escUser, some p₂⟩, post⟩)
    (h₁ : (Url.mk pre (some ⟨username, escUser, some p₁⟩) post).wf = true)
    (h₂ : (Url.mk pre (some ⟨username, escUser, some p₂⟩) post).wf = true) :
    restStrip parse s₁ = restStrip parse s₂ := by
  rw [rest_shape parse s₁ s₁' _ _ p₁ hs₁ hq₁ hp₁ rfl rfl h₁,
      rest_shape parse s₂ s₂' _ _ p₂ hs₂ hq₂ hp₂ rfl rfl h₂]

/-! ### the literal reading: the secret is not a substring of what is displayed -/

theorem isInfix_iff (a b : Bytes) : isInfix a b = true ↔ a <:+: b := by
  induction b with
  | nil =>
    simp [isInfix, List.isEmpty_iff]
  | cons c t ih =>
    unfold isInfix
    rw [Bool.or_eq_true, ih, List.isPrefixOf_iff_prefix, List.infix_cons_iff]

/-- **Secret absent**: any byte string (e.g. the password, escaped or decoded, or a part of it)
    that does not already occur in the password-free skeleton does not occur in the display form. -/
theorem secret_absent (parse : Parser) (s s' : Bytes) (u : Url) (ui : UserInfo) (p sec : Bytes)
    (hpre : hasPrefix s restPrefix = true) (hprep : prepareURL s = some s')
    (hparse : parse s' = some u) (hu : u.user = some ui) (hp : ui.password = some p)
    (hwf : u.wf = true)
    (hsk : ¬ sec <:+: restPrefix ++ skeleton u.pre ui.username u.post) :
    ∀ o, restStrip parse s = .ok o → ¬ sec <:+: o := by
  intro o ho
  rw [rest_shape parse s s' u ui p hpre hprep hparse hu hp hwf] at ho
  cases ho
  exact hsk

/-- without a password (or when `url.Parse` rejects the string) the location is shown as typed,
    with the trailing slash `prepareURL` adds -/
theorem no_password_untouched (parse : Parser) (s s' : Bytes)
    (hpre : hasPrefix s restPrefix = true) (hprep : prepareURL s = some s')
    (hnp : ∀ u ui, parse s' = some u → u.user = some ui → ui.password = none) :
    restStrip parse s = .ok (restPrefix ++ s') := by
  have h5 : 5 ≤ s.length := by simpa [restPrefix_length] using hasPrefix_len hpre
  have hscheme : s.take 5 = restPrefix := by
    unfold hasPrefix at hpre
    have := List.isPrefixOf_iff_prefix.mp hpre
    exact (List.prefix_iff_eq_take.mp this).symm ▸ rfl
  unfold restStrip
  simp only [hpre, Bool.not_true, Bool.false_eq_true, if_false]
  unfold restStripUnguarded sliceTo
  simp only [h5, if_true, hprep, hscheme]
  split
  · rfl
  · next u hu =>
    split
    · rfl
    · next ui hui =>
      have := hnp u ui hu hui
      simp [this]

/-- backends registered with `location.NoPassword` show the location unchanged -/
theorem other_scheme_identity (parse : Parser) (reg : Registry) (s : Bytes)
    (h : reg.lookup (extractScheme s) = some .noPassword) : locStrip parse reg s = .ok s := by
  unfold locStrip; simp [h]

/-- unknown schemes and plain paths are shown unchanged -/
theorem unregistered_identity (parse : Parser) (reg : Registry) (s : Bytes)
    (h : reg.lookup (extractScheme s) = none) : locStrip parse reg s = .ok s := by
  unfold locStrip; simp [h]

/-! ### link to the executable statement -/

/-- The transcription meets `specOK`: for an accepted REST location with a password, every secret
    that is not already part of the password-free skeleton passes the executable check. -/
theorem model_meets_spec (parse : Parser) (s s' : Bytes) (u : Url) (ui : UserInfo) (p : Bytes)
    (secrets : List Bytes)
    (hpre : hasPrefix s restPrefix = true) (hprep : prepareURL s = some s')
    (hparse : parse s' = some u) (hu : u.user = some ui) (hp : ui.password = some p)
    (hwf : u.wf = true)
    (hsk : ∀ sec ∈ secrets, ¬ sec <:+: restPrefix ++ skeleton u.pre ui.username u.post) :
    specOK secrets (restStrip parse s) = true := by
  rw [rest_shape parse s s' u ui p hpre hprep hparse hu hp hwf]
  unfold specOK
  simp only [Bool.and_eq_true, List.all_eq_true, Bool.not_eq_true', Bool.or_eq_true]
  refine ⟨?_, Or.inr ?_⟩
  · intro sec hsec
    apply Bool.eq_false_iff.mpr
    intro h
    exact hsk sec hsec ((isInfix_iff _ _).mp h)
  · apply (isInfix_iff _ _).mpr
    unfold skeleton
    exact ⟨restPrefix ++ u.pre ++ ui.username, u.post, by simp [List.append_assoc]⟩

/-- and on every input whatsoever the model never produces the `panic` the spec forbids -/
theorem model_never_panics_spec (parse : Parser) (reg : Registry) (s : Bytes) :
    specOK [] (locStrip parse reg s) = true := by
  have := strip_total parse reg s
  unfold specOK
  split
  · exact absurd ‹_› this
  · simp

/-! ### T1: the guard is in the source -/

/-- The regenerated call list of `rest.StripPassword` starts with the prefix guard
    (`strings.HasPrefix`) — before the F14 fix the first call was `prepareURL`. -/
theorem guard_in_source :
    Restic.Gen.restStripPassword_calls.head? = some "strings.HasPrefix" := by decide

/-- `location.StripPassword` consults the registry and delegates to the factory. -/
theorem dispatch_in_source :
    Restic.Gen.locStripPassword_calls = ["extractScheme", "registry.Lookup", "factory.StripPassword"] := by
  decide

/-! ### non-vacuity -/

/-- `rest:http://u:p%40@h/x` with the parse `net/url` returns -/
def exUrl : Url := ⟨[0x68,0x74,0x74,0x70,0x3a,0x2f,0x2f], some ⟨[0x75], [0x75], some [0x70,0x25,0x34,0x30]⟩, [0x68,0x2f,0x78]⟩

example : exUrl.wf = true := by decide
example : stripUrl exUrl ⟨[0x75], [0x75], some [0x70,0x25,0x34,0x30]⟩ =
    [0x68,0x74,0x74,0x70,0x3a,0x2f,0x2f] ++ [0x75] ++ stars ++ [0x68,0x2f,0x78] := by decide
example : restStrip (fun _ => some exUrl) (restPrefix ++ [0x78]) =
    .ok (restPrefix ++ [0x68,0x74,0x74,0x70,0x3a,0x2f,0x2f,0x75] ++ stars ++ [0x68,0x2f,0x78]) := by decide
example : specOK [[0x70,0x25,0x34,0x30]] (restStrip (fun _ => some exUrl) (restPrefix ++ [0x78])) = true := by decide
/-- the spec is falsifiable: an implementation that echoed the URL would fail it -/
example : specOK [[0x70,0x25,0x34,0x30]] (.ok (restPrefix ++ exUrl.str)) = false := by decide
example : specOK [] Out.panic = false := by decide

end Restic.Props.C50
