import Restic.Proofs.C28_List
import Restic.Gen.Source
/-!
# C28 — Path patterns match per the documented glob semantics

Theorems about `Restic.Model.Filter` (transcription of internal/filter/filter.go: `match` with the
shared expansion buffer, `childMatch`, `list`), for ALL patterns, paths and glob oracles.

Reading guide
* `MatchSpec glob parts strs` (Proofs/C28_Expand) is the documented meaning: expand each recursive
  wildcard into `k ≥ 0` single-component wildcards, then the parts must accept a window of
  consecutive components (at the start for an absolute pattern, anywhere after the root marker
  otherwise). `specMatch` (Model/Filter) is its executable version (`specMatch_iff`).
* the one-component glob is an oracle `glob : part → component → Option Bool` (`none` = bad
  pattern). Laws used, always as explicit hypotheses: `G1` (`*` accepts every component) and
  `G3` (malformedness depends on the pattern only); the driver validates both on every table.
-/
namespace Restic.Props.C28
open Restic.Model.Filter Restic.Proofs.C28

/-! ## no pattern or path causes a panic -/

/-- `match` never indexes out of range (pattern parts, path components, the expansion buffer with
    its in-place `append`) and its recursion terminates — for every pattern, path and oracle. -/
theorem match_total (glob : Glob) (parts : List Part) (strs : List Str) :
    matchGo glob parts strs ≠ .panic ∧ matchGo glob parts strs ≠ .fuel := by
  have ho := matchGo_outcome glob parts strs
  generalize matchGo glob parts strs = r at ho
  cases ho <;> exact ⟨nofun, nofun⟩

/-- `childMatch` never panics on a pattern with at least one part -/
theorem childMatch_total (glob : Glob) (parts : List Part) (strs : List Str) (h : parts ≠ []) :
    childMatch glob parts strs ≠ .panic ∧ childMatch glob parts strs ≠ .fuel := by
  cases parts with
  | nil => exact absurd rfl h
  | cons p0 pt =>
    rcases childMatch_shape glob p0 pt strs with h1 | ⟨l, m, _, _, _, _, _, h1⟩
    · rw [h1]; exact ⟨nofun, nofun⟩
    · rw [h1]; exact match_total glob _ _

theorem splitSlash_ne_nil : ∀ s : Str, splitSlash s ≠ []
  | [] => by simp [splitSlash]
  | c :: cs => by
    unfold splitSlash
    by_cases hc : c = '/'
    · simp [hc]
    · simp only [hc, if_false]
      cases h : splitSlash cs with
      | nil => simp
      | cons x xs => simp

theorem splitPath_ne_nil (s : Str) : splitPath s ≠ [] := by
  unfold splitPath
  have := splitSlash_ne_nil s
  cases h : splitSlash s with
  | nil => exact absurd h this
  | cons x xs =>
    cases x with
    | nil => simp
    | cons a b => simp

/-- every prepared pattern has at least one part (so `parts[0]` in `childMatch` is in range) -/
theorem preparePattern_parts_ne (clean : Str → Str) (s : Str) (p : Pattern)
    (h : preparePattern clean s = .ok p) : p.parts ≠ [] := by
  unfold preparePattern at h
  cases s with
  | nil => cases h
  | cons c rest =>
    simp only [Res.ok.injEq] at h
    rw [← h]
    simp only [ne_eq, List.map_eq_nil_iff]
    exact splitPath_ne_nil _

theorem parsePatterns_parts_ne (clean : Str → Str) : ∀ (l : List Str) (ps : List Pattern),
    parsePatterns clean l = .ok ps → ∀ p ∈ ps, p.parts ≠ []
  | [], ps, h => by
    simp only [parsePatterns, Res.ok.injEq] at h
    subst h; intro p hp; cases hp
  | s :: rest, ps, h => by
    unfold parsePatterns at h
    by_cases hs : s = []
    · rw [if_pos hs] at h
      exact parsePatterns_parts_ne clean rest ps h
    · rw [if_neg hs] at h
      unfold bindPat at h
      cases hp : preparePattern clean s with
      | ok p0 =>
        rw [hp] at h
        simp only at h
        cases hr : parsePatterns clean rest with
        | ok ps' =>
          rw [hr] at h
          simp only [Res.ok.injEq] at h
          subst h
          intro p hmem
          rcases List.mem_cons.mp hmem with h1 | h1
          · rw [h1]; exact preparePattern_parts_ne clean s p0 hp
          · exact parsePatterns_parts_ne clean rest ps' hr p h1
        | err e => rw [hr] at h; cases h
        | panic => rw [hr] at h; cases h
        | fuel => rw [hr] at h; cases h
      | err e => rw [hp] at h; cases h
      | panic => rw [hp] at h; cases h
      | fuel => rw [hp] at h; cases h

/-- the exported `Match` never panics: the empty pattern is answered before `patternStr[0]` -/
theorem Match_total (clean : Str → Str) (glob : Glob) (pat str : Str) :
    Match clean glob pat str ≠ .panic ∧ Match clean glob pat str ≠ .fuel := by
  unfold Match
  by_cases hp : pat = []
  · rw [if_pos hp]; exact ⟨nofun, nofun⟩
  · rw [if_neg hp]
    cases pat with
    | nil => exact absurd rfl hp
    | cons c rest =>
      simp only [preparePattern, bindPat]
      cases hs : prepareStr str with
      | ok strs => exact match_total glob _ strs
      | err e => exact ⟨nofun, nofun⟩
      | panic => simp [prepareStr] at hs; split at hs <;> cases hs
      | fuel => simp [prepareStr] at hs; split at hs <;> cases hs

/-- the exported `ChildMatch` never panics -/
theorem ChildMatch_total (clean : Str → Str) (glob : Glob) (pat str : Str) :
    ChildMatch clean glob pat str ≠ .panic ∧ ChildMatch clean glob pat str ≠ .fuel := by
  unfold ChildMatch
  by_cases hp : pat = []
  · rw [if_pos hp]; exact ⟨nofun, nofun⟩
  · rw [if_neg hp]
    cases hpp : preparePattern clean pat with
    | ok p =>
      simp only [bindPat]
      cases hs : prepareStr str with
      | ok strs => exact childMatch_total glob _ strs (preparePattern_parts_ne clean pat p hpp)
      | err e => exact ⟨nofun, nofun⟩
      | panic => simp [prepareStr] at hs; split at hs <;> cases hs
      | fuel => simp [prepareStr] at hs; split at hs <;> cases hs
    | err e => cases pat <;> simp [preparePattern] at hpp
    | panic => cases pat with
      | nil => exact absurd rfl hp
      | cons c r => simp [preparePattern] at hpp
    | fuel => cases pat <;> simp [preparePattern] at hpp

/-- the loop of `list` never panics when every pattern has a part -/
theorem listLoop_total (glob : Glob) (cc hn : Bool) (strs : List Str) :
    ∀ (pats : List Pattern) (m c : Bool), (∀ p ∈ pats, p.parts ≠ []) →
      listLoop glob cc hn strs pats m c ≠ .panic ∧ listLoop glob cc hn strs pats m c ≠ .fuel := by
  intro pats
  induction pats with
  | nil => intro m c _; exact ⟨nofun, nofun⟩
  | cons p ps ih =>
    intro m c hne
    have hps : ∀ q ∈ ps, q.parts ≠ [] := fun q hq => hne q (by simp [hq])
    unfold listLoop
    have hmt := match_total glob p.parts strs
    cases hm : matchGo glob p.parts strs with
    | ok mb =>
      simp only
      have hct : (if cc then childMatch glob p.parts strs else Res.ok true) ≠ .panic ∧
          (if cc then childMatch glob p.parts strs else Res.ok true) ≠ .fuel := by
        cases cc with
        | true => simpa using childMatch_total glob p.parts strs (hne p (by simp))
        | false => exact ⟨nofun, nofun⟩
      cases hc : (if cc then childMatch glob p.parts strs else Res.ok true) with
      | ok cb =>
        simp only
        split
        · exact ih _ _ hps
        · split
          · exact ⟨nofun, nofun⟩
          · exact ih _ _ hps
      | err e => exact ⟨nofun, nofun⟩
      | panic => exact absurd hc hct.1
      | fuel => exact absurd hc hct.2
    | err e => exact ⟨nofun, nofun⟩
    | panic => exact absurd hm hmt.1
    | fuel => exact absurd hm hmt.2

/-- `List` / `ListWithChild` never panic on parsed patterns, for any path string -/
theorem list_total (clean : Str → Str) (glob : Glob) (raw : List Str) (pats : List Pattern) (cc : Bool)
    (str : Str) (hp : parsePatterns clean raw = .ok pats) :
    list glob pats cc str ≠ .panic ∧ list glob pats cc str ≠ .fuel := by
  unfold list
  split
  · exact ⟨nofun, nofun⟩
  · unfold prepareStr
    by_cases hs : str = []
    · rw [if_pos hs]; exact ⟨nofun, nofun⟩
    · rw [if_neg hs]
      exact listLoop_total glob cc _ _ pats false false (parsePatterns_parts_ne clean raw pats hp)

/-! ## meaning of `match` -/

/-- The full characterisation: whenever `match` answers, the answer is the documented meaning. -/
theorem match_spec (glob : Glob) (parts : List Part) (strs : List Str) (b : Bool)
    (h : matchGo glob parts strs = .ok b) : b = true ↔ MatchSpec glob parts strs := by
  cases b with
  | true => exact ⟨fun _ => spec_of_matchGo_true h, fun _ => rfl⟩
  | false => exact ⟨fun h' => (by cases h'), fun h' => absurd h' (not_spec_of_matchGo_false h)⟩

/-- transcription meets the executable specification -/
theorem match_specMatch (glob : Glob) (parts : List Part) (strs : List Str) (b : Bool)
    (h : matchGo glob parts strs = .ok b) : b = specMatch glob parts strs := by
  have h1 := match_spec glob parts strs b h
  have h2 := specMatch_iff glob parts strs
  cases b <;> cases hs : specMatch glob parts strs <;> simp_all

/-- the only error is the glob oracle's bad-pattern error on a part of this pattern (or `*`) -/
theorem match_err (glob : Glob) (parts : List Part) (strs : List Str) (e : Err)
    (h : matchGo glob parts strs = .err e) : e = .badPattern ∧ BadOn glob parts strs := by
  have ho := matchGo_outcome glob parts strs
  rw [h] at ho
  cases ho with
  | bad hb => exact ⟨rfl, hb⟩

/-- on validated patterns `match` always answers, with the specified value -/
theorem match_valid (glob : Glob) (hg : G1 glob) (parts : List Part) (hne : NoErr glob parts)
    (strs : List Str) : matchGo glob parts strs = .ok (specMatch glob parts strs) := by
  cases hs : specMatch glob parts strs with
  | true => exact matchGo_true_of_spec hg hne ((specMatch_iff glob parts strs).mp hs)
  | false =>
    apply matchGo_false_of_not_spec hg hne
    intro hm
    rw [(specMatch_iff glob parts strs).mpr hm] at hs
    cases hs

/-- G3: whether a part is malformed does not depend on the component it is applied to -/
def G3 (glob : Glob) : Prop := ∀ p c c', glob p c = none → glob p c' = none

/-- `ValidatePatterns` (each part matched against itself) establishes `NoErr` -/
theorem noErr_of_valid (glob : Glob) (h3 : G3 glob) (p : Pattern) (hv : validPattern glob p = true) :
    NoErr glob p.parts := by
  intro part hpart c hc
  unfold validPattern at hv
  rw [List.all_eq_true] at hv
  have := hv part hpart
  unfold partMatch at hc
  by_cases hs : part.simple = true
  · rw [if_pos hs] at hc; cases hc
  · rw [if_neg hs] at hc
    rw [h3 _ _ part.pat hc] at this
    cases this

/-! ## a match on a directory covers everything inside it -/

theorem match_upward_closed (glob : Glob) (hg : G1 glob) (parts : List Part) (hne : NoErr glob parts)
    (s ext : List Str) (hs : s ≠ []) (h : matchGo glob parts s = .ok true) :
    matchGo glob parts (s ++ ext) = .ok true :=
  matchGo_true_of_spec hg hne (matchSpec_upward ext hs (spec_of_matchGo_true h))

/-- without any assumption on the oracle: an extension is matched or reports the glob error -/
theorem match_upward_closed_any (glob : Glob) (parts : List Part) (s ext : List Str) (hs : s ≠ [])
    (h : matchGo glob parts s = .ok true) :
    matchGo glob parts (s ++ ext) = .ok true ∨ matchGo glob parts (s ++ ext) = .err .badPattern := by
  have hspec := matchSpec_upward ext hs (spec_of_matchGo_true h)
  have ho := matchGo_outcome glob parts (s ++ ext)
  generalize matchGo glob parts (s ++ ext) = r at ho ⊢
  cases ho with
  | yes _ => exact Or.inl rfl
  | no h' => exact absurd hspec h'
  | bad _ => exact Or.inr rfl

/-! ## the children-may-match answer is never false when some path below matches -/

theorem child_sound (glob : Glob) (hg : G1 glob) (parts : List Part) (hne : NoErr glob parts)
    (hparts : parts ≠ []) (s ext : List Str) (h : matchGo glob parts (s ++ ext) = .ok true) :
    childMatch glob parts s = .ok true := by
  cases parts with
  | nil => exact absurd rfl hparts
  | cons p0 pt =>
    rcases childMatch_shape glob p0 pt s with h1 | ⟨l, m, hl, hno, hlm, hz, habs, h1⟩
    · exact h1
    · rw [h1]
      exact matchGo_true_of_spec hg (noErr_take hne l)
        (child_core habs (spec_of_matchGo_true h) l m hl hno hlm hz)

/-- under the validated-pattern hypotheses `childMatch` always answers -/
theorem childMatch_valid (glob : Glob) (hg : G1 glob) (parts : List Part) (hne : NoErr glob parts)
    (hparts : parts ≠ []) (strs : List Str) : ∃ b, childMatch glob parts strs = .ok b := by
  cases parts with
  | nil => exact absurd rfl hparts
  | cons p0 pt =>
    rcases childMatch_shape glob p0 pt strs with h1 | ⟨l, m, _, _, _, _, _, h1⟩
    · exact ⟨true, h1⟩
    · rw [h1]; exact ⟨_, match_valid glob hg _ (noErr_take hne l) _⟩

/-! ## `list`: later negated patterns re-include -/

/-- answer of `childMatch` as a Boolean (only used where `childMatch_valid` applies) -/
def childB (glob : Glob) (parts : List Part) (strs : List Str) : Bool :=
  match childMatch glob parts strs with
  | .ok b => b
  | _ => false

/-- the children-may-match answer of `list` as a plain fold -/
def specListChild (glob : Glob) (cc : Bool) (pats : List Pattern) (strs : List Str) : Bool :=
  (listFold (fun p => specMatch glob p.parts strs)
    (fun p => if cc then childB glob p.parts strs else true) pats (false, false)).2

/-- hypotheses under which `list` is used by restic's commands: validated patterns -/
structure ValidPats (glob : Glob) (pats : List Pattern) : Prop where
  g1 : G1 glob
  noErr : ∀ p ∈ pats, NoErr glob p.parts
  parts : ∀ p ∈ pats, p.parts ≠ []

/-- `list` (with its early `break`) computes the documented fold: start with "not matched", a
    plain pattern that matches sets it, a negated pattern that matches clears it again. -/
theorem list_spec (glob : Glob) (pats : List Pattern) (hv : ValidPats glob pats) (cc : Bool)
    (strs : List Str) :
    listStrs glob pats cc strs = .ok (specList glob pats strs, specListChild glob cc pats strs) := by
  unfold listStrs
  rw [listLoop_eq_fold glob cc _ strs (fun p => specMatch glob p.parts strs)
    (fun p => if cc then childB glob p.parts strs else true)]
  · congr 1
    apply Prod.ext
    · rw [listFold_fst]; rfl
    · rfl
  · intro p hp
    exact match_valid glob hv.g1 p.parts (hv.noErr p hp) strs
  · intro p hp
    cases cc with
    | false => rfl
    | true =>
      simp only [if_true]
      rcases childMatch_valid glob hv.g1 p.parts (hv.noErr p hp) (hv.parts p hp) strs with ⟨b, hb⟩
      simp [childB, hb]
  · intro hneg p hp
    rw [List.any_eq_false] at hneg
    simpa using hneg p hp

/-- soundness of the children-may-match answer of `ListWithChild`, negated patterns included:
    if a path below `s` is matched by the list, `s` is reported as "children may match". -/
theorem list_child_sound (glob : Glob) (pats : List Pattern) (hv : ValidPats glob pats)
    (s ext : List Str) (hs : s ≠ [])
    (h : specList glob pats (s ++ ext) = true) : specListChild glob true pats s = true := by
  unfold specListChild
  have hfst : (listFold (fun p => specMatch glob p.parts (s ++ ext)) (fun _ => true) pats (false, false)).1 = true := by
    rw [listFold_fst]; exact h
  refine listFold_child_sound (fun p => specMatch glob p.parts (s ++ ext)) (fun _ => true)
    (fun p => specMatch glob p.parts s) _ pats ?_ ?_ (false, false) (false, false) (by simp) hfst
  · intro p hp hm
    have hmg : matchGo glob p.parts (s ++ ext) = .ok true :=
      matchGo_true_of_spec hv.g1 (hv.noErr p hp) ((specMatch_iff _ _ _).mp hm)
    have := child_sound glob hv.g1 p.parts (hv.noErr p hp) (hv.parts p hp) s ext hmg
    simp [childB, this]
  · intro p hp hm
    exact (specMatch_iff _ _ _).mpr (matchSpec_upward ext hs ((specMatch_iff _ _ _).mp hm))

/-- when `ListWithChild` reports a match it also reports "children may match" -/
theorem list_matched_child (glob : Glob) (pats : List Pattern) (hv : ValidPats glob pats)
    (s : List Str) (h : specList glob pats s = true) : specListChild glob true pats s = true := by
  unfold specListChild
  have hfst : (listFold (fun p => specMatch glob p.parts s)
      (fun p => if true = true then childB glob p.parts s else true) pats (false, false)).1 = true := by
    rw [listFold_fst]; exact h
  refine listFold_matched_child _ _ pats ?_ (false, false) (by simp) hfst
  intro p hp hm
  have hmg : matchGo glob p.parts (s ++ []) = .ok true := by
    rw [List.append_nil]
    exact matchGo_true_of_spec hv.g1 (hv.noErr p hp) ((specMatch_iff _ _ _).mp hm)
  have := child_sound glob hv.g1 p.parts (hv.noErr p hp) (hv.parts p hp) s [] hmg
  simp [childB, this]

/-- without negated patterns a match of the list on a directory covers everything inside it -/
theorem list_upward (glob : Glob) (pats : List Pattern) (hnoneg : ∀ p ∈ pats, p.negated = false)
    (s ext : List Str) (hs : s ≠ []) (h : specList glob pats s = true) :
    specList glob pats (s ++ ext) = true := by
  have e : ∀ strs, specList glob pats strs =
      (listFold (fun p => specMatch glob p.parts strs) (fun _ => true) pats (false, false)).1 := by
    intro strs; rw [listFold_fst]; rfl
  rw [e] at h ⊢
  refine listFold_upward _ _ _ _ pats hnoneg ?_ (false, false) (false, false) (by simp) h
  intro p _ hm
  exact (specMatch_iff _ _ _).mpr (matchSpec_upward ext hs ((specMatch_iff _ _ _).mp hm))

/-! ## the property predicate evaluated by the driver follows from the theorems -/

/-- for validated patterns the transcription's answers satisfy the executable reading of C28 -/
theorem model_specOK (glob : Glob) (hg : G1 glob) (parts : List Part) (hne : NoErr glob parts)
    (hparts : parts ≠ []) (s ext : List Str) (hs : s ≠ []) (m m' c : Bool)
    (hm : matchGo glob parts s = .ok m) (hm' : matchGo glob parts (s ++ ext) = .ok m')
    (hc : childMatch glob parts s = .ok c) : specOK glob parts s ext m m' c = true := by
  have e1 := match_specMatch glob parts s m hm
  have e2 := match_specMatch glob parts (s ++ ext) m' hm'
  have up : m = true → m' = true := by
    intro h; subst h
    have := match_upward_closed glob hg parts hne s ext hs hm
    rw [hm'] at this; cases this; rfl
  have ch : m' = true → c = true := by
    intro h; subst h
    have := child_sound glob hg parts hne hparts s ext hm'
    rw [hc] at this; cases this; rfl
  unfold specOK
  rw [← e1, ← e2]
  cases m <;> cases m' <;> cases c <;> simp_all

/-! ## tie T1: shape of the transcribed functions in the current source -/

/-- `match` uses one buffer (`make`, `copy`, `append` — the aliasing modelled by `expandLoop`), one
    recursive call and `filepath.Match`; `childMatch` looks for the wildcard, takes `min` and calls
    `match`; `list` calls `match` and `childMatch`; `preparePattern` cleans before splitting. -/
theorem source_shape :
    Restic.Gen.filter_match_calls.filter (· ≠ "len") =
      ["hasDoubleWildcard", "make", "copy", "append", "match", "filepath.Match", "errors.Wrap"] ∧
    Restic.Gen.filter_childMatch_calls.filter (· ≠ "len") = ["hasDoubleWildcard", "min", "match"] ∧
    Restic.Gen.filter_list_calls = ["len", "prepareStr", "match", "childMatch"] ∧
    Restic.Gen.filter_preparePattern_calls.filter (· ≠ "len") =
      ["filepath.Clean", "splitPath", "make", "strings.ContainsAny"] := by
  decide

/-! ## examples (non-vacuity, negation witness) -/

/-- a glob oracle for the examples: `*` accepts everything, other parts compare literally -/
def exGlob : Glob := fun p c => some (if p = ['*'] then decide ('/' ∉ c) else p == c)

theorem exGlob_G1 : G1 exGlob := fun _ => rfl

def exParts (s : String) : List Part :=
  match preparePattern id s.toList with
  | .ok p => p.parts
  | _ => []

/-- the hypotheses of the theorems are satisfiable by a non-trivial pattern -/
example : NoErr exGlob (exParts "/a/**/c") := by
  intro p _ c h
  unfold partMatch exGlob at h
  split at h <;> cases h

/-- negation witness for the finding fixed in 8b0fa9a13: with the old loop bound the
    characterisation `match_spec` is false — `a/**/b/**/c` does not match `a/x/b/c`. -/
example : matchOld exGlob (exParts "a/**/b/**/c") (splitPath "a/x/b/c".toList) = .ok false ∧
    specMatch exGlob (exParts "a/**/b/**/c") (splitPath "a/x/b/c".toList) = true := by decide

example : matchGo exGlob (exParts "a/**/b/**/c") (splitPath "a/x/b/c".toList) = .ok true := by decide
example : matchGo exGlob (exParts "a/**/**") (splitPath "a".toList) = .ok true := by decide
example : matchOld exGlob (exParts "a/**/**") (splitPath "a".toList) = .ok false := by decide
example : childMatch exGlob (exParts "/a/**/c") (splitPath "/a/x".toList) = .ok true := by decide
example : childMatch exGlob (exParts "/a/**/c") (splitPath "/b".toList) = .ok false := by decide
example : matchGo exGlob (exParts "/a/*") (splitPath "/a/x/y".toList) = .ok true := by decide
example : matchGo exGlob (exParts "b") (splitPath "/a/b/c".toList) = .ok true := by decide
example : matchGo exGlob (exParts "/b") (splitPath "/a/b/c".toList) = .ok false := by decide

end Restic.Props.C28
