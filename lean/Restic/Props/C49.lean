import Restic.Model.Parse
import Restic.Proofs.C49_Strconv
import Restic.Gen.Source
import Restic.Gen.Consts
/-!
# C49 — User-supplied durations, sizes and counts parse totally and exactly
-/
namespace Restic.Props.C49
open Restic.Model.Parse Restic.Model.Strconv Restic.Proofs.Strconv

/-! ## byte sizes (`ui.ParseBytes`) -/

theorem unitOf_cases (c : UInt8) (u : Nat) (h : unitOf c = some u) :
    u = 1 ∨ u = 1024 ∨ u = 1048576 ∨ u = 1073741824 ∨ u = 1099511627776 := by
  unfold unitOf at h
  repeat (first | (split at h; (injection h with h; omega)) | cases h)

/-- the 64×64→128 multiply with the `hi != 0 || value < 0` test accepts exactly the products in
    `[0, 2^63)`, and returns the product -/
theorem mul64Check_ok_iff (value : Int) (unit : Nat) (hv1 : -9223372036854775808 ≤ value) (hv2 : value < 9223372036854775808)
    (hu : unit = 1 ∨ unit = 1024 ∨ unit = 1048576 ∨ unit = 1073741824 ∨ unit = 1099511627776) (v : Int) :
    mul64Check value unit = .ok v ↔ (v = value * unit ∧ 0 ≤ v ∧ v < 9223372036854775808) := by
  unfold mul64Check
  simp only
  generalize hx : (value % (two64 : Int)).toNat = x
  have hx' : (0 ≤ value → (x : Int) = value) ∧ (value < 0 → (x : Int) = value + 18446744073709551616) := by
    subst hx; unfold two64; omega
  unfold two64 two63
  rcases hu with rfl | rfl | rfl | rfl | rfl
  all_goals
    split
    · constructor
      · intro h; cases h
      · rintro ⟨h1, h2, h3⟩; omega
    · split
      · constructor
        · intro h; cases h
        · rintro ⟨h1, h2, h3⟩; omega
      · constructor
        · intro h; injection h with h; omega
        · rintro ⟨h1, h2, h3⟩; congr 1; omega

theorem parseBytes_core (numStr : Str) (unit : Nat)
    (hunit : unit = 1 ∨ unit = 1024 ∨ unit = 1048576 ∨ unit = 1073741824 ∨ unit = 1099511627776) (v : Int) :
    (match parseInt 64 numStr with
      | .error e => Out.err (ofNumErr e)
      | .ok value => mul64Check value unit) = .ok v ↔
    ((if (splitSign numStr).2 ≠ [] ∧ allDigits (splitSign numStr).2 = true then
        some ((if (splitSign numStr).1 then -(decVal (splitSign numStr).2 : Int) else (decVal (splitSign numStr).2 : Int)) * unit)
      else none) = some v ∧ 0 ≤ v ∧ v < 9223372036854775808) := by
  cases hp : parseInt 64 numStr with
  | error e =>
    have hno : ∀ x, ¬ ((splitSign numStr).2 ≠ [] ∧ allDigits (splitSign numStr).2 = true ∧
        x = (if (splitSign numStr).1 then -(decVal (splitSign numStr).2 : Int) else (decVal (splitSign numStr).2 : Int)) ∧
        -9223372036854775808 ≤ x ∧ x < 9223372036854775808) := by
      intro x hx
      have := (parseInt64_ok_iff numStr x).mpr hx
      rw [hp] at this; cases this
    constructor
    · intro h; cases h
    · rintro ⟨h1, h2, h3⟩
      exfalso
      split at h1
      · rename_i hd
        injection h1 with h1
        refine hno _ ⟨hd.1, hd.2, rfl, ?_, ?_⟩
        · rcases hunit with rfl | rfl | rfl | rfl | rfl <;> split at h1 <;> omega
        · rcases hunit with rfl | rfl | rfl | rfl | rfl <;> split at h1 <;> omega
      · cases h1
  | ok value =>
    obtain ⟨h1, h2, h3, h4, h5⟩ := (parseInt64_ok_iff numStr value).mp hp
    show mul64Check value unit = .ok v ↔ _
    rw [mul64Check_ok_iff value unit h4 h5 hunit v]
    have hd : (splitSign numStr).2 ≠ [] ∧ allDigits (splitSign numStr).2 = true := ⟨h1, h2⟩
    rw [if_pos hd, ← h3]
    constructor
    · rintro ⟨a, b, c⟩; exact ⟨by rw [a], b, c⟩
    · rintro ⟨a, b, c⟩; injection a with a; exact ⟨a.symm, b, c⟩

/-- **sizes are exact**: `ParseBytes` accepts exactly the strings `[+-]digits[unit]` whose value times
    the unit lies in `[0, 2^63)`, and returns that product -/
theorem parseBytes_ok_iff (s : Str) (v : Int) :
    parseBytes s = .ok v ↔ sizeDenotes s = some v ∧ 0 ≤ v ∧ v < 9223372036854775808 := by
  unfold parseBytes sizeDenotes
  cases hl : s.getLast? with
  | none => simp
  | some last =>
    cases hu : unitOf last with
    | none => simp only [hu]; exact parseBytes_core s 1 (Or.inl rfl) v
    | some u => simp only [hu]; exact parseBytes_core s.dropLast u (unitOf_cases last u hu) v

theorem mul64Check_no_panic (v : Int) (u : Nat) : mul64Check v u ≠ .panic := by
  unfold mul64Check
  simp only
  split
  · intro h; cases h
  · split <;> (intro h; cases h)

/-- `ParseBytes` never panics -/
theorem parseBytes_no_panic (s : Str) : parseBytes s ≠ .panic := by
  unfold parseBytes
  split
  · intro h; cases h
  · simp only
    split
    · intro h; cases h
    · exact mul64Check_no_panic _ _

/-- the transcription meets the executable size specification evaluated by the driver -/
theorem parseBytes_specOK (s : Str) : specBytes s (parseBytes s) = true := by
  unfold specBytes
  cases hr : parseBytes s with
  | panic => exact absurd hr (parseBytes_no_panic s)
  | ok v =>
    obtain ⟨h1, h2, h3⟩ := (parseBytes_ok_iff s v).mp hr
    simp only [h1, two63]
    simp [h2, h3]
  | err e =>
    simp only
    cases hd : sizeDenotes s with
    | none => rfl
    | some x =>
      simp only [two63, Bool.not_eq_true', Bool.and_eq_false_iff, decide_eq_false_iff_not]
      by_cases hin : 0 ≤ x ∧ x < 9223372036854775808
      · have := (parseBytes_ok_iff s x).mpr ⟨hd, hin.1, hin.2⟩
        rw [hr] at this; cases this
      · by_cases h0 : 0 ≤ x
        · right
          apply decide_eq_false
          intro hlt
          exact hin ⟨h0, by simpa using hlt⟩
        · left; exact h0


/-! ## forget policy counts (`ForgetPolicyCount.Set`) -/

/-- **counts are exact**: accepted are exactly "unlimited" (→ -1) and `[+-]digits` with a value in
    `[0, 2^63)` (→ that value) -/
theorem policyCount_ok_iff (s : Str) (v : Int) :
    policyCountSet s = .ok v ↔
      (s = unlimited ∧ v = -1) ∨
      (s ≠ unlimited ∧ (splitSign s).2 ≠ [] ∧ allDigits (splitSign s).2 = true ∧
        v = (if (splitSign s).1 then -(decVal (splitSign s).2 : Int) else (decVal (splitSign s).2 : Int)) ∧
        0 ≤ v ∧ v < 9223372036854775808) := by
  unfold policyCountSet
  by_cases hu : s = unlimited
  · simp only [hu, if_true]
    constructor
    · intro h; injection h with h; exact Or.inl ⟨trivial, h.symm⟩
    · rintro (⟨_, rfl⟩ | ⟨h, _⟩)
      · rfl
      · exact absurd rfl h
  · simp only [hu, if_false, false_and, false_or, ne_eq, not_false_eq_true, true_and]
    cases hp : parseInt 64 s with
    | error e =>
      constructor
      · intro h; cases h
      · rintro ⟨h1, h2, h3, h4, h5⟩
        have := (parseInt64_ok_iff s v).mpr ⟨h1, h2, h3, by omega, h5⟩
        rw [hp] at this; cases this
    | ok x =>
      obtain ⟨h1, h2, h3, h4, h5⟩ := (parseInt64_ok_iff s x).mp hp
      show (if x < 0 then Out.err PErr.negative else Out.ok x) = Out.ok v ↔ _
      split
      · constructor
        · intro h; cases h
        · rintro ⟨_, _, h3', h4', _⟩; rw [← h3] at h3'; omega
      · constructor
        · intro h; injection h with h; subst h; exact ⟨h1, h2, h3, by omega, h5⟩
        · rintro ⟨_, _, h3', _, _⟩; rw [← h3] at h3'; rw [h3']

theorem policyCount_no_panic (s : Str) : policyCountSet s ≠ .panic := by
  unfold policyCountSet
  split
  · intro h; cases h
  · split
    · intro h; cases h
    · split <;> (intro h; cases h)

theorem unlimited_not_numeral : ¬ ((splitSign unlimited).2 ≠ [] ∧ allDigits (splitSign unlimited).2 = true) := by decide

/-- the transcription meets the executable count specification evaluated by the driver -/
theorem policyCount_specOK (s : Str) : specCount s (policyCountSet s) = true := by
  unfold specCount
  cases hr : policyCountSet s with
  | panic => exact absurd hr (policyCount_no_panic s)
  | ok v =>
    rcases (policyCount_ok_iff s v).mp hr with ⟨h1, h2⟩ | ⟨h1, h2, h3, h4, h5, h6⟩
    · subst h1 h2; decide
    · have hd : (splitSign s).2 ≠ [] ∧ allDigits (splitSign s).2 = true := ⟨h2, h3⟩
      simp only [h1, if_false, hd, and_self, if_true, two63]
      rw [← h4]
      simp [h5, h6, h2]
  | err e =>
    by_cases hu : s = unlimited
    · exfalso
      have := (policyCount_ok_iff s (-1)).mpr (Or.inl ⟨hu, rfl⟩)
      rw [hr] at this; cases this
    · simp only [hu, if_false]
      split
      · rename_i x hx
        split at hx
        · rename_i hd
          injection hx with hx
          by_cases hin : 0 ≤ x ∧ x < 9223372036854775808
          · exfalso
            have := (policyCount_ok_iff s x).mpr (Or.inr ⟨hu, hd.1, hd.2, hx.symm, hin.1, hin.2⟩)
            rw [hr] at this; cases this
          · have hne : (s != unlimited) = true := by simpa using hu
            simp only [hne, Bool.true_and, Bool.not_eq_true', Bool.and_eq_false_iff, decide_eq_false_iff_not, two63]
            by_cases h0 : 0 ≤ x
            · right; apply decide_eq_false; intro hlt; exact hin ⟨h0, by simpa using hlt⟩
            · left; exact h0
        · cases hx
      · rfl


/-! ## durations (`data.ParseDuration`, `Duration.String`) -/

theorem splitMinus_length (s : Str) : (splitMinus s).2.length ≤ s.length := by
  unfold splitMinus; split <;> simp

theorem takeWhile_allDigits (r : Str) : allDigits (r.takeWhile isDigit) = true := by
  unfold allDigits
  exact List.all_takeWhile

theorem digits_head_not_sign (ds : Str) (h1 : ds ≠ []) (h2 : allDigits ds = true) : splitSign ds = (false, ds) := by
  cases ds with
  | nil => exact absurd rfl h1
  | cons c cs =>
    have hc : isDigit c = true := by
      unfold allDigits at h2; rw [List.all_eq_true] at h2; exact h2 c (List.mem_cons_self ..)
    unfold isDigit at hc
    simp only [Bool.and_eq_true, decide_eq_true_eq] at hc
    have h48 : 48 ≤ c.toNat := UInt8.le_iff_toNat_le.mp hc.1
    unfold splitSign
    split
    · rename_i r heq; injection heq with heq _; subst heq; simp at h48
    · rename_i r heq; injection heq with heq _; subst heq; simp at h48
    · rfl

/-- `Atoi` on a non-empty digit string: the value when it fits an `int`, an error otherwise -/
theorem atoi_digits (ds : Str) (h1 : ds ≠ []) (h2 : allDigits ds = true) :
    (decVal ds < two63 → atoi ds = .ok (decVal ds : Int)) ∧
    (¬ decVal ds < two63 → ∃ e, atoi ds = .error e) := by
  have hs := digits_head_not_sign ds h1 h2
  unfold atoi two63
  constructor
  · intro hlt
    apply (parseInt64_ok_iff ds _).mpr
    rw [hs]
    exact ⟨h1, h2, by simp, by omega, by omega⟩
  · intro hge
    cases hp : parseInt 64 ds with
    | error e => exact ⟨e, rfl⟩
    | ok v =>
      exfalso
      obtain ⟨_, _, h3, _, h5⟩ := (parseInt64_ok_iff ds v).mp hp
      rw [hs] at h3
      simp at h3
      omega

/-- relation between the `ParseDuration` loop and the specification's tokeniser -/
def Rel (fuel : Nat) (d : Duration) (s : Str) : Prop :=
  match parseDurationLoop false fuel d s with
  | .ok d' => ∃ items, tokenize fuel s = some items ∧ items.all Item.valid = true ∧ d' = items.foldl Duration.assign d
  | .err _ => ∀ items, tokenize fuel s = some items → items.all Item.valid = false
  | .panic => False

theorem item_invalid_cons (i : Item) (is : List Item) (h : i.valid = false) : (i :: is).all Item.valid = false := by
  simp [List.all_cons, h]

theorem rel (fuel : Nat) : ∀ (d : Duration) (s : Str), s.length < fuel → Rel fuel d s := by
  induction fuel with
  | zero => intro d s h; omega
  | succ fuel ih =>
    intro d s hlen
    unfold Rel
    by_cases hs : s = []
    · subst hs
      simp only [parseDurationLoop, if_true, tokenize]
      exact ⟨[], rfl, rfl, rfl⟩
    · have hrl := splitMinus_length s
      unfold parseDurationLoop tokenize nextNumber
      simp only [hs, if_false]
      generalize splitMinus s = p at hrl
      obtain ⟨neg, r⟩ := p
      simp only at hrl ⊢
      have hall := takeWhile_allDigits r
      have hdl : (r.dropWhile isDigit).length ≤ r.length := (List.dropWhile_sublist _).length_le
      generalize hds : r.takeWhile isDigit = ds at hall
      generalize hrest : r.dropWhile isDigit = rest at hdl
      by_cases hde : ds = []
      · -- no number found
        simp only [hde, if_true]
        intro items hit
        cases rest with
        | nil => simp at hit
        | cons u s'' =>
          simp only at hit
          cases ht : tokenize fuel s'' with
          | none => rw [ht] at hit; simp at hit
          | some its =>
            rw [ht] at hit; simp only [Option.some.injEq] at hit; subst hit
            exact item_invalid_cons _ _ (by simp [Item.valid])
      · simp only [hde, if_false]
        obtain ⟨hok, herr⟩ := atoi_digits ds hde hall
        by_cases hfit : decVal ds < two63
        · rw [hok hfit]
          simp only
          cases rest with
          | nil => simp
          | cons u s'' =>
            have hl'' : s''.length < fuel := by simp only [List.length_cons] at hdl; omega
            simp only
            -- the item read in this iteration
            have hval : (⟨neg, ds, u⟩ : Item).value = (if neg = true then -(decVal ds : Int) else (decVal ds : Int)) := rfl
            have step : ∀ d1 : Duration, d1 = Duration.assign d ⟨neg, ds, u⟩ →
                (u = 121 ∨ u = 109 ∨ u = 100 ∨ u = 104) →
                (match parseDurationLoop false fuel d1 s'' with
                  | .ok d' => ∃ items, (match tokenize fuel s'' with
                        | none => none
                        | some items => some (⟨neg, ds, u⟩ :: items)) = some items ∧ items.all Item.valid = true ∧ d' = items.foldl Duration.assign d
                  | .err _ => ∀ items, (match tokenize fuel s'' with
                        | none => none
                        | some items => some (⟨neg, ds, u⟩ :: items)) = some items → items.all Item.valid = false
                  | .panic => False) := by
              intro d1 hd1 hu
              have hvalid : (⟨neg, ds, u⟩ : Item).valid = true := by
                simp only [Item.valid, Bool.and_eq_true, decide_eq_true_eq, Bool.or_eq_true, beq_iff_eq]
                exact ⟨⟨⟨hde, hall⟩, hfit⟩, by rcases hu with h | h | h | h <;> simp [h]⟩
              have := ih d1 s'' hl''
              unfold Rel at this
              cases hloop : parseDurationLoop false fuel d1 s'' with
              | ok d' =>
                rw [hloop] at this
                obtain ⟨items, h1, h2, h3⟩ := this
                refine ⟨⟨neg, ds, u⟩ :: items, by rw [h1], ?_, ?_⟩
                · simp [List.all_cons, hvalid, h2]
                · rw [List.foldl_cons, ← hd1]; exact h3
              | err e =>
                rw [hloop] at this
                intro items hit
                cases ht : tokenize fuel s'' with
                | none => rw [ht] at hit; simp at hit
                | some its =>
                  rw [ht] at hit; simp only [Option.some.injEq] at hit; subst hit
                  simp [List.all_cons, this its ht]
              | panic => rw [hloop] at this; exact this
            by_cases hy : u = 121
            · subst hy
              simp only [if_true]
              exact step _ (by simp [Duration.assign, Item.value]) (Or.inl rfl)
            · by_cases hm : u = 109
              · subst hm
                have : ¬ ((109 : UInt8) = 121) := by decide
                simp only [this, if_false, if_true]
                exact step _ (by simp [Duration.assign, Item.value]) (Or.inr (Or.inl rfl))
              · by_cases hd' : u = 100
                · subst hd'
                  have h1 : ¬ ((100 : UInt8) = 121) := by decide
                  have h2 : ¬ ((100 : UInt8) = 109) := by decide
                  simp only [h1, h2, if_false, if_true]
                  exact step _ (by simp [Duration.assign, Item.value]) (Or.inr (Or.inr (Or.inl rfl)))
                · by_cases hh : u = 104
                  · subst hh
                    have h1 : ¬ ((104 : UInt8) = 121) := by decide
                    have h2 : ¬ ((104 : UInt8) = 109) := by decide
                    have h3 : ¬ ((104 : UInt8) = 100) := by decide
                    simp only [h1, h2, h3, if_false, if_true]
                    exact step _ (by simp [Duration.assign, Item.value]) (Or.inr (Or.inr (Or.inr rfl)))
                  · simp only [hy, hm, hd', hh, if_false]
                    intro items hit
                    cases ht : tokenize fuel s'' with
                    | none => rw [ht] at hit; simp at hit
                    | some its =>
                      rw [ht] at hit; simp only [Option.some.injEq] at hit; subst hit
                      exact item_invalid_cons _ _ (by simp [Item.valid, hy, hm, hd', hh])
        · obtain ⟨e, he⟩ := herr hfit
          rw [he]
          simp only [Bool.false_eq_true, if_false]
          intro items hit
          cases rest with
          | nil => simp at hit
          | cons u s'' =>
            simp only at hit
            cases ht : tokenize fuel s'' with
            | none => rw [ht] at hit; simp at hit
            | some its =>
              rw [ht] at hit; simp only [Option.some.injEq] at hit; subst hit
              exact item_invalid_cons _ _ (by simp [Item.valid, hfit])


/-- **no input crashes the duration parser** (the code after the fix of F1) -/
theorem duration_total (s : Str) : parseDuration false s ≠ .panic := by
  unfold parseDuration
  have := rel ((trimSpace s).length + 1) Duration.zero (trimSpace s) (by omega)
  unfold Rel at this
  intro h
  simp only at h
  rw [h] at this
  exact this

/-- **durations are exact** (decidable form, evaluated by the driver on the implementation's
    output as well): the parser accepts exactly the strings of the form `(-?digits unit)*` (after
    trimming) all of whose numbers fit an `int`, and returns the last value per unit; everything
    else is rejected with an error -/
theorem duration_specOK (s : Str) : specDuration s (parseDuration false s) = true := by
  unfold specDuration parseDuration
  have := rel ((trimSpace s).length + 1) Duration.zero (trimSpace s) (by omega)
  unfold Rel at this
  simp only
  cases hl : parseDurationLoop false ((trimSpace s).length + 1) Duration.zero (trimSpace s) with
  | ok d' =>
    rw [hl] at this
    obtain ⟨items, h1, h2, h3⟩ := this
    simp only [h1, h2, Bool.true_and, denote, h3]
    simp
  | err e =>
    rw [hl] at this
    simp only
    cases ht : tokenize ((trimSpace s).length + 1) (trimSpace s) with
    | none => rfl
    | some items => simp [this items ht]
  | panic => rw [hl] at this; exact this.elim

/-- accepted durations, spelled out: the trimmed string tokenises into valid items and the result
    is the value they denote -/
theorem duration_ok_iff (s : Str) (d : Duration) :
    parseDuration false s = .ok d ↔
      ∃ items, tokenize ((trimSpace s).length + 1) (trimSpace s) = some items ∧
        items.all Item.valid = true ∧ d = denote items := by
  have hspec := duration_specOK s
  unfold specDuration at hspec
  constructor
  · intro h
    rw [h] at hspec
    simp only at hspec
    cases ht : tokenize ((trimSpace s).length + 1) (trimSpace s) with
    | none => rw [ht] at hspec; cases hspec
    | some items =>
      rw [ht] at hspec
      simp only [Bool.and_eq_true, beq_iff_eq] at hspec
      exact ⟨items, rfl, hspec.1, hspec.2⟩
  · rintro ⟨items, h1, h2, h3⟩
    cases hr : parseDuration false s with
    | panic => exact absurd hr (duration_total s)
    | ok d' =>
      rw [hr] at hspec
      simp only [h1, Bool.and_eq_true, beq_iff_eq] at hspec
      rw [hspec.2, h3]
    | err e =>
      rw [hr] at hspec
      simp only [h1, h2] at hspec
      cases hspec

/-- F1 on the code before the fix: a number beyond the `int` range makes `nextNumber` panic -/
theorem legacy_duration_panics :
    parseDuration true [57,57,57,57,57,57,57,57,57,57,57,57,57,57,57,57,57,57,57,57,100] = .panic := by decide

/-- the same input is rejected with an error by the fixed code -/
theorem fixed_duration_rejects :
    parseDuration false [57,57,57,57,57,57,57,57,57,57,57,57,57,57,57,57,57,57,57,57,100] = .err .range := by decide


/-! ### the grammar: rendering items and parsing them back; `Duration.String` -/

/-- the string a list of items stands for -/
def renderAll (items : List Item) : Str := items.flatMap Item.render

/-- well-formed item: non-empty digit string, unit is not a digit -/
def wfItem (i : Item) : Prop := i.digits ≠ [] ∧ allDigits i.digits = true ∧ isDigit i.unit = false

theorem valid_wf (i : Item) (h : i.valid = true) : wfItem i := by
  simp only [Item.valid, Bool.and_eq_true, decide_eq_true_eq, Bool.or_eq_true, beq_iff_eq] at h
  refine ⟨h.1.1.1, h.1.1.2, ?_⟩
  rcases h.2 with ((h' | h') | h') | h' <;> rw [h'] <;> decide

theorem takeWhile_digits (ds : Str) (u : UInt8) (rest : Str) (h : allDigits ds = true) (hu : isDigit u = false) :
    (ds ++ u :: rest).takeWhile isDigit = ds ∧ (ds ++ u :: rest).dropWhile isDigit = u :: rest := by
  unfold allDigits at h
  rw [List.all_eq_true] at h
  constructor
  · rw [List.takeWhile_append_of_pos h, List.takeWhile_cons_of_neg (by simp [hu])]; simp
  · rw [List.dropWhile_append_of_pos h, List.dropWhile_cons_of_neg (by simp [hu])]

theorem splitMinus_render (i : Item) (rest : Str) (h : wfItem i) :
    splitMinus (i.render ++ rest) = (i.neg, i.digits ++ i.unit :: rest) := by
  obtain ⟨h1, h2, _⟩ := h
  unfold Item.render
  cases hn : i.neg with
  | true => simp [splitMinus]
  | false =>
    simp only [Bool.false_eq_true, if_false, List.nil_append, List.append_assoc, List.singleton_append]
    cases hd : i.digits with
    | nil => exact absurd hd h1
    | cons c cs =>
      have hc : isDigit c = true := by
        unfold allDigits at h2; rw [hd, List.all_eq_true] at h2; exact h2 c (List.mem_cons_self ..)
      unfold splitMinus
      split
      · rename_i r heq
        simp only [List.cons_append] at heq
        injection heq with heq _
        subst heq
        exact absurd hc (by decide)
      · rfl

/-- the tokeniser of the specification inverts rendering: `specDuration` really speaks about the
    documented form `(-?digits unit)*` -/
theorem tokenize_renderAll (items : List Item) (h : ∀ i ∈ items, wfItem i) :
    ∀ fuel, (renderAll items).length < fuel → tokenize fuel (renderAll items) = some items := by
  induction items with
  | nil =>
    intro fuel hf
    cases fuel with
    | zero => omega
    | succ f => simp [renderAll, tokenize]
  | cons i is ih =>
    intro fuel hf
    have hi := h i (List.mem_cons_self ..)
    have his : ∀ j ∈ is, wfItem j := fun j hj => h j (List.mem_cons_of_mem _ hj)
    cases fuel with
    | zero => omega
    | succ f =>
      have hr : renderAll (i :: is) = i.render ++ renderAll is := by simp [renderAll]
      rw [hr] at hf ⊢
      have hne : i.render ++ renderAll is ≠ [] := by
        unfold Item.render; simp
      unfold tokenize
      simp only [hne, if_false, splitMinus_render i _ hi]
      obtain ⟨h1, h2⟩ := takeWhile_digits i.digits i.unit (renderAll is) hi.2.1 hi.2.2
      rw [h1, h2]
      have hlen : (renderAll is).length < f := by
        have : (i.render ++ renderAll is).length ≥ (renderAll is).length + 1 := by
          unfold Item.render; simp; omega
        omega
      simp only [ih his f hlen]

theorem trimSpace_id (s : Str) (hh : ∀ c, s.head? = some c → isSpace c = false)
    (hl : ∀ c, s.getLast? = some c → isSpace c = false) : trimSpace s = s := by
  unfold trimSpace
  have h1 : s.dropWhile isSpace = s := by
    cases s with
    | nil => rfl
    | cons c cs => exact List.dropWhile_cons_of_neg (by simp [hh c rfl])
  rw [h1]
  have h2 : s.reverse.dropWhile isSpace = s.reverse := by
    cases hr : s.reverse with
    | nil => rfl
    | cons c cs =>
      have : s.getLast? = some c := by rw [← List.head?_reverse, hr]; rfl
      exact List.dropWhile_cons_of_neg (by simp [hl c this])
  rw [h2, List.reverse_reverse]

theorem render_head_last (i : Item) (h : i.valid = true) :
    (∀ c, i.render.head? = some c → isSpace c = false) ∧ i.render.getLast? = some i.unit ∧ isSpace i.unit = false := by
  have hwf := valid_wf i h
  simp only [Item.valid, Bool.and_eq_true, decide_eq_true_eq, Bool.or_eq_true, beq_iff_eq] at h
  refine ⟨?_, ?_, ?_⟩
  · intro c hc
    unfold Item.render at hc
    cases hn : i.neg with
    | true => rw [hn] at hc; simp at hc; subst hc; decide
    | false =>
      rw [hn] at hc
      cases hd : i.digits with
      | nil => exact absurd hd hwf.1
      | cons x xs =>
        rw [hd] at hc; simp at hc; subst hc
        have hx : isDigit x = true := by
          have := hwf.2.1; unfold allDigits at this; rw [hd, List.all_eq_true] at this
          exact this x (List.mem_cons_self ..)
        unfold isDigit at hx
        simp only [Bool.and_eq_true, decide_eq_true_eq] at hx
        have h48 : 48 ≤ x.toNat := UInt8.le_iff_toNat_le.mp hx.1
        unfold isSpace
        have : ∀ k : UInt8, k.toNat < 48 → (x == k) = false := by
          intro k hk; apply beq_false_of_ne; intro he; subst he; omega
        simp [this 9 (by decide), this 10 (by decide), this 11 (by decide), this 12 (by decide), this 13 (by decide), this 32 (by decide)]
  · unfold Item.render; rw [List.getLast?_concat]
  · rcases h.2 with ((h' | h') | h') | h' <;> rw [h'] <;> decide

theorem renderAll_getLast (items : List Item) (j : Item) (hl : items.getLast? = some j)
    (hj : j.render.getLast? ≠ none) : (renderAll items).getLast? = j.render.getLast? := by
  induction items with
  | nil => cases hl
  | cons i is ih =>
    cases is with
    | nil =>
      simp only [List.getLast?_singleton, Option.some.injEq] at hl
      subst hl
      simp [renderAll]
    | cons i' is' =>
      rw [List.getLast?_cons_cons] at hl
      have := ih hl
      have hr : renderAll (i :: i' :: is') = i.render ++ renderAll (i' :: is') := by simp [renderAll]
      rw [hr, List.getLast?_append, this]
      cases hg : j.render.getLast? with
      | none => exact absurd hg hj
      | some x => simp

/-- **completeness**: every string of the documented form whose numbers fit an `int` is accepted
    with exactly the value it denotes (last value per unit) -/
theorem duration_complete (items : List Item) (h : items.all Item.valid = true) :
    parseDuration false (renderAll items) = .ok (denote items) := by
  rw [List.all_eq_true] at h
  have hwf : ∀ i ∈ items, wfItem i := fun i hi => valid_wf i (h i hi)
  have htrim : trimSpace (renderAll items) = renderAll items := by
    apply trimSpace_id
    · intro c hc
      cases items with
      | nil => simp [renderAll] at hc
      | cons i is =>
        have hv := h i (List.mem_cons_self ..)
        have hne : i.render ≠ [] := by unfold Item.render; simp
        have : (renderAll (i :: is)).head? = i.render.head? := by
          simp only [renderAll, List.flatMap_cons]
          cases hr : i.render with
          | nil => exact absurd hr hne
          | cons a as => rfl
        rw [this] at hc
        exact (render_head_last i hv).1 c hc
    · intro c hc
      cases hl : items.getLast? with
      | none =>
        have : items = [] := List.getLast?_eq_none_iff.mp hl
        subst this; simp [renderAll] at hc
      | some j =>
        have hj : j ∈ items := List.mem_of_getLast? hl
        obtain ⟨_, h2, h3⟩ := render_head_last j (h j hj)
        rw [renderAll_getLast items j hl (by rw [h2]; simp), h2] at hc
        injection hc with hc; subst hc; exact h3
  apply (duration_ok_iff _ _).mpr
  rw [htrim]
  exact ⟨items, tokenize_renderAll items hwf _ (by omega), List.all_eq_true.mpr h, rfl⟩


/-! ### `Duration.String` parses back -/

theorem digit_char (k : Nat) (hk : k < 10) :
    isDigit (UInt8.ofNat (48 + k)) = true ∧ digitVal (UInt8.ofNat (48 + k)) = k := by
  have ht : (UInt8.ofNat (48 + k)).toNat = 48 + k := UInt8.toNat_ofNat_of_lt' (by unfold UInt8.size; omega)
  constructor
  · unfold isDigit
    simp only [Bool.and_eq_true, decide_eq_true_eq]
    exact ⟨UInt8.le_iff_toNat_le.mpr (by rw [ht]; simp), UInt8.le_iff_toNat_le.mpr (by rw [ht]; simp; omega)⟩
  · unfold digitVal; rw [ht]; omega

theorem decVal_append_single (s : Str) (c : UInt8) : decVal (s ++ [c]) = decVal s * 10 + digitVal c := by
  rw [decVal_eq, decVal_eq, decFrom_append]; rfl

/-- `%d` of a natural number: a non-empty digit string with that value -/
theorem toDec_spec (n : Nat) : toDec n ≠ [] ∧ allDigits (toDec n) = true ∧ decVal (toDec n) = n := by
  induction n using Nat.strongRecOn with
  | _ n ih =>
    rw [toDec]
    split
    · rename_i h
      obtain ⟨h1, h2⟩ := digit_char n h
      refine ⟨List.cons_ne_nil _ _, ?_, ?_⟩
      · unfold allDigits
        simp only [List.all_cons, List.all_nil, Bool.and_true]; exact h1
      · rw [decVal_eq]; unfold decFrom
        simp only [List.foldl_cons, List.foldl_nil]; omega
    · rename_i h
      obtain ⟨i1, i2, i3⟩ := ih (n / 10) (by omega)
      obtain ⟨h1, h2⟩ := digit_char (n % 10) (Nat.mod_lt _ (by omega))
      refine ⟨by intro hc; exact absurd (List.append_eq_nil_iff.mp hc).2 (List.cons_ne_nil _ _), ?_, ?_⟩
      · unfold allDigits at i2 ⊢
        rw [List.all_append, i2]
        simp only [List.all_cons, List.all_nil, Bool.and_true, Bool.true_and]; exact h1
      · rw [decVal_append_single, i3, h2]; omega

/-- the item `Duration.String` prints for a non-zero field -/
def itemOf (x : Int) (u : UInt8) : List Item := if x ≠ 0 then [⟨decide (x < 0), toDec x.natAbs, u⟩] else []

def itemsOf (d : Duration) : List Item :=
  itemOf d.years 121 ++ itemOf d.months 109 ++ itemOf d.days 100 ++ itemOf d.hours 104

theorem renderAll_append (a b : List Item) : renderAll (a ++ b) = renderAll a ++ renderAll b := by
  simp [renderAll]

theorem renderAll_itemOf (x : Int) (u : UInt8) :
    renderAll (itemOf x u) = if x ≠ 0 then fmtInt x ++ [u] else [] := by
  unfold itemOf
  split
  · simp only [renderAll, List.flatMap_cons, List.flatMap_nil, List.append_nil, Item.render, fmtInt]
    by_cases hx : x < 0
    · simp [hx]
    · have : x.toNat = x.natAbs := by omega
      simp [hx, this]
  · rfl

theorem durationString_eq (d : Duration) : durationString d = renderAll (itemsOf d) := by
  unfold durationString itemsOf
  simp only [renderAll_append, renderAll_itemOf]

theorem itemOf_valid (x : Int) (u : UInt8) (hx : -9223372036854775808 < x ∧ x < 9223372036854775808)
    (hu : u = 121 ∨ u = 109 ∨ u = 100 ∨ u = 104) : (itemOf x u).all Item.valid = true := by
  unfold itemOf
  split
  · obtain ⟨h1, h2, h3⟩ := toDec_spec x.natAbs
    simp only [List.all_cons, List.all_nil, Bool.and_true, Item.valid, Bool.and_eq_true, decide_eq_true_eq,
      Bool.or_eq_true, beq_iff_eq]
    refine ⟨⟨⟨h1, h2⟩, by rw [h3]; unfold two63; omega⟩, ?_⟩
    rcases hu with h | h | h | h <;> simp [h]
  · rfl

theorem itemOf_value (x : Int) (u : UInt8) : (⟨decide (x < 0), toDec x.natAbs, u⟩ : Item).value = x := by
  unfold Item.value
  rw [(toDec_spec x.natAbs).2.2]
  by_cases hx : x < 0
  · simp [hx]; omega
  · simp [hx]; omega

theorem denote_itemsOf (d : Duration) : denote (itemsOf d) = d := by
  obtain ⟨h, dd, m, y⟩ := d
  unfold denote itemsOf itemOf
  simp only [List.foldl_append]
  have e1 : ∀ (d0 : Duration) (x : Int), List.foldl Duration.assign d0 (if x ≠ 0 then [⟨decide (x < 0), toDec x.natAbs, 121⟩] else []) =
      (if x ≠ 0 then { d0 with years := x } else d0) := by
    intro d0 x; split
    · simp only [List.foldl_cons, List.foldl_nil, Duration.assign, if_true, itemOf_value]
    · rfl
  have e2 : ∀ (d0 : Duration) (x : Int), List.foldl Duration.assign d0 (if x ≠ 0 then [⟨decide (x < 0), toDec x.natAbs, 109⟩] else []) =
      (if x ≠ 0 then { d0 with months := x } else d0) := by
    intro d0 x; split
    · have : ¬ ((109 : UInt8) = 121) := by decide
      simp only [List.foldl_cons, List.foldl_nil, Duration.assign, this, if_false, if_true, itemOf_value]
    · rfl
  have e3 : ∀ (d0 : Duration) (x : Int), List.foldl Duration.assign d0 (if x ≠ 0 then [⟨decide (x < 0), toDec x.natAbs, 100⟩] else []) =
      (if x ≠ 0 then { d0 with days := x } else d0) := by
    intro d0 x; split
    · have h1 : ¬ ((100 : UInt8) = 121) := by decide
      have h2 : ¬ ((100 : UInt8) = 109) := by decide
      simp only [List.foldl_cons, List.foldl_nil, Duration.assign, h1, h2, if_false, if_true, itemOf_value]
    · rfl
  have e4 : ∀ (d0 : Duration) (x : Int), List.foldl Duration.assign d0 (if x ≠ 0 then [⟨decide (x < 0), toDec x.natAbs, 104⟩] else []) =
      (if x ≠ 0 then { d0 with hours := x } else d0) := by
    intro d0 x; split
    · have h1 : ¬ ((104 : UInt8) = 121) := by decide
      have h2 : ¬ ((104 : UInt8) = 109) := by decide
      have h3 : ¬ ((104 : UInt8) = 100) := by decide
      simp only [List.foldl_cons, List.foldl_nil, Duration.assign, h1, h2, h3, if_false, if_true, itemOf_value]
    · rfl
  rw [e1, e2, e3, e4]
  simp only [Duration.zero]
  by_cases hy : y = 0 <;> by_cases hm : m = 0 <;> by_cases hd : dd = 0 <;> by_cases hh : h = 0 <;> simp [hy, hm, hd, hh]

/-- a field of a `Duration` as produced by the parser: any `int` except the minimum -/
def fieldOK (x : Int) : Prop := -9223372036854775808 < x ∧ x < 9223372036854775808

/-- **print / parse**: `Duration.String` parses back to the same value (all fields in the range the
    parser can produce; `math.MinInt` cannot be produced and would not parse back) -/
theorem duration_print_parse (d : Duration)
    (h : fieldOK d.hours ∧ fieldOK d.days ∧ fieldOK d.months ∧ fieldOK d.years) :
    parseDuration false (durationString d) = .ok d := by
  rw [durationString_eq]
  have hv : (itemsOf d).all Item.valid = true := by
    unfold itemsOf
    simp only [List.all_append, Bool.and_eq_true]
    exact ⟨⟨⟨itemOf_valid _ _ h.2.2.2 (Or.inl rfl), itemOf_valid _ _ h.2.2.1 (Or.inr (Or.inl rfl))⟩,
      itemOf_valid _ _ h.2.1 (Or.inr (Or.inr (Or.inl rfl)))⟩, itemOf_valid _ _ h.1 (Or.inr (Or.inr (Or.inr rfl)))⟩
  rw [duration_complete _ hv, denote_itemsOf]

/-- every value the parser returns is in that range -/
theorem parsed_fields_ok (s : Str) (d : Duration) (h : parseDuration false s = .ok d) :
    fieldOK d.hours ∧ fieldOK d.days ∧ fieldOK d.months ∧ fieldOK d.years := by
  obtain ⟨items, _, hv, hd⟩ := (duration_ok_iff s d).mp h
  subst hd
  unfold denote
  have gen : ∀ (items : List Item) (d0 : Duration), items.all Item.valid = true →
      (fieldOK d0.hours ∧ fieldOK d0.days ∧ fieldOK d0.months ∧ fieldOK d0.years) →
      (fieldOK (items.foldl Duration.assign d0).hours ∧ fieldOK (items.foldl Duration.assign d0).days ∧
       fieldOK (items.foldl Duration.assign d0).months ∧ fieldOK (items.foldl Duration.assign d0).years) := by
    intro items
    induction items with
    | nil => intro d0 _ h0; exact h0
    | cons i is ih =>
      intro d0 hv h0
      simp only [List.all_cons, Bool.and_eq_true] at hv
      rw [List.foldl_cons]
      apply ih _ hv.2
      have hval : fieldOK i.value := by
        have := hv.1
        simp only [Item.valid, Bool.and_eq_true, decide_eq_true_eq] at this
        have hlt := this.1.2
        unfold two63 at hlt
        unfold fieldOK Item.value
        split <;> omega
      unfold Duration.assign
      split
      · exact ⟨h0.1, h0.2.1, h0.2.2.1, hval⟩
      · split
        · exact ⟨h0.1, h0.2.1, hval, h0.2.2.2⟩
        · split
          · exact ⟨h0.1, hval, h0.2.2.1, h0.2.2.2⟩
          · split
            · exact ⟨hval, h0.2.1, h0.2.2.1, h0.2.2.2⟩
            · exact h0
  exact gen items Duration.zero hv (by unfold fieldOK Duration.zero; simp)

/-- **durations print back in a form that parses to the same value** -/
theorem duration_roundtrip (s : Str) (d : Duration) (h : parseDuration false s = .ok d) :
    parseDuration false (durationString d) = .ok d :=
  duration_print_parse d (parsed_fields_ok s d h)


/-! ## extended options (`options.Parse`) -/

/-- no empty key, and equal keys carry equal values -/
def Consistent (kvs : List (Str × Str)) : Prop :=
  (∀ kv ∈ kvs, kv.1 ≠ []) ∧ (∀ kv ∈ kvs, ∀ kv' ∈ kvs, kv.1 = kv'.1 → kv.2 = kv'.2)

/-- the loop of `options.Parse` on already split pairs -/
def loopKV : List (Str × Str) → List (Str × Str) → Out (List (Str × Str))
  | acc, [] => .ok acc
  | acc, (k, v) :: r =>
    if k = [] then .err .emptyKey
    else match acc.lookup k with
      | some v' => if v' ≠ v then .err .dupKey else loopKV acc r
      | none => loopKV (acc ++ [(k, v)]) r

theorem optionsLoop_eq (os : List Str) : ∀ acc, optionsLoop acc os = loopKV acc (os.map splitKeyValue) := by
  induction os with
  | nil => intro acc; rfl
  | cons o os ih =>
    intro acc
    simp only [List.map_cons]
    generalize hkv : splitKeyValue o = kv
    obtain ⟨k, v⟩ := kv
    unfold optionsLoop loopKV
    simp only [hkv]
    by_cases hk : k = []
    · simp only [hk, if_true]
    · simp only [hk, if_false]
      cases hl : List.lookup k acc with
      | none => exact ih _
      | some v' =>
        simp only
        by_cases hv : v' ≠ v
        · simp only [hv, if_true, ne_eq, not_false_eq_true]
        · simp only [hv, if_false]; exact ih acc

def Inv (acc done : List (Str × Str)) : Prop :=
  (∀ kv ∈ done, kv.1 ≠ [] ∧ acc.lookup kv.1 = some kv.2) ∧ (∀ kv ∈ acc, kv ∈ done)

theorem lookup_mem (acc : List (Str × Str)) (k v : Str) (h : acc.lookup k = some v) : (k, v) ∈ acc := by
  obtain ⟨l1, l2, rfl, _⟩ := List.lookup_eq_some_iff.mp h
  simp

theorem loopKV_spec (rest : List (Str × Str)) : ∀ acc done, Inv acc done →
    match loopKV acc rest with
    | .ok m => Consistent (done ++ rest) ∧ (∀ kv ∈ done ++ rest, m.lookup kv.1 = some kv.2) ∧ (∀ kv ∈ m, kv ∈ done ++ rest)
    | .err _ => ¬ Consistent (done ++ rest)
    | .panic => False := by
  induction rest with
  | nil =>
    intro acc done hinv
    simp only [loopKV, List.append_nil]
    refine ⟨⟨fun kv h => (hinv.1 kv h).1, ?_⟩, fun kv h => (hinv.1 kv h).2, hinv.2⟩
    intro kv h kv' h' heq
    have a := (hinv.1 kv h).2
    have b := (hinv.1 kv' h').2
    rw [heq, b] at a
    injection a with a; exact a.symm
  | cons kv r ih =>
    intro acc done hinv
    obtain ⟨k, v⟩ := kv
    unfold loopKV
    by_cases hk : k = []
    · simp only [hk, if_true]
      intro hc
      exact hc.1 ([], v) (by simp) rfl
    · simp only [hk, if_false]
      cases hl : acc.lookup k with
      | some v' =>
        simp only
        by_cases hv : v' ≠ v
        · simp only [hv, if_true, ne_eq, not_false_eq_true]
          intro hc
          have hmem : (k, v') ∈ done := hinv.2 _ (lookup_mem acc k v' hl)
          exact hv (hc.2 (k, v') (by simp [hmem]) (k, v) (by simp) rfl)
        · have hv' : v' = v := by simpa using hv
          subst hv'
          simp only [ne_eq, not_true_eq_false, if_false]
          have hinv' : Inv acc (done ++ [(k, v')]) := by
            refine ⟨?_, fun kv h => by simp [hinv.2 kv h]⟩
            intro kv h
            rcases List.mem_append.mp h with h | h
            · exact hinv.1 kv h
            · simp only [List.mem_singleton] at h; subst h; exact ⟨hk, hl⟩
          have := ih acc (done ++ [(k, v')]) hinv'
          simpa [List.append_assoc] using this
      | none =>
        simp only
        have hinv' : Inv (acc ++ [(k, v)]) (done ++ [(k, v)]) := by
          refine ⟨?_, ?_⟩
          · intro kv h
            rcases List.mem_append.mp h with h | h
            · obtain ⟨h1, h2⟩ := hinv.1 kv h
              exact ⟨h1, by rw [List.lookup_append, h2]; rfl⟩
            · simp only [List.mem_singleton] at h; subst h
              exact ⟨hk, by rw [List.lookup_append, hl]; simp⟩
          · intro kv h
            rcases List.mem_append.mp h with h | h
            · simp [hinv.2 kv h]
            · simp only [List.mem_singleton] at h; subst h; simp
        have := ih (acc ++ [(k, v)]) (done ++ [(k, v)]) hinv'
        simpa [List.append_assoc] using this

/-- **options are exact**: `options.Parse` accepts exactly the lists in which no key is empty and
    equal keys carry equal values (first `=` splits, key lower-cased, both sides trimmed); the
    returned map contains exactly the given pairs -/
theorem options_exact (ins : List Str) :
    match optionsParse ins with
    | .ok m => Consistent (ins.map splitKeyValue) ∧ (∀ kv ∈ ins.map splitKeyValue, m.lookup kv.1 = some kv.2) ∧
        (∀ kv ∈ m, kv ∈ ins.map splitKeyValue)
    | .err _ => ¬ Consistent (ins.map splitKeyValue)
    | .panic => False := by
  unfold optionsParse
  rw [optionsLoop_eq]
  have := loopKV_spec (ins.map splitKeyValue) [] [] ⟨by simp, by simp⟩
  simpa using this

theorem consistentB_iff (kvs : List (Str × Str)) :
    (kvs.all (fun kv => kv.1 ≠ []) && kvs.all (fun kv => kvs.all fun kv' => kv.1 != kv'.1 || kv.2 == kv'.2)) = true ↔
      Consistent kvs := by
  unfold Consistent
  simp only [Bool.and_eq_true, List.all_eq_true, decide_eq_true_eq, Bool.or_eq_true, bne_iff_ne, beq_iff_eq]
  constructor
  · rintro ⟨h1, h2⟩
    refine ⟨h1, fun kv h kv' h' heq => ?_⟩
    rcases h2 kv h kv' h' with h3 | h3
    · exact absurd heq h3
    · exact h3
  · rintro ⟨h1, h2⟩
    refine ⟨h1, fun kv h kv' h' => ?_⟩
    by_cases heq : kv.1 = kv'.1
    · exact Or.inr (h2 kv h kv' h' heq)
    · exact Or.inl heq

/-- the transcription meets the executable options specification evaluated by the driver -/
theorem options_specOK (ins : List Str) : specOptions ins (optionsParse ins) = true := by
  have h := options_exact ins
  unfold specOptions
  simp only
  cases hr : optionsParse ins with
  | ok m =>
    rw [hr] at h
    obtain ⟨h1, h2, h3⟩ := h
    rw [Bool.and_eq_true, Bool.and_eq_true]
    refine ⟨⟨(consistentB_iff _).mpr h1, ?_⟩, ?_⟩
    · rw [List.all_eq_true]; intro kv hkv; simp [h2 kv hkv]
    · rw [List.all_eq_true]; intro kv hkv; simp [h3 kv hkv]
  | err e =>
    rw [hr] at h
    simp only [Bool.not_eq_true']
    cases hb : (List.all (List.map splitKeyValue ins) (fun kv => kv.1 ≠ []) &&
        List.all (List.map splitKeyValue ins) (fun kv => List.all (List.map splitKeyValue ins) fun kv' => kv.1 != kv'.1 || kv.2 == kv'.2)) with
    | false => rfl
    | true => exact absurd ((consistentB_iff _).mp hb) h
  | panic => rw [hr] at h; exact h.elim


/-! ## shell strings (`backend.SplitShellStrings`) -/

theorem splitShell_no_panic (data : Str) : splitShellStrings data ≠ .panic := by
  unfold splitShellStrings
  simp only
  split
  · intro h; cases h
  · split
    · intro h; cases h
    · split <;> (intro h; cases h)

/-- fields are never empty -/
theorem splitLoop_fields_nonempty (data : Str) : ∀ (st : Splitter) (cur : Option Str) (acc : List Str),
    (∀ f, cur = some f → f ≠ []) → (∀ f ∈ acc, f ≠ []) → ∀ f ∈ (splitLoop st cur acc data).2, f ≠ [] := by
  induction data with
  | nil =>
    intro st cur acc hc ha f hf
    cases cur with
    | none => exact ha f hf
    | some g =>
      simp only [splitLoop, List.mem_append, List.mem_singleton] at hf
      rcases hf with hf | hf
      · exact ha f hf
      · subst hf; exact hc f rfl
  | cons c cs ih =>
    intro st cur acc hc ha
    unfold splitLoop
    generalize isSplitChar st c = r
    obtain ⟨st', split⟩ := r
    simp only
    cases split with
    | true =>
      simp only [if_true]
      cases cur with
      | none => exact ih st' none acc (by simp) ha
      | some g =>
        refine ih st' none (acc ++ [g]) (by simp) ?_
        intro f hf
        rcases List.mem_append.mp hf with hf | hf
        · exact ha f hf
        · simp only [List.mem_singleton] at hf; subst hf; exact hc f rfl
    | false =>
      simp only [Bool.false_eq_true, if_false]
      exact ih st' _ acc (by intro f hf; injection hf with hf; subst hf; simp) ha

/-- without quotes and backslashes the splitter is `strings.FieldsFunc(data, unicode.IsSpace)` -/
theorem splitLoop_plain (data : Str) : ∀ (st : Splitter) (cur : Option Str) (acc : List Str),
    data.all plainChar = true → st.quote = 0 → st.lastChar ≠ 92 →
    (splitLoop st cur acc data).2 = acc ++ fieldsSpace cur data ∧ (splitLoop st cur acc data).1.quote = 0 := by
  induction data with
  | nil =>
    intro st cur acc _ hq _
    cases cur <;> simp [splitLoop, fieldsSpace, hq]
  | cons c cs ih =>
    intro st cur acc hp hq hl
    simp only [List.all_cons, Bool.and_eq_true] at hp
    obtain ⟨hpc, hps⟩ := hp
    simp only [plainChar, Bool.and_eq_true, bne_iff_ne, ne_eq] at hpc
    have hstep : isSplitChar st c = ({ st with lastChar := c }, isSpace c) := by
      unfold isSplitChar
      have h1 : ¬ (st.lastChar ≠ 92 ∧ st.quote ≠ 0 ∧ c = st.quote) := by simp [hq]
      have h2 : ¬ (st.lastChar ≠ 92 ∧ st.quote = 0 ∧ (c = 34 ∨ c = 39)) := by
        intro h; rcases h.2.2 with h | h
        · exact hpc.1.1 h
        · exact hpc.1.2 h
      rw [if_neg h1, if_neg h2]
      have : (c == 92) = false := by simpa using hpc.2
      simp [hq, hpc.2]
    unfold splitLoop fieldsSpace
    rw [hstep]
    simp only
    cases hsp : isSpace c with
    | true =>
      simp only [if_true]
      cases cur with
      | none => exact ih _ none acc hps hq hpc.2
      | some g =>
        have := ih { st with lastChar := c } none (acc ++ [g]) hps hq hpc.2
        simpa [List.append_assoc] using this
    | false =>
      simp only [Bool.false_eq_true, if_false]
      exact ih _ _ acc hps hq hpc.2

/-- the transcription meets the executable shell-split specification evaluated by the driver:
    no panic, no empty field, at least one field when accepted, plain strings split at white space -/
theorem shell_specOK (data : Str) : specShell data (splitShellStrings data) = true := by
  have hne := splitLoop_fields_nonempty data ⟨0, 0⟩ none [] (by simp) (by simp)
  unfold specShell
  cases hr : splitShellStrings data with
  | panic => exact absurd hr (splitShell_no_panic data)
  | ok strs =>
    unfold splitShellStrings at hr
    simp only at hr
    split at hr
    · cases hr
    · split at hr
      · cases hr
      · split at hr
        · cases hr
        · rename_i h1 h2 h3
          injection hr with hr
          subst hr
          simp only [Bool.and_eq_true, Bool.or_eq_true, Bool.not_eq_true', decide_eq_true_eq, List.all_eq_true, beq_iff_eq]
          refine ⟨⟨h3, fun f hf => hne f hf⟩, ?_⟩
          by_cases hp : data.all plainChar = true
          · right
            have := (splitLoop_plain data ⟨0, 0⟩ none [] hp rfl (by decide)).1
            simpa using this
          · left; simpa using hp
  | err e =>
    simp only [Bool.or_eq_true, Bool.not_eq_true', Bool.and_eq_true, beq_iff_eq]
    by_cases hp : data.all plainChar = true
    · right
      obtain ⟨h1, h2⟩ := splitLoop_plain data ⟨0, 0⟩ none [] hp rfl (by decide)
      unfold splitShellStrings at hr
      simp only at hr
      have hq1 : ¬ ((splitLoop ⟨0, 0⟩ none [] data).1.quote = 39) := by rw [h2]; decide
      have hq2 : ¬ ((splitLoop ⟨0, 0⟩ none [] data).1.quote = 34) := by rw [h2]; decide
      simp only [hq1, hq2, if_false] at hr
      split at hr
      · rename_i hempty
        injection hr with hr
        rw [h1] at hempty
        simp only [List.nil_append] at hempty
        exact ⟨hempty, by rw [← hr]⟩
      · cases hr
    · left; simpa using hp


/-! ## check --read-data-subset (`checkFlags`) -/

theorem sizeDenotes_of_not_ok (s : Str) (h : ∀ v, parseBytes s ≠ .ok v) (v : Int) (hd : sizeDenotes s = some v) :
    (decide (0 < v) && decide (v < (two63 : Int))) = false := by
  simp only [Bool.and_eq_false_iff, decide_eq_false_iff_not]
  by_cases hin : 0 < v ∧ v < 9223372036854775808
  · exact absurd ((parseBytes_ok_iff s v).mpr ⟨hd, by omega, hin.2⟩) (h v)
  · by_cases h0 : 0 < v
    · right; intro hlt; exact hin ⟨h0, by unfold two63 at hlt; simpa using hlt⟩
    · left; exact h0

/-- **check subsets are exact**: (after the fix of the NaN comparison) a `--read-data-subset` value is
    accepted exactly when it denotes `n/t` with `1 ≤ n ≤ t ≤ totalBucketsMax`, a percentage in
    `(0, 100]`, or a size above 0 — and `--read-data` is not given as well -/
theorem flags_specOK (M : Nat) (rd : Bool) (s : Str) (pct : Pct) :
    specFlags M rd s pct (checkFlags false M rd s pct) = true := by
  unfold specFlags checkFlags
  by_cases h1 : rd = true ∧ s ≠ []
  · simp only [h1, and_self, if_true]
    simp [h1.1, h1.2]
  · simp only [h1, if_false]
    by_cases hs : s = []
    · simp [hs]
    · have hrd : rd = false := by
        cases rd with
        | false => rfl
        | true => exact absurd ⟨rfl, hs⟩ h1
      subst hrd
      simp only [hs, if_false, decide_false, Bool.false_or, Bool.not_false, Bool.true_and]
      unfold flagDenotes Restic.Model.CheckSubset.checkFlagsNT
      cases hsl : Restic.Model.CheckSubset.stringToIntSlice s with
      | error e =>
        simp only
        by_cases hpc : s.getLast? = some 37
        · simp only [hpc, if_true]
          cases pct <;> decide
        · simp only [hpc, if_false]
          cases hp : parseBytes s with
          | ok v =>
            obtain ⟨hd, h0, hlt⟩ := (parseBytes_ok_iff s v).mp hp
            simp only [hd]
            by_cases hv : v ≤ 0
            · simp only [hv, if_true]
              have : ¬ (0 < v) := by omega
              simp [this]
            · simp only [hv, if_false]
              have : 0 < v := by omega
              simp [this, two63, hlt]
          | err e' =>
            simp only
            cases hd : sizeDenotes s with
            | none => decide
            | some v =>
              simp only
              rw [sizeDenotes_of_not_ok s (by intro v hv; rw [hp] at hv; cases hv) v hd]
              decide
          | panic => exact absurd hp (parseBytes_no_panic s)
      | ok ds =>
        simp only
        match ds with
        | [] => rfl
        | [_] => rfl
        | [n, t] =>
          simp only
          by_cases hc : n = 0 ∨ t = 0 ∨ n > t
          · simp only [hc, if_true]
            have : ¬ (1 ≤ n ∧ n ≤ t) := by omega
            by_cases h1n : 1 ≤ n <;> by_cases hnt : n ≤ t <;> simp [h1n, hnt] <;> omega
          · simp only [hc, if_false]
            have h1n : 1 ≤ n := by omega
            have hnt : n ≤ t := by omega
            by_cases htM : t > M
            · simp only [htM, if_true]
              have : ¬ t ≤ M := by omega
              simp [this]
            · simp only [htM, if_false]
              have : t ≤ M := by omega
              simp [h1n, hnt, this]
        | _ :: _ :: _ :: _ => rfl

/-- no `--read-data-subset` value makes `checkFlags` panic: the model has no panic outcome other than
    through `parseBytes`, which never panics (`parseBytes_no_panic`); the n/t branch is total -/
theorem flags_total (M : Nat) (rd : Bool) (s : Str) (pct : Pct) :
    ∃ r : FlagOut, checkFlags false M rd s pct = r := ⟨_, rfl⟩

/-- the finding on the code before the fix: `NaN%` is accepted although it denotes no percentage -/
theorem legacy_nan_accepted :
    checkFlags true 256 false [78, 97, 78, 37] .nan = .accept ∧
    specFlags 256 false [78, 97, 78, 37] .nan (checkFlags true 256 false [78, 97, 78, 37] .nan) = false ∧
    checkFlags false 256 false [78, 97, 78, 37] .nan = .pctRange := by decide

/-! ## T1: facts regenerated from the current source -/

/-- the unit suffixes `ParseBytes` switches on are exactly the ones of the model -/
theorem parseBytes_suffixes_match_source :
    Restic.Gen.ParseBytes_cases = ["'b'", "'B'", "'k'", "'K'", "'m'", "'M'", "'g'", "'G'", "'t'", "'T'", "default"] := by decide

/-- the multipliers the current source applies (evaluated by running the real `ParseBytes` on
    "1<suffix>") are the ones of the model -/
theorem parseBytes_units_match_source :
    unitOf 98 = some Restic.Gen.ui_ParseBytes_unit_b ∧ unitOf 66 = some Restic.Gen.ui_ParseBytes_unit_B ∧
    unitOf 107 = some Restic.Gen.ui_ParseBytes_unit_k ∧ unitOf 75 = some Restic.Gen.ui_ParseBytes_unit_K ∧
    unitOf 109 = some Restic.Gen.ui_ParseBytes_unit_m ∧ unitOf 77 = some Restic.Gen.ui_ParseBytes_unit_M ∧
    unitOf 103 = some Restic.Gen.ui_ParseBytes_unit_g ∧ unitOf 71 = some Restic.Gen.ui_ParseBytes_unit_G ∧
    unitOf 116 = some Restic.Gen.ui_ParseBytes_unit_t ∧ unitOf 84 = some Restic.Gen.ui_ParseBytes_unit_T := by decide

/-- the unit letters of `ParseDuration` -/
theorem parseDuration_units_match_source :
    Restic.Gen.ParseDuration_cases = ["'y'", "'m'", "'d'", "'h'", "default"] := by decide

/-- `nextNumber` contains no call of `panic` any more (fails to build against the code before the fix of F1) -/
theorem nextNumber_does_not_panic : "panic" ∉ Restic.Gen.nextNumber_calls := by decide

/-! ## Non-vacuity -/

example : parseDuration false [49, 121, 53, 109, 55, 100, 50, 104] = .ok ⟨2, 7, 5, 1⟩ := by decide            -- "1y5m7d2h"
example : parseDuration false [32, 45, 51, 100, 52, 100, 10] = .ok ⟨0, 4, 0, 0⟩ := by decide                  -- " -3d4d\n": last value wins
example : parseDuration false [53, 120] = .err .invalidUnit := by decide
example : parseDuration false [53] = .err .noUnit := by decide
example : parseBytes [56, 51, 56, 56, 54, 48, 55, 84] = .ok 9223370937343148032 := by decide                   -- "8388607T"
example : parseBytes [56, 51, 56, 56, 54, 48, 56, 84] = .err .range := by decide                              -- "8388608T" = 2^63
example : parseBytes [45, 49, 75] = .err .range := by decide                                                  -- "-1K"
example : policyCountSet unlimited = .ok (-1) := by decide
example : policyCountSet [45, 49] = .err .negative := by decide
example : optionsParse [[65, 61, 49], [97, 32, 61, 32, 49]] = .ok [([97], [49])] := by decide                 -- "A=1", "a = 1"
example : optionsParse [[97, 61, 49], [97, 61, 50]] = .err .dupKey := by decide
example : splitShellStrings [97, 32, 34, 98, 32, 99, 34, 32, 100] = .ok [[97], [98, 32, 99], [100]] := by decide  -- a "b c" d
example : splitShellStrings [97, 32, 39, 98] = .err .unterminatedSingle := by decide
example : checkFlags false 256 false [51, 47, 55] .parseErr = .accept := by decide                            -- "3/7"
example : checkFlags false 256 false [53, 48, 48, 75] .parseErr = .accept := by decide                        -- "500K"


/-! ## applying extended options to a config struct (`Options.Apply`) -/

/-- **uint options are exact**: accepted exactly when the value is an (unsigned) Go integer literal
    whose number is below 2^32, and exactly that number is stored -/
theorem apply_uint_ok_iff (value : Str) (d : Option Int) (r : Val) :
    applyOne .uint value d = .ok r ↔ ∃ n, r = .uint n ∧ numeral value = some n ∧ n < 4294967296 := by
  have h32 : (2 : Nat) ^ 32 = 4294967296 := by decide
  unfold applyOne
  simp only
  cases hp : parseUint0 32 value with
  | error e =>
    simp only
    constructor
    · intro h; cases h
    · rintro ⟨n, _, h2, h3⟩
      have := (parseUint0_ok_iff 32 (by omega) value n).mpr ⟨h2, by rw [h32]; exact h3⟩
      rw [hp] at this; cases this
  | ok vi =>
    obtain ⟨h1, h2⟩ := (parseUint0_ok_iff 32 (by omega) value vi).mp hp
    simp only
    constructor
    · intro h; injection h with h; subst h; exact ⟨vi, rfl, h1, by rw [h32] at h2; exact h2⟩
    · rintro ⟨n, rfl, h2', _⟩; rw [h1] at h2'; injection h2' with h2'; rw [h2']

/-- a value with a sign is never accepted for a `uint` option (the seeded defect C49-b: `-1` stored as 2^64-1) -/
theorem apply_uint_rejects_signed (c : UInt8) (rest : Str) (hc : c = 45 ∨ c = 43) (d : Option Int) :
    ∃ e, applyOne .uint (c :: rest) d = .err e := by
  cases h : applyOne .uint (c :: rest) d with
  | err e => exact ⟨e, rfl⟩
  | ok r =>
    obtain ⟨n, _, h2, _⟩ := (apply_uint_ok_iff _ d r).mp h
    rw [numeral_signed_none c rest hc] at h2; cases h2
  | panic => unfold applyOne at h; simp only at h; split at h <;> cases h

/-- **int options are exact**: optional sign and a Go integer literal; accepted exactly when the signed
    number lies in `[-2^31, 2^31)`, and exactly that number is stored -/
theorem apply_int_ok_iff (value : Str) (d : Option Int) (r : Val) :
    applyOne .int value d = .ok r ↔
      ∃ n, numeral (splitSign value).2 = some n ∧
        r = .int (if (splitSign value).1 then -(n : Int) else (n : Int)) ∧
        -2147483648 ≤ (if (splitSign value).1 then -(n : Int) else (n : Int)) ∧
        (if (splitSign value).1 then -(n : Int) else (n : Int)) < 2147483648 := by
  unfold applyOne
  simp only
  cases hp : parseInt0 32 value with
  | error e =>
    simp only
    constructor
    · intro h; cases h
    · rintro ⟨n, h1, _, h3, h4⟩
      have := (parseInt0_32_ok_iff value _).mpr ⟨n, h1, rfl, h3, h4⟩
      rw [hp] at this; cases this
  | ok vi =>
    obtain ⟨n, h1, h2, h3, h4⟩ := (parseInt0_32_ok_iff value vi).mp hp
    simp only
    constructor
    · intro h; injection h with h; subst h; exact ⟨n, h1, by rw [h2], by rw [← h2]; exact h3, by rw [← h2]; exact h4⟩
    · rintro ⟨m, h1', rfl, _, _⟩
      rw [h1] at h1'; injection h1' with h1'; subst h1'; rw [h2]

/-- no option value makes `Apply` panic when the field has one of the supported types (all tagged
    fields of restic's backend config structs have; checked in the correspondence run) -/
theorem applyOne_no_panic (k : Kind) (hk : k ≠ .other) (value : Str) (d : Option Int) :
    applyOne k value d ≠ .panic := by
  unfold applyOne
  cases k with
  | other => exact absurd rfl hk
  | str => intro h; cases h
  | int => simp only; split <;> (intro h; cases h)
  | uint => simp only; split <;> (intro h; cases h)
  | bool => simp only; split <;> (intro h; cases h)
  | dur => simp only; split <;> (intro h; cases h)

/-- the transcription meets the executable per-option specification evaluated by the driver -/
theorem applyOne_specOK (k : Kind) (value : Str) (d : Option Int) :
    specApply k value d (applyOne k value d) = true := by
  cases k with
  | other => rfl
  | str => simp [specApply, applyOne]
  | bool =>
    unfold specApply applyOne
    simp only
    cases parseBool value <;> simp
  | dur =>
    unfold specApply applyOne
    simp only
    cases d <;> simp
  | uint =>
    unfold specApply
    simp only
    cases hr : applyOne .uint value d with
    | panic => exact absurd hr (applyOne_no_panic .uint (by decide) value d)
    | ok r =>
      obtain ⟨n, rfl, h2, h3⟩ := (apply_uint_ok_iff value d r).mp hr
      simp [h2, h3]
    | err e =>
      cases hn : numeral value with
      | none => rfl
      | some n =>
        simp only [Bool.not_eq_true', decide_eq_false_iff_not]
        intro hlt
        have := (apply_uint_ok_iff value d (.uint n)).mpr ⟨n, rfl, hn, hlt⟩
        rw [hr] at this; cases this
  | int =>
    unfold specApply
    simp only
    cases hr : applyOne .int value d with
    | panic => exact absurd hr (applyOne_no_panic .int (by decide) value d)
    | ok r =>
      obtain ⟨n, h1, rfl, h3, h4⟩ := (apply_int_ok_iff value d r).mp hr
      simp [h1, h3, h4]
    | err e =>
      cases hn : numeral (splitSign value).2 with
      | none => rfl
      | some n =>
        show (!(decide (-2147483648 ≤ (if (splitSign value).1 = true then -(n : Int) else (n : Int))) &&
            decide ((if (splitSign value).1 = true then -(n : Int) else (n : Int)) < 2147483648))) = true
        rw [Bool.not_eq_true', Bool.and_eq_false_iff, decide_eq_false_iff_not, decide_eq_false_iff_not]
        by_cases hin : -2147483648 ≤ (if (splitSign value).1 then -(n : Int) else (n : Int)) ∧
            (if (splitSign value).1 then -(n : Int) else (n : Int)) < 2147483648
        · exfalso
          have := (apply_int_ok_iff value d _).mpr ⟨n, hn, rfl, hin.1, hin.2⟩
          rw [hr] at this; cases this
        · by_cases h0 : -2147483648 ≤ (if (splitSign value).1 then -(n : Int) else (n : Int))
          · right; intro hlt; exact hin ⟨h0, hlt⟩
          · left; exact h0

/-- `Apply` as a whole: when it succeeds every option named a field and was converted as above; it
    never panics when every tagged field has a supported type -/
theorem applyAll_ok (fields : List (Str × Kind)) (dur : Str → Option Int) (opts : List (Str × Str)) :
    ∀ vs, applyAll fields dur opts = .ok vs →
      vs.map (·.1) = opts.map (·.1) ∧
      ∀ kv ∈ opts, ∃ k v, fields.lookup kv.1 = some k ∧ applyOne k kv.2 (dur kv.2) = .ok v ∧ (kv.1, v) ∈ vs := by
  induction opts with
  | nil => intro vs h; simp only [applyAll] at h; injection h with h; subst h; simp
  | cons o os ih =>
    intro vs h
    obtain ⟨key, value⟩ := o
    unfold applyAll at h
    cases hl : fields.lookup key with
    | none => rw [hl] at h; cases h
    | some k =>
      rw [hl] at h
      simp only at h
      cases ha : applyOne k value (dur value) with
      | panic => rw [ha] at h; cases h
      | err e => rw [ha] at h; cases h
      | ok v =>
        rw [ha] at h
        simp only at h
        cases hr : applyAll fields dur os with
        | panic => rw [hr] at h; cases h
        | err e => rw [hr] at h; cases h
        | ok vs' =>
          rw [hr] at h
          injection h with h; subst h
          obtain ⟨i1, i2⟩ := ih vs' hr
          refine ⟨by simp [i1], ?_⟩
          intro kv hkv
          rcases List.mem_cons.mp hkv with rfl | hkv
          · exact ⟨k, v, hl, ha, List.mem_cons_self ..⟩
          · obtain ⟨k', v', a, b, c⟩ := i2 kv hkv
            exact ⟨k', v', a, b, List.mem_cons_of_mem _ c⟩

theorem applyAll_no_panic (fields : List (Str × Kind)) (hf : ∀ f ∈ fields, f.2 ≠ .other)
    (dur : Str → Option Int) (opts : List (Str × Str)) : applyAll fields dur opts ≠ .panic := by
  induction opts with
  | nil => intro h; cases h
  | cons o os ih =>
    obtain ⟨key, value⟩ := o
    unfold applyAll
    cases hl : fields.lookup key with
    | none => intro h; cases h
    | some k =>
      simp only
      have hk : k ≠ .other := by
        obtain ⟨l1, l2, rfl, _⟩ := List.lookup_eq_some_iff.mp hl
        exact hf (key, k) (by simp)
      cases ha : applyOne k value (dur value) with
      | panic => exact absurd ha (applyOne_no_panic k hk value (dur value))
      | err e => intro h; cases h
      | ok v =>
        simp only
        cases hr : applyAll fields dur os with
        | panic => exact absurd hr ih
        | err e => intro h; cases h
        | ok vs' => intro h; cases h

/-- witnesses for the literal forms and the boundaries -/
example : applyOne .uint [45, 49] none = .err .esyntax := by decide                           -- "-1"
example : applyOne .uint [52, 50, 57, 52, 57, 54, 55, 50, 57, 53] none = .ok (.uint 4294967295) := by decide   -- 2^32-1
example : applyOne .uint [52, 50, 57, 52, 57, 54, 55, 50, 57, 54] none = .err .range := by decide              -- 2^32
example : applyOne .uint [48, 120, 49, 48] none = .ok (.uint 16) := by decide                 -- "0x10"
example : applyOne .uint [48, 49, 55] none = .ok (.uint 15) := by decide                      -- "017"
example : applyOne .uint [49, 95, 48, 48, 48] none = .ok (.uint 1000) := by decide            -- "1_000"
example : applyOne .uint [49, 95, 95, 48] none = .err .esyntax := by decide                   -- "1__0"
example : applyOne .int [45, 50, 49, 52, 55, 52, 56, 51, 54, 52, 56] none = .ok (.int (-2147483648)) := by decide
example : applyOne .int [50, 49, 52, 55, 52, 56, 51, 54, 52, 56] none = .err .range := by decide               -- 2^31
example : applyOne .int [45, 48, 120, 49, 48] none = .ok (.int (-16)) := by decide            -- "-0x10"
example : applyOne .bool [84, 114, 117, 101] none = .ok (.bool true) := by decide             -- "True"
example : applyAll [([117], .uint), ([115], .str)] (fun _ => none) [([117], [53]), ([115], [120])] =
    .ok [([117], .uint 5), ([115], .str [120])] := by decide

end Restic.Props.C49
