import Restic.Model.Parse
import Restic.Proofs.C49_Strconv
import Restic.Gen.Source
import Restic.Gen.Consts
/-!
# C49 — User-supplied durations, sizes and counts parse totally and exactly
-/
namespace Restic.Props.C49
open Restic.Model.Parse Restic.Model.Strconv Restic.Proofs.Strconv

/-! ## byte sizes (`ui.ParseBytes`) -/

theorem unitOf_cases (c : UInt8) (u : Nat) (h : unitOf c = some u) :
    u = 1 ∨ u = 1024 ∨ u = 1048576 ∨ u = 1073741824 ∨ u = 1099511627776 := by
  unfold unitOf at h
  repeat (first | (split at h; (injection h with h; omega)) | cases h)

/-- the 64×64→128 multiply with the `hi != 0 || value < 0` test accepts exactly the products in
    `[0, 2^63)`, and returns the product -/
theorem mul64Check_ok_iff (value : Int) (unit : Nat) (hv1 : -9223372036854775808 ≤ value) (hv2 : value < 9223372036854775808)
    (hu : unit = 1 ∨ unit = 1024 ∨ unit = 1048576 ∨ unit = 1073741824 ∨ unit = 1099511627776) (v : Int) :
    mul64Check value unit = .ok v ↔ (v = value * unit ∧ 0 ≤ v ∧ v < 9223372036854775808) := by
  unfold mul64Check
  simp only
  generalize hx : (value % (two64 : Int)).toNat = x
  have hx' : (0 ≤ value → (x : Int) = value) ∧ (value < 0 → (x : Int) = value + 18446744073709551616) := by
    subst hx; unfold two64; omega
  unfold two64 two63
  rcases hu with rfl | rfl | rfl | rfl | rfl
  all_goals
    split
    · constructor
      · intro h; cases h
      · rintro ⟨h1, h2, h3⟩; omega
    · split
      · constructor
        · intro h; cases h
        · rintro ⟨h1, h2, h3⟩; omega
      · constructor
        · intro h; injection h with h; omega
        · rintro ⟨h1, h2, h3⟩; congr 1; omega

theorem parseBytes_core (numStr : Str) (unit : Nat)
    (hunit : unit = 1 ∨ unit = 1024 ∨ unit = 1048576 ∨ unit = 1073741824 ∨ unit = 1099511627776) (v : Int) :
    (match parseInt 64 numStr with
      | .error e => Out.err (ofNumErr e)
      | .ok value => mul64Check value unit) = .ok v ↔
    ((if (splitSign numStr).2 ≠ [] ∧ allDigits (splitSign numStr).2 = true then
        some ((if (splitSign numStr).1 then -(decVal (splitSign numStr).2 : Int) else (decVal (splitSign numStr).2 : Int)) * unit)
      else none) = some v ∧ 0 ≤ v ∧ v < 9223372036854775808) := by
  cases hp : parseInt 64 numStr with
  | error e =>
    have hno : ∀ x, ¬ ((splitSign numStr).2 ≠ [] ∧ allDigits (splitSign numStr).2 = true ∧
        x = (if (splitSign numStr).1 then -(decVal (splitSign numStr).2 : Int) else (decVal (splitSign numStr).2 : Int)) ∧
        -9223372036854775808 ≤ x ∧ x < 9223372036854775808) := by
      intro x hx
      have := (parseInt64_ok_iff numStr x).mpr hx
      rw [hp] at this; cases this
    constructor
    · intro h; cases h
    · rintro ⟨h1, h2, h3⟩
      exfalso
      split at h1
      · rename_i hd
        injection h1 with h1
        refine hno _ ⟨hd.1, hd.2, rfl, ?_, ?_⟩
        · rcases hunit with rfl | rfl | rfl | rfl | rfl <;> split at h1 <;> omega
        · rcases hunit with rfl | rfl | rfl | rfl | rfl <;> split at h1 <;> omega
      · cases h1
  | ok value =>
    obtain ⟨h1, h2, h3, h4, h5⟩ := (parseInt64_ok_iff numStr value).mp hp
    show mul64Check value unit = .ok v ↔ _
    rw [mul64Check_ok_iff value unit h4 h5 hunit v]
    have hd : (splitSign numStr).2 ≠ [] ∧ allDigits (splitSign numStr).2 = true := ⟨h1, h2⟩
    rw [if_pos hd, ← h3]
    constructor
    · rintro ⟨a, b, c⟩; exact ⟨by rw [a], b, c⟩
    · rintro ⟨a, b, c⟩; injection a with a; exact ⟨a.symm, b, c⟩

/-- **sizes are exact**: `ParseBytes` accepts exactly the strings `[+-]digits[unit]` whose value times
    the unit lies in `[0, 2^63)`, and returns that product -/
theorem parseBytes_ok_iff (s : Str) (v : Int) :
    parseBytes s = .ok v ↔ sizeDenotes s = some v ∧ 0 ≤ v ∧ v < 9223372036854775808 := by
  unfold parseBytes sizeDenotes
  cases hl : s.getLast? with
  | none => simp
  | some last =>
    cases hu : unitOf last with
    | none => simp only [hu]; exact parseBytes_core s 1 (Or.inl rfl) v
    | some u => simp only [hu]; exact parseBytes_core s.dropLast u (unitOf_cases last u hu) v

theorem mul64Check_no_panic (v : Int) (u : Nat) : mul64Check v u ≠ .panic := by
  unfold mul64Check
  simp only
  split
  · intro h; cases h
  · split <;> (intro h; cases h)

/-- `ParseBytes` never panics -/
theorem parseBytes_no_panic (s : Str) : parseBytes s ≠ .panic := by
  unfold parseBytes
  split
  · intro h; cases h
  · simp only
    split
    · intro h; cases h
    · exact mul64Check_no_panic _ _

/-- the transcription meets the executable size specification evaluated by the driver -/
theorem parseBytes_specOK (s : Str) : specBytes s (parseBytes s) = true := by
  unfold specBytes
  cases hr : parseBytes s with
  | panic => exact absurd hr (parseBytes_no_panic s)
  | ok v =>
    obtain ⟨h1, h2, h3⟩ := (parseBytes_ok_iff s v).mp hr
    simp only [h1, two63]
    simp [h2, h3]
  | err e =>
    simp only
    cases hd : sizeDenotes s with
    | none => rfl
    | some x =>
      simp only [two63, Bool.not_eq_true', Bool.and_eq_false_iff, decide_eq_false_iff_not]
      by_cases hin : 0 ≤ x ∧ x < 9223372036854775808
      · have := (parseBytes_ok_iff s x).mpr ⟨hd, hin.1, hin.2⟩
        rw [hr] at this; cases this
      · by_cases h0 : 0 ≤ x
        · right
          apply decide_eq_false
          intro hlt
          exact hin ⟨h0, by simpa using hlt⟩
        · left; exact h0


/-! ## forget policy counts (`ForgetPolicyCount.Set`) -/

/-- **counts are exact**: accepted are exactly "unlimited" (→ -1) and `[+-]digits` with a value in
    `[0, 2^63)` (→ that value) -/
theorem policyCount_ok_iff (s : Str) (v : Int) :
    policyCountSet s = .ok v ↔
      (s = unlimited ∧ v = -1) ∨
      (s ≠ unlimited ∧ (splitSign s).2 ≠ [] ∧ allDigits (splitSign s).2 = true ∧
        v = (if (splitSign s).1 then -(decVal (splitSign s).2 : Int) else (decVal (splitSign s).2 : Int)) ∧
        0 ≤ v ∧ v < 9223372036854775808) := by
  unfold policyCountSet
  by_cases hu : s = unlimited
  · simp only [hu, if_true]
    constructor
    · intro h; injection h with h; exact Or.inl ⟨trivial, h.symm⟩
    · rintro (⟨_, rfl⟩ | ⟨h, _⟩)
      · rfl
      · exact absurd rfl h
  · simp only [hu, if_false, false_and, false_or, ne_eq, not_false_eq_true, true_and]
    cases hp : parseInt 64 s with
    | error e =>
      constructor
      · intro h; cases h
      · rintro ⟨h1, h2, h3, h4, h5⟩
        have := (parseInt64_ok_iff s v).mpr ⟨h1, h2, h3, by omega, h5⟩
        rw [hp] at this; cases this
    | ok x =>
      obtain ⟨h1, h2, h3, h4, h5⟩ := (parseInt64_ok_iff s x).mp hp
      show (if x < 0 then Out.err PErr.negative else Out.ok x) = Out.ok v ↔ _
      split
      · constructor
        · intro h; cases h
        · rintro ⟨_, _, h3', h4', _⟩; rw [← h3] at h3'; omega
      · constructor
        · intro h; injection h with h; subst h; exact ⟨h1, h2, h3, by omega, h5⟩
        · rintro ⟨_, _, h3', _, _⟩; rw [← h3] at h3'; rw [h3']

theorem policyCount_no_panic (s : Str) : policyCountSet s ≠ .panic := by
  unfold policyCountSet
  split
  · intro h; cases h
  · split
    · intro h; cases h
    · split <;> (intro h; cases h)

theorem unlimited_not_numeral : ¬ ((splitSign unlimited).2 ≠ [] ∧ allDigits (splitSign unlimited).2 = true) := by decide

/-- the transcription meets the executable count specification evaluated by the driver -/
theorem policyCount_specOK (s : Str) : specCount s (policyCountSet s) = true := by
  unfold specCount
  cases hr : policyCountSet s with
  | panic => exact absurd hr (policyCount_no_panic s)
  | ok v =>
    rcases (policyCount_ok_iff s v).mp hr with ⟨h1, h2⟩ | ⟨h1, h2, h3, h4, h5, h6⟩
    · subst h1 h2; decide
    · have hd : (splitSign s).2 ≠ [] ∧ allDigits (splitSign s).2 = true := ⟨h2, h3⟩
      simp only [h1, if_false, hd, and_self, if_true, two63]
      rw [← h4]
      simp [h5, h6, h2]
  | err e =>
    by_cases hu : s = unlimited
    · exfalso
      have := (policyCount_ok_iff s (-1)).mpr (Or.inl ⟨hu, rfl⟩)
      rw [hr] at this; cases this
    · simp only [hu, if_false]
      split
      · rename_i x hx
        split at hx
        · rename_i hd
          injection hx with hx
          by_cases hin : 0 ≤ x ∧ x < 9223372036854775808
          · exfalso
            have := (policyCount_ok_iff s x).mpr (Or.inr ⟨hu, hd.1, hd.2, hx.symm, hin.1, hin.2⟩)
            rw [hr] at this; cases this
          · have hne : (s != unlimited) = true := by simpa using hu
            simp only [hne, Bool.true_and, Bool.not_eq_true', Bool.and_eq_false_iff, decide_eq_false_iff_not, two63]
            by_cases h0 : 0 ≤ x
            · right; apply decide_eq_false; intro hlt; exact hin ⟨h0, by simpa using hlt⟩
            · left; exact h0
        · cases hx
      · rfl

end Restic.Props.C49
