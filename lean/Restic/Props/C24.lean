import Restic.Model.Snapshots
/-!
# C24 — Snapshot filters, grouping and 'latest' select the right snapshots

Theorems about `Restic.Model.Snapshots` (transcription of HasTags / HasTagList / HasPaths /
HasHostname, SnapshotFilter.matches / findLatest / FindAll and GroupSnapshots). Everything is for
all snapshot sets, filters and visiting orders.
-/
namespace Restic.Props.C24
open Restic.Model.Snapshots

/-! ## filters -/

theorem hasHostname_spec (sn : Snap) (hosts : List String) :
    hasHostname sn hosts = true ↔ hosts = [] ∨ sn.host ∈ hosts := by
  unfold hasHostname
  cases hosts with
  | nil => simp
  | cons h t => simp

theorem hasPaths_spec (sn : Snap) (ps : List String) :
    hasPaths sn ps = true ↔ ∀ p ∈ ps, p ∈ sn.paths := by
  simp [hasPaths]

/-- a tag list without the empty tag: all its tags must be tags of the snapshot -/
theorem hasTags_pure (sn : Snap) (l : List Tag) (h : "" ∉ l) :
    hasTags sn l = true ↔ ∀ t ∈ l, t ∈ sn.tags := by
  induction l with
  | nil => simp [hasTags]
  | cons t rest ih =>
    have ht : t ≠ "" := fun e => h (by simp [e])
    have hb : (t == "") = false := by simp [ht]
    have hr : "" ∉ rest := fun e => h (by simp [e])
    by_cases hm : t ∈ sn.tags
    · simp [hasTags, hasTag, hb, hm, ih hr]
    · simp [hasTags, hasTag, hb, hm]

/-- the marker list `[""]` selects the untagged snapshots (and, degenerate, snapshots that
    literally carry the tag `""`, which restic never writes) -/
theorem hasTags_marker (sn : Snap) : hasTags sn [""] = true ↔ sn.tags = [] ∨ "" ∈ sn.tags := by
  rcases hs : sn.tags with _ | ⟨a, b⟩ <;> simp [hasTags, hasTag, hs]

/-- snapshots that have tags: `""` in a list is an ordinary tag, so every list behaves as a
    subset test -/
theorem hasTags_of_tagged (sn : Snap) (l : List Tag) (h : sn.tags ≠ []) :
    hasTags sn l = true ↔ ∀ t ∈ l, t ∈ sn.tags := by
  have he : sn.tags.isEmpty = false := by cases hh : sn.tags <;> simp_all
  induction l with
  | nil => simp [hasTags]
  | cons t rest ih =>
    simp only [hasTags, hasTag, he, Bool.and_false, if_false]
    by_cases hm : t ∈ sn.tags
    · simp [hm, ih]
    · simp [hm]

/-- untagged snapshots: the answer only depends on the FIRST entry of the list — this is the
    order dependence of lists that mix `""` with other tags (`["", "a"]` selects untagged
    snapshots, `["a", ""]` does not). Characterisation of the code, not a specification. -/
theorem hasTags_of_untagged (sn : Snap) (l : List Tag) (h : sn.tags = []) :
    hasTags sn l = true ↔ l = [] ∨ l.head? = some "" := by
  cases l with
  | nil => simp [hasTags]
  | cons t rest =>
    simp only [hasTags, hasTag, h, List.isEmpty_nil, Bool.and_true, List.contains_nil,
      Bool.not_false, if_true]
    by_cases ht : t = ""
    · simp [ht]
    · simp [ht]

/-- the order dependence is real -/
example : hasTags ⟨0, 0, "h", [], []⟩ ["", "a"] = true ∧ hasTags ⟨0, 0, "h", [], []⟩ ["a", ""] = false := by
  decide

theorem hasTagList_spec (sn : Snap) (ls : List (List Tag)) :
    hasTagList sn ls = true ↔ ls = [] ∨ ∃ l ∈ ls, hasTags sn l = true := by
  unfold hasTagList
  cases ls with
  | nil => simp
  | cons a b => simp

/-- on every tag list the transcription agrees with the reading `tagListSat` of the statement -/
theorem hasTags_eq_tagListSat (sn : Snap) (l : List Tag) : hasTags sn l = tagListSat sn l := by
  unfold tagListSat
  split
  · rfl
  · rename_i hu
    simp only [unspecifiedTagCase, Bool.or_eq_true, Bool.and_eq_true, List.contains_iff_mem,
      bne_iff_ne, ne_eq, not_or, not_and, Decidable.not_not] at hu
    obtain ⟨h1, h2⟩ := hu
    split
    · rename_i hl
      subst hl
      have := hasTags_marker sn
      cases hs : sn.tags with
      | nil => simp [hasTags, hs]
      | cons a b =>
        have hf : hasTags sn [""] = false := by
          cases hh : hasTags sn [""] with
          | false => rfl
          | true => rcases this.mp hh with h | h
                    · simp [hs] at h
                    · exact absurd h h2
        simp [hf]
    · rename_i hl
      have hne : "" ∉ l := fun hm => hl (h1 hm)
      have := hasTags_pure sn l hne
      cases hh : hasTags sn l with
      | true =>
        symm
        simp only [List.all_eq_true, List.contains_iff_mem, decide_eq_true_eq]
        exact this.mp hh
      | false =>
        symm
        cases ha : (l.all fun t => sn.tags.contains t) with
        | false => rfl
        | true =>
          simp only [List.all_eq_true, List.contains_iff_mem, decide_eq_true_eq] at ha
          rw [this.mpr ha] at hh; cases hh

/-- **matches_spec**: `SnapshotFilter.matches` is the declarative filter predicate: host in the
    list (or no hosts given), some tag list satisfied (or none given), all paths contained. -/
theorem matches_spec (f : Filter) (sn : Snap) : f.matches sn = specMatches f sn := by
  unfold Filter.matches specMatches hasHostname hasTagList hasPaths
  have : f.tags.any (hasTags sn) = f.tags.any (tagListSat sn) := by
    congr 1; funext l; exact hasTags_eq_tagListSat sn l
  rw [this]
  cases f.hosts <;> cases f.tags <;> simp

/-- `matches` in words -/
theorem matches_iff (f : Filter) (sn : Snap) :
    f.matches sn = true ↔
      (f.hosts = [] ∨ sn.host ∈ f.hosts) ∧ (f.tags = [] ∨ ∃ l ∈ f.tags, hasTags sn l = true) ∧
      (∀ p ∈ f.paths, p ∈ sn.paths) := by
  simp only [Filter.matches, Bool.and_eq_true, hasHostname_spec, hasTagList_spec, hasPaths_spec, and_assoc]

/-- filter mode of `FindAll`: exactly the matching snapshots are handed to the callback, whatever
    the visiting order -/
theorem findAll_mem (f : Filter) (visit : List Snap) (sn : Snap) :
    sn ∈ findAll f visit ↔ sn ∈ visit ∧ specMatches f sn = true := by
  simp [findAll, matches_spec]

theorem findAll_perm (f : Filter) {v v' : List Snap} (h : v.Perm v') :
    (findAll f v).Perm (findAll f v') := h.filter _

/-- the transcription meets the executable statement `specFindAll` (ids are the positions in the
    snapshot set, hence distinct) -/
theorem findAll_specOK (f : Filter) (snaps visit : List Snap) (hp : visit.Perm snaps)
    (hid : ∀ a ∈ snaps, ∀ b ∈ snaps, a.id = b.id → a = b) :
    specFindAll f snaps ((findAll f visit).map (·.id)) = true := by
  simp only [specFindAll, List.all_eq_true, beq_iff_eq]
  intro sn hsn
  cases hm : specMatches f sn with
  | true =>
    simp only [List.contains_iff_mem, List.mem_map, decide_eq_true_eq]
    exact ⟨sn, (findAll_mem f visit sn).mpr ⟨hp.mem_iff.mpr hsn, hm⟩, rfl⟩
  | false =>
    rw [Bool.eq_false_iff]
    intro hc
    simp only [List.contains_iff_mem, List.mem_map] at hc
    obtain ⟨a, ha, hia⟩ := hc
    have ha' := (findAll_mem f visit a).mp ha
    have := hid a (hp.mem_iff.mp ha'.1) sn hsn hia
    subst this
    rw [hm] at ha'; exact absurd ha'.2 (by simp)

/-! ## 'latest' -/

/-- candidate: satisfies the filter and is not after the limit -/
def Cand (f : Filter) (s : Snap) : Prop := f.matches s = true ∧ withinLimit f s = true

theorem latestStep_cases (f : Filter) (cur : Option Snap) (sn : Snap) :
    (latestStep f cur sn = some sn ∧ Cand f sn ∧ ∀ l, cur = some l → l.time ≤ sn.time) ∨
    (latestStep f cur sn = cur ∧ (Cand f sn → ∃ l, cur = some l ∧ sn.time < l.time)) := by
  unfold latestStep Cand withinLimit
  cases hlim : f.limit with
  | none =>
    cases cur with
    | none =>
      by_cases hm : f.matches sn = true
      · left; simp [hm]
      · right; simp [hm]
    | some l =>
      by_cases hlt : sn.time < l.time
      · right; simp [hlt]
      · by_cases hm : f.matches sn = true
        · left; simp [hlt, hm]; omega
        · right; simp [hlt, hm]
  | some lim =>
    by_cases hgt : sn.time > lim
    · right; simp [hgt]; intro _ h; omega
    · cases cur with
      | none =>
        by_cases hm : f.matches sn = true
        · left; simp [hgt, hm]; omega
        · right; simp [hgt, hm]
      | some l =>
        by_cases hlt : sn.time < l.time
        · right; simp [hgt, hlt]
        · by_cases hm : f.matches sn = true
          · left; simp [hgt, hlt, hm]; omega
          · right; simp [hgt, hlt, hm]

/-- invariant of the fold: the current answer is a candidate already visited and is at least as
    new as every candidate visited so far; "no answer yet" means no candidate visited so far -/
def LatestInv (f : Filter) (seen : List Snap) (cur : Option Snap) : Prop :=
  match cur with
  | none => ∀ s ∈ seen, ¬ Cand f s
  | some l => l ∈ seen ∧ Cand f l ∧ ∀ s ∈ seen, Cand f s → s.time ≤ l.time

theorem latest_fold_inv (f : Filter) (rest seen : List Snap) (cur : Option Snap)
    (h : LatestInv f seen cur) : LatestInv f (seen ++ rest) (rest.foldl (latestStep f) cur) := by
  induction rest generalizing seen cur with
  | nil => simpa using h
  | cons sn rest ih =>
    have step : LatestInv f (seen ++ [sn]) (latestStep f cur sn) := by
      rcases latestStep_cases f cur sn with ⟨he, hc, hle⟩ | ⟨he, hno⟩
      · rw [he]
        refine ⟨by simp, hc, ?_⟩
        intro s hs hcs
        rcases List.mem_append.mp hs with hs | hs
        · cases cur with
          | none => exact absurd hcs (h s hs)
          | some l =>
            have := h.2.2 s hs hcs
            have := hle l rfl
            omega
        · simp at hs; subst hs; omega
      · rw [he]
        cases cur with
        | none =>
          intro s hs
          rcases List.mem_append.mp hs with hs | hs
          · exact h s hs
          · simp at hs; subst hs
            intro hc; obtain ⟨l, hl, _⟩ := hno hc; cases hl
        | some l =>
          refine ⟨by simp [h.1], h.2.1, ?_⟩
          intro s hs hcs
          rcases List.mem_append.mp hs with hs | hs
          · exact h.2.2 s hs hcs
          · simp at hs; subst hs
            obtain ⟨l', hl', hlt⟩ := hno hcs
            cases hl'; omega
    have := ih (seen ++ [sn]) (latestStep f cur sn) step
    simpa [List.foldl_cons, List.append_assoc] using this

/-- **latest_spec** (found): for every visiting order the result is a matching snapshot, not after
    the time limit, and at least as new as every other such snapshot. -/
theorem latest_some (f : Filter) (visit : List Snap) (s : Snap) (h : findLatest f visit = some s) :
    s ∈ visit ∧ f.matches s = true ∧ withinLimit f s = true ∧
    ∀ s' ∈ visit, f.matches s' = true → withinLimit f s' = true → s'.time ≤ s.time := by
  have := latest_fold_inv f visit [] none (by simp [LatestInv])
  simp only [List.nil_append] at this
  unfold findLatest at h
  rw [h] at this
  exact ⟨this.1, this.2.1.1, this.2.1.2, fun s' hs' hm hw => this.2.2 s' hs' ⟨hm, hw⟩⟩

/-- **latest_spec** (not found): "no snapshot found" is answered exactly when no snapshot
    satisfies filter and limit. -/
theorem latest_none_iff (f : Filter) (visit : List Snap) :
    findLatest f visit = none ↔ ∀ s ∈ visit, ¬ (f.matches s = true ∧ withinLimit f s = true) := by
  have := latest_fold_inv f visit [] none (by simp [LatestInv])
  simp only [List.nil_append] at this
  unfold findLatest
  constructor
  · intro h; rw [h] at this; exact this
  · intro h
    cases hr : visit.foldl (latestStep f) none with
    | none => rfl
    | some l => rw [hr] at this; exact absurd this.2.1 (h l this.1)

/-- the visiting order only matters among equally new candidates: two orders give answers with
    the same timestamp (or both none) -/
theorem latest_perm (f : Filter) {v v' : List Snap} (hp : v.Perm v') :
    (findLatest f v).map (·.time) = (findLatest f v').map (·.time) := by
  cases h1 : findLatest f v with
  | none =>
    have := (latest_none_iff f v).mp h1
    have h2 : findLatest f v' = none :=
      (latest_none_iff f v').mpr fun s hs => this s (hp.mem_iff.mpr hs)
    simp [h2]
  | some a =>
    cases h2 : findLatest f v' with
    | none =>
      have := (latest_none_iff f v').mp h2
      have ha := latest_some f v a h1
      exact absurd ⟨ha.2.1, ha.2.2.1⟩ (this a (hp.mem_iff.mp ha.1))
    | some b =>
      have ha := latest_some f v a h1
      have hb := latest_some f v' b h2
      have h3 := ha.2.2.2 b (hp.mem_iff.mpr hb.1) hb.2.1 hb.2.2.1
      have h4 := hb.2.2.2 a (hp.mem_iff.mp ha.1) ha.2.1 ha.2.2.1
      simp only [Option.map_some, Option.some.injEq]
      omega

/-- every newest candidate is the answer for some visiting order (visit it last): the set of
    possible answers is exactly the set allowed by the statement -/
theorem latest_complete (f : Filter) (snaps : List Snap) (s : Snap) (hs : s ∈ snaps)
    (hc : f.matches s = true ∧ withinLimit f s = true)
    (hmax : ∀ s' ∈ snaps, f.matches s' = true → withinLimit f s' = true → s'.time ≤ s.time) :
    ∃ visit, visit.Perm snaps ∧ findLatest f visit = some s := by
  refine ⟨snaps.erase s ++ [s], ?_, ?_⟩
  · exact (List.perm_append_comm.trans (List.perm_cons_erase hs).symm)
  · unfold findLatest
    rw [List.foldl_append]
    simp only [List.foldl_cons, List.foldl_nil]
    have hinv := latest_fold_inv f (snaps.erase s) [] none (by simp [LatestInv])
    simp only [List.nil_append] at hinv
    rcases latestStep_cases f ((snaps.erase s).foldl (latestStep f) none) s with ⟨he, _, _⟩ | ⟨he, hno⟩
    · exact he
    · obtain ⟨l, hl, hlt⟩ := hno hc
      rw [hl] at hinv
      have := hmax l (List.mem_of_mem_erase hinv.1) hinv.2.1.1 hinv.2.1.2
      omega

/-- the transcription meets the executable statement `specLatest` -/
theorem latest_specOK (f : Filter) (snaps visit : List Snap) (hp : visit.Perm snaps)
    (hid : ∀ a ∈ snaps, ∀ b ∈ snaps, a.id = b.id → a = b) :
    specLatest f snaps ((findLatest f visit).map (·.id)) = true := by
  unfold specLatest
  cases h : findLatest f visit with
  | none =>
    have := (latest_none_iff f visit).mp h
    simp only [Option.map_none, List.isEmpty_iff, List.filter_eq_nil_iff, Bool.and_eq_true, ← matches_spec]
    intro a ha; exact this a (hp.mem_iff.mpr ha)
  | some s =>
    have hs := latest_some f visit s h
    simp only [Option.map_some, Bool.and_eq_true, List.any_eq_true, List.mem_filter, beq_iff_eq,
      List.all_eq_true, decide_eq_true_eq, ← matches_spec, and_imp]
    refine ⟨⟨s, ⟨hp.mem_iff.mp hs.1, hs.2.1, hs.2.2.1⟩, rfl⟩, ?_⟩
    intro a ha _ _ hia b hb hmb hwb
    have := hid a ha s (hp.mem_iff.mp hs.1) hia
    subst this
    exact hs.2.2.2 b (hp.mem_iff.mpr hb) hmb hwb

/-! ## explicit snapshot ids -/

theorem idsStep_sound (lr : Option Snap) (st : IdsState) (a : Arg) (n : Nat)
    (h : Ev.snap n ∈ (idsStep lr st a).out) :
    Ev.snap n ∈ st.out ∨ a = .id n false ∨ (a = .latest ∧ ∃ s, lr = some s ∧ s.id = n) := by
  cases a with
  | latest =>
    simp only [idsStep] at h
    split at h
    · exact Or.inl h
    · cases lr with
      | none =>
        simp only [List.mem_append, List.mem_singleton, reduceCtorEq, or_false] at h
        exact Or.inl h
      | some s =>
        simp only [List.mem_append, List.mem_singleton, Ev.snap.injEq] at h
        rcases h with h | h
        · exact Or.inl h
        · exact Or.inr (Or.inr ⟨rfl, s, rfl, h.symm⟩)
  | latestSub =>
    simp only [idsStep, List.mem_append, List.mem_singleton, reduceCtorEq, or_false] at h
    exact Or.inl h
  | unknown =>
    simp only [idsStep, List.mem_append, List.mem_singleton, reduceCtorEq, or_false] at h
    exact Or.inl h
  | id m sub =>
    simp only [idsStep] at h
    split at h
    · simp only [List.mem_append, List.mem_singleton, reduceCtorEq, or_false] at h
      exact Or.inl h
    · rename_i hsub
      split at h
      · exact Or.inl h
      · simp only [List.mem_append, List.mem_singleton, Ev.snap.injEq] at h
        rcases h with h | h
        · exact Or.inl h
        · subst h
          simp only [Bool.not_eq_true] at hsub
          exact Or.inr (Or.inl (by rw [hsub]))

theorem idsStep_mono (lr : Option Snap) (st : IdsState) (a : Arg) (e : Ev) (h : e ∈ st.out) :
    e ∈ (idsStep lr st a).out := by
  cases a with
  | latest =>
    simp only [idsStep]
    split
    · exact h
    · cases lr <;> simp [h]
  | latestSub => simp [idsStep, h]
  | unknown => simp [idsStep, h]
  | id m sub =>
    simp only [idsStep]
    split
    · simp [h]
    · split
      · exact h
      · simp [h]

theorem idsStep_ids (lr : Option Snap) (st : IdsState) (a : Arg)
    (h : ∀ n ∈ st.ids, Ev.snap n ∈ st.out) :
    ∀ n ∈ (idsStep lr st a).ids, Ev.snap n ∈ (idsStep lr st a).out := by
  cases a with
  | latest =>
    simp only [idsStep]
    split
    · exact h
    · cases lr with
      | none => intro n hn; simp [h n hn]
      | some s =>
        intro n hn
        simp only [List.mem_cons] at hn
        rcases hn with hn | hn
        · simp [hn]
        · simp [h n hn]
  | latestSub => intro n hn; simp only [idsStep] at hn ⊢; simp [h n hn]
  | unknown => intro n hn; simp only [idsStep] at hn ⊢; simp [h n hn]
  | id m sub =>
    simp only [idsStep]
    split
    · intro n hn; simp [h n hn]
    · split
      · exact h
      · intro n hn
        simp only [List.mem_cons] at hn
        rcases hn with hn | hn
        · simp [hn]
        · simp [h n hn]

theorem idsStep_complete (lr : Option Snap) (st : IdsState) (n : Nat)
    (h : ∀ n ∈ st.ids, Ev.snap n ∈ st.out) : Ev.snap n ∈ (idsStep lr st (.id n false)).out := by
  simp only [idsStep, Bool.false_eq_true, if_false]
  split
  · rename_i hc; exact h n (by simpa using hc)
  · simp

/-- invariant of the id loop -/
theorem ids_fold_inv (lr : Option Snap) (args : List Arg) (st : IdsState) (done : List Arg)
    (h1 : ∀ n, Ev.snap n ∈ st.out → Arg.id n false ∈ done ∨ (Arg.latest ∈ done ∧ ∃ s, lr = some s ∧ s.id = n))
    (h2 : ∀ n, Arg.id n false ∈ done → Ev.snap n ∈ st.out)
    (h3 : ∀ n ∈ st.ids, Ev.snap n ∈ st.out) :
    (∀ n, Ev.snap n ∈ (args.foldl (idsStep lr) st).out →
        Arg.id n false ∈ done ++ args ∨ (Arg.latest ∈ done ++ args ∧ ∃ s, lr = some s ∧ s.id = n)) ∧
    (∀ n, Arg.id n false ∈ done ++ args → Ev.snap n ∈ (args.foldl (idsStep lr) st).out) := by
  induction args generalizing st done with
  | nil => simpa using ⟨h1, h2⟩
  | cons a rest ih =>
    simp only [List.foldl_cons]
    have := ih (idsStep lr st a) (done ++ [a]) ?_ ?_ (idsStep_ids lr st a h3)
    · simpa [List.append_assoc] using this
    · intro n hn
      rcases idsStep_sound lr st a n hn with h | h | ⟨h, h'⟩
      · rcases h1 n h with h | ⟨h, h'⟩
        · exact Or.inl (List.mem_append_left _ h)
        · exact Or.inr ⟨List.mem_append_left _ h, h'⟩
      · exact Or.inl (by simp [h])
      · exact Or.inr ⟨by simp [h], h'⟩
    · intro n hn
      rcases List.mem_append.mp hn with hn | hn
      · exact idsStep_mono lr st a _ (h2 n hn)
      · simp only [List.mem_singleton] at hn
        rw [← hn]
        exact idsStep_complete lr st n h3

/-- explicit ids: the callback sees exactly the named snapshots (each named existing snapshot is
    reported) plus, when `latest` is among the arguments, the snapshot `findLatest` resolved. -/
theorem findAllIds_spec (f : Filter) (latestRes : Option Snap) (args : List Arg) (n : Nat) :
    (Ev.snap n ∈ findAllIds f latestRes args →
        Arg.id n false ∈ args ∨ (Arg.latest ∈ args ∧ ∃ s, latestRes = some s ∧ s.id = n)) ∧
    (Arg.id n false ∈ args → Ev.snap n ∈ findAllIds f latestRes args) := by
  have := ids_fold_inv latestRes args {} [] (by simp) (by simp) (by simp)
  simp only [List.nil_append] at this
  simp only [findAllIds]
  constructor
  · intro h
    apply this.1 n
    split at h
    · simpa using h
    · exact h
  · intro h
    have := this.2 n h
    split
    · simp [this]
    · exact this

/-! ## grouping -/

theorem insertStr_perm (x : String) (l : List String) : (insertStr x l).Perm (x :: l) := by
  induction l with
  | nil => simp [insertStr]
  | cons y ys ih =>
    unfold insertStr
    split
    · exact List.Perm.refl _
    · exact (List.Perm.cons y ih).trans (List.Perm.swap x y ys)

theorem sortStrings_perm (l : List String) : (sortStrings l).Perm l := by
  induction l with
  | nil => exact List.Perm.refl _
  | cons x xs ih => exact (insertStr_perm x _).trans (List.Perm.cons x ih)

theorem insertStr_sorted (x : String) (l : List String) (h : l.Pairwise (· ≤ ·)) :
    (insertStr x l).Pairwise (· ≤ ·) := by
  induction l with
  | nil => simp [insertStr]
  | cons y ys ih =>
    unfold insertStr
    have hy := List.pairwise_cons.mp h
    split
    · rename_i hxy
      refine List.pairwise_cons.mpr ⟨?_, h⟩
      intro z hz
      rcases List.mem_cons.mp hz with hz | hz
      · subst hz; exact hxy
      · exact String.le_trans hxy (hy.1 z hz)
    · rename_i hxy
      have hyx : y ≤ x := by
        rcases String.le_total x y with h' | h'
        · exact absurd h' hxy
        · exact h'
      refine List.pairwise_cons.mpr ⟨?_, ih hy.2⟩
      intro z hz
      have := (insertStr_perm x ys).mem_iff.mp hz
      rcases List.mem_cons.mp this with hz | hz
      · subst hz; exact hyx
      · exact hy.1 z hz

theorem sortStrings_sorted (l : List String) : (sortStrings l).Pairwise (· ≤ ·) := by
  induction l with
  | nil => simp [sortStrings]
  | cons x xs ih => exact insertStr_sorted x _ ih

/-- two ascending arrangements of the same multiset are equal -/
theorem sorted_perm_eq : ∀ (a b : List String), a.Pairwise (· ≤ ·) → b.Pairwise (· ≤ ·) → a.Perm b → a = b
  | [], b, _, _, hp => by simpa using hp.symm.eq_nil
  | x :: xs, [], _, _, hp => by simpa using hp.eq_nil
  | x :: xs, y :: ys, ha, hb, hp => by
    have hxa := List.pairwise_cons.mp ha
    have hyb := List.pairwise_cons.mp hb
    have hxy : x = y := by
      have h1 : x ∈ y :: ys := hp.mem_iff.mp (by simp)
      have h2 : y ∈ x :: xs := hp.mem_iff.mpr (by simp)
      rcases List.mem_cons.mp h1 with h1 | h1
      · exact h1
      · rcases List.mem_cons.mp h2 with h2 | h2
        · exact h2.symm
        · exact String.le_antisymm (hxa.1 y h2) (hyb.1 x h1)
    subst hxy
    have := sorted_perm_eq xs ys hxa.2 hyb.2 (List.Perm.cons_inv hp)
    rw [this]

/-- sorting makes the key order-insensitive, and nothing more: equal sorted lists ⇔ same multiset -/
theorem sortStrings_eq_iff (a b : List String) : sortStrings a = sortStrings b ↔ a.Perm b := by
  constructor
  · intro h
    exact (sortStrings_perm a).symm.trans (h ▸ sortStrings_perm b)
  · intro h
    exact sorted_perm_eq _ _ (sortStrings_sorted a) (sortStrings_sorted b)
      ((sortStrings_perm a).trans (h.trans (sortStrings_perm b).symm))

/-- **group key**: two snapshots get the same key iff they agree on the chosen criteria, paths
    and tags compared as multisets -/
theorem keyOf_eq_iff (g : GroupBy) (a b : Snap) :
    keyOf g a = keyOf g b ↔
      (g.host = true → a.host = b.host) ∧ (g.path = true → a.paths.Perm b.paths) ∧
      (g.tag = true → a.tags.Perm b.tags) := by
  unfold keyOf
  cases g with
  | mk t h p =>
    cases t <;> cases h <;> cases p <;> simp [sortStrings_eq_iff]

theorem specSameGroup_iff (g : GroupBy) (a b : Snap) :
    specSameGroup g a b = true ↔ keyOf g a = keyOf g b := by
  rw [keyOf_eq_iff]
  unfold specSameGroup
  cases g with
  | mk t h p =>
    cases t <;> cases h <;> cases p <;> simp [List.isPerm_iff, and_assoc]

/-- keys of an association list -/
def keys {α : Type} (gs : List (GroupKey × List α)) : List GroupKey := gs.map (·.1)

theorem addToGroups_keys {α : Type} (gs : List (GroupKey × List α)) (k : GroupKey) (sn : α) :
    keys (addToGroups gs k sn) = if k ∈ keys gs then keys gs else keys gs ++ [k] := by
  induction gs with
  | nil => simp [addToGroups, keys]
  | cons p rest ih =>
    obtain ⟨k', l⟩ := p
    unfold addToGroups
    by_cases h : k' = k
    · subst h; simp [keys]
    · simp only [h, if_false]
      simp only [keys, List.map_cons, List.mem_cons] at ih ⊢
      rw [ih]
      have : ¬ k = k' := fun e => h e.symm
      by_cases hm : k ∈ List.map (fun x => x.fst) rest
      · simp [hm, this]
      · simp [hm, this]

theorem mem_keys_of_mem {α : Type} {gs : List (GroupKey × List α)} {k l} (h : (k, l) ∈ gs) : k ∈ keys gs :=
  List.mem_map.mpr ⟨(k, l), h, rfl⟩

theorem addToGroups_lookup {α : Type} (gs : List (GroupKey × List α)) (k : GroupKey) (sn : α)
    (hnd : (keys gs).Nodup) (k' : GroupKey) (l : List α) :
    (k', l) ∈ addToGroups gs k sn ↔
      (k' ≠ k ∧ (k', l) ∈ gs) ∨
      (k' = k ∧ ((∃ l0, (k, l0) ∈ gs ∧ l = l0 ++ [sn]) ∨ (k ∉ keys gs ∧ l = [sn]))) := by
  induction gs with
  | nil =>
    simp only [addToGroups, List.mem_singleton, Prod.mk.injEq]
    constructor
    · rintro ⟨h1, h2⟩; exact Or.inr ⟨h1, Or.inr ⟨by simp [keys], h2⟩⟩
    · rintro (⟨_, h⟩ | ⟨h1, ⟨l0, h, _⟩ | ⟨_, h2⟩⟩)
      · cases h
      · cases h
      · exact ⟨h1, h2⟩
  | cons p rest ih =>
    obtain ⟨k0, l0⟩ := p
    have hnd' : k0 ∉ keys rest ∧ (keys rest).Nodup := List.nodup_cons.mp hnd
    have ih := ih hnd'.2
    by_cases h : k0 = k
    · subst h
      have e : addToGroups ((k0, l0) :: rest) k0 sn = (k0, l0 ++ [sn]) :: rest := by
        simp [addToGroups]
      rw [e]
      constructor
      · intro hm
        rcases List.mem_cons.mp hm with hm | hm
        · cases hm
          exact Or.inr ⟨rfl, Or.inl ⟨l0, List.mem_cons_self, rfl⟩⟩
        · have hk : k' ≠ k0 := by
            intro e; rw [e] at hm; exact hnd'.1 (mem_keys_of_mem hm)
          exact Or.inl ⟨hk, List.mem_cons_of_mem _ hm⟩
      · rintro (⟨h1, h2⟩ | ⟨h1, ⟨l1, h2, h3⟩ | ⟨h2, _⟩⟩)
        · rcases List.mem_cons.mp h2 with h2 | h2
          · cases h2; exact absurd rfl h1
          · exact List.mem_cons_of_mem _ h2
        · subst h1
          rcases List.mem_cons.mp h2 with h2 | h2
          · cases h2; subst h3; exact List.mem_cons_self
          · exact absurd (mem_keys_of_mem h2) hnd'.1
        · exact absurd (by simp [keys]) h2
    · have e : addToGroups ((k0, l0) :: rest) k sn = (k0, l0) :: addToGroups rest k sn := by
        simp [addToGroups, h]
      rw [e]
      have hk : k ≠ k0 := fun e => h e.symm
      constructor
      · intro hm
        rcases List.mem_cons.mp hm with hm | hm
        · cases hm
          exact Or.inl ⟨h, List.mem_cons_self⟩
        · rcases ih.mp hm with ⟨h1, h2⟩ | ⟨h1, ⟨l1, h2, h3⟩ | ⟨h2, h3⟩⟩
          · exact Or.inl ⟨h1, List.mem_cons_of_mem _ h2⟩
          · exact Or.inr ⟨h1, Or.inl ⟨l1, List.mem_cons_of_mem _ h2, h3⟩⟩
          · refine Or.inr ⟨h1, Or.inr ⟨?_, h3⟩⟩
            intro hmem
            simp only [keys, List.map_cons, List.mem_cons] at hmem
            rcases hmem with hmem | hmem
            · exact hk hmem
            · exact h2 hmem
      · rintro (⟨h1, h2⟩ | ⟨h1, ⟨l1, h2, h3⟩ | ⟨h2, h3⟩⟩)
        · rcases List.mem_cons.mp h2 with h2 | h2
          · cases h2; exact List.mem_cons_self
          · exact List.mem_cons_of_mem _ (ih.mpr (Or.inl ⟨h1, h2⟩))
        · rcases List.mem_cons.mp h2 with h2 | h2
          · cases h2; exact absurd rfl hk
          · exact List.mem_cons_of_mem _ (ih.mpr (Or.inr ⟨h1, Or.inl ⟨l1, h2, h3⟩⟩))
        · refine List.mem_cons_of_mem _ (ih.mpr (Or.inr ⟨h1, Or.inr ⟨?_, h3⟩⟩))
          intro hmem
          exact h2 (by simp only [keys, List.map_cons, List.mem_cons]; exact Or.inr hmem)

/-- invariant of the grouping loop: after the prefix `done`, the association list has distinct
    keys and under key `k` exactly the snapshots of `done` with key `k`, in input order. -/
def GroupInv {α : Type} (kf : α → GroupKey) (done : List α) (gs : List (GroupKey × List α)) : Prop :=
  (keys gs).Nodup ∧
  (∀ k l, (k, l) ∈ gs → l = done.filter (fun s => kf s = k) ∧ l ≠ []) ∧
  (∀ s ∈ done, kf s ∈ keys gs)

theorem group_step {α : Type} (kf : α → GroupKey) (done : List α) (gs : List (GroupKey × List α)) (sn : α)
    (h : GroupInv kf done gs) : GroupInv kf (done ++ [sn]) (addToGroups gs (kf sn) sn) := by
  obtain ⟨hnd, hl, hk⟩ := h
  refine ⟨?_, ?_, ?_⟩
  · rw [addToGroups_keys]
    split
    · exact hnd
    · rename_i hn
      exact List.nodup_append.mpr ⟨hnd, by simp, by
        intro a ha b hb; simp at hb; subst hb; intro e; subst e; exact hn ha⟩
  · intro k l hm
    rw [addToGroups_lookup gs _ sn hnd] at hm
    rcases hm with ⟨hne, hm⟩ | ⟨he, ⟨l0, hm, hl0⟩ | ⟨hn, hl0⟩⟩
    · have := hl k l hm
      have hne' : ¬ kf sn = k := fun e => hne e.symm
      simp [List.filter_append, hne', this.1.symm, this.2]
    · subst he
      have := hl _ l0 hm
      subst hl0
      simp [List.filter_append, ← this.1]
    · subst he
      subst hl0
      have : done.filter (fun s => kf s = kf sn) = [] := by
        simp only [List.filter_eq_nil_iff, decide_eq_true_eq]
        intro s hs e
        exact hn (e ▸ hk s hs)
      simp [List.filter_append, this]
  · intro s hs
    rw [addToGroups_keys]
    rcases List.mem_append.mp hs with hs | hs
    · split
      · exact hk s hs
      · exact List.mem_append_left _ (hk s hs)
    · simp at hs; subst hs
      split
      · assumption
      · simp

theorem group_fold_inv {α : Type} (kf : α → GroupKey) (rest done : List α) (gs : List (GroupKey × List α))
    (h : GroupInv kf done gs) :
    GroupInv kf (done ++ rest) (rest.foldl (fun gs sn => addToGroups gs (kf sn) sn) gs) := by
  induction rest generalizing done gs with
  | nil => simpa using h
  | cons sn rest ih =>
    have := ih (done ++ [sn]) _ (group_step kf done gs sn h)
    simpa [List.append_assoc] using this

/-- the grouping loop partitions any list by the key function -/
theorem groupWith_partition {α : Type} (kf : α → GroupKey) (l : List α) :
    (keys (groupWith kf l)).Nodup ∧
    (∀ k grp, (k, grp) ∈ groupWith kf l → grp = l.filter (fun s => kf s = k) ∧ grp ≠ []) ∧
    (∀ s ∈ l, ∃ grp, (kf s, grp) ∈ groupWith kf l) := by
  have := group_fold_inv kf l [] [] ⟨by simp [keys], by simp, by simp⟩
  simp only [List.nil_append] at this
  refine ⟨this.1, this.2.1, ?_⟩
  intro s hs
  have := this.2.2 s hs
  simp only [keys, List.mem_map] at this
  obtain ⟨⟨k, grp⟩, hm, he⟩ := this
  simp only at he
  exact ⟨grp, he ▸ hm⟩

/-- **group_partition**: `GroupSnapshots` partitions the list by key. The keys are pairwise
    distinct, the group of key `k` is exactly the sub-list of the input with key `k` (input order
    kept, never empty), and every snapshot's key has a group. -/
theorem group_partition (g : GroupBy) (l : List Snap) :
    (keys (groupSnapshots g l)).Nodup ∧
    (∀ k grp, (k, grp) ∈ groupSnapshots g l → grp = l.filter (fun s => keyOf g s = k) ∧ grp ≠ []) ∧
    (∀ s ∈ l, ∃ grp, (keyOf g s, grp) ∈ groupSnapshots g l) :=
  groupWith_partition (keyOf g) l

/-- two snapshots of the input end up in the same group iff they agree on the chosen criteria
    (paths and tags as multisets) -/
theorem same_group_iff (g : GroupBy) (l : List Snap) (a b : Snap) (ha : a ∈ l) (hb : b ∈ l) :
    (∃ k grp, (k, grp) ∈ groupSnapshots g l ∧ a ∈ grp ∧ b ∈ grp) ↔
      (g.host = true → a.host = b.host) ∧ (g.path = true → a.paths.Perm b.paths) ∧
      (g.tag = true → a.tags.Perm b.tags) := by
  rw [← keyOf_eq_iff]
  obtain ⟨_, hgrp, hall⟩ := group_partition g l
  constructor
  · rintro ⟨k, grp, hm, hag, hbg⟩
    have := (hgrp k grp hm).1
    rw [this] at hag hbg
    simp only [List.mem_filter, decide_eq_true_eq] at hag hbg
    rw [hag.2, hbg.2]
  · intro he
    obtain ⟨grp, hm⟩ := hall a ha
    refine ⟨_, grp, hm, ?_, ?_⟩
    · rw [(hgrp _ grp hm).1]; simp [ha]
    · rw [(hgrp _ grp hm).1]; simp [hb, he]

/-- every snapshot is in exactly one group -/
theorem group_unique (g : GroupBy) (l : List Snap) (a : Snap) (k k' : GroupKey) (grp grp' : List Snap)
    (h : (k, grp) ∈ groupSnapshots g l) (h' : (k', grp') ∈ groupSnapshots g l)
    (ha : a ∈ grp) (ha' : a ∈ grp') : k = k' ∧ grp = grp' := by
  obtain ⟨_, hgrp, _⟩ := group_partition g l
  have e1 := (hgrp k grp h).1
  have e2 := (hgrp k' grp' h').1
  rw [e1] at ha; rw [e2] at ha'
  simp only [List.mem_filter, decide_eq_true_eq] at ha ha'
  have : k = k' := ha.2.symm.trans ha'.2
  subst this
  exact ⟨rfl, e1.trans e2.symm⟩

/-! ## non-vacuity -/

/-- a filter with all three criteria and a limit selects a proper, non-empty subset -/
example :
    let s0 : Snap := ⟨0, 10, "h1", ["/a", "/b"], ["x", "y"]⟩
    let s1 : Snap := ⟨1, 20, "h1", ["/b", "/a"], ["y"]⟩
    let s2 : Snap := ⟨2, 30, "h2", ["/a"], []⟩
    let f : Filter := ⟨["h1"], [["y"], [""]], ["/a"], some 25⟩
    (findAll f [s0, s1, s2]).map (·.id) = [0, 1] ∧ (findLatest f [s0, s1, s2]).map (·.id) = some 1 ∧
    (findLatest f [s1, s0, s2]).map (·.id) = some 1 := by decide

/-- grouping by paths merges differently ordered path lists and separates different hosts -/
example :
    let s0 : Snap := ⟨0, 10, "h1", ["/a", "/b"], ["x"]⟩
    let s1 : Snap := ⟨1, 20, "h1", ["/b", "/a"], ["y"]⟩
    let s2 : Snap := ⟨2, 30, "h2", ["/a", "/b"], []⟩
    (groupSnapshots ⟨false, true, true⟩ [s0, s1, s2]).map (fun p => p.2.map (·.id)) = [[0, 1], [2]] := by
  decide

end Restic.Props.C24
