import Restic.Model.Lru
import Restic.Gen.Consts
/-!
# C47 — The in-memory blob cache stays within its budget and returns correct blobs

Theorems about `Restic.Model.Lru` (transcription of `bloblru.Cache` over `simplelru.LRU`, and of
`GetOrCompute` as a machine of atomic steps). Statements about `run` quantify over **all**
schedules: any number of concurrent callers, any interleaving of their atomic steps, any results
(success with any value/capacity, or failure) of their `compute()` calls.
-/
namespace Restic.Props.C47
open Restic.Model.Lru

/-! ### accounting lemmas -/

theorem cost_append (ov : Nat) (a b : List Entry) : cost ov (a ++ b) = cost ov a + cost ov b := by
  induction a with
  | nil => simp [cost]
  | cons e es ih => simp only [List.cons_append, cost, ih]; omega

theorem cost_nonneg (ov : Nat) (es : List Entry) : 0 ≤ cost ov es := by
  induction es with
  | nil => simp [cost]
  | cons e es ih => simp only [cost]; omega

theorem held_le_cost (ov : Nat) (es : List Entry) : held es ≤ cost ov es := by
  induction es with
  | nil => simp [cost, held]
  | cons e es ih => simp only [cost, held]; omega

theorem extract_spec (k : Key) (es : List Entry) (e : Entry) (rest : List Entry)
    (h : extract k es = some (e, rest)) :
    e.key = k ∧ (∀ ov, cost ov es = ((e.cap + ov : Nat) : Int) + cost ov rest) ∧
      (∀ x, x ∈ es ↔ x = e ∨ x ∈ rest) := by
  induction es generalizing rest with
  | nil => simp [extract] at h
  | cons a as ih =>
    simp only [extract] at h
    by_cases hk : (a.key == k) = true
    · simp only [hk, if_true, Option.some.injEq, Prod.mk.injEq] at h
      obtain ⟨rfl, rfl⟩ := h
      exact ⟨by simpa using hk, fun ov => by simp [cost], fun x => by simp⟩
    · simp only [hk] at h
      cases hx : extract k as with
      | none => simp [hx] at h
      | some p =>
        obtain ⟨x, r⟩ := p
        simp only [hx, Option.some.injEq, Prod.mk.injEq] at h
        obtain ⟨rfl, rfl⟩ := h
        have ⟨h1, h2, h3⟩ := ih r hx
        refine ⟨h1, fun ov => ?_, fun y => ?_⟩
        · simp only [cost, h2 ov]; omega
        · simp only [List.mem_cons, h3 y]
          constructor
          · rintro (h | h | h)
            · exact Or.inr (Or.inl h)
            · exact Or.inl h
            · exact Or.inr (Or.inr h)
          · rintro (h | h | h)
            · exact Or.inr (Or.inl h)
            · exact Or.inl h
            · exact Or.inr (Or.inr h)

theorem extract_none (k : Key) (es : List Entry) :
    extract k es = none ↔ ∀ e ∈ es, e.key ≠ k := by
  induction es with
  | nil => simp [extract]
  | cons a as ih =>
    simp only [extract, List.mem_cons, forall_eq_or_imp]
    by_cases hk : a.key = k
    · simp [hk]
    · have hk' : (a.key == k) = false := by simpa using hk
      simp only [hk', Bool.false_eq_true, if_false]
      cases hx : extract k as with
      | none => exact ⟨fun _ => ⟨hk, ih.mp hx⟩, fun _ => rfl⟩
      | some p =>
        obtain ⟨x, r⟩ := p
        refine ⟨fun h => ?_, fun h => ?_⟩
        · cases h
        · have := ih.mpr h.2
          rw [hx] at this; cases this

/-- the eviction loop of `add`: what it does when it terminates -/
theorem evictLoop_spec (ov : Nat) (sz : Int) (es : List Entry) (free : Int) (es' : List Entry) (free' : Int)
    (h : evictLoop ov sz es free = some (es', free')) :
    free' + cost ov es' = free + cost ov es ∧ sz ≤ free' ∧ free ≤ free' ∧ ∃ pre, es = pre ++ es' := by
  induction es generalizing free with
  | nil =>
    simp only [evictLoop] at h
    by_cases hs : sz > free
    · simp [hs] at h
    · simp only [hs, if_false, Option.some.injEq, Prod.mk.injEq] at h
      obtain ⟨rfl, rfl⟩ := h
      exact ⟨rfl, by omega, Int.le_refl _, [], rfl⟩
  | cons e rest ih =>
    simp only [evictLoop] at h
    by_cases hs : sz > free
    · simp only [hs, if_true] at h
      have ⟨h1, h2, h3, pre, h4⟩ := ih _ h
      refine ⟨?_, h2, by omega, e :: pre, by simp [h4]⟩
      simp only [cost]; omega
    · simp only [hs, if_false, Option.some.injEq, Prod.mk.injEq] at h
      obtain ⟨rfl, rfl⟩ := h
      exact ⟨rfl, by omega, Int.le_refl _, [], rfl⟩

/-- **evict_terminates**: the loop `for size > c.free { RemoveOldest }` never spins on an empty
    LRU as long as the requested size fits into `free +` what the entries account for. -/
theorem evictLoop_terminates (ov : Nat) (sz : Int) (es : List Entry) (free : Int)
    (h : sz ≤ free + cost ov es) : ∃ r, evictLoop ov sz es free = some r := by
  induction es generalizing free with
  | nil =>
    simp only [cost] at h
    have : ¬ sz > free := by omega
    exact ⟨([], free), by simp only [evictLoop, this, if_false]⟩
  | cons e rest ih =>
    simp only [evictLoop]
    by_cases hs : sz > free
    · simp only [hs, if_true]
      apply ih
      simp only [cost] at h; omega
    · exact ⟨(e :: rest, free), by simp only [hs, if_false]⟩

/-! ### the budget invariant -/

/-- `free ≥ 0 ∧ free + Σ(cap + overhead) = size` -/
def Inv (c : Cache) : Prop := 0 ≤ c.free ∧ c.free + cost c.overhead c.entries = c.size

theorem inv_budgetOK (c : Cache) (h : Inv c) : budgetOK c = true := by
  have h1 := held_le_cost c.overhead c.entries
  have h2 := h.1
  have h3 := h.2
  simp only [budgetOK, Bool.and_eq_true, decide_eq_true_eq]
  exact ⟨⟨h2, h3⟩, by omega⟩

/-- the bytes of blob data held never exceed the configured size -/
theorem inv_held_le_size (c : Cache) (h : Inv c) : held c.entries ≤ c.size := by
  have h1 := held_le_cost c.overhead c.entries
  have := h.1; have := h.2; omega

theorem new_inv (ov : Nat) (size : Int) (c : Cache) (h : new ov size = .ok c) :
    Inv c ∧ c.size = size ∧ c.overhead = ov ∧ c.entries = [] := by
  simp only [new] at h
  split at h
  · cases h
  · injection h with h; subst h
    refine ⟨⟨?_, by simp [cost]⟩, rfl, rfl, rfl⟩
    rename_i hm
    show 0 ≤ size
    by_cases hneg : size < 0
    · exfalso; apply hm
      have : Int.tdiv size ov ≤ 0 := by
        have h1 : size.tdiv (ov : Int) = -((-size).tdiv (ov : Int)) := by
          rw [Int.neg_tdiv, Int.neg_neg]
        rw [h1]
        have : 0 ≤ (-size).tdiv (ov : Int) := Int.tdiv_nonneg (by omega) (by omega)
        omega
      exact this
    · omega

theorem cacheGet_spec (c : Cache) (k : Key) :
    let r := cacheGet c k
    (Inv c → Inv r.2) ∧ r.2.size = c.size ∧ r.2.overhead = c.overhead ∧ r.2.maxEntries = c.maxEntries ∧
    (∀ e, e ∈ r.2.entries ↔ e ∈ c.entries) ∧
    (∀ v, r.1 = some v → ∃ e ∈ c.entries, e.key = k ∧ e.val = v) ∧
    (r.1 = none → r.2 = c ∧ ∀ e ∈ c.entries, e.key ≠ k) := by
  simp only [cacheGet, lruGet]
  cases hx : extract k c.entries with
  | none =>
    exact ⟨id, rfl, rfl, rfl, fun _ => Iff.rfl, fun v h => by simp at h,
      fun _ => ⟨rfl, (extract_none k c.entries).mp hx⟩⟩
  | some p =>
    obtain ⟨e, rest⟩ := p
    have ⟨h1, h2, h3⟩ := extract_spec k c.entries e rest hx
    refine ⟨?_, rfl, rfl, rfl, ?_, ?_, ?_⟩
    · intro hi
      refine ⟨hi.1, ?_⟩
      show c.free + cost c.overhead (rest ++ [e]) = c.size
      have := hi.2
      rw [cost_append, h2 c.overhead] at *
      simp only [cost] at *; omega
    · intro x
      show x ∈ rest ++ [e] ↔ x ∈ c.entries
      rw [h3 x]; simp [or_comm]
    · intro v hv
      have hv' : e.val = v := by simpa using hv
      exact ⟨e, (h3 e).mpr (Or.inl rfl), h1, hv'⟩
    · intro h; simp at h

/-- `Cache.add` keeps the budget invariant, never spins, and only ever inserts the given entry. -/
theorem add_spec (c : Cache) (k : Key) (v : Val) (cap : Nat) (hi : Inv c) :
    ∃ c', cacheAdd c k v cap = .done c' ∧ Inv c' ∧ c'.size = c.size ∧ c'.overhead = c.overhead ∧
      c'.maxEntries = c.maxEntries ∧ (∀ e ∈ c'.entries, e ∈ c.entries ∨ e = ⟨k, v, cap⟩) := by
  unfold cacheAdd
  by_cases hbig : (((cap + c.overhead : Nat) : Int)) > c.size
  · simp only [hbig, if_true]
    exact ⟨c, rfl, hi, rfl, rfl, rfl, fun e he => Or.inl he⟩
  simp only [hbig, if_false]
  by_cases hc : contains c k = true
  · simp only [hc, if_true]
    exact ⟨c, rfl, hi, rfl, rfl, rfl, fun e he => Or.inl he⟩
  simp only [hc]
  have hfit : ((cap + c.overhead : Nat) : Int) ≤ c.free + cost c.overhead c.entries := by
    have := hi.2; omega
  obtain ⟨⟨es, free⟩, hev⟩ := evictLoop_terminates c.overhead _ c.entries c.free hfit
  have ⟨h1, h2, h3, pre, h4⟩ := evictLoop_spec _ _ _ _ _ _ hev
  simp only [hev]
  -- `k` is not among the remaining entries
  have hnk : ∀ e ∈ es, e.key ≠ k := by
    intro e he hek
    apply hc
    simp only [contains, List.any_eq_true, beq_iff_eq]
    exact ⟨e, by rw [h4]; exact List.mem_append_right _ he, hek⟩
  have hxn : extract k es = none := (extract_none k es).mpr hnk
  have hsub : ∀ e ∈ es, e ∈ c.entries := fun e he => by rw [h4]; exact List.mem_append_right _ he
  simp only [lruAdd, hxn]
  by_cases hlen : (es ++ [(⟨k, v, cap⟩ : Entry)]).length > c.maxEntries
  · simp only [hlen, if_true]
    cases hes : es ++ [(⟨k, v, cap⟩ : Entry)] with
    | nil => simp at hes
    | cons o rest =>
      simp only [evict]
      have hcost : cost c.overhead (o :: rest) = cost c.overhead es + ((cap + c.overhead : Nat) : Int) := by
        rw [← hes, cost_append]; simp [cost]
      simp only [cost] at hcost
      refine ⟨_, rfl, ⟨?_, ?_⟩, rfl, rfl, rfl, ?_⟩
      · show 0 ≤ free + ((o.cap + c.overhead : Nat) : Int) - ((cap + c.overhead : Nat) : Int)
        omega
      · show free + ((o.cap + c.overhead : Nat) : Int) - ((cap + c.overhead : Nat) : Int) + cost c.overhead rest = c.size
        have := hi.2; omega
      · intro e he
        have : e ∈ es ++ [(⟨k, v, cap⟩ : Entry)] := by rw [hes]; exact List.mem_cons_of_mem _ he
        rcases List.mem_append.mp this with h | h
        · exact Or.inl (hsub e h)
        · exact Or.inr (by simpa using h)
  · simp only [hlen, if_false]
    refine ⟨_, rfl, ⟨?_, ?_⟩, rfl, rfl, rfl, ?_⟩
    · show 0 ≤ free - ((cap + c.overhead : Nat) : Int)
      omega
    · show free - ((cap + c.overhead : Nat) : Int) + cost c.overhead (es ++ [(⟨k, v, cap⟩ : Entry)]) = c.size
      rw [cost_append]; simp only [cost]
      have := hi.2; omega
    · intro e he
      rcases List.mem_append.mp he with h | h
      · exact Or.inl (hsub e h)
      · exact Or.inr (by simpa using h)

/-- the LRU's own capacity bound (`maxEntries = size / overhead`) can never be the reason for an
    eviction: the byte budget already implies `#entries * overhead ≤ size`. -/
theorem entries_le_maxEntries (c : Cache) (hi : Inv c) :
    (c.entries.length : Int) * c.overhead ≤ c.size := by
  have hlen : ∀ es : List Entry, (es.length : Int) * c.overhead ≤ cost c.overhead es := by
    intro es
    induction es with
    | nil => simp [cost]
    | cons e es ih =>
      simp only [List.length_cons, cost]
      have : ((es.length + 1 : Nat) : Int) * (c.overhead : Int) = (es.length : Int) * c.overhead + c.overhead := by
        rw [Int.natCast_add, Int.add_mul]; simp
      omega
  have := hlen c.entries; have := hi.1; have := hi.2; omega

/-! ### all interleavings of concurrent `GetOrCompute` calls -/

/-- what a result must satisfy (Prop version of `resultOK`) -/
def ResOK (produced : List (Key × Val)) (th : Thread) : Res → Prop
  | .ok v => (th.key, v) ∈ produced
  | .err => th.ownFailed = true

def ThreadOK (s : Sys) (th : Thread) : Prop :=
  match th.pc with
  | .adding _ v _ => (th.key, v) ∈ s.produced
  | .cleanupDelete r => ResOK s.produced th r
  | .cleanupClose r => ResOK s.produced th r
  | .done r => ResOK s.produced th r
  | .hung => False
  | _ => True

/-- system invariant: budget; every cached value was produced by a compute for its key; every
    pending or returned result is justified; nobody is stuck in the eviction loop -/
def SysInv (s : Sys) : Prop :=
  Inv s.cache ∧ (∀ e ∈ s.cache.entries, (e.key, e.val) ∈ s.produced) ∧ ∀ th ∈ s.threads, ThreadOK s th

theorem resOK_mono {p q : List (Key × Val)} (hpq : ∀ x ∈ p, x ∈ q) (th : Thread) (r : Res)
    (h : ResOK p th r) : ResOK q th r := by
  cases r with
  | ok v => exact hpq _ h
  | err => exact h

theorem threadOK_mono (s s' : Sys) (hpq : ∀ x ∈ s.produced, x ∈ s'.produced) (th : Thread)
    (h : ThreadOK s th) : ThreadOK s' th := by
  unfold ThreadOK at *
  cases hpc : th.pc <;> simp only [hpc] at h ⊢
  all_goals first | exact hpq _ h | exact resOK_mono hpq th _ h | exact h

theorem finishPC_ok (s : Sys) (th : Thread) (ow : Bool) (r : Res) (pcv : PC) (hpc : pcv = finishPC ow r)
    (th' : Thread) (hk : th'.key = th.key) (hf : th'.ownFailed = th.ownFailed ∨ (r = .err ∧ th'.ownFailed = true))
    (hp : th'.pc = pcv) (hr : ResOK s.produced th r ∨ (r = .err ∧ th'.ownFailed = true)) : ThreadOK s th' := by
  have key : ResOK s.produced th' r := by
    rcases hr with hr | ⟨rfl, hr⟩
    · cases r with
      | ok v => simp only [ResOK, hk] at *; exact hr
      | err =>
        rcases hf with hf | ⟨_, hf⟩
        · simp only [ResOK] at *; rw [hf]; exact hr
        · exact hf
    · exact hr
  unfold ThreadOK
  subst hpc
  cases ow <;> simp only [hp, finishPC, Bool.false_eq_true, if_false, if_true] <;> exact key

/-- what one atomic step guarantees -/
def StepOK (s : Sys) (th : Thread) (r : Sys × Thread) : Prop :=
  Inv r.1.cache ∧ (∀ e ∈ r.1.cache.entries, (e.key, e.val) ∈ r.1.produced) ∧
    (∀ x ∈ s.produced, x ∈ r.1.produced) ∧ r.1.threads = s.threads ∧ ThreadOK r.1 r.2 ∧ r.2.key = th.key ∧
    r.1.cache.size = s.cache.size ∧ r.1.cache.overhead = s.cache.overhead

/-- one atomic step of any thread preserves the system invariant -/
theorem stepThread_inv (s : Sys) (t : Nat) (th : Thread) (o : Oracle) (hs : SysInv s) (hth : ThreadOK s th) :
    StepOK s th (stepThread s t th o) := by
  obtain ⟨hinv, hent, _⟩ := hs
  have hg := cacheGet_spec s.cache th.key
  simp only at hg
  obtain ⟨hg1, hgs, hgo, _, hg5, hg6, _⟩ := hg
  unfold stepThread
  split
  · -- start
    split
    · rename_i v c heq
      rw [heq] at hg1 hg5 hg6 hgs hgo
      exact ⟨hg1 hinv, fun e he => hent e ((hg5 e).mp he), fun x hx => hx, rfl, by
        obtain ⟨e, he, hk, hv⟩ := hg6 v rfl
        have := hent e he
        rw [hk, hv] at this; exact this, rfl, hgs, hgo⟩
    · rename_i c heq
      rw [heq] at hg1 hg5 hgs hgo
      exact ⟨hg1 hinv, fun e he => hent e ((hg5 e).mp he), fun x hx => hx, rfl, trivial, rfl, hgs, hgo⟩
  · -- checkProgress
    split
    · exact ⟨hinv, hent, fun x hx => hx, rfl, trivial, rfl, rfl, rfl⟩
    · exact ⟨hinv, hent, fun x hx => hx, rfl, trivial, rfl, rfl, rfl⟩
  · -- waiting
    split
    · exact ⟨hinv, hent, fun x hx => hx, rfl, trivial, rfl, rfl, rfl⟩
    · exact ⟨hinv, hent, fun x hx => hx, rfl, hth, rfl, rfl, rfl⟩
  · -- secondGet
    rename_i ow hpc
    split
    · rename_i v c heq
      rw [heq] at hg1 hg5 hg6 hgs hgo
      refine ⟨hg1 hinv, fun e he => hent e ((hg5 e).mp he), fun x hx => hx, rfl, ?_, rfl, hgs, hgo⟩
      obtain ⟨e, he, hk, hv⟩ := hg6 v rfl
      have hm := hent e he
      rw [hk, hv] at hm
      exact finishPC_ok _ th ow (.ok v) _ rfl _ rfl (Or.inl rfl) rfl (Or.inl hm)
    · rename_i c heq
      rw [heq] at hg1 hg5 hgs hgo
      exact ⟨hg1 hinv, fun e he => hent e ((hg5 e).mp he), fun x hx => hx, rfl, trivial, rfl, hgs, hgo⟩
  · -- computing
    rename_i ow hpc
    split
    · exact ⟨hinv, fun e he => List.mem_cons_of_mem _ (hent e he), fun x hx => List.mem_cons_of_mem _ hx, rfl,
        List.mem_cons_self, rfl, rfl, rfl⟩
    · refine ⟨hinv, hent, fun x hx => hx, rfl, ?_, rfl, rfl, rfl⟩
      exact finishPC_ok _ th ow .err _ rfl _ rfl (Or.inr ⟨rfl, rfl⟩) rfl (Or.inr ⟨rfl, rfl⟩)
  · -- adding
    rename_i ow v cap hpc
    obtain ⟨c', hadd, hinv', hsz, hov, _, hmem⟩ := add_spec s.cache th.key v cap hinv
    have hprod : (th.key, v) ∈ s.produced := by
      simpa [ThreadOK, hpc] using hth
    split
    · rename_i heq; rw [hadd] at heq; cases heq
    · rename_i c heq
      rw [hadd] at heq
      injection heq with heq
      subst heq
      refine ⟨hinv', ?_, fun x hx => hx, rfl, ?_, rfl, hsz, hov⟩
      · intro e he
        rcases hmem e he with h | h
        · exact hent e h
        · subst h; exact hprod
      · exact finishPC_ok _ th ow (.ok v) _ rfl _ rfl (Or.inl rfl) rfl (Or.inl hprod)
  · -- cleanupDelete
    rename_i r hpc
    have hr : ResOK s.produced th r := by simpa [ThreadOK, hpc] using hth
    refine ⟨hinv, hent, fun x hx => hx, rfl, ?_, rfl, rfl, rfl⟩
    cases r <;> exact hr
  · -- cleanupClose
    rename_i r hpc
    have hr : ResOK s.produced th r := by simpa [ThreadOK, hpc] using hth
    refine ⟨hinv, hent, fun x hx => hx, rfl, ?_, rfl, rfl, rfl⟩
    cases r <;> exact hr
  · exact ⟨hinv, hent, fun x hx => hx, rfl, hth, rfl, rfl, rfl⟩
  · exact ⟨hinv, hent, fun x hx => hx, rfl, hth, rfl, rfl, rfl⟩

theorem act_inv (s : Sys) (a : Action) (hs : SysInv s) :
    SysInv (act s a) ∧ ∀ x ∈ s.produced, x ∈ (act s a).produced := by
  cases a with
  | spawn k =>
    refine ⟨⟨hs.1, hs.2.1, ?_⟩, fun x hx => hx⟩
    intro th hth
    simp only [act] at hth
    rcases List.mem_append.mp hth with h | h
    · exact threadOK_mono s _ (fun x hx => hx) th (hs.2.2 th h)
    · have : th = { key := k, pc := .start } := by simpa using h
      subst this; simp [ThreadOK]
  | step t o =>
    simp only [act]
    cases hth : s.threads[t]? with
    | none => exact ⟨hs, fun x hx => hx⟩
    | some th =>
      have hmem : th ∈ s.threads := List.mem_of_getElem? hth
      have ⟨h1, h2, h3, h4, h5, _, _, _⟩ := stepThread_inv s t th o hs (hs.2.2 th hmem)
      refine ⟨⟨h1, h2, ?_⟩, h3⟩
      intro th' hth'
      simp only at hth'
      rcases List.mem_or_eq_of_mem_set hth' with h | h
      · rw [h4] at h
        exact threadOK_mono s _ h3 th' (hs.2.2 th' h)
      · subst h; exact h5

theorem run_inv (s : Sys) (acts : List Action) (hs : SysInv s) : SysInv (run s acts) := by
  induction acts generalizing s with
  | nil => exact hs
  | cons a as ih => exact ih _ (act_inv s a hs).1

theorem init_inv (c : Cache) (h : Inv c) (he : c.entries = []) : SysInv (initSys c) :=
  ⟨h, by simp [initSys, he], by simp [initSys]⟩

/-! ### The property theorems -/

/-- **budget** (T1: the `overhead` constant is the one regenerated from cache.go). For every
    cache size accepted by `New`, every set of concurrent callers and every interleaving of their
    atomic steps with arbitrary compute results: `free ≥ 0`, `free + Σ(cap+overhead) = size`, and
    the blob bytes held are at most the configured size. -/
theorem budget (size : Int) (c : Cache) (acts : List Action)
    (hnew : new Restic.Gen.bloblru_overhead size = .ok c) :
    let s := run (initSys c) acts
    0 ≤ s.cache.free ∧ s.cache.free + cost Restic.Gen.bloblru_overhead s.cache.entries = size ∧
      held s.cache.entries ≤ size ∧ budgetOK s.cache = true := by
  have ⟨hi, hsz, hov, he⟩ := new_inv _ _ _ hnew
  have hrun := run_inv (initSys c) acts (init_inv c hi he)
  -- size and overhead never change
  have hconst : ∀ (acts : List Action) (s : Sys), SysInv s →
      (run s acts).cache.size = s.cache.size ∧ (run s acts).cache.overhead = s.cache.overhead := by
    intro acts
    induction acts with
    | nil => intro s _; exact ⟨rfl, rfl⟩
    | cons a as ih =>
      intro s hs
      have h1 := ih (act s a) (act_inv s a hs).1
      have h2 : (act s a).cache.size = s.cache.size ∧ (act s a).cache.overhead = s.cache.overhead := by
        cases a with
        | spawn k => exact ⟨rfl, rfl⟩
        | step t o =>
          simp only [act]
          cases hth : s.threads[t]? with
          | none => exact ⟨rfl, rfl⟩
          | some th =>
            have hmem : th ∈ s.threads := List.mem_of_getElem? hth
            have ⟨_, _, _, _, _, _, h7, h8⟩ := stepThread_inv s t th o hs (hs.2.2 th hmem)
            exact ⟨h7, h8⟩
      exact ⟨h1.1.trans h2.1, h1.2.trans h2.2⟩
  have ⟨hs1', hs2'⟩ := hconst acts (initSys c) (init_inv c hi he)
  have hs1 : (run (initSys c) acts).cache.size = c.size := hs1'
  have hs2 : (run (initSys c) acts).cache.overhead = c.overhead := hs2'
  have hI := hrun.1
  refine ⟨hI.1, ?_, ?_, inv_budgetOK _ hI⟩
  · have := hI.2; rw [hs2, hov, hs1, hsz] at this; exact this
  · have := inv_held_le_size _ hI; rw [hs1, hsz] at this; exact this

/-- **evict_terminates**: in no reachable state is a caller stuck in `add`'s eviction loop. -/
theorem evict_terminates (size : Int) (c : Cache) (acts : List Action)
    (hnew : new Restic.Gen.bloblru_overhead size = .ok c) :
    ∀ th ∈ (run (initSys c) acts).threads, th.pc ≠ .hung := by
  have ⟨hi, _, _, he⟩ := new_inv _ _ _ hnew
  have hrun := run_inv (initSys c) acts (init_inv c hi he)
  intro th hth hp
  have := hrun.2.2 th hth
  simp [ThreadOK, hp] at this

/-- **value_correct**: whatever the interleaving, a call `GetOrCompute(k, f)` that has returned
    (or is about to return) `ok v` returns a value some `compute()` *for the same key `k`* has
    produced (its own or an earlier one); an error is returned only to a caller whose own
    `compute()` failed. Every value sitting in the cache is such a produced value too. -/
theorem value_correct (size : Int) (c : Cache) (acts : List Action)
    (hnew : new Restic.Gen.bloblru_overhead size = .ok c) :
    let s := run (initSys c) acts
    (∀ th ∈ s.threads, ∀ r, th.pc = .done r → resultOK s.produced th r = true) ∧
    (∀ e ∈ s.cache.entries, (e.key, e.val) ∈ s.produced) := by
  have ⟨hi, _, _, he⟩ := new_inv _ _ _ hnew
  have hrun := run_inv (initSys c) acts (init_inv c hi he)
  refine ⟨?_, hrun.2.1⟩
  intro th hth r hp
  have := hrun.2.2 th hth
  simp only [ThreadOK, hp] at this
  cases r with
  | ok v => simpa [resultOK, ResOK] using this
  | err => simpa [resultOK, ResOK] using this

/-- every produced pair really is the result of a compute step of the schedule (or was there
    before): `produced` is not a loophole of `value_correct`. -/
theorem produced_from_compute (s : Sys) (acts : List Action) (k : Key) (v : Val)
    (h : (k, v) ∈ (run s acts).produced) :
    (k, v) ∈ s.produced ∨ ∃ t cap, Action.step t (.ok v cap) ∈ acts := by
  induction acts generalizing s with
  | nil => exact Or.inl h
  | cons a as ih =>
    rcases ih (act s a) h with h1 | ⟨t, cap, h1⟩
    · cases a with
      | spawn k' => exact Or.inl h1
      | step t o =>
        simp only [act] at h1
        cases hth : s.threads[t]? with
        | none => simp only [hth] at h1; exact Or.inl h1
        | some th =>
          simp only [hth] at h1
          unfold stepThread at h1
          split at h1
          · split at h1 <;> exact Or.inl h1
          · split at h1 <;> exact Or.inl h1
          · split at h1 <;> exact Or.inl h1
          · split at h1 <;> exact Or.inl h1
          · split at h1
            · rename_i v' cap'
              simp only [List.mem_cons, Prod.mk.injEq] at h1
              rcases h1 with ⟨_, rfl⟩ | h1
              · exact Or.inr ⟨t, cap', List.mem_cons_self⟩
              · exact Or.inl h1
            · exact Or.inl h1
          · split at h1 <;> exact Or.inl h1
          · exact Or.inl h1
          · exact Or.inl h1
          · exact Or.inl h1
          · exact Or.inl h1
    · exact Or.inr ⟨t, cap, List.mem_cons_of_mem _ h1⟩

/-- **failure_not_cached**: the step in which a `compute()` fails leaves the cache (entries,
    free) exactly as it was and makes the caller return the error. -/
theorem failure_not_cached (s : Sys) (t : Nat) (th : Thread) (ow : Bool)
    (hth : s.threads[t]? = some th) (hpc : th.pc = .computing ow) :
    (act s (.step t .fail)).cache = s.cache ∧
      (act s (.step t .fail)).threads[t]? = some { th with pc := finishPC ow .err, ownFailed := true } := by
  have hlt : t < s.threads.length := by
    rcases List.getElem?_eq_some_iff.mp hth with ⟨h, _⟩; exact h
  have hstep : stepThread s t th .fail = (s, { th with pc := finishPC ow .err, ownFailed := true }) := by
    simp only [stepThread, hpc]
  have hact : act s (.step t .fail) = { s with threads := s.threads.set t { th with pc := finishPC ow .err, ownFailed := true } } := by
    simp only [act, hth, hstep]
  rw [hact]
  exact ⟨rfl, by simp [List.getElem?_set, hlt]⟩

/-- T1: the constant the accounting depends on is positive in the current source, so `New`
    accepts every size ≥ overhead and rejects (panics on) smaller ones. -/
theorem new_accepts_iff (size : Int) :
    (∃ c, new Restic.Gen.bloblru_overhead size = .ok c) ↔ (Restic.Gen.bloblru_overhead : Int) ≤ size := by
  have hpos : (0 : Int) < (Restic.Gen.bloblru_overhead : Int) := by decide
  simp only [new]
  constructor
  · rintro ⟨c, h⟩
    split at h
    · cases h
    · rename_i hm
      by_cases hlt : size < (Restic.Gen.bloblru_overhead : Int)
      · exfalso; apply hm
        by_cases hneg : size < 0
        · have h1 : size.tdiv (Restic.Gen.bloblru_overhead : Int) = -((-size).tdiv (Restic.Gen.bloblru_overhead : Int)) := by
            rw [Int.neg_tdiv, Int.neg_neg]
          have : 0 ≤ (-size).tdiv (Restic.Gen.bloblru_overhead : Int) := Int.tdiv_nonneg (by omega) (by omega)
          omega
        · have : size.tdiv (Restic.Gen.bloblru_overhead : Int) = 0 := Int.tdiv_eq_zero_of_lt (by omega) hlt
          omega
      · omega
  · intro h
    have : ¬ size.tdiv (Restic.Gen.bloblru_overhead : Int) ≤ 0 := by
      have h0 : 0 ≤ size := by omega
      rw [Int.tdiv_eq_ediv_of_nonneg h0]
      have h1 : 1 ≤ size / (Restic.Gen.bloblru_overhead : Int) := by
        apply Int.le_ediv_of_mul_le hpos; omega
      omega
    simp only [this, if_false]
    exact ⟨_, rfl⟩

/-! ### deadlock freedom -/

/-- an owner whose `finish` channel is registered in `inProgress` -/
def OwnerRegistered : PC → Prop
  | .secondGet true => True
  | .computing true => True
  | .adding true _ _ => True
  | .cleanupDelete _ => True
  | _ => False

/-- an owner that has not yet closed its channel -/
def OwnerActive : PC → Prop
  | .secondGet true => True
  | .computing true => True
  | .adding true _ _ => True
  | .cleanupDelete _ => True
  | .cleanupClose _ => True
  | _ => False

theorem ownerRegistered_active {pc : PC} (h : OwnerRegistered pc) : OwnerActive pc := by
  cases pc <;> first | exact h | (rename_i ow; cases ow <;> first | exact h | cases h) | (rename_i ow _ _; cases ow <;> first | exact h | cases h) | cases h

/-- every in-progress entry belongs to a live owner with that key; everybody who waits, waits for
    a channel that is closed or whose owner is still on its way to closing it -/
def ProgInv (s : Sys) : Prop :=
  (∀ k ch, (k, ch) ∈ s.inProgress → ∃ th, s.threads[ch]? = some th ∧ th.key = k ∧ OwnerRegistered th.pc) ∧
  (∀ th ∈ s.threads, ∀ ch, th.pc = .waiting ch →
    s.closed.contains ch = true ∨ ∃ o, s.threads[ch]? = some o ∧ OwnerActive o.pc)

/-- a call that can take a step -/
def Enabled (s : Sys) (th : Thread) : Prop :=
  match th.pc with
  | .done _ => False
  | .hung => False
  | .waiting ch => s.closed.contains ch = true
  | _ => True

theorem lookupCh_mem (k : Key) (l : List (Key × Nat)) (ch : Nat) (h : lookupCh k l = some ch) : (k, ch) ∈ l := by
  induction l with
  | nil => simp [lookupCh] at h
  | cons p ps ih =>
    obtain ⟨k', c'⟩ := p
    simp only [lookupCh] at h
    by_cases hk : (k' == k) = true
    · simp only [hk, if_true, Option.some.injEq] at h
      subst h
      have : k' = k := by simpa using hk
      subst this; exact List.mem_cons_self
    · simp only [hk] at h
      exact List.mem_cons_of_mem _ (ih h)

/-- distance of a call from returning; every step of an enabled call decreases it -/
def rank : PC → Nat
  | .start => 9
  | .checkProgress => 8
  | .waiting _ => 7
  | .secondGet _ => 6
  | .computing _ => 5
  | .adding _ _ _ => 4
  | .cleanupDelete _ => 3
  | .cleanupClose _ => 2
  | .done _ => 0
  | .hung => 0

theorem rank_finishPC (ow : Bool) (r : Res) : rank (finishPC ow r) ≤ 3 := by
  cases ow <;> simp [finishPC, rank]

/-- an enabled call makes progress with every step it is given (so a call needs at most 9 steps,
    and `n` calls complete within `9·n` steps of enabled calls, whatever the scheduler does) -/
theorem enabled_step_decreases (s : Sys) (t : Nat) (th : Thread) (o : Oracle) (hs : SysInv s)
    (he : Enabled s th) : rank (stepThread s t th o).2.pc < rank th.pc := by
  unfold stepThread
  unfold Enabled at he
  split
  · rename_i hpc; rw [hpc]; split <;> simp [rank]
  · rename_i hpc; rw [hpc]; split <;> simp [rank]
  · rename_i ch hpc
    rw [hpc] at he ⊢
    simp only at he
    rw [if_pos he]
    simp [rank]
  · rename_i ow hpc; rw [hpc]
    split
    · exact Nat.lt_of_le_of_lt (rank_finishPC ow _) (by simp [rank])
    · simp [rank]
  · rename_i ow hpc; rw [hpc]
    split
    · simp [rank]
    · exact Nat.lt_of_le_of_lt (rank_finishPC ow _) (by simp [rank])
  · rename_i ow v cap hpc; rw [hpc]
    obtain ⟨c', hadd, _⟩ := add_spec s.cache th.key v cap hs.1
    split
    · rename_i heq; rw [hadd] at heq; cases heq
    · exact Nat.lt_of_le_of_lt (rank_finishPC ow _) (by simp [rank])
  · rename_i r hpc; rw [hpc]; simp [rank]
  · rename_i r hpc; rw [hpc]; simp [rank]
  · rename_i r hpc; rw [hpc] at he; exact absurd he (by simp)
  · rename_i hpc; rw [hpc] at he; exact absurd he (by simp)

/-- what a step of call `t` does to the bookkeeping `ProgInv` talks about -/
def KeyFacts (s : Sys) (t : Nat) (th : Thread) (r : Sys × Thread) : Prop :=
  r.1.threads = s.threads ∧ r.2.key = th.key ∧
  (∀ k ch, (k, ch) ∈ r.1.inProgress →
    ((k, ch) ∈ s.inProgress ∧ (ch = t → OwnerRegistered r.2.pc)) ∨
    (k = th.key ∧ ch = t ∧ OwnerRegistered r.2.pc)) ∧
  (∀ ch, s.closed.contains ch = true → r.1.closed.contains ch = true) ∧
  (OwnerActive th.pc → OwnerActive r.2.pc ∨ r.1.closed.contains t = true) ∧
  (∀ ch, r.2.pc = .waiting ch → th.pc = .waiting ch ∨ (th.key, ch) ∈ s.inProgress)

theorem keyFacts_plain (s : Sys) (t : Nat) (th : Thread) (r : Sys × Thread)
    (h1 : r.1.threads = s.threads) (h2 : r.2.key = th.key) (h3 : r.1.inProgress = s.inProgress)
    (h4 : r.1.closed = s.closed)
    (h5 : ∀ k, (k, t) ∈ s.inProgress → OwnerRegistered r.2.pc)
    (h6 : OwnerActive th.pc → OwnerActive r.2.pc)
    (h7 : ∀ ch, r.2.pc = .waiting ch → th.pc = .waiting ch ∨ (th.key, ch) ∈ s.inProgress) :
    KeyFacts s t th r := by
  refine ⟨h1, h2, ?_, ?_, ?_, h7⟩
  · intro k ch h
    rw [h3] at h
    refine Or.inl ⟨h, ?_⟩
    intro e; subst e; exact h5 k h
  · intro ch h; rw [h4]; exact h
  · intro h; exact Or.inl (h6 h)

theorem finishPC_registered (r : Res) : OwnerRegistered (finishPC true r) := by simp [finishPC, OwnerRegistered]
theorem finishPC_not_waiting (ow : Bool) (r : Res) (ch : Nat) : finishPC ow r ≠ .waiting ch := by
  cases ow <;> simp [finishPC]

theorem act_progInv (s : Sys) (a : Action) (hs : SysInv s) (hp : ProgInv s) : ProgInv (act s a) := by
  obtain ⟨hP, hW⟩ := hp
  cases a with
  | spawn k =>
    have hget : ∀ (ch : Nat) (th : Thread), s.threads[ch]? = some th → (s.threads ++ [({ key := k, pc := .start } : Thread)])[ch]? = some th := by
      intro ch th h
      have hlt : ch < s.threads.length := by
        rcases List.getElem?_eq_some_iff.mp h with ⟨h, _⟩; exact h
      rw [List.getElem?_append_left hlt]; exact h
    refine ⟨?_, ?_⟩
    · intro k' ch hm
      obtain ⟨th, h1, h2, h3⟩ := hP k' ch hm
      exact ⟨th, hget ch th h1, h2, h3⟩
    · intro th hth ch hw
      simp only [act] at hth
      rcases List.mem_append.mp hth with h | h
      · rcases hW th h ch hw with h' | ⟨o, h1, h2⟩
        · exact Or.inl h'
        · exact Or.inr ⟨o, hget ch o h1, h2⟩
      · have : th = { key := k, pc := .start } := by simpa using h
        subst this; cases hw
  | step t o =>
    simp only [act]
    cases hth : s.threads[t]? with
    | none => exact ⟨hP, hW⟩
    | some th =>
      simp only
      have hmem : th ∈ s.threads := List.mem_of_getElem? hth
      have hlt : t < s.threads.length := by
        rcases List.getElem?_eq_some_iff.mp hth with ⟨h, _⟩; exact h
      have hthOK := hs.2.2 th hmem
      -- facts about the step, by cases on the pc
      have key : KeyFacts s t th (stepThread s t th o) := by
        have hreg : ∀ k, (k, t) ∈ s.inProgress → OwnerRegistered th.pc ∧ k = th.key := by
          intro k hk
          obtain ⟨th', h1, h2, h3⟩ := hP k t hk
          rw [hth] at h1; injection h1 with h1; subst h1
          exact ⟨h3, h2.symm⟩
        unfold stepThread
        split
        · -- start
          rename_i hpc
          have hnr : ∀ k, (k, t) ∈ s.inProgress → False := by
            intro k hk; have := (hreg k hk).1; rw [hpc] at this; exact this
          have hna : ¬ OwnerActive th.pc := by rw [hpc]; exact id
          split
          · exact keyFacts_plain s t th _ rfl rfl rfl rfl (fun k hk => (hnr k hk).elim) (fun h => (hna h).elim)
              (by intro ch h; cases h)
          · exact keyFacts_plain s t th _ rfl rfl rfl rfl (fun k hk => (hnr k hk).elim) (fun h => (hna h).elim)
              (by intro ch h; cases h)
        · -- checkProgress
          rename_i hpc
          have hnr : ∀ k, (k, t) ∈ s.inProgress → False := by
            intro k hk; have := (hreg k hk).1; rw [hpc] at this; exact this
          have hna : ¬ OwnerActive th.pc := by rw [hpc]; exact id
          split
          · rename_i ch hl
            exact keyFacts_plain s t th _ rfl rfl rfl rfl (fun k hk => (hnr k hk).elim) (fun h => (hna h).elim)
              (by intro c h; injection h with h; subst h; exact Or.inr (lookupCh_mem _ _ _ hl))
          · refine ⟨rfl, rfl, ?_, ?_, ?_, ?_⟩
            · intro k c h
              rcases List.mem_cons.mp h with hx | hy
              · injection hx with h1 h2
                exact Or.inr ⟨h1, h2, trivial⟩
              · refine Or.inl ⟨hy, ?_⟩
                intro e; exact (hnr k (e ▸ hy)).elim
            · intro c h; exact h
            · intro h; exact (hna h).elim
            · intro c h; cases h
        · -- waiting
          rename_i ch hpc
          have hnr : ∀ k, (k, t) ∈ s.inProgress → False := by
            intro k hk; have := (hreg k hk).1; rw [hpc] at this; exact this
          have hna : ¬ OwnerActive th.pc := by rw [hpc]; exact id
          split
          · exact keyFacts_plain s t th _ rfl rfl rfl rfl (fun k hk => (hnr k hk).elim) (fun h => (hna h).elim)
              (by intro c h; cases h)
          · exact keyFacts_plain s t th _ rfl rfl rfl rfl (fun k hk => (hnr k hk).elim) (fun h => (hna h).elim)
              (by intro c h; exact Or.inl h)
        · -- secondGet
          rename_i ow hpc
          cases ow with
          | false =>
            have hnr : ∀ k, (k, t) ∈ s.inProgress → False := by
              intro k hk; have := (hreg k hk).1; rw [hpc] at this; exact this
            have hna : ¬ OwnerActive th.pc := by rw [hpc]; exact id
            split
            · exact keyFacts_plain s t th _ rfl rfl rfl rfl (fun k hk => (hnr k hk).elim) (fun h => (hna h).elim)
                (by intro c h; dsimp only at h; exact (finishPC_not_waiting _ _ _ h).elim)
            · exact keyFacts_plain s t th _ rfl rfl rfl rfl (fun k hk => (hnr k hk).elim) (fun h => (hna h).elim)
                (by intro c h; cases h)
          | true =>
            split
            · exact keyFacts_plain s t th _ rfl rfl rfl rfl (fun _ _ => finishPC_registered _)
                (fun _ => ownerRegistered_active (finishPC_registered _))
                (by intro c h; dsimp only at h; exact (finishPC_not_waiting _ _ _ h).elim)
            · exact keyFacts_plain s t th _ rfl rfl rfl rfl (fun _ _ => trivial) (fun _ => trivial)
                (by intro c h; cases h)
        · -- computing
          rename_i ow hpc
          cases ow with
          | false =>
            have hnr : ∀ k, (k, t) ∈ s.inProgress → False := by
              intro k hk; have := (hreg k hk).1; rw [hpc] at this; exact this
            have hna : ¬ OwnerActive th.pc := by rw [hpc]; exact id
            split
            · exact keyFacts_plain s t th _ rfl rfl rfl rfl (fun k hk => (hnr k hk).elim) (fun h => (hna h).elim)
                (by intro c h; cases h)
            · exact keyFacts_plain s t th _ rfl rfl rfl rfl (fun k hk => (hnr k hk).elim) (fun h => (hna h).elim)
                (by intro c h; dsimp only at h; exact (finishPC_not_waiting _ _ _ h).elim)
          | true =>
            split
            · exact keyFacts_plain s t th _ rfl rfl rfl rfl (fun _ _ => trivial) (fun _ => trivial)
                (by intro c h; cases h)
            · exact keyFacts_plain s t th _ rfl rfl rfl rfl (fun _ _ => finishPC_registered _)
                (fun _ => ownerRegistered_active (finishPC_registered _))
                (by intro c h; dsimp only at h; exact (finishPC_not_waiting _ _ _ h).elim)
        · -- adding
          rename_i ow v cap hpc
          obtain ⟨c', hadd, _⟩ := add_spec s.cache th.key v cap hs.1
          split
          · rename_i heq; rw [hadd] at heq; cases heq
          · cases ow with
            | false =>
              have hnr : ∀ k, (k, t) ∈ s.inProgress → False := by
                intro k hk; have := (hreg k hk).1; rw [hpc] at this; exact this
              have hna : ¬ OwnerActive th.pc := by rw [hpc]; exact id
              exact keyFacts_plain s t th _ rfl rfl rfl rfl (fun k hk => (hnr k hk).elim) (fun h => (hna h).elim)
                (by intro c h; dsimp only at h; exact (finishPC_not_waiting _ _ _ h).elim)
            | true =>
              exact keyFacts_plain s t th _ rfl rfl rfl rfl (fun _ _ => finishPC_registered _)
                (fun _ => ownerRegistered_active (finishPC_registered _))
                (by intro c h; dsimp only at h; exact (finishPC_not_waiting _ _ _ h).elim)
        · -- cleanupDelete
          rename_i r hpc
          refine ⟨rfl, rfl, ?_, ?_, ?_, ?_⟩
          · intro k c h
            have hf := List.mem_filter.mp h
            refine Or.inl ⟨hf.1, ?_⟩
            intro e; subst e
            exfalso
            have hk := (hreg k hf.1).2
            have hne : (k != th.key) = true := hf.2
            simp [hk] at hne
          · intro c h; exact h
          · intro _; exact Or.inl trivial
          · intro c h; cases h
        · -- cleanupClose
          rename_i r hpc
          have hnr : ∀ k, (k, t) ∈ s.inProgress → False := by
            intro k hk; have := (hreg k hk).1; rw [hpc] at this; exact this
          refine ⟨rfl, rfl, ?_, ?_, ?_, ?_⟩
          · intro k c h
            refine Or.inl ⟨h, ?_⟩
            intro e; subst e; exact (hnr k h).elim
          · intro c h
            show (t :: s.closed).contains c = true
            simp only [List.contains_cons, Bool.or_eq_true]; exact Or.inr h
          · intro _; right
            show (t :: s.closed).contains t = true
            simp
          · intro c h; cases h
        · -- done
          rename_i r hpc
          have hnr : ∀ k, (k, t) ∈ s.inProgress → False := by
            intro k hk; have := (hreg k hk).1; rw [hpc] at this; exact this
          have hna : ¬ OwnerActive th.pc := by rw [hpc]; exact id
          exact keyFacts_plain s t th _ rfl rfl rfl rfl (fun k hk => (hnr k hk).elim) (fun h => (hna h).elim)
            (by intro c h; exact Or.inl h)
        · -- hung
          rename_i hpc
          have hnr : ∀ k, (k, t) ∈ s.inProgress → False := by
            intro k hk; have := (hreg k hk).1; rw [hpc] at this; exact this
          have hna : ¬ OwnerActive th.pc := by rw [hpc]; exact id
          exact keyFacts_plain s t th _ rfl rfl rfl rfl (fun k hk => (hnr k hk).elim) (fun h => (hna h).elim)
            (by intro c h; exact Or.inl h)
      obtain ⟨k1, k2, k3, k4, k5, k6⟩ := key
      have hset : ∀ ch, ch ≠ t → ∀ x, s.threads[ch]? = some x →
          ((stepThread s t th o).1.threads.set t (stepThread s t th o).2)[ch]? = some x := by
        intro ch hne x hx
        rw [k1, List.getElem?_set_ne (Ne.symm hne)]; exact hx
      have hsett : ((stepThread s t th o).1.threads.set t (stepThread s t th o).2)[t]? = some (stepThread s t th o).2 := by
        rw [k1]; simp [hlt]
      refine ⟨?_, ?_⟩
      · intro k ch hm
        rcases k3 k ch hm with ⟨hin, hreg⟩ | ⟨hk, hch, hreg⟩
        · by_cases hct : ch = t
          · subst hct
            obtain ⟨th', h1, h2, _⟩ := hP k ch hin
            rw [hth] at h1; injection h1 with h1; subst h1
            exact ⟨_, hsett, by rw [k2]; exact h2, hreg rfl⟩
          · obtain ⟨th', h1, h2, h3⟩ := hP k ch hin
            exact ⟨th', hset ch hct th' h1, h2, h3⟩
        · subst hch; subst hk
          exact ⟨_, hsett, k2, hreg⟩
      · intro u hu ch hw
        -- the owner of channel `ch` afterwards
        have owner_after : ∀ o', s.threads[ch]? = some o' → OwnerActive o'.pc →
            (stepThread s t th o).1.closed.contains ch = true ∨
            ∃ o'', ((stepThread s t th o).1.threads.set t (stepThread s t th o).2)[ch]? = some o'' ∧ OwnerActive o''.pc := by
          intro o' ho' hact
          by_cases hct : ch = t
          · subst hct
            rw [hth] at ho'; injection ho' with ho'; subst ho'
            rcases k5 hact with h | h
            · exact Or.inr ⟨_, hsett, h⟩
            · exact Or.inl h
          · exact Or.inr ⟨o', hset ch hct o' ho', hact⟩
        rcases List.mem_or_eq_of_mem_set hu with hu | hu
        · rw [k1] at hu
          rcases hW u hu ch hw with h | ⟨o', h1, h2⟩
          · exact Or.inl (k4 ch h)
          · exact owner_after o' h1 h2
        · subst hu
          rcases k6 ch hw with h | h
          · rcases hW th hmem ch h with h' | ⟨o', h1, h2⟩
            · exact Or.inl (k4 ch h')
            · exact owner_after o' h1 h2
          · obtain ⟨o', h1, _, h3⟩ := hP th.key ch h
            exact owner_after o' h1 (ownerRegistered_active h3)

theorem run_progInv (s : Sys) (acts : List Action) (hs : SysInv s) (hp : ProgInv s) : ProgInv (run s acts) := by
  induction acts generalizing s with
  | nil => exact hp
  | cons a as ih => exact ih _ (act_inv s a hs).1 (act_progInv s a hs hp)

/-- **no deadlock**: in every state reachable under any schedule, if some call has not returned
    yet then some call can take a step (and by `enabled_step_decreases` every such step brings that
    call closer to returning). -/
theorem progress (size : Int) (c : Cache) (acts : List Action)
    (hnew : new Restic.Gen.bloblru_overhead size = .ok c) :
    let s := run (initSys c) acts
    (∃ th ∈ s.threads, ∀ r, th.pc ≠ .done r) → ∃ (t : Nat) (th : Thread), s.threads[t]? = some th ∧ Enabled s th := by
  have ⟨hi, _, _, he⟩ := new_inv _ _ _ hnew
  have hrun := run_inv (initSys c) acts (init_inv c hi he)
  have hprog := run_progInv (initSys c) acts (init_inv c hi he)
    ⟨by intro k ch h; simp [initSys] at h, by intro th h; simp [initSys] at h⟩
  intro s ⟨th, hth, hnd⟩
  have hok : ThreadOK s th := hrun.2.2 th hth
  have ⟨t, ht⟩ : ∃ t : Nat, s.threads[t]? = some th := List.getElem?_of_mem hth
  by_cases hen : Enabled s th
  · exact ⟨t, th, ht, hen⟩
  · -- not enabled and not done: hung (impossible) or waiting on an open channel
    cases hpc : th.pc with
    | waiting ch =>
      rcases hprog.2 th hth ch hpc with h | ⟨o, h1, h2⟩
      · exact absurd (show Enabled s th by unfold Enabled; rw [hpc]; exact h) hen
      · refine ⟨ch, o, h1, ?_⟩
        unfold Enabled
        cases ho : o.pc <;> rw [ho] at h2 <;> first | trivial | cases h2
    | done r => exact absurd hpc (hnd r)
    | hung => simp [ThreadOK, hpc] at hok
    | _ => exact absurd (by simp [Enabled, hpc]) hen

/-! ### Non-vacuity: concrete runs (cache of 400 bytes, overhead 96) -/

private def c0 : Cache := { entries := [], free := 400, size := 400, maxEntries := 4, overhead := 96 }

example : new 96 400 = .ok c0 := by decide
example : new 96 95 = .panic := by decide
private def addSeq (c : Cache) : List (Key × Val × Nat) → Option Cache
  | [] => some c
  | (k, v, cap) :: rest => match cacheAdd c k v cap with
    | .done c' => addSeq c' rest
    | .hang => none
/-- eviction pressure: the third blob evicts the oldest one; an oversize blob is not stored -/
example : (addSeq c0 [(1, 11, 50), (2, 22, 50), (3, 33, 50), (4, 44, 305)]).map
    (fun c => (c.entries.map (·.key), c.free)) = some ([2, 3], 108) := by decide
/-- two concurrent callers for the same key: the second waits, the first computes, both get 7 -/
example : ((run (initSys c0) [.spawn 5, .spawn 5, .step 0 .fail, .step 0 .fail, .step 1 .fail, .step 1 .fail,
    .step 0 .fail, .step 0 (.ok 7 10), .step 0 .fail, .step 0 .fail, .step 0 .fail,
    .step 1 .fail, .step 1 .fail]).threads.map (·.pc)) = [.done (.ok 7), .done (.ok 7)] := by decide
/-- a failing compute: the owner returns the error, the waiter computes on its own -/
example : ((run (initSys c0) [.spawn 5, .spawn 5, .step 0 .fail, .step 0 .fail, .step 1 .fail, .step 1 .fail,
    .step 0 .fail, .step 0 .fail, .step 0 .fail, .step 0 .fail,
    .step 1 .fail, .step 1 .fail, .step 1 (.ok 9 10), .step 1 .fail]).threads.map (·.pc))
    = [.done .err, .done (.ok 9)] := by decide

end Restic.Props.C47
