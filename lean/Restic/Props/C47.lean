import Restic.Model.Lru
import Restic.Gen.Consts
/-!
# C47 — The in-memory blob cache stays within its budget and returns correct blobs

Theorems about `Restic.Model.Lru` (transcription of `bloblru.Cache` over `simplelru.LRU`, and of
`GetOrCompute` as a machine of atomic steps). Statements about `run` quantify over **all**
schedules: any number of concurrent callers, any interleaving of their atomic steps, any results
(success with any value/capacity, or failure) of their `compute()` calls.
-/
namespace Restic.Props.C47
open Restic.Model.Lru

/-! ### accounting lemmas -/

theorem cost_append (ov : Nat) (a b : List Entry) : cost ov (a ++ b) = cost ov a + cost ov b := by
  induction a with
  | nil => simp [cost]
  | cons e es ih => simp only [List.cons_append, cost, ih]; omega

theorem cost_nonneg (ov : Nat) (es : List Entry) : 0 ≤ cost ov es := by
  induction es with
  | nil => simp [cost]
  | cons e es ih => simp only [cost]; omega

theorem held_le_cost (ov : Nat) (es : List Entry) : held es ≤ cost ov es := by
  induction es with
  | nil => simp [cost, held]
  | cons e es ih => simp only [cost, held]; omega

theorem extract_spec (k : Key) (es : List Entry) (e : Entry) (rest : List Entry)
    (h : extract k es = some (e, rest)) :
    e.key = k ∧ (∀ ov, cost ov es = ((e.cap + ov : Nat) : Int) + cost ov rest) ∧
      (∀ x, x ∈ es ↔ x = e ∨ x ∈ rest) := by
  induction es generalizing rest with
  | nil => simp [extract] at h
  | cons a as ih =>
    simp only [extract] at h
    by_cases hk : (a.key == k) = true
    · simp only [hk, if_true, Option.some.injEq, Prod.mk.injEq] at h
      obtain ⟨rfl, rfl⟩ := h
      exact ⟨by simpa using hk, fun ov => by simp [cost], fun x => by simp⟩
    · simp only [hk] at h
      cases hx : extract k as with
      | none => simp [hx] at h
      | some p =>
        obtain ⟨x, r⟩ := p
        simp only [hx, Option.some.injEq, Prod.mk.injEq] at h
        obtain ⟨rfl, rfl⟩ := h
        have ⟨h1, h2, h3⟩ := ih r hx
        refine ⟨h1, fun ov => ?_, fun y => ?_⟩
        · simp only [cost, h2 ov]; omega
        · simp only [List.mem_cons, h3 y]
          constructor
          · rintro (h | h | h)
            · exact Or.inr (Or.inl h)
            · exact Or.inl h
            · exact Or.inr (Or.inr h)
          · rintro (h | h | h)
            · exact Or.inr (Or.inl h)
            · exact Or.inl h
            · exact Or.inr (Or.inr h)

theorem extract_none (k : Key) (es : List Entry) :
    extract k es = none ↔ ∀ e ∈ es, e.key ≠ k := by
  induction es with
  | nil => simp [extract]
  | cons a as ih =>
    simp only [extract, List.mem_cons, forall_eq_or_imp]
    by_cases hk : a.key = k
    · simp [hk]
    · have hk' : (a.key == k) = false := by simpa using hk
      simp only [hk', Bool.false_eq_true, if_false]
      cases hx : extract k as with
      | none => exact ⟨fun _ => ⟨hk, ih.mp hx⟩, fun _ => rfl⟩
      | some p =>
        obtain ⟨x, r⟩ := p
        refine ⟨fun h => ?_, fun h => ?_⟩
        · cases h
        · have := ih.mpr h.2
          rw [hx] at this; cases this

/-- the eviction loop of `add`: what it does when it terminates -/
theorem evictLoop_spec (ov : Nat) (sz : Int) (es : List Entry) (free : Int) (es' : List Entry) (free' : Int)
    (h : evictLoop ov sz es free = some (es', free')) :
    free' + cost ov es' = free + cost ov es ∧ sz ≤ free' ∧ free ≤ free' ∧ ∃ pre, es = pre ++ es' := by
  induction es generalizing free with
  | nil =>
    simp only [evictLoop] at h
    by_cases hs : sz > free
    · simp [hs] at h
    · simp only [hs, if_false, Option.some.injEq, Prod.mk.injEq] at h
      obtain ⟨rfl, rfl⟩ := h
      exact ⟨rfl, by omega, Int.le_refl _, [], rfl⟩
  | cons e rest ih =>
    simp only [evictLoop] at h
    by_cases hs : sz > free
    · simp only [hs, if_true] at h
      have ⟨h1, h2, h3, pre, h4⟩ := ih _ h
      refine ⟨?_, h2, by omega, e :: pre, by simp [h4]⟩
      simp only [cost]; omega
    · simp only [hs, if_false, Option.some.injEq, Prod.mk.injEq] at h
      obtain ⟨rfl, rfl⟩ := h
      exact ⟨rfl, by omega, Int.le_refl _, [], rfl⟩

/-- **evict_terminates**: the loop `for size > c.free { RemoveOldest }` never spins on an empty
    LRU as long as the requested size fits into `free +` what the entries account for. -/
theorem evictLoop_terminates (ov : Nat) (sz : Int) (es : List Entry) (free : Int)
    (h : sz ≤ free + cost ov es) : ∃ r, evictLoop ov sz es free = some r := by
  induction es generalizing free with
  | nil =>
    simp only [cost] at h
    have : ¬ sz > free := by omega
    exact ⟨([], free), by simp only [evictLoop, this, if_false]⟩
  | cons e rest ih =>
    simp only [evictLoop]
    by_cases hs : sz > free
    · simp only [hs, if_true]
      apply ih
      simp only [cost] at h; omega
    · exact ⟨(e :: rest, free), by simp only [hs, if_false]⟩

/-! ### the budget invariant -/

/-- `free ≥ 0 ∧ free + Σ(cap + overhead) = size` -/
def Inv (c : Cache) : Prop := 0 ≤ c.free ∧ c.free + cost c.overhead c.entries = c.size

theorem inv_budgetOK (c : Cache) (h : Inv c) : budgetOK c = true := by
  have h1 := held_le_cost c.overhead c.entries
  have h2 := h.1
  have h3 := h.2
  simp only [budgetOK, Bool.and_eq_true, decide_eq_true_eq]
  exact ⟨⟨h2, h3⟩, by omega⟩

/-- the bytes of blob data held never exceed the configured size -/
theorem inv_held_le_size (c : Cache) (h : Inv c) : held c.entries ≤ c.size := by
  have h1 := held_le_cost c.overhead c.entries
  have := h.1; have := h.2; omega

theorem new_inv (ov : Nat) (size : Int) (c : Cache) (h : new ov size = .ok c) :
    Inv c ∧ c.size = size ∧ c.overhead = ov ∧ c.entries = [] := by
  simp only [new] at h
  split at h
  · cases h
  · injection h with h; subst h
    refine ⟨⟨?_, by simp [cost]⟩, rfl, rfl, rfl⟩
    rename_i hm
    show 0 ≤ size
    by_cases hneg : size < 0
    · exfalso; apply hm
      have : Int.tdiv size ov ≤ 0 := by
        have h1 : size.tdiv (ov : Int) = -((-size).tdiv (ov : Int)) := by
          rw [Int.neg_tdiv, Int.neg_neg]
        rw [h1]
        have : 0 ≤ (-size).tdiv (ov : Int) := Int.tdiv_nonneg (by omega) (by omega)
        omega
      exact this
    · omega

theorem cacheGet_spec (c : Cache) (k : Key) :
    let r := cacheGet c k
    (Inv c → Inv r.2) ∧ r.2.size = c.size ∧ r.2.overhead = c.overhead ∧ r.2.maxEntries = c.maxEntries ∧
    (∀ e, e ∈ r.2.entries ↔ e ∈ c.entries) ∧
    (∀ v, r.1 = some v → ∃ e ∈ c.entries, e.key = k ∧ e.val = v) ∧
    (r.1 = none → r.2 = c ∧ ∀ e ∈ c.entries, e.key ≠ k) := by
  simp only [cacheGet, lruGet]
  cases hx : extract k c.entries with
  | none =>
    exact ⟨id, rfl, rfl, rfl, fun _ => Iff.rfl, fun v h => by simp at h,
      fun _ => ⟨rfl, (extract_none k c.entries).mp hx⟩⟩
  | some p =>
    obtain ⟨e, rest⟩ := p
    have ⟨h1, h2, h3⟩ := extract_spec k c.entries e rest hx
    refine ⟨?_, rfl, rfl, rfl, ?_, ?_, ?_⟩
    · intro hi
      refine ⟨hi.1, ?_⟩
      show c.free + cost c.overhead (rest ++ [e]) = c.size
      have := hi.2
      rw [cost_append, h2 c.overhead] at *
      simp only [cost] at *; omega
    · intro x
      show x ∈ rest ++ [e] ↔ x ∈ c.entries
      rw [h3 x]; simp [or_comm]
    · intro v hv
      have hv' : e.val = v := by simpa using hv
      exact ⟨e, (h3 e).mpr (Or.inl rfl), h1, hv'⟩
    · intro h; simp at h

/-- `Cache.add` keeps the budget invariant, never spins, and only ever inserts the given entry. -/
theorem add_spec (c : Cache) (k : Key) (v : Val) (cap : Nat) (hi : Inv c) :
    ∃ c', cacheAdd c k v cap = .done c' ∧ Inv c' ∧ c'.size = c.size ∧ c'.overhead = c.overhead ∧
      c'.maxEntries = c.maxEntries ∧ (∀ e ∈ c'.entries, e ∈ c.entries ∨ e = ⟨k, v, cap⟩) := by
  unfold cacheAdd
  by_cases hbig : (((cap + c.overhead : Nat) : Int)) > c.size
  · simp only [hbig, if_true]
    exact ⟨c, rfl, hi, rfl, rfl, rfl, fun e he => Or.inl he⟩
  simp only [hbig, if_false]
  by_cases hc : contains c k = true
  · simp only [hc, if_true]
    exact ⟨c, rfl, hi, rfl, rfl, rfl, fun e he => Or.inl he⟩
  simp only [hc]
  have hfit : ((cap + c.overhead : Nat) : Int) ≤ c.free + cost c.overhead c.entries := by
    have := hi.2; omega
  obtain ⟨⟨es, free⟩, hev⟩ := evictLoop_terminates c.overhead _ c.entries c.free hfit
  have ⟨h1, h2, h3, pre, h4⟩ := evictLoop_spec _ _ _ _ _ _ hev
  simp only [hev]
  -- `k` is not among the remaining entries
  have hnk : ∀ e ∈ es, e.key ≠ k := by
    intro e he hek
    apply hc
    simp only [contains, List.any_eq_true, beq_iff_eq]
    exact ⟨e, by rw [h4]; exact List.mem_append_right _ he, hek⟩
  have hxn : extract k es = none := (extract_none k es).mpr hnk
  have hsub : ∀ e ∈ es, e ∈ c.entries := fun e he => by rw [h4]; exact List.mem_append_right _ he
  simp only [lruAdd, hxn]
  by_cases hlen : (es ++ [(⟨k, v, cap⟩ : Entry)]).length > c.maxEntries
  · simp only [hlen, if_true]
    cases hes : es ++ [(⟨k, v, cap⟩ : Entry)] with
    | nil => simp at hes
    | cons o rest =>
      simp only [evict]
      have hcost : cost c.overhead (o :: rest) = cost c.overhead es + ((cap + c.overhead : Nat) : Int) := by
        rw [← hes, cost_append]; simp [cost]
      simp only [cost] at hcost
      refine ⟨_, rfl, ⟨?_, ?_⟩, rfl, rfl, rfl, ?_⟩
      · show 0 ≤ free + ((o.cap + c.overhead : Nat) : Int) - ((cap + c.overhead : Nat) : Int)
        omega
      · show free + ((o.cap + c.overhead : Nat) : Int) - ((cap + c.overhead : Nat) : Int) + cost c.overhead rest = c.size
        have := hi.2; omega
      · intro e he
        have : e ∈ es ++ [(⟨k, v, cap⟩ : Entry)] := by rw [hes]; exact List.mem_cons_of_mem _ he
        rcases List.mem_append.mp this with h | h
        · exact Or.inl (hsub e h)
        · exact Or.inr (by simpa using h)
  · simp only [hlen, if_false]
    refine ⟨_, rfl, ⟨?_, ?_⟩, rfl, rfl, rfl, ?_⟩
    · show 0 ≤ free - ((cap + c.overhead : Nat) : Int)
      omega
    · show free - ((cap + c.overhead : Nat) : Int) + cost c.overhead (es ++ [(⟨k, v, cap⟩ : Entry)]) = c.size
      rw [cost_append]; simp only [cost]
      have := hi.2; omega
    · intro e he
      rcases List.mem_append.mp he with h | h
      · exact Or.inl (hsub e h)
      · exact Or.inr (by simpa using h)

/-- the LRU's own capacity bound (`maxEntries = size / overhead`) can never be the reason for an
    eviction: with `overhead > 0` the byte budget already implies `#entries ≤ size / overhead`. -/
theorem entries_le_maxEntries (c : Cache) (hi : Inv c) :
    (c.entries.length : Int) * c.overhead ≤ c.size := by
  have hlen : ∀ es : List Entry, (es.length : Int) * c.overhead ≤ cost c.overhead es := by
    intro es
    induction es with
    | nil => simp [cost]
    | cons e es ih =>
      simp only [List.length_cons, cost]
      have : ((es.length + 1 : Nat) : Int) * (c.overhead : Int) = (es.length : Int) * c.overhead + c.overhead := by
        rw [Int.natCast_add, Int.add_mul]; simp
      omega
  have := hlen c.entries; have := hi.1; have := hi.2; omega

/-! ### all interleavings of concurrent `GetOrCompute` calls -/

/-- what a result must satisfy (Prop version of `resultOK`) -/
def ResOK (produced : List (Key × Val)) (th : Thread) : Res → Prop
  | .ok v => (th.key, v) ∈ produced
  | .err => th.ownFailed = true

def ThreadOK (s : Sys) (th : Thread) : Prop :=
  match th.pc with
  | .adding _ v _ => (th.key, v) ∈ s.produced
  | .cleanupDelete r => ResOK s.produced th r
  | .cleanupClose r => ResOK s.produced th r
  | .done r => ResOK s.produced th r
  | .hung => False
  | _ => True

/-- system invariant: budget; every cached value was produced by a compute for its key; every
    pending or returned result is justified; nobody is stuck in the eviction loop -/
def SysInv (s : Sys) : Prop :=
  Inv s.cache ∧ (∀ e ∈ s.cache.entries, (e.key, e.val) ∈ s.produced) ∧ ∀ th ∈ s.threads, ThreadOK s th

theorem resOK_mono {p q : List (Key × Val)} (hpq : ∀ x ∈ p, x ∈ q) (th : Thread) (r : Res)
    (h : ResOK p th r) : ResOK q th r := by
  cases r with
  | ok v => exact hpq _ h
  | err => exact h

theorem threadOK_mono (s s' : Sys) (hpq : ∀ x ∈ s.produced, x ∈ s'.produced) (th : Thread)
    (h : ThreadOK s th) : ThreadOK s' th := by
  unfold ThreadOK at *
  cases hpc : th.pc <;> simp only [hpc] at h ⊢
  all_goals first | exact hpq _ h | exact resOK_mono hpq th _ h | exact h

theorem finishPC_ok (s : Sys) (th : Thread) (ow : Bool) (r : Res) (pcv : PC) (hpc : pcv = finishPC ow r)
    (th' : Thread) (hk : th'.key = th.key) (hf : th'.ownFailed = th.ownFailed ∨ (r = .err ∧ th'.ownFailed = true))
    (hp : th'.pc = pcv) (hr : ResOK s.produced th r ∨ (r = .err ∧ th'.ownFailed = true)) : ThreadOK s th' := by
  have key : ResOK s.produced th' r := by
    rcases hr with hr | ⟨rfl, hr⟩
    · cases r with
      | ok v => simp only [ResOK, hk] at *; exact hr
      | err =>
        rcases hf with hf | ⟨_, hf⟩
        · simp only [ResOK] at *; rw [hf]; exact hr
        · exact hf
    · exact hr
  unfold ThreadOK
  subst hpc
  cases ow <;> simp only [hp, finishPC, Bool.false_eq_true, if_false, if_true] <;> exact key

/-- what one atomic step guarantees -/
def StepOK (s : Sys) (th : Thread) (r : Sys × Thread) : Prop :=
  Inv r.1.cache ∧ (∀ e ∈ r.1.cache.entries, (e.key, e.val) ∈ r.1.produced) ∧
    (∀ x ∈ s.produced, x ∈ r.1.produced) ∧ r.1.threads = s.threads ∧ ThreadOK r.1 r.2 ∧ r.2.key = th.key ∧
    r.1.cache.size = s.cache.size ∧ r.1.cache.overhead = s.cache.overhead

/-- one atomic step of any thread preserves the system invariant -/
theorem stepThread_inv (s : Sys) (t : Nat) (th : Thread) (o : Oracle) (hs : SysInv s) (hth : ThreadOK s th) :
    StepOK s th (stepThread s t th o) := by
  obtain ⟨hinv, hent, _⟩ := hs
  have hg := cacheGet_spec s.cache th.key
  simp only at hg
  obtain ⟨hg1, hgs, hgo, _, hg5, hg6, _⟩ := hg
  unfold stepThread
  split
  · -- start
    split
    · rename_i v c heq
      rw [heq] at hg1 hg5 hg6 hgs hgo
      exact ⟨hg1 hinv, fun e he => hent e ((hg5 e).mp he), fun x hx => hx, rfl, by
        obtain ⟨e, he, hk, hv⟩ := hg6 v rfl
        have := hent e he
        rw [hk, hv] at this; exact this, rfl, hgs, hgo⟩
    · rename_i c heq
      rw [heq] at hg1 hg5 hgs hgo
      exact ⟨hg1 hinv, fun e he => hent e ((hg5 e).mp he), fun x hx => hx, rfl, trivial, rfl, hgs, hgo⟩
  · -- checkProgress
    split
    · exact ⟨hinv, hent, fun x hx => hx, rfl, trivial, rfl, rfl, rfl⟩
    · exact ⟨hinv, hent, fun x hx => hx, rfl, trivial, rfl, rfl, rfl⟩
  · -- waiting
    split
    · exact ⟨hinv, hent, fun x hx => hx, rfl, trivial, rfl, rfl, rfl⟩
    · exact ⟨hinv, hent, fun x hx => hx, rfl, hth, rfl, rfl, rfl⟩
  · -- secondGet
    rename_i ow hpc
    split
    · rename_i v c heq
      rw [heq] at hg1 hg5 hg6 hgs hgo
      refine ⟨hg1 hinv, fun e he => hent e ((hg5 e).mp he), fun x hx => hx, rfl, ?_, rfl, hgs, hgo⟩
      obtain ⟨e, he, hk, hv⟩ := hg6 v rfl
      have hm := hent e he
      rw [hk, hv] at hm
      exact finishPC_ok _ th ow (.ok v) _ rfl _ rfl (Or.inl rfl) rfl (Or.inl hm)
    · rename_i c heq
      rw [heq] at hg1 hg5 hgs hgo
      exact ⟨hg1 hinv, fun e he => hent e ((hg5 e).mp he), fun x hx => hx, rfl, trivial, rfl, hgs, hgo⟩
  · -- computing
    rename_i ow hpc
    split
    · exact ⟨hinv, fun e he => List.mem_cons_of_mem _ (hent e he), fun x hx => List.mem_cons_of_mem _ hx, rfl,
        List.mem_cons_self, rfl, rfl, rfl⟩
    · refine ⟨hinv, hent, fun x hx => hx, rfl, ?_, rfl, rfl, rfl⟩
      exact finishPC_ok _ th ow .err _ rfl _ rfl (Or.inr ⟨rfl, rfl⟩) rfl (Or.inr ⟨rfl, rfl⟩)
  · -- adding
    rename_i ow v cap hpc
    obtain ⟨c', hadd, hinv', hsz, hov, _, hmem⟩ := add_spec s.cache th.key v cap hinv
    have hprod : (th.key, v) ∈ s.produced := by
      simpa [ThreadOK, hpc] using hth
    split
    · rename_i heq; rw [hadd] at heq; cases heq
    · rename_i c heq
      rw [hadd] at heq
      injection heq with heq
      subst heq
      refine ⟨hinv', ?_, fun x hx => hx, rfl, ?_, rfl, hsz, hov⟩
      · intro e he
        rcases hmem e he with h | h
        · exact hent e h
        · subst h; exact hprod
      · exact finishPC_ok _ th ow (.ok v) _ rfl _ rfl (Or.inl rfl) rfl (Or.inl hprod)
  · -- cleanupDelete
    rename_i r hpc
    have hr : ResOK s.produced th r := by simpa [ThreadOK, hpc] using hth
    refine ⟨hinv, hent, fun x hx => hx, rfl, ?_, rfl, rfl, rfl⟩
    cases r <;> exact hr
  · -- cleanupClose
    rename_i r hpc
    have hr : ResOK s.produced th r := by simpa [ThreadOK, hpc] using hth
    refine ⟨hinv, hent, fun x hx => hx, rfl, ?_, rfl, rfl, rfl⟩
    cases r <;> exact hr
  · exact ⟨hinv, hent, fun x hx => hx, rfl, hth, rfl, rfl, rfl⟩
  · exact ⟨hinv, hent, fun x hx => hx, rfl, hth, rfl, rfl, rfl⟩

theorem act_inv (s : Sys) (a : Action) (hs : SysInv s) :
    SysInv (act s a) ∧ ∀ x ∈ s.produced, x ∈ (act s a).produced := by
  cases a with
  | spawn k =>
    refine ⟨⟨hs.1, hs.2.1, ?_⟩, fun x hx => hx⟩
    intro th hth
    simp only [act] at hth
    rcases List.mem_append.mp hth with h | h
    · exact threadOK_mono s _ (fun x hx => hx) th (hs.2.2 th h)
    · have : th = { key := k, pc := .start } := by simpa using h
      subst this; simp [ThreadOK]
  | step t o =>
    simp only [act]
    cases hth : s.threads[t]? with
    | none => exact ⟨hs, fun x hx => hx⟩
    | some th =>
      have hmem : th ∈ s.threads := List.mem_of_getElem? hth
      have ⟨h1, h2, h3, h4, h5, _, _, _⟩ := stepThread_inv s t th o hs (hs.2.2 th hmem)
      refine ⟨⟨h1, h2, ?_⟩, h3⟩
      intro th' hth'
      simp only at hth'
      rcases List.mem_or_eq_of_mem_set hth' with h | h
      · rw [h4] at h
        exact threadOK_mono s _ h3 th' (hs.2.2 th' h)
      · subst h; exact h5

theorem run_inv (s : Sys) (acts : List Action) (hs : SysInv s) : SysInv (run s acts) := by
  induction acts generalizing s with
  | nil => exact hs
  | cons a as ih => exact ih _ (act_inv s a hs).1

theorem init_inv (c : Cache) (h : Inv c) (he : c.entries = []) : SysInv (initSys c) :=
  ⟨h, by simp [initSys, he], by simp [initSys]⟩

/-! ### The property theorems -/

/-- **budget** (T1: the `overhead` constant is the one regenerated from cache.go). For every
    cache size accepted by `New`, every set of concurrent callers and every interleaving of their
    atomic steps with arbitrary compute results: `free ≥ 0`, `free + Σ(cap+overhead) = size`, and
    the blob bytes held are at most the configured size. -/
theorem budget (size : Int) (c : Cache) (acts : List Action)
    (hnew : new Restic.Gen.bloblru_overhead size = .ok c) :
    let s := run (initSys c) acts
    0 ≤ s.cache.free ∧ s.cache.free + cost Restic.Gen.bloblru_overhead s.cache.entries = size ∧
      held s.cache.entries ≤ size ∧ budgetOK s.cache = true := by
  have ⟨hi, hsz, hov, he⟩ := new_inv _ _ _ hnew
  have hrun := run_inv (initSys c) acts (init_inv c hi he)
  -- size and overhead never change
  have hconst : ∀ (acts : List Action) (s : Sys), SysInv s →
      (run s acts).cache.size = s.cache.size ∧ (run s acts).cache.overhead = s.cache.overhead := by
    intro acts
    induction acts with
    | nil => intro s _; exact ⟨rfl, rfl⟩
    | cons a as ih =>
      intro s hs
      have h1 := ih (act s a) (act_inv s a hs).1
      have h2 : (act s a).cache.size = s.cache.size ∧ (act s a).cache.overhead = s.cache.overhead := by
        cases a with
        | spawn k => exact ⟨rfl, rfl⟩
        | step t o =>
          simp only [act]
          cases hth : s.threads[t]? with
          | none => exact ⟨rfl, rfl⟩
          | some th =>
            have hmem : th ∈ s.threads := List.mem_of_getElem? hth
            have ⟨_, _, _, _, _, _, h7, h8⟩ := stepThread_inv s t th o hs (hs.2.2 th hmem)
            exact ⟨h7, h8⟩
      exact ⟨h1.1.trans h2.1, h1.2.trans h2.2⟩
  have ⟨hs1', hs2'⟩ := hconst acts (initSys c) (init_inv c hi he)
  have hs1 : (run (initSys c) acts).cache.size = c.size := hs1'
  have hs2 : (run (initSys c) acts).cache.overhead = c.overhead := hs2'
  have hI := hrun.1
  refine ⟨hI.1, ?_, ?_, inv_budgetOK _ hI⟩
  · have := hI.2; rw [hs2, hov, hs1, hsz] at this; exact this
  · have := inv_held_le_size _ hI; rw [hs1, hsz] at this; exact this

/-- **evict_terminates**: in no reachable state is a caller stuck in `add`'s eviction loop. -/
theorem evict_terminates (size : Int) (c : Cache) (acts : List Action)
    (hnew : new Restic.Gen.bloblru_overhead size = .ok c) :
    ∀ th ∈ (run (initSys c) acts).threads, th.pc ≠ .hung := by
  have ⟨hi, _, _, he⟩ := new_inv _ _ _ hnew
  have hrun := run_inv (initSys c) acts (init_inv c hi he)
  intro th hth hp
  have := hrun.2.2 th hth
  simp [ThreadOK, hp] at this

/-- **value_correct**: whatever the interleaving, a call `GetOrCompute(k, f)` that has returned
    (or is about to return) `ok v` returns a value some `compute()` *for the same key `k`* has
    produced (its own or an earlier one); an error is returned only to a caller whose own
    `compute()` failed. Every value sitting in the cache is such a produced value too. -/
theorem value_correct (size : Int) (c : Cache) (acts : List Action)
    (hnew : new Restic.Gen.bloblru_overhead size = .ok c) :
    let s := run (initSys c) acts
    (∀ th ∈ s.threads, ∀ r, th.pc = .done r → resultOK s.produced th r = true) ∧
    (∀ e ∈ s.cache.entries, (e.key, e.val) ∈ s.produced) := by
  have ⟨hi, _, _, he⟩ := new_inv _ _ _ hnew
  have hrun := run_inv (initSys c) acts (init_inv c hi he)
  refine ⟨?_, hrun.2.1⟩
  intro th hth r hp
  have := hrun.2.2 th hth
  simp only [ThreadOK, hp] at this
  cases r with
  | ok v => simpa [resultOK, ResOK] using this
  | err => simpa [resultOK, ResOK] using this

/-- every produced pair really is the result of a compute step of the schedule (or was there
    before): `produced` is not a loophole of `value_correct`. -/
theorem produced_from_compute (s : Sys) (acts : List Action) (k : Key) (v : Val)
    (h : (k, v) ∈ (run s acts).produced) :
    (k, v) ∈ s.produced ∨ ∃ t cap, Action.step t (.ok v cap) ∈ acts := by
  induction acts generalizing s with
  | nil => exact Or.inl h
  | cons a as ih =>
    rcases ih (act s a) h with h1 | ⟨t, cap, h1⟩
    · cases a with
      | spawn k' => exact Or.inl h1
      | step t o =>
        simp only [act] at h1
        cases hth : s.threads[t]? with
        | none => simp only [hth] at h1; exact Or.inl h1
        | some th =>
          simp only [hth] at h1
          unfold stepThread at h1
          split at h1
          · split at h1 <;> exact Or.inl h1
          · split at h1 <;> exact Or.inl h1
          · split at h1 <;> exact Or.inl h1
          · split at h1 <;> exact Or.inl h1
          · split at h1
            · rename_i v' cap'
              simp only [List.mem_cons, Prod.mk.injEq] at h1
              rcases h1 with ⟨_, rfl⟩ | h1
              · exact Or.inr ⟨t, cap', List.mem_cons_self⟩
              · exact Or.inl h1
            · exact Or.inl h1
          · split at h1 <;> exact Or.inl h1
          · exact Or.inl h1
          · exact Or.inl h1
          · exact Or.inl h1
          · exact Or.inl h1
    · exact Or.inr ⟨t, cap, List.mem_cons_of_mem _ h1⟩

/-- **failure_not_cached**: the step in which a `compute()` fails leaves the cache (entries,
    free) exactly as it was and makes the caller return the error. -/
theorem failure_not_cached (s : Sys) (t : Nat) (th : Thread) (ow : Bool)
    (hth : s.threads[t]? = some th) (hpc : th.pc = .computing ow) :
    (act s (.step t .fail)).cache = s.cache ∧
      (act s (.step t .fail)).threads[t]? = some { th with pc := finishPC ow .err, ownFailed := true } := by
  have hlt : t < s.threads.length := by
    rcases List.getElem?_eq_some_iff.mp hth with ⟨h, _⟩; exact h
  have hstep : stepThread s t th .fail = (s, { th with pc := finishPC ow .err, ownFailed := true }) := by
    simp only [stepThread, hpc]
  have hact : act s (.step t .fail) = { s with threads := s.threads.set t { th with pc := finishPC ow .err, ownFailed := true } } := by
    simp only [act, hth, hstep]
  rw [hact]
  exact ⟨rfl, by simp [List.getElem?_set, hlt]⟩

/-- T1: the constant the accounting depends on is positive in the current source, so `New`
    accepts every size ≥ overhead and rejects (panics on) smaller ones. -/
theorem new_accepts_iff (size : Int) :
    (∃ c, new Restic.Gen.bloblru_overhead size = .ok c) ↔ (Restic.Gen.bloblru_overhead : Int) ≤ size := by
  have hpos : (0 : Int) < (Restic.Gen.bloblru_overhead : Int) := by decide
  simp only [new]
  constructor
  · rintro ⟨c, h⟩
    split at h
    · cases h
    · rename_i hm
      by_cases hlt : size < (Restic.Gen.bloblru_overhead : Int)
      · exfalso; apply hm
        by_cases hneg : size < 0
        · have h1 : size.tdiv (Restic.Gen.bloblru_overhead : Int) = -((-size).tdiv (Restic.Gen.bloblru_overhead : Int)) := by
            rw [Int.neg_tdiv, Int.neg_neg]
          have : 0 ≤ (-size).tdiv (Restic.Gen.bloblru_overhead : Int) := Int.tdiv_nonneg (by omega) (by omega)
          omega
        · have : size.tdiv (Restic.Gen.bloblru_overhead : Int) = 0 := Int.tdiv_eq_zero_of_lt (by omega) hlt
          omega
      · omega
  · intro h
    have : ¬ size.tdiv (Restic.Gen.bloblru_overhead : Int) ≤ 0 := by
      have h0 : 0 ≤ size := by omega
      rw [Int.tdiv_eq_ediv_of_nonneg h0]
      have h1 : 1 ≤ size / (Restic.Gen.bloblru_overhead : Int) := by
        apply Int.le_ediv_of_mul_le hpos; omega
      omega
    simp only [this, if_false]
    exact ⟨_, rfl⟩

/-! ### Non-vacuity: concrete runs (cache of 400 bytes, overhead 96) -/

private def c0 : Cache := { entries := [], free := 400, size := 400, maxEntries := 4, overhead := 96 }

example : new 96 400 = .ok c0 := by decide
example : new 96 95 = .panic := by decide
private def addSeq (c : Cache) : List (Key × Val × Nat) → Option Cache
  | [] => some c
  | (k, v, cap) :: rest => match cacheAdd c k v cap with
    | .done c' => addSeq c' rest
    | .hang => none
/-- eviction pressure: the third blob evicts the oldest one; an oversize blob is not stored -/
example : (addSeq c0 [(1, 11, 50), (2, 22, 50), (3, 33, 50), (4, 44, 305)]).map
    (fun c => (c.entries.map (·.key), c.free)) = some ([2, 3], 108) := by decide
/-- two concurrent callers for the same key: the second waits, the first computes, both get 7 -/
example : ((run (initSys c0) [.spawn 5, .spawn 5, .step 0 .fail, .step 0 .fail, .step 1 .fail, .step 1 .fail,
    .step 0 .fail, .step 0 (.ok 7 10), .step 0 .fail, .step 0 .fail, .step 0 .fail,
    .step 1 .fail, .step 1 .fail]).threads.map (·.pc)) = [.done (.ok 7), .done (.ok 7)] := by decide
/-- a failing compute: the owner returns the error, the waiter computes on its own -/
example : ((run (initSys c0) [.spawn 5, .spawn 5, .step 0 .fail, .step 0 .fail, .step 1 .fail, .step 1 .fail,
    .step 0 .fail, .step 0 .fail, .step 0 .fail, .step 0 .fail,
    .step 1 .fail, .step 1 .fail, .step 1 (.ok 9 10), .step 1 .fail]).threads.map (·.pc))
    = [.done .err, .done (.ok 9)] := by decide

end Restic.Props.C47
