import Restic.Model.CheckSubset
import Restic.Gen.Consts
/-!
# C52 — check --read-data-subset n/t buckets partition all packs

Theorems about `Restic.Model.CheckSubset` (transcription of `selectPacksByBucket`, the n/t branch of
`checkFlags`, `selectRandomPacksByPercentage`, the size branch of `buildPacksFilter`).
-/
namespace Restic.Props.C52
open Restic.Model.CheckSubset Restic.Model.Strconv

/-! ### buckets -/

theorem wrap_sub_one (n : Nat) (h1 : 1 ≤ n) (h2 : n < two64) : (n + two64 - 1) % two64 = n - 1 := by
  unfold two64 at *; omega

/-- for an accepted pair the selection never panics and is a plain filter -/
theorem bucket_eq_filter (packs : List Pack) (n t : Nat) (hn : 1 ≤ n) (hnt : n ≤ t) (ht : t < two64) :
    selectPacksByBucket packs n t = .ok (packs.filter fun p => firstByte p % t == n - 1) := by
  unfold selectPacksByBucket
  have : ¬ (t = 0 ∧ packs ≠ []) := by omega
  simp only [this, if_false]
  rw [wrap_sub_one n hn (by omega)]

/-- the packs read for `n/t` (total function: `[]` on panic) -/
def sel (packs : List Pack) (t n : Nat) : List Pack :=
  match selectPacksByBucket packs n t with | .ok l => l | .panic => []

theorem mem_sel (packs : List Pack) (n t : Nat) (hn : 1 ≤ n) (hnt : n ≤ t) (ht : t < two64) (p : Pack) :
    p ∈ sel packs t n ↔ p ∈ packs ∧ firstByte p % t + 1 = n := by
  unfold sel
  rw [bucket_eq_filter packs n t hn hnt ht]
  simp only [List.mem_filter, beq_iff_eq]
  constructor
  · rintro ⟨h1, h2⟩; exact ⟨h1, by omega⟩
  · rintro ⟨h1, h2⟩; exact ⟨h1, by omega⟩

/-- **pairwise disjoint**: no pack is read for two different `n` -/
theorem buckets_disjoint (packs : List Pack) (t n n' : Nat) (ht : t < two64)
    (hn : 1 ≤ n) (hnt : n ≤ t) (hn' : 1 ≤ n') (hnt' : n' ≤ t) (hne : n ≠ n') (p : Pack)
    (h : p ∈ sel packs t n) : p ∉ sel packs t n' := by
  intro h'
  have := (mem_sel packs n t hn hnt ht p).mp h
  have := (mem_sel packs n' t hn' hnt' ht p).mp h'
  omega

/-- **cover**: every pack is read for some `n ∈ 1..t` -/
theorem buckets_cover (packs : List Pack) (t : Nat) (ht1 : 1 ≤ t) (ht : t < two64) (p : Pack) (hp : p ∈ packs) :
    ∃ n, 1 ≤ n ∧ n ≤ t ∧ p ∈ sel packs t n := by
  have hlt : firstByte p % t < t := Nat.mod_lt _ (by omega)
  refine ⟨firstByte p % t + 1, by omega, by omega, ?_⟩
  exact (mem_sel packs _ t (by omega) (by omega) ht p).mpr ⟨hp, rfl⟩

/-- every pack is read for exactly one `n ∈ 1..t` -/
theorem buckets_exactly_one (packs : List Pack) (t : Nat) (ht1 : 1 ≤ t) (ht : t < two64) (p : Pack) (hp : p ∈ packs) :
    ∃ n, (1 ≤ n ∧ n ≤ t ∧ p ∈ sel packs t n) ∧ ∀ m, 1 ≤ m → m ≤ t → p ∈ sel packs t m → m = n := by
  obtain ⟨n, h1, h2, h3⟩ := buckets_cover packs t ht1 ht p hp
  refine ⟨n, ⟨h1, h2, h3⟩, ?_⟩
  intro m hm1 hm2 hm3
  have := (mem_sel packs n t h1 h2 ht p).mp h3
  have := (mem_sel packs m t hm1 hm2 ht p).mp hm3
  omega

/-- selections contain only packs of the repository, each as often as the repository lists it -/
theorem sel_sublist (packs : List Pack) (t n : Nat) : (sel packs t n).Sublist packs := by
  unfold sel selectPacksByBucket
  split
  · rename_i l h
    split at h
    · cases h
    · injection h with h; subst h; exact List.filter_sublist
  · exact List.nil_sublist _

theorem sum_map_add_nat (f g : Nat → Nat) (l : List Nat) :
    (l.map fun i => f i + g i).sum = (l.map f).sum + (l.map g).sum := by
  induction l with
  | nil => rfl
  | cons a as ih => simp only [List.map_cons, List.sum_cons, ih]; omega

theorem sum_indicator (b t : Nat) :
    ((List.range t).map fun i => if b = i then 1 else 0).sum = if b < t then 1 else 0 := by
  induction t with
  | zero => rfl
  | succ t ih =>
    rw [List.range_succ, List.map_append, List.sum_append_nat, ih]
    simp only [List.map_cons, List.map_nil, List.sum_cons, List.sum_nil]
    by_cases h1 : b < t
    · have : b ≠ t := by omega
      simp only [h1, this, if_true, if_false]; split <;> omega
    · by_cases h2 : b = t
      · subst h2; simp
      · have : ¬ b < t + 1 := by omega
        simp [h1, h2, this]

/-- counting version of the partition: the bucket sizes add up to the number of packs -/
theorem buckets_count (packs : List Pack) (t : Nat) (ht1 : 1 ≤ t) (ht : t < two64) :
    ((List.range t).map fun i => (sel packs t (i + 1)).length).sum = packs.length := by
  have hsel : ∀ i ∈ List.range t, (sel packs t (i + 1)).length = packs.countP (fun p => firstByte p % t == i) := by
    intro i hi
    have hi' : i < t := List.mem_range.mp hi
    unfold sel
    rw [bucket_eq_filter packs (i + 1) t (by omega) (by omega) ht, List.countP_eq_length_filter]
    simp
  rw [List.map_congr_left hsel]
  clear hsel
  induction packs with
  | nil =>
    simp only [List.countP_nil, List.length_nil]
    rw [List.map_const', List.sum_replicate_nat]; omega
  | cons p ps ih =>
    have hlt : firstByte p % t < t := Nat.mod_lt _ (by omega)
    have hsplit : (List.map (fun i => List.countP (fun q => firstByte q % t == i) (p :: ps)) (List.range t)) =
        List.map (fun i => List.countP (fun q => firstByte q % t == i) ps + (if firstByte p % t = i then 1 else 0)) (List.range t) := by
      apply List.map_congr_left
      intro i _
      rw [List.countP_cons]
      simp only [beq_iff_eq]
    rw [hsplit, sum_map_add_nat, ih, sum_indicator]
    simp only [hlt, if_true, List.length_cons]

/-! ### the accepted range and the T1 constant -/

/-- `checkFlags` accepts `n/t` only inside `1 ≤ n ≤ t ≤ totalBucketsMax` -/
theorem accepted_range (M : Nat) (s : Str) (n t : Nat) (h : checkFlagsNT M s = .accept n t) :
    1 ≤ n ∧ n ≤ t ∧ t ≤ M := by
  unfold checkFlagsNT at h
  split at h
  · cases h
  · split at h
    · split at h
      · cases h
      · split at h
        · cases h
        · injection h with h1 h2; omega
    · cases h

/-- T1 (regenerated from the source on every run): with the current `totalBucketsMax`, every
    accepted `t` fits the one byte `selectPacksByBucket` looks at, so every bucket `n ∈ 1..t` can
    actually receive packs (first byte `n-1`) — an accepted `n/t` never names a vacuous bucket. -/
theorem every_accepted_bucket_reachable (n t : Nat) (hn : 1 ≤ n) (hnt : n ≤ t)
    (ht : t ≤ Restic.Gen.check_totalBucketsMax) : ∃ b, b < 256 ∧ b % t = n - 1 := by
  have hM : Restic.Gen.check_totalBucketsMax ≤ 256 := by decide
  exact ⟨n - 1, by omega, Nat.mod_eq_of_lt (by omega)⟩

/-- conversely, a bucket number above 256 could never receive a pack (why the bound exists) -/
theorem bucket_above_256_empty (packs : List Pack) (n t : Nat) (hn : 256 < n) (hnt : n ≤ t) (ht : t < two64) :
    sel packs t n = [] := by
  apply List.eq_nil_iff_forall_not_mem.mpr
  intro p hp
  have := (mem_sel packs n t (by omega) hnt ht p).mp hp
  have hb : firstByte p < 256 := by unfold firstByte; exact UInt8.toNat_lt _
  have : firstByte p % t ≤ firstByte p := Nat.mod_le _ _
  omega

/-- the whole bucket statement for any string `checkFlags` accepts, with the regenerated constant:
    no panic, pairwise disjoint, covering -/
theorem accepted_buckets_partition (s : Str) (n t : Nat)
    (h : checkFlagsNT Restic.Gen.check_totalBucketsMax s = .accept n t) (packs : List Pack) :
    (∃ l, selectPacksByBucket packs n t = .ok l) ∧
    ∀ p ∈ packs, ∃ m, (1 ≤ m ∧ m ≤ t ∧ p ∈ sel packs t m) ∧ ∀ m', 1 ≤ m' → m' ≤ t → p ∈ sel packs t m' → m' = m := by
  obtain ⟨h1, h2, h3⟩ := accepted_range _ s n t h
  have hM : Restic.Gen.check_totalBucketsMax < two64 := by decide
  have ht : t < two64 := by omega
  exact ⟨⟨_, bucket_eq_filter packs n t h1 h2 ht⟩, fun p hp => buckets_exactly_one packs t (by omega) ht p hp⟩

/-- the transcription meets the executable bucket specification the driver evaluates -/
theorem buckets_specOK (packs : List Pack) (t : Nat) (ht1 : 1 ≤ t) (ht : t < two64) :
    specBuckets packs t (sel packs t) = true := by
  unfold specBuckets
  simp only [Bool.and_eq_true, List.all_eq_true, beq_iff_eq, List.contains_iff_mem]
  constructor
  · intro p hp
    have hlt : firstByte p % t < t := Nat.mod_lt _ (by omega)
    have hfil : (List.range t).filter (fun i => (sel packs t (i + 1)).contains p) =
        (List.range t).filter (fun i => i == firstByte p % t) := by
      apply List.filter_congr
      intro i hi
      have hi' : i < t := List.mem_range.mp hi
      rw [Bool.eq_iff_iff]
      simp only [List.contains_iff_mem, beq_iff_eq]
      rw [mem_sel packs (i + 1) t (by omega) (by omega) ht p]
      constructor
      · rintro ⟨_, h⟩; omega
      · intro h; exact ⟨hp, by omega⟩
    rw [hfil]
    have hnd : (List.range t).Nodup := List.nodup_range
    have : (List.filter (fun i => i == firstByte p % t) (List.range t)).length = (List.range t).count (firstByte p % t) := by
      rw [List.count_eq_countP, List.countP_eq_length_filter]
    rw [this, hnd.count]
    simp [hlt]
  · intro i _ p hp
    exact (sel_sublist packs t (i + 1)).subset hp

/-! ### random subsets (percentage / size) -/

theorem pickAll_spec (keys : List Pack) (js : List Nat) (hb : ∀ j ∈ js, j < keys.length) :
    ∃ l, pickAll keys js = some l ∧ l.length = js.length ∧
      (∀ p ∈ l, ∃ j ∈ js, keys[j]? = some p) := by
  induction js with
  | nil => exact ⟨[], rfl, rfl, by simp⟩
  | cons j js ih =>
    have hj : j < keys.length := hb j (List.mem_cons_self ..)
    obtain ⟨l, hl, hlen, hmem⟩ := ih (fun x hx => hb x (List.mem_cons_of_mem _ hx))
    refine ⟨keys[j] :: l, ?_, by simp [hlen], ?_⟩
    · simp only [pickAll, List.getElem?_eq_getElem hj, hl]
    · intro p hp
      rcases List.mem_cons.mp hp with rfl | hp
      · exact ⟨j, List.mem_cons_self .., List.getElem?_eq_getElem hj⟩
      · obtain ⟨j', hj', hk⟩ := hmem p hp
        exact ⟨j', List.mem_cons_of_mem _ hj', hk⟩

theorem pickAll_nodup (keys : List Pack) (js : List Nat) (hk : keys.Nodup) (hjs : js.Nodup)
    (hb : ∀ j ∈ js, j < keys.length) (l : List Pack) (h : pickAll keys js = some l) : l.Nodup := by
  induction js generalizing l with
  | nil => simp [pickAll] at h; subst h; exact List.nodup_nil
  | cons j js ih =>
    have hj : j < keys.length := hb j (List.mem_cons_self ..)
    have hb' : ∀ x ∈ js, x < keys.length := fun x hx => hb x (List.mem_cons_of_mem _ hx)
    obtain ⟨l', hl', _, hmem⟩ := pickAll_spec keys js hb'
    simp only [pickAll, List.getElem?_eq_getElem hj, hl'] at h
    injection h with h; subst h
    have hjs' := List.nodup_cons.mp hjs
    refine List.nodup_cons.mpr ⟨?_, ih hjs'.2 hb' l' hl'⟩
    intro hin
    obtain ⟨j', hj', hk'⟩ := hmem _ hin
    have : j = j' := (List.getElem?_inj hj hk).mp (by rw [hk', List.getElem?_eq_getElem hj])
    exact hjs'.1 (this ▸ hj')

/-- length of the selection = the clamped count -/
theorem subset_length (keys : List Pack) (perm : List Nat) (k : Int) (l : List Pack)
    (hperm : perm.Perm (List.range keys.length))
    (h : selectRandomByK keys perm k = .ok l) : l.length = (packsToCheck keys.length k).toNat := by
  unfold selectRandomByK at h
  simp only at h
  split at h
  · cases h
  · rename_i hle
    have hb : ∀ j ∈ perm.take (packsToCheck keys.length k).toNat, j < keys.length := by
      intro j hj
      exact List.mem_range.mp (hperm.mem_iff.mp (List.mem_of_mem_take hj))
    obtain ⟨l', hl', hlen, _⟩ := pickAll_spec keys _ hb
    rw [hl'] at h
    injection h with h; subst h
    rw [hlen, List.length_take]; omega

/-- **at least one pack**: a percentage / size subset of a repository with packs is never empty -/
theorem subset_nonempty (keys : List Pack) (perm : List Nat) (k : Int) (l : List Pack)
    (hperm : perm.Perm (List.range keys.length)) (hne : keys ≠ [])
    (h : selectRandomByK keys perm k = .ok l) : 1 ≤ l.length := by
  rw [subset_length keys perm k l hperm h]
  have : 0 < keys.length := List.length_pos_iff.mpr hne
  unfold packsToCheck
  split <;> omega

/-- **in bounds**: when the float expression stays within the pack count (true for percentages up to
    100 by monotonicity of float rounding — assumed, validated in the correspondence run) the
    selection does not panic, has the clamped size, reads only packs of the repository and none twice -/
theorem subset_in_bounds (keys : List Pack) (perm : List Nat) (k : Int)
    (hperm : perm.Perm (List.range keys.length)) (hk : k ≤ keys.length) :
    ∃ l, selectRandomByK keys perm k = .ok l ∧ l.length = (packsToCheck keys.length k).toNat ∧
      (∀ p ∈ l, p ∈ keys) ∧ (keys.Nodup → l.Nodup) := by
  have hlen : perm.length = keys.length := by rw [hperm.length_eq, List.length_range]
  have hcnt : (packsToCheck keys.length k).toNat ≤ perm.length := by
    unfold packsToCheck; split <;> omega
  have hb : ∀ j ∈ perm.take (packsToCheck keys.length k).toNat, j < keys.length := by
    intro j hj
    exact List.mem_range.mp (hperm.mem_iff.mp (List.mem_of_mem_take hj))
  obtain ⟨l, hl, hll, hmem⟩ := pickAll_spec keys _ hb
  have hres : selectRandomByK keys perm k = .ok l := by
    unfold selectRandomByK
    simp only [Nat.not_lt.mpr hcnt, if_false, hl]
  refine ⟨l, hres, subset_length keys perm k l hperm hres, ?_, ?_⟩
  · intro p hp
    obtain ⟨j, _, hj⟩ := hmem p hp
    exact List.mem_of_getElem? hj
  · intro hnd
    have hpn : perm.Nodup := (hperm.nodup_iff).mpr List.nodup_range
    exact pickAll_nodup keys _ hnd ((List.take_sublist _ _).nodup hpn) hb l hl

/-- without the bound the code panics (index out of range): why percentages above 100 are rejected -/
theorem subset_panics_above (keys : List Pack) (perm : List Nat) (k : Int)
    (hperm : perm.Perm (List.range keys.length)) (hk : (keys.length : Int) < k) :
    selectRandomByK keys perm k = .panic := by
  have hlen : perm.length = keys.length := by rw [hperm.length_eq, List.length_range]
  unfold selectRandomByK
  have : (packsToCheck keys.length k).toNat > perm.length := by
    unfold packsToCheck; split <;> omega
  simp only [this, if_true]

theorem nodupB_of_nodup (l : List Pack) (h : l.Nodup) : nodupB l = true := by
  induction l with
  | nil => rfl
  | cons x xs ih =>
    have := List.nodup_cons.mp h
    simp only [nodupB, Bool.and_eq_true, Bool.not_eq_true', ih this.2, and_true]
    simpa using this.1

/-- the transcription meets the executable subset specification the driver evaluates -/
theorem subset_specOK (keys : List Pack) (perm : List Nat) (k : Int)
    (hperm : perm.Perm (List.range keys.length)) (hk : k ≤ keys.length) (hnd : keys.Nodup)
    (l : List Pack) (h : selectRandomByK keys perm k = .ok l) : specSubset keys l = true := by
  obtain ⟨l', hl', _, hmem, hn⟩ := subset_in_bounds keys perm k hperm hk
  rw [h] at hl'; injection hl' with hl'; subst hl'
  unfold specSubset
  simp only [Bool.and_eq_true, Bool.or_eq_true, List.isEmpty_iff, Bool.not_eq_true', List.all_eq_true,
    List.contains_iff_mem]
  refine ⟨⟨?_, hmem⟩, nodupB_of_nodup _ (hn hnd)⟩
  by_cases he : keys = []
  · exact Or.inl he
  · right
    have := subset_nonempty keys perm k l hperm he h
    cases l with
    | nil => simp at this
    | cons a as => rfl

/-- size subsets: with the float law `kOf sub repo ≤ packCount` for `sub ≤ repo` the size branch
    never panics and reads at least one pack of a repository with packs -/
theorem size_subset (keys : List Pack) (perm : List Nat) (subsetSize : Int) (kOf : Int → Int → Int)
    (hperm : perm.Perm (List.range keys.length))
    (hlaw : ∀ sub repo : Int, 0 < repo → sub ≤ repo → kOf sub repo ≤ keys.length) (hne : keys ≠ []) :
    ∃ l, selectBySize keys perm subsetSize kOf = .ok l ∧ 1 ≤ l.length ∧ ∀ p ∈ l, p ∈ keys := by
  unfold selectBySize
  simp only
  split
  · rename_i hpos
    have hk := hlaw (if subsetSize > (keys.map (·.size)).foldl (· + ·) 0 then (keys.map (·.size)).foldl (· + ·) 0 else subsetSize)
      ((keys.map (·.size)).foldl (· + ·) 0) hpos (by split <;> omega)
    obtain ⟨l, hl, _, hmem, _⟩ := subset_in_bounds keys perm _ hperm hk
    exact ⟨l, hl, subset_nonempty keys perm _ l hperm hne hl, hmem⟩
  · exact ⟨keys, rfl, List.length_pos_iff.mpr hne, fun _ h => h⟩

/-! ### Non-vacuity -/

def pk (b : UInt8) : Pack := { id := b :: List.replicate 31 7, size := 100 }
def demo : List Pack := [pk 0, pk 1, pk 2, pk 3, pk 255, pk 128]

example : selectPacksByBucket demo 1 3 = .ok [pk 0, pk 3, pk 255] := by decide
example : selectPacksByBucket demo 2 3 = .ok [pk 1] := by decide
example : selectPacksByBucket demo 3 3 = .ok [pk 2, pk 128] := by decide
example : selectPacksByBucket demo 1 0 = .panic := by decide
example : checkFlagsNT Restic.Gen.check_totalBucketsMax [51, 47, 55] = .accept 3 7 := by decide
example : checkFlagsNT Restic.Gen.check_totalBucketsMax [49, 47, 50, 53, 55] = .tTooLarge := by decide
example : checkFlagsNT Restic.Gen.check_totalBucketsMax [48, 47, 53] = .badRange := by decide
example : checkFlagsNT Restic.Gen.check_totalBucketsMax [53, 37] = .notIntSlice := by decide
example : selectRandomByK demo [3, 1, 0, 5, 4, 2] 0 = .ok [pk 3] := by decide
example : selectRandomByK demo [3, 1, 0, 5, 4, 2] 2 = .ok [pk 3, pk 1] := by decide
example : selectRandomByK demo [3, 1, 0, 5, 4, 2] 7 = .panic := by decide
example : [3, 1, 0, 5, 4, 2].Perm (List.range demo.length) := by decide

end Restic.Props.C52
