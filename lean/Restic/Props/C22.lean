import Restic.Model.Policy
/-!
# C22 — Retention policies keep exactly the documented snapshots

Theorems about `Restic.Model.Policy` (transcription of ApplyPolicy, findLatestTimestamp, the bucket
key functions). Plan: the stateful loop is decomposed into per-rule bucket states (`loop_flags`),
the bucket states after a prefix are put in closed form (`bucketAfter_closed`,
`wbucketAfter_closed`), which gives the position-wise "runs" form `keptRuns` of all rules; for
regular period keys (non-increasing, no sentinel) this is the documented "periods" form
`keptPeriods`. Main results: `applyPolicy_specOK`, `partition`, `reasons_aligned`, `keep_iff`,
`keep_iff_periods`, `keep_last`, `key_injective_*`, `monotone`, `findLatest_spec`.
-/
namespace Restic.Props.C22
open Restic.Model.Snapshots Restic.Model.Policy

/-! ## sorting -/

theorem insertNewest_perm (x : PSnap) (l : List PSnap) : (insertNewest x l).Perm (x :: l) := by
  induction l with
  | nil => simp [insertNewest]
  | cons y ys ih =>
    unfold insertNewest
    split
    · exact (List.Perm.cons y ih).trans (List.Perm.swap x y ys)
    · exact List.Perm.refl _

theorem sort_perm (l : List PSnap) : (sortNewestFirst l).Perm l := by
  induction l with
  | nil => exact List.Perm.refl _
  | cons x xs ih => exact (insertNewest_perm x _).trans (List.Perm.cons x ih)

/-- newest first -/
def Sorted (l : List PSnap) : Prop := l.Pairwise fun a b => a.time ≥ b.time

theorem insertNewest_sorted (x : PSnap) (l : List PSnap) (h : Sorted l) : Sorted (insertNewest x l) := by
  induction l with
  | nil => simp [insertNewest, Sorted]
  | cons y ys ih =>
    unfold insertNewest
    have hy := List.pairwise_cons.mp h
    split
    · rename_i hgt
      refine List.pairwise_cons.mpr ⟨?_, ih hy.2⟩
      intro z hz
      rcases List.mem_cons.mp ((insertNewest_perm x ys).mem_iff.mp hz) with hz | hz
      · subst hz; omega
      · exact hy.1 z hz
    · rename_i hgt
      refine List.pairwise_cons.mpr ⟨?_, h⟩
      intro z hz
      rcases List.mem_cons.mp hz with hz | hz
      · subst hz; omega
      · have := hy.1 z hz; omega

theorem sort_sorted (l : List PSnap) : Sorted (sortNewestFirst l) := by
  induction l with
  | nil => simp [sortNewestFirst, Sorted]
  | cons x xs ih => exact insertNewest_sorted x _ ih

/-- stability: snapshots with the same timestamp keep their input order -/
theorem insertNewest_filter (x : PSnap) (l : List PSnap) (t : Int) (h : Sorted l) :
    (insertNewest x l).filter (fun s => s.time = t) = (x :: l).filter (fun s => s.time = t) := by
  induction l with
  | nil => simp [insertNewest]
  | cons y ys ih =>
    unfold insertNewest
    have hy := List.pairwise_cons.mp h
    split
    · rename_i hgt
      by_cases hx : x.time = t
      · have hyt : ¬ y.time = t := by omega
        simp only [List.filter_cons, hyt, decide_false, hx, decide_true, if_true] at ih ⊢
        simpa [hx] using ih hy.2
      · have := ih hy.2
        simp only [List.filter_cons, hx, decide_false] at this ⊢
        simp [this]
    · rfl

theorem sort_stable (l : List PSnap) (t : Int) :
    (sortNewestFirst l).filter (fun s => s.time = t) = l.filter (fun s => s.time = t) := by
  induction l with
  | nil => rfl
  | cons x xs ih =>
    show (insertNewest x (sortNewestFirst xs)).filter _ = _
    rw [insertNewest_filter x _ t (sort_sorted xs)]
    simp [List.filter_cons, ih]

/-! ## structure of the loop -/

theorem loop_snaps (ctx : Ctx) (st : St) (nr : Nat) (l : List PSnap) :
    (loop ctx st nr l).map (·.snap) = l := by
  induction l generalizing st nr with
  | nil => rfl
  | cons s rest ih => simp [loop, stepSnap, ih]

theorem loop_keep_reasons (ctx : Ctx) (st : St) (nr : Nat) (l : List PSnap) :
    ∀ d ∈ loop ctx st nr l, d.keep = !d.reasons.isEmpty := by
  induction l generalizing st nr with
  | nil => simp [loop]
  | cons s rest ih =>
    intro d hd
    simp only [loop, List.mem_cons] at hd
    rcases hd with hd | hd
    · subst hd; rfl
    · exact ih _ _ d hd


/-! ## state after a prefix -/

/-- a counting bucket after the (non-last) snapshots `pre`, the first of them having index `nr` -/
def bucketAfter (b : Bucket) : Nat → List PSnap → Bucket
  | _, [] => b
  | nr, s :: pre => bucketAfter (stepBucket b s.civ nr false).1 (nr + 1) pre

def wbucketAfter (ctx : Ctx) (b : WBucket) : Nat → List PSnap → WBucket
  | _, [] => b
  | nr, s :: pre => wbucketAfter ctx (stepWBucket ctx b s nr false).1 (nr + 1) pre

theorem bucketAfter_snoc (b : Bucket) (nr : Nat) (pre : List PSnap) (s : PSnap) :
    bucketAfter b nr (pre ++ [s]) = (stepBucket (bucketAfter b nr pre) s.civ (nr + pre.length) false).1 := by
  induction pre generalizing b nr with
  | nil => simp [bucketAfter]
  | cons x xs ih =>
    simp only [List.cons_append, bucketAfter, List.length_cons]
    rw [ih]
    congr 2; omega

theorem wbucketAfter_snoc (ctx : Ctx) (b : WBucket) (nr : Nat) (pre : List PSnap) (s : PSnap) :
    wbucketAfter ctx b nr (pre ++ [s]) = (stepWBucket ctx (wbucketAfter ctx b nr pre) s (nr + pre.length) false).1 := by
  induction pre generalizing b nr with
  | nil => simp [wbucketAfter]
  | cons x xs ih =>
    simp only [List.cons_append, wbucketAfter, List.length_cons]
    rw [ih]
    congr 2; omega

/-- is the snapshot kept, in terms of the bucket states reached after `pre` -/
def keptState (ctx : Ctx) (pre : List PSnap) (s : PSnap) (isLast : Bool) : Bool :=
  tagRule ctx.p s || withinRule ctx s ||
  (initBuckets ctx.p).any (fun b => (stepBucket (bucketAfter b 0 pre) s.civ pre.length isLast).2.isSome) ||
  (initWBuckets ctx.p).any (fun b => (stepWBucket ctx (wbucketAfter ctx b 0 pre) s pre.length isLast).2.isSome)

theorem filterMap_isEmpty_any {α β} (l : List α) (f : α → Option β) :
    (l.filterMap f).isEmpty = !(l.any fun a => (f a).isSome) := by
  induction l with
  | nil => rfl
  | cons a as ih =>
    simp only [List.filterMap_cons, List.any_cons]
    cases h : f a with
    | none => simp [ih]
    | some b => simp

theorem tagHits_isEmpty (p : Policy) (s : PSnap) : (tagHits p s).isEmpty = !tagRule p s := by
  unfold tagHits tagRule
  rw [filterMap_isEmpty_any]
  congr 2
  funext l
  cases hasTags s.sn l <;> simp

theorem withinHit_isEmpty (ctx : Ctx) (s : PSnap) : (withinHit ctx s).isEmpty = !withinRule ctx s := by
  unfold withinHit withinRule
  cases h : (!ctx.p.within.zero && decide (s.time > ctx.sub ctx.latest ctx.p.within)) <;> simp

theorem stepSnap_keep (ctx : Ctx) (st : St) (nr : Nat) (isLast : Bool) (s : PSnap) :
    (stepSnap ctx st nr isLast s).2.keep =
      (tagRule ctx.p s || withinRule ctx s ||
       st.buckets.any (fun b => (stepBucket b s.civ nr isLast).2.isSome) ||
       st.wbuckets.any (fun b => (stepWBucket ctx b s nr isLast).2.isSome)) := by
  have app : ∀ (a b : List String), (a ++ b).isEmpty = (a.isEmpty && b.isEmpty) := by
    intro a b; cases a <;> simp
  simp only [stepSnap, app, tagHits_isEmpty, withinHit_isEmpty, filterMap_isEmpty_any,
    List.any_map, Function.comp_def]
  cases tagRule ctx.p s <;> cases withinRule ctx s <;> simp

/-- **decomposition**: the keep flags of the loop are, position by position, the disjunction of the
    rules evaluated in the bucket states that the snapshots before that position produce -/
theorem loop_flags (ctx : Ctx) (l pre : List PSnap) (st : St)
    (hb : st.buckets = (initBuckets ctx.p).map (fun b => bucketAfter b 0 pre))
    (hw : st.wbuckets = (initWBuckets ctx.p).map (fun b => wbucketAfter ctx b 0 pre)) :
    (loop ctx st pre.length l).map (·.keep) = flagsFrom (keptState ctx) pre l := by
  induction l generalizing pre st with
  | nil => rfl
  | cons s rest ih =>
    simp only [loop, List.map_cons, flagsFrom]
    congr 1
    · rw [stepSnap_keep, hb, hw]
      simp [keptState, List.any_map, Function.comp_def]
    · cases rest with
      | nil => rfl
      | cons r rs =>
        have := ih (pre ++ [s]) (stepSnap ctx st pre.length false s).1 ?_ ?_
        · simpa using this
        · simp only [stepSnap, hb, List.map_map]
          apply List.map_congr_left
          intro b _
          simp [bucketAfter_snoc, Function.comp_def]
        · simp only [stepSnap, hw, List.map_map]
          apply List.map_congr_left
          intro b _
          simp [wbucketAfter_snoc, Function.comp_def]


/-! ## closed forms of the bucket states -/

theorem bucketAfter_closed (k : Kind) (pre : List PSnap) (c l : Int) (nr : Nat) :
    (bucketAfter ⟨k, c, l⟩ nr pre).kind = k ∧
    (((bucketAfter ⟨k, c, l⟩ nr pre).count > 0 ∨ (bucketAfter ⟨k, c, l⟩ nr pre).count = -1) ↔
        (c = -1 ∨ (runHeads l (keysOf k nr pre) : Int) < c)) ∧
    (((bucketAfter ⟨k, c, l⟩ nr pre).count > 0 ∨ (bucketAfter ⟨k, c, l⟩ nr pre).count = -1) →
        (bucketAfter ⟨k, c, l⟩ nr pre).last = lastOr l (keysOf k nr pre)) := by
  induction pre generalizing c l nr with
  | nil =>
    simp only [bucketAfter, keysOf, runHeads, lastOr]
    refine ⟨trivial, ?_, fun _ => trivial⟩
    constructor
    · rintro (h | h)
      · exact Or.inr (by simpa using h)
      · exact Or.inl h
    · rintro (h | h)
      · exact Or.inr h
      · exact Or.inl (by simpa using h)
  | cons s pre ih =>
    simp only [bucketAfter, keysOf, runHeads, lastOr]
    by_cases hact : c > 0 ∨ c = -1
    · by_cases hval : bucketKey k s.civ nr = l
      · have e : (stepBucket ⟨k, c, l⟩ s.civ nr false).1 = ⟨k, c, l⟩ := by
          simp [stepBucket, hact, hval]
        rw [e]
        have := ih c l (nr + 1)
        simp only [hval, ne_eq, not_true_eq_false, if_false, Nat.zero_add]
        rw [← hval]
        rw [← hval] at this
        exact this
      · have e : (stepBucket ⟨k, c, l⟩ s.civ nr false).1 =
            ⟨k, if c > 0 then c - 1 else c, bucketKey k s.civ nr⟩ := by
          simp [stepBucket, hact, hval]
        rw [e]
        have := ih (if c > 0 then c - 1 else c) (bucketKey k s.civ nr) (nr + 1)
        refine ⟨this.1, ?_, this.2.2⟩
        rw [this.2.1]
        simp only [ne_eq, hval, not_false_eq_true, if_true]
        rcases hact with hc | hc
        · simp only [hc, if_true]
          constructor
          · rintro (h | h)
            · omega
            · right; omega
          · rintro (h | h)
            · omega
            · right; omega
        · subst hc; simp
    · have e : (stepBucket ⟨k, c, l⟩ s.civ nr false).1 = ⟨k, c, l⟩ := by
        simp [stepBucket, hact]
      rw [e]
      have := ih c l (nr + 1)
      have hc : ¬ (c = -1 ∨ (runHeads l (keysOf k (nr + 1) pre) : Int) < c) := by
        intro h; apply hact
        rcases h with h | h
        · exact Or.inr h
        · left; omega
      have hna := (not_congr this.2.1).mpr hc
      refine ⟨this.1, ?_, fun h => absurd h hna⟩
      constructor
      · intro h; exact absurd h hna
      · rintro (h | h)
        · exact absurd (Or.inr h) hact
        · exfalso; apply hact; left; omega

theorem stepBucket_hit (b : Bucket) (c : Civil) (nr : Nat) (isLast : Bool) :
    (stepBucket b c nr isLast).2.isSome =
      (decide (b.count > 0 ∨ b.count = -1) && (bucketKey b.kind c nr != b.last || isLast)) := by
  unfold stepBucket
  by_cases h1 : b.count > 0 ∨ b.count = -1
  · by_cases h2 : bucketKey b.kind c nr ≠ b.last ∨ isLast = true
    · have : (bucketKey b.kind c nr != b.last || isLast) = true := by
        rcases h2 with h | h
        · simp [h]
        · simp [h]
      simp [h1, h2, this]
    · have : (bucketKey b.kind c nr != b.last || isLast) = false := by
        simp only [not_or, ne_eq, Decidable.not_not, Bool.not_eq_true] at h2
        simp [h2.1, h2.2]
      simp [h1, h2, this]
  · simp [h1]

theorem count_hit (k : Kind) (n : Int) (pre : List PSnap) (s : PSnap) (isLast : Bool) :
    (stepBucket (bucketAfter ⟨k, n, -1⟩ 0 pre) s.civ pre.length isLast).2.isSome =
      countRuleRuns k n pre s isLast := by
  rw [stepBucket_hit]
  obtain ⟨hk, hact, hlast⟩ := bucketAfter_closed k pre n (-1) 0
  unfold countRuleRuns
  by_cases ha : (bucketAfter ⟨k, n, -1⟩ 0 pre).count > 0 ∨ (bucketAfter ⟨k, n, -1⟩ 0 pre).count = -1
  · rw [hlast ha, hk]
    have := hact.mp ha
    have e : (n == -1 || decide ((runHeads (-1) (keysOf k 0 pre) : Int) < n)) = true := by
      rcases this with h | h
      · simp [h]
      · simp [h]
    simp [ha, e]
  · have := (not_congr hact).mp ha
    have e : (n == -1 || decide ((runHeads (-1) (keysOf k 0 pre) : Int) < n)) = false := by
      simp only [not_or] at this
      simp [this.1, this.2]
    simp [ha, e]

theorem wbucketAfter_closed (ctx : Ctx) (k : Kind) (d : Dur) (pre : List PSnap) (l : Int) (nr : Nat) :
    (wbucketAfter ctx ⟨k, d, l⟩ nr pre).kind = k ∧ (wbucketAfter ctx ⟨k, d, l⟩ nr pre).within = d ∧
    ((∀ x ∈ pre, d.zero = false ∧ x.time > ctx.sub ctx.latest d) →
      (wbucketAfter ctx ⟨k, d, l⟩ nr pre).last = lastOr l (keysOf k nr pre)) := by
  induction pre generalizing l nr with
  | nil => simp [wbucketAfter, keysOf, lastOr]
  | cons s pre ih =>
    simp only [wbucketAfter, keysOf, lastOr]
    by_cases hin : d.zero = false ∧ s.time > ctx.sub ctx.latest d
    · by_cases hval : bucketKey k s.civ nr = l
      · have e : (stepWBucket ctx ⟨k, d, l⟩ s nr false).1 = ⟨k, d, l⟩ := by
          simp [stepWBucket, hin.1, hin.2, hval]
        rw [e]
        have := ih l (nr + 1)
        refine ⟨this.1, this.2.1, ?_⟩
        intro hall
        rw [hval]
        exact this.2.2 (fun x hx => hall x (List.mem_cons_of_mem _ hx))
      · have e : (stepWBucket ctx ⟨k, d, l⟩ s nr false).1 = ⟨k, d, bucketKey k s.civ nr⟩ := by
          simp [stepWBucket, hin.1, hin.2, hval]
        rw [e]
        have := ih (bucketKey k s.civ nr) (nr + 1)
        refine ⟨this.1, this.2.1, ?_⟩
        intro hall
        exact this.2.2 (fun x hx => hall x (List.mem_cons_of_mem _ hx))
    · have e : (stepWBucket ctx ⟨k, d, l⟩ s nr false).1 = ⟨k, d, l⟩ := by
        unfold stepWBucket
        by_cases hz : d.zero = true
        · simp [hz]
        · have hz' : d.zero = false := by simpa using hz
          have : ¬ s.time > ctx.sub ctx.latest d := fun h => hin ⟨hz', h⟩
          simp [hz', this]
      rw [e]
      have := ih l (nr + 1)
      refine ⟨this.1, this.2.1, ?_⟩
      intro hall
      exact absurd (hall s (by simp)) hin

theorem stepWBucket_hit (ctx : Ctx) (b : WBucket) (s : PSnap) (nr : Nat) (isLast : Bool) :
    (stepWBucket ctx b s nr isLast).2.isSome =
      (!b.within.zero && decide (s.time > ctx.sub ctx.latest b.within) &&
        (bucketKey b.kind s.civ nr != b.last || isLast)) := by
  unfold stepWBucket
  by_cases hz : b.within.zero = true
  · simp [hz]
  · have hz' : b.within.zero = false := by simpa using hz
    by_cases ht : s.time > ctx.sub ctx.latest b.within
    · by_cases h2 : bucketKey b.kind s.civ nr ≠ b.last ∨ isLast = true
      · have : (bucketKey b.kind s.civ nr != b.last || isLast) = true := by
          rcases h2 with h | h
          · simp [h]
          · simp [h]
        simp [hz', ht, h2, this]
      · have : (bucketKey b.kind s.civ nr != b.last || isLast) = false := by
          simp only [not_or, ne_eq, Decidable.not_not, Bool.not_eq_true] at h2
          simp [h2.1, h2.2]
        simp [hz', ht, h2, this]
    · simp [hz', ht]

theorem within_hit (ctx : Ctx) (k : Kind) (pre : List PSnap) (s : PSnap) (isLast : Bool)
    (hs : ∀ x ∈ pre, x.time ≥ s.time) :
    (stepWBucket ctx (wbucketAfter ctx ⟨k, ctx.p.withinOf k, -1⟩ 0 pre) s pre.length isLast).2.isSome =
      withinRuleRuns ctx k pre s isLast := by
  rw [stepWBucket_hit]
  obtain ⟨hk, hd, hlast⟩ := wbucketAfter_closed ctx k (ctx.p.withinOf k) pre (-1) 0
  unfold withinRuleRuns
  rw [hk, hd]
  by_cases hin : (ctx.p.withinOf k).zero = false ∧ s.time > ctx.sub ctx.latest (ctx.p.withinOf k)
  · rw [hlast (fun x hx => ⟨hin.1, by have := hs x hx; omega⟩)]
  · by_cases hz : (ctx.p.withinOf k).zero = true
    · simp [hz]
    · have hz' : (ctx.p.withinOf k).zero = false := by simpa using hz
      have : ¬ s.time > ctx.sub ctx.latest (ctx.p.withinOf k) := fun h => hin ⟨hz', h⟩
      simp [this]

/-- in a newest-first list the state form and the runs form of the rules coincide -/
theorem keptState_eq_keptRuns (ctx : Ctx) (pre : List PSnap) (s : PSnap) (isLast : Bool)
    (hs : ∀ x ∈ pre, x.time ≥ s.time) : keptState ctx pre s isLast = keptRuns ctx pre s isLast := by
  unfold keptState keptRuns initBuckets initWBuckets
  simp only [List.any_map, Function.comp_def, count_hit, within_hit ctx _ pre s isLast hs]



theorem flagsFrom_congr (k1 k2 : List PSnap → PSnap → Bool → Bool) (l pre : List PSnap)
    (h : ∀ pre' s rest, pre ++ l = pre' ++ s :: rest → k1 pre' s rest.isEmpty = k2 pre' s rest.isEmpty) :
    flagsFrom k1 pre l = flagsFrom k2 pre l := by
  induction l generalizing pre with
  | nil => rfl
  | cons s rest ih =>
    simp only [flagsFrom]
    congr 1
    · exact h pre s rest rfl
    · apply ih
      intro pre' s' rest' he
      exact h pre' s' rest' (by simpa using he)

theorem flagsFrom_length (k : List PSnap → PSnap → Bool → Bool) (l pre : List PSnap) :
    (flagsFrom k pre l).length = l.length := by
  induction l generalizing pre with
  | nil => rfl
  | cons s rest ih => simp [flagsFrom, ih]

/-! ## keys -/

theorem keysOf_append (k : Kind) (nr : Nat) (a b : List PSnap) :
    keysOf k nr (a ++ b) = keysOf k nr a ++ keysOf k (nr + a.length) b := by
  induction a generalizing nr with
  | nil => simp [keysOf]
  | cons x xs ih =>
    simp only [List.cons_append, keysOf, ih, List.length_cons]
    congr 3; omega

theorem keysOf_length (k : Kind) (nr : Nat) (a : List PSnap) : (keysOf k nr a).length = a.length := by
  induction a generalizing nr with
  | nil => rfl
  | cons x xs ih => simp [keysOf, ih]

theorem bucketKey_nr (k : Kind) (hk : k ≠ .last) (c : Civil) (n m : Nat) : bucketKey k c n = bucketKey k c m := by
  cases k <;> simp_all [bucketKey]

theorem antitone_pairwise (l : List Int) (h : antitone l = true) : l.Pairwise (· ≥ ·) := by
  induction l with
  | nil => exact List.Pairwise.nil
  | cons a rest ih =>
    cases rest with
    | nil => simp
    | cons b rest' =>
      simp only [antitone, Bool.and_eq_true, decide_eq_true_eq] at h
      have hp := ih h.2
      refine List.pairwise_cons.mpr ⟨?_, hp⟩
      intro x hx
      rcases List.mem_cons.mp hx with hx | hx
      · subst hx; exact h.1
      · have := (List.pairwise_cons.mp hp).1 x hx
        omega

theorem lastOr_mem (d : Int) (ks : List Int) : lastOr d ks = d ∨ lastOr d ks ∈ ks := by
  induction ks generalizing d with
  | nil => exact Or.inl rfl
  | cons a ks ih =>
    simp only [lastOr]
    rcases ih a with h | h
    · exact Or.inr (by simp [h])
    · exact Or.inr (List.mem_cons_of_mem _ h)

theorem lastOr_nonempty_mem (d a : Int) (ks : List Int) : lastOr d (a :: ks) ∈ a :: ks := by
  simp only [lastOr]
  rcases lastOr_mem a ks with h | h
  · simp [h]
  · exact List.mem_cons_of_mem _ h

/-- in a non-increasing key sequence, a key that re-appears is the key of the previous element -/
theorem lastOr_eq_of_mem (d k : Int) (ks : List Int) (hp : (ks ++ [k]).Pairwise (· ≥ ·)) (hm : k ∈ ks) :
    lastOr d ks = k := by
  induction ks generalizing d with
  | nil => cases hm
  | cons a ks ih =>
    simp only [lastOr]
    have hp' := List.pairwise_cons.mp hp
    by_cases hk : k ∈ ks
    · exact ih a hp'.2 hk
    · have hak : a = k := by
        rcases List.mem_cons.mp hm with h | h
        · exact h.symm
        · exact absurd h hk
      rcases lastOr_mem a ks with h | h
      · rw [h, hak]
      · have h1 := hp'.1 _ (List.mem_append_left _ h)
        have h2 : lastOr a ks ≥ k := by
          have := List.pairwise_append.mp hp'.2
          exact this.2.2 _ h k (by simp)
        have : lastOr a ks = k := by omega
        rw [this] at h; exact absurd h hk

theorem ne_lastOr_iff (k : Int) (ks : List Int) (hp : (ks ++ [k]).Pairwise (· ≥ ·)) (hk : k ≠ -1) :
    k ≠ lastOr (-1) ks ↔ k ∉ ks := by
  constructor
  · intro h hm; exact h (lastOr_eq_of_mem (-1) k ks hp hm).symm
  · intro h he
    cases ks with
    | nil => exact hk (by simpa [lastOr] using he)
    | cons a ks' => exact h (he ▸ lastOr_nonempty_mem (-1) a ks')

theorem runHeads_distinct_aux (prev : Int) (ks : List Int) (hp : (prev :: ks).Pairwise (· ≥ ·)) :
    runHeads prev ks + (if prev ∈ ks then 1 else 0) = distinct ks := by
  induction ks generalizing prev with
  | nil => simp [runHeads, distinct]
  | cons k ks ih =>
    have hp' := List.pairwise_cons.mp hp
    have hih := ih k hp'.2
    have hmem : prev ∈ k :: ks ↔ k = prev := by
      constructor
      · intro h
        rcases List.mem_cons.mp h with h | h
        · exact h.symm
        · have h1 := hp'.1 k (by simp)
          have h2 := (List.pairwise_cons.mp hp'.2).1 prev h
          omega
      · intro h; simp [h]
    simp only [runHeads, distinct, List.contains_iff_mem]
    by_cases hkp : k = prev
    · subst hkp
      simp only [List.mem_cons, true_or, if_true, ne_eq, not_true_eq_false, if_false]
      by_cases hm : k ∈ ks
      · simp only [hm, if_true] at hih ⊢; omega
      · simp only [hm, if_false] at hih ⊢; omega
    · have : ¬ prev ∈ k :: ks := fun h => hkp (hmem.mp h)
      simp only [this, if_false, ne_eq, hkp, not_false_eq_true, if_true]
      by_cases hm : k ∈ ks
      · simp only [hm, if_true] at hih ⊢; omega
      · simp only [hm, if_false] at hih ⊢; omega

/-- for a non-increasing key sequence the number of runs is the number of distinct periods -/
theorem runHeads_eq_distinct (ks : List Int) (hp : ks.Pairwise (· ≥ ·)) (hn : (-1 : Int) ∉ ks) :
    runHeads (-1) ks = distinct ks := by
  cases ks with
  | nil => rfl
  | cons k ks =>
    have hk : k ≠ -1 := fun e => hn (by simp [e])
    have := runHeads_distinct_aux k ks hp
    simp only [runHeads, distinct, List.contains_iff_mem, ne_eq, hk, not_false_eq_true, if_true]
    by_cases hm : k ∈ ks
    · simp only [hm, if_true] at this ⊢; omega
    · simp only [hm, if_false] at this ⊢; omega

/-- the `always` bucket: every snapshot starts a new run -/
theorem last_runHeads (pre : List PSnap) (nr : Nat) (prev : Int) (h : prev < nr) :
    runHeads prev (keysOf .last nr pre) = pre.length := by
  induction pre generalizing nr prev with
  | nil => rfl
  | cons s pre ih =>
    simp only [keysOf, runHeads, bucketKey, List.length_cons]
    have : (nr : Int) ≠ prev := by omega
    rw [ih (nr + 1) nr (by omega)]
    simp [this]; omega

theorem last_lastOr (pre : List PSnap) (nr : Nat) (d : Int) (h : d < nr) :
    lastOr d (keysOf .last nr pre) < nr + pre.length := by
  induction pre generalizing nr d with
  | nil => simpa [keysOf, lastOr] using h
  | cons s pre ih =>
    simp only [keysOf, lastOr, bucketKey, List.length_cons]
    have := ih (nr + 1) nr (by omega)
    push_cast at this ⊢
    omega

/-- **keep_last** at one position: `keep-last n` keeps a snapshot iff fewer than `n` are newer -/
theorem countRuleRuns_last (n : Int) (pre : List PSnap) (s : PSnap) (isLast : Bool) :
    countRuleRuns .last n pre s isLast = (n == -1 || decide ((pre.length : Int) < n)) := by
  unfold countRuleRuns
  simp only [last_runHeads pre 0 (-1) (by omega), bucketKey]
  have := last_lastOr pre 0 (-1) (by omega)
  have hne : ((pre.length : Nat) : Int) ≠ lastOr (-1) (keysOf Kind.last 0 pre) := by
    simp only [Int.natCast_zero, Int.zero_add] at this; omega
  simp [hne]



/-! ## the documented (periods) form -/

/-- T1: the key functions of the current source compute the documented periods -/
theorem bucketKey_eq_periodKey (k : Kind) (c : Civil) (n : Nat) : bucketKey k c n = periodKey k c n := by
  cases k <;>
  simp [bucketKey, periodKey, Restic.Gen.data_ymdh_year, Restic.Gen.data_ymdh_month, Restic.Gen.data_ymdh_day,
    Restic.Gen.data_ymdh_hour, Restic.Gen.data_ymd_year, Restic.Gen.data_ymd_month, Restic.Gen.data_ymd_day,
    Restic.Gen.data_yw_year, Restic.Gen.data_yw_week, Restic.Gen.data_ym_year, Restic.Gen.data_ym_month,
    Restic.Gen.data_y_year]

theorem pkeysOf_eq (k : Kind) (nr : Nat) (l : List PSnap) : pkeysOf k nr l = keysOf k nr l := by
  induction l generalizing nr with
  | nil => rfl
  | cons s rest ih => simp [pkeysOf, keysOf, ih, bucketKey_eq_periodKey]

theorem pairwise_prefix_snoc {α} (r : α → α → Prop) (a : List α) (x : α) (b : List α)
    (h : (a ++ x :: b).Pairwise r) : (a ++ [x]).Pairwise r := by
  exact List.Pairwise.sublist (List.Sublist.append_left (List.Sublist.cons₂ x (List.nil_sublist b)) a) h

theorem any_congr' {α} (l : List α) (f g : α → Bool) (h : ∀ a ∈ l, f a = g a) : l.any f = l.any g := by
  induction l with
  | nil => rfl
  | cons a as ih =>
    simp only [List.any_cons]
    rw [h a (by simp), ih (fun b hb => h b (List.mem_cons_of_mem _ hb))]

theorem countRule_periods (k : Kind) (hk : k ≠ .last) (n : Int) (pre : List PSnap) (s : PSnap) (isLast : Bool)
    (hp : (keysOf k 0 pre ++ [bucketKey k s.civ pre.length]).Pairwise (· ≥ ·))
    (hn : (-1 : Int) ∉ keysOf k 0 pre ++ [bucketKey k s.civ pre.length]) :
    countRuleRuns k n pre s isLast = countRulePeriods k n pre s isLast := by
  simp only [countRuleRuns, countRulePeriods, pkeysOf_eq, ← bucketKey_eq_periodKey]
  have hp1 : (keysOf k 0 pre).Pairwise (· ≥ ·) := (List.pairwise_append.mp hp).1
  have hn1 : (-1 : Int) ∉ keysOf k 0 pre := fun h => hn (List.mem_append_left _ h)
  have hn2 : bucketKey k s.civ pre.length ≠ -1 := fun h => hn (by simp [h])
  rw [runHeads_eq_distinct _ hp1 hn1]
  have := ne_lastOr_iff _ _ hp hn2
  congr 1
  by_cases hm : bucketKey k s.civ pre.length ∈ keysOf k 0 pre
  · have h1 : ¬ bucketKey k s.civ pre.length ≠ lastOr (-1) (keysOf k 0 pre) := fun h => this.mp h hm
    simp only [ne_eq, Decidable.not_not] at h1
    simp [hm, ← h1]
  · have h1 := this.mpr hm
    simp [hm, h1]

theorem withinRule_periods (ctx : Ctx) (k : Kind) (pre : List PSnap) (s : PSnap) (isLast : Bool)
    (hp : (keysOf k 0 pre ++ [bucketKey k s.civ pre.length]).Pairwise (· ≥ ·))
    (hn : (-1 : Int) ∉ keysOf k 0 pre ++ [bucketKey k s.civ pre.length]) :
    withinRuleRuns ctx k pre s isLast = withinRulePeriods ctx k pre s isLast := by
  simp only [withinRuleRuns, withinRulePeriods, pkeysOf_eq, ← bucketKey_eq_periodKey]
  have hn2 : bucketKey k s.civ pre.length ≠ -1 := fun h => hn (by simp [h])
  have := ne_lastOr_iff _ _ hp hn2
  congr 1
  by_cases hm : bucketKey k s.civ pre.length ∈ keysOf k 0 pre
  · have h1 : ¬ bucketKey k s.civ pre.length ≠ lastOr (-1) (keysOf k 0 pre) := fun h => this.mp h hm
    simp only [ne_eq, Decidable.not_not] at h1
    simp [hm, ← h1]
  · have h1 := this.mpr hm
    simp [hm, h1]

/-- the regularity condition, for one position -/
def RegularAt (pre : List PSnap) (s : PSnap) : Prop :=
  ∀ k ∈ withinKinds, (keysOf k 0 pre ++ [bucketKey k s.civ pre.length]).Pairwise (· ≥ ·) ∧
    (-1 : Int) ∉ keysOf k 0 pre ++ [bucketKey k s.civ pre.length]

theorem keptRuns_eq_keptPeriods (ctx : Ctx) (pre : List PSnap) (s : PSnap) (isLast : Bool)
    (h : RegularAt pre s) : keptRuns ctx pre s isLast = keptPeriods ctx pre s isLast := by
  unfold keptRuns keptPeriods
  have e1 : countKinds.any (fun k => countRuleRuns k (ctx.p.countOf k) pre s isLast) =
      ((ctx.p.last == -1 || decide ((pre.length : Int) < ctx.p.last)) ||
        withinKinds.any (fun k => countRulePeriods k (ctx.p.countOf k) pre s isLast)) := by
    have : countKinds = .last :: withinKinds := rfl
    rw [this, List.any_cons, countRuleRuns_last]
    congr 1
    apply any_congr'
    intro k hk
    have hne : k ≠ .last := by
      intro e; subst e; simp [withinKinds] at hk
    exact countRule_periods k hne _ pre s isLast (h k hk).1 (h k hk).2
  have e2 : withinKinds.any (fun k => withinRuleRuns ctx k pre s isLast) =
      withinKinds.any (fun k => withinRulePeriods ctx k pre s isLast) := by
    apply any_congr'
    intro k hk
    exact withinRule_periods ctx k pre s isLast (h k hk).1 (h k hk).2
  rw [e1, e2]
  simp [Policy.countOf, Bool.or_assoc]

theorem regularAt_of_keysRegular (l pre rest : List PSnap) (s : PSnap) (hl : l = pre ++ s :: rest)
    (h : keysRegular l = true) : RegularAt pre s := by
  intro k hk
  simp only [keysRegular, pkeysOf_eq, List.all_eq_true, Bool.and_eq_true, Bool.not_eq_true',
    Bool.not_eq_eq_eq_not, Bool.not_true] at h
  have hk' := h k hk
  have hsplit : keysOf k 0 l = keysOf k 0 pre ++ bucketKey k s.civ pre.length :: keysOf k (pre.length + 1) rest := by
    rw [hl, keysOf_append]; simp [keysOf]
  constructor
  · have := antitone_pairwise _ hk'.1
    rw [hsplit] at this
    exact pairwise_prefix_snoc _ _ _ _ this
  · intro hm
    have : (-1 : Int) ∈ keysOf k 0 l := by
      rw [hsplit]
      rcases List.mem_append.mp hm with h1 | h1
      · exact List.mem_append_left _ h1
      · simp only [List.mem_singleton] at h1
        exact List.mem_append_right _ (by simp [h1])
    have hc := hk'.2
    rw [← List.contains_iff_mem] at this
    rw [this] at hc; cases hc

theorem flags_runs_eq_periods (ctx : Ctx) (l : List PSnap) (h : keysRegular l = true) :
    flagsFrom (keptRuns ctx) [] l = flagsFrom (keptPeriods ctx) [] l := by
  apply flagsFrom_congr
  intro pre s rest he
  exact keptRuns_eq_keptPeriods ctx pre s _ (regularAt_of_keysRegular l pre rest s (by simpa using he) h)

/-! ## ApplyPolicy as a whole -/

theorem sorted_split {pre rest : List PSnap} {s : PSnap} (h : Sorted (pre ++ s :: rest)) :
    ∀ x ∈ pre, x.time ≥ s.time := by
  intro x hx
  exact (List.pairwise_append.mp h).2.2 x hx s (by simp)

/-- the loop's keep flags are the rules in their runs form (any list sorted newest first) -/
theorem loop_flags_runs (ctx : Ctx) (l : List PSnap) (hs : Sorted l) :
    (loop ctx ⟨initBuckets ctx.p, initWBuckets ctx.p⟩ 0 l).map (·.keep) = flagsFrom (keptRuns ctx) [] l := by
  have := loop_flags ctx l [] ⟨initBuckets ctx.p, initWBuckets ctx.p⟩ (by simp [bucketAfter]) (by simp [wbucketAfter])
  simp only [List.length_nil] at this
  rw [this]
  apply flagsFrom_congr
  intro pre s rest he
  simp only [List.nil_append] at he
  exact keptState_eq_keptRuns ctx pre s _ (sorted_split (he ▸ hs))

/-- the latest timestamp used by `ApplyPolicy` (zero time for the empty list, where it is not used) -/
def latestOf (now : Int) (l : List PSnap) : Int := (findLatestTimestamp now (sortNewestFirst l)).getD zeroTime

/-- `ApplyPolicy` never panics, and its result is the loop over the stably sorted list -/
theorem applyPolicy_eq (sub : Int → Dur → Int) (now : Int) (l : List PSnap) (p : Policy) :
    applyPolicy sub now l p =
      .ok (loop ⟨sub, latestOf now l, p⟩ ⟨initBuckets p, initWBuckets p⟩ 0 (sortNewestFirst l)) := by
  unfold applyPolicy latestOf
  cases h : sortNewestFirst l with
  | nil => simp [loop]
  | cons a b => simp [findLatestTimestamp]

theorem applyPolicy_no_panic (sub : Int → Dur → Int) (now : Int) (l : List PSnap) (p : Policy) :
    applyPolicy sub now l p ≠ .panic := by
  rw [applyPolicy_eq]; intro h; cases h

theorem filter_map_zip (ds : List Decision) :
    ((ds.map (·.snap)).zip (ds.map (·.keep))).filter (·.2) = (ds.filter (·.keep)).map fun d => (d.snap, d.keep) := by
  induction ds with
  | nil => rfl
  | cons d ds ih =>
    simp only [List.map_cons, List.zip_cons_cons, List.filter_cons]
    cases hk : d.keep <;> simp [ih, hk]

theorem filter_map_zip_not (ds : List Decision) :
    ((ds.map (·.snap)).zip (ds.map (·.keep))).filter (!·.2) = (ds.filter (!·.keep)).map fun d => (d.snap, d.keep) := by
  induction ds with
  | nil => rfl
  | cons d ds ih =>
    simp only [List.map_cons, List.zip_cons_cons, List.filter_cons]
    cases hk : d.keep <;> simp [ih, hk]

/-- **partition**: keep and remove partition the input list -/
theorem partition (sub : Int → Dur → Int) (now : Int) (l : List PSnap) (p : Policy) (ds : List Decision)
    (h : applyPolicy sub now l p = .ok ds) : (keepOf ds ++ removeOf ds).Perm l := by
  rw [applyPolicy_eq] at h
  injection h with h
  have hs : ds.map (·.snap) = sortNewestFirst l := by rw [← h]; exact loop_snaps _ _ _ _
  unfold keepOf removeOf
  have : ((ds.filter (·.keep)) ++ (ds.filter (!·.keep))).Perm ds := List.filter_append_perm _ ds
  have := this.map (·.snap)
  rw [List.map_append, hs] at this
  exact this.trans (sort_perm l)

/-- **reasons**: one entry per kept snapshot, in the order of `keep`, each with at least one reason -/
theorem reasons_aligned (sub : Int → Dur → Int) (now : Int) (l : List PSnap) (p : Policy) (ds : List Decision)
    (h : applyPolicy sub now l p = .ok ds) :
    (reasonsOf ds).map (·.1) = keepOf ds ∧ ∀ r ∈ reasonsOf ds, r.2 ≠ [] := by
  rw [applyPolicy_eq] at h
  injection h with h
  constructor
  · simp [reasonsOf, keepOf, Function.comp_def]
  · intro r hr
    simp only [reasonsOf, List.mem_map, List.mem_filter] at hr
    obtain ⟨d, ⟨hd, hk⟩, rfl⟩ := hr
    have := loop_keep_reasons _ _ _ _ d (h ▸ hd)
    rw [hk] at this
    intro he
    have he' : d.reasons = [] := he
    rw [he'] at this
    simp at this

/-- **main theorem**: what `ApplyPolicy` returns satisfies the executable statement of C22 -/
theorem applyPolicy_specOK (sub : Int → Dur → Int) (now : Int) (l : List PSnap) (p : Policy) (ds : List Decision)
    (h : applyPolicy sub now l p = .ok ds) :
    specOK sub (latestOf now l) l p ((keepOf ds).map (·.sn.id)) ((removeOf ds).map (·.sn.id))
      ((reasonsOf ds).map (·.2.length)) = true := by
  have hra := reasons_aligned sub now l p ds h
  rw [applyPolicy_eq] at h
  injection h with h
  have hsn : ds.map (·.snap) = sortNewestFirst l := by rw [← h]; exact loop_snaps _ _ _ _
  have hfl : ds.map (·.keep) = flagsFrom (keptRuns ⟨sub, latestOf now l, p⟩) [] (sortNewestFirst l) := by
    rw [← h]; exact loop_flags_runs ⟨sub, latestOf now l, p⟩ _ (sort_sorted l)
  have hflags : (if keysRegular (sortNewestFirst l) = true
      then flagsFrom (keptPeriods ⟨sub, latestOf now l, p⟩) [] (sortNewestFirst l)
      else flagsFrom (keptRuns ⟨sub, latestOf now l, p⟩) [] (sortNewestFirst l)) = ds.map (·.keep) := by
    split
    · rename_i hr; rw [hfl, flags_runs_eq_periods _ _ hr]
    · exact hfl.symm
  simp only [specOK, hflags]
  simp only [← hsn, filter_map_zip, filter_map_zip_not, List.map_map, Function.comp_def,
    Bool.and_eq_true, beq_iff_eq, List.all_eq_true, decide_eq_true_eq]
  refine ⟨⟨⟨?_, ?_⟩, ?_⟩, ?_⟩
  · simp [keepOf, Function.comp_def]
  · simp [removeOf, Function.comp_def]
  · simp [reasonsOf, keepOf]
  · intro n hn
    simp only [List.mem_map] at hn
    obtain ⟨r, hr, rfl⟩ := hn
    have := hra.2 r hr
    cases hh : r.2 with
    | nil => exact absurd hh this
    | cons a b => simp



/-! ## bucket keys (T1: the coefficients are regenerated from the current source) -/

/-- the formulas are YYYYMMDDHH, YYYYMMDD, YYYYWW, YYYYMM, YYYY -/
theorem key_formulas :
    Restic.Gen.data_ymdh_year = 1000000 ∧ Restic.Gen.data_ymdh_month = 10000 ∧ Restic.Gen.data_ymdh_day = 100 ∧
    Restic.Gen.data_ymdh_hour = 1 ∧ Restic.Gen.data_ymd_year = 10000 ∧ Restic.Gen.data_ymd_month = 100 ∧
    Restic.Gen.data_ymd_day = 1 ∧ Restic.Gen.data_yw_year = 100 ∧ Restic.Gen.data_yw_week = 1 ∧
    Restic.Gen.data_ym_year = 100 ∧ Restic.Gen.data_ym_month = 1 ∧ Restic.Gen.data_y_year = 1 ∧
    Restic.Gen.data_ymdh_offset = 0 ∧ Restic.Gen.data_ymd_offset = 0 ∧ Restic.Gen.data_yw_offset = 0 ∧
    Restic.Gen.data_ym_offset = 0 ∧ Restic.Gen.data_y_offset = 0 ∧ Restic.Gen.data_always_nr = 7 := by decide

/-- laws of the civil-field oracle (checked by the driver on every record) -/
structure CivilOK (c : Civil) : Prop where
  month : 1 ≤ c.month ∧ c.month ≤ 12
  day : 1 ≤ c.day ∧ c.day ≤ 31
  hour : 0 ≤ c.hour ∧ c.hour ≤ 23
  week : 1 ≤ c.isoWeek ∧ c.isoWeek ≤ 53

/-- **key_injective**: two times get the same hourly key iff they agree on year, month, day and
    hour (for every year, in particular 0..9999) -/
theorem key_injective_hourly (c c' : Civil) (n n' : Nat) (h : CivilOK c) (h' : CivilOK c') :
    bucketKey .hourly c n = bucketKey .hourly c' n' ↔
      c.year = c'.year ∧ c.month = c'.month ∧ c.day = c'.day ∧ c.hour = c'.hour := by
  obtain ⟨h1, h2, h3, _⟩ := h; obtain ⟨h1', h2', h3', _⟩ := h'
  simp only [bucketKey, Restic.Gen.data_ymdh_year, Restic.Gen.data_ymdh_month, Restic.Gen.data_ymdh_day,
    Restic.Gen.data_ymdh_hour]
  constructor
  · intro e; omega
  · rintro ⟨e1, e2, e3, e4⟩; rw [e1, e2, e3, e4]

theorem key_injective_daily (c c' : Civil) (n n' : Nat) (h : CivilOK c) (h' : CivilOK c') :
    bucketKey .daily c n = bucketKey .daily c' n' ↔ c.year = c'.year ∧ c.month = c'.month ∧ c.day = c'.day := by
  obtain ⟨h1, h2, _, _⟩ := h; obtain ⟨h1', h2', _, _⟩ := h'
  simp only [bucketKey, Restic.Gen.data_ymd_year, Restic.Gen.data_ymd_month, Restic.Gen.data_ymd_day]
  constructor
  · intro e; omega
  · rintro ⟨e1, e2, e3⟩; rw [e1, e2, e3]

theorem key_injective_weekly (c c' : Civil) (n n' : Nat) (h : CivilOK c) (h' : CivilOK c') :
    bucketKey .weekly c n = bucketKey .weekly c' n' ↔ c.isoYear = c'.isoYear ∧ c.isoWeek = c'.isoWeek := by
  obtain ⟨_, _, _, h4⟩ := h; obtain ⟨_, _, _, h4'⟩ := h'
  simp only [bucketKey, Restic.Gen.data_yw_year, Restic.Gen.data_yw_week]
  constructor
  · intro e; omega
  · rintro ⟨e1, e2⟩; rw [e1, e2]

theorem key_injective_monthly (c c' : Civil) (n n' : Nat) (h : CivilOK c) (h' : CivilOK c') :
    bucketKey .monthly c n = bucketKey .monthly c' n' ↔ c.year = c'.year ∧ c.month = c'.month := by
  obtain ⟨h1, _, _, _⟩ := h; obtain ⟨h1', _, _, _⟩ := h'
  simp only [bucketKey, Restic.Gen.data_ym_year, Restic.Gen.data_ym_month]
  constructor
  · intro e; omega
  · rintro ⟨e1, e2⟩; rw [e1, e2]

theorem key_injective_yearly (c c' : Civil) (n n' : Nat) :
    bucketKey .yearly c n = bucketKey .yearly c' n' ↔ c.year = c'.year := by
  simp only [bucketKey, Restic.Gen.data_y_year]
  constructor
  · intro e; omega
  · intro e; rw [e]

/-- for years ≥ 0 (all that a snapshot file can carry: JSON allows 0..9999) no period key equals
    the initial value -1 of `Last`; the yearly key of the year -1 does -/
theorem key_ne_sentinel (k : Kind) (hk : k ≠ .last) (c : Civil) (n : Nat) (h : CivilOK c)
    (hy : 0 ≤ c.year) (hiy : 0 ≤ c.isoYear) : bucketKey k c n ≠ -1 := by
  obtain ⟨h1, h2, h3, h4⟩ := h
  cases k with
  | last => exact absurd rfl hk
  | hourly => simp only [bucketKey, Restic.Gen.data_ymdh_year, Restic.Gen.data_ymdh_month, Restic.Gen.data_ymdh_day,
      Restic.Gen.data_ymdh_hour]; omega
  | daily => simp only [bucketKey, Restic.Gen.data_ymd_year, Restic.Gen.data_ymd_month, Restic.Gen.data_ymd_day]; omega
  | weekly => simp only [bucketKey, Restic.Gen.data_yw_year, Restic.Gen.data_yw_week]; omega
  | monthly => simp only [bucketKey, Restic.Gen.data_ym_year, Restic.Gen.data_ym_month]; omega
  | yearly => simp only [bucketKey, Restic.Gen.data_y_year]; omega

example : bucketKey .yearly ⟨-1, 3, 1, 0, -1, 9⟩ 0 = -1 := by decide

/-! ## findLatestTimestamp -/

theorem findLatest_fold (now : Int) (l : List PSnap) (acc : Int) :
    let t := l.foldl (fun latest sn => if sn.time > latest ∧ sn.time < now then sn.time else latest) acc
    acc ≤ t ∧ (∀ s ∈ l, s.time < now → s.time ≤ t) ∧ (t = acc ∨ ∃ s ∈ l, s.time = t ∧ s.time < now) := by
  induction l generalizing acc with
  | nil => simp
  | cons x xs ih =>
    simp only [List.foldl_cons]
    by_cases hx : x.time > acc ∧ x.time < now
    · simp only [hx, and_self, if_true]
      have := ih x.time
      refine ⟨by omega, ?_, ?_⟩
      · intro s hs hn
        rcases List.mem_cons.mp hs with hs | hs
        · subst hs; exact this.1
        · exact this.2.1 s hs hn
      · rcases this.2.2 with h | ⟨s, hs, h⟩
        · exact Or.inr ⟨x, by simp, h.symm, hx.2⟩
        · exact Or.inr ⟨s, List.mem_cons_of_mem _ hs, h⟩
    · simp only [hx, if_false]
      have := ih acc
      refine ⟨this.1, ?_, ?_⟩
      · intro s hs hn
        rcases List.mem_cons.mp hs with hs | hs
        · subst hs
          have : ¬ s.time > acc := fun h => hx ⟨h, hn⟩
          omega
        · exact this.2.1 s hs hn
      · rcases this.2.2 with h | ⟨s, hs, h⟩
        · exact Or.inl h
        · exact Or.inr ⟨s, List.mem_cons_of_mem _ hs, h⟩

/-- **within_spec (latest)**: the reference time of the `within` rules is the newest timestamp that
    is not in the future (the zero time if there is none) -/
theorem findLatest_spec (now : Int) (l : List PSnap) (t : Int) (h : findLatestTimestamp now l = some t) :
    (∀ s ∈ l, s.time < now → s.time ≤ t) ∧ (t = zeroTime ∨ ∃ s ∈ l, s.time = t ∧ s.time < now) := by
  cases l with
  | nil => cases h
  | cons x xs =>
    simp only [findLatestTimestamp, Option.some.injEq] at h
    have := findLatest_fold now (x :: xs) zeroTime
    simp only at this
    rw [h] at this
    exact ⟨this.2.1, this.2.2⟩

theorem findLatest_perm (now : Int) (l l' : List PSnap) (hp : l.Perm l') (t t' : Int)
    (h : findLatestTimestamp now l = some t) (h' : findLatestTimestamp now l' = some t') : t = t' := by
  have a := findLatest_spec now l t h
  have b := findLatest_spec now l' t' h'
  have z : zeroTime ≤ t := by
    cases l with
    | nil => cases h
    | cons x xs => simp only [findLatestTimestamp, Option.some.injEq] at h; rw [← h]; exact (findLatest_fold now _ zeroTime).1
  have z' : zeroTime ≤ t' := by
    cases l' with
    | nil => cases h'
    | cons x xs => simp only [findLatestTimestamp, Option.some.injEq] at h'; rw [← h']; exact (findLatest_fold now _ zeroTime).1
  rcases a.2 with ha | ⟨s, hs, hst, hsn⟩ <;> rcases b.2 with hb | ⟨s', hs', hst', hsn'⟩
  · rw [ha, hb]
  · have := a.1 s' (hp.mem_iff.mpr hs') hsn'; omega
  · have := b.1 s (hp.mem_iff.mp hs) hsn; omega
  · have := a.1 s' (hp.mem_iff.mpr hs') hsn'
    have := b.1 s (hp.mem_iff.mp hs) hsn
    omega



/-! ## from positions to lists -/

/-- the kept snapshots in terms of the flags -/
theorem keepOf_eq (ds : List Decision) :
    keepOf ds = (((ds.map (·.snap)).zip (ds.map (·.keep))).filter (·.2)).map (·.1) := by
  rw [filter_map_zip]; simp [keepOf, Function.comp_def]

theorem applyPolicy_keep (sub : Int → Dur → Int) (now : Int) (l : List PSnap) (p : Policy) (ds : List Decision)
    (h : applyPolicy sub now l p = .ok ds) :
    keepOf ds = (((sortNewestFirst l).zip
      (flagsFrom (keptRuns ⟨sub, latestOf now l, p⟩) [] (sortNewestFirst l))).filter (·.2)).map (·.1) := by
  rw [applyPolicy_eq] at h
  injection h with h
  rw [keepOf_eq, ← h, loop_snaps, loop_flags_runs ⟨sub, latestOf now l, p⟩ _ (sort_sorted l)]

/-- every position: a snapshot of the sorted list is kept iff the rules (runs form) say so -/
theorem kept_at (k : List PSnap → PSnap → Bool → Bool) (pre l : List PSnap) (x : PSnap) :
    x ∈ (((l.zip (flagsFrom k pre l)).filter (·.2)).map (·.1)) ↔
      ∃ a b, l = a ++ x :: b ∧ k (pre ++ a) x b.isEmpty = true := by
  induction l generalizing pre with
  | nil => simp [flagsFrom]
  | cons s rest ih =>
    simp only [flagsFrom, List.zip_cons_cons, List.filter_cons]
    constructor
    · intro hx
      by_cases hk : k pre s rest.isEmpty = true
      · simp only [hk, if_true, List.map_cons, List.mem_cons] at hx
        rcases hx with hx | hx
        · subst hx; exact ⟨[], rest, rfl, by simpa using hk⟩
        · obtain ⟨a, b, hab, hkk⟩ := (ih (pre ++ [s])).mp hx
          exact ⟨s :: a, b, by simp [hab], by simpa using hkk⟩
      · simp only [hk, if_false] at hx
        obtain ⟨a, b, hab, hkk⟩ := (ih (pre ++ [s])).mp hx
        exact ⟨s :: a, b, by simp [hab], by simpa using hkk⟩
    · rintro ⟨a, b, hab, hkk⟩
      cases a with
      | nil =>
        simp only [List.nil_append, List.cons.injEq] at hab
        obtain ⟨rfl, rfl⟩ := hab
        simp only [List.append_nil] at hkk
        simp [hkk]
      | cons a0 a' =>
        simp only [List.cons_append, List.cons.injEq] at hab
        obtain ⟨rfl, hab⟩ := hab
        have : x ∈ (((rest.zip (flagsFrom k (pre ++ [s]) rest)).filter (·.2)).map (·.1)) :=
          (ih (pre ++ [s])).mpr ⟨a', b, hab, by simpa using hkk⟩
        split
        · exact List.mem_cons_of_mem _ this
        · exact this

/-- **keep_bucket_spec / within_spec / tag_spec, all at once**: a snapshot is kept iff at some
    position of the sorted list `pre ++ x :: rest` one of the rules selects it. `keptRuns` is the
    disjunction of the rules; under `RegularAt` it equals the documented `keptPeriods`. -/
theorem keep_iff (sub : Int → Dur → Int) (now : Int) (l : List PSnap) (p : Policy) (ds : List Decision)
    (h : applyPolicy sub now l p = .ok ds) (x : PSnap) :
    x ∈ keepOf ds ↔ ∃ pre rest, sortNewestFirst l = pre ++ x :: rest ∧
      keptRuns ⟨sub, latestOf now l, p⟩ pre x rest.isEmpty = true := by
  rw [applyPolicy_keep sub now l p ds h, kept_at]
  simp

/-! ## keep-last -/

def zeroDur : Dur := ⟨0, 0, 0, 0⟩

/-- the policy `--keep-last n` alone -/
def onlyLast (n : Int) : Policy :=
  { last := n, hourly := 0, daily := 0, weekly := 0, monthly := 0, yearly := 0, within := zeroDur,
    withinHourly := zeroDur, withinDaily := zeroDur, withinWeekly := zeroDur, withinMonthly := zeroDur,
    withinYearly := zeroDur, tags := [] }

theorem keptRuns_onlyLast (sub : Int → Dur → Int) (latest : Int) (n : Int) (pre : List PSnap) (s : PSnap) (isLast : Bool) :
    keptRuns ⟨sub, latest, onlyLast n⟩ pre s isLast = (n == -1 || decide ((pre.length : Int) < n)) := by
  have hz : ∀ k, countRuleRuns k 0 pre s isLast = false := by
    intro k
    simp only [countRuleRuns]
    have : ¬ ((runHeads (-1) (keysOf k 0 pre) : Int) < 0) := by omega
    simp [this]
  simp only [keptRuns, tagRule, withinRule, onlyLast, countKinds, withinKinds, List.any_cons, List.any_nil,
    Policy.countOf, hz, countRuleRuns_last, withinRuleRuns, Policy.withinOf, zeroDur, Dur.zero]
  simp

theorem take_of_flags (n : Nat) (pre l : List PSnap) :
    (((l.zip (flagsFrom (fun pre _ _ => decide ((pre.length : Int) < (n : Int))) pre l)).filter (·.2)).map (·.1)) =
      l.take (n - pre.length) := by
  induction l generalizing pre with
  | nil => simp [flagsFrom]
  | cons s rest ih =>
    simp only [flagsFrom, List.zip_cons_cons, List.filter_cons]
    by_cases hlt : pre.length < n
    · have : ((pre.length : Int) < (n : Int)) := by omega
      simp only [this, decide_true, if_true, List.map_cons]
      rw [ih (pre ++ [s])]
      have e : n - pre.length = (n - (pre ++ [s]).length) + 1 := by simp; omega
      rw [e, List.take_succ_cons]
    · have : ¬ ((pre.length : Int) < (n : Int)) := by omega
      simp only [this, decide_false, Bool.false_eq_true, if_false]
      rw [ih (pre ++ [s])]
      have e1 : n - pre.length = 0 := by omega
      have e2 : n - (pre ++ [s]).length = 0 := by simp; omega
      rw [e1, e2]; simp

/-- **keep_last**: `--keep-last n` keeps exactly the `n` newest snapshots (the first `n` of the
    stably sorted list) -/
theorem keep_last (sub : Int → Dur → Int) (now : Int) (l : List PSnap) (n : Nat) (ds : List Decision)
    (h : applyPolicy sub now l (onlyLast n) = .ok ds) : keepOf ds = (sortNewestFirst l).take n := by
  rw [applyPolicy_keep sub now l _ ds h]
  have : flagsFrom (keptRuns ⟨sub, latestOf now l, onlyLast n⟩) [] (sortNewestFirst l) =
      flagsFrom (fun pre _ _ => decide ((pre.length : Int) < (n : Int))) [] (sortNewestFirst l) := by
    apply flagsFrom_congr
    intro pre s rest _
    rw [keptRuns_onlyLast]
    have : ((n : Int) == -1) = false := by
      simp only [beq_eq_false_iff_ne, ne_eq]; omega
    simp [this]
  rw [this, take_of_flags]; simp

/-- `--keep-last unlimited` keeps everything -/
theorem keep_last_unlimited (sub : Int → Dur → Int) (now : Int) (l : List PSnap) (ds : List Decision)
    (h : applyPolicy sub now l (onlyLast (-1)) = .ok ds) : removeOf ds = [] := by
  rw [applyPolicy_eq] at h
  injection h with h
  have hfl := loop_flags_runs ⟨sub, latestOf now l, onlyLast (-1)⟩ _ (sort_sorted l)
  rw [h] at hfl
  have hall : ∀ d ∈ ds, d.keep = true := by
    have : ∀ (pre l' : List PSnap), ∀ b ∈ flagsFrom (keptRuns ⟨sub, latestOf now l, onlyLast (-1)⟩) pre l', b = true := by
      intro pre l'
      induction l' generalizing pre with
      | nil => simp [flagsFrom]
      | cons s rest ih =>
        intro b hb
        simp only [flagsFrom, List.mem_cons] at hb
        rcases hb with hb | hb
        · rw [hb, keptRuns_onlyLast]; rfl
        · exact ih _ b hb
    intro d hd
    exact this [] _ d.keep (hfl ▸ List.mem_map_of_mem hd)
  simp only [removeOf, List.map_eq_nil_iff, List.filter_eq_nil_iff]
  intro d hd; simp [hall d hd]

/-! ## monotonicity -/

/-- count `b` allows at least what count `a` allows (-1 = unlimited) -/
def countLe (a b : Int) : Prop := b = -1 ∨ (a ≠ -1 ∧ a ≤ b)

/-- the window of `d'` contains the window of `d`. For durations this is the oracle law
    "a longer duration gives an earlier (or equal) window start" — a property of Go's `AddDate/Add`
    for non-negative fields, validated by the harness on every case, not proved here. -/
def winLe (sub : Int → Dur → Int) (latest : Int) (d d' : Dur) : Prop :=
  d.zero = true ∨ (d'.zero = false ∧ sub latest d' ≤ sub latest d)

structure PolicyLe (sub : Int → Dur → Int) (latest : Int) (p q : Policy) : Prop where
  counts : ∀ k, countLe (p.countOf k) (q.countOf k)
  within : winLe sub latest p.within q.within
  withins : ∀ k, winLe sub latest (p.withinOf k) (q.withinOf k)
  tags : ∀ t ∈ p.tags, t ∈ q.tags

theorem any_mono {α} (l : List α) (f g : α → Bool) (h : ∀ a ∈ l, f a = true → g a = true) :
    l.any f = true → l.any g = true := by
  simp only [List.any_eq_true]
  rintro ⟨a, ha, hf⟩; exact ⟨a, ha, h a ha hf⟩

/-- **monotone, one position**: raising counts or durations or adding tag lists never un-keeps -/
theorem keptRuns_mono (sub : Int → Dur → Int) (latest : Int) (p q : Policy) (hle : PolicyLe sub latest p q)
    (pre : List PSnap) (s : PSnap) (isLast : Bool)
    (h : keptRuns ⟨sub, latest, p⟩ pre s isLast = true) : keptRuns ⟨sub, latest, q⟩ pre s isLast = true := by
  simp only [keptRuns, Bool.or_eq_true] at h ⊢
  rcases h with ((h | h) | h) | h
  · left; left; left
    simp only [tagRule, List.any_eq_true] at h ⊢
    obtain ⟨t, ht, hh⟩ := h
    exact ⟨t, hle.tags t ht, hh⟩
  · left; left; right
    simp only [withinRule, Bool.and_eq_true, Bool.not_eq_true', decide_eq_true_eq] at h ⊢
    rcases hle.within with hz | ⟨hz, hs⟩
    · rw [hz] at h; exact absurd h.1 (by simp)
    · exact ⟨hz, by omega⟩
  · left; right
    refine any_mono _ _ _ ?_ h
    intro k _ hk
    simp only [countRuleRuns, Bool.and_eq_true, Bool.or_eq_true, beq_iff_eq, decide_eq_true_eq] at hk ⊢
    refine ⟨?_, hk.2⟩
    rcases hle.counts k with hc | ⟨hc1, hc2⟩
    · exact Or.inl hc
    · rcases hk.1 with h1 | h1
      · exact absurd h1 hc1
      · exact Or.inr (by omega)
  · right
    refine any_mono _ _ _ ?_ h
    intro k _ hk
    simp only [withinRuleRuns, Bool.and_eq_true, Bool.not_eq_true', decide_eq_true_eq] at hk ⊢
    refine ⟨?_, hk.2⟩
    rcases hle.withins k with hz | ⟨hz, hs⟩
    · rw [hz] at hk; exact absurd hk.1.1 (by simp)
    · exact ⟨hz, by have := hk.1.2; omega⟩

/-- **monotone**: with the same snapshot list, every snapshot kept under `p` is kept under any
    policy `q` that is pointwise at least `p` -/
theorem monotone (sub : Int → Dur → Int) (now : Int) (l : List PSnap) (p q : Policy) (ds ds' : List Decision)
    (h : applyPolicy sub now l p = .ok ds) (h' : applyPolicy sub now l q = .ok ds')
    (hle : PolicyLe sub (latestOf now l) p q) : ∀ x ∈ keepOf ds, x ∈ keepOf ds' := by
  intro x hx
  rw [keep_iff sub now l p ds h] at hx
  rw [keep_iff sub now l q ds' h']
  obtain ⟨pre, rest, hs, hk⟩ := hx
  exact ⟨pre, rest, hs, keptRuns_mono sub _ p q hle pre x _ hk⟩

theorem monotone_count_example : countLe 3 5 ∧ countLe 3 (-1) ∧ countLe 0 1 ∧ ¬ countLe (-1) 5 := by
  refine ⟨Or.inr ⟨by decide, by decide⟩, Or.inl rfl, Or.inr ⟨by decide, by decide⟩, ?_⟩
  rintro (h | ⟨h, _⟩)
  · cases h
  · exact h rfl



/-- **keep_bucket_spec** (documented form): when the period keys of the sorted list are regular
    (non-increasing, none equal to -1: one time zone, years ≥ 0), a snapshot is kept iff it carries a
    keep-tag list, or lies in the `within` window, or fewer than `keep-last` snapshots are newer, or —
    for some period rule — it is the newest snapshot of its period (or the oldest snapshot of all)
    and fewer than `n` distinct periods are more recent, or the same inside a `within-<period>`
    window. -/
theorem keep_iff_periods (sub : Int → Dur → Int) (now : Int) (l : List PSnap) (p : Policy) (ds : List Decision)
    (h : applyPolicy sub now l p = .ok ds) (hreg : keysRegular (sortNewestFirst l) = true) (x : PSnap) :
    x ∈ keepOf ds ↔ ∃ pre rest, sortNewestFirst l = pre ++ x :: rest ∧
      keptPeriods ⟨sub, latestOf now l, p⟩ pre x rest.isEmpty = true := by
  rw [keep_iff sub now l p ds h]
  constructor
  · rintro ⟨pre, rest, hs, hk⟩
    exact ⟨pre, rest, hs, by rw [← keptRuns_eq_keptPeriods _ _ _ _ (regularAt_of_keysRegular _ pre rest x hs hreg)]; exact hk⟩
  · rintro ⟨pre, rest, hs, hk⟩
    exact ⟨pre, rest, hs, by rw [keptRuns_eq_keptPeriods _ _ _ _ (regularAt_of_keysRegular _ pre rest x hs hreg)]; exact hk⟩

/-- regular keys are what the civil-field laws give for a list in one time zone: a sufficient
    condition in terms of the oracle is that the keys are non-increasing and all years are ≥ 0 -/
theorem keysRegular_of (l : List PSnap)
    (hanti : ∀ k ∈ withinKinds, antitone (keysOf k 0 l) = true)
    (hciv : ∀ s ∈ l, CivilOK s.civ ∧ 0 ≤ s.civ.year ∧ 0 ≤ s.civ.isoYear) : keysRegular l = true := by
  simp only [keysRegular, pkeysOf_eq, List.all_eq_true, Bool.and_eq_true, Bool.not_eq_true']
  intro k hk
  refine ⟨hanti k hk, ?_⟩
  have hne : k ≠ .last := by intro e; subst e; simp [withinKinds] at hk
  have : ∀ (nr : Nat) (l' : List PSnap), (∀ s ∈ l', s ∈ l) → (-1 : Int) ∉ keysOf k nr l' := by
    intro nr l'
    induction l' generalizing nr with
    | nil => intro _; simp [keysOf]
    | cons s rest ih =>
      intro hsub hm
      simp only [keysOf, List.mem_cons] at hm
      rcases hm with hm | hm
      · have hc := hciv s (hsub s (by simp))
        exact key_ne_sentinel k hne s.civ nr hc.1 hc.2.1 hc.2.2 hm.symm
      · exact ih (nr + 1) (fun s' hs' => hsub s' (List.mem_cons_of_mem _ hs')) hm
  have := this 0 l (fun _ h => h)
  cases hc : (keysOf k 0 l).contains (-1) with
  | false => rfl
  | true => exact absurd (List.contains_iff_mem.mp hc) this

/-! ## non-vacuity -/

def keepIds : Result → List Nat
  | .ok ds => (keepOf ds).map (·.sn.id)
  | .panic => []
def removeIds : Result → List Nat
  | .ok ds => (removeOf ds).map (·.sn.id)
  | .panic => []
def mkSnap (id : Nat) (t : Int) (d h : Int) : PSnap := ⟨⟨id, t, "h", ["/p"], []⟩, ⟨2024, 5, d, h, 2024, 19⟩⟩
def exList : List PSnap := [mkSnap 0 100 10 8, mkSnap 1 400 12 9, mkSnap 2 300 11 23, mkSnap 3 200 11 7]

/-- four daily backups on three days, `--keep-daily 2`: the newest snapshot of each of the two most
    recent days is kept; hypotheses of the theorems (regular keys, CivilOK) hold for this list -/
example :
    keepIds (applyPolicy (fun t _ => t) 1000 exList { onlyLast 0 with daily := 2 }) = [1, 2] ∧
    removeIds (applyPolicy (fun t _ => t) 1000 exList { onlyLast 0 with daily := 2 }) = [3, 0] ∧
    keysRegular (sortNewestFirst exList) = true := by decide

/-- `--keep-daily 5` on the same list also keeps the oldest snapshot; equal timestamps keep their
    input order (stable sort) -/
example :
    keepIds (applyPolicy (fun t _ => t) 1000 exList { onlyLast 0 with daily := 5 }) = [1, 2, 0] ∧
    (sortNewestFirst [mkSnap 0 100 10 8, mkSnap 1 300 11 9, mkSnap 2 300 11 9, mkSnap 3 200 11 7]).map (·.sn.id) = [1, 2, 3, 0] := by
  decide


end Restic.Props.C22
