import Restic.Model.Init
import Restic.Proofs.BeFiles
import Restic.Gen.Source
import Restic.Gen.Consts
/-!
# C30 — init never overwrites an existing repository

Theorems about `Restic.Model.Init` (transcription of `runInit` / `CreateRepository` /
`Repository.Init` / `Repository.init` / `CreateConfig`), for **all** backend states, version
arguments, polynomials, injected faults and environment values.

Reading of the statement: "a key" / "a snapshot" is a file of that type whose name parses as an ID
(`Repository.List` skips every other name; restic itself never creates such names).
Irreducibility of the *random* polynomial is a property of `chunker.RandomPolynomial`, freshness of
the id one of `crypto/rand`; both are observed in the correspondence run (oracle fields of
`Observed`), not proved. A caller-supplied polynomial is stored as given (API precondition).
-/
namespace Restic.Props.C30
open Restic.Model.BeFiles Restic.Model.Init Restic.Proofs.BeFiles

/-- the constants of the current source -/
def K : Consts :=
  { minV := Restic.Gen.restic_MinRepoVersion, maxV := Restic.Gen.restic_MaxRepoVersion,
    stableV := Restic.Gen.restic_StableRepoVersion }

/-! ## the decision list, characterised once -/

/-- no config, no key, no snapshot (in the form the `if`s of the model produce) -/
def Free (st : State) : Prop :=
  ¬ (get st cfgH).isSome = true ∧ ¬ listHas st .key = true ∧ ¬ listHas st .snapshot = true

theorem free_iff (st : State) : Free st ↔ occupied st = false := by
  unfold Free occupied
  simp only [Bool.not_eq_true, Bool.or_eq_false_iff, and_assoc]

def readsOnly (l : List Ev) : Prop :=
  l = [] ∨ l = [.stat cfgH] ∨ l = [.stat cfgH, .list .key] ∨ l = [.stat cfgH, .list .key, .list .snapshot]

theorem readsOnly_mutating (l : List Ev) (h : readsOnly l) : ∀ e ∈ l, e.mutating = false := by
  rcases h with rfl | rfl | rfl | rfl <;> intro e he <;> simp only [List.mem_cons, List.not_mem_nil, or_false] at he
  · rcases he with rfl; rfl
  · rcases he with rfl | rfl <;> rfl
  · rcases he with rfl | rfl | rfl <;> rfl

def keySave (o : Oracle) : Ev := .save ⟨.key, o.keyName⟩ o.keyContent
def evFailCfg (o : Oracle) : List Ev := [.stat cfgH, .list .key, .list .snapshot, keySave o]
def evCreate (o : Oracle) : List Ev := [.stat cfgH, .list .key, .list .snapshot, keySave o, .save cfgH o.cfgContent]

/-- The three shapes a run of `Repository.Init` can have: (1) an error after reads only;
    (2) the injected config-save fault after the key was written, on a free location;
    (3) success on a free location with a supported version and without fault. -/
theorem repoInit_char (k : Consts) (st : State) (f : Fault) (v : Nat) (pol : Option Nat) (o : Oracle) :
    ((repoInit k st f v pol o).1.isOk = false ∧ readsOnly (repoInit k st f v pol o).2) ∨
    (repoInit k st f v pol o = (.err .saveConfigFailed, evFailCfg o) ∧ f = .saveCfg ∧ Free st) ∨
    (repoInit k st f v pol o = (.ok (createConfig v pol o), evCreate o)
      ∧ f = .none ∧ Free st ∧ k.minV ≤ v ∧ v ≤ k.maxV) := by
  unfold repoInit evFailCfg evCreate keySave
  repeat' split
  all_goals first
    | (left; exact ⟨rfl, Or.inl rfl⟩)
    | (left; exact ⟨rfl, Or.inr (Or.inl rfl)⟩)
    | (left; exact ⟨rfl, Or.inr (Or.inr (Or.inl rfl))⟩)
    | (left; exact ⟨rfl, Or.inr (Or.inr (Or.inr rfl))⟩)
    | (right; left; exact ⟨rfl, by assumption, by assumption, by assumption, by assumption⟩)
    | (right; right
       refine ⟨rfl, ?_, ⟨by assumption, by assumption, by assumption⟩, by omega, by omega⟩
       cases f <;> first | rfl | contradiction)

/-- the same for the command line (`runInit` + `CreateRepository`) -/
theorem runInit_char (k : Consts) (st : State) (f : Fault) (va : VerArg) (pol : Option Nat) (o : Oracle) :
    ((runInit k st f va pol o).1.isOk = false ∧ readsOnly (runInit k st f va pol o).2) ∨
    (runInit k st f va pol o = (.err .saveConfigFailed, evFailCfg o) ∧ f = .saveCfg ∧ Free st) ∨
    (∃ v, parseVersion k va = some v ∧ runInit k st f va pol o = (.ok (createConfig v pol o), evCreate o)
      ∧ f = .none ∧ Free st ∧ k.minV ≤ v ∧ v ≤ k.maxV) := by
  unfold runInit
  split
  · left; exact ⟨rfl, Or.inl rfl⟩
  · rename_i v hv
    split
    · left; exact ⟨rfl, Or.inl rfl⟩
    · rcases repoInit_char k st f v pol o with h | h | h
      · left; exact h
      · right; left; exact h
      · right; right; exact ⟨v, hv, h⟩

/-! ## refusal -/

/-- `init` on a location that holds a config, a key or a snapshot: error, and no write reaches the
    backend — whatever the version, polynomial, injected fault. -/
theorem init_refuses (k : Consts) (st : State) (f : Fault) (va : VerArg) (pol : Option Nat) (o : Oracle)
    (h : occupied st = true) :
    (runInit k st f va pol o).1.isOk = false ∧ ∀ e ∈ (runInit k st f va pol o).2, e.mutating = false := by
  rcases runInit_char k st f va pol o with ⟨h1, h2⟩ | ⟨_, _, hf⟩ | ⟨_, _, _, _, hf, _⟩
  · exact ⟨h1, readsOnly_mutating _ h2⟩
  · rw [(free_iff st).mp hf] at h; cases h
  · rw [(free_iff st).mp hf] at h; cases h

/-- the API entry point `Repository.Init` alone (versions outside the CLI's range included) -/
theorem repoInit_refuses (k : Consts) (st : State) (f : Fault) (v : Nat) (pol : Option Nat) (o : Oracle)
    (h : occupied st = true) :
    (repoInit k st f v pol o).1.isOk = false ∧ ∀ e ∈ (repoInit k st f v pol o).2, e.mutating = false := by
  rcases repoInit_char k st f v pol o with ⟨h1, h2⟩ | ⟨_, _, hf⟩ | ⟨_, _, hf, _⟩
  · exact ⟨h1, readsOnly_mutating _ h2⟩
  · rw [(free_iff st).mp hf] at h; cases h
  · rw [(free_iff st).mp hf] at h; cases h

/-- consequence: the backend state after a refused init is the state before -/
theorem init_refuses_state (k : Consts) (st : State) (f : Fault) (va : VerArg) (pol : Option Nat) (o : Oracle)
    (h : occupied st = true) : applyAll st (runInit k st f va pol o).2 = st :=
  applyAll_readonly _ st (init_refuses k st f va pol o h).2

/-! ## nothing is ever overwritten or removed -/

theorem get_none_of_not_listHas (st : State) (t : FType) (n : String) (hv : validID n = true)
    (hl : ¬ listHas st t = true) : get st ⟨t, n⟩ = none := by
  cases hg : get st ⟨t, n⟩ with
  | none => rfl
  | some c =>
    have hm := mem_of_get st _ _ hg
    exfalso; apply hl
    unfold listHas
    rw [List.any_eq_true]
    exact ⟨_, hm, by simp [hv]⟩

theorem free_cfg_none (st : State) (hf : Free st) : get st cfgH = none := by
  cases hg : get st cfgH with
  | none => rfl
  | some c => exact absurd (by rw [hg]; rfl) hf.1

/-- every write of `init` goes to a handle that did not exist before, and there is no remove.
    `validID o.keyName`: the new key file is named by its SHA-256. Holds for all inputs, including
    injected faults and occupied locations. -/
theorem init_writes_fresh (k : Consts) (st : State) (f : Fault) (va : VerArg) (pol : Option Nat) (o : Oracle)
    (hk : validID o.keyName = true) :
    ∀ e ∈ (runInit k st f va pol o).2, ∀ h, e.target = some h → get st h = none ∧ ∃ c, e = .save h c := by
  intro e he h ht
  rcases runInit_char k st f va pol o with ⟨_, h2⟩ | ⟨hr, _, hf⟩ | ⟨_, _, hr, _, hf, _⟩
  · have := readsOnly_mutating _ h2 e he
    cases e <;> simp_all [Ev.mutating, Ev.target]
  · rw [hr] at he
    simp only [evFailCfg, keySave, List.mem_cons, List.not_mem_nil, or_false] at he
    rcases he with rfl | rfl | rfl | rfl <;> simp only [Ev.target, Option.some.injEq, reduceCtorEq] at ht
    subst ht
    exact ⟨get_none_of_not_listHas st .key _ hk hf.2.1, _, rfl⟩
  · rw [hr] at he
    simp only [evCreate, keySave, List.mem_cons, List.not_mem_nil, or_false] at he
    rcases he with rfl | rfl | rfl | rfl | rfl <;> simp only [Ev.target, Option.some.injEq, reduceCtorEq] at ht
    · subst ht; exact ⟨get_none_of_not_listHas st .key _ hk hf.2.1, _, rfl⟩
    · subst ht; exact ⟨free_cfg_none st hf, _, rfl⟩

/-- **init never overwrites**: every file present before `init` is present afterwards with the same
    content — for every location, argument and fault. -/
theorem init_preserves (k : Consts) (st : State) (f : Fault) (va : VerArg) (pol : Option Nat) (o : Oracle)
    (hk : validID o.keyName = true) (h : Handle) (c : Content) (hg : get st h = some c) :
    get (applyAll st (runInit k st f va pol o).2) h = some c := by
  rw [get_applyAll_untouched _ st h, hg]
  intro e he ht
  have := (init_writes_fresh k st f va pol o hk e he h ht).1
  rw [hg] at this; cases this

/-! ## creation -/

/-- on a free location, without faults and with a supported version, `init` saves exactly a key and
    then the config; the config carries the requested version, the fresh id and the given or the
    random polynomial. -/
theorem init_creates (k : Consts) (st : State) (va : VerArg) (pol : Option Nat) (o : Oracle) (v : Nat)
    (hocc : occupied st = false) (hv : parseVersion k va = some v) (hr : k.minV ≤ v ∧ v ≤ k.maxV) :
    runInit k st .none va pol o =
      (.ok { version := v, id := o.randID, pol := pol.getD o.randPol }, evCreate o) := by
  obtain ⟨h1, h2, h3⟩ := (free_iff st).mpr hocc
  unfold runInit
  rw [hv]
  simp only
  rw [if_neg (by omega)]
  unfold repoInit
  rw [if_neg (by omega), if_neg (by omega)]
  simp only [reduceCtorEq, if_false, h1, h2, h3, createConfig, evCreate, keySave]
  cases pol <;> rfl

/-- whatever `init` reports as created has a supported version, namely the requested one, the
    environment's fresh id, and the given-or-random polynomial; the location was free. -/
theorem init_ok_inv (k : Consts) (st : State) (f : Fault) (va : VerArg) (pol : Option Nat) (o : Oracle) (cfg : Config)
    (h : (runInit k st f va pol o).1 = .ok cfg) :
    k.minV ≤ cfg.version ∧ cfg.version ≤ k.maxV ∧ parseVersion k va = some cfg.version ∧
    cfg.id = o.randID ∧ cfg.pol = pol.getD o.randPol ∧ occupied st = false ∧ f = .none ∧
    (runInit k st f va pol o).2 = evCreate o := by
  rcases runInit_char k st f va pol o with ⟨h1, _⟩ | ⟨hr, _, _⟩ | ⟨v, hv, hr, hf, hfree, hlo, hhi⟩
  · rw [h] at h1; cases h1
  · rw [hr] at h; cases h
  · rw [hr] at h
    simp only [Result.ok.injEq] at h
    subst h
    refine ⟨hlo, hhi, hv, rfl, ?_, (free_iff st).mp hfree, hf, by rw [hr]⟩
    cases pol <;> rfl

/-! ## the transcription meets the executable statement of C30 -/

/-- what the model's run looks like to an observer; the four oracle fields are what the environment
    guarantees (assumptions, validated against the real libraries in the correspondence run) -/
def observe (st : State) (r : Result × List Ev) (irr fresh opens rej : Bool) : Observed :=
  { pre := st, post := applyAll st r.2, ok := r.1.isOk,
    cfg := match r.1 with | .ok c => some c | .err _ => none,
    irreducible := irr, idFresh := fresh, opens := opens, rejectsWrong := rej }

theorem preserved_of_get (pre post : State) (h : ∀ p ∈ pre, get post p.1 = get pre p.1) :
    preserved pre post = true := by
  unfold preserved
  rw [List.all_eq_true]
  intro p hp
  simp [h p hp]

theorem isNone_false_of_mem (st : State) (p : Handle × Content) (hp : p ∈ st) :
    (get st p.1).isNone = false := by
  have := get_isSome_of_mem st p hp
  cases hg : get st p.1 with
  | none => rw [hg] at this; cases this
  | some _ => rfl

theorem newFiles_self (st : State) : newFiles st st = [] := by
  unfold newFiles
  rw [List.map_eq_nil_iff, List.filter_eq_nil_iff]
  intro p hp
  simp [isNone_false_of_mem st p hp]

theorem filter_erase_isNone (st : State) (h : Handle) :
    (erase st h).filter (fun p => (get st p.1).isNone) = [] := by
  rw [List.filter_eq_nil_iff]
  intro p hp
  have : p ∈ st := (List.mem_filter.mp hp).1
  simp [isNone_false_of_mem st p this]

/-- new files after saving one fresh handle -/
theorem newFiles_put (st : State) (h : Handle) (c : Content) (hn : get st h = none) :
    newFiles st (put st h c) = [h] := by
  unfold newFiles put
  simp only [List.filter_cons, hn, Option.isNone_none, if_true, filter_erase_isNone, List.map_cons, List.map_nil]

theorem newFiles_put_put (st : State) (h1 h2 : Handle) (c1 c2 : Content) (hn1 : get st h1 = none)
    (hn2 : get st h2 = none) (hne : h1 ≠ h2) :
    newFiles st (put (put st h1 c1) h2 c2) = [h2, h1] := by
  unfold newFiles
  have e1 : put (put st h1 c1) h2 c2 = (h2, c2) :: (h1, c1) :: erase (erase st h1) h2 := by
    simp only [put, erase, List.filter_cons, ne_eq, hne, not_false_eq_true, decide_true, if_true]
  rw [e1]
  have e2 : (erase (erase st h1) h2).filter (fun p => (get st p.1).isNone) = [] := by
    rw [List.filter_eq_nil_iff]
    intro p hp
    have : p ∈ st := (List.mem_filter.mp (List.mem_filter.mp hp).1).1
    simp [isNone_false_of_mem st p this]
  simp only [List.filter_cons, hn1, hn2, Option.isNone_none, if_true, e2, List.map_cons, List.map_nil]

/-- **Main theorem.** For every location, version argument, polynomial, fault and environment, the
    run of the transcription satisfies the executable statement `specOK` of C30 — provided the
    environment delivers what restic relies on: the key file is named by a hash (`validID`), a
    random polynomial is irreducible, the id is fresh, and the key written for the password opens
    with it and with no other (C29). -/
theorem runInit_spec (k : Consts) (st : State) (f : Fault) (va : VerArg) (pol : Option Nat) (o : Oracle)
    (hk : validID o.keyName = true) :
    specOK k (parseVersion k va) pol (f != .none) (observe st (runInit k st f va pol o) true true true true) = true := by
  have hpres : preserved st (applyAll st (runInit k st f va pol o).2) = true := by
    apply preserved_of_get
    intro p hp
    have hs := get_isSome_of_mem st p hp
    cases hg : get st p.1 with
    | none => rw [hg] at hs; cases hs
    | some c => exact init_preserves k st f va pol o hk p.1 c hg
  rcases runInit_char k st f va pol o with ⟨h1, h2⟩ | ⟨hr, hf, hfree⟩ | ⟨v, hv, hr, hf, hfree, hlo, hhi⟩
  · -- error after reads only: nothing written at all
    have hst : applyAll st (runInit k st f va pol o).2 = st := applyAll_readonly _ st (readsOnly_mutating _ h2)
    unfold specOK observe
    simp only [hst, h1, newFiles_self, preserved_of_get st st (fun _ _ => rfl)]
    simp
  · -- injected fault when saving the config: the key stays behind
    have hn1 : get st ⟨.key, o.keyName⟩ = none := get_none_of_not_listHas st .key _ hk hfree.2.1
    have hnf : newFiles st (applyAll st (runInit k st f va pol o).2) = [⟨.key, o.keyName⟩] := by
      rw [hr]
      simp only [evFailCfg, keySave, applyAll, List.foldl_cons, List.foldl_nil, apply]
      exact newFiles_put st _ _ hn1
    unfold specOK observe
    simp only [hpres, hnf, (free_iff st).mp hfree]
    rw [hr, hf]
    simp [Result.isOk]
  · have hn1 : get st ⟨.key, o.keyName⟩ = none := get_none_of_not_listHas st .key _ hk hfree.2.1
    have hn2 : get st cfgH = none := free_cfg_none st hfree
    have hnf : newFiles st (applyAll st (runInit k st f va pol o).2) = [cfgH, ⟨.key, o.keyName⟩] := by
      rw [hr]
      simp only [evCreate, keySave, applyAll, List.foldl_cons, List.foldl_nil, apply]
      exact newFiles_put_put st _ _ _ _ hn1 hn2 (by simp [cfgH])
    unfold specOK observe
    simp only [hpres, hnf, (free_iff st).mp hfree, hv]
    rw [hr]
    cases pol <;> simp [Result.isOk, createConfig, hlo, hhi, cfgH]

/-! ## ties to the current source (T1) -/

/-- the default (`stable`) and `latest` versions are supported ones: a plain `restic init` on a
    free location succeeds (with `init_creates`) -/
theorem default_versions_supported :
    K.minV ≤ K.stableV ∧ K.stableV ≤ K.maxV ∧ K.minV ≤ K.maxV := by decide

theorem init_default_creates (st : State) (va : VerArg) (pol : Option Nat) (o : Oracle)
    (hocc : occupied st = false) (hva : va = .stable ∨ va = .latest) :
    (runInit K st .none va pol o).1.isOk = true := by
  rcases hva with rfl | rfl
  · rw [init_creates K st .stable pol o K.stableV hocc rfl (by decide)]; rfl
  · rw [init_creates K st .latest pol o K.maxV hocc rfl (by decide)]; rfl

/-- the version switch of `runInit` has exactly the spellings the model's `VerArg` distinguishes -/
theorem runInit_switch : Restic.Gen.C30_runInit_cases = ["\"latest\"", "\"\"", "\"stable\"", "default"] := by decide

/-- order of the checks in `Repository.Init`: config stat, then two listings, then `CreateConfig`,
    then `init` — the order of the model's decision list -/
theorem Init_order :
    Restic.Gen.C30_Init_calls.filter (fun c => c ∈ ["r.be.Stat", "r.List", "restic.CreateConfig", "r.init", "r.be.Save", "r.be.Remove", "restic.SaveConfig"])
      = ["r.be.Stat", "r.List", "r.List", "restic.CreateConfig", "r.init"] := by decide

/-- `Repository.init`: key first, config last (a crash in between leaves a key, which makes the
    next `init` refuse) -/
theorem init_order :
    Restic.Gen.C30_init_calls.filter (fun c => c ∈ ["createMasterKey", "restic.SaveConfig"])
      = ["createMasterKey", "restic.SaveConfig"] := by decide

/-- `CreateRepository` checks the version range before it opens/creates the backend and calls `Init` -/
theorem CreateRepository_order :
    Restic.Gen.C30_CreateRepository_calls.filter (fun c => c ∈ ["innerOpenBackend", "s.Init"])
      = ["innerOpenBackend", "s.Init"] ∧ Restic.Gen.C30_CreateRepository_calls.head? = some "errors.Fatalf" := by decide

/-! ## non-vacuity -/

def exO : Oracle := { randPol := 0x3DA3358B4DC173, randID := "id", keyName := String.ofList (List.replicate 64 'a'),
                      keyContent := "K", cfgContent := "C" }

/-- a location with packs and an index but no config/key/snapshot is *free*: init creates -/
example : (runInit K [(⟨.data, "p"⟩, "x"), (⟨.index, "i"⟩, "y")] .none .stable none exO).1.isOk = true := by decide
/-- a location with only a snapshot is refused -/
example : runInit K [(⟨.snapshot, String.ofList (List.replicate 64 'b')⟩, "x")] .none .stable none exO
    = (.err .containsSnapshots, [.stat cfgH, .list .key, .list .snapshot]) := by decide
/-- boundary of the reading: a key file whose name is not an ID does not count as a key -/
example : (runInit K [(⟨.key, "nothex"⟩, "x")] .none (.num 1) none exO).1.isOk = true := by decide
example : validID exO.keyName = true := by decide

end Restic.Props.C30
