import Restic.Model.CheckHist
import Restic.Gen.Source
/-!
# C15 — check reports no errors on any repository restic itself produced

Composite property. Theorems over `Restic.Model.CheckHist`:

* `step_inv`, `run_inv` — every accepted event preserves the repository invariant `Inv`
  (index entries describe stored packs exactly; every blob referenced by a snapshot is indexed;
  pack ids determine content);
* `accept_prefix_closed` — the command languages are prefix closed (a run cut at any backend
  operation is again a run of the language);
* `inv_findings_clean`, `inv_checkok` — in a state satisfying `Inv`, everything `check` can report
  is a hint (orphaned pack, pack listed by several index files), never an error;
* `account_clean_iff`, `hints_not_errors` — the transcription of `runCheck`'s accounting sets
  `errorsFound` / `num_errors` exactly for the findings classified as errors;
* **`produced_checkok`** — for every history of accepted command traces from the empty repository,
  `CheckOK'` holds in the final state; **`produced_checkok_cut`** — the same when every command is
  cut at an arbitrary point.

What is *not* proved here (see docs/C15.md): that the real commands only emit traces of these
languages — that is the correspondence run (recorded backend traces of the real CLI are replayed
through `accept`) and, command by command, the subject of C09, C11, C26, C29, C31–C34.
-/
namespace Restic.Props.C15
open Restic.Model.CheckHist

/-- the repository invariant maintained by all commands at every backend operation -/
structure Inv (r : Repo) : Prop where
  entries_stored : ∀ ie ∈ r.idx, ∀ e ∈ ie.2, e ∈ r.packs
  snaps_indexed : ∀ sn ∈ r.snaps, ∀ b ∈ sn.2, indexed r b = true
  packs_unique : ∀ q ∈ r.packs, ∀ q' ∈ r.packs, q.1 = q'.1 → q.2 = q'.2

theorem inv_empty : Inv Repo.empty :=
  ⟨by simp [Repo.empty], by simp [Repo.empty], by simp [Repo.empty]⟩

theorem indexed_iff (r : Repo) (b : Id) :
    indexed r b = true ↔ ∃ ie ∈ r.idx, ∃ e ∈ ie.2, b ∈ e.2 := by
  simp [indexed]

theorem indexedWithout_iff (i : Id) (r : Repo) (b : Id) :
    indexedWithout i r b = true ↔ ∃ ie ∈ r.idx, ie.1 ≠ i ∧ ∃ e ∈ ie.2, b ∈ e.2 := by
  simp [indexedWithout]

theorem indexed_mono {r r' : Repo} (h : ∀ ie ∈ r.idx, ie ∈ r'.idx) {b : Id}
    (hb : indexed r b = true) : indexed r' b = true := by
  rw [indexed_iff] at hb ⊢
  obtain ⟨ie, hie, e, he, hbe⟩ := hb
  exact ⟨ie, h ie hie, e, he, hbe⟩

/-- **one accepted event preserves the invariant** -/
theorem step_inv (r : Repo) (e : Ev) (hI : Inv r) (hg : evGuard r e = true) : Inv (apply r e) := by
  cases e with
  | savePack p bs =>
    simp only [apply]
    split
    · exact hI
    · refine ⟨?_, ?_, ?_⟩
      · intro ie hie e he
        exact List.mem_cons_of_mem _ (hI.entries_stored ie hie e he)
      · intro sn hsn b hb
        exact indexed_mono (r := r) (fun _ h => h) (hI.snaps_indexed sn hsn b hb)
      · simp only [evGuard, List.all_eq_true, Bool.or_eq_true, bne_iff_ne, ne_eq, beq_iff_eq] at hg
        intro q hq q' hq' hqq
        simp only [List.mem_cons] at hq hq'
        rcases hq with rfl | hq <;> rcases hq' with rfl | hq'
        · rfl
        · rcases hg q' hq' with h | h
          · exact absurd hqq.symm h
          · exact h.symm
        · rcases hg q hq with h | h
          · exact absurd hqq h
          · exact h
        · exact hI.packs_unique q hq q' hq' hqq
  | saveIndex i es =>
    simp only [evGuard, List.all_eq_true, List.contains_iff_mem] at hg
    simp only [apply]
    split
    · exact hI
    · refine ⟨?_, ?_, hI.packs_unique⟩
      · intro ie hie e he
        simp only [List.mem_cons] at hie
        rcases hie with rfl | hie
        · exact hg e he
        · exact hI.entries_stored ie hie e he
      · intro sn hsn b hb
        exact indexed_mono (r := r) (fun _ h => List.mem_cons_of_mem _ h) (hI.snaps_indexed sn hsn b hb)
  | saveSnap s ns =>
    simp only [evGuard, List.all_eq_true] at hg
    simp only [apply]
    split
    · exact hI
    · refine ⟨hI.entries_stored, ?_, hI.packs_unique⟩
      intro sn hsn b hb
      simp only [List.mem_cons] at hsn
      rcases hsn with rfl | hsn
      · exact indexed_mono (r := r) (fun _ h => h) (hg b hb)
      · exact indexed_mono (r := r) (fun _ h => h) (hI.snaps_indexed sn hsn b hb)
  | removePack p =>
    simp only [evGuard, List.all_eq_true, bne_iff_ne, ne_eq] at hg
    refine ⟨?_, ?_, ?_⟩
    · intro ie hie e he
      simp only [apply, List.mem_filter, bne_iff_ne, ne_eq]
      exact ⟨hI.entries_stored ie hie e he, hg ie hie e he⟩
    · intro sn hsn b hb
      exact indexed_mono (r := r) (fun _ h => h) (hI.snaps_indexed sn hsn b hb)
    · intro q hq q' hq' hqq
      simp only [apply, List.mem_filter] at hq hq'
      exact hI.packs_unique q hq.1 q' hq'.1 hqq
  | removeIndex i =>
    simp only [evGuard, List.all_eq_true] at hg
    refine ⟨?_, ?_, hI.packs_unique⟩
    · intro ie hie e he
      simp only [apply, List.mem_filter] at hie
      exact hI.entries_stored ie hie.1 e he
    · intro sn hsn b hb
      have := (indexedWithout_iff i r b).mp (hg sn hsn b hb)
      obtain ⟨ie, hie, hne, e, he, hbe⟩ := this
      rw [indexed_iff]
      refine ⟨ie, ?_, e, he, hbe⟩
      simp only [apply, List.mem_filter, bne_iff_ne, ne_eq]
      exact ⟨hie, hne⟩
  | removeSnap s =>
    refine ⟨hI.entries_stored, ?_, hI.packs_unique⟩
    intro sn hsn b hb
    simp only [apply, List.mem_filter] at hsn
    exact indexed_mono (r := r) (fun _ h => h) (hI.snaps_indexed sn hsn.1 b hb)
  | other => exact hI

/-- every trace of a command language preserves the invariant -/
theorem run_inv (c : Cmd) (tr : List Ev) (r : Repo) (hI : Inv r) (ha : accept c r tr = true) :
    Inv (run r tr) := by
  induction tr generalizing r with
  | nil => exact hI
  | cons e t ih =>
    simp only [accept, Bool.and_eq_true] at ha
    simp only [run, List.foldl_cons]
    exact ih (apply r e) (step_inv r e hI ha.1.2) ha.2

/-- **prefix closure**: a run that is cut after `k` backend operations is a run of the language -/
theorem accept_prefix_closed (c : Cmd) (tr : List Ev) (r : Repo) (k : Nat)
    (ha : accept c r tr = true) : accept c r (tr.take k) = true := by
  induction tr generalizing r k with
  | nil => simp [accept]
  | cons e t ih =>
    cases k with
    | zero => simp [accept]
    | succ k =>
      simp only [accept, Bool.and_eq_true] at ha
      simp only [List.take_succ_cons, accept, Bool.and_eq_true]
      exact ⟨ha.1, ih (apply r e) k ha.2⟩

/-- so the invariant holds at **every crash point** of an accepted run -/
theorem run_inv_every_prefix (c : Cmd) (tr : List Ev) (r : Repo) (hI : Inv r)
    (ha : accept c r tr = true) (k : Nat) : Inv (run r (tr.take k)) :=
  run_inv c _ r hI (accept_prefix_closed c tr r k ha)

/-! ### the classification -/

theorem mem_entries (r : Repo) (x : Id × Id × Blobs) :
    x ∈ entries r ↔ ∃ ie ∈ r.idx, ie.1 = x.1 ∧ (x.2.1, x.2.2) ∈ ie.2 := by
  simp only [entries, List.mem_flatMap, List.mem_map]
  constructor
  · rintro ⟨ie, hie, e, he, rfl⟩
    exact ⟨ie, hie, rfl, he⟩
  · rintro ⟨ie, hie, h1, h2⟩
    exact ⟨ie, hie, (x.2.1, x.2.2), h2, by rw [h1]⟩

theorem packContent_of_mem (r : Repo) (hI : Inv r) (p : Id) (bs : Blobs) (h : (p, bs) ∈ r.packs) :
    packContent r p = some bs := by
  unfold packContent
  cases hf : r.packs.find? (fun q => q.1 == p) with
  | none =>
    have := List.find?_eq_none.mp hf (p, bs) h
    simp at this
  | some q =>
    have hq : q ∈ r.packs := List.mem_of_find?_eq_some hf
    have hp : (q.1 == p) = true := List.find?_some (p := fun (q : Id × Blobs) => q.1 == p) hf
    have : q.2 = bs := hI.packs_unique q hq (p, bs) h (by simpa using hp)
    simp [this]

/-- **under the invariant everything check reports is a hint** -/
theorem inv_findings_clean (r : Repo) (hI : Inv r) : ∀ f ∈ findings r, isError f = false := by
  intro f hf
  simp only [findings, List.mem_append] at hf
  rcases hf with (hf | hf) | hf
  · -- findings about index entries
    obtain ⟨x, hx, hfx⟩ := List.mem_flatMap.mp hf
    obtain ⟨ie, hie, _, hxe⟩ := (mem_entries r x).mp hx
    have hstored : (x.2.1, x.2.2) ∈ r.packs := hI.entries_stored ie hie _ hxe
    have hpc := packContent_of_mem r hI _ _ hstored
    have hno : (entries r).any (fun y => y.2.1 == x.2.1 && y.2.2 != x.2.2) = false := by
      apply Bool.eq_false_iff.mpr
      intro hany
      obtain ⟨y, hy, hyp⟩ := List.any_eq_true.mp hany
      simp only [Bool.and_eq_true, beq_iff_eq, bne_iff_ne, ne_eq] at hyp
      obtain ⟨ie', hie', _, hye⟩ := (mem_entries r y).mp hy
      have hy' : (y.2.1, y.2.2) ∈ r.packs := hI.entries_stored ie' hie' _ hye
      exact hyp.2 (hI.packs_unique _ hy' _ hstored hyp.1)
    simp only [entryFindings, hpc, beq_self_eq_true, if_true, hno, Bool.false_eq_true, if_false,
      List.nil_append] at hfx
    split at hfx
    · simp only [List.mem_singleton] at hfx
      subst hfx; rfl
    · simp at hfx
  · -- orphaned packs
    obtain ⟨q, _, hfq⟩ := List.mem_flatMap.mp hf
    split at hfq
    · simp at hfq
    · simp only [List.mem_singleton] at hfq
      subst hfq; rfl
  · -- snapshots
    obtain ⟨sn, hsn, hfs⟩ := List.mem_flatMap.mp hf
    obtain ⟨b, hb, _⟩ := List.mem_map.mp hfs
    simp only [List.mem_filter, Bool.not_eq_true'] at hb
    have := hI.snaps_indexed sn hsn b hb.1
    rw [this] at hb
    exact absurd hb.2 (by simp)

theorem foldl_accountStep_errorsFound (fs : List Finding) (s : Summary) :
    (fs.foldl accountStep s).errorsFound = (s.errorsFound || fs.any isError) := by
  induction fs generalizing s with
  | nil => simp
  | cons f t ih =>
    simp only [List.foldl_cons, ih, List.any_cons]
    cases f <;> simp [accountStep, isError, Bool.or_assoc]

theorem foldl_accountStep_numErrors_zero (fs : List Finding) (s : Summary)
    (h : ∀ f ∈ fs, isError f = false) : (fs.foldl accountStep s).numErrors = s.numErrors := by
  induction fs generalizing s with
  | nil => rfl
  | cons f t ih =>
    simp only [List.foldl_cons]
    rw [ih _ (fun g hg => h g (List.mem_cons_of_mem _ hg))]
    have hf := h f (List.mem_cons_self)
    cases f <;> simp_all [accountStep, isError]

/-- **`runCheck`'s accounting**: `errorsFound` (exit status 1) iff some finding is classified as an
    error. -/
theorem account_clean_iff (fs : List Finding) :
    (account fs).errorsFound = false ↔ ∀ f ∈ fs, isError f = false := by
  unfold account
  split
  · next hidx =>
    rw [foldl_accountStep_errorsFound]
    obtain ⟨f, hf, hfe⟩ := List.any_eq_true.mp hidx
    have hferr : isError f = true := by cases f <;> simp_all [isIndexLoadError, isError]
    have hphase : isIndexPhase f = true := by cases f <;> simp_all [isIndexLoadError, isIndexPhase]
    constructor
    · intro h
      simp only [Bool.or_eq_false_iff] at h
      have hnone := h.2
      have : (List.filter isIndexPhase fs).any isError = true :=
        List.any_eq_true.mpr ⟨f, List.mem_filter.mpr ⟨hf, hphase⟩, hferr⟩
      rw [this] at hnone
      exact absurd hnone (by simp)
    · intro h
      have := h f hf
      rw [hferr] at this
      exact absurd this (by simp)
  · rw [foldl_accountStep_errorsFound]
    simp only [Bool.false_or]
    constructor
    · intro h f hf
      cases hfe : isError f with
      | false => rfl
      | true =>
        have : fs.any isError = true := List.any_eq_true.mpr ⟨f, hf, hfe⟩
        rw [this] at h
        exact absurd h (by simp)
    · intro h
      apply Bool.eq_false_iff.mpr
      intro hany
      obtain ⟨f, hf, hfe⟩ := List.any_eq_true.mp hany
      rw [h f hf] at hfe
      exact absurd hfe (by simp)

/-- … and then `num_errors` is 0 and the exit status is 0 -/
theorem account_clean_summary (fs : List Finding) (h : ∀ f ∈ fs, isError f = false) :
    (account fs).numErrors = 0 ∧ exitCode (account fs) = 0 := by
  have hclean := (account_clean_iff fs).mpr h
  refine ⟨?_, by simp [exitCode, hclean]⟩
  unfold account
  split
  · exact foldl_accountStep_numErrors_zero _ _ (fun f hf => h f (List.mem_filter.mp hf).1)
  · exact foldl_accountStep_numErrors_zero _ _ h

/-- **hints are not errors**: orphaned packs, packs listed by several index files with identical
    entries and mixed packs never make check fail, whatever their number. -/
theorem hints_not_errors (fs : List Finding)
    (h : ∀ f ∈ fs, (∃ p, f = .orphan p) ∨ (∃ p, f = .duplicate p) ∨ (∃ p, f = .mixed p)) :
    exitCode (account fs) = 0 ∧ (account fs).numErrors = 0 := by
  have hc : ∀ f ∈ fs, isError f = false := by
    intro f hf
    rcases h f hf with ⟨p, rfl⟩ | ⟨p, rfl⟩ | ⟨p, rfl⟩ <;> rfl
  exact ⟨(account_clean_summary fs hc).2, (account_clean_summary fs hc).1⟩

/-- the invariant implies `CheckOK'` -/
theorem inv_checkok (r : Repo) (hI : Inv r) : CheckOK' r = true := by
  unfold CheckOK'
  rw [(account_clean_iff _).mpr (inv_findings_clean r hI)]
  rfl

/-! ### histories -/

theorem runH_inv (h : History) (r : Repo) (hI : Inv r) (ha : acceptH r h = true) : Inv (runH r h) := by
  induction h generalizing r with
  | nil => exact hI
  | cons x t ih =>
    obtain ⟨c, tr⟩ := x
    simp only [acceptH, Bool.and_eq_true] at ha
    exact ih (run r tr) (run_inv c tr r hI ha.1) ha.2

theorem runCut_inv (h : CutHistory) (r : Repo) (hI : Inv r) (ha : acceptCut r h = true) :
    Inv (runCut r h) := by
  induction h generalizing r with
  | nil => exact hI
  | cons x t ih =>
    obtain ⟨c, tr, k⟩ := x
    simp only [acceptCut, Bool.and_eq_true] at ha
    exact ih _ (run_inv_every_prefix c tr r hI ha.1 k) ha.2

/-- **C15**: after any history of command runs, each within its command's language, starting from
    the empty repository, `check --read-data` reports no error (at most hints). -/
theorem produced_checkok (h : History) (ha : acceptH Repo.empty h = true) :
    CheckOK' (runH Repo.empty h) = true :=
  inv_checkok _ (runH_inv h _ inv_empty ha)

/-- **C15 with crash points**: the same when every command of the history is cut after an
    arbitrary number of backend operations. -/
theorem produced_checkok_cut (h : CutHistory) (ha : acceptCut Repo.empty h = true) :
    CheckOK' (runCut Repo.empty h) = true :=
  inv_checkok _ (runCut_inv h _ inv_empty ha)

/-- link to the executable statement: in such a state the model of check exits 0 with
    `num_errors = 0` — what `specOK` demands of the real command's output. -/
theorem produced_spec (h : CutHistory) (ha : acceptCut Repo.empty h = true) :
    let s := account (findings (runCut Repo.empty h))
    specOK (exitCode s) s.numErrors 0 = true := by
  have hI := runCut_inv h _ inv_empty ha
  have := account_clean_summary _ (inv_findings_clean _ hI)
  simp [specOK, this.1, this.2]

/-! ### T1: the classification in the source -/

/-- the calls of `runCheck` between two markers (exclusive) -/
def between (l : List String) (a b : String) : List String :=
  ((l.dropWhile (· != a)).drop 1).takeWhile (· != b)

/-- the type switch over the index hints in `runCheck` (between creating `salvagePacks` and the
    `len(errs)` test): the first case (incomplete pack entry) prints with the error printer `E`
    and records the pack for salvage; the second and third case (duplicate, mixed) print with the
    hint printer `S`; the default case is an error again; then the two hint explanations. -/
theorem runCheck_hint_switch :
    between Restic.Gen.runCheck_calls "restic.NewIDSet" "len" =
      ["hint.Error", "printer.E", "salvagePacks.Insert", "hint.Error", "printer.S", "hint.Error", "printer.S",
       "printer.E", "printer.S", "printer.S"] := by
  decide

/-- the phases of `runCheck` in order: index, pack metadata, structure, pack data -/
theorem runCheck_phase_order :
    (Restic.Gen.runCheck_calls.filter fun c => c ∈ ["chkr.LoadIndex", "chkr.Packs", "chkr.Structure", "chkr.ReadPacks"]) =
      ["chkr.LoadIndex", "chkr.Packs", "chkr.Structure", "chkr.ReadPacks"] := by
  decide

/-! ### non-vacuity -/

/-- a backup (pack, index, snapshot), an interrupted second backup that leaves an orphaned pack,
    a repair index interrupted before the old index is removed (duplicate), then forget + prune -/
def exHistory : CutHistory :=
  [ (.backup, [.other, .savePack "p1" ["d1", "t1"], .saveIndex "i1" [("p1", ["d1", "t1"])], .saveSnap "s1" ["d1", "t1"], .other], 5),
    (.backup, [.other, .savePack "p2" ["d2"], .saveIndex "i2" [("p2", ["d2"])], .saveSnap "s2" ["d1", "d2", "t1"]], 2),
    (.repairIndex, [.saveIndex "i3" [("p1", ["d1", "t1"])], .removeIndex "i1"], 1),
    (.forgetPrune, [.removeSnap "s1", .removePack "p2"], 2) ]

example : acceptCut Repo.empty exHistory = true := by decide
example : CheckOK' (runCut Repo.empty exHistory) = true := by decide
/-- the state reached is not trivial: it has hints -/
example : (account (findings (runCut Repo.empty (exHistory.take 3)))).hintRepairIndex = true ∧
          (account (findings (runCut Repo.empty (exHistory.take 3)))).hintPrune = true := by decide
/-- the languages exclude the orders that would break the repository: removing a pack that is
    still indexed, saving a snapshot before its index -/
example : accept .prune ⟨[("p1", ["d1"])], [("i1", [("p1", ["d1"])])], []⟩ [.removePack "p1"] = false := by decide
example : accept .backup Repo.empty [.savePack "p1" ["d1"], .saveSnap "s1" ["d1"]] = false := by decide
/-- … and the classification does flag such states -/
example : CheckOK' ⟨[], [("i1", [("p1", ["d1"])])], [("s1", ["d1"])]⟩ = false := by decide
example : CheckOK' ⟨[("p1", ["d1"])], [], [("s1", ["d1"])]⟩ = false := by decide

end Restic.Props.C15
