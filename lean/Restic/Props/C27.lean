import Restic.Proofs.C27_Tree
import Restic.Proofs.Select_Link
import Restic.Gen.Source
/-!
# C27 — rewrite with exclude or include patterns removes exactly the matching paths

Theorems about the transcription of `TreeRewriter.RewriteTree` (as configured by
`NewSnapshotSizeRewriter`) with `gatherExcludeFilters` / `gatherIncludeFilters`
(`Restic.Model.Select`), for ALL trees and pattern lists. The corollaries that make the pruned
traversal exact use the C28 theorems (`list_upward`, `list_child_sound`) and therefore carry the
C28 hypotheses on the glob oracle (`ValidLists`: validated patterns, law G1).
-/
set_option linter.unusedSimpArgs false
namespace Restic.Props.C27
open Restic.Model.Filter Restic.Model.Select Restic.Proofs.C27 Restic.Proofs.Select Restic.Props.C28

/-! ## exclude -/

/-- the tree produced for exclude patterns -/
def excludeTree (glob : Glob) (lists : List PatList) (root : List Node) : List Node × Stats :=
  rwList (fun p _ => exSelect glob lists p) (fun _ => true) [] root ⟨0, 0⟩

/-- General form (negated patterns allowed): an entry survives iff it is an original entry — same
    kind and size — and neither it nor a directory above it is excluded. -/
theorem rewrite_exclude (glob : Glob) (lists : List PatList) (root : List Node) (e : Entry) :
    e ∈ entries [] (excludeTree glob lists root).1 ↔
      e ∈ entries [] root ∧ exSelect glob lists e.path = true ∧
        ∀ k, 0 < k → k < e.path.length → exSelect glob lists (e.path.take k) = true := by
  unfold excludeTree
  constructor
  · intro h
    exact rw_list_sub _ _ [] root _ e h
  · rintro ⟨h1, h2⟩
    exact rw_list_sup _ _ [] root _ e (Or.inl fun _ => rfl) h1 h2

/-- Without negated patterns: the result is the original minus EXACTLY the entries matching a
    pattern (a match on a directory covers its contents, so the pruned traversal loses nothing and
    keeps nothing it should not). -/
theorem rewrite_exclude_exact (glob : Glob) (lists : List PatList) (hv : ValidLists glob lists)
    (hn : NoNeg lists) (root : List Node) (e : Entry) :
    e ∈ entries [] (excludeTree glob lists root).1 ↔
      e ∈ entries [] root ∧ exSelect glob lists e.path = true := by
  rw [rewrite_exclude]
  constructor
  · rintro ⟨h1, h2, _⟩; exact ⟨h1, h2⟩
  · rintro ⟨h1, h2⟩
    refine ⟨h1, h2, ?_⟩
    intro k hk1 hk2
    -- an excluded ancestor would exclude the entry itself
    cases hex : exSelect glob lists (e.path.take k) with
    | true => rfl
    | false =>
      have hne : e.path.take k ≠ [] := by
        intro h
        have hl : (e.path.take k).length = k := by rw [List.length_take]; omega
        rw [h] at hl; simp at hl; omega
      have := exSelect_upward glob lists hv hn (e.path.take k) (e.path.drop k) hne hex
      rw [List.take_append_drop] at this
      rw [this] at h2; cases h2

/-- a rewrite whose exclude patterns match nothing returns the identical tree (the snapshot is
    then reported as unchanged when its summary already has the same counts) -/
theorem rewrite_exclude_nomatch (glob : Glob) (lists : List PatList) (root : List Node)
    (h : ∀ e ∈ entries [] root, exSelect glob lists e.path = true) :
    (excludeTree glob lists root).1 = root := by
  unfold excludeTree
  exact rw_list_id _ [] root _ h

/-! ## include -/

def includeTree (glob : Glob) (lists : List PatList) (root : List Node) : List Node × Stats :=
  rwList (fun p d => inSelect glob lists p d) (fun p => inSelectDir glob lists p) [] root ⟨0, 0⟩

/-- Exactly the matching non-directories are kept: the `childMayMatch` pruning of directories
    never cuts off a matching item (C28 `list_child_sound`). -/
theorem rewrite_include_exact (glob : Glob) (lists : List PatList) (hv : ValidLists glob lists)
    (root : List Node) (e : Entry) (hd : e.isDir = false) :
    e ∈ entries [] (includeTree glob lists root).1 ↔
      e ∈ entries [] root ∧ inSelect glob lists e.path false = true := by
  unfold includeTree
  constructor
  · intro h
    have := rw_list_sub _ _ [] root _ e h
    rw [hd] at this
    exact ⟨this.1, this.2.1⟩
  · rintro ⟨h1, h2⟩
    apply rw_list_sup _ _ [] root _ e (Or.inr hd) h1
    rw [hd]
    refine ⟨h2, ?_⟩
    intro k hk1 hk2
    have hne : e.path.take k ≠ [] := by
      intro h
      have hl : (e.path.take k).length = k := by rw [List.length_take]; omega
      rw [h] at hl; simp at hl; omega
    have := inSelect_child_sound glob lists hv (e.path.take k) (e.path.drop k) hne
      (by rw [List.take_append_drop]; exact h2)
    exact this

/-- every kept directory is an original directory that matches or may have matching children, and
    nothing is invented -/
theorem rewrite_include_sub (glob : Glob) (lists : List PatList) (root : List Node) (e : Entry)
    (h : e ∈ entries [] (includeTree glob lists root).1) :
    e ∈ entries [] root ∧ inSelect glob lists e.path e.isDir = true :=
  have := rw_list_sub _ _ [] root _ e h
  ⟨this.1, this.2.1⟩

/-- include patterns that match nothing at the top level and not the root give the null tree, which
    `filterAndReplaceSnapshot` reports as "not modified" (`keepEmptySnapshot`) -/
theorem rewrite_include_nomatch (glob : Glob) (lists : List PatList) (root : List Node)
    (h : ∀ c ∈ root, inSelect glob lists [c.name] c.isDir = false)
    (hroot : inSelectDir glob lists [] = false) :
    (rewriteRoot (fun p d => inSelect glob lists p d) (fun p => inSelectDir glob lists p) root).1 = none := by
  unfold rewriteRoot
  have := rw_list_none (fun p d => inSelect glob lists p d) (fun p => inSelectDir glob lists p) [] root ⟨0, 0⟩
    (by simpa using h)
  generalize rwList _ _ [] root ⟨0, 0⟩ = r at this
  obtain ⟨res, st⟩ := r
  simp only at this ⊢
  simp [this, hroot]

/-! ## summary statistics -/

/-- FileCount / FileSize reported by the rewriter = regular files of the rewritten tree -/
theorem summary_exact (sel : List Str → Bool → Bool) (keep : List Str → Bool) (root t : List Node)
    (st : Stats) (h : rewriteRoot sel keep root = (some t, st)) :
    st.count = (files [] t).length ∧ st.size = fsum (files [] t) := by
  unfold rewriteRoot at h
  have hs := sum_list sel keep [] root ⟨0, 0⟩
  generalize rwList sel keep [] root ⟨0, 0⟩ = r at h hs
  obtain ⟨res, st'⟩ := r
  simp only at h hs
  split at h
  · cases h
  · simp only [Prod.mk.injEq, Option.some.injEq] at h
    rw [← h.1, ← h.2, hs]
    simp

/-! ## the command: option checks and the executable statement -/

theorem runRewrite_fatal_both (glob : Glob) (nEx nIn : Nat) (v : Bool) (ex inc : List PatList)
    (root : List Node) (s : Option Stats) (h1 : nEx > 0) (h2 : nIn > 0) :
    runRewrite glob nEx nIn v ex inc root s = .fatal := by
  unfold runRewrite
  rw [if_neg (by omega), if_pos ⟨h1, h2⟩]

/-- whatever `runRewrite` saves in exclude mode satisfies the summary part of the executable
    statement of C27 -/
theorem runRewrite_summary (glob : Glob) (nEx nIn : Nat) (v : Bool) (ex inc : List PatList)
    (root t : List Node) (s : Option Stats) (st : Stats)
    (h : runRewrite glob nEx nIn v ex inc root s = .changed t st) : specSummaryOK t st = true := by
  unfold runRewrite at h
  split at h
  · cases h
  · split at h
    · cases h
    · split at h
      · cases h
      · simp only at h
        split at h
        · cases h
        · rename_i t' st' heq
          split at h
          · cases h
          · simp only [RewriteResult.changed.injEq] at h
            rcases h with ⟨h1, h2⟩
            subst h1; subst h2
            have : ∃ sel keep, rewriteRoot sel keep root = (some t', st') := by
              split at heq
              · exact ⟨_, _, heq⟩
              · exact ⟨_, _, heq⟩
            rcases this with ⟨sel, keep, hr⟩
            have := summary_exact sel keep root t' st' hr
            unfold specSummaryOK
            simp only [Bool.and_eq_true, decide_eq_true_eq]
            exact ⟨this.1, by rw [this.2]; rfl⟩


/-- Directories under include patterns, exactly: a directory is kept iff it is an original
    directory that matches a pattern or leads to a kept entry ("the directories leading to them"). -/
theorem rewrite_include_dirs (glob : Glob) (lists : List PatList) (hv : ValidLists glob lists)
    (root : List Node) (e : Entry) (hd : e.isDir = true) :
    e ∈ entries [] (includeTree glob lists root).1 ↔
      e ∈ entries [] root ∧
        (inSelectDir glob lists e.path = true ∨ ∃ e' ∈ entries [] (includeTree glob lists root).1, Below e e') := by
  constructor
  · intro h
    refine ⟨(rw_list_sub _ _ [] root _ e h).1, ?_⟩
    exact rw_list_dir_reason _ _ [] root _ e h hd
  · rintro ⟨h1, h2 | ⟨e', he', hlen, htake⟩⟩
    · -- matched: kept even if it ends up empty
      unfold includeTree
      apply rw_list_sup' _ _ [] root _ e (Or.inr (Or.inr h2)) h1
      have hm : inSelect glob lists e.path false = true := by
        rw [inSelect_file_eq]; rw [inSelectDir_eq] at h2; exact h2
      refine ⟨?_, ?_⟩
      · show inSelect glob lists e.path e.isDir = true
        rw [hd, inSelect_dir_eq]
        rw [inSelectDir_eq] at h2
        simp only [List.any_eq_true, Bool.or_eq_true] at h2 ⊢
        rcases h2 with ⟨l, hl, hm'⟩
        exact ⟨l, hl, Or.inl hm'⟩
      · intro k hk1 hk2
        have hne : e.path.take k ≠ [] := by
          intro h
          have hl : (e.path.take k).length = k := by rw [List.length_take]; omega
          rw [h] at hl; simp at hl; omega
        show inSelect glob lists (e.path.take k) true = true
        apply inSelect_child_sound glob lists hv (e.path.take k) (e.path.drop k) hne
        rw [List.take_append_drop]; exact hm
    · -- an entry below it is kept, hence so is every directory above that entry
      have hpos : 0 < e.path.length := by
        rcases entries_prefix [] root e h1 with ⟨n, rest, hr⟩
        rw [hr]; simp
      have := entries_ancestor [] _ e' he' e.path.length (by simpa using hpos) hlen
      rw [htake] at this
      rw [entries_dir_shape [] root e h1 hd]
      exact this



theorem ancestors_all (p : List Str) (f : List Str → Bool) :
    (ancestors p).all f = true ↔ ∀ k, 0 < k → k < p.length → f (p.take k) = true := by
  unfold ancestors
  simp only [List.all_eq_true, List.mem_filterMap, List.mem_range]
  constructor
  · intro h k hk1 hk2
    apply h (p.take k)
    refine ⟨k, hk2, ?_⟩
    rw [if_neg (by omega)]
  · rintro h a ⟨k, hk, hka⟩
    by_cases h0 : k = 0
    · rw [if_pos h0] at hka; cases hka
    · rw [if_neg h0] at hka
      simp only [Option.some.injEq] at hka
      rw [← hka]
      exact h k (by omega) hk

/-- the tree computed for exclude patterns satisfies the executable statement of C27 -/
theorem excludeTree_specOK (glob : Glob) (lists : List PatList) (root : List Node) :
    specExcludeOK (fun p => !exSelect glob lists p) root (excludeTree glob lists root).1 = true := by
  unfold specExcludeOK
  simp only [Bool.and_eq_true, List.all_eq_true, beq_iff_eq, List.contains_iff_mem]
  constructor
  · intro e he
    rw [Bool.eq_iff_iff]
    simp only [List.contains_iff_mem, Bool.and_eq_true, Bool.not_not, ancestors_all]
    rw [rewrite_exclude]
    constructor
    · rintro ⟨_, h2, h3⟩; exact ⟨h2, h3⟩
    · rintro ⟨h2, h3⟩; exact ⟨he, h2, h3⟩
  · intro e he
    exact ((rewrite_exclude glob lists root e).mp he).1

theorem below_iff (e f : Entry) :
    (decide (f.path.length > e.path.length) && f.path.take e.path.length == e.path) = true ↔ Below e f := by
  simp [Below]

/-- the tree computed for include patterns satisfies the executable statement of C27 -/
theorem includeTree_specOK (glob : Glob) (lists : List PatList) (hv : ValidLists glob lists) (root : List Node) :
    specIncludeOK (inSelectDir glob lists) root (includeTree glob lists root).1 = true := by
  unfold specIncludeOK
  simp only [Bool.and_eq_true, List.all_eq_true, List.contains_iff_mem]
  constructor
  · intro e he
    by_cases hd : e.isDir = true
    · rw [if_pos hd, beq_iff_eq, Bool.eq_iff_iff]
      simp only [List.contains_iff_mem, Bool.or_eq_true, List.any_eq_true, below_iff]
      rw [rewrite_include_dirs glob lists hv root e hd]
      constructor
      · rintro ⟨_, h⟩; exact h
      · intro h; exact ⟨he, h⟩
    · have hd' : e.isDir = false := by simpa using hd
      rw [if_neg hd, beq_iff_eq, Bool.eq_iff_iff]
      simp only [List.contains_iff_mem]
      rw [rewrite_include_exact glob lists hv root e hd', inSelect_file_eq, inSelectDir_eq]
      constructor
      · rintro ⟨_, h⟩; exact h
      · intro h; exact ⟨he, h⟩
  · intro e he
    exact (rewrite_include_sub glob lists root e he).1

/-- MAIN LINK: whatever `runRewrite` saves as the new snapshot satisfies the executable statement
    of C27 (entries and summary), in exclude mode for every pattern list, in include mode for
    validated lists. -/
theorem runRewrite_specOK (glob : Glob) (nEx nIn : Nat) (v : Bool) (ex inc : List PatList)
    (root t : List Node) (s : Option Stats) (st : Stats)
    (h : runRewrite glob nEx nIn v ex inc root s = .changed t st) :
    (inc.length = 0 → specExcludeOK (fun p => !exSelect glob ex p) root t = true) ∧
    (inc.length > 0 → ValidLists glob inc → specIncludeOK (inSelectDir glob inc) root t = true) ∧
    specSummaryOK t st = true := by
  refine ⟨?_, ?_, runRewrite_summary glob nEx nIn v ex inc root t s st h⟩
  · intro hinc
    unfold runRewrite at h
    split at h
    · cases h
    · split at h
      · cases h
      · split at h
        · cases h
        · simp only [hinc, Nat.lt_irrefl, if_false] at h
          split at h
          · cases h
          · rename_i t' st' heq
            split at h
            · cases h
            · simp only [RewriteResult.changed.injEq] at h
              rcases h with ⟨rfl, rfl⟩
              unfold rewriteRoot at heq
              have := excludeTree_specOK glob ex root
              unfold excludeTree at this
              generalize rwList (fun p _ => exSelect glob ex p) (fun _ => true) [] root ⟨0, 0⟩ = r at heq this
              obtain ⟨res, st''⟩ := r
              simp only at heq this
              split at heq
              · cases heq
              · simp only [Prod.mk.injEq, Option.some.injEq] at heq
                rw [← heq.1]; exact this
  · intro hinc hv
    unfold runRewrite at h
    split at h
    · cases h
    · split at h
      · cases h
      · split at h
        · cases h
        · simp only [hinc, if_true] at h
          split at h
          · cases h
          · rename_i t' st' heq
            split at h
            · cases h
            · simp only [RewriteResult.changed.injEq] at h
              rcases h with ⟨rfl, rfl⟩
              unfold rewriteRoot at heq
              have := includeTree_specOK glob inc hv root
              unfold includeTree at this
              generalize rwList (fun p d => inSelect glob inc p d) (fun p => inSelectDir glob inc p) [] root ⟨0, 0⟩ = r at heq this
              obtain ⟨res, st''⟩ := r
              simp only at heq this
              split at heq
              · cases heq
              · simp only [Prod.mk.injEq, Option.some.injEq] at heq
                rw [← heq.1]; exact this


/-! ## tie T1: shape of the transcribed functions -/

theorem source_shape :
    "t.opts.RewriteNode" ∈ Restic.Gen.rewriter_RewriteTree_calls ∧
    "t.opts.KeepEmptyDirectory" ∈ Restic.Gen.rewriter_RewriteTree_calls ∧
    "t.RewriteTree" ∈ Restic.Gen.rewriter_RewriteTree_calls ∧
    "newID.IsNull" ∈ Restic.Gen.rewriter_RewriteTree_calls ∧
    "walker.NewSnapshotSizeRewriter" ∈ Restic.Gen.rewrite_rewriteSnapshot_calls ∧
    "gatherIncludeFilters" ∈ Restic.Gen.rewrite_rewriteSnapshot_calls ∧
    "gatherExcludeFilters" ∈ Restic.Gen.rewrite_rewriteSnapshot_calls := by
  decide

/-! ## examples (non-vacuity) -/

def exTree : List Node :=
  [.dir "a".toList [.file "x".toList 3, .file "y".toList 4, .dir "e".toList []], .file "x".toList 5]

def exLists (pats : List String) : List PatList :=
  [⟨false, pats.map fun s => match preparePattern id s.toList with | .ok p => p | _ => ⟨[], false⟩⟩]

example : entries [] (excludeTree exGlob (exLists ["x"]) exTree).1 =
    entries [] [.dir "a".toList [.file "y".toList 4, .dir "e".toList []]] := by decide
example : (excludeTree exGlob (exLists ["x"]) exTree).2 = ⟨1, 4⟩ := by decide
example : entries [] (includeTree exGlob (exLists ["/a/x"]) exTree).1 =
    entries [] [.dir "a".toList [.file "x".toList 3]] := by decide
example : entries [] (excludeTree exGlob (exLists ["nomatch"]) exTree).1 = entries [] exTree := by decide
example : (rewriteRoot (fun p d => inSelect exGlob (exLists ["nomatch"]) p d)
    (fun p => inSelectDir exGlob (exLists ["nomatch"]) p) exTree).1.isNone = true := by decide

end Restic.Props.C27
