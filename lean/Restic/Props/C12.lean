import Restic.Model.Lock
import Restic.Gen.Source
import Restic.Gen.Consts
/-!
# C12 — An exclusive lock never coexists with another active lock

Theorems about `Restic.Model.Lock` for every number of processes, every choice of shared/exclusive,
every schedule (`List Act`) of acquisitions, refreshes, releases, crashes, stale-lock removals and
clock ticks, under the timing hypothesis `R + M + 2·eps ≤ S`, which is proved for the constants of
the current source (`Restic.Gen`).
-/
namespace Restic.Props.C12
open Restic.Model.Lock

/-- refreshability timeout + maximal stall + clock skew (both directions) stay within the stale timeout -/
def timingOK (P : Params) : Prop := P.R + P.M + 2 * P.eps ≤ P.S

/-- the lock file the process relies on: the replacement while refreshing (or between writing and
    adopting the replacement of a forced refresh), else the one `lockID` names -/
def lockFile (p : Proc) : Option Nat :=
  if p.pc = .refreshing ∨ p.pc = .stale2 ∨ p.pc = .stale3 then p.f2 else p.f1

/-- per-process invariant: an urgent process (created / holding / refreshing) has its newest lock
    file in the repository, written at `p.t`, and is within its deadline -/
def Good (P : Params) (now : Nat) (p : Proc) : Prop :=
  urgent p = true → lockFile p = some p.t ∧ p.t ≤ now ∧ now ≤ p.t + P.R + P.M

def Mutex (s : Sys) : Prop :=
  ∀ (i j : Nat) (p q : Proc), i ≠ j → s.procs[i]? = some p → s.procs[j]? = some q →
    holds p = true → holds q = true → conflict p.excl q.excl = false

/-- the process has a claim on the lock: it believes it holds it, or it is in a forced refresh of a
    lock it held and its old lock file is still in the repository -/
def claims (p : Proc) : Bool :=
  holds p || ((p.pc == .stale0 || p.pc == .stale1 || p.pc == .stale2) && p.f1.isSome) || p.pc == .stale3

/-- the inductive form of mutual exclusion: claims of different processes never conflict -/
def Claims (s : Sys) : Prop :=
  ∀ (i j : Nat) (p q : Proc), i ≠ j → s.procs[i]? = some p → s.procs[j]? = some q →
    claims p = true → claims q = true → conflict p.excl q.excl = false

def Inv (P : Params) (s : Sys) : Prop := (∀ p ∈ s.procs, Good P s.now p) ∧ Claims s

theorem claims_of_holds (p : Proc) (h : holds p = true) : claims p = true := by simp [claims, h]

theorem Mutex_of_Claims (s : Sys) (h : Claims s) : Mutex s :=
  fun i j p q hij hp hq hph hqh => h i j p q hij hp hq (claims_of_holds p hph) (claims_of_holds q hqh)

theorem conflict_comm (a b : Bool) : conflict a b = conflict b a := by
  simp [conflict, Bool.or_comm]

theorem clearB_iff (s : Sys) (i : Nat) (e : Bool) :
    clearB s i e = true ↔ ∀ (j : Nat) (q : Proc), s.procs[j]? = some q → j ≠ i → filePresent q = true →
      conflict e q.excl = false := by
  simp only [clearB, List.all_eq_true, Bool.or_eq_true, beq_iff_eq, Bool.not_eq_true']
  constructor
  · intro h j q hq hj hf
    have := h (q, j) (List.mem_zipIdx_iff_getElem?.mpr hq)
    rcases this with (h1 | h1) | h1
    · exact absurd h1 hj
    · simp [hf] at h1
    · exact h1
  · intro h pj hm
    have hq := List.mem_zipIdx_iff_getElem?.mp hm
    by_cases hj : pj.2 = i
    · exact Or.inl (Or.inl hj)
    · cases hf : filePresent pj.1
      · exact Or.inl (Or.inr rfl)
      · exact Or.inr (h pj.2 pj.1 hq hj hf)

/-- an urgent process in a good state has a lock file in the repository -/
theorem good_file (P : Params) (now : Nat) (p : Proc) (h : Good P now p) (hu : urgent p = true) :
    filePresent p = true := by
  have := (h hu).1
  unfold lockFile at this
  unfold filePresent
  split at this <;> simp [this]

theorem holds_urgent (p : Proc) (h : holds p = true) : urgent p = true := by
  simp only [holds, Bool.or_eq_true, beq_iff_eq] at h
  simp only [urgent, Bool.or_eq_true, beq_iff_eq]
  rcases h with h | h
  · exact Or.inl (Or.inl (Or.inl (Or.inr h)))
  · exact Or.inl (Or.inl (Or.inr h))

/-- L1: the local transition preserves `Good` (this is where the timing hypothesis is used: a file
    that can be judged stale is never the lock file of an urgent process) -/
theorem local_good (P : Params) (ht : timingOK P) (now : Nat) (c : Bool) (p p' : Proc) (a : LAct)
    (hg : Good P now p) (st : localStep P now c p a = some p') : Good P now p' := by
  unfold timingOK at ht
  cases a with
  | check1 => simp only [localStep] at st; split at st <;> cases st; intro hu; simp [urgent] at hu
  | check1fail => simp only [localStep] at st; split at st <;> cases st; intro hu; simp [urgent] at hu
  | abort => simp only [localStep] at st; split at st <;> cases st; intro hu; simp [urgent] at hu
  | create =>
    simp only [localStep] at st; split at st <;> cases st
    intro _; simp only [lockFile]; refine ⟨by simp, Nat.le_refl _, by omega⟩
  | check2ok =>
    simp only [localStep] at st; split at st <;> cases st
    rename_i hc
    intro _
    have := hg (by simp [urgent, hc.1])
    simpa [lockFile, hc.1] using this
  | check2fail => simp only [localStep] at st; split at st <;> cases st; intro hu; simp [urgent] at hu
  | refreshCreate =>
    simp only [localStep] at st; split at st <;> cases st
    intro _; simp only [lockFile]; refine ⟨by simp, Nat.le_refl _, by omega⟩
  | refreshRemove =>
    simp only [localStep] at st; split at st <;> cases st
    rename_i hc
    intro _
    have := hg (by simp [urgent, hc])
    simpa [lockFile, hc] using this
  | giveUp => simp only [localStep] at st; split at st <;> cases st; intro hu; simp [urgent] at hu
  | cleanup => simp only [localStep] at st; split at st <;> cases st; intro hu; simp [urgent] at hu
  | crash => simp only [localStep] at st; split at st <;> cases st; intro hu; simp [urgent] at hu
  | expire => simp only [localStep] at st; split at st <;> cases st; intro hu; simp [urgent] at hu
  | srCheck1 => simp only [localStep] at st; split at st <;> cases st; intro hu; simp [urgent] at hu
  | srCreate =>
    simp only [localStep] at st; split at st <;> cases st
    intro _; simp only [lockFile]; refine ⟨by simp, Nat.le_refl _, by omega⟩
  | srCheck2 =>
    simp only [localStep] at st; split at st <;> cases st
    rename_i hc
    intro _
    have := hg (by simp [urgent, hc.1])
    simpa [lockFile, hc.1] using this
  | srAdopt =>
    simp only [localStep] at st; split at st <;> cases st
    rename_i hc
    intro _
    have := hg (by simp [urgent, hc])
    simpa [lockFile, hc] using this
  | srFail => simp only [localStep] at st; split at st <;> cases st; intro hu; simp [urgent] at hu
  | srFailKeep => simp only [localStep] at st; split at st <;> cases st; intro hu; simp [urgent] at hu
  | removeStale k =>
    simp only [localStep] at st
    split at st
    · rename_i b hb
      split at st
      · rename_i hs
        cases st
        intro hu
        have hu0 : urgent p = true := by
          cases k <;> simpa [clearFile, urgent] using hu
        obtain ⟨hl, h1, h2⟩ := hg hu0
        simp only [canJudgeStale, decide_eq_true_eq] at hs
        -- the removed file is not the lock file (that one is too young to be judged stale)
        have hne : getFile p k ≠ lockFile p := by
          intro e
          rw [hb, hl] at e
          injection e with e
          omega
        cases k
        · simp only [getFile, lockFile, Bool.false_eq_true, if_false] at hne
          simp only [clearFile, Bool.false_eq_true, if_false]
          by_cases hr : p.pc = .refreshing ∨ p.pc = .stale2 ∨ p.pc = .stale3
          · simp only [lockFile, hr, if_true] at hl ⊢; exact ⟨hl, h1, h2⟩
          · simp [hr] at hne
        · simp only [getFile, lockFile, if_true] at hne
          simp only [clearFile, if_true]
          by_cases hr : p.pc = .refreshing ∨ p.pc = .stale2 ∨ p.pc = .stale3
          · simp [hr] at hne
          · simp only [lockFile, hr, if_false] at hl ⊢; exact ⟨hl, h1, h2⟩
      · cases st
    · cases st
  | removeDead k =>
    simp only [localStep] at st; split at st <;> cases st
    rename_i hc
    intro hu
    cases k <;> simp [clearFile, urgent, hc.1] at hu

theorem clearFile_excl (p : Proc) (k : Bool) : (clearFile p k).excl = p.excl := by
  cases k <;> rfl

theorem local_excl (P : Params) (now : Nat) (c : Bool) (p p' : Proc) (a : LAct)
    (st : localStep P now c p a = some p') : p'.excl = p.excl := by
  cases a <;> simp only [localStep] at st <;> (repeat' split at st) <;>
    first | (cases st; done) | (cases st; rfl) | (cases st; exact clearFile_excl _ _)

theorem clearFile_claims (p : Proc) (k : Bool) (h : claims (clearFile p k) = true) : claims p = true := by
  cases k
  · simp only [clearFile, Bool.false_eq_true, if_false, claims, holds, Bool.or_eq_true, Bool.and_eq_true,
      beq_iff_eq] at h ⊢
    rcases h with (h | h) | h
    · exact Or.inl (Or.inl h)
    · simp at h
    · exact Or.inr h
  · simpa [clearFile, claims, holds] using h

/-- L3: a process gets a claim on the lock only by a passing second check -/
theorem local_claims (P : Params) (now : Nat) (c : Bool) (p p' : Proc) (a : LAct)
    (st : localStep P now c p a = some p') (h : claims p' = true) :
    claims p = true ∨ (c = true ∧ p.pc = .created) := by
  cases a <;> simp only [localStep] at st <;> (repeat' split at st) <;>
    first
    | (cases st; done)
    | (cases st; simp [claims, holds] at h; done)
    | (cases st; left; simp_all [claims, holds]; done)
    | (cases st; right; rename_i hc; exact ⟨hc.2, hc.1⟩)
    | (cases st; left; exact clearFile_claims _ _ h)

/-- a process with a claim has a lock file in the repository -/
theorem claims_file (P : Params) (now : Nat) (p : Proc) (hg : Good P now p) (h : claims p = true) :
    filePresent p = true := by
  simp only [claims, Bool.or_eq_true, Bool.and_eq_true, beq_iff_eq] at h
  rcases h with (h | h) | h
  · exact good_file P now p hg (holds_urgent p h)
  · simp [filePresent, h.2]
  · exact good_file P now p hg (by simp [urgent, h])

theorem lookup_lt {l : List Proc} {i : Nat} {t : Proc} (h : l[i]? = some t) :
    ∃ hi : i < l.length, l[i] = t := by
  rw [List.getElem?_eq_some_iff] at h; exact h

theorem step_inv (P : Params) (ht : timingOK P) (s s' : Sys) (a : Act) (h : Inv P s)
    (st : step P s a = some s') : Inv P s' := by
  obtain ⟨hG, hM⟩ := h
  cases a with
  | tick =>
    simp only [step] at st
    split at st
    · rename_i hall
      cases st
      refine ⟨?_, hM⟩
      intro p hp hu
      have h1 := hG p hp hu
      simp only [List.all_eq_true, Bool.or_eq_true, Bool.not_eq_true', decide_eq_true_eq] at hall
      have h2 := hall p hp
      rcases h2 with h2 | h2
      · rw [hu] at h2; cases h2
      · exact ⟨h1.1, by have := h1.2.1; show p.t ≤ s.now + 1; omega, by show s.now + 1 ≤ _; omega⟩
    · cases st
  | proc i la =>
    simp only [step] at st
    split at st
    · rename_i p hp
      split at st
      · rename_i p' hl
        cases st
        obtain ⟨hi, _⟩ := lookup_lt hp
        have hgp' : Good P s.now p' := local_good P ht s.now _ p p' la (hG p (List.mem_of_getElem? hp)) hl
        have hex : p'.excl = p.excl := local_excl P s.now _ p p' la hl
        refine ⟨?_, ?_⟩
        · intro x hx
          rcases List.mem_or_eq_of_mem_set hx with hx | rfl
          · exact hG x hx
          · exact hgp'
        · -- claims of different processes do not conflict
          have key : ∀ (j : Nat) (q : Proc), j ≠ i → s.procs[j]? = some q → claims p' = true →
              claims q = true → conflict p'.excl q.excl = false := by
            intro j q hj hq hp'h hqh
            rcases local_claims P s.now _ p p' la hl hp'h with hph | ⟨hc, _⟩
            · rw [hex]; exact hM i j p q (fun e => hj e.symm) hp hq hph hqh
            · rw [hex]
              have hfq : filePresent q = true :=
                claims_file P s.now q (hG q (List.mem_of_getElem? hq)) hqh
              exact (clearB_iff s i p.excl).mp hc j q hq hj hfq
          intro a b x y hab hx hy hxh hyh
          simp only at hx hy
          by_cases hai : a = i
          · subst hai
            rw [List.getElem?_set_self hi] at hx; injection hx with hx; subst hx
            have hba : b ≠ a := fun e => hab e.symm
            rw [List.getElem?_set_ne (fun e => hba e.symm)] at hy
            exact key b y hba hy hxh hyh
          · rw [List.getElem?_set_ne (fun e => hai e.symm)] at hx
            by_cases hbi : b = i
            · subst hbi
              rw [List.getElem?_set_self hi] at hy; injection hy with hy; subst hy
              rw [conflict_comm]
              exact key a x hai hx hyh hxh
            · rw [List.getElem?_set_ne (fun e => hbi e.symm)] at hy
              exact hM a b x y hab hx hy hxh hyh
      · cases st
    · cases st

theorem init_inv (P : Params) (now : Nat) (excls : List Bool) : Inv P (init now excls) := by
  constructor
  · intro p hp hu
    simp only [init, List.mem_map] at hp
    obtain ⟨e, _, rfl⟩ := hp
    simp [urgent] at hu
  · intro i j p q _ hp _ hph _
    have := List.mem_of_getElem? hp
    simp only [init, List.mem_map] at this
    obtain ⟨e, _, rfl⟩ := this
    simp [claims, holds] at hph

theorem run_inv (P : Params) (ht : timingOK P) : ∀ (acts : List Act) (s s' : Sys),
    Inv P s → run P s acts = some s' → Inv P s'
  | [], s, s', h, hr => by simp only [run] at hr; injection hr with hr; subst hr; exact h
  | a :: as, s, s', h, hr => by
    simp only [run] at hr
    split at hr
    · rename_i s1 h1; exact run_inv P ht as s1 s' (step_inv P ht s s1 a h h1) hr
    · cases hr

/-! ### The property theorems -/

/-- **mutex**: for every number of processes, every assignment of shared/exclusive, every starting
    time and every schedule of acquisition steps, refreshes, releases, crashes, stale-lock removals
    and ticks: two different processes never both believe they hold conflicting locks. In particular,
    while a process holds an exclusive lock, no other process holds any lock. -/
theorem mutex (P : Params) (ht : timingOK P) (now : Nat) (excls : List Bool) (acts : List Act) (s : Sys)
    (h : run P (init now excls) acts = some s) : Mutex s :=
  Mutex_of_Claims s (run_inv P ht acts _ s (init_inv P now excls) h).2

/-- **holder_has_fresh_file** (also the `refresh_no_gap` statement of C13): in every reachable state a
    process that believes it holds the lock — also in the middle of a refresh — has a lock file of
    its own in the repository, and that file cannot be judged stale by anybody whose clock is within
    `eps` of real time. So `unlock`'s stale removal can never delete an active holder's lock. -/
theorem holder_has_fresh_file (P : Params) (ht : timingOK P) (now : Nat) (excls : List Bool)
    (acts : List Act) (s : Sys) (h : run P (init now excls) acts = some s) (p : Proc)
    (hp : p ∈ s.procs) (hh : holds p = true) :
    ∃ b, lockFile p = some b ∧ filePresent p = true ∧ canJudgeStale P s.now b = false := by
  have hg := (run_inv P ht acts _ s (init_inv P now excls) h).1 p hp
  obtain ⟨hl, _, h2⟩ := hg (holds_urgent p hh)
  refine ⟨p.t, hl, good_file P s.now p hg (holds_urgent p hh), ?_⟩
  unfold timingOK at ht
  simp only [canJudgeStale, decide_eq_false_iff_not]
  omega

/-- **mutex_from**: the same from any starting state in which every process is either idle or dead
    (dead processes may have left arbitrary lock files behind: stale locks of crashed runs, locks of
    other hosts that never go away, …). -/
theorem mutex_from (P : Params) (ht : timingOK P) (s0 : Sys)
    (h0 : ∀ p ∈ s0.procs, p.pc = .idle ∨ p.pc = .dead) (acts : List Act) (s : Sys)
    (h : run P s0 acts = some s) : Mutex s ∧ ∀ p ∈ s.procs, holds p = true → filePresent p = true := by
  have hinv0 : Inv P s0 := by
    constructor
    · intro p hp hu
      rcases h0 p hp with h1 | h1 <;> simp [urgent, h1] at hu
    · intro i j p q _ hp _ hph _
      rcases h0 p (List.mem_of_getElem? hp) with h1 | h1 <;> simp [claims, holds, h1] at hph
  have hinv := run_inv P ht acts s0 s hinv0 h
  exact ⟨Mutex_of_Claims s hinv.2, fun p hp hh => good_file P s.now p (hinv.1 p hp) (holds_urgent p hh)⟩

/-- **mutex_from_expired**: the start state may also contain holders whose lock expired and who are in
    a forced refresh (`stale0`: backend frozen, lock arbitrarily old — the situation outside the timing
    assumption that `refreshStaleLock` is there for), as long as these former co-holders do not conflict
    with each other. Whatever the remover and other processes do meanwhile (remove the expired lock,
    take an exclusive lock), an expired holder comes back to `holding` only through `srAdopt`, i.e. only
    if its old lock file is still there, and mutual exclusion holds in every reachable state. -/
theorem mutex_from_expired (P : Params) (ht : timingOK P) (s0 : Sys)
    (h0 : ∀ p ∈ s0.procs, p.pc = .idle ∨ p.pc = .dead ∨ p.pc = .stale0)
    (hc : ∀ (i j : Nat) (p q : Proc), i ≠ j → s0.procs[i]? = some p → s0.procs[j]? = some q →
      p.pc = .stale0 → q.pc = .stale0 → conflict p.excl q.excl = false)
    (acts : List Act) (s : Sys) (h : run P s0 acts = some s) :
    Mutex s ∧ ∀ p ∈ s.procs, holds p = true → filePresent p = true := by
  have hinv0 : Inv P s0 := by
    constructor
    · intro p hp hu
      rcases h0 p hp with h1 | h1 | h1 <;> simp [urgent, h1] at hu
    · intro i j p q hij hp hq hph hqh
      have hp0 : p.pc = .stale0 := by
        rcases h0 p (List.mem_of_getElem? hp) with h1 | h1 | h1
        · simp [claims, holds, h1] at hph
        · simp [claims, holds, h1] at hph
        · exact h1
      have hq0 : q.pc = .stale0 := by
        rcases h0 q (List.mem_of_getElem? hq) with h1 | h1 | h1
        · simp [claims, holds, h1] at hqh
        · simp [claims, holds, h1] at hqh
        · exact h1
      exact hc i j p q hij hp hq hp0 hq0
  have hinv := run_inv P ht acts s0 s hinv0 h
  exact ⟨Mutex_of_Claims s hinv.2, fun p hp hh => good_file P s.now p (hinv.1 p hp) (holds_urgent p hh)⟩

/-- **stale_refresh_detects_removal**: a forced refresh can neither start nor be adopted once the old
    lock file is gone at either existence check (adoption is only possible after the second check,
    `srAdopt` needs `stale3`); its only continuation is `srFail` (cleanup of the replacement, context cancelled). -/
theorem stale_refresh_detects_removal (P : Params) (now : Nat) (c : Bool) (p : Proc) (h : p.f1 = none) :
    localStep P now c p .srCheck1 = none ∧ localStep P now c p .srCheck2 = none := by
  simp [localStep, h]

/-- link to the executable statement -/
theorem mutexB_of_Mutex (s : Sys) (h : Mutex s) : mutexB s = true := by
  simp only [mutexB, List.all_eq_true, Bool.or_eq_true, beq_iff_eq, Bool.not_eq_true',
    Bool.and_eq_false_iff]
  intro pi hpi qj hqj
  have hp := List.mem_zipIdx_iff_getElem?.mp hpi
  have hq := List.mem_zipIdx_iff_getElem?.mp hqj
  by_cases hij : pi.2 = qj.2
  · exact Or.inl (Or.inl hij)
  · cases hph : holds pi.1
    · exact Or.inl (Or.inr (Or.inl rfl))
    · cases hqh : holds qj.1
      · exact Or.inl (Or.inr (Or.inr rfl))
      · exact Or.inr (h pi.2 qj.2 pi.1 qj.1 hij hp hq hph hqh)

/-- the transcription meets the executable specification: `mutexB` is true in every reachable state -/
theorem reach_mutexB (P : Params) (ht : timingOK P) (now : Nat) (excls : List Bool) (acts : List Act)
    (s : Sys) (h : run P (init now excls) acts = some s) : mutexB s = true :=
  mutexB_of_Mutex s (mutex P ht now excls acts s h)

/-! ### The timing hypothesis holds for the constants of the current source (T1) -/

/-- one minute of clock skew in either direction, in nanoseconds -/
def assumedSkew_ns : Nat := 60 * 1000000000

/-- the parameters of the real code: stale timeout and refreshability timeout as regenerated from
    the source; stall bound = one refresh interval (the holder polls every second and a refresh is a
    handful of backend requests); clock skew = one minute -/
def genParams : Params :=
  { S := Restic.Gen.lock_staleLockTimeout_ns, R := Restic.Gen.lock_refreshabilityTimeout_ns,
    M := Restic.Gen.lock_refreshInterval_ns, eps := assumedSkew_ns }

/-- `refreshabilityTimeout + refreshInterval + 2 min < staleLockTimeout` with the regenerated values
    (30 min, 22.5 min, 5 min at the pinned commit): the margin the comment in lock.go talks about -/
theorem timing_gen : timingOK genParams ∧
    Restic.Gen.lock_refreshabilityTimeout_ns < Restic.Gen.lock_staleLockTimeout_ns ∧
    Restic.Gen.lock_refreshInterval_ns < Restic.Gen.lock_refreshabilityTimeout_ns := by
  unfold timingOK genParams; decide

/-- `mutex` instantiated with the constants of the current source -/
theorem mutex_gen (now : Nat) (excls : List Bool) (acts : List Act) (s : Sys)
    (h : run genParams (init now excls) acts = some s) : Mutex s :=
  mutex genParams timing_gen.1 now excls acts s h

/-- T1 call orders: `newLock` checks, creates, waits, checks again (and unlocks when the second check
    fails); `refresh` creates the replacement before the old file is removed. -/
def protoCalls (l : List String) : List String :=
  l.filter fun c => c == "lock.checkForOtherLocks" || c == "lock.createLock" || c == "time.Sleep" || c == "lock.unlock"

theorem t1_newLock_order :
    protoCalls Restic.Gen.lock_newLock_calls =
      ["lock.checkForOtherLocks", "lock.createLock", "time.Sleep", "lock.checkForOtherLocks", "lock.unlock"] := by
  decide

theorem t1_refresh_create_before_remove :
    Restic.Gen.lock_refresh_calls.idxOf "l.createReplacementLock" < Restic.Gen.lock_refresh_calls.idxOf "l.adoptReplacementLock"
    ∧ "l.adoptReplacementLock" ∈ Restic.Gen.lock_refresh_calls
    ∧ "l.createLock" ∈ Restic.Gen.lock_createReplacementLock_calls
    ∧ Restic.Gen.lock_adoptReplacementLock_calls.filter (· == "l.repo.RemoveUnpacked") = ["l.repo.RemoveUnpacked"]
    ∧ Restic.Gen.lock_unlock_calls.filter (· == "l.repo.RemoveUnpacked") = ["l.repo.RemoveUnpacked"] := by
  decide

/-! ### Non-vacuity and necessity of the hypotheses -/

def exP : Params := { S := 10, R := 5, M := 2, eps := 1 }
example : timingOK exP := by unfold timingOK exP; decide

open LAct in
/-- a shared holder that refreshes, a second shared holder, and an exclusive one that is refused -/
example : (run exP (init 100 [false, false, true])
    [.proc 0 check1, .proc 0 create, .proc 0 check2ok, .proc 1 check1, .proc 1 create, .tick, .proc 1 check2ok,
     .proc 0 refreshCreate, .tick, .proc 0 refreshRemove, .proc 2 check1]).map (fun s => s.now) = none := by decide

open LAct in
example : ((run exP (init 100 [false, false, true])
    [.proc 0 check1, .proc 0 create, .proc 0 check2ok, .proc 1 check1, .proc 1 create, .tick, .proc 1 check2ok,
     .proc 0 refreshCreate, .tick, .proc 0 refreshRemove]).map
      (fun s => (s.now, s.procs.map (fun p => (p.pc, p.f1, p.f2))))) =
    some (102, [(.holding, some 101, none), (.holding, some 100, none), (.idle, none, none)]) := by decide

open LAct in
/-- both exclusive candidates pass the first check and create; the second check stops both -/
example : (run exP (init 0 [true, true])
    [.proc 0 check1, .proc 1 check1, .proc 0 create, .proc 1 create, .proc 0 check2ok]) = none := by decide

open LAct in
/-- necessity of the timing hypothesis: with `S < R + M` a remover may delete an active holder's lock
    and a second exclusive holder appears — `mutexB` fails on a reachable state -/
example : timingOK { S := 3, R := 5, M := 2, eps := 0 } = False := by
  unfold timingOK; simp

open LAct in
example : ((run { S := 3, R := 5, M := 2, eps := 0 } (init 0 [true, true])
    [.proc 0 check1, .proc 0 create, .proc 0 check2ok, .tick, .tick, .tick, .tick,
     .proc 0 (removeStale false), .proc 1 check1, .proc 1 create, .proc 1 check2ok]).map mutexB) = some false := by
  decide

open LAct in
/-- the situation of seeded change C12-b on the model: P's lock expired (31 units old, `S = 30`), P starts
    the forced refresh and writes the replacement; Q's `unlock` removes P's stale lock. P's adoption is
    refused (the real code returns errRemovedLock); P can only fail, which removes the replacement, and
    then Q can take its exclusive lock. -/
example :
    let P : Params := { S := 30, R := 22, M := 5, eps := 0 }
    let s0 : Sys := { now := 100, procs := [{ pc := .stale0, excl := false, t := 69, f1 := some 69 }, { excl := true }] }
    (run P s0 [.proc 0 srCheck1, .proc 0 srCreate, .proc 0 (removeStale false), .proc 0 srCheck2]) = none
    ∧ ((run P s0 [.proc 0 srCheck1, .proc 0 srCreate, .proc 0 (removeStale false), .proc 0 srFail, .proc 1 check1,
               .proc 1 create, .proc 1 check2ok]).map (fun s => (mutexB s, s.procs.map (·.pc)))) = some (true, [.stopping, .holding]) := by
  decide

end Restic.Props.C12
