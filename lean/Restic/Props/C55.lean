import Restic.Model.BackupErr
import Restic.Gen.Source
/-!
# C55 — Backups that skip source items are reported as incomplete

Statement (properties.jsonl): if any source item cannot be read during backup, the snapshot is
still saved for the readable items and the command exits with status 3; a backup in which every
item was read exits 0; files that vanish between directory listing and opening are not source items
and must not change the status.

Model (`Restic.Model.BackupErr`): transcription of the error funnel of `Archiver.save`/`saveDir`/
`saveTree`, `saveFile` + `treeSaver.save`, `nodeFromFileInfo`, and of the `success` flag / exit
status of `runBackup` + `main`, over a tree whose items carry the answer of every file-system
operation. The specification side (`visited`, `isSourceItem`, `fullyRead`, `contentRead`,
`specOK`) does not mention the funnel. Theorems, for all trees:
  `funnel`             errors reported ⇔ some reached source item was not read completely; the
                       snapshot holds exactly the reached source items whose content was read;
  `backupCmd_specOK`   the command meets the executable statement (main theorem);
  `incomplete_iff`     exit 3 ⇔ snapshot saved ∧ (callback invoked ∨ a target was skipped);
  `all_read_exit0`, `unreadable_invokes_error`, `vanished_silent`.
Boundary made explicit in the statement: when nothing at all can be read, a relative target gives
"snapshot is empty" (exit 1, no snapshot), an absolute target a snapshot of the parent directories
only and exit 3; in both cases no success is reported and no source item is in a snapshot. Hypothesis of the model: healthy repository (no `archErr`, parent
blobs present), the backup command's callback (returns nil unless the error is fatal).
-/
namespace Restic.Props.C55
open Restic.Model.BackupErr

def bad (pv : Path × View) : Bool := pv.2.isSourceItem && !pv.2.fullyRead
def good (pv : Path × View) : Bool := pv.2.isSourceItem && pv.2.contentRead

/-- the funnel reports an error iff a reached source item could not be read completely, and keeps
    exactly the reached source items whose content was read — for items and for item lists -/
theorem funnel :
    (∀ (pre : Path) (t : Src),
      ((save pre t).errors = [] ↔ (visited pre t).filter bad = []) ∧
      (save pre t).included = ((visited pre t).filter good).map (·.1)) ∧
    (∀ (pre : Path) (l : List Src),
      ((saveList pre l).errors = [] ↔ (visitedList pre l).filter bad = []) ∧
      (saveList pre l).included = ((visitedList pre l).filter good).map (·.1)) := by
  apply save.mutual_induct
    (motive_1 := fun pre t => ((save pre t).errors = [] ↔ (visited pre t).filter bad = []) ∧
      (save pre t).included = ((visited pre t).filter good).map (·.1))
    (motive_2 := fun pre l => ((saveList pre l).errors = [] ↔ (visitedList pre l).filter bad = []) ∧
      (saveList pre l).included = ((visitedList pre l).filter good).map (·.1))
  all_goals intros
  all_goals simp_all [save, saveList, visited, visitedList, bad, good, View.isSourceItem, View.fullyRead, View.contentRead]
  all_goals (first | done | (rename_i ih; exact ⟨fun _ => ih.1, ih.2⟩))


theorem errors_iff_unread (t : Src) : (save [] t).errors = [] ↔ unreadItems t = [] := by
  have := (funnel.1 [] t).1
  unfold unreadItems
  rw [List.map_eq_nil_iff]
  exact this

theorem included_eq_read (t : Src) : (save [] t).included = readItems t := (funnel.1 [] t).2

/-- **Main theorem**: the transcription of the backup command meets the executable statement -/
theorem backupCmd_specOK (abs : Bool) (t : Src) :
    specOK t (backupCmd abs t).1 (backupCmd abs t).2.included = true := by
  unfold backupCmd specOK runBackup
  simp only [included_eq_read]
  have he := errors_iff_unread t
  by_cases hu : unreadItems t = []
  · have h0 : (save [] t).errors = [] := he.mpr hu
    cases abs <;> by_cases hr : readItems t = [] <;> simp [hr, hu, h0, List.all_eq_true]
  · have h0 : (save [] t).errors ≠ [] := fun h => hu (he.mp h)
    have hl : (save [] t).errors.length > 0 := List.length_pos_iff.mpr h0
    cases abs <;> by_cases hr : readItems t = [] <;> simp [hr, hu, hl, List.all_eq_true]

/-- exit status 3 exactly when a snapshot was saved and the error callback ran (or a target was skipped) -/
theorem incomplete_iff (targetsSkipped archErr : Bool) (rootNodes errors : Nat) :
    (runBackup targetsSkipped archErr rootNodes errors).exit = 3 ↔
      (runBackup targetsSkipped archErr rootNodes errors).snapshot = true ∧ (errors > 0 ∨ targetsSkipped = true) := by
  unfold runBackup
  cases targetsSkipped <;> cases archErr <;> by_cases h1 : rootNodes = 0 <;> by_cases h2 : errors > 0 <;> simp [h1, h2]

/-- exit status 0 exactly when a snapshot was saved and nothing was reported or skipped -/
theorem success_iff (targetsSkipped archErr : Bool) (rootNodes errors : Nat) :
    (runBackup targetsSkipped archErr rootNodes errors).exit = 0 ↔
      (runBackup targetsSkipped archErr rootNodes errors).snapshot = true ∧ errors = 0 ∧ targetsSkipped = false := by
  unfold runBackup
  cases targetsSkipped <;> cases archErr <;> by_cases h1 : rootNodes = 0 <;> by_cases h2 : errors > 0 <;> simp [h1, h2] <;> omega

/-- a backup in which every source item was read exits 0 with a snapshot of all of them -/
theorem all_read_exit0 (abs : Bool) (t : Src) (h : unreadItems t = []) (hne : readItems t ≠ []) :
    (backupCmd abs t).1 = ⟨0, true⟩ ∧ (backupCmd abs t).2.included = readItems t := by
  unfold backupCmd runBackup
  have he := (errors_iff_unread t).mpr h
  have hlen : (readItems t).length ≠ 0 := fun h' => hne (List.length_eq_zero_iff.mp h')
  cases abs <;> simp [included_eq_read, he, hlen]

/-- any reached source item that could not be read completely makes the command report it -/
theorem unreadable_invokes_error (abs : Bool) (t : Src) (p : Path) (h : p ∈ unreadItems t) :
    (save [] t).errors ≠ [] ∧ ((backupCmd abs t).1.snapshot = true → (backupCmd abs t).1.exit = 3) := by
  have hne : unreadItems t ≠ [] := fun h' => by rw [h'] at h; cases h
  have he : (save [] t).errors ≠ [] := fun h' => hne ((errors_iff_unread t).mp h')
  refine ⟨he, ?_⟩
  have hl : (save [] t).errors.length > 0 := List.length_pos_iff.mpr he
  unfold backupCmd runBackup
  cases abs <;> by_cases h0 : (save [] t).included.length = 0 <;> simp [h0, hl]

/-- an entry that vanished between the directory listing and the first lstat is no source item:
    it produces no report, no node, and leaves the result for the other entries unchanged -/
theorem vanished_silent (pre : Path) (name : Bytes) (k : LeafKind) (f : LeafF) (hf : f.lstat = .enoent) (rest : List Src) :
    save pre (.leaf name k f) = ⟨[], []⟩ ∧ saveList pre (.leaf name k f :: rest) = saveList pre rest := by
  have h1 : save pre (.leaf name k f) = ⟨[], []⟩ := by simp [save, hf]
  refine ⟨h1, ?_⟩
  simp [saveList, h1]

/-! ### T1 -/

/-- `filterNotExist` guards exactly the two operations before the item is known to exist (the
    metadata open and the first lstat); the three later checks of a regular file report ENOENT too -/
theorem notexist_filter_sites :
    Gen.archiver_save_calls.count "filterNotExist" = 2 ∧ Gen.archiver_save_calls.count "filterError" = 5 ∧
    (Gen.archiver_save_calls.takeWhile (· != "meta.MakeReadable")).count "filterNotExist" = 2 := by decide

/-- `saveDir` passes the error of `save` through `arch.error` (and continues when it is filtered) -/
theorem saveDir_funnel :
    Gen.archiver_saveDir_calls.findIdx (· == "arch.save") < Gen.archiver_saveDir_calls.length ∧
    (Gen.archiver_saveDir_calls.dropWhile (· != "arch.save")).contains "arch.error" = true := by decide

/-- read errors of files reach the same callback in `treeSaver.save` (`s.errFn`) -/
theorem treeSaver_funnel : Gen.treeSaver_save_calls.contains "s.errFn" = true ∧
    Gen.archiver_error_calls.contains "arch.Error" = true := by decide

/-- `runBackup`: the callback is installed before `arch.Snapshot`; a snapshot error is fatal before `Finish` -/
theorem runBackup_order :
    Gen.runBackup_calls.findIdx (· == "errors.IsFatal") < Gen.runBackup_calls.findIdx (· == "arch.Snapshot") ∧
    Gen.runBackup_calls.findIdx (· == "arch.Snapshot") < Gen.runBackup_calls.findIdx (· == "progressReporter.Finish") ∧
    Gen.runBackup_calls.getLast? = some "progressReporter.Finish" := by decide

/-! ### non-vacuity -/

def okF : LeafF := { lstat := .ok, open_ := .ok, fstat := .ok, typeChanged := false, read := .ok, metaFault := false }
def okD : DirF := { lstat := .ok, open_ := .ok, readdir := .ok, metaFault := false }

/-- a tree with an unreadable file, a vanished file, a socket, an unreadable directory (whose
    child is never reached), a file with a read error and a symlink with incomplete metadata -/
def tEx : Src :=
  .dir [115] okD [
    .leaf [97] .file okF,
    .leaf [98] .file { okF with open_ := .other },
    .leaf [99] .file { okF with lstat := .enoent },
    .leaf [100] .socket okF,
    .dir [101] { okD with open_ := .other } [.leaf [120] .file okF],
    .leaf [102] .file { okF with read := .other },
    .leaf [103] .special { okF with metaFault := true },
    .dir [104] okD [.leaf [121] .file okF] ]

example : (backupCmd true tEx).1 = ⟨3, true⟩ ∧
    (backupCmd true tEx).2.errors = [[[115], [98]], [[115], [101]], [[115], [102]], [[115], [103]]] ∧
    (backupCmd true tEx).2.included = [[[115]], [[115], [97]], [[115], [103]], [[115], [104]], [[115], [104], [121]]] := by decide

example : (backupCmd false (.dir [115] okD [.leaf [97] .file okF, .leaf [99] .file { okF with lstat := .enoent }])).1 = ⟨0, true⟩ := by decide

/-- nothing readable: a relative target gives "snapshot is empty" (exit 1, no snapshot); an absolute
    target gives a snapshot of the parent directories only and exit 3 -/
example : (backupCmd false (.dir [115] { okD with open_ := .other } [.leaf [97] .file okF])).1 = ⟨1, false⟩ ∧
    (backupCmd true (.dir [115] { okD with open_ := .other } [.leaf [97] .file okF])) = (⟨3, true⟩, ⟨[[[115]]], []⟩) := by decide

/-- the executable statement is not trivially true: it rejects exit 0 for `tEx`, a snapshot
    that contains the unreadable file, and a snapshot that misses a readable one -/
example : specOK tEx ⟨0, true⟩ (readItems tEx) = false ∧ specOK tEx ⟨3, true⟩ ([[115], [98]] :: readItems tEx) = false ∧
    specOK tEx ⟨3, true⟩ (readItems tEx).tail = false ∧ specOK tEx ⟨3, true⟩ (readItems tEx) = true := by decide

end Restic.Props.C55
