import Restic.Model.BackupErr
import Restic.Gen.Source
/-!
# C55 — Backups that skip source items are reported as incomplete

Statement (properties.jsonl): if any source item cannot be read during backup, the snapshot is
still saved for the readable items and the command exits with status 3; a backup in which every
item was read exits 0; files that vanish between directory listing and opening are not source items
and must not change the status.

Model (`Restic.Model.BackupErr`): transcription of the error funnel of `Archiver.save`/`saveDir`/
`saveTree`, `saveFile` + `treeSaver.save`, `nodeFromFileInfo`, and of the `success` flag / exit
status of `runBackup` + `main`, over a tree whose items carry the answer of every file-system
operation. The specification side (`visited`, `isSourceItem`, `fullyRead`, `contentRead`,
`specOK`) does not mention the funnel. Theorems, for all trees:
  `funnel`             errors reported ⇔ some reached source item was not read completely; the
                       snapshot holds exactly the reached source items whose content was read;
  `backupCmd_specOK`   the command meets the executable statement (main theorem);
  `incomplete_iff`     exit 3 ⇔ snapshot saved ∧ (callback invoked ∨ a target was skipped);
  `all_read_exit0`, `unreadable_invokes_error`, `vanished_silent`.
Boundary made explicit in the statement: when nothing at all can be read, a relative target gives
"snapshot is empty" (exit 1, no snapshot), an absolute target a snapshot of the parent directories
only and exit 3; in both cases no success is reported and no source item is in a snapshot. Hypothesis of the model: healthy repository (no `archErr`, parent
blobs present), the backup command's callback (returns nil unless the error is fatal).
-/
namespace Restic.Props.C55
open Restic.Model.BackupErr

def bad (pv : Path × View) : Bool := pv.2.isSourceItem && !pv.2.fullyRead
def good (pv : Path × View) : Bool := pv.2.isSourceItem && pv.2.contentRead

/-- the funnel reports an error iff a reached source item could not be read completely, and keeps
    exactly the reached source items whose content was read — for items and for item lists -/
theorem funnel :
    (∀ (pre : Path) (t : Src),
      ((save pre t).errors = [] ↔ (visited pre t).filter bad = []) ∧
      (save pre t).included = ((visited pre t).filter good).map (·.1)) ∧
    (∀ (pre : Path) (l : List Src),
      ((saveList pre l).errors = [] ↔ (visitedList pre l).filter bad = []) ∧
      (saveList pre l).included = ((visitedList pre l).filter good).map (·.1)) := by
  apply save.mutual_induct
    (motive_1 := fun pre t => ((save pre t).errors = [] ↔ (visited pre t).filter bad = []) ∧
      (save pre t).included = ((visited pre t).filter good).map (·.1))
    (motive_2 := fun pre l => ((saveList pre l).errors = [] ↔ (visitedList pre l).filter bad = []) ∧
      (saveList pre l).included = ((visitedList pre l).filter good).map (·.1))
  all_goals intros
  all_goals simp_all [save, saveList, visited, visitedList, bad, good, View.isSourceItem, View.fullyRead, View.contentRead]
  all_goals (first | done | (rename_i ih; exact ⟨fun _ => ih.1, ih.2⟩))


theorem errors_iff_unread (t : Src) : (save [] t).errors = [] ↔ unreadItems t = [] := by
  have := (funnel.1 [] t).1
  unfold unreadItems
  rw [List.map_eq_nil_iff]
  exact this

theorem included_eq_read (t : Src) : (save [] t).included = readItems t := (funnel.1 [] t).2

/-- **Main theorem**: the transcription of the backup command meets the executable statement -/
theorem backupCmd_specOK (abs : Bool) (t : Src) :
    specOK t (backupCmd abs t).1 (backupCmd abs t).2.included = true := by
  unfold backupCmd specOK runBackup runBackupErr
  simp only [included_eq_read]
  have he := errors_iff_unread t
  by_cases hu : unreadItems t = []
  · have h0 : (save [] t).errors = [] := he.mpr hu
    cases abs <;> by_cases hr : readItems t = [] <;> simp [hr, hu, h0, List.all_eq_true, exitCode]
  · have h0 : (save [] t).errors ≠ [] := fun h => hu (he.mp h)
    have hl : (save [] t).errors.length > 0 := List.length_pos_iff.mpr h0
    cases abs <;> by_cases hr : readItems t = [] <;> simp [hr, hu, hl, List.all_eq_true, exitCode]

/-- exit status 3 exactly when a snapshot was saved and the error callback ran (or a target was skipped) -/
theorem incomplete_iff (targetsSkipped archErr : Bool) (rootNodes errors : Nat) :
    (runBackup targetsSkipped archErr rootNodes errors).exit = 3 ↔
      (runBackup targetsSkipped archErr rootNodes errors).snapshot = true ∧ (errors > 0 ∨ targetsSkipped = true) := by
  unfold runBackup runBackupErr
  cases targetsSkipped <;> cases archErr <;> by_cases h1 : rootNodes = 0 <;> by_cases h2 : errors > 0 <;> simp [h1, h2, exitCode]

/-- exit status 0 exactly when a snapshot was saved and nothing was reported or skipped -/
theorem success_iff (targetsSkipped archErr : Bool) (rootNodes errors : Nat) :
    (runBackup targetsSkipped archErr rootNodes errors).exit = 0 ↔
      (runBackup targetsSkipped archErr rootNodes errors).snapshot = true ∧ errors = 0 ∧ targetsSkipped = false := by
  unfold runBackup runBackupErr
  cases targetsSkipped <;> cases archErr <;> by_cases h1 : rootNodes = 0 <;> by_cases h2 : errors > 0 <;> simp [h1, h2, exitCode] <;> omega

/-- a backup in which every source item was read exits 0 with a snapshot of all of them -/
theorem all_read_exit0 (abs : Bool) (t : Src) (h : unreadItems t = []) (hne : readItems t ≠ []) :
    (backupCmd abs t).1 = ⟨0, true⟩ ∧ (backupCmd abs t).2.included = readItems t := by
  unfold backupCmd runBackup runBackupErr
  have he := (errors_iff_unread t).mpr h
  have hlen : (readItems t).length ≠ 0 := fun h' => hne (List.length_eq_zero_iff.mp h')
  cases abs <;> simp [included_eq_read, he, hlen, exitCode]

/-- any reached source item that could not be read completely makes the command report it -/
theorem unreadable_invokes_error (abs : Bool) (t : Src) (p : Path) (h : p ∈ unreadItems t) :
    (save [] t).errors ≠ [] ∧ ((backupCmd abs t).1.snapshot = true → (backupCmd abs t).1.exit = 3) := by
  have hne : unreadItems t ≠ [] := fun h' => by rw [h'] at h; cases h
  have he : (save [] t).errors ≠ [] := fun h' => hne ((errors_iff_unread t).mp h')
  refine ⟨he, ?_⟩
  have hl : (save [] t).errors.length > 0 := List.length_pos_iff.mpr he
  unfold backupCmd runBackup runBackupErr
  cases abs <;> by_cases h0 : (save [] t).included.length = 0 <;> simp [h0, hl, exitCode]

/-- an entry that vanished between the directory listing and the first lstat is no source item:
    it produces no report, no node, and leaves the result for the other entries unchanged -/
theorem vanished_silent (pre : Path) (name : Bytes) (k : LeafKind) (f : LeafF) (hf : f.lstat = .enoent) (rest : List Src) :
    save pre (.leaf name k f) = ⟨[], []⟩ ∧ saveList pre (.leaf name k f :: rest) = saveList pre rest := by
  have h1 : save pre (.leaf name k f) = ⟨[], []⟩ := by simp [save, hf]
  refine ⟨h1, ?_⟩
  simp [saveList, h1]

/-! ### T1 -/

/-- `filterNotExist` guards exactly the two operations before the item is known to exist (the
    metadata open and the first lstat); the three later checks of a regular file report ENOENT too -/
theorem notexist_filter_sites :
    Gen.archiver_save_calls.count "filterNotExist" = 2 ∧ Gen.archiver_save_calls.count "filterError" = 5 ∧
    (Gen.archiver_save_calls.takeWhile (· != "meta.MakeReadable")).count "filterNotExist" = 2 := by decide

/-- `saveDir` passes the error of `save` through `arch.error` (and continues when it is filtered) -/
theorem saveDir_funnel :
    Gen.archiver_saveDir_calls.findIdx (· == "arch.save") < Gen.archiver_saveDir_calls.length ∧
    (Gen.archiver_saveDir_calls.dropWhile (· != "arch.save")).contains "arch.error" = true := by decide

/-- read errors of files reach the same callback in `treeSaver.save` (`s.errFn`) -/
theorem treeSaver_funnel : Gen.treeSaver_save_calls.contains "s.errFn" = true ∧
    Gen.archiver_error_calls.contains "arch.Error" = true := by decide

/-- `runBackup`: the callback is installed before `arch.Snapshot`; a snapshot error is fatal before `Finish` -/
theorem runBackup_order :
    Gen.runBackup_calls.findIdx (· == "errors.IsFatal") < Gen.runBackup_calls.findIdx (· == "arch.Snapshot") ∧
    Gen.runBackup_calls.findIdx (· == "arch.Snapshot") < Gen.runBackup_calls.findIdx (· == "progressReporter.Finish") ∧
    Gen.runBackup_calls.getLast? = some "progressReporter.Finish" := by decide

/-- how the exit codes of the model are written in the Go source -/
def codeLit : Nat → String
  | 0 => "0"
  | 1 => "1"
  | 3 => "3"
  | _ => "?"

/-- the exit-code switch of `main` as regenerated from the source: its case expressions (third
    switch of the function) paired with the literals assigned in the same order — the eight literals
    that follow the last string literal of `main`; the very last literal is the `0` of `exitCode != 0` -/
def exitTableGen : List (String × String) :=
  Gen.main_exit_cases.zip ((Gen.main_literals.drop (Gen.main_literals.length - 9)).take 8)

/-- **T1: the exit-status table.** The switch has a case for `ErrInvalidSourceData`; it comes right
    after `err == nil`, before every `errors.Is` case and before `default`; its exit code is 3 (shared
    only with forget's "failed to remove snapshots"); success is 0; the fall-through taken by fatal
    errors is 1 — and the model's `exitCode` is this table. -/
theorem exit_table :
    Gen.main_exit_cases = ["err == nil", "err == ErrInvalidSourceData", "errors.Is(err, ErrFailedToRemoveOneOrMoreSnapshots)",
      "errors.Is(err, global.ErrNoRepository)", "repository.IsAlreadyLocked(err)", "errors.Is(err, repository.ErrNoKeyFound)",
      "errors.Is(err, context.Canceled)", "default"] ∧
    Gen.main_literals.drop (Gen.main_literals.length - 9) = ["0", "3", "3", "10", "11", "12", "130", "1", "0"] ∧
    exitTableGen.lookup "err == nil" = some (codeLit (exitCode .nil)) ∧
    exitTableGen.lookup "err == ErrInvalidSourceData" = some (codeLit (exitCode .invalidSourceData)) ∧
    exitTableGen.lookup "default" = some (codeLit (exitCode .fatal)) ∧
    exitCode .invalidSourceData = 3 ∧
    Gen.main_exit_cases.findIdx (· == "err == ErrInvalidSourceData") < Gen.main_exit_cases.findIdx (· == "default") ∧
    (exitTableGen.filter (·.2 == "3")).map (·.1) = ["err == ErrInvalidSourceData", "errors.Is(err, ErrFailedToRemoveOneOrMoreSnapshots)"] := by decide

/-- `runBackup`: a skipped target is recognised with `errors.Is(err, ErrInvalidSourceData)`; the
    `arch.Error` callback (the only place besides that which clears `success`) reports through
    `progressReporter.Error(item, err)` and escalates fatal errors, and is installed before
    `arch.Snapshot`; a snapshot error becomes `errors.Fatalf("unable to save snapshot: …")`.
    (The assignment `success = false` itself is not a call and is tied by the correspondence runs.) -/
theorem runBackup_callback_shape :
    Gen.runBackup_callargs.contains "errors.Is(err, ErrInvalidSourceData)" = true ∧
    Gen.runBackup_callargs.findIdx (· == "errors.Is(err, ErrInvalidSourceData)") < Gen.runBackup_callargs.findIdx (· == "errors.IsFatal(err)") ∧
    (Gen.runBackup_callargs.filter (· == "progressReporter.Error(item, err)")).length = 2 ∧
    Gen.runBackup_callargs.findIdx (· == "errors.IsFatal(err)") < Gen.runBackup_callargs.findIdx (· == "arch.Snapshot(ctx, targets, snapshotOpts)") ∧
    Gen.runBackup_callargs.findIdx (· == "arch.Snapshot(ctx, targets, snapshotOpts)") < Gen.runBackup_callargs.findIdx (· == "errors.Fatalf(\"unable to save snapshot: %v\", err)") ∧
    Gen.runBackup_callargs.findIdx (· == "errors.Fatalf(\"unable to save snapshot: %v\", err)") < Gen.runBackup_callargs.length := by decide

/-! ### non-vacuity -/

def okF : LeafF := { lstat := .ok, open_ := .ok, fstat := .ok, typeChanged := false, read := .ok, metaFault := false }
def okD : DirF := { lstat := .ok, open_ := .ok, readdir := .ok, metaFault := false }

/-- a tree with an unreadable file, a vanished file, a socket, an unreadable directory (whose
    child is never reached), a file with a read error and a symlink with incomplete metadata -/
def tEx : Src :=
  .dir [115] okD [
    .leaf [97] .file okF,
    .leaf [98] .file { okF with open_ := .other },
    .leaf [99] .file { okF with lstat := .enoent },
    .leaf [100] .socket okF,
    .dir [101] { okD with open_ := .other } [.leaf [120] .file okF],
    .leaf [102] .file { okF with read := .other },
    .leaf [103] .special { okF with metaFault := true },
    .dir [104] okD [.leaf [121] .file okF] ]

example : (backupCmd true tEx).1 = ⟨3, true⟩ ∧
    (backupCmd true tEx).2.errors = [[[115], [98]], [[115], [101]], [[115], [102]], [[115], [103]]] ∧
    (backupCmd true tEx).2.included = [[[115]], [[115], [97]], [[115], [103]], [[115], [104]], [[115], [104], [121]]] := by decide

example : (backupCmd false (.dir [115] okD [.leaf [97] .file okF, .leaf [99] .file { okF with lstat := .enoent }])).1 = ⟨0, true⟩ := by decide

/-- nothing readable: a relative target gives "snapshot is empty" (exit 1, no snapshot); an absolute
    target gives a snapshot of the parent directories only and exit 3 -/
example : (backupCmd false (.dir [115] { okD with open_ := .other } [.leaf [97] .file okF])).1 = ⟨1, false⟩ ∧
    (backupCmd true (.dir [115] { okD with open_ := .other } [.leaf [97] .file okF])) = (⟨3, true⟩, ⟨[[[115]]], []⟩) := by decide

/-- the executable statement is not trivially true: it rejects exit 0 for `tEx`, a snapshot
    that contains the unreadable file, and a snapshot that misses a readable one -/
example : specOK tEx ⟨0, true⟩ (readItems tEx) = false ∧ specOK tEx ⟨3, true⟩ ([[115], [98]] :: readItems tEx) = false ∧
    specOK tEx ⟨3, true⟩ (readItems tEx).tail = false ∧ specOK tEx ⟨3, true⟩ (readItems tEx) = true := by decide

end Restic.Props.C55
