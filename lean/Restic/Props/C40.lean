import Restic.Model.Incremental
import Restic.Gen.Source
/-!
# C40 — Incremental backups store the same tree as full backups (composite)

Statement (properties.jsonl): a backup that uses a parent snapshot produces the same tree as a
backup of the same source without a parent, provided files whose content changed also changed size,
mtime, ctime or inode (subject to --ignore-ctime or --ignore-inode). With --skip-if-unchanged, the
snapshot is omitted exactly when a parent exists and its tree equals the new tree.

Model (`Restic.Model.Incremental`): transcription of `fileChanged`, `allBlobsPresent`, the re-use
branch of `Archiver.save`, the `saveDir` recursion with `TreeFinder.Find`/`loadSubtree`, the
`SkipIfUnchanged` test of `Archiver.Snapshot`, the option logic of `findParentSnapshot`.
Theorems, for all source trees, all parent trees (ANY tree, not only one produced by restic), all
index states and all flag combinations:
  `incremental_eq_full`  under the hypothesis (`HypOK`: wherever `fileChanged` says "unchanged"
                         for a file the parent's content list is what chunking the current
                         content yields) the tree stored with a parent equals the tree stored
                         without one — also when blobs of the parent are missing from the index
                         (the file is then stored again);
  `hyp_from_history`     the hypothesis follows from the property's proviso for a parent that was
                         itself produced by a backup: content changed ⇒ `fileChanged`;
  `metadata_fresh`       every node's metadata is the current one, whatever the parent says;
  `skip_iff`, `force_no_parent`, `no_parent_found_ok`.
Composite: chunk lists are a function of the content (C17 `c17_restic`), trees with equal nodes
have equal ids (C41), identical content is stored once (C16) — `chunkIDs` is that function.
-/
namespace Restic.Props.C40
open Restic.Model.Incremental

/-- a regular file: under the hypothesis the node carries the chunk list of the current content -/
theorem save_file {ID : Type} [DecidableEq ID] (chunkIDs : Bytes → List ID) (inIndex : ID → Bool) (fl : Flags)
    (previous : Option (TNode ID)) (n : Bytes) (md : Nat) (fi : FileInfo) (c : Bytes)
    (h : HypOK chunkIDs fl previous (.file n md fi c) = true) :
    save chunkIDs inIndex fl previous (.file n md fi c) = .file n md fi (chunkIDs c) := by
  unfold save
  by_cases hc : fileChanged fi previous fl = true
  · simp [hc]
  · have hc' : fileChanged fi previous fl = false := by simpa using hc
    simp only [hc', Bool.not_false, if_true]
    cases previous with
    | none => rfl
    | some p =>
      cases p with
      | other => rfl
      | dir => rfl
      | file pn pmd pfi pc =>
        simp only [HypOK, hc', Bool.false_or, beq_iff_eq] at h
        simp only
        split
        · rw [h]
        · rfl

/-- with or without a parent, for items and for directory listings -/
theorem save_eq_full {ID : Type} [DecidableEq ID] (chunkIDs : Bytes → List ID) (inIndex inIndex' : ID → Bool) (fl fl' : Flags) :
    (∀ (previous : Option (TNode ID)) (s : Src), HypOK chunkIDs fl previous s = true →
      save chunkIDs inIndex fl previous s = save chunkIDs inIndex' fl' none s) ∧
    (∀ (prev : List (TNode ID)) (l : List Src), HypOKL chunkIDs fl prev l = true →
      saveList chunkIDs inIndex fl prev l = saveList chunkIDs inIndex' fl' [] l) := by
  have hfile : ∀ (previous : Option (TNode ID)) (n : Bytes) (md : Nat) (fi : FileInfo) (c : Bytes),
      HypOK chunkIDs fl previous (.file n md fi c) = true →
      save chunkIDs inIndex fl previous (.file n md fi c) = save chunkIDs inIndex' fl' none (.file n md fi c) := by
    intro previous n md fi c h
    rw [save_file chunkIDs inIndex fl previous n md fi c h,
        save_file chunkIDs inIndex' fl' none n md fi c (by simp [HypOK])]
  apply save.mutual_induct (ID := ID) inIndex fl
    (motive_1 := fun previous s => HypOK chunkIDs fl previous s = true →
      save chunkIDs inIndex fl previous s = save chunkIDs inIndex' fl' none s)
    (motive_2 := fun prev l => HypOKL chunkIDs fl prev l = true →
      saveList chunkIDs inIndex fl prev l = saveList chunkIDs inIndex' fl' [] l)
  · intro a a1 a2 a3 name md fi pc _ _ h; exact hfile _ _ _ _ _ h
  · intro a a1 a2 a3 name md fi pc _ _ h; exact hfile _ _ _ _ _ h
  · intro previous a a1 a2 a3 _ _ h; exact hfile _ _ _ _ _ h
  · intro previous a a1 a2 a3 _ h; exact hfile _ _ _ _ _ h
  · intro previous a a1 _; simp [save]
  · intro previous a a1 a2 ih h
    simp only [HypOK] at h
    simp only [save]
    rw [ih h]
    rfl
  · intro prev _; rfl
  · intro prev c cs name ih1 ih2 h
    have h' : HypOK chunkIDs fl (findNode prev name) c = true ∧ HypOKL chunkIDs fl prev cs = true := by
      have : HypOKL chunkIDs fl prev (c :: cs) =
          (HypOK chunkIDs fl (findNode prev name) c && HypOKL chunkIDs fl prev cs) := by
        conv => lhs; unfold HypOKL
      rw [this, Bool.and_eq_true] at h
      exact h
    have e1 : saveList chunkIDs inIndex fl prev (c :: cs) =
        save chunkIDs inIndex fl (findNode prev name) c :: saveList chunkIDs inIndex fl prev cs := by
      conv => lhs; unfold saveList
    have e2 : saveList chunkIDs inIndex' fl' [] (c :: cs) =
        save chunkIDs inIndex' fl' (findNode [] name) c :: saveList chunkIDs inIndex' fl' [] cs := by
      conv => lhs; unfold saveList
    rw [e1, e2, ih1 h'.1, ih2 h'.2]
    rfl

/-- **C40, first part.** -/
theorem incremental_eq_full {ID : Type} [DecidableEq ID] (chunkIDs : Bytes → List ID) (inIndex : ID → Bool) (fl : Flags)
    (parent : TNode ID) (root : Src) (h : HypOK chunkIDs fl (some parent) root = true) :
    incrBackup chunkIDs inIndex fl parent root = fullBackup chunkIDs root :=
  (save_eq_full chunkIDs inIndex (fun _ => true) fl ⟨false, false⟩).1 (some parent) root h

mutual
theorem tnode_beq_refl {ID : Type} [DecidableEq ID] : ∀ t : TNode ID, TNode.beq t t = true
  | .file .. => by simp [TNode.beq]
  | .other .. => by simp [TNode.beq]
  | .dir _ _ cs => by simp [TNode.beq, tnode_beqL_refl cs]
theorem tnode_beqL_refl {ID : Type} [DecidableEq ID] : ∀ l : List (TNode ID), TNode.beqL l l = true
  | [] => by simp [TNode.beqL]
  | a :: as => by simp [TNode.beqL, tnode_beq_refl a, tnode_beqL_refl as]
end

/-- … in the form of the executable statement -/
theorem incremental_specOK {ID : Type} [DecidableEq ID] (chunkIDs : Bytes → List ID) (inIndex : ID → Bool) (fl : Flags)
    (parent : TNode ID) (root : Src) :
    specOK (HypOK chunkIDs fl (some parent) root) (incrBackup chunkIDs inIndex fl parent root) (fullBackup chunkIDs root) = true := by
  unfold specOK
  cases h : HypOK chunkIDs fl (some parent) root with
  | false => rfl
  | true =>
    rw [incremental_eq_full chunkIDs inIndex fl parent root h]
    simp [tnode_beq_refl]


/-! ### the hypothesis follows from the proviso of the property for a parent made by a backup -/

def srcName : Src → Bytes
  | .file n .. => n
  | .other n _ => n
  | .dir n .. => n

def findSrc (olds : List Src) (name : Bytes) : Option Src := olds.find? (srcName · = name)

def subSrc : Option Src → List Src
  | some (.dir _ _ cs) => cs
  | _ => []

mutual
/-- the proviso of C40 between the source at the time of the parent backup (`old`) and now:
    a regular file that was a regular file at the same place and whose content changed is
    detected by `fileChanged` (size, mtime, or — unless ignored — ctime or inode changed) -/
def Proviso (fl : Flags) (old : Option Src) : Src → Bool
  | .file _ _ fi c =>
    match old with
    | some (.file on omd ofi oc) => fileChanged (ID := Unit) fi (some (.file on omd ofi [])) fl || c == oc
    | _ => true
  | .other .. => true
  | .dir _ _ cs => ProvisoL fl (subSrc old) cs
def ProvisoL (fl : Flags) (olds : List Src) : List Src → Bool
  | [] => true
  | c :: cs => Proviso fl (findSrc olds (srcName c)) c && ProvisoL fl olds cs
end

theorem save_name {ID : Type} (chunkIDs : Bytes → List ID) (inIndex : ID → Bool) (fl : Flags) (prev : Option (TNode ID)) (s : Src) :
    (save chunkIDs inIndex fl prev s).name = srcName s := by
  cases s with
  | file n md fi c =>
    unfold save
    split
    · split
      · split <;> rfl
      · rfl
    · rfl
  | other n md => simp [save, TNode.name, srcName]
  | dir n md cs => simp [save, TNode.name, srcName]

theorem find_saveList {ID : Type} (chunkIDs : Bytes → List ID) (olds : List Src) (name : Bytes) :
    findNode (saveList chunkIDs (fun _ => true) ⟨false, false⟩ ([] : List (TNode ID)) olds) name =
      (findSrc olds name).map (fullBackup chunkIDs) := by
  induction olds with
  | nil => simp [saveList, findNode, findSrc]
  | cons o os ih =>
    have e : saveList chunkIDs (fun _ => true) ⟨false, false⟩ ([] : List (TNode ID)) (o :: os) =
        save chunkIDs (fun _ => true) ⟨false, false⟩ (findNode [] (srcName o)) o ::
          saveList chunkIDs (fun _ => true) ⟨false, false⟩ [] os := by
      conv => lhs; unfold saveList
      cases o <;> rfl
    rw [e]
    unfold findNode findSrc at *
    simp only [List.find?_cons, save_name]
    by_cases h : srcName o = name
    · simp [h, fullBackup]
    · simp [h, ih]

theorem fileChanged_content_irrel {ID ID' : Type} (fi : FileInfo) (n : Bytes) (md : Nat) (ofi : FileInfo)
    (c : List ID) (c' : List ID') (fl : Flags) :
    fileChanged fi (some (TNode.file n md ofi c)) fl = fileChanged fi (some (TNode.file n md ofi c')) fl := by
  simp [fileChanged]

theorem hyp_from_history_aux {ID : Type} [DecidableEq ID] (chunkIDs : Bytes → List ID) (fl : Flags) :
    (∀ (old : Option Src) (new : Src), Proviso fl old new = true →
      HypOK chunkIDs fl (old.map (fullBackup chunkIDs)) new = true) ∧
    (∀ (olds : List Src) (news : List Src), ProvisoL fl olds news = true →
      HypOKL chunkIDs fl (saveList chunkIDs (fun _ => true) ⟨false, false⟩ [] olds) news = true) := by
  apply Proviso.mutual_induct
    (motive_1 := fun old new => Proviso fl old new = true →
      HypOK chunkIDs fl (old.map (fullBackup chunkIDs)) new = true)
    (motive_2 := fun olds news => ProvisoL fl olds news = true →
      HypOKL chunkIDs fl (saveList chunkIDs (fun _ => true) ⟨false, false⟩ [] olds) news = true)
  · -- new file, old file
    intro a a1 fi c on omd ofi oc h
    simp only [Proviso, Bool.or_eq_true, beq_iff_eq] at h
    have hs : fullBackup chunkIDs (Src.file on omd ofi oc) = TNode.file on omd ofi (chunkIDs oc) := by
      simp [fullBackup, save, fileChanged]
    simp only [Option.map_some, hs, HypOK, Bool.or_eq_true, beq_iff_eq]
    rcases h with h | h
    · left; rw [← h]; exact fileChanged_content_irrel _ _ _ _ _ _ _
    · right; rw [h]
  · -- new file, old not a file
    intro old a a1 fi c hno _
    cases old with
    | none => simp [HypOK]
    | some o =>
      cases o with
      | file on omd ofi oc => exact absurd rfl (hno on omd ofi oc)
      | other on omd => simp [HypOK, fullBackup, save]
      | dir on omd ocs => simp [HypOK, fullBackup, save]
  · intro old a a1 _; simp [HypOK]
  · -- directory
    intro old a a1 cs ih h
    simp only [Proviso] at h
    have := ih h
    simp only [HypOK]
    have e : subtreeOf (old.map (fullBackup chunkIDs)) =
        saveList chunkIDs (fun _ => true) ⟨false, false⟩ ([] : List (TNode ID)) (subSrc old) := by
      cases old with
      | none => simp [subtreeOf, subSrc, saveList]
      | some o =>
        cases o with
        | file on omd ofi oc => simp [subtreeOf, subSrc, saveList, fullBackup, save, fileChanged]
        | other on omd => simp [subtreeOf, subSrc, saveList, fullBackup, save]
        | dir on omd ocs => simp [subtreeOf, subSrc, fullBackup, save]
    rw [e]; exact this
  · intro olds _; simp [HypOKL]
  · intro olds c cs ih1 ih2 h
    simp only [ProvisoL, Bool.and_eq_true] at h
    have e : HypOKL chunkIDs fl (saveList chunkIDs (fun _ => true) ⟨false, false⟩ [] olds) (c :: cs) =
        (HypOK chunkIDs fl (findNode (saveList chunkIDs (fun _ => true) ⟨false, false⟩ [] olds) (srcName c)) c &&
         HypOKL chunkIDs fl (saveList chunkIDs (fun _ => true) ⟨false, false⟩ [] olds) cs) := by
      conv => lhs; unfold HypOKL
      cases c <;> rfl
    rw [e, find_saveList, Bool.and_eq_true]
    exact ⟨ih1 h.1, ih2 h.2⟩

/-- **C40: the hypothesis of `incremental_eq_full` is the proviso of the property.** If the parent
    tree was produced by a backup of the earlier state `old` and every file whose content changed
    since then is detected by `fileChanged`, then the incremental backup stores the full tree. -/
theorem incremental_eq_full_history {ID : Type} [DecidableEq ID] (chunkIDs : Bytes → List ID) (inIndex : ID → Bool) (fl : Flags)
    (old new : Src) (h : Proviso fl (some old) new = true) :
    incrBackup chunkIDs inIndex fl (fullBackup chunkIDs old) new = fullBackup chunkIDs new :=
  incremental_eq_full chunkIDs inIndex fl _ new ((hyp_from_history_aux chunkIDs fl).1 (some old) new h)

/-- … and so by induction along any chain of backups: if each state satisfies the proviso with
    respect to its predecessor, every incremental backup of the chain stores the full tree -/
theorem chain_eq_full {ID : Type} [DecidableEq ID] (chunkIDs : Bytes → List ID) (inIndex : ID → Bool) (fl : Flags)
    (s0 : Src) (rest : List Src) :
    (List.foldl (fun (acc : Src × TNode ID × Bool) (s : Src) =>
        (s, incrBackup chunkIDs inIndex fl acc.2.1 s, acc.2.2 && Proviso fl (some acc.1) s))
      (s0, fullBackup chunkIDs s0, true) rest).2.2 = true →
    (List.foldl (fun (acc : Src × TNode ID × Bool) (s : Src) =>
        (s, incrBackup chunkIDs inIndex fl acc.2.1 s, acc.2.2 && Proviso fl (some acc.1) s))
      (s0, fullBackup chunkIDs s0, true) rest).2.1 =
      fullBackup chunkIDs ((s0 :: rest).getLast (by simp)) := by
  induction rest generalizing s0 with
  | nil => intro _; simp
  | cons s ss ih =>
    intro h
    simp only [List.foldl_cons, Bool.true_and] at h ⊢
    by_cases hp : Proviso fl (some s0) s = true
    · rw [hp, incremental_eq_full_history chunkIDs inIndex fl s0 s hp] at h
      rw [hp, incremental_eq_full_history chunkIDs inIndex fl s0 s hp]
      have := ih s h
      rw [this]
      simp [List.getLast_cons]
    · have hp' : Proviso fl (some s0) s = false := by simpa using hp
      rw [hp'] at h
      exfalso
      have : ∀ (l : List Src) (a : Src) (t : TNode ID),
          (List.foldl (fun (acc : Src × TNode ID × Bool) (s : Src) =>
            (s, incrBackup chunkIDs inIndex fl acc.2.1 s, acc.2.2 && Proviso fl (some acc.1) s)) (a, t, false) l).2.2 = false := by
        intro l
        induction l with
        | nil => intros; rfl
        | cons x xs ihx => intro a t; simp only [List.foldl_cons, Bool.false_and]; exact ihx _ _
      rw [this] at h
      cases h


/-! ### metadata, skipping, parent selection -/

def nodeMd {ID : Type} : TNode ID → Nat
  | .file _ m .. => m
  | .other _ m => m
  | .dir _ m _ => m

def srcMd : Src → Nat
  | .file _ m .. => m
  | .other _ m => m
  | .dir _ m _ => m

/-- metadata (and the name) of every stored node are the current ones, whatever the parent holds —
    no hypothesis needed -/
theorem metadata_fresh {ID : Type} (chunkIDs : Bytes → List ID) (inIndex : ID → Bool) (fl : Flags) (prev : Option (TNode ID)) (s : Src) :
    nodeMd (save chunkIDs inIndex fl prev s) = srcMd s ∧ (save chunkIDs inIndex fl prev s).name = srcName s := by
  refine ⟨?_, save_name chunkIDs inIndex fl prev s⟩
  cases s with
  | file n md fi c =>
    unfold save
    split
    · split
      · split <;> rfl
      · rfl
    · rfl
  | other n md => simp [save, nodeMd, srcMd]
  | dir n md cs => simp [save, nodeMd, srcMd]

/-- **C40, second part**: the snapshot is omitted exactly when skipping was requested, a parent
    exists, and the parent's tree is the new tree -/
theorem skip_iff {TID : Type} [DecidableEq TID] (skipIfUnchanged : Bool) (parentTree : Option (Option TID)) (rootTree : TID) :
    skipSnapshot skipIfUnchanged parentTree rootTree = true ↔
      skipIfUnchanged = true ∧ ∃ pt, parentTree = some pt ∧ pt = some rootTree := by
  unfold skipSnapshot
  cases parentTree with
  | none => simp
  | some pt =>
    cases skipIfUnchanged with
    | false => simp
    | true =>
      cases pt with
      | none => simp
      | some t => simp

/-- in the form of the executable statement used on the implementation -/
theorem skip_specOK {TID : Type} [DecidableEq TID] (skipIfUnchanged : Bool) (parentTree : Option (Option TID)) (rootTree : TID) :
    skipSpecOK skipIfUnchanged parentTree.isSome (parentTree = some (some rootTree))
      (skipSnapshot skipIfUnchanged parentTree rootTree) = true := by
  unfold skipSpecOK skipSnapshot
  cases parentTree with
  | none => simp
  | some pt =>
    cases skipIfUnchanged with
    | false => simp
    | true =>
      cases pt with
      | none => simp
      | some t => by_cases h : t = rootTree <;> simp [h]

/-- `--force` never uses a parent; without `--force` a found snapshot is used; "none found" is an
    error only for an explicit `--parent` -/
theorem force_no_parent {S : Type} (explicitParent : Bool) (fl : Option (Option S)) :
    findParentSnapshot true explicitParent fl = .noParent := rfl

theorem no_parent_found_ok {S : Type} : findParentSnapshot (S := S) false false (some none) = .noParent ∧
    findParentSnapshot (S := S) false true (some none) = .error ∧
    (∀ s : S, ∀ e, findParentSnapshot false e (some (some s)) = .parent s) := ⟨rfl, rfl, fun _ _ => rfl⟩

/-- the option mapping of the backup command: `--ignore-inode` switches the ctime check off too -/
theorem cliFlags_spec (c i : Bool) : cliFlags c i = ⟨c || i, i⟩ := by
  cases c <;> cases i <;> rfl

/-! ### T1 -/

/-- the first switch of `fileChanged` and the comparisons that follow, as transcribed -/
theorem fileChanged_shape :
    Gen.fileChanged_cases = ["node == nil", "node.Type != data.NodeTypeFile", "uint64(fi.Size) != node.Size", "!fi.ModTime.Equal(node.ModTime)"] ∧
    Gen.fileChanged_calls = ["uint64", "fi.ModTime.Equal", "fi.ChangeTime.Equal"] := by decide

/-- `save`: `fileChanged` is consulted before `allBlobsPresent`, both before the file is opened
    for reading; the re-use branch takes fresh metadata (`nodeFromFileInfo`) -/
theorem reuse_order :
    Gen.archiver_save_calls_c40.findIdx (· == "fileChanged") < Gen.archiver_save_calls_c40.findIdx (· == "arch.allBlobsPresent") ∧
    Gen.archiver_save_calls_c40.findIdx (· == "arch.allBlobsPresent") < Gen.archiver_save_calls_c40.findIdx (· == "arch.nodeFromFileInfo") ∧
    Gen.archiver_save_calls_c40.findIdx (· == "arch.nodeFromFileInfo") < Gen.archiver_save_calls_c40.findIdx (· == "meta.MakeReadable") ∧
    Gen.archiver_save_calls_c40.findIdx (· == "meta.MakeReadable") < Gen.archiver_save_calls_c40.findIdx (· == "arch.fileSaver.Save") ∧
    Gen.archiver_save_calls_c40.findIdx (· == "arch.fileSaver.Save") < Gen.archiver_save_calls_c40.length := by decide

/-- `Snapshot`: the tree comparison happens after the tree is stored and before the snapshot is saved -/
theorem skip_test_position :
    Gen.archiver_Snapshot_calls.findIdx (· == "arch.saveTree") < Gen.archiver_Snapshot_calls.findIdx (· == "rootTreeID.Equal") ∧
    Gen.archiver_Snapshot_calls.findIdx (· == "rootTreeID.Equal") < Gen.archiver_Snapshot_calls.findIdx (· == "data.SaveSnapshot") ∧
    Gen.archiver_Snapshot_calls.getLast? = some "data.SaveSnapshot" := by decide

theorem findParent_shape : Gen.findParentSnapshot_calls = ["opts.Tags.Flatten", "f.FindLatest", "errors.Is"] := by decide

/-! ### non-vacuity and negation witness -/

def fi0 : FileInfo := { size := 3, mtime := 100, ctime := 100, inode := 7 }
/-- toy chunking: one chunk per byte -/
def ch : Bytes → List Nat := fun c => c.map (·.toNat)

def oldT : Src := .dir [115] 1 [.file [97] 2 fi0 [1, 2, 3], .file [98] 2 fi0 [4, 5, 6], .dir [100] 1 [.file [120] 2 fi0 [7]], .other [108] 3]
/-- `a` edited with a new mtime, `b` untouched, `d` replaced by a file, `l` now a directory, `n` new -/
def newT : Src := .dir [115] 9 [.file [97] 2 { fi0 with mtime := 200 } [1, 2, 9], .file [98] 5 fi0 [4, 5, 6], .file [100] 2 fi0 [8],
  .dir [108] 1 [.file [121] 2 fi0 [3]], .file [110] 2 fi0 []]

example : Proviso ⟨false, false⟩ (some oldT) newT = true ∧
    TNode.beq (incrBackup ch (fun _ => true) ⟨false, false⟩ (fullBackup ch oldT) newT) (fullBackup ch newT) = true := by decide

/-- the proviso is needed: content changed, size/mtime kept, ctime and inode ignored → the parent's
    stale chunk list is re-used and the trees differ (the model predicts the difference that the
    correspondence stream `stale` observes on the real code) -/
def staleT : Src := .dir [115] 1 [.file [97] 2 { fi0 with ctime := 300 } [1, 2, 4], .file [98] 2 fi0 [4, 5, 6], .dir [100] 1 [.file [120] 2 fi0 [7]], .other [108] 3]
example : Proviso ⟨true, true⟩ (some oldT) staleT = false ∧
    TNode.beq (incrBackup ch (fun _ => true) ⟨true, true⟩ (fullBackup ch oldT) staleT) (fullBackup ch staleT) = false ∧
    -- with the ctime check on, the same edit is detected
    TNode.beq (incrBackup ch (fun _ => true) ⟨false, false⟩ (fullBackup ch oldT) staleT) (fullBackup ch staleT) = true := by decide

/-- blobs of the parent missing from the index: the file is stored again, the tree is still the full tree -/
example : TNode.beq (incrBackup ch (fun id => id != 5) ⟨false, false⟩ (fullBackup ch oldT) newT) (fullBackup ch newT) = true := by decide

end Restic.Props.C40
