import Restic.Model.Upgrade
import Restic.Model.BeFiles
import Restic.Proofs.BeFiles
import Restic.Gen.Source
/-!
# C31 — upgrading a repository to format v2 preserves all data

Theorems about `Restic.Model.Upgrade` (transcription of `UpgradeRepo` / `upgradeRepository`) for
**all** fault schedules (`fail : Nat → Bool`, which operations on the config file fail) and all
interruption points (prefixes of the state sequence), on backends with and without atomic replace.

Full statement of the config part of C31: `∀ atomic fail, specOK (states .old (upgrade … fail .old).2)`.
* It is **false** on backends without atomic replace (`nonatomic_window`, proved negation witness;
  open known finding, inherent: the config must be removed before the new one can be saved).
* On backends with atomic replace it is **false for the unchanged source** (`atomic_unfixed_loss`:
  the roll-back path removes the config before re-uploading it) and **true with the fix**
  `fix/C31-atomic-contingency-keeps-config` (`atomic_safe`, all schedules, all interruption points).
  `current_source_fixed` states (from the regenerated call list) that the current source has the fix.
* `final_ok` (= DESIGN's `upgrade_partial`): whenever the run reports anything but a double failure,
  a config is present at the end — on every backend.
-/
namespace Restic.Props.C31
open Restic.Model.Upgrade

/-- the current source guards the contingency `Remove` with `Properties().HasAtomicReplace` -/
def currentFixed : Bool := Restic.Gen.C31_UpgradeRepo_calls.contains "repo.be.Properties"

/-! ## backends with atomic replace -/

/-- **atomic_safe**: with the fix, on a backend with atomic replace, whatever operations fail and
    wherever the run is interrupted, the config file is the old or the new one. -/
theorem atomic_safe (fail : Nat → Bool) : specOK (states .old (upgrade true true fail .old).2) = true := by
  cases h0 : fail 0 <;> cases h1 : fail 1 <;>
    simp [upgrade, contingency, contRemoves, doSave, states, specOK, cfgOK, h0, h1]

/-- the fixed roll-back never issues a `Remove` on such a backend -/
theorem atomic_fixed_never_removes (fail : Nat → Bool) (st : Cfg) :
    ∀ s ∈ (upgrade true true fail st).2, s.op ≠ .remove := by
  cases h0 : fail 0 <;> cases h1 : fail 1 <;> cases st <;>
    simp [upgrade, contingency, contRemoves, doSave, h0, h1]

/-- unchanged source, proved part: as long as saving the new config does not *fail*, every
    interruption point is safe (pure crash points) -/
theorem atomic_safe_unfixed_partial (fail : Nat → Bool) (h : fail 0 = false) :
    specOK (states .old (upgrade false true fail .old).2) = true := by
  simp [upgrade, doSave, states, specOK, cfgOK, h]

/-- unchanged source, negation witness: the save of the new config fails; the roll-back removes the
    old config; an interruption (or a second failure) there leaves no config -/
theorem atomic_unfixed_loss :
    ∃ fail : Nat → Bool, specOK (states .old (upgrade false true fail .old).2) = false ∧
      (states .old (upgrade false true fail .old).2) = [.old, .old, .none, .old] :=
  ⟨fun i => i == 0, by decide, by decide⟩

theorem atomic_unfixed_double_failure :
    ∃ fail : Nat → Bool, upgrade false true fail .old =
      (.failedNotRestored, [⟨.saveNew, false, .old⟩, ⟨.remove, true, .none⟩, ⟨.saveOld, false, .none⟩]) :=
  ⟨fun i => i == 0 || i == 2, by decide⟩

/-! ## backends without atomic replace -/

/-- **negation witness (F10)**: on a backend without atomic replace even the fault-free run passes
    through a state without config: `[old, none, new]`. The fix does not (cannot) change this. -/
theorem nonatomic_window (fixed : Bool) :
    states .old (upgrade fixed false (fun _ => false) .old).2 = [.old, .none, .new] ∧
    specOK (states .old (upgrade fixed false (fun _ => false) .old).2) = false := by
  cases fixed <;> exact ⟨by decide, by decide⟩

/-- the fix changes nothing on backends without atomic replace -/
theorem fix_only_affects_atomic (fail : Nat → Bool) (st : Cfg) :
    upgrade true false fail st = upgrade false false fail st := by
  simp [upgrade, contingency, contRemoves]

/-! ## all backends: failures without interruption (`upgrade_partial`) -/

/-- **final_ok**: if the run ends (no interruption) and does not report a double failure, a config
    is present: the new one after success, the old one after a successful re-upload -/
theorem final_ok (fixed atomic : Bool) (fail : Nat → Bool) :
    ((upgrade fixed atomic fail .old).1 = .upgraded → finalState .old (upgrade fixed atomic fail .old).2 = .new) ∧
    ((upgrade fixed atomic fail .old).1 = .failedRestored → finalState .old (upgrade fixed atomic fail .old).2 = .old) := by
  cases fixed <;> cases atomic <;> cases h0 : fail 0 <;> cases h1 : fail 1 <;> cases h2 : fail 2 <;> cases h3 : fail 3 <;>
    simp [upgrade, contingency, contRemoves, doSave, doRemove, states, finalState, h0, h1, h2, h3]

/-- without any failure the upgrade succeeds and ends with the new config -/
theorem no_fault_upgrades (fixed atomic : Bool) :
    (upgrade fixed atomic (fun _ => false) .old).1 = .upgraded ∧
    finalState .old (upgrade fixed atomic (fun _ => false) .old).2 = .new := by
  cases fixed <;> cases atomic <;> exact ⟨by decide, by decide⟩

/-! ## data_untouched: the upgrade writes the config file only -/

open Restic.Model.BeFiles Restic.Proofs.BeFiles in
/-- the backend events of a run: successful steps as save/remove of the config handle -/
def toEvs (cfgNew cfgOld : Content) (steps : List Step) : List Ev :=
  steps.filterMap fun s =>
    if s.ok then
      some (match s.op with
        | .remove => Ev.remove ⟨.config, ""⟩
        | .saveNew => Ev.save ⟨.config, ""⟩ cfgNew
        | .saveOld => Ev.save ⟨.config, ""⟩ cfgOld)
    else none

open Restic.Model.BeFiles Restic.Proofs.BeFiles in
/-- **data_untouched**: every file other than the config (packs, indexes, snapshots, keys) is the
    same after any prefix of any run — so every snapshot restores unchanged provided v1 data reads
    the same under a v2 config (C07; observed: restore and `check --read-data` after the upgrade) -/
theorem data_untouched (fixed atomic : Bool) (fail : Nat → Bool) (cfg : Cfg) (st : State) (cn co : Content)
    (k : Nat) (h : Handle) (hh : h ≠ ⟨.config, ""⟩) :
    get (applyAll st (toEvs cn co ((upgrade fixed atomic fail cfg).2.take k))) h = get st h := by
  apply get_applyAll_untouched
  intro e he
  simp only [toEvs, List.mem_filterMap] at he
  obtain ⟨s, _, hs⟩ := he
  split at hs
  · simp only [Option.some.injEq] at hs
    subst hs
    cases s.op <;> simp [Ev.target] <;> exact fun e => hh e.symm
  · cases hs

/-! ## ties to the current source (T1) -/

/-- the current source contains the guard; with it `atomic_safe` is the statement about the code
    that is checked out (on a tree without the fix this theorem does not build and the
    correspondence run exhibits the failing schedule) -/
theorem current_source_fixed : currentFixed = true := by decide

theorem atomic_safe_current (fail : Nat → Bool) :
    specOK (states .old (upgrade currentFixed true fail .old).2) = true := by
  rw [current_source_fixed]; exact atomic_safe fail

/-- `upgradeRepository`: the atomic-replace test, then `Remove`, then `SaveConfig` -/
theorem upgradeRepository_order :
    Restic.Gen.C31_upgradeRepository_calls.filter (fun c => c ∈ ["repo.be.Properties", "repo.be.Remove", "restic.SaveConfig", "repo.be.Save"])
      = ["repo.be.Properties", "repo.be.Remove", "restic.SaveConfig"] := by decide

/-- `UpgradeRepo`: the raw config is read (and copied to a temp dir) before anything is changed; the
    roll-back re-uploads it with `Save` after the (guarded) `Remove` -/
theorem UpgradeRepo_order :
    Restic.Gen.C31_UpgradeRepo_calls.filter (fun c => c ∈ ["repo.LoadRaw", "os.WriteFile", "upgradeRepository", "repo.be.Remove", "repo.be.Save"])
      = ["repo.LoadRaw", "os.WriteFile", "upgradeRepository", "repo.be.Remove", "repo.be.Save"] := by decide

/-- the migration is `UpgradeRepo` and nothing else; `migrate` checks the repository before applying -/
theorem migration_plumbing :
    Restic.Gen.C31_Apply_calls = ["repository.UpgradeRepo"] ∧
    Restic.Gen.C31_applyMigrations_calls.filter (fun c => c ∈ ["runCheck", "m.Apply"]) = ["runCheck", "m.Apply"] := by decide

/-! ## non-vacuity -/

/-- atomic, fixed, the save of the new config and the re-upload both fail: the old config stays -/
example : states .old (upgrade true true (fun _ => true) .old).2 = [.old, .old, .old] := by decide
/-- non-atomic, new config fails, re-upload works: `[old, none, none, none, old]` -/
example : states .old (upgrade false false (fun i => i == 1) .old).2 = [.old, .none, .none, .none, .old] := by decide
example : lossAt false [⟨.remove, true, .none⟩] false = .nonAtomicWindow := by decide

end Restic.Props.C31
