import Restic.Model.FileRestore
import Restic.Proofs.C19_File
/-!
# C21 — restore --verify reports exactly the files that differ

Statement (properties.jsonl): verification after restore succeeds if and only if every restored
regular file has the snapshot's size and content; any difference in any byte or in the length is
reported.

Model: `verifyFile … failFast=true trustMtime=false`, `verifyTracked`, `verifyFilesOK`
(`Restic/Model/FileRestore.lean`), transcribed from `Restorer.verifyFile` / `VerifyFiles`.

The theorems hold for every hash function, every file content, every blob list (any number and
sizes of blobs, empty blobs included). Where SHA-256 would be needed as an injective function
the conclusion carries the explicit disjunct `Collision hash` instead.

Hypothesis `WF`: the node is consistent (`node.Size = Σ blob lengths`, every content id is the
hash of the blob's plaintext — the repository invariant C02). Without `Σ len = size` the
statement is false for the code as it is: `verifyFile` never looks at bytes beyond the last blob
(`size_gap_not_detected` below), so a snapshot written by a compromised host with
`Size > Σ len` verifies successfully against a file with arbitrary trailing bytes.
-/
namespace Restic.Props.C21
open Restic.Model.FileRestore

variable {ID : Type} [DecidableEq ID]

/-- `verifyFile` with `failFast` on a readable regular file -/
theorem verifyFile_regular (hash : Bytes → ID) (f : File) (w : Bool) (l : Nat) (m : Int) (node : FNode ID) :
    (∃ s, verifyFile hash (.regular f true w l m) node true false = .ok s) ↔
      node.size = f.len ∧ SegsMatch hash f node.content 0 := by
  simp only [verifyFile, Bool.not_true, Bool.false_eq_true, if_false, Bool.false_and, Bool.true_and]
  by_cases hs : node.size = f.len
  · simp only [hs, decide_true, Bool.not_true, Bool.false_eq_true, if_false, true_and]
    rw [← verifyBlobs_failFast_ok_iff]
    constructor
    · rintro ⟨s, h⟩
      cases hv : verifyBlobs hash true f node.content 0 with
      | ok v => exact ⟨v, rfl⟩
      | error e => rw [hv] at h; simp at h
    · rintro ⟨v, hv⟩
      rw [hv]
      exact ⟨_, rfl⟩
  · simp [hs]

/-- anything but a readable regular file fails verification -/
theorem verifyFile_not_regular (hash : Bytes → ID) (t : Target) (node : FNode ID) (s : FileState)
    (h : verifyFile hash t node true false = .ok s) : ∃ f w l m, t = .regular f true w l m := by
  cases t with
  | missing => simp [verifyFile] at h
  | symlink => simp [verifyFile] at h
  | dir => simp [verifyFile] at h
  | special => simp [verifyFile] at h
  | regular f r w l m =>
    cases r with
    | true => exact ⟨f, w, l, m, rfl⟩
    | false => simp [verifyFile] at h

/-- **verify, "if" direction**: a readable regular file with exactly the snapshot content
    passes (no assumption on the hash function). -/
theorem verify_ok_of_same (hash : Bytes → ID) (node : FNode ID) (hwf : WF hash node)
    (f : File) (w : Bool) (l : Nat) (m : Int) (hsame : f.toBytes = concat node.content) :
    ∃ s, verifyFile hash (.regular f true w l m) node true false = .ok s := by
  have hlen : f.len = totalLen node.content := by
    rw [← File.toBytes_length, hsame, concat_length]
  rw [verifyFile_regular]
  refine ⟨by rw [hwf.size, hlen], ?_⟩
  apply segsMatch_of_seg_eq_concat hash f node.content 0 hwf.ids (by omega)
  rw [← hlen, ← File.toBytes_eq_seg, hsame]

/-- **verify, "only if" direction**: if verification passes, the target is a readable regular
    file whose bytes are exactly the snapshot content — or two different byte strings with the
    same hash have been exhibited. -/
theorem verify_same_of_ok (hash : Bytes → ID) (node : FNode ID) (hwf : WF hash node)
    (t : Target) (s : FileState) (h : verifyFile hash t node true false = .ok s) :
    (∃ f w l m, t = .regular f true w l m ∧ f.toBytes = concat node.content) ∨ Collision hash := by
  obtain ⟨f, w, l, m, rfl⟩ := verifyFile_not_regular hash t node s h
  obtain ⟨hsz, hseg⟩ := (verifyFile_regular hash f w l m node).mp ⟨s, h⟩
  by_cases hex : ∃ b ∈ node.content, ∃ x : Bytes, hash x = b.id ∧ x ≠ b.data
  · right
    obtain ⟨b, hb, x, hx, hne⟩ := hex
    exact ⟨x, b.data, hne, by rw [hx, hwf.ids b hb]⟩
  · left
    have hnc : ∀ b ∈ node.content, ∀ x : Bytes, hash x = b.id → x = b.data := by
      intro b hb x hx
      apply Classical.byContradiction
      intro hne
      exact hex ⟨b, hb, x, hx, hne⟩
    refine ⟨f, w, l, m, rfl, ?_⟩
    have := seg_eq_concat_of_segsMatch hash f node.content 0 hwf.ids hnc hseg
    rw [File.toBytes_eq_seg, ← hsz, hwf.size, this]

/-- **C21 for one file** (`verify_iff`): verification succeeds iff the file is a readable regular
    file with exactly the snapshot content, up to an exhibited hash collision. -/
theorem verify_iff (hash : Bytes → ID) (node : FNode ID) (hwf : WF hash node) (t : Target) :
    ((∃ s, verifyFile hash t node true false = .ok s) ↔
      (∃ f w l m, t = .regular f true w l m ∧ f.toBytes = concat node.content)) ∨ Collision hash := by
  by_cases hc : Collision hash
  · exact Or.inr hc
  · left
    constructor
    · rintro ⟨s, h⟩
      exact (verify_same_of_ok hash node hwf t s h).resolve_right hc
    · rintro ⟨f, w, l, m, rfl, hsame⟩
      exact verify_ok_of_same hash node hwf f w l m hsame

/-- any change of any byte, and any change of the length, is reported (corollary in the form of
    the statement) -/
theorem any_difference_reported (hash : Bytes → ID) (node : FNode ID) (hwf : WF hash node)
    (f : File) (w : Bool) (l : Nat) (m : Int) (hdiff : f.toBytes ≠ concat node.content) :
    (∃ e, verifyFile hash (.regular f true w l m) node true false = .error e) ∨ Collision hash := by
  cases hv : verifyFile hash (.regular f true w l m) node true false with
  | error e => exact Or.inl ⟨e, rfl⟩
  | ok s =>
    rcases verify_same_of_ok hash node hwf _ s hv with ⟨f', w', l', m', heq, hs⟩ | hc
    · cases heq; exact absurd hs hdiff
    · exact Or.inr hc

/-- the executable statement `specVerify` holds of the transcription -/
theorem verifyFile_meets_spec (hash : Bytes → ID) (node : FNode ID) (hwf : WF hash node) (t : Target) :
    specVerify t node (match verifyFile hash t node true false with | .ok _ => true | .error _ => false) = true
      ∨ Collision hash := by
  by_cases hc : Collision hash
  · exact Or.inr hc
  left
  cases hv : verifyFile hash t node true false with
  | ok s =>
    rcases verify_same_of_ok hash node hwf t s hv with ⟨f, w, l, m, rfl, hs⟩ | hc'
    · simp [specVerify, hs]
    · exact absurd hc' hc
  | error e =>
    simp only [specVerify]
    cases t with
    | regular f r w l m =>
      cases r with
      | false => simp
      | true =>
        by_cases hs : f.toBytes = concat node.content
        · obtain ⟨s, h⟩ := verify_ok_of_same hash node hwf f w l m hs
          rw [h] at hv; cases hv
        · simp [hs]
    | missing => simp
    | dir => simp
    | symlink => simp
    | special => simp

/-- `VerifyFiles`: the run succeeds iff every file that was restored with content verifies -/
theorem verifyFiles_ok_iff_all (hash : Bytes → ID) (fs : List (Bool × Bool × Target × FNode ID)) :
    verifyFilesOK hash fs = true ↔
      ∀ x ∈ fs, x.1 = true → x.2.1 = false → ∃ s, verifyFile hash x.2.2.1 x.2.2.2 true false = .ok s := by
  simp only [verifyFilesOK, List.all_eq_true]
  constructor
  · intro h x hx htr hmo
    have := h x hx
    obtain ⟨tr, mo, t, n⟩ := x
    simp only at htr hmo
    subst htr hmo
    simp only [verifyTracked, Bool.not_true, Bool.or_self, Bool.false_eq_true, if_false] at this
    cases hv : verifyFile hash t n true false with
    | ok s => exact ⟨s, rfl⟩
    | error e => rw [hv] at this; simp at this
  · intro h x hx
    obtain ⟨tr, mo, t, n⟩ := x
    simp only [verifyTracked]
    by_cases hsk : (!tr || mo) = true
    · simp [hsk]
    · have htr : tr = true := by cases tr <;> simp_all
      have hmo : mo = false := by cases mo <;> simp_all
      obtain ⟨s, hs⟩ := h _ hx htr hmo
      simp only at hs
      simp [htr, hmo, hs]

/-- **C21, whole run**: for consistent nodes, `VerifyFiles` succeeds iff every file restored with
    content is a readable regular file carrying exactly the snapshot bytes (or a collision). -/
theorem verifyFiles_exact (hash : Bytes → ID) (fs : List (Bool × Bool × Target × FNode ID))
    (hwf : ∀ x ∈ fs, WF hash x.2.2.2) :
    (verifyFilesOK hash fs = true ↔
      ∀ x ∈ fs, x.1 = true → x.2.1 = false →
        ∃ f w l m, x.2.2.1 = .regular f true w l m ∧ f.toBytes = concat x.2.2.2.content) ∨ Collision hash := by
  by_cases hc : Collision hash
  · exact Or.inr hc
  left
  rw [verifyFiles_ok_iff_all]
  constructor
  · intro h x hx htr hmo
    obtain ⟨s, hs⟩ := h x hx htr hmo
    exact (verify_same_of_ok hash _ (hwf x hx) _ s hs).resolve_right hc
  · intro h x hx htr hmo
    obtain ⟨f, w, l, m, ht, hs⟩ := h x hx htr hmo
    rw [ht]
    exact verify_ok_of_same hash _ (hwf x hx) f w l m hs

/-! ## The consistency hypothesis is needed (characterisation of the code as it is) -/

/-- a node claiming 3 bytes with a single 1-byte blob: a 3-byte file with arbitrary trailing
    bytes passes `verifyFile` (identity "hash", so no collision is involved) -/
theorem size_gap_not_detected :
    ∃ (node : FNode Bytes) (f : File),
      (∀ b ∈ node.content, b.id = b.data) ∧ node.size ≠ totalLen node.content ∧
      f.toBytes ≠ concat node.content ∧
      (match verifyFile (fun b => b) (.regular f true true 1 0) node true false with
        | .ok _ => true | .error _ => false) = true :=
  ⟨⟨3, [⟨[1], [1]⟩], 0⟩, File.ofBytes [1, 7, 7], by decide, by decide, by decide, by decide⟩

/-! ## Non-vacuity -/

/-- `WF` is satisfiable by a non-trivial node (two blobs, one of them empty), and both directions
    of `verify_iff` are exercised -/
example : WF (fun b : Bytes => b) ⟨3, [⟨[1, 2], [1, 2]⟩, ⟨[], []⟩, ⟨[3], [3]⟩], 0⟩ :=
  ⟨by decide, by decide⟩

example : (match verifyFile (fun b : Bytes => b) (.regular (File.ofBytes [1, 2, 3]) true true 1 0)
    ⟨3, [⟨[1, 2], [1, 2]⟩, ⟨[], []⟩, ⟨[3], [3]⟩], 0⟩ true false with | .ok _ => true | .error _ => false) = true := by
  decide

example : (match verifyFile (fun b : Bytes => b) (.regular (File.ofBytes [1, 2, 4]) true true 1 0)
    ⟨3, [⟨[1, 2], [1, 2]⟩, ⟨[], []⟩, ⟨[3], [3]⟩], 0⟩ true false with
    | .error (.content 2) => true | _ => false) = true := by
  decide

example : (match verifyFile (fun b : Bytes => b) (.regular (File.ofBytes [1, 2]) true true 1 0)
    ⟨3, [⟨[1, 2], [1, 2]⟩, ⟨[], []⟩, ⟨[3], [3]⟩], 0⟩ true false with
    | .error .size => true | _ => false) = true := by
  decide

end Restic.Props.C21
