import Restic.Model.Copy
import Restic.Gen.Source
/-!
# C32 — copy transfers snapshots faithfully and idempotently

Theorems about `Restic.Model.Copy` (transcription of collectAllSnapshots / similarSnapshots /
copyTreeBatched / copyTree / copySaveSnapshot). For all source and destination states, all
reachability oracles, all ways of cutting the selected snapshots into batches, all crash points.
-/
namespace Restic.Props.C32
open Restic.Model.Copy

/-! ### similarity of a copy with its source -/

theorem hasTags_sub (sn : Snap) : ∀ (l : List String), (∀ t ∈ l, t ∈ sn.tags) → hasTags sn l = true
  | [], _ => rfl
  | t :: rest, h => by
    unfold hasTags
    have ht : sn.tags.contains t = true := by simpa using h t List.mem_cons_self
    by_cases h1 : (t == "" && sn.tags.isEmpty) = true
    · simp [h1]
    · simp only [h1, Bool.false_eq_true, if_false, ht, Bool.not_true]
      exact hasTags_sub sn rest (fun t' ht' => h t' (List.mem_cons_of_mem _ ht'))

theorem zip_self_all (l : List String) : (List.zip l l).all (fun p => p.1 == p.2) = true := by
  induction l with
  | nil => rfl
  | cons a l ih => simp [List.zip_cons_cons, ih]

/-- a snapshot written by `copySaveSnapshot` is `similarSnapshots` to its source -/
theorem similar_copy (sn : Snap) (nid : ID) : similar (copySnap sn nid) sn = true := by
  unfold similar copySnap
  simp only [bne_self_eq_false, Bool.or_self, Bool.false_eq_true, if_false]
  have h1 : hasPaths { sn with id := nid, parent := none, original := some (persistentID sn) } sn.paths = true := by
    simp [hasPaths]
  have h2 : hasTags { sn with id := nid, parent := none, original := some (persistentID sn) } sn.tags = true :=
    hasTags_sub _ _ (fun t ht => ht)
  simp only [h1, h2, Bool.not_true, Bool.or_self, Bool.false_eq_true, if_false]
  exact zip_self_all sn.excludes

/-! ### idempotency -/

theorem alreadyCopied_mono (dst more : List Snap) (sn : Snap) (h : alreadyCopied dst sn = true) :
    alreadyCopied (dst ++ more) sn = true := by
  unfold alreadyCopied dstByOriginal at *
  simp only [List.any_eq_true, List.mem_filter, List.mem_append] at h ⊢
  obtain ⟨d, ⟨hd, hk⟩, hs⟩ := h
  exact ⟨d, ⟨Or.inl hd, hk⟩, hs⟩

theorem persistentID_ne_null (sn : Snap) (h : sn.id ≠ nullID) : persistentID sn ≠ nullID := by
  unfold persistentID
  split
  · rename_i o _
    by_cases ho : (o == nullID) = true
    · simp only [ho, if_true]; exact h
    · simp only [ho, Bool.false_eq_true, if_false]; simpa using ho
  · exact h

/-- the copy of a snapshot is recognised as such by the skip test of the next run -/
theorem copied_is_recognised (dst : List Snap) (sn : Snap) (nid : ID) (h : sn.id ≠ nullID) :
    alreadyCopied (dst ++ [copySnap sn nid]) sn = true := by
  unfold alreadyCopied dstByOriginal
  simp only [List.any_eq_true, List.mem_filter, List.mem_append, List.mem_singleton]
  refine ⟨copySnap sn nid, ⟨Or.inr rfl, ?_⟩, similar_copy sn nid⟩
  have := persistentID_ne_null sn h
  simp [copySnap, this]

/-- **copy_idempotent**: after a run that saved a copy of every selected snapshot, a second run
    with the same request selects no snapshot at all (hence enqueues and saves nothing) —
    whatever the destination contained before, whatever IDs the destination assigned. The only
    hypothesis: no snapshot's own storage ID is the null ID (IDs are SHA-256 values). -/
theorem copy_idempotent (requested dst0 : List Snap) (newId : Snap → ID)
    (hid : ∀ sn ∈ requested, sn.id ≠ nullID) :
    selected requested (dst0 ++ (selected requested dst0).map (fun sn => copySnap sn (newId sn))) = [] := by
  unfold selected
  rw [List.filter_eq_nil_iff]
  intro sn hsn
  simp only [Bool.not_eq_true', Bool.not_eq_false]
  by_cases hc : alreadyCopied dst0 sn = true
  · exact alreadyCopied_mono dst0 _ sn hc
  · -- it was selected, so its copy is in the destination now
    have hmem : copySnap sn (newId sn) ∈ (List.filter (fun x => !alreadyCopied dst0 x) requested).map
        (fun sn => copySnap sn (newId sn)) :=
      List.mem_map.mpr ⟨sn, List.mem_filter.mpr ⟨hsn, by simpa using hc⟩, rfl⟩
    unfold alreadyCopied dstByOriginal
    simp only [List.any_eq_true, List.mem_filter, List.mem_append]
    refine ⟨copySnap sn (newId sn), ⟨Or.inr hmem, ?_⟩, similar_copy sn _⟩
    have := persistentID_ne_null sn (hid sn hsn)
    simp [copySnap, this]

theorem copy_idempotent_spec (requested dst0 : List Snap) (newId : Snap → ID)
    (hid : ∀ sn ∈ requested, sn.id ≠ nullID) :
    specIdempotent requested (dst0 ++ (selected requested dst0).map (fun sn => copySnap sn (newId sn))) = true := by
  unfold specIdempotent; rw [copy_idempotent requested dst0 newId hid]; rfl

/-! ### faithfulness -/

/-- **copy_faithful** (snapshot level): after the run every requested snapshot has a destination
    snapshot with the same tree and equal fields carrying its persistent ID — either the one that
    made the skip test succeed or the copy just written. -/
theorem copy_faithful (requested dst0 : List Snap) (newId : Snap → ID)
    (hskip : ∀ sn ∈ requested, alreadyCopied dst0 sn = true →
      ∃ d ∈ dst0, d.tree = sn.tree ∧ similar d sn = true ∧ (d.original = some (persistentID sn) ∨ d.id = persistentID sn)) :
    specFaithful requested (dst0 ++ (selected requested dst0).map (fun sn => copySnap sn (newId sn))) = true := by
  unfold specFaithful
  simp only [List.all_eq_true, List.any_eq_true, List.mem_append, Bool.and_eq_true, Bool.or_eq_true,
    beq_iff_eq]
  intro sn hsn
  by_cases hc : alreadyCopied dst0 sn = true
  · obtain ⟨d, hd, h1, h2, h3⟩ := hskip sn hsn hc
    exact ⟨d, Or.inl hd, ⟨h1, h2⟩, h3⟩
  · refine ⟨copySnap sn (newId sn), Or.inr ?_, ⟨rfl, similar_copy sn _⟩, Or.inl rfl⟩
    exact List.mem_map.mpr ⟨sn, List.mem_filter.mpr ⟨hsn, by simpa using hc⟩, rfl⟩

/-- the skip test only succeeds on a destination snapshot with the same tree and equal fields
    registered under the persistent ID — so the hypothesis of `copy_faithful` always holds -/
theorem skip_sound (dst0 : List Snap) (sn : Snap) (h : alreadyCopied dst0 sn = true) :
    ∃ d ∈ dst0, d.tree = sn.tree ∧ similar d sn = true ∧ (d.original = some (persistentID sn) ∨ d.id = persistentID sn) := by
  unfold alreadyCopied dstByOriginal at h
  simp only [List.any_eq_true, List.mem_filter, Bool.or_eq_true, beq_iff_eq] at h
  obtain ⟨d, ⟨hd, hk⟩, hs⟩ := h
  refine ⟨d, hd, ?_, hs, ?_⟩
  · -- similar implies equal trees
    unfold similar at hs
    by_cases ht : d.tree = sn.tree
    · exact ht
    · have : (d.tree != sn.tree) = true := by simpa using ht
      simp [this] at hs
  · rcases hk with hk | hk
    · left
      cases ho : d.original with
      | none => rw [ho] at hk; simp at hk
      | some o => rw [ho] at hk; simp only [Bool.and_eq_true, beq_iff_eq] at hk; rw [hk.2]
    · exact Or.inr hk

theorem copy_faithful_all (requested dst0 : List Snap) (newId : Snap → ID) :
    specFaithful requested (dst0 ++ (selected requested dst0).map (fun sn => copySnap sn (newId sn))) = true :=
  copy_faithful requested dst0 newId (fun sn _ hc => skip_sound dst0 sn hc)

/-! ### crash safety -/

theorem avail_mono (d : Dst) (e : Ev) (h : Handle) (ha : d.avail h = true) : (d.apply e).avail h = true := by
  unfold Dst.avail at *
  simp only [Bool.or_eq_true, List.any_eq_true, Bool.and_eq_true, beq_iff_eq, List.contains_eq_mem,
    decide_eq_true_eq] at ha ⊢
  rcases ha with ha | ⟨x, hx, h1, h2⟩
  · left; cases e <;> simpa [Dst.apply] using ha
  · right
    cases e with
    | savePack p bs => exact ⟨x, by simpa [Dst.apply] using hx, h1, by simp [Dst.apply, h2]⟩
    | saveIndex es => exact ⟨x, by simp [Dst.apply, hx], h1, by simpa [Dst.apply] using h2⟩
    | saveSnap sn => exact ⟨x, by simpa [Dst.apply] using hx, h1, by simpa [Dst.apply] using h2⟩

theorem restorable_mono (reach : ID → List Handle) (d : Dst) (e : Ev) (sn : Snap)
    (h : d.restorable reach sn = true) : (d.apply e).restorable reach sn = true := by
  unfold Dst.restorable at *
  rw [List.all_eq_true] at *
  intro x hx; exact avail_mono d e x (h x hx)

/-- **copy_prefix_safe** (any accepted trace, any crash point): if every snapshot the run has
    written so far is restorable at the start (there is none), then after every prefix of an
    accepted trace every snapshot written by the run is restorable — an interrupted copy never
    leaves a destination snapshot whose data is missing. -/
theorem prefix_safe (reach : ID → List Handle) : ∀ (t : List Ev) (d : Dst),
    accept reach d t = true → (∀ sn ∈ d.snaps, d.restorable reach sn = true) →
    ∀ k, ∀ sn ∈ (d.applyAll (t.take k)).snaps, (d.applyAll (t.take k)).restorable reach sn = true
  | [], d, _, h0, k, sn, hsn => by
    simp only [List.take_nil, Dst.applyAll, List.foldl_nil] at hsn ⊢; exact h0 sn hsn
  | e :: rest, d, hacc, h0, 0, sn, hsn => by
    simp only [List.take_zero, Dst.applyAll, List.foldl_nil] at hsn ⊢; exact h0 sn hsn
  | e :: rest, d, hacc, h0, k+1, sn, hsn => by
    simp only [List.take_succ_cons, Dst.applyAll, List.foldl_cons] at hsn ⊢
    have hstep : accept reach (d.apply e) rest = true ∧
        (∀ s ∈ (d.apply e).snaps, (d.apply e).restorable reach s = true) := by
      cases e with
      | savePack p bs =>
        refine ⟨by simpa [accept] using hacc, ?_⟩
        intro s hs; exact restorable_mono reach d _ s (h0 s (by simpa [Dst.apply] using hs))
      | saveIndex es =>
        refine ⟨by simpa [accept] using hacc, ?_⟩
        intro s hs; exact restorable_mono reach d _ s (h0 s (by simpa [Dst.apply] using hs))
      | saveSnap s0 =>
        simp only [accept, Bool.and_eq_true] at hacc
        refine ⟨hacc.2, ?_⟩
        intro s hs
        simp only [Dst.apply, List.mem_append, List.mem_singleton] at hs
        rcases hs with hs | rfl
        · exact restorable_mono reach d _ s (h0 s hs)
        · exact restorable_mono reach d _ s hacc.1
    exact prefix_safe reach rest (d.apply e) hstep.1 hstep.2 k sn hsn

/-! the transcription produces accepted traces -/

theorem enqueue_spec (reach : ID → List Handle) (batch : List Snap) : ∀ (has acc : List Handle),
    let r := batch.foldl (fun (a : List Handle × List Handle) sn =>
      let c := ((reach sn.tree).filter (fun h => !a.1.contains h)).eraseDups
      (a.1 ++ c, a.2 ++ c)) (has, acc)
    (∀ h, h ∈ r.1 ↔ h ∈ has ∨ ∃ sn ∈ batch, h ∈ reach sn.tree) ∧
    (∀ h ∈ r.2, h ∈ acc ∨ (h ∉ has ∧ ∃ sn ∈ batch, h ∈ reach sn.tree)) ∧
    (∀ h ∈ r.1, h ∈ has ∨ h ∈ r.2) := by
  induction batch with
  | nil => intro has acc; exact ⟨by simp, fun h hh => Or.inl hh, fun h hh => Or.inl hh⟩
  | cons sn rest ih =>
    intro has acc
    simp only [List.foldl_cons]
    have := ih (has ++ ((reach sn.tree).filter (fun h => !has.contains h)).eraseDups)
      (acc ++ ((reach sn.tree).filter (fun h => !has.contains h)).eraseDups)
    simp only at this
    obtain ⟨h1, h2, h3⟩ := this
    have hc : ∀ h, h ∈ ((reach sn.tree).filter (fun h => !has.contains h)).eraseDups ↔ h ∈ reach sn.tree ∧ h ∉ has := by
      intro h; simp [List.mem_eraseDups, List.mem_filter]
    refine ⟨?_, ?_, ?_⟩
    · intro h; rw [h1 h]
      simp only [List.mem_append, hc, List.mem_cons, exists_eq_or_imp]
      constructor
      · rintro ((h' | ⟨h', _⟩) | ⟨s, hs, h'⟩)
        · exact Or.inl h'
        · exact Or.inr (Or.inl h')
        · exact Or.inr (Or.inr ⟨s, hs, h'⟩)
      · rintro (h' | h' | ⟨s, hs, h'⟩)
        · exact Or.inl (Or.inl h')
        · by_cases hh : h ∈ has
          · exact Or.inl (Or.inl hh)
          · exact Or.inl (Or.inr ⟨h', hh⟩)
        · exact Or.inr ⟨s, hs, h'⟩
    · intro h hh
      rcases h2 h hh with h' | ⟨h', s, hs, hr⟩
      · rcases List.mem_append.mp h' with h'' | h''
        · exact Or.inl h''
        · exact Or.inr ⟨((hc h).mp h'').2, sn, List.mem_cons_self, ((hc h).mp h'').1⟩
      · refine Or.inr ⟨fun hx => h' (List.mem_append_left _ hx), s, List.mem_cons_of_mem _ hs, hr⟩
    · intro h hh
      rcases h3 h hh with h' | h'
      · rcases List.mem_append.mp h' with h'' | h''
        · exact Or.inl h''
        · right
          -- h was enqueued for `sn`; it stays in the accumulated upload list
          have hsub : ∀ (l : List Snap) (a : List Handle × List Handle), h ∈ a.2 →
              h ∈ (l.foldl (fun (a : List Handle × List Handle) sn =>
                let c := ((reach sn.tree).filter (fun h => !a.1.contains h)).eraseDups
                (a.1 ++ c, a.2 ++ c)) a).2 := by
            intro l
            induction l with
            | nil => intro a ha; exact ha
            | cons s l ihl => intro a ha; simp only [List.foldl_cons]; exact ihl _ (List.mem_append_left _ ha)
          exact hsub rest _ (List.mem_append_right _ h'')
      · exact Or.inr h'

/-- invariant linking the transcription's "known" set to the destination state -/
def Known (d : Dst) (has : List Handle) : Prop := ∀ h ∈ has, d.avail h = true

theorem known_mono (d : Dst) (e : Ev) (has : List Handle) (h : Known d has) : Known (d.apply e) has :=
  fun x hx => avail_mono d e x (h x hx)

theorem accept_snaps (reach : ID → List Handle) (has : List Handle) : ∀ (l : List Snap) (d : Dst)
    (f : Snap → Snap), (∀ sn, (f sn).tree = sn.tree) → Known d has → (∀ sn ∈ l, ∀ h ∈ reach sn.tree, h ∈ has) →
    ∀ rest, (∀ d', Known d' has → accept reach d' rest = true) →
    accept reach d (l.map (fun sn => Ev.saveSnap (f sn)) ++ rest) = true
  | [], d, f, _, hk, _, rest, hrest => by simpa using hrest d hk
  | sn :: l, d, f, hf, hk, hl, rest, hrest => by
    simp only [List.map_cons, List.cons_append, accept, Bool.and_eq_true]
    refine ⟨?_, ?_⟩
    · unfold Dst.restorable
      rw [List.all_eq_true]
      intro x hx
      rw [hf sn] at hx
      exact hk x (hl sn List.mem_cons_self x hx)
    · exact accept_snaps reach has l _ f hf (known_mono d _ has hk)
        (fun s hs => hl s (List.mem_cons_of_mem _ hs)) rest hrest

theorem runBatches_accepted (reach : ID → List Handle) : ∀ (batches : List (List Snap)) (has : List Handle)
    (k : Nat) (d : Dst), Known d has → accept reach d (runBatches reach has batches k) = true
  | [], has, k, d, _ => by simp [runBatches, accept]
  | b :: rest, has, k, d, hk => by
    simp only [runBatches, runBatch]
    obtain ⟨h1, _, h3⟩ := enqueue_spec reach b has []
    simp only at h1 h3
    have henq : enqueueBatch reach has b = b.foldl (fun (a : List Handle × List Handle) sn =>
      let c := ((reach sn.tree).filter (fun h => !a.1.contains h)).eraseDups
      (a.1 ++ c, a.2 ++ c)) (has, []) := rfl
    rw [← henq] at h1 h3
    generalize enqueueBatch reach has b = r at h1 h3
    have hreach : ∀ sn ∈ b, ∀ h ∈ reach sn.tree, h ∈ r.1 := fun sn hsn h hh => (h1 h).mpr (Or.inr ⟨sn, hsn, hh⟩)
    have hcont := fun d' (hk' : Known d' r.1) => runBatches_accepted reach rest r.1 (k+1) d' hk'
    by_cases he : r.2.isEmpty = true
    · simp only [he, if_true, List.nil_append]
      have hk' : Known d r.1 := by
        intro x hx
        rcases h3 x hx with hx' | hx'
        · exact hk x hx'
        · have : r.2 = [] := by simpa using he
          rw [this] at hx'; cases hx'
      exact accept_snaps reach r.1 b d (fun sn => copySnap sn s!"new-{k}-{sn.id}") (fun _ => rfl) hk' hreach _ hcont
    · simp only [he, Bool.false_eq_true, if_false, List.cons_append, List.nil_append, accept]
      apply accept_snaps reach r.1 b _ (fun sn => copySnap sn s!"new-{k}-{sn.id}") (fun _ => rfl) ?_ hreach _ hcont
      intro x hx
      rcases h3 x hx with hx' | hx'
      · exact avail_mono _ _ x (avail_mono _ _ x (hk x hx'))
      · unfold Dst.avail
        simp only [Dst.apply, Bool.or_eq_true, List.any_eq_true, Bool.and_eq_true, beq_iff_eq,
          List.contains_eq_mem, decide_eq_true_eq, List.mem_append, List.mem_map, List.mem_singleton]
        right
        exact ⟨(s!"newpack{k}", x), Or.inr ⟨x, hx', rfl⟩, rfl, Or.inr rfl⟩

/-- the transcription of `copyTreeBatched` only produces accepted traces: the blobs of a batch
    are in stored, indexed packs before any snapshot of the batch is saved -/
theorem copyRun_accepted (reach : ID → List Handle) (has0 : List Handle) (batches : List (List Snap)) :
    accept reach { has0, packs := [], indexed := [], snaps := [] } (copyRun reach has0 batches) = true := by
  unfold copyRun
  apply runBatches_accepted
  intro x hx
  simp [Dst.avail, hx]

/-- **copy_prefix_safe** for the transcription: at every crash point of `copy`, for every way of
    batching, every snapshot the run has written into the destination is restorable. -/
theorem copy_prefix_safe (reach : ID → List Handle) (has0 : List Handle) (batches : List (List Snap)) (k : Nat) :
    let d0 : Dst := { has0, packs := [], indexed := [], snaps := [] }
    ∀ sn ∈ (d0.applyAll ((copyRun reach has0 batches).take k)).snaps,
      (d0.applyAll ((copyRun reach has0 batches).take k)).restorable reach sn = true := by
  intro d0
  exact prefix_safe reach _ d0 (copyRun_accepted reach has0 batches) (by intro sn hsn; cases hsn) k

/-- **resume after a cut**: let a first run be cut after any `k` operations, and let `copy` run
    again on that destination with *any* view `has1` of it that is sound (everything in `has1`
    can be loaded — e.g. the index of the crashed destination, possibly after `repair index`;
    `has1` need not be closed under reachability: it may well list a tree blob whose data blobs
    never arrived). Then at every prefix `j` of the second run every snapshot stored by either run
    is restorable. The transcription of `copyTree` enqueues every reachable blob the destination
    does not know and never skips a subtree because its tree blob is known — that is exactly what
    this theorem needs; "tree blob indexed in dst" is not "tree completely copied". -/
theorem resume_prefix_safe (reach : ID → List Handle) (has0 : List Handle) (batches1 : List (List Snap))
    (k : Nat) (has1 : List Handle) (batches2 : List (List Snap)) (j : Nat)
    (hk : Known (Dst.applyAll { has0, packs := [], indexed := [], snaps := [] } ((copyRun reach has0 batches1).take k)) has1) :
    let d1 := Dst.applyAll { has0, packs := [], indexed := [], snaps := [] } ((copyRun reach has0 batches1).take k)
    ∀ sn ∈ (d1.applyAll ((copyRun reach has1 batches2).take j)).snaps,
      (d1.applyAll ((copyRun reach has1 batches2).take j)).restorable reach sn = true := by
  intro d1
  exact prefix_safe reach (copyRun reach has1 batches2) d1
    (runBatches_accepted reach batches2 has1 0 d1 hk)
    (copy_prefix_safe reach has0 batches1 k) j

/-- the destination's own availability view is always a sound `has1` -/
theorem known_of_avail (d : Dst) (has1 : List Handle) (h : ∀ x ∈ has1, d.avail x = true) : Known d has1 := h

/-! ### T1: call orders regenerated from the current source -/

/-- `copyTreeBatched`: the trees of a batch are copied inside `WithBlobUploader` (which flushes
    packs and index when it returns) and `copySaveSnapshot` comes after it. -/
theorem copyTreeBatched_order :
    Restic.Gen.copyTreeBatched_calls.idxOf "copyTree" < Restic.Gen.copyTreeBatched_calls.idxOf "dstRepo.WithBlobUploader"
    ∧ Restic.Gen.copyTreeBatched_calls.idxOf "dstRepo.WithBlobUploader" < Restic.Gen.copyTreeBatched_calls.idxOf "copySaveSnapshot"
    ∧ "copySaveSnapshot" ∈ Restic.Gen.copyTreeBatched_calls := by decide

/-- `copySaveSnapshot` is the only place that saves a snapshot, `copyTree` uploads through
    `repository.CopyBlobs` -/
theorem copy_calls :
    "data.SaveSnapshot" ∈ Restic.Gen.copySaveSnapshot_calls
    ∧ "repository.CopyBlobs" ∈ Restic.Gen.copyTree_calls
    ∧ "dstRepo.LookupBlobSize" ∈ Restic.Gen.copyTree_calls := by decide

/-! ### Non-vacuity -/

def s1 : Snap := ⟨"s1", "t1", none, some "p0", 5, "h", "u", 1, 1, ["/a"], ["x", "x"], []⟩
def s2 : Snap := ⟨"s2", "t2", some "orig2", none, 6, "h", "u", 1, 1, ["/a"], [], ["e"]⟩
def exReach : ID → List Handle := fun t => if t == "t1" then ["1:t1", "0:b1", "0:b2"] else ["1:t2", "0:b2", "0:b3"]

example : copyRun exReach ["0:b2"] [[s1], [s2]] =
  [.savePack "newpack0" ["1:t1", "0:b1"], .saveIndex [("newpack0", "1:t1"), ("newpack0", "0:b1")],
   .saveSnap (copySnap s1 "new-0-s1"),
   .savePack "newpack1" ["1:t2", "0:b3"], .saveIndex [("newpack1", "1:t2"), ("newpack1", "0:b3")],
   .saveSnap (copySnap s2 "new-1-s2")] := by decide
example : selected [s1, s2] [copySnap s1 "n1", copySnap s2 "n2"] = [] := by decide
example : selected [s1, s2] [copySnap s1 "n1"] = [s2] := by decide
/-- the acceptor is not trivial: a snapshot saved before its index is rejected -/
example : accept exReach ⟨[], [], [], []⟩
  [.savePack "p" ["1:t1", "0:b1", "0:b2"], .saveSnap (copySnap s1 "n"), .saveIndex [("p", "1:t1"), ("p", "0:b1"), ("p", "0:b2")]] = false := by decide
/-- resumed copy into a destination that knows the tree blob `1:t1` but not its data (the state a
    cut between tree pack + index and data pack leaves): the data blobs are uploaded -/
example : copyRun exReach ["1:t1"] [[s1]] =
  [.savePack "newpack0" ["0:b1", "0:b2"], .saveIndex [("newpack0", "0:b1"), ("newpack0", "0:b2")],
   .saveSnap (copySnap s1 "new-0-s1")] := by decide
/-- … whereas a run that skips the subtree because its tree blob is known (seeded change C32-b)
    saves the snapshot without them, which the acceptor rejects -/
example : accept exReach ⟨["1:t1"], [], [], []⟩ [.saveSnap (copySnap s1 "n")] = false := by decide

/-- before fix/C32-copy-null-original a null `original` defeated the skip test; with the fixed
    transcription the copy is recognised -/
example : selected [{ s1 with original := some nullID }] [copySnap { s1 with original := some nullID } "n"] = [] := by decide

end Restic.Props.C32
