import Restic.Model.RestoreTree
import Restic.Model.RestoreTreeFacts
import Restic.Proofs.C18_FS
import Restic.Proofs.C18_Ops
import Restic.Proofs.C18_Ensure
import Restic.Proofs.C18_Callbacks
import Restic.Proofs.C18_Traverse
/-!
# C18 — restore never touches anything outside the target directory

Statement (properties.jsonl): for any snapshot tree content, including node names such as '..',
'.', names containing path separators, duplicate names, symlinks pointing outside, and any
pre-existing files, directories or symlinks already in the target, restore (with or without
--delete, --overwrite and --sparse) creates, modifies and deletes only paths inside the target
directory.

Model: `Restic/Model/RestoreFS.lean` (file system with symlinks and the follow behaviour of
each system call), `Restic/Model/RestoreTree.lean` (both passes of `RestoreTo`).

`restore_confined`: for EVERY tree (any names, order, duplicates, node types, link targets, hard
link groups, directories without subtree), EVERY initial file system in which the target
directory itself is a chain of real directories (anything whatsoever below and beside it: symlinks
at any position, pointing anywhere), EVERY select filter (arbitrary function), delete on/off,
overwrite always/never: every location that is not strictly inside the target directory has the
same entry (type, content, mode, link target) before and after.

The theorem needs two facts about the source that are FALSE on the unmodified tree (finding
F13 and the duplicate-name / metadata-through-symlink findings) and hold after the two `fix:`
commits; both are regenerated from the source on every run (`source_has_fixes`). For each a
negation witness is proved by evaluation and reproduces on the real binary.
-/
namespace Restic.Props.C18
open Restic.Model.RestoreFS Restic.Model.RestoreTree

structure Setup (cfg : Cfg) : Prop where
  chain : cfg.chainFix = true
  mfix : cfg.metaFix = true
  plainDst : PlainPath cfg.dst
  ne : cfg.dst ≠ []

/-- second pass invariant: only the inside of `dst` differs from the initial file system, and
    `dst` is still a chain of real directories -/
def Inv2 (cfg : Cfg) (fs0 : FS) (st : St) : Prop :=
  Frame cfg.dst fs0 st.fs ∧ RealFrom st.fs [] cfg.dst

/-- the parent chain of every scheduled file contains no symlink -/
def FilesOK (cfg : Cfg) (fs : FS) (files : List (Path × List UInt8)) : Prop :=
  ∀ f ∈ files, PlainPath f.1 ∧ f.1 ≠ [] ∧ NoSymFrom fs [] (cfg.dst ++ f.1.dropLast)

def Inv1 (cfg : Cfg) (fs0 : FS) (st : St) : Prop := Inv2 cfg fs0 st ∧ FilesOK cfg st.fs st.files

theorem filesOK_of_noNewSym {cfg : Cfg} {fs fs' : FS} {files : List (Path × List UInt8)}
    (h : NoNewSym fs fs') (hf : FilesOK cfg fs files) : FilesOK cfg fs' files :=
  fun f hm => ⟨(hf f hm).1, (hf f hm).2.1, noSymFrom_of_noNewSym h _ (hf f hm).2.2⟩

theorem plainPath_append {a b : Path} (ha : PlainPath a) (hb : PlainPath b) : PlainPath (a ++ b) := by
  intro n hn
  rcases List.mem_append.mp hn with h | h
  · exact ha n h
  · exact hb n h

theorem plainPath_dropLast {a : Path} (ha : PlainPath a) : PlainPath a.dropLast :=
  fun n hn => ha n (List.dropLast_subset a hn)

/-! ## first pass -/

theorem firstEnterDir_inv (cfg : Cfg) (hs : Setup cfg) (fs0 : FS) (st : St) (rel : Path)
    (hrel : PlainPath rel) (h : Inv1 cfg fs0 st) : Inv1 cfg fs0 (firstEnterDir cfg st rel).1 := by
  obtain ⟨⟨hf, hr⟩, hfiles⟩ := h
  obtain ⟨e1, e2, e3, _⟩ := ensureDir_spec cfg hs.chain hs.plainDst hs.ne st.fs rel hrel hr
  unfold firstEnterDir
  cases he : ensureDir cfg st.fs rel with
  | mk fs1 ok =>
    rw [he] at e1 e2 e3
    exact ⟨⟨Frame.trans hf e1, e3⟩, filesOK_of_noNewSym e2 hfiles⟩

/-- shape of the state after `firstVisitNode`: the file system is the one `ensureDir` left, and
    at most the visited file was scheduled (only if `ensureDir` succeeded) -/
theorem firstVisitNode_shape (cfg : Cfg) (st : St) (n : Node) (rel : Path) :
    (firstVisitNode cfg st n rel).1.fs = (ensureDir cfg st.fs rel.dropLast).1 ∧
    ∀ f ∈ (firstVisitNode cfg st n rel).1.files,
      f ∈ st.files ∨ (f.1 = rel ∧ (ensureDir cfg st.fs rel.dropLast).2 = true) := by
  unfold firstVisitNode
  cases he : ensureDir cfg st.fs rel.dropLast with
  | mk fs1 ok =>
    cases ok with
    | false => simp
    | true =>
      simp only [Bool.not_true, Bool.false_eq_true, if_false]
      repeat' split
      all_goals first
        | exact ⟨rfl, fun f hf => Or.inl hf⟩
        | (refine ⟨rfl, fun f hf => ?_⟩
           simp only [List.mem_append, List.mem_singleton] at hf
           rcases hf with h | h
           · exact Or.inl h
           · exact Or.inr ⟨by rw [h], trivial⟩)

theorem firstVisitNode_inv (cfg : Cfg) (hs : Setup cfg) (fs0 : FS) (st : St) (n : Node) (rel : Path)
    (hrel : PlainPath rel) (hne : rel ≠ []) (h : Inv1 cfg fs0 st) :
    Inv1 cfg fs0 (firstVisitNode cfg st n rel).1 := by
  obtain ⟨⟨hf, hr⟩, hfiles⟩ := h
  obtain ⟨e1, e2, e3, e4⟩ := ensureDir_spec cfg hs.chain hs.plainDst hs.ne st.fs rel.dropLast
    (plainPath_dropLast hrel) hr
  obtain ⟨hfs, hfl⟩ := firstVisitNode_shape cfg st n rel
  refine ⟨⟨?_, ?_⟩, ?_⟩
  · rw [hfs]; exact Frame.trans hf e1
  · rw [hfs]; exact e3
  · rw [hfs]
    intro f hm
    rcases hfl f hm with h1 | ⟨h1, h2⟩
    · exact filesOK_of_noNewSym e2 hfiles f h1
    · rw [h1]
      exact ⟨hrel, hne, (e4 h2).noSym⟩

theorem firstPass_visInv (cfg : Cfg) (hs : Setup cfg) (fs0 : FS) :
    VisInv (firstPass cfg) (Inv1 cfg fs0) where
  err := fun _ h => h
  nodel := fun _ h => h
  enter := by
    intro f hf st rel hrel h
    simp only [firstPass, Option.some.injEq] at hf
    subst hf
    exact firstEnterDir_inv cfg hs fs0 st rel hrel h
  visit := fun st n rel hrel hne h => firstVisitNode_inv cfg hs fs0 st n rel hrel hne h
  leave := by
    intro f hf
    simp [firstPass] at hf
  skipped := by
    intro g hg
    simp [firstPass] at hg

/-! ## restoreFiles -/

theorem restoreOneFile_inv (cfg : Cfg) (hs : Setup cfg) (fs0 : FS) (rd : Bool) (s : St)
    (f : Path × List UInt8) (h : Inv2 cfg fs0 s)
    (hf : PlainPath f.1 ∧ f.1 ≠ [] ∧ NoSymFrom s.fs [] (cfg.dst ++ f.1.dropLast)) :
    Inv2 cfg fs0 (restoreOneFile cfg rd s f) ∧ NoNewSym s.fs (restoreOneFile cfg rd s f).fs := by
  obtain ⟨hfr, hr⟩ := h
  obtain ⟨hp, hne, hns⟩ := hf
  -- f.1 = d ++ [name]
  have hdec : f.1 = f.1.dropLast ++ [f.1.getLast hne] := (List.dropLast_concat_getLast hne).symm
  have hname : PlainName (f.1.getLast hne) := hp _ (List.getLast_mem hne)
  have hpath : cfg.dst ++ f.1 = (cfg.dst ++ f.1.dropLast) ++ [f.1.getLast hne] := by
    rw [List.append_assoc, ← hdec]
  have hlex : Lex s.fs (cfg.dst ++ f.1) := by
    rw [hpath]
    exact locate_noSym s.fs _ _ (plainPath_append hs.plainDst (plainPath_dropLast hp)) hname hns
  obtain ⟨ho, hn⟩ := createFile_only s.fs (cfg.dst ++ f.1) f.2 rd hlex
  have hfr2 : Frame cfg.dst s.fs (createFile s.fs (cfg.dst ++ f.1) f.2 rd).1 :=
    ho.frame (inside_append cfg.dst f.1 hne)
  unfold restoreOneFile
  cases hc : createFile s.fs (cfg.dst ++ f.1) f.2 rd with
  | mk fs1 ok =>
    rw [hc] at hfr2 hn
    simp only at hfr2 hn
    cases ok with
    | true => exact ⟨⟨Frame.trans hfr hfr2, realFrom_dst_of_frame hfr2 hr⟩, hn⟩
    | false => exact ⟨⟨Frame.trans hfr hfr2, realFrom_dst_of_frame hfr2 hr⟩, hn⟩

theorem restoreList_inv (cfg : Cfg) (hs : Setup cfg) (fs0 : FS) (rd : Bool)
    (fl : List (Path × List UInt8)) (s : St) (h : Inv2 cfg fs0 s) (hf : FilesOK cfg s.fs fl) :
    Inv2 cfg fs0 (fl.foldl (restoreOneFile cfg rd) s) ∧
    NoNewSym s.fs (fl.foldl (restoreOneFile cfg rd) s).fs := by
  induction fl generalizing s with
  | nil => exact ⟨h, NoNewSym.refl _⟩
  | cons f rest ih =>
    rw [List.foldl_cons]
    obtain ⟨h1, hn1⟩ := restoreOneFile_inv cfg hs fs0 rd s f h (hf f List.mem_cons_self)
    obtain ⟨h2, hn2⟩ := ih (restoreOneFile cfg rd s f) h1
      (filesOK_of_noNewSym hn1 (fun g hg => hf g (List.mem_cons_of_mem _ hg)))
    exact ⟨h2, NoNewSym.trans hn1 hn2⟩

theorem restoreFiles_inv (cfg : Cfg) (hs : Setup cfg) (fs0 : FS) (rd : Bool) (st : St)
    (h : Inv1 cfg fs0 st) : Inv2 cfg fs0 (restoreFiles cfg rd st) := by
  obtain ⟨h2, hf⟩ := h
  unfold restoreFiles
  have hsub1 : FilesOK cfg st.fs (st.files.filter fun f => f.2.isEmpty) :=
    fun f hm => hf f (List.mem_filter.mp hm).1
  have hsub2 : FilesOK cfg st.fs (st.files.filter fun f => !f.2.isEmpty) :=
    fun f hm => hf f (List.mem_filter.mp hm).1
  obtain ⟨i1, n1⟩ := restoreList_inv cfg hs fs0 rd _ { st with files := [] } h2 hsub1
  exact (restoreList_inv cfg hs fs0 rd _ _ i1 (filesOK_of_noNewSym n1 hsub2)).1

/-! ## second pass -/

theorem inv2_of_only (cfg : Cfg) (fs0 : FS) (fs1 fs2 : FS) (rel : Path) (hne : rel ≠ [])
    (h1 : Frame cfg.dst fs0 fs1) (hr : RealFrom fs1 [] cfg.dst)
    (ho : Only (cfg.dst ++ rel) fs1 fs2) : Frame cfg.dst fs0 fs2 ∧ RealFrom fs2 [] cfg.dst := by
  have hf := ho.frame (inside_append cfg.dst rel hne)
  exact ⟨Frame.trans h1 hf, realFrom_dst_of_frame hf hr⟩

theorem secondVisitNode_inv (cfg : Cfg) (hs : Setup cfg) (fs0 : FS) (st : St) (n : Node) (rel : Path)
    (hrel : PlainPath rel) (hne : rel ≠ []) (h : Inv2 cfg fs0 st) :
    Inv2 cfg fs0 (secondVisitNode cfg st n rel).1 := by
  obtain ⟨hf, hr⟩ := h
  obtain ⟨e1, _, e3, e4⟩ := ensureDir_spec cfg hs.chain hs.plainDst hs.ne st.fs rel.dropLast
    (plainPath_dropLast hrel) hr
  have hdec : rel = rel.dropLast ++ [rel.getLast hne] := (List.dropLast_concat_getLast hne).symm
  have hname : PlainName (rel.getLast hne) := hrel _ (List.getLast_mem hne)
  have hD : PlainPath (cfg.dst ++ rel.dropLast) := plainPath_append hs.plainDst (plainPath_dropLast hrel)
  have hpath : cfg.dst ++ rel = (cfg.dst ++ rel.dropLast) ++ [rel.getLast hne] := by
    rw [List.append_assoc, ← hdec]
  unfold secondVisitNode
  rw [if_pos hs.chain]
  cases he : ensureDir cfg st.fs rel.dropLast with
  | mk fs1 ok =>
    rw [he] at e1 e3 e4
    simp only at e1 e3 e4
    have base : Inv2 cfg fs0 { st with fs := fs1 } := ⟨Frame.trans hf e1, e3⟩
    cases ok with
    | false => exact base
    | true =>
      have hreal := e4 rfl
      -- every branch changes only `dst ++ rel` and below
      have hnode : Only (cfg.dst ++ rel) fs1 (restoreNodeTo cfg fs1 n rel).1 := by
        rw [hpath]
        have := restoreNodeTo_only cfg hs.mfix fs1 n rel.dropLast (rel.getLast hne) hD hname hreal
        rwa [← hdec] at this
      have hlink : ∀ orig, Only (cfg.dst ++ rel) fs1 (restoreHardlinkAt cfg fs1 n orig rel).1 := by
        intro orig
        rw [hpath]
        have := restoreHardlinkAt_only cfg hs.mfix fs1 n orig rel.dropLast (rel.getLast hne) hD hname hreal
        rwa [← hdec] at this
      have hmeta : Only (cfg.dst ++ rel) fs1 (restoreMetadata cfg fs1 n rel).1 := by
        rw [hpath]
        have := restoreMetadata_only cfg hs.mfix fs1 n rel.dropLast (rel.getLast hne) hD hname hreal
        rwa [← hdec] at this
      have fin : ∀ fs2, Only (cfg.dst ++ rel) fs1 fs2 → Inv2 cfg fs0 { st with fs := fs2 } :=
        fun fs2 ho => inv2_of_only cfg fs0 fs1 fs2 rel hne base.1 base.2 ho
      simp only [Bool.not_true, Bool.false_eq_true, if_false]
      split
      · split
        · exact base
        · exact fin _ hnode
      · split
        · rename_i orig _
          split
          · split
            · exact base
            · exact fin _ (hlink _)
          · split
            · exact fin _ hmeta
            · exact base
        · split
          · exact fin _ hmeta
          · exact base

theorem secondLeaveDir_inv (cfg : Cfg) (hs : Setup cfg) (fs0 : FS) (st : St) (n : Option Node)
    (rel : Path) (exp : List Name) (hrel : PlainPath rel) (hne : n.isSome = true → rel ≠ [])
    (h : Inv2 cfg fs0 st) : Inv2 cfg fs0 (secondLeaveDir cfg st n rel exp).1 := by
  obtain ⟨hf, hr⟩ := h
  obtain ⟨e1, _, e3, e4⟩ := ensureDir_spec cfg hs.chain hs.plainDst hs.ne st.fs rel hrel hr
  have hD : PlainPath (cfg.dst ++ rel) := plainPath_append hs.plainDst hrel
  unfold secondLeaveDir
  rw [if_pos hs.chain]
  cases he : ensureDir cfg st.fs rel with
  | mk fs1 ok =>
    rw [he] at e1 e3 e4
    simp only at e1 e3 e4
    have base : Inv2 cfg fs0 { st with fs := fs1 } := ⟨Frame.trans hf e1, e3⟩
    cases ok with
    | false => exact base
    | true =>
      have hreal := e4 rfl
      simp only [Bool.not_true, Bool.false_eq_true, if_false]
      -- deletion
      have hdel : ∀ b : Bool, Frame (cfg.dst ++ rel) fs1
          (if b then removeUnexpectedFiles cfg fs1 rel exp else (fs1, true)).1 := by
        intro b
        cases b with
        | true => exact removeUnexpectedFiles_frame cfg fs1 rel exp hD hreal
        | false => exact Frame.refl _ _
      have hd := hdel st.delete
      cases hdl : (if st.delete = true then removeUnexpectedFiles cfg fs1 rel exp else (fs1, true)) with
      | mk fs2 ok1 =>
        rw [hdl] at hd
        simp only at hd
        have hf2 : Frame cfg.dst fs1 fs2 := frame_mono hd (List.prefix_append _ _)
        have base2 : Inv2 cfg fs0 { st with fs := fs2 } :=
          ⟨Frame.trans base.1 hf2, realFrom_dst_of_frame hf2 base.2⟩
        have hreal2 : RealFrom fs2 [] (cfg.dst ++ rel) := realFrom_dst_of_frame hd hreal
        cases ok1 with
        | false => exact base2
        | true =>
          simp only [Bool.not_true, Bool.false_eq_true, if_false]
          cases n with
          | none => exact base2
          | some nd =>
            have hne' : rel ≠ [] := hne rfl
            have hdec : rel = rel.dropLast ++ [rel.getLast hne'] := (List.dropLast_concat_getLast hne').symm
            have hname : PlainName (rel.getLast hne') := hrel _ (List.getLast_mem hne')
            have hDp : PlainPath (cfg.dst ++ rel.dropLast) :=
              plainPath_append hs.plainDst (plainPath_dropLast hrel)
            have hpath : cfg.dst ++ rel = (cfg.dst ++ rel.dropLast) ++ [rel.getLast hne'] := by
              rw [List.append_assoc, ← hdec]
            have hrp : RealFrom fs2 [] (cfg.dst ++ rel.dropLast) := by
              rw [hpath] at hreal2
              exact realFrom_prefix hreal2
            have hmeta : Only (cfg.dst ++ rel) fs2 (restoreMetadata cfg fs2 nd rel).1 := by
              rw [hpath]
              have := restoreMetadata_only cfg hs.mfix fs2 nd rel.dropLast (rel.getLast hne') hDp hname hrp
              rwa [← hdec] at this
            exact inv2_of_only cfg fs0 fs2 _ rel hne' base2.1 base2.2 hmeta

/-- what `isDirBelow` establishes: the chain below a real `base` is real -/
theorem isDirBelowFrom_real (fs : FS) (base : Path) (rest : List Name) (hp : PlainPath (base ++ rest))
    (hr : RealFrom fs [] base) (h : isDirBelowFrom fs base rest = true) :
    RealFrom fs [] (base ++ rest) := by
  induction rest generalizing base with
  | nil => simpa using hr
  | cons c rest ih =>
    simp only [isDirBelowFrom, Bool.and_eq_true] at h
    have hbase : PlainPath base := fun n hn => hp n (List.mem_append_left _ hn)
    have hc : PlainName c := hp c (by simp)
    rw [lstat_real fs base c hbase hc hr] at h
    have hdir : isDirAt fs (base ++ [c]) = true := by
      unfold isDirAt
      cases hg : fs.get (base ++ [c]) with
      | none => rw [hg] at h; simp at h
      | some e => rw [hg] at h; exact h.1
    have e : base ++ c :: rest = (base ++ [c]) ++ rest := by simp
    rw [e]
    exact ih (base ++ [c]) (by rwa [e] at hp) (realFrom_snoc hr hdir) h.2

/-- second pass `skippedDir`: guarded by `isDirBelow`, it deletes below a chain of real
    directories only -/
theorem secondSkippedDir_inv (cfg : Cfg) (hs : Setup cfg) (fs0 : FS) (st : St) (rel : Path)
    (exp : List Name) (hrel : PlainPath rel) (h : Inv2 cfg fs0 st) :
    Inv2 cfg fs0 (secondSkippedDir cfg st rel exp).1 := by
  obtain ⟨hf, hr⟩ := h
  have hD : PlainPath (cfg.dst ++ rel) := plainPath_append hs.plainDst hrel
  unfold secondSkippedDir
  split
  · exact ⟨hf, hr⟩
  · split
    · exact ⟨hf, hr⟩
    · rename_i hb
      have hb' : isDirBelow cfg st.fs rel = true := by simpa using hb
      unfold isDirBelow at hb'
      simp only [Bool.and_eq_true] at hb'
      have hreal := isDirBelowFrom_real st.fs cfg.dst rel hD hr hb'.2
      have hd := removeUnexpectedFiles_frame cfg st.fs rel exp hD hreal
      cases hru : removeUnexpectedFiles cfg st.fs rel exp with
      | mk fs1 ok =>
        rw [hru] at hd
        simp only at hd ⊢
        have hf2 : Frame cfg.dst st.fs fs1 := frame_mono hd (List.prefix_append _ _)
        exact ⟨Frame.trans hf hf2, realFrom_dst_of_frame hf2 hr⟩

theorem secondPass_visInv (cfg : Cfg) (hs : Setup cfg) (fs0 : FS) :
    VisInv (secondPass cfg) (Inv2 cfg fs0) where
  err := fun _ h => h
  nodel := fun _ h => h
  enter := by
    intro f hf
    simp [secondPass] at hf
  visit := fun st n rel hrel hne h => secondVisitNode_inv cfg hs fs0 st n rel hrel hne h
  leave := by
    intro f hf st n rel exp hrel hne h
    simp only [secondPass, Option.some.injEq] at hf
    subst hf
    exact secondLeaveDir_inv cfg hs fs0 st n rel exp hrel hne h
  skipped := by
    intro g hg st rel exp hrel h
    simp only [secondPass, Option.some.injEq] at hg
    subst hg
    exact secondSkippedDir_inv cfg hs fs0 st rel exp hrel h

/-! ## the whole restore -/

theorem mkdirAll_real (fs : FS) (p : Path) (m : Nat) (hp : PlainPath p) (hr : RealFrom fs [] p) :
    (mkdirAll fs p m).1 = fs := by
  unfold mkdirAll
  have : mkdirChain fs m [] p = fs := mkdirChain_real fs m [] p (by simpa using hp) (by simpa using hr)
  simp only [this]
  split
  · split <;> rfl
  · rfl

/-- **C18.** Every location that is not strictly inside the target directory holds the same
    entry before and after the restore. -/
theorem restore_confined (cfg : Cfg) (hs : Setup cfg) (tree : List Node) (fs0 : FS) (delete : Bool)
    (hreal : RealFrom fs0 [] cfg.dst) :
    Frame cfg.dst fs0 (restore cfg tree fs0 delete).fs := by
  unfold restore
  dsimp only
  have hmk := mkdirAll_real fs0 cfg.dst 0o700 hs.plainDst hreal
  cases hm : mkdirAll fs0 cfg.dst 0o700 with
  | mk fs1 ok =>
    rw [hm] at hmk
    simp only at hmk
    subst hmk
    simp only
    cases ok with
    | false => exact Frame.refl _ _
    | true =>
      simp only [Bool.not_true, Bool.false_eq_true, if_false]
      have h0 : Inv1 cfg fs1 ⟨fs1, delete, [], [], [], 0⟩ :=
        ⟨⟨Frame.refl _ _, hreal⟩, fun f hf => by cases hf⟩
      have h1 := traverseTree_inv cfg (firstPass cfg) (Inv1 cfg fs1) (firstPass_visInv cfg hs fs1) tree _ h0
      cases ht : traverseTree cfg (firstPass cfg) tree ⟨fs1, delete, [], [], [], 0⟩ with
      | mk st1 fatal =>
        rw [ht] at h1
        simp only at h1
        cases fatal with
        | true => exact h1.1.1
        | false =>
          simp only
          have h2 := restoreFiles_inv cfg hs fs1 delete st1 h1
          exact (traverseTree_inv cfg (secondPass cfg) (Inv2 cfg fs1) (secondPass_visInv cfg hs fs1) tree _ h2).1

/-- the executable statement `outsideEq` holds of the transcription -/
theorem restore_meets_spec (cfg : Cfg) (hs : Setup cfg) (tree : List Node) (fs0 : FS) (delete : Bool)
    (hreal : RealFrom fs0 [] cfg.dst) :
    outsideEq cfg.dst fs0 (restore cfg tree fs0 delete).fs = true := by
  have h := restore_confined cfg hs tree fs0 delete hreal
  unfold outsideEq
  simp only [List.all_eq_true, Bool.or_eq_true, beq_iff_eq]
  intro q _
  by_cases hq : cfg.dst <+: q
  · exact Or.inl (List.isPrefixOf_iff_prefix.mpr hq)
  · right
    exact (h q (fun hin => hq hin.1)).symm

/-- in particular nothing is created, changed or removed at any location `q` outside -/
theorem outside_untouched (cfg : Cfg) (hs : Setup cfg) (tree : List Node) (fs0 : FS) (delete : Bool)
    (hreal : RealFrom fs0 [] cfg.dst) (q : Path) (hq : ¬ cfg.dst <+: q) :
    (restore cfg tree fs0 delete).fs.get q = fs0.get q :=
  restore_confined cfg hs tree fs0 delete hreal q (fun hin => hq hin.1)

/-! ## tie T1 -/

/-- On the current source `ensureDir` checks every component below the target and is called by
    all four visitor call sites, and `restoreNodeMetadataTo` looks at the item first. Fails to
    build on the unmodified tree. -/
theorem source_has_fixes :
    chainFixOfSource = true ∧ metaFixOfSource = true ∧ secondPassShape = true ∧
    skippedDirShape = true := by decide

/-- Closed world: every transcribed function makes exactly the transcribed operative calls; in
    particular metadata is applied through the guarded `restoreNodeMetadataTo` only. -/
theorem call_graph_closed : callGraphClosed = true := by decide

end Restic.Props.C18

namespace Restic.Props.C18
open Restic.Model.RestoreFS Restic.Model.RestoreTree

/-! ## negation witnesses for the unmodified source, and the same inputs with the fixes -/

def nT : Name := [116]   -- "t": the target directory
def nO : Name := [111]   -- "o": a directory beside it
def nA : Name := [97]
def nB : Name := [98]
def nF : Name := [102]
def nS : Name := [115]

def fileNode (name : Name) (mode : Nat) (links inode : Nat) : Node :=
  .mk name .file mode [120] links inode false [] false []
def dirNode (name : Name) (children : List Node) : Node :=
  .mk name .dir 0o755 [] 1 0 false [] true children
def linkNode (name : Name) (target : List Name) : Node :=
  .mk name .symlink 0o777 [] 1 0 false target false []

def selAll : Path → Bool → Bool × Bool := fun _ _ => (true, true)

/-- `--include /a/b/f` -/
def selABF : Path → Bool → Bool × Bool := fun loc isDir =>
  (loc == [nA, nB, nF], isDir && (loc == [nA] || loc == [nA, nB]))

/-- F13: the target already contains `t/a -> ../o`; `restore --include /a/b/f` creates
    `o/b` and `o/b/f` -/
def fsF13 : FS := ⟨[([nT], .dir 0o755), ([nT, nA], .symlink false [dotdot, nO]), ([nO], .dir 0o755)]⟩
def treeF13 : List Node := [dirNode nA [dirNode nB [fileNode nF 0o644 1 0]]]

theorem f13_witness :
    outsideEq [nT] fsF13 (restore ⟨[nT], selABF, .always, false, false⟩ treeF13 fsF13 false).fs = false ∧
    (restore ⟨[nT], selABF, .always, false, false⟩ treeF13 fsF13 false).fs.get [nO, nB, nF]
      = some (.file [120] 0o644) := by decide

theorem f13_fixed :
    outsideEq [nT] fsF13 (restore ⟨[nT], selABF, .always, true, true⟩ treeF13 fsF13 false).fs = true ∧
    (restore ⟨[nT], selABF, .always, true, true⟩ treeF13 fsF13 false).fs.get [nT, nA, nB, nF]
      = some (.file [120] 0o644) := by decide

/-- duplicate names: a symlink `s -> ../o/f` and a regular file `s` (mode 0777) in one tree.
    The file is restored, replaced by the symlink in the second pass, and the file's metadata
    is then applied through the symlink: `o/f` outside the target gets mode 0777. -/
def fsDup : FS := ⟨[([nT], .dir 0o755), ([nO], .dir 0o755), ([nO, nF], .file [1] 0o600)]⟩
def treeDup : List Node := [linkNode nS [dotdot, nO, nF], fileNode nS 0o777 1 0]

theorem dup_witness :
    outsideEq [nT] fsDup (restore ⟨[nT], selAll, .always, false, false⟩ treeDup fsDup false).fs = false ∧
    (restore ⟨[nT], selAll, .always, false, false⟩ treeDup fsDup false).fs.get [nO, nF]
      = some (.file [1] 0o777) := by decide

/-- the ancestor fix alone does not help here, the metadata check is needed -/
theorem dup_needs_metaFix :
    outsideEq [nT] fsDup (restore ⟨[nT], selAll, .always, true, false⟩ treeDup fsDup false).fs = false := by
  decide

theorem dup_fixed :
    outsideEq [nT] fsDup (restore ⟨[nT], selAll, .always, true, true⟩ treeDup fsDup false).fs = true := by
  decide

/-- duplicate names, directory variant: symlink `a -> ../o` and directory `a` containing a
    symlink `f`: in the second pass the (still empty) directory is replaced by the symlink and
    `f` is then removed and created in `o` -/
def treeDupDir : List Node := [linkNode nA [dotdot, nO], dirNode nA [linkNode nF [nB]]]

theorem dupdir_witness :
    (restore ⟨[nT], selAll, .always, false, false⟩ treeDupDir fsDup false).fs.get [nO, nF]
      = some (.symlink false [nB]) := by decide

theorem dupdir_fixed :
    outsideEq [nT] fsDup (restore ⟨[nT], selAll, .always, true, true⟩ treeDupDir fsDup false).fs = true := by
  decide

/-- `--overwrite never`, hard link group `a`,`b`, and `t/a` already is a symlink to `o/f`:
    `a` is kept, `b` becomes a hard link to the symlink, and `b`'s mode is applied through it -/
def fsHL : FS := ⟨[([nT], .dir 0o755), ([nT, nA], .symlink false [dotdot, nO, nF]),
  ([nO], .dir 0o755), ([nO, nF], .file [1] 0o600)]⟩
def treeHL : List Node := [fileNode nA 0o777 2 7, fileNode nB 0o777 2 7]

theorem hardlink_symlink_witness :
    (restore ⟨[nT], selAll, .never, false, false⟩ treeHL fsHL false).fs.get [nO, nF]
      = some (.file [1] 0o777) := by decide

theorem hardlink_symlink_fixed :
    outsideEq [nT] fsHL (restore ⟨[nT], selAll, .never, true, true⟩ treeHL fsHL false).fs = true := by
  decide

/-- `skippedDir` (--delete, nothing restored in `a`): a stale selected entry of a traversed
    directory is removed … -/
def selOnlyStale : Path → Bool → Bool × Bool := fun loc isDir =>
  (loc == [nA, nS], isDir && loc == [nA])
def fsSkip : FS := ⟨[([nT], .dir 0o755), ([nT, nA], .dir 0o755), ([nT, nA, nS], .file [1] 0o600),
  ([nT, nA, nF], .file [2] 0o600), ([nO], .dir 0o755), ([nO, nS], .file [3] 0o600)]⟩
def treeSkip : List Node := [dirNode nA [fileNode nF 0o644 1 0]]

theorem skippedDir_deletes_inside :
    (restore ⟨[nT], selOnlyStale, .always, true, true⟩ treeSkip fsSkip true).fs.get [nT, nA, nS] = none ∧
    (restore ⟨[nT], selOnlyStale, .always, true, true⟩ treeSkip fsSkip true).fs.get [nT, nA, nF]
      = some (.file [2] 0o600) ∧
    outsideEq [nT] fsSkip (restore ⟨[nT], selOnlyStale, .always, true, true⟩ treeSkip fsSkip true).fs = true := by
  decide

/-- … but not through a symlink: with `t/a -> ../o` the guard `isDirBelow` fails and `o/s`
    (which the filter would select) stays -/
def fsSkipLink : FS := ⟨[([nT], .dir 0o755), ([nT, nA], .symlink false [dotdot, nO]),
  ([nO], .dir 0o755), ([nO, nS], .file [3] 0o600)]⟩

theorem skippedDir_not_through_symlink :
    (restore ⟨[nT], selOnlyStale, .always, true, true⟩ treeSkip fsSkipLink true).fs.get [nO, nS]
      = some (.file [3] 0o600) ∧
    outsideEq [nT] fsSkipLink (restore ⟨[nT], selOnlyStale, .always, true, true⟩ treeSkip fsSkipLink true).fs = true := by
  decide

/-! ## non-vacuity -/

/-- the hypotheses of `restore_confined` are satisfiable: the F13 input with the fixes -/
example : Setup ⟨[nT], selABF, .always, true, true⟩ :=
  ⟨rfl, rfl, by intro n hn; simp at hn; subst hn; exact ⟨by decide, by decide, by decide⟩, by decide⟩

example : RealFrom fsF13 [] [nT] := by
  intro k h1 h2
  have : k = 1 := by simp at h2; omega
  subst this
  decide

/-- invalid names are rejected by the transcribed checks, plain ones pass -/
example : nameCheck1 dotdot = false ∧ nameCheck1 dot = false ∧ nameCheck1 [] = false ∧
    nameCheck1 [97, 47, 98] = false ∧ nameCheck1 slash = true ∧ nameCheck1 nA = true := by decide

end Restic.Props.C18
