import Restic.Model.Stats
import Restic.Gen.Source
/-!
# C54 — stats restore-size reports what a restore would write

Theorems about `Restic.Model.Stats` (transcription of `statsWalkTree`/`statsWalkSnapshot`/`runStats`
in restore-size mode and of the size accounting of the restorer's first pass), for all trees and
any number of snapshots.
-/
set_option linter.unusedSimpArgs false
set_option linter.unusedVariables false

namespace Restic.Props.C54
open Restic.Model.SnapTree Restic.Model.Stats

/-! ### the walker visits the nodes in pre-order -/

def noInvalid (ns : List Meta) : Bool := ns.all (fun n => n.type != .invalid)

mutual
theorem walkT_eq (g : σ → Meta → σ) : ∀ (t : Tree) (s : σ), shapeT t = true →
    walkT (fun s n => some (g s n)) t s =
      if noInvalid (flattenT t) then some ((flattenT t).foldl g s) else none
  | .mk m kids, s, h => by
    simp only [shapeT, Bool.and_eq_true, Bool.or_eq_true, beq_iff_eq, List.isEmpty_iff] at h
    simp only [walkT, flattenT, noInvalid, List.all_cons, List.foldl_cons]
    by_cases hi : m.type = .invalid
    · simp [hi]
    · simp only [hi, if_false, bne_iff_ne, ne_eq, not_false_eq_true, decide_true, Bool.true_and]
      by_cases hd : m.type = .dir
      · simp only [hd, if_true]
        have := walkL_eq g kids (g s m) h.2
        simpa [noInvalid] using this
      · have hk : kids = [] := h.1.resolve_left hd
        subst hk
        simp [hd, hi, flattenL]
theorem walkL_eq (g : σ → Meta → σ) : ∀ (ts : List Tree) (s : σ), shapeL ts = true →
    walkL (fun s n => some (g s n)) ts s =
      if noInvalid (flattenL ts) then some ((flattenL ts).foldl g s) else none
  | [], s, _ => by simp [walkL, flattenL, noInvalid]
  | t :: ts, s, h => by
    simp only [shapeL, Bool.and_eq_true] at h
    simp only [walkL, flattenL, walkT_eq g t s h.1, noInvalid, List.all_append, List.foldl_append]
    by_cases h1 : noInvalid (flattenT t) = true
    · have h1' := h1; simp only [noInvalid] at h1'
      simp only [h1, h1', if_true, Bool.true_and]
      have := walkL_eq g ts ((flattenT t).foldl g s) h.2
      simpa [noInvalid] using this
    · have h1' := h1; simp only [noInvalid] at h1'
      simp [h1, h1']
end

/-! ### count -/

theorem statsNode_count (s : St) (n : Meta) : (statsNode s n).count = s.count + 1 := by
  unfold statsNode
  split
  · rfl
  · split <;> rfl

/-- `count_exact` : every node is counted once -/
theorem count_exact (ns : List Meta) (s : St) : (ns.foldl statsNode s).count = s.count + ns.length := by
  induction ns generalizing s with
  | nil => simp
  | cons n ns ih => simp only [List.foldl_cons, ih, statsNode_count, List.length_cons]; omega

/-! ### size: stats versus restore -/

theorem mem_idxAdd (idx : List Key) (k k' : Key) : k' ∈ idxAdd idx k ↔ k' = k ∨ k' ∈ idx := by
  unfold idxAdd
  by_cases h : idx.contains k = true
  · simp only [h, if_true]
    constructor
    · exact Or.inr
    · rintro (rfl | h')
      · exact List.contains_iff_mem.mp h
      · exact h'
  · simp only [h]; simp

theorem idxHas_iff (idx : List Key) (k : Key) : idxHas idx k = true ↔ k ∈ idx := by
  simp [idxHas]

/-- `k` is the (inode, device) pair of some hard-linked regular file of the snapshot -/
def GroupKey (all : List Meta) (k : Key) : Prop := ∃ f ∈ all, grouped f = true ∧ key f = k

/-- the two indices agree on the keys of hard-link groups, and the sizes agree -/
def Rel (all : List Meta) (s : St) (r : RSt) : Prop :=
  s.size = r.bytes ∧ ∀ k, GroupKey all k → (k ∈ s.idx ↔ k ∈ r.idx)

theorem wf_unfold (all : List Meta) (h : wf all = true) :
    (∀ n ∈ all, n.type ≠ .file → n.size = 0) ∧
    (∀ n ∈ all, n.type = .file → n.links = 0 → n.inode = 0) ∧
    (∀ n ∈ all, grouped n = true → n.inode ≠ 0) ∧
    (∀ n ∈ all, n.type ≠ .file → n.type ≠ .dir → n.links ≠ 1 → ∀ k, GroupKey all k → key n ≠ k) := by
  simp only [wf, Bool.and_eq_true, List.all_eq_true, Bool.or_eq_true, beq_iff_eq, Bool.not_eq_true',
    Bool.and_eq_false_iff, bne_iff_ne, ne_eq, decide_eq_true_eq, decide_eq_false_iff_not] at h
  obtain ⟨⟨⟨h1, h2⟩, h3⟩, h4⟩ := h
  refine ⟨?_, ?_, ?_, ?_⟩
  · intro n hn ht; exact (h1 n hn).resolve_left ht
  · intro n hn ht hl
    rcases h2 n hn with (h' | h') | h'
    · exact absurd ht (by simpa using h')
    · exact absurd hl (by simpa using h')
    · exact h'
  · intro n hn hg
    simp only [grouped, Bool.and_eq_true, beq_iff_eq, decide_eq_true_eq] at hg
    rcases h3 n hn with (h' | h') | h'
    · exact absurd hg.1 (by simpa using h')
    · exact absurd hg.2 (by simpa using h')
    · exact h'
  · intro n hn ht hd hl k ⟨f, hf, hg, hk⟩
    simp only [grouped, Bool.and_eq_true, beq_iff_eq, decide_eq_true_eq] at hg
    rcases h4 n hn with ((h' | h') | h') | h'
    · exact absurd h' ht
    · exact absurd h' hd
    · exact absurd h' hl
    · rcases h' f hf with (h'' | h'') | h''
      · exact absurd hg.1 (by simpa using h'')
      · exact absurd hg.2 (by simpa using h'')
      · rw [← hk]; exact h''

theorem step_rel (all : List Meta) (hwf : wf all = true) (n : Meta) (hn : n ∈ all) (s : St) (r : RSt)
    (h : Rel all s r) : Rel all (statsNode s n) (restoreNode r n) := by
  obtain ⟨w1, w2, w3, w4⟩ := wf_unfold all hwf
  obtain ⟨hs, hi⟩ := h
  by_cases hf : n.type = .file
  · -- regular file
    by_cases hl1 : n.links = 1
    · refine ⟨?_, ?_⟩
      · simp [statsNode, restoreNode, hf, hl1, hs]
      · simpa [statsNode, restoreNode, hf, hl1] using hi
    · by_cases hl0 : n.links = 0
      · have hino := w2 n hn hf hl0
        refine ⟨?_, ?_⟩
        · simp [statsNode, restoreNode, hf, hl0, hino, hs]
        · intro k hk
          have hne : k ≠ key n := by
            rintro rfl
            obtain ⟨f, hfm, hg, hkk⟩ := hk
            have := w3 f hfm hg
            simp only [key, Prod.mk.injEq] at hkk
            exact this (hkk.1.trans hino)
          simp only [statsNode, restoreNode, hf, hl0, hino]
          simp [mem_idxAdd, hne, hi k hk]
      · have hg : grouped n = true := by simp [grouped, hf]; omega
        have hino := w3 n hn hg
        have hgk : GroupKey all (key n) := ⟨n, hn, hg, rfl⟩
        have hlt : n.links > 1 := by omega
        by_cases hm : key n ∈ s.idx
        · have hm' := (hi _ hgk).mp hm
          refine ⟨?_, ?_⟩
          · simp [statsNode, restoreNode, hf, hl1, idxHas, hm, hm', hino, hlt, hs]
          · simpa [statsNode, restoreNode, hf, hl1, idxHas, hm, hm', hino, hlt] using hi
        · have hm' : key n ∉ r.idx := fun h' => hm ((hi _ hgk).mpr h')
          refine ⟨?_, ?_⟩
          · simp [statsNode, restoreNode, hf, hl1, idxHas, hm, hm', hlt, hs]
          · intro k hk
            simp [statsNode, restoreNode, hf, hl1, idxHas, hm, hm', hlt, mem_idxAdd, hi k hk]
  · -- not a regular file: no size, never in a hard-link group
    have hz := w1 n hn hf
    have hr : restoreNode r n = r := by simp [restoreNode, hf]
    rw [hr]
    by_cases hd : n.type = .dir
    · refine ⟨?_, ?_⟩
      · simp [statsNode, hd, hz, hs]
      · simpa [statsNode, hd] using hi
    · by_cases hl1 : n.links = 1
      · refine ⟨?_, ?_⟩
        · simp [statsNode, hl1, hz, hs]
        · simpa [statsNode, hl1] using hi
      · have hne := w4 n hn hf hd hl1
        by_cases hc : (!(idxHas s.idx (key n)) || n.inode == 0) = true
        · have e : statsNode s n = { count := s.count + 1, idx := idxAdd s.idx (key n), size := s.size + n.size } := by
            unfold statsNode; rw [if_neg (by simp [hl1, hd]), if_pos hc]
          rw [e]
          refine ⟨by simp [hz, hs], ?_⟩
          intro k hk
          have : k ≠ key n := fun h' => hne k hk h'.symm
          simp [mem_idxAdd, this, hi k hk]
        · have e : statsNode s n = { s with count := s.count + 1 } := by
            unfold statsNode; rw [if_neg (by simp [hl1, hd]), if_neg hc]
          rw [e]
          exact ⟨hs, hi⟩

theorem fold_rel (all : List Meta) (hwf : wf all = true) (ns : List Meta) (hsub : ∀ n ∈ ns, n ∈ all)
    (s : St) (r : RSt) (h : Rel all s r) : Rel all (ns.foldl statsNode s) (ns.foldl restoreNode r) := by
  induction ns generalizing s r with
  | nil => exact h
  | cons n ns ih =>
    simp only [List.foldl_cons]
    exact ih (fun m hm => hsub m (List.mem_cons_of_mem _ hm)) _ _
      (step_rel all hwf n (hsub n List.mem_cons_self) s r h)

theorem restore_bytes_shift (ns : List Meta) (r : RSt) (c : Nat) :
    (ns.foldl restoreNode { r with bytes := r.bytes + c }).bytes = (ns.foldl restoreNode r).bytes + c ∧
    (ns.foldl restoreNode { r with bytes := r.bytes + c }).idx = (ns.foldl restoreNode r).idx := by
  induction ns generalizing r with
  | nil => simp
  | cons n ns ih =>
    simp only [List.foldl_cons]
    have key : restoreNode { r with bytes := r.bytes + c } n =
        { restoreNode r n with bytes := (restoreNode r n).bytes + c } := by
      unfold restoreNode
      split
      · rfl
      · split
        · split
          · rfl
          · simp only [RSt.mk.injEq, and_true]; omega
        · simp only [RSt.mk.injEq, and_true]; omega
    rw [key]; exact ih _

/-- `size_exact`, one snapshot: for an archiver-shaped tree the size added by `stats` for the
    snapshot is exactly the number of bytes a restore of it writes (hard links once). -/
theorem size_eq_restore (ns : List Meta) (hwf : wf ns = true) (c0 z0 : Nat) :
    (ns.foldl statsNode { count := c0, size := z0, idx := [] }).size
      = z0 + (ns.foldl restoreNode {}).bytes := by
  have h := fold_rel ns hwf ns (fun _ h => h) { count := c0, size := z0, idx := [] } { bytes := z0, idx := [] }
    ⟨rfl, fun _ _ => Iff.rfl⟩
  rw [h.1]
  have := (restore_bytes_shift ns {} z0).1
  simp only [Nat.zero_add] at this
  rw [this]; omega

/-! ### restore bytes without an index -/

theorem restore_grouped (before ns : List Meta) (r : RSt)
    (hidx : ∀ k, k ∈ r.idx ↔ ∃ f ∈ before, grouped f = true ∧ key f = k) :
    (ns.foldl restoreNode r).bytes = r.bytes + groupedSizeFrom before ns := by
  induction ns generalizing before r with
  | nil => simp [groupedSizeFrom]
  | cons n ns ih =>
    simp only [List.foldl_cons, groupedSizeFrom]
    by_cases hf : n.type = .file
    · by_cases hl : n.links > 1
      · have hg : grouped n = true := by simp [grouped, hf, hl]
        by_cases hm : key n ∈ r.idx
        · have hb : (before.any fun f => grouped f && key f == key n) = true := by
            obtain ⟨f, hfm, hgf, hk⟩ := (hidx _).mp hm
            exact List.any_eq_true.mpr ⟨f, hfm, by simp [hgf, hk]⟩
          have hr : restoreNode r n = r := by simp [restoreNode, hf, hl, idxHas, hm]
          rw [hr, ih (before ++ [n]) r]
          · simp [firstOfGroup, hg, hb]
          · intro k
            rw [hidx k]
            constructor
            · rintro ⟨f, hfm, h2⟩; exact ⟨f, List.mem_append_left _ hfm, h2⟩
            · rintro ⟨f, hfm, h2, h3⟩
              rcases List.mem_append.mp hfm with h' | h'
              · exact ⟨f, h', h2, h3⟩
              · simp only [List.mem_singleton] at h'; subst h'
                rw [← h3]; exact (hidx _).mp hm
        · have hb : (before.any fun f => grouped f && key f == key n) = false := by
            rw [Bool.eq_false_iff]
            intro hc
            obtain ⟨f, hfm, h2⟩ := List.any_eq_true.mp hc
            simp only [Bool.and_eq_true, beq_iff_eq] at h2
            exact hm ((hidx _).mpr ⟨f, hfm, h2.1, h2.2⟩)
          have hr : restoreNode r n = { idx := idxAdd r.idx (key n), bytes := r.bytes + n.size } := by
            simp [restoreNode, hf, hl, idxHas, hm]
          rw [hr, ih (before ++ [n])]
          · simp [firstOfGroup, hg, hb, hf]; omega
          · intro k
            simp only [mem_idxAdd, hidx k]
            constructor
            · rintro (rfl | ⟨f, hfm, h2⟩)
              · exact ⟨n, by simp, hg, rfl⟩
              · exact ⟨f, List.mem_append_left _ hfm, h2⟩
            · rintro ⟨f, hfm, h2, h3⟩
              rcases List.mem_append.mp hfm with h' | h'
              · exact Or.inr ⟨f, h', h2, h3⟩
              · simp only [List.mem_singleton] at h'; subst h'; exact Or.inl h3.symm
      · have hg : grouped n = false := by simp [grouped, hf, hl]
        have hr : restoreNode r n = { r with bytes := r.bytes + n.size } := by
          simp [restoreNode, hf, hl]
        rw [hr, ih (before ++ [n])]
        · simp [firstOfGroup, hg, hf]; omega
        · intro k
          rw [hidx k]
          constructor
          · rintro ⟨f, hfm, h2⟩; exact ⟨f, List.mem_append_left _ hfm, h2⟩
          · rintro ⟨f, hfm, h2, h3⟩
            rcases List.mem_append.mp hfm with h' | h'
            · exact ⟨f, h', h2, h3⟩
            · simp only [List.mem_singleton] at h'; subst h'; simp [hg] at h2
    · have hg : grouped n = false := by simp [grouped, hf]
      have hr : restoreNode r n = r := by simp [restoreNode, hf]
      rw [hr, ih (before ++ [n]) r]
      · simp [hf]
      · intro k
        rw [hidx k]
        constructor
        · rintro ⟨f, hfm, h2⟩; exact ⟨f, List.mem_append_left _ hfm, h2⟩
        · rintro ⟨f, hfm, h2, h3⟩
          rcases List.mem_append.mp hfm with h' | h'
          · exact ⟨f, h', h2, h3⟩
          · simp only [List.mem_singleton] at h'; subst h'; simp [hg] at h2

/-- what a restore writes = total size of the regular files, each hard-link group once -/
theorem restoreBytes_eq_grouped (t : List Tree) : restoreBytes t = groupedSize (flattenL t) := by
  unfold restoreBytes groupedSize
  rw [restore_grouped [] (flattenL t) {} (by simp)]
  simp

/-! ### the command -/

theorem statsSnapshot_eq (tot : Totals) (t : List Tree) (hs : shapeL t = true) :
    statsSnapshot tot t =
      if noInvalid (flattenL t) then
        some { snapshots := tot.snapshots + 1,
               count := tot.count + (flattenL t).length,
               size := ((flattenL t).foldl statsNode { count := tot.count, size := tot.size, idx := [] }).size }
      else none := by
  unfold statsSnapshot
  rw [walkL_eq statsNode t _ hs]
  by_cases hv : noInvalid (flattenL t) = true
  · simp [hv, count_exact]
  · simp [hv]

/-- invariant of the snapshot loop -/
theorem runStats_aux (snaps : List (List Tree)) (hs : ∀ t ∈ snaps, shapeL t = true) (tot out : Totals)
    (h : snaps.foldlM statsSnapshot tot = some out) :
    out.snapshots = tot.snapshots + snaps.length ∧
    out.count = tot.count + (snaps.map (fun t => (flattenL t).length)).sum ∧
    (∀ t ∈ snaps, noInvalid (flattenL t) = true) ∧
    ((∀ t ∈ snaps, wf (flattenL t) = true) → out.size = tot.size + (snaps.map restoreBytes).sum) := by
  induction snaps generalizing tot with
  | nil => simp at h; subst h; simp
  | cons t ts ih =>
    simp only [List.foldlM_cons] at h
    rw [statsSnapshot_eq tot t (hs t List.mem_cons_self)] at h
    by_cases hv : noInvalid (flattenL t) = true
    · simp only [hv, if_true, Option.bind_eq_bind, Option.bind_some] at h
      obtain ⟨h1, h2, h3, h4⟩ := ih (fun t' ht' => hs t' (List.mem_cons_of_mem _ ht')) _ h
      refine ⟨?_, ?_, ?_, ?_⟩
      · simp only [h1, List.length_cons]; omega
      · simp only [h2, List.map_cons, List.sum_cons]; omega
      · intro t' ht'
        rcases List.mem_cons.mp ht' with rfl | h'
        · exact hv
        · exact h3 t' h'
      · intro hw
        rw [h4 (fun t' ht' => hw t' (List.mem_cons_of_mem _ ht'))]
        simp only [List.map_cons, List.sum_cons]
        rw [size_eq_restore _ (hw t List.mem_cons_self)]
        unfold restoreBytes; omega
    · simp [hv] at h

/-- **C54 (main theorem).** Whenever `stats --mode restore-size` succeeds on snapshots whose trees
    have directory shape, its output satisfies the executable statement of the property: number of
    snapshots, number of entries, and for archiver-shaped trees the total size equals the bytes a
    restore of all selected snapshots writes. -/
theorem runStats_spec (snaps : List (List Tree)) (hs : ∀ t ∈ snaps, shapeL t = true) (out : Totals)
    (h : runStats snaps = some out) : specOK snaps out = true := by
  obtain ⟨h1, h2, _, h4⟩ := runStats_aux snaps hs {} out h
  simp only [specOK, Bool.and_eq_true, beq_iff_eq, Bool.or_eq_true, Bool.not_eq_true',
    List.all_eq_true]
  refine ⟨⟨by simpa using h1, by simpa using h2⟩, ?_⟩
  by_cases hw : ∀ t ∈ snaps, wf (flattenL t) = true
  · right; simpa using h4 hw
  · left
    rw [Bool.eq_false_iff]
    intro hc
    exact hw (List.all_eq_true.mp hc)

/-- the command fails only because of a node of invalid type (the walker's check) -/
theorem runStats_total (snaps : List (List Tree)) (hs : ∀ t ∈ snaps, shapeL t = true)
    (hv : ∀ t ∈ snaps, noInvalid (flattenL t) = true) : ∃ out, runStats snaps = some out := by
  unfold runStats
  suffices h : ∀ tot : Totals, ∃ out, snaps.foldlM statsSnapshot tot = some out from h {}
  induction snaps with
  | nil => intro tot; exact ⟨tot, rfl⟩
  | cons t ts ih =>
    intro tot
    simp only [List.foldlM_cons]
    rw [statsSnapshot_eq tot t (hs t List.mem_cons_self), hv t List.mem_cons_self]
    simp only [if_true, Option.bind_eq_bind, Option.bind_some]
    exact ih (fun t' ht' => hs t' (List.mem_cons_of_mem _ ht')) (fun t' ht' => hv t' (List.mem_cons_of_mem _ ht')) _

/-- The hypothesis `wf` cannot be dropped: two regular files without link count but with the same
    inode are counted once by `stats` and written twice by a restore (such nodes are not produced by
    the archiver: on Unix every file has links ≥ 1, on Windows inode = 0). -/
theorem wf_needed :
    let f : Meta := { name := [97], type := .file, size := 5, links := 0, inode := 7 }
    let g : Meta := { name := [98], type := .file, size := 5, links := 0, inode := 7 }
    runStats [[.mk f [], .mk g []]] = some { snapshots := 1, count := 2, size := 5 } ∧
    restoreBytes [.mk f [], .mk g []] = 10 := by decide

/-- T1 (regenerated from cmd/restic/cmd_stats.go): `statsWalkSnapshot` creates the hard-link index
    itself (so it is fresh for every snapshot) before it walks the tree. -/
theorem fresh_index_per_snapshot :
    Restic.Gen.statsWalkSnapshot_calls.idxOf "data.NewHardlinkIndex" <
      Restic.Gen.statsWalkSnapshot_calls.idxOf "walker.Walk" ∧
    "walker.Walk" ∈ Restic.Gen.statsWalkSnapshot_calls := by decide

/-! ### Non-vacuity -/

/-- a snapshot with a hard-link pair (a, b), a plain file, a directory with a symlink and a fifo -/
def exTree : List Tree :=
  [ .mk { name := [97], type := .file, size := 10, links := 2, inode := 5, device := 1 } [],
    .mk { name := [98], type := .file, size := 10, links := 2, inode := 5, device := 1 } [],
    .mk { name := [99], type := .file, size := 3, links := 1, inode := 6 } [],
    .mk { name := [100], type := .dir, inode := 9 }
      [ .mk { name := [101], type := .symlink, links := 1, inode := 11 } [],
        .mk { name := [102], type := .fifo, inode := 12, device := 1 } [] ] ]

example : shapeL exTree = true ∧ wf (flattenL exTree) = true := by decide
example : runStats [exTree, exTree] = some { snapshots := 2, count := 12, size := 26 } := by decide
example : restoreBytes exTree = 13 ∧ groupedSize (flattenL exTree) = 13 := by decide
example : runStats [[.mk { name := [97], type := .invalid } []]] = none := by decide

end Restic.Props.C54
