import Restic.Model.Index
namespace Restic.Props.C08
end Restic.Props.C08
