import Restic.Proofs.C08_Index
import Restic.Gen.Source
/-!
# C08 — The loaded index matches exactly the index files in the repository

Statement (properties.jsonl): after loading, looking up any blob returns exactly the set of pack
locations recorded for it across all index files currently in the repository, and encoding any
index then decoding it preserves every entry. Re-loading after index files were added or removed
gives the same lookups as a fresh load.

Theorems about `Restic.Model.Index` (transcription of `index.go` / `master_index.go` over the
abstract `indexMap` of C56). They are partial-correctness statements: *whenever the operation
returns `ok`* (i.e. no Go error — more than `2^32-1` packs — and no panic — a value beyond
`uint32` in a file), the result is as stated, for every order in which the files are delivered,
every content (duplicates of a blob in several packs, exact duplicate entries, the same pack in
several files) and every history of listings. File ids are content hashes: one id denotes one
content (`content : ID → IndexFile`), which is the explicit no-collision hypothesis.
-/
namespace Restic.Props.C08
open Restic.Model.IndexMap (ID Val)
open Restic.Model.Index Restic.Proofs.C08

/-! ### T1: constants -/
theorem cryptoExtension_eq : cryptoExtension = 32 := by decide

/-- T1 (regenerated from master_index.go / index.go): `Load` prepares the incremental load, then
    loads and inserts the missing files, then merges; `prepareIncrementalLoad` compares the loaded
    ids with the listing and clears; `merge` tests `hasIdenticalEntry` before it adds -/
theorem load_call_order :
    Restic.Gen.MasterIndex_Load_calls.idxOf "mi.prepareIncrementalLoad" < Restic.Gen.MasterIndex_Load_calls.idxOf "mi.Insert"
    ∧ Restic.Gen.MasterIndex_Load_calls.idxOf "mi.Insert" < Restic.Gen.MasterIndex_Load_calls.idxOf "mi.MergeFinalIndexes"
    ∧ Restic.Gen.MasterIndex_Load_calls.getLast? = some "mi.MergeFinalIndexes"
    ∧ "loadedIDs.Sub" ∈ Restic.Gen.prepareIncrementalLoad_calls ∧ "mi.clear" ∈ Restic.Gen.prepareIncrementalLoad_calls
    ∧ Restic.Gen.Index_merge_calls.idxOf "hasIdenticalEntry" < Restic.Gen.Index_merge_calls.idxOf "m.add" := by decide

/-! ### encode / decode -/

/-- **encode_decode_entries**: encoding an index and decoding the document again preserves every
    entry, as a multiset -/
theorem encode_decode_entries {idx idx' : Index} {f : IndexFile} {id : ID}
    (he : idx.encode = .ok f) (hd : decodeIndex f id = .ok idx') :
    (entries idx').Perm (entries idx) ∧ WFIdx idx' ∧ idx'.values = .ok (entries idx') := by
  obtain ⟨wf, _, _, hp⟩ := decodeIndex_spec hd
  exact ⟨hp.trans (encode_spec he), wf, values_ok wf⟩

/-- the decoded index lists exactly what the file records -/
theorem decode_entries {f : IndexFile} {id : ID} {idx : Index} (hd : decodeIndex f id = .ok idx) :
    ∃ L, idx.values = .ok L ∧ L.Perm (fileEntries f) := by
  obtain ⟨wf, _, _, hp⟩ := decodeIndex_spec hd
  exact ⟨_, values_ok wf, hp⟩

/-! ### loading -/

section
variable (content : ID → IndexFile)

/-- an index decoded from the file `id` -/
structure Decoded (i : Index) : Prop where
  wf : WFIdx i
  final : i.final = true
  src : ∃ id, i.ids = [id] ∧ ∀ e, e ∈ entries i ↔ e ∈ fileEntries (content id)

/-- state of a master index between loads: everything is merged into `idx[0]`, which holds
    exactly the entries of the files whose ids it lists -/
structure Consistent (mi : MasterIndex) : Prop where
  wf : WFIdx mi.first
  final : mi.first.final = true
  rest : mi.rest = []
  ent : ∀ e, e ∈ entries mi.first ↔ ∃ id, id ∈ mi.first.ids ∧ e ∈ fileEntries (content id)
  /-- no blob is pending: `LookupSize` answers from the index files only -/
  pending : mi.pending = []

/-- a state from which a load gives the right result: `idx[0]` is as in `Consistent`, the other
    indexes are at most leftovers of an aborted load (final, with an id); any blobs may be pending
    (`AddPending` of an upload that was aborted before its pack reached the index) -/
structure Reloadable (mi : MasterIndex) : Prop where
  wf : WFIdx mi.first
  final : mi.first.final = true
  ent : ∀ e, e ∈ entries mi.first ↔ ∃ id, id ∈ mi.first.ids ∧ e ∈ fileEntries (content id)
  rest : ∀ i, i ∈ mi.rest → (!i.final || i.ids.isEmpty) = false

theorem Consistent.reloadable {mi : MasterIndex} (hc : Consistent content mi) : Reloadable content mi :=
  ⟨hc.wf, hc.final, hc.ent, fun i hi => by rw [hc.rest] at hi; cases hi⟩

/-- an aborted load (some files decoded and inserted, then an error before the merge) leaves a
    reloadable state -/
theorem Reloadable.insert {mi : MasterIndex} (hr : Reloadable content mi) {f : IndexFile} {id : ID} {idx : Index}
    (hd : decodeIndex f id = .ok idx) : Reloadable content (mi.insert idx) := by
  obtain ⟨_, hfin, hids, _⟩ := decodeIndex_spec hd
  refine ⟨hr.wf, hr.final, hr.ent, ?_⟩
  intro i hi
  simp only [MasterIndex.insert, List.mem_append, List.mem_singleton] at hi
  rcases hi with hi | rfl
  · exact hr.rest i hi
  · simp [hfin, hids]

theorem new_consistent : Consistent content MasterIndex.new :=
  ⟨⟨fun _ h => by simp [MasterIndex.new, Index.new] at h, fun _ h => by simp [MasterIndex.new, Index.new] at h⟩,
    rfl, rfl, fun e => by simp [MasterIndex.new, entries, entriesOf, Index.new], rfl⟩

/-- the listing agrees with the content function (ids are content addresses) -/
def Agrees (fs : List (ID × Option IndexFile)) : Prop := ∀ id f, (id, some f) ∈ fs → f = content id

theorem loadFiles_spec (loaded : List ID) : ∀ (fs : List (ID × Option IndexFile)) (mi mi' : MasterIndex),
    Agrees content fs → loadFiles loaded fs mi = .ok mi' →
    mi'.first = mi.first ∧ mi'.pending = mi.pending ∧ ∃ news, mi'.rest = mi.rest ++ news ∧ (∀ i, i ∈ news → Decoded content i) ∧
      ∀ id, (∃ i, i ∈ news ∧ id ∈ i.ids) ↔ (id ∈ fs.map (·.1) ∧ id ∉ loaded)
  | [], mi, mi', _, h => by
    simp only [loadFiles, Out.ok.injEq] at h
    subst h
    exact ⟨rfl, rfl, [], by simp, by simp, by simp⟩
  | (id, f) :: fs, mi, mi', ha, h => by
    have ha' : Agrees content fs := fun i g hm => ha i g (List.mem_cons_of_mem _ hm)
    unfold loadFiles at h
    split at h
    · rename_i hl
      have hl' : id ∈ loaded := by simpa using hl
      obtain ⟨h1, hp, news, h2, h3, h4⟩ := loadFiles_spec loaded fs mi mi' ha' h
      refine ⟨h1, hp, news, h2, h3, ?_⟩
      intro x
      rw [h4 x]
      simp only [List.map_cons, List.mem_cons]
      constructor
      · rintro ⟨a, b⟩; exact ⟨Or.inr a, b⟩
      · rintro ⟨a | a, b⟩
        · subst a; exact absurd hl' b
        · exact ⟨a, b⟩
    · rename_i hl
      have hl' : id ∉ loaded := by simpa using hl
      cases f with
      | none => simp at h
      | some f =>
        simp only [bind_eq_ok] at h
        obtain ⟨idx, hd, h⟩ := h
        have hf : f = content id := ha id f (List.mem_cons_self ..)
        obtain ⟨wf, hfin, hids, hp⟩ := decodeIndex_spec hd
        have hdec : Decoded content idx := ⟨wf, hfin, id, hids, fun e => by rw [← hf]; exact hp.mem_iff⟩
        obtain ⟨h1, hp, news, h2, h3, h4⟩ := loadFiles_spec loaded fs (mi.insert idx) mi' ha' h
        refine ⟨h1, hp, idx :: news, by rw [h2]; simp [MasterIndex.insert], ?_, ?_⟩
        · intro i hi
          rcases List.mem_cons.mp hi with rfl | hi
          · exact hdec
          · exact h3 i hi
        · intro x
          simp only [List.map_cons, List.mem_cons]
          constructor
          · rintro ⟨i, hi | hi, hx⟩
            · subst hi; rw [hids] at hx; simp at hx; subst hx; exact ⟨Or.inl rfl, hl'⟩
            · have := (h4 x).mp ⟨i, hi, hx⟩; exact ⟨Or.inr this.1, this.2⟩
          · rintro ⟨hx | hx, hn⟩
            · exact ⟨idx, Or.inl rfl, by rw [hids, hx]; simp⟩
            · obtain ⟨i, hi, hxi⟩ := (h4 x).mpr ⟨hx, hn⟩
              exact ⟨i, Or.inr hi, hxi⟩

theorem mergeLoop_spec : ∀ (is : List Index) (first first' : Index) (keep keep' : List Index),
    WFIdx first → (∀ i, i ∈ is → Decoded content i) → mergeLoop is first keep = .ok (first', keep') →
    keep' = keep ∧ WFIdx first' ∧ first'.final = first.final ∧
      (∀ id, id ∈ first'.ids ↔ id ∈ first.ids ∨ ∃ i, i ∈ is ∧ id ∈ i.ids) ∧
      (∀ t, ∃ s, first'.byType t = first.byType t ++ s) ∧
      ∀ e, e ∈ entries first' ↔ e ∈ entries first ∨ ∃ i, i ∈ is ∧ e ∈ entries i
  | [], first, first', keep, keep', wf, _, h => by
    simp only [mergeLoop, Out.ok.injEq, Prod.mk.injEq] at h
    obtain ⟨h1, h2⟩ := h
    subst h1 h2
    exact ⟨rfl, wf, rfl, by simp, fun t => ⟨[], by simp⟩, by simp⟩
  | i :: is, first, first', keep, keep', wf, hdec, h => by
    have hi := hdec i (List.mem_cons_self ..)
    obtain ⟨id, hids, _⟩ := hi.src
    unfold mergeLoop at h
    have hc : (!i.final || i.ids.isEmpty) = false := by simp [hi.final, hids]
    simp only [hc, Bool.false_eq_true, if_false, bind_eq_ok] at h
    obtain ⟨first1, hm, h⟩ := h
    obtain ⟨wf1, hf1, hi1, hx1, he1⟩ := merge_spec wf hi.wf hm
    obtain ⟨k, wf2, hf2, hi2, hx2, he2⟩ :=
      mergeLoop_spec is first1 first' keep keep' wf1 (fun j hj => hdec j (List.mem_cons_of_mem _ hj)) h
    refine ⟨k, wf2, by rw [hf2, hf1], ?_, ?_, ?_⟩
    · intro x
      rw [hi2 x, hi1]
      simp only [List.mem_append, List.mem_cons]
      constructor
      · rintro ((a | a) | ⟨j, hj, a⟩)
        · exact Or.inl a
        · exact Or.inr ⟨i, Or.inl rfl, a⟩
        · exact Or.inr ⟨j, Or.inr hj, a⟩
      · rintro (a | ⟨j, rfl | hj, a⟩)
        · exact Or.inl (Or.inl a)
        · exact Or.inl (Or.inr a)
        · exact Or.inr ⟨j, hj, a⟩
    · intro t
      obtain ⟨s1, e1⟩ := hx1 t
      obtain ⟨s2, e2⟩ := hx2 t
      exact ⟨s1 ++ s2, by rw [e2, e1]; simp⟩
    · intro e
      rw [he2 e, he1 e]
      simp only [List.mem_cons]
      constructor
      · rintro ((a | a) | ⟨j, hj, a⟩)
        · exact Or.inl a
        · exact Or.inr ⟨i, Or.inl rfl, a⟩
        · exact Or.inr ⟨j, Or.inr hj, a⟩
      · rintro (a | ⟨j, rfl | hj, a⟩)
        · exact Or.inl (Or.inl a)
        · exact Or.inl (Or.inr a)
        · exact Or.inr ⟨j, hj, a⟩

/-- **Load** (fresh or incremental): afterwards the master index is consistent and holds exactly
    the files of the listing, whatever it held before -/
theorem load_spec {mi mi' : MasterIndex} {fs : List (ID × Option IndexFile)} (hc : Reloadable content mi)
    (ha : Agrees content fs) (h : mi.load fs = .ok mi') :
    Consistent content mi' ∧ (∀ id, id ∈ mi'.first.ids ↔ id ∈ fs.map (·.1)) ∧
      (∀ e, e ∈ entries mi'.first ↔ ∃ id, id ∈ fs.map (·.1) ∧ e ∈ fileEntries (content id)) := by
  simp only [MasterIndex.load, bind_eq_ok] at h
  obtain ⟨⟨mi0, loaded⟩, hprep, mi1, hload, hmerge⟩ := h
  -- after prepareIncrementalLoad: a consistent index whose ids are all still listed
  have hprep' : Consistent content mi0 ∧ loaded = mi0.first.ids ∧ ∀ id, id ∈ loaded → id ∈ fs.map (·.1) := by
    simp only [MasterIndex.prepareIncrementalLoad] at hprep
    split at hprep
    · cases hprep
    · split at hprep
      · simp only [Out.ok.injEq, Prod.mk.injEq] at hprep
        obtain ⟨e1, e2⟩ := hprep
        subst e1 e2
        exact ⟨new_consistent content, rfl, by simp⟩
      · rename_i hall
        simp only [Out.ok.injEq, Prod.mk.injEq] at hprep
        obtain ⟨e1, e2⟩ := hprep
        subst e1 e2
        have hnil : mi.rest.filter (fun i => !i.final || i.ids.isEmpty) = [] := by
          rw [List.filter_eq_nil_iff]
          intro i hi
          rw [hc.rest i hi]; simp
        refine ⟨⟨hc.wf, hc.final, hnil, hc.ent, rfl⟩, rfl, ?_⟩
        intro id hid
        simp only [List.any_eq_true, Bool.not_eq_true', not_exists, not_and] at hall
        have := hall id hid
        simpa using this
  obtain ⟨hc0, hl, hsub⟩ := hprep'
  obtain ⟨hfirst, hpend, news, hrest, hdec, hnews⟩ := loadFiles_spec content loaded fs mi0 mi1 ha hload
  simp only [MasterIndex.mergeFinalIndexes, bind_eq_ok] at hmerge
  obtain ⟨⟨first', keep⟩, hml, hmi'⟩ := hmerge
  simp only [Out.ok.injEq] at hmi'
  subst hmi'
  rw [hrest, hc0.rest, List.nil_append, hfirst] at hml
  obtain ⟨hk, wf', hf', hids', _, hent'⟩ := mergeLoop_spec content news mi0.first first' [] keep hc0.wf hdec hml
  have hidset : ∀ id, id ∈ first'.ids ↔ id ∈ fs.map (·.1) := by
    intro id
    rw [hids' id, hnews id, ← hl]
    constructor
    · rintro (a | ⟨a, _⟩)
      · exact hsub id a
      · exact a
    · intro a
      by_cases hin : id ∈ loaded
      · exact Or.inl hin
      · exact Or.inr ⟨a, hin⟩
  have hentset : ∀ e, e ∈ entries first' ↔ ∃ id, id ∈ first'.ids ∧ e ∈ fileEntries (content id) := by
    intro e
    rw [hent' e, hc0.ent e]
    constructor
    · rintro (⟨id, hid, he⟩ | ⟨i, hi, he⟩)
      · exact ⟨id, (hids' id).mpr (Or.inl hid), he⟩
      · obtain ⟨id, hids, hsrc⟩ := (hdec i hi).src
        exact ⟨id, (hids' id).mpr (Or.inr ⟨i, hi, by rw [hids]; simp⟩), (hsrc e).mp he⟩
    · rintro ⟨id, hid, he⟩
      rcases (hids' id).mp hid with a | ⟨i, hi, a⟩
      · exact Or.inl ⟨id, a, he⟩
      · obtain ⟨id', hids, hsrc⟩ := (hdec i hi).src
        rw [hids] at a; simp at a; subst a
        exact Or.inr ⟨i, hi, (hsrc e).mpr he⟩
  refine ⟨⟨wf', by rw [hf']; exact hc0.final, hk, hentset, by simp only; rw [hpend]; exact hc0.pending⟩, hidset, ?_⟩
  intro e
  rw [hentset e]
  constructor
  · rintro ⟨id, hid, he⟩; exact ⟨id, (hidset id).mp hid, he⟩
  · rintro ⟨id, hid, he⟩; exact ⟨id, (hidset id).mpr hid, he⟩

/-- lookups in a consistent master index -/
theorem lookup_consistent {mi : MasterIndex} (hc : Consistent content mi) (h : Handle) :
    ∃ L, mi.lookup h = .ok L ∧ ∀ e, e ∈ L ↔ e ∈ entries mi.first ∧ e.handle = h := by
  obtain ⟨L, hL, hm⟩ := lookup_mem hc.wf h
  refine ⟨L, ?_, hm⟩
  simp [MasterIndex.lookup, MasterIndex.idx, hc.rest, lookupAll, hL, Out.bind]

theorem values_consistent {mi : MasterIndex} (hc : Consistent content mi) :
    mi.values = .ok (entries mi.first) := by
  simp [MasterIndex.values, MasterIndex.idx, hc.rest, valuesAll, values_ok hc.wf, Out.bind]

end

/-! ### the property, for listings of decodable files -/

/-- the listing of a set of decodable files -/
def listing (files : List (ID × IndexFile)) : List (ID × Option IndexFile) := files.map fun f => (f.1, some f.2)

/-- ids are content addresses: one id, one content -/
def Functional (files : List (ID × IndexFile)) (content : ID → IndexFile) : Prop :=
  ∀ id f, (id, f) ∈ files → content id = f

theorem agrees_listing {files : List (ID × IndexFile)} {content : ID → IndexFile} (hf : Functional files content) :
    Agrees content (listing files) := by
  intro id f hm
  simp only [listing, List.mem_map, Prod.mk.injEq, Option.some.injEq] at hm
  obtain ⟨⟨i, g⟩, hg, rfl, rfl⟩ := hm
  exact (hf _ _ hg).symm

theorem mem_allEntries {files : List (ID × IndexFile)} {content : ID → IndexFile} (hf : Functional files content)
    (e : PackedBlob) :
    e ∈ allEntries files ↔ ∃ id, id ∈ (listing files).map (·.1) ∧ e ∈ fileEntries (content id) := by
  simp only [allEntries, List.mem_flatMap, listing, List.map_map, List.mem_map, Function.comp]
  constructor
  · rintro ⟨⟨id, f⟩, hm, he⟩
    exact ⟨id, ⟨(id, f), hm, rfl⟩, by rw [hf id f hm]; exact he⟩
  · rintro ⟨id, ⟨⟨id', f⟩, hm, rfl⟩, he⟩
    exact ⟨(id', f), hm, by rw [hf id' f hm] at he; exact he⟩

/-- **lookup_set**: after a (fresh or incremental) load of the listing of `files`, in any delivery
    order, a lookup returns exactly the pack locations recorded for the blob across all files, the
    listing of all blobs returns exactly all recorded entries, and the executable statement holds -/
theorem lookup_set {content : ID → IndexFile} {mi mi' : MasterIndex} {files : List (ID × IndexFile)}
    (hc : Reloadable content mi) (hf : Functional files content)
    (h : mi.load (listing files) = .ok mi') (bh : Handle) :
    (∃ L, mi'.lookup bh = .ok L ∧ (∀ e, e ∈ L ↔ e ∈ allEntries files ∧ e.handle = bh) ∧
      specLookup files bh L = true) ∧
    (∃ L, mi'.values = .ok L ∧ (∀ e, e ∈ L ↔ e ∈ allEntries files) ∧ specList files L = true) := by
  obtain ⟨hc', _, hent⟩ := load_spec content hc (agrees_listing hf) h
  have hall : ∀ e, e ∈ entries mi'.first ↔ e ∈ allEntries files := fun e => by
    rw [hent e, mem_allEntries hf e]
  constructor
  · obtain ⟨L, hL, hm⟩ := lookup_consistent content hc' bh
    have hm' : ∀ e, e ∈ L ↔ e ∈ allEntries files ∧ e.handle = bh := fun e => by rw [hm e, hall e]
    refine ⟨L, hL, hm', ?_⟩
    simp only [specLookup, sameSet, Bool.and_eq_true, List.all_eq_true, List.contains_iff_mem,
      List.mem_filter, beq_iff_eq]
    exact ⟨fun e he => (hm' e).mp he, fun e he => (hm' e).mpr he⟩
  · refine ⟨_, values_consistent content hc', hall, ?_⟩
    simp only [specList, sameSet, Bool.and_eq_true, List.all_eq_true, List.contains_iff_mem]
    exact ⟨fun e he => (hall e).mp he, fun e he => (hall e).mpr he⟩

/-- **incremental_eq_fresh**: a reload of an index that was loaded earlier (from any other set of
    files, also after an aborted load) answers every lookup with the same set as a fresh load of the current files -/
theorem incremental_eq_fresh {content : ID → IndexFile} {mi mi1 mi2 : MasterIndex} {files : List (ID × IndexFile)}
    (hc : Reloadable content mi) (hf : Functional files content)
    (h1 : mi.load (listing files) = .ok mi1) (h2 : MasterIndex.new.load (listing files) = .ok mi2) (bh : Handle) :
    ∃ L1 L2, mi1.lookup bh = .ok L1 ∧ mi2.lookup bh = .ok L2 ∧ ∀ e, e ∈ L1 ↔ e ∈ L2 := by
  obtain ⟨⟨L1, hL1, hm1, _⟩, _⟩ := lookup_set hc hf h1 bh
  obtain ⟨⟨L2, hL2, hm2, _⟩, _⟩ := lookup_set (new_consistent content).reloadable hf h2 bh
  exact ⟨L1, L2, hL1, hL2, fun e => by rw [hm1 e, hm2 e]⟩

/-- histories: successive successful loads of arbitrary listings (files added, superseded, deleted
    in between) keep the master index consistent -/
theorem history_consistent (content : ID → IndexFile) :
    ∀ (listings : List (List (ID × IndexFile))) (mi mi' : MasterIndex), Consistent content mi →
      (∀ files, files ∈ listings → Functional files content) →
      listings.foldl (fun (r : Out MasterIndex) files => r.bind fun m => m.load (listing files)) (.ok mi) = .ok mi' →
      Consistent content mi'
  | [], mi, mi', hc, _, h => by
    simp only [List.foldl_nil, Out.ok.injEq] at h; subst h; exact hc
  | files :: rest, mi, mi', hc, hf, h => by
    simp only [List.foldl_cons, Out.bind] at h
    cases hl : mi.load (listing files) with
    | ok m1 =>
      rw [hl] at h
      have hc1 := (load_spec content hc.reloadable (agrees_listing (hf files (List.mem_cons_self ..))) hl).1
      exact history_consistent content rest m1 mi' hc1 (fun f hm => hf f (List.mem_cons_of_mem _ hm)) h
    | err m =>
      rw [hl] at h
      exfalso
      clear hl hc hf
      induction rest with
      | nil => simp at h
      | cons a rest ih => simp only [List.foldl_cons, Out.bind] at h; exact ih h
    | panic m =>
      rw [hl] at h
      exfalso
      clear hl hc hf
      induction rest with
      | nil => simp at h
      | cons a rest ih => simp only [List.foldl_cons, Out.bind] at h; exact ih h

/-- the first phase of a load keeps the state reloadable (so does every insertion of a decoded
    file, `Reloadable.insert`): whatever point an aborted load reaches, the next load is correct -/
theorem prepare_reloadable {content : ID → IndexFile} {mi mi0 : MasterIndex} {listed loaded : List ID}
    (hr : Reloadable content mi) (h : mi.prepareIncrementalLoad listed = .ok (mi0, loaded)) :
    Reloadable content mi0 := by
  simp only [MasterIndex.prepareIncrementalLoad] at h
  split at h
  · cases h
  · split at h
    · simp only [Out.ok.injEq, Prod.mk.injEq] at h
      obtain ⟨e1, _⟩ := h
      subst e1
      exact (new_consistent content).reloadable
    · simp only [Out.ok.injEq, Prod.mk.injEq] at h
      obtain ⟨e1, _⟩ := h
      subst e1
      exact ⟨hr.wf, hr.final, hr.ent, fun i hi => hr.rest i (List.mem_filter.mp hi).1⟩

/-- negation witness for the code before `fix/C08-stale-index-after-aborted-load` (finding): an
    index inserted by an aborted load and not dropped is merged by the next load although its file
    is gone — here the listing is empty and the lookup still answers -/
example : ∃ idx mi, decodeIndex [([0xa1], [⟨.data, [1], 0, 40, 0⟩])] [0xe1] = .ok idx ∧
    (MasterIndex.new.insert idx).mergeFinalIndexes = .ok mi ∧
    mi.lookup ⟨.data, [1]⟩ = .ok [⟨[0xa1], ⟨.data, [1], 0, 40, 0⟩⟩] ∧
    allEntries [] = [] := ⟨_, _, rfl, rfl, rfl, rfl⟩

/-- the fixed `Load` drops it -/
example : ∃ idx mi, decodeIndex [([0xa1], [⟨.data, [1], 0, 40, 0⟩])] [0xe1] = .ok idx ∧
    (MasterIndex.new.insert idx).load [] = .ok mi ∧ mi.lookup ⟨.data, [1]⟩ = .ok [] := ⟨_, _, rfl, rfl, rfl⟩

/-! ### `LookupSize` -/

/-- the size `LookupSize` derives from a recorded entry -/
def pbSize (e : PackedBlob) : Nat := entrySize ⟨e.blob.id, 0, e.blob.offset, e.blob.length, e.blob.ulen⟩

theorem pbSize_of_resolve {packs : List ID} {t : BlobType} {v : Val} {e : PackedBlob}
    (h : toPackedBlob packs t v = some e) : pbSize e = entrySize v := by
  unfold toPackedBlob at h
  cases hp : packs[v.packIndex]? with
  | none => simp [hp] at h
  | some p => simp [hp] at h; subst h; simp [pbSize, entrySize]

/-- in a consistent master index the candidates of `LookupSize` are exactly the sizes of the entries
    recorded for the blob (found iff recorded) -/
theorem lookupSize_consistent {content : ID → IndexFile} {mi : MasterIndex} (hc : Consistent content mi) (h : Handle)
    (n : Nat) : n ∈ mi.lookupSizeCandidates h ↔ ∃ e, e ∈ entries mi.first ∧ e.handle = h ∧ n = pbSize e := by
  have hcand : mi.lookupSizeCandidates h = mi.first.lookupSizeCandidates h := by
    unfold MasterIndex.lookupSizeCandidates
    have hp : pendingSize mi.pending h = none := by rw [hc.pending]; rfl
    simp only [hp, MasterIndex.idx, hc.rest, List.find?_cons, List.find?_nil]
    cases hh : mi.first.has h with
    | true => rfl
    | false =>
      simp only [Index.lookupSizeCandidates]
      have : (mi.first.byType h.type).filter (fun v => v.id == h.id) = [] := by
        rw [List.filter_eq_nil_iff]
        intro v hv
        simp only [Index.has, List.any_eq_false] at hh
        exact hh v hv
      simp [this]
  rw [hcand]
  obtain ⟨L, hL, hm⟩ := lookup_mem hc.wf h
  simp only [Index.lookupSizeCandidates, List.mem_map, List.mem_filter]
  have hv := hc.wf.byType h.type
  constructor
  · rintro ⟨v, ⟨hvm, hid⟩, rfl⟩
    have hlt := hv v hvm
    have hr : toPackedBlob mi.first.packs h.type v = some ⟨mi.first.packs[v.packIndex], ⟨h.type, v.id, v.offset, v.length, v.ulen⟩⟩ := by
      simp [toPackedBlob, List.getElem?_eq_getElem hlt]
    refine ⟨_, ?_, ?_, (pbSize_of_resolve hr).symm⟩
    · simp only [entries, List.mem_append, mem_entriesOf]
      cases ht : h.type with
      | data => left; rw [ht] at hvm hr; exact ⟨v, hvm, hr⟩
      | tree => right; rw [ht] at hvm hr; exact ⟨v, hvm, hr⟩
    · cases h; simp only [PackedBlob.handle, Handle.mk.injEq, true_and]; simpa using hid
  · rintro ⟨e, he, hh, rfl⟩
    simp only [entries, List.mem_append, mem_entriesOf] at he
    have hh' : e.blob.type = h.type ∧ e.blob.id = h.id := by rw [← hh]; exact ⟨rfl, rfl⟩
    rcases he with ⟨v, hvm, hr⟩ | ⟨v, hvm, hr⟩
    · obtain ⟨ht, hi⟩ := toPackedBlob_blob hr
      have : h.type = .data := by rw [← hh'.1, ht]
      rw [this]
      exact ⟨v, ⟨hvm, by rw [← hi, hh'.2]; simp⟩, (pbSize_of_resolve hr).symm⟩
    · obtain ⟨ht, hi⟩ := toPackedBlob_blob hr
      have : h.type = .tree := by rw [← hh'.1, ht]
      rw [this]
      exact ⟨v, ⟨hvm, by rw [← hi, hh'.2]; simp⟩, (pbSize_of_resolve hr).symm⟩

/-- announcing a pending blob (`AddPending`, e.g. by an upload that is aborted later) keeps the state
    reloadable: the next load forgets it (`clearPendingBlobs`) -/
theorem addPending_reloadable {content : ID → IndexFile} {mi : MasterIndex} (hr : Reloadable content mi)
    (h : Handle) (size : Nat) : Reloadable content (mi.addPending h size).1 := by
  unfold MasterIndex.addPending
  split
  · exact hr
  · split
    · exact hr
    · exact ⟨hr.wf, hr.final, hr.ent, hr.rest⟩

/-- **incremental_eq_fresh for `LookupSize`**: after a reload from any reloadable state — pending
    blobs of aborted uploads included — `LookupSize` has exactly the candidates of a fresh load: the
    sizes of the entries the index files record for the blob (none for a blob in no index file) -/
theorem lookupSize_reload_eq_fresh {content : ID → IndexFile} {mi mi1 mi2 : MasterIndex} {files : List (ID × IndexFile)}
    (hc : Reloadable content mi) (hf : Functional files content)
    (h1 : mi.load (listing files) = .ok mi1) (h2 : MasterIndex.new.load (listing files) = .ok mi2) (bh : Handle)
    (n : Nat) :
    (n ∈ mi1.lookupSizeCandidates bh ↔ n ∈ mi2.lookupSizeCandidates bh) ∧
    (n ∈ mi1.lookupSizeCandidates bh ↔ ∃ e, e ∈ allEntries files ∧ e.handle = bh ∧ n = pbSize e) := by
  obtain ⟨c1, _, e1⟩ := load_spec content hc (agrees_listing hf) h1
  obtain ⟨c2, _, e2⟩ := load_spec content (new_consistent content).reloadable (agrees_listing hf) h2
  have k1 : n ∈ mi1.lookupSizeCandidates bh ↔ ∃ e, e ∈ allEntries files ∧ e.handle = bh ∧ n = pbSize e := by
    rw [lookupSize_consistent c1]
    constructor
    · rintro ⟨e, he, r⟩; exact ⟨e, (mem_allEntries hf e).mpr ((e1 e).mp he), r⟩
    · rintro ⟨e, he, r⟩; exact ⟨e, (e1 e).mpr ((mem_allEntries hf e).mp he), r⟩
  have k2 : n ∈ mi2.lookupSizeCandidates bh ↔ ∃ e, e ∈ allEntries files ∧ e.handle = bh ∧ n = pbSize e := by
    rw [lookupSize_consistent c2]
    constructor
    · rintro ⟨e, he, r⟩; exact ⟨e, (mem_allEntries hf e).mpr ((e2 e).mp he), r⟩
    · rintro ⟨e, he, r⟩; exact ⟨e, (e2 e).mpr ((mem_allEntries hf e).mp he), r⟩
  exact ⟨by rw [k1, k2], k1⟩

/-- non-vacuity: a pending blob is reported by `LookupSize` before, and forgotten after a reload -/
example : ∃ mi, ((MasterIndex.new.addPending ⟨.data, [9]⟩ 35).1.lookupSizeCandidates ⟨.data, [9]⟩ = [35]) ∧
    (MasterIndex.new.addPending ⟨.data, [9]⟩ 35).1.load [] = .ok mi ∧ mi.lookupSizeCandidates ⟨.data, [9]⟩ = [] :=
  ⟨_, rfl, rfl, rfl⟩

/-- `MergeFinalIndexes` only appends to the maps of `idx[0]`: positions handed out by
    `blobIndex` (C48) never change -/
theorem mergeFinal_extends {content : ID → IndexFile} {mi mi' : MasterIndex} (hwf : WFIdx mi.first)
    (hdec : ∀ i, i ∈ mi.rest → Decoded content i) (h : mi.mergeFinalIndexes = .ok mi') :
    ∀ t, ∃ s, mi'.first.byType t = mi.first.byType t ++ s := by
  simp only [MasterIndex.mergeFinalIndexes, bind_eq_ok] at h
  obtain ⟨⟨first', keep⟩, hml, hmi'⟩ := h
  simp only [Out.ok.injEq] at hmi'
  subst hmi'
  exact (mergeLoop_spec content _ _ _ _ _ hwf hdec hml).2.2.2.2.1

/-! ### non-vacuity (examples): a blob recorded in two packs of two files, one exact duplicate -/

def exBlob : Blob := ⟨.data, [1], 0, 40, 0⟩
def exFiles : List (ID × IndexFile) :=
  [([0xe1], [([0xa1], [exBlob, ⟨.tree, [2], 40, 50, 0⟩])]),
   ([0xe2], [([0xa2], [exBlob]), ([0xa1], [exBlob])])]
def exContent (id : ID) : IndexFile := if id = [0xe1] then exFiles[0]!.2 else exFiles[1]!.2

example : Functional exFiles exContent := by
  intro id f hm
  simp only [exFiles, List.mem_cons, Prod.mk.injEq, List.mem_nil_iff, or_false] at hm
  rcases hm with ⟨rfl, rfl⟩ | ⟨rfl, rfl⟩ <;> decide

example : ∃ mi, MasterIndex.new.load (listing exFiles) = .ok mi ∧
    mi.lookup ⟨.data, [1]⟩ = .ok [⟨[0xa1], exBlob⟩, ⟨[0xa2], exBlob⟩] := ⟨_, rfl, rfl⟩

example : ∃ f idx', (Index.new.storePack [0xa1] [exBlob, exBlob]).bind Index.encode = .ok f ∧
    decodeIndex f [0xe1] = .ok idx' ∧ idx'.values = .ok [⟨[0xa1], exBlob⟩, ⟨[0xa1], exBlob⟩] := ⟨_, _, rfl, rfl, rfl⟩

end Restic.Props.C08
