import Restic.Model.Forget
import Restic.Props.C22
import Restic.Props.C24
import Restic.Gen.Source
/-!
# C23 — forget never removes a whole group and removes only what it reports

Theorems about `Restic.Model.Forget.runForget` (transcription of the decision logic of
`runForget`), built on C24 (selection, grouping) and C22 (`ApplyPolicy`).
-/
namespace Restic.Props.C23
open Restic.Model.Snapshots Restic.Model.Policy Restic.Model.Forget

/-- T1 (call order in the current source): `ApplyPolicy` and the "refusing to delete last snapshot"
    error come before the only removal call `restic.ParallelRemove` -/
theorem guard_before_remove :
    Restic.Gen.runForget_calls.idxOf "data.ApplyPolicy" < Restic.Gen.runForget_calls.idxOf "fmt.Errorf" ∧
    Restic.Gen.runForget_calls.idxOf "fmt.Errorf" < Restic.Gen.runForget_calls.idxOf "restic.ParallelRemove" ∧
    Restic.Gen.runForget_calls.idxOf "policy.Empty" < Restic.Gen.runForget_calls.idxOf "restic.ParallelRemove" ∧
    Restic.Gen.runForget_calls.count "restic.ParallelRemove" = 1 ∧
    "repo.RemoveUnpacked" ∉ Restic.Gen.runForget_calls := by decide

/-! ## the removal step -/

theorem dedup_mem (l : List Nat) (n : Nat) : n ∈ dedup l ↔ n ∈ l := by
  induction l with
  | nil => simp [dedup]
  | cons x xs ih =>
    unfold dedup
    split
    · rename_i hc
      rw [ih]
      constructor
      · exact List.mem_cons_of_mem _
      · intro h
        rcases List.mem_cons.mp h with h | h
        · subst h; simpa using hc
        · exact h
    · simp [ih]

theorem removal_removed_mem (o : Opts) (failing : List Nat) (gs : List GroupReport) (rs : List Nat) (n : Nat)
    (h : n ∈ (removal o failing gs rs).removed) : n ∈ rs := by
  unfold removal at h
  split at h
  · simp at h
  · simp only [List.mem_filter] at h; exact h.1

theorem removal_dry (o : Opts) (failing : List Nat) (gs : List GroupReport) (rs : List Nat)
    (h : o.dryRun = true) : (removal o failing gs rs).removed = [] := by
  simp [removal, h]

theorem removal_ok (o : Opts) (failing : List Nat) (gs : List GroupReport) (rs : List Nat)
    (hd : o.dryRun = false) (h : (removal o failing gs rs).outcome = .ok) :
    (removal o failing gs rs).removed = rs := by
  simp only [removal, hd, Bool.false_eq_true, if_false] at h ⊢
  split at h
  · rename_i hl
    simp only [beq_iff_eq] at hl
    exact List.filter_eq_self.mpr (List.length_filter_eq_length_iff.mp hl)
  · cases h

theorem removal_groups (o : Opts) (failing : List Nat) (gs : List GroupReport) (rs : List Nat) :
    (removal o failing gs rs).groups = gs ∧ (removal o failing gs rs).removeSet = rs := by
  unfold removal; split <;> simp

theorem removal_outcome (o : Opts) (failing : List Nat) (gs : List GroupReport) (rs : List Nat) :
    (removal o failing gs rs).outcome = .ok ∨ (removal o failing gs rs).outcome = .error "remove-failed" := by
  unfold removal
  split
  · exact Or.inl rfl
  · simp only; split
    · exact Or.inl rfl
    · exact Or.inr rfl

/-! ## shape of a run -/

/-- a run either aborts before the removal step (nothing reported, nothing removed) or reaches it
    with explicit ids (`ids`) or with the per-group reports of the policy -/
inductive Shape (sub : Int → Dur → Int) (now : Int) (visit : List PSnap) (latestRes : Option Snap)
    (failing : List Nat) (o : Opts) : Run → Prop where
  | aborted (oc : Outcome) (h : oc ≠ .ok) (h' : oc ≠ .error "remove-failed") :
      Shape sub now visit latestRes failing o (abort oc)
  | ids (hargs : o.args ≠ [])
      (hne : ∀ e ∈ findAllIds o.filter latestRes o.args, ∀ k, e ≠ .err k) :
      Shape sub now visit latestRes failing o
        (removal o failing [] (dedup (snapIds (findAllIds o.filter latestRes o.args))))
  | policy (hargs : o.args = [])
      (hguard : ¬ (o.policy.empty = true ∧ ¬ (o.unsafeAllowRemoveAll = true ∧ o.filter.empty = false)))
      (reports : List GroupReport)
      (hrep : ∀ g ∈ groupP o.groupBy (visit.filter fun s => o.filter.matches s.sn),
        ∃ r ∈ reports, groupDecision sub now o.policy g.2 = some r)
      (hrep' : ∀ r ∈ reports, ∃ g ∈ groupP o.groupBy (visit.filter fun s => o.filter.matches s.sn),
        groupDecision sub now o.policy g.2 = some r) :
      Shape sub now visit latestRes failing o (removal o failing reports (dedup (reports.flatMap (·.remove))))

theorem runForget_shape (sub : Int → Dur → Int) (now : Int) (visit : List PSnap) (latestRes : Option Snap)
    (failing : List Nat) (o : Opts) :
    Shape sub now visit latestRes failing o (runForget sub now visit latestRes failing o) := by
  unfold runForget
  split
  · exact .aborted _ (by simp) (by simp)
  · split
    · exact .aborted _ (by simp) (by simp)
    · split
      · rename_i hargs
        have hargs' : o.args ≠ [] := by
          intro e; simp [e] at hargs
        simp only
        split
        · exact .aborted _ (by simp) (by
            rename_i k hfind
            intro e
            injection e with e
            subst e
            -- "remove-failed" is not an error kind of findAllIds
            have hm := List.mem_of_find?_eq_some hfind
            have : ∀ (lr : Option Snap) (args : List Arg) (st : IdsState),
                (Ev.err "remove-failed" ∉ st.out) → Ev.err "remove-failed" ∉ (args.foldl (idsStep lr) st).out := by
              intro lr args
              induction args with
              | nil => intro st h; exact h
              | cons a rest ih =>
                intro st h
                apply ih
                cases a with
                | latest =>
                  simp only [idsStep]
                  split
                  · exact h
                  · cases lr <;> simp [h]
                | latestSub => simp [idsStep, h]
                | unknown => simp [idsStep, h]
                | id m sub' =>
                  simp only [idsStep]
                  split
                  · simp [h]
                  · split
                    · exact h
                    · simp [h]
            have h0 := this latestRes o.args {} (by simp)
            simp only [findAllIds] at hm
            split at hm
            · simp only [List.mem_append, List.mem_singleton] at hm
              rcases hm with hm | hm
              · exact h0 hm
              · exact absurd hm (by decide)
            · exact h0 hm)
        · rename_i hnone
          refine .ids hargs' ?_
          intro e he k hk
          subst hk
          rename_i x
          cases hf : (findAllIds o.filter latestRes o.args).find? (fun e => match e with | .err _ => true | _ => false) with
          | none =>
            have := List.find?_eq_none.mp hf (.err k) he
            simp at this
          | some y =>
            have hy := List.find?_some hf
            cases y with
            | snap n => simp at hy
            | err k' => exact hnone k' hf
      · rename_i hargs
        have hargs' : o.args = [] := by
          cases h : o.args with
          | nil => rfl
          | cons a b => simp [h] at hargs
        simp only
        split
        · exact .aborted _ (by simp) (by simp)
        · rename_i h1
          split
          · exact .aborted _ (by simp) (by simp)
          · rename_i h2
            split
            · exact .aborted _ (by simp) (by simp)
            · rename_i h3
              refine .policy hargs' ?_ _ ?_ ?_
              · rintro ⟨he, hn⟩
                simp only [he, Bool.true_and, Bool.not_eq_true', Bool.not_eq_eq_eq_not, Bool.not_true,
                  Bool.not_eq_false] at h1 h2
                exact hn ⟨h1, by simpa using h2⟩
              · intro g hg
                simp only [List.any_map, List.any_eq_true, Function.comp_def, not_exists, not_and,
                  Bool.not_eq_true, Option.isNone_eq_false_iff] at h3
                have := h3 g hg
                obtain ⟨r, hr⟩ := Option.isSome_iff_exists.mp this
                refine ⟨r, ?_, hr⟩
                simp only [List.mem_filterMap, List.mem_map, id_eq]
                exact ⟨some r, ⟨g, hg, hr⟩, rfl⟩
              · intro r hr
                simp only [List.mem_filterMap, List.mem_map, id_eq] at hr
                obtain ⟨x, ⟨g, hg, hx⟩, rfl⟩ := hr
                exact ⟨g, hg, hx⟩


section
variable {sub : Int → Dur → Int} {now : Int} {visit : List PSnap} {latestRes : Option Snap}
  {failing : List Nat} {o : Opts} {r : Run}

theorem shape_dry (hs : Shape sub now visit latestRes failing o r) (h : o.dryRun = true) : r.removed = [] := by
  cases hs with
  | aborted oc _ _ => rfl
  | ids _ _ => exact removal_dry _ _ _ _ h
  | policy _ _ reports _ _ => exact removal_dry _ _ _ _ h

theorem shape_abort (hs : Shape sub now visit latestRes failing o r)
    (h : r.outcome ≠ .ok) (h' : r.outcome ≠ .error "remove-failed") : r.removed = [] ∧ r.groups = [] := by
  cases hs with
  | aborted oc _ _ => exact ⟨rfl, rfl⟩
  | ids _ _ =>
    rcases removal_outcome o failing [] _ with e | e
    · exact absurd e h
    · exact absurd e h'
  | policy _ _ reports _ _ =>
    rcases removal_outcome o failing reports _ with e | e
    · exact absurd e h
    · exact absurd e h'

/-- what is removed was in the remove set; on success (no dry run) everything in it is removed -/
theorem shape_removed (hs : Shape sub now visit latestRes failing o r) :
    (∀ n ∈ r.removed, n ∈ r.removeSet) ∧
    (r.outcome = .ok → o.dryRun = false → r.removed = r.removeSet) := by
  cases hs with
  | aborted oc _ _ => exact ⟨by simp [abort], fun _ _ => rfl⟩
  | ids _ _ =>
    refine ⟨fun n hn => ?_, fun h hd => ?_⟩
    · rw [(removal_groups _ _ _ _).2]; exact removal_removed_mem _ _ _ _ n hn
    · rw [(removal_groups _ _ _ _).2]; exact removal_ok _ _ _ _ hd h
  | policy _ _ reports _ _ =>
    refine ⟨fun n hn => ?_, fun h hd => ?_⟩
    · rw [(removal_groups _ _ _ _).2]; exact removal_removed_mem _ _ _ _ n hn
    · rw [(removal_groups _ _ _ _).2]; exact removal_ok _ _ _ _ hd h

/-- policy mode: the remove set is exactly what the groups report as removed -/
theorem shape_reported (hs : Shape sub now visit latestRes failing o r) (hargs : o.args = []) (n : Nat) :
    n ∈ r.removeSet ↔ ∃ g ∈ r.groups, n ∈ g.remove := by
  cases hs with
  | aborted oc _ _ => simp [abort]
  | ids ha _ => exact absurd hargs ha
  | policy _ _ reports _ _ =>
    rw [(removal_groups _ _ _ _).1, (removal_groups _ _ _ _).2, dedup_mem]
    simp [List.mem_flatMap]

/-- explicit ids: the remove set is exactly the named snapshots plus the resolved `latest` -/
theorem shape_ids (hs : Shape sub now visit latestRes failing o r) (hargs : o.args ≠ []) (n : Nat) :
    (n ∈ r.removeSet → Arg.id n false ∈ o.args ∨ (Arg.latest ∈ o.args ∧ ∃ s, latestRes = some s ∧ s.id = n)) ∧
    (r.outcome = .ok ∨ r.outcome = .error "remove-failed" → Arg.id n false ∈ o.args → n ∈ r.removeSet) := by
  have key := Restic.Props.C24.findAllIds_spec o.filter latestRes o.args n
  have hmem : n ∈ dedup (snapIds (findAllIds o.filter latestRes o.args)) ↔
      Ev.snap n ∈ findAllIds o.filter latestRes o.args := by
    rw [dedup_mem, snapIds, List.mem_filterMap]
    constructor
    · rintro ⟨e, he, hn⟩
      cases e with
      | snap m => simp at hn; subst hn; exact he
      | err k => simp at hn
    · intro h; exact ⟨_, h, rfl⟩
  cases hs with
  | aborted oc h1 h2 =>
    refine ⟨by simp [abort], ?_⟩
    rintro (h | h)
    · exact absurd h h1
    · exact absurd h h2
  | ids _ _ =>
    rw [(removal_groups _ _ _ _).2, hmem]
    exact ⟨key.1, fun _ h => key.2 h⟩
  | policy ha _ reports _ _ => exact absurd ha hargs

/-- policy mode with a non-empty policy: every reported group keeps at least one snapshot -/
theorem shape_keep_nonempty (hs : Shape sub now visit latestRes failing o r) (hargs : o.args = [])
    (hp : o.policy.empty = false) : ∀ g ∈ r.groups, g.keep ≠ [] := by
  cases hs with
  | aborted oc _ _ => simp [abort]
  | ids ha _ => exact absurd hargs ha
  | policy _ _ reports _ hrep' =>
    rw [(removal_groups _ _ _ _).1]
    intro g hg
    obtain ⟨grp, _, hd⟩ := hrep' g hg
    unfold groupDecision at hd
    split at hd
    · cases hd
    · dsimp only at hd
      split at hd
      · cases hd
      · rename_i hcond
        injection hd with hd
        subst hd
        simp only [hp, Bool.not_false, Bool.true_and, Bool.not_eq_true, List.isEmpty_eq_false_iff] at hcond
        exact hcond

/-- the empty policy removes nothing unless `--unsafe-allow-remove-all` comes with a filter -/
theorem shape_empty_policy (hs : Shape sub now visit latestRes failing o r) (hargs : o.args = [])
    (hp : o.policy.empty = true) (hu : ¬ (o.unsafeAllowRemoveAll = true ∧ o.filter.empty = false)) :
    r.removed = [] ∧ r.outcome ≠ .ok := by
  cases hs with
  | aborted oc h _ => exact ⟨rfl, h⟩
  | ids ha _ => exact absurd hargs ha
  | policy _ hguard reports _ _ => exact absurd ⟨hp, hu⟩ hguard

end



theorem groupDecision_some (sub : Int → Dur → Int) (now : Int) (p : Policy) (grp : List PSnap) (rep : GroupReport)
    (h : groupDecision sub now p grp = some rep) :
    ∃ ds, applyPolicy sub now grp p = .ok ds ∧ rep.keep = (keepOf ds).map (·.sn.id) ∧
      rep.remove = (removeOf ds).map (·.sn.id) ∧ (p.empty = false → keepOf ds ≠ []) := by
  unfold groupDecision at h
  split at h
  · cases h
  · rename_i ds hds
    dsimp only at h
    split at h
    · cases h
    · rename_i hcond
      injection h with h
      subst h
      refine ⟨ds, hds, rfl, rfl, ?_⟩
      intro hp he
      simp [hp, he] at hcond

theorem nodup_of_map {α β} (f : α → β) (l : List α) (h : (l.map f).Nodup) : l.Nodup :=
  List.Pairwise.of_map f (fun _ _ hne e => hne (by rw [e])) h

theorem inj_of_nodup_map {α β} (f : α → β) (l : List α) (h : (l.map f).Nodup) :
    ∀ a ∈ l, ∀ b ∈ l, f a = f b → a = b := by
  induction l with
  | nil => intro a ha; cases ha
  | cons x xs ih =>
    simp only [List.map_cons, List.nodup_cons, List.mem_map, not_exists, not_and] at h
    intro a ha b hb hab
    rcases List.mem_cons.mp ha with ha1 | ha1 <;> rcases List.mem_cons.mp hb with hb1 | hb1
    · rw [ha1, hb1]
    · rw [ha1] at hab; exact absurd hab.symm (h.1 b hb1)
    · rw [hb1] at hab; exact absurd hab (h.1 a ha1)
    · exact ih h.2 a ha1 b hb1 hab

section
variable {sub : Int → Dur → Int} {now : Int} {visit : List PSnap} {latestRes : Option Snap}
  {failing : List Nat} {o : Opts} {r : Run}

/-- **no_group_emptied** at the level of the repository: with a non-empty policy, every group of
    the selected snapshots still has a snapshot that is not removed (whenever ids are distinct) -/
theorem shape_group_survives (hs : Shape sub now visit latestRes failing o r) (hargs : o.args = [])
    (hp : o.policy.empty = false) (hids : (visit.map (·.sn.id)).Nodup) :
    ∀ g ∈ groupP o.groupBy (visit.filter fun s => o.filter.matches s.sn), ∃ s ∈ g.2, s.sn.id ∉ r.removed := by
  have hvn : visit.Nodup := nodup_of_map _ _ hids
  have hinj : ∀ a ∈ visit, ∀ b ∈ visit, a.sn.id = b.sn.id → a = b := inj_of_nodup_map _ _ hids
  obtain ⟨_, hgrp, _⟩ := Restic.Props.C24.groupWith_partition (fun s : PSnap => keyOf o.groupBy s.sn)
    (visit.filter fun s => o.filter.matches s.sn)
  have hrem := (shape_removed hs).1
  have hrepd := shape_reported hs hargs
  cases hs with
  | aborted oc _ _ =>
    intro g hg
    obtain ⟨k, grp⟩ := g
    have hne := (hgrp k grp hg).2
    cases grp with
    | nil => exact absurd rfl hne
    | cons a t => exact ⟨a, by simp, by simp [abort]⟩
  | ids ha _ => exact absurd hargs ha
  | policy _ _ reports hrep hrep' =>
    intro g hg
    obtain ⟨k, grp⟩ := g
    obtain ⟨rep, hrepm, hdec⟩ := hrep (k, grp) hg
    obtain ⟨ds, hds, hk, hr, hne⟩ := groupDecision_some _ _ _ _ _ hdec
    have hperm := Restic.Props.C22.partition sub now grp o.policy ds hds
    have hgrpeq := (hgrp k grp hg).1
    have hsub : ∀ x ∈ grp, x ∈ visit ∧ keyOf o.groupBy x.sn = k := by
      intro x hx
      rw [hgrpeq] at hx
      simp only [List.mem_filter, decide_eq_true_eq] at hx
      exact ⟨hx.1.1, hx.2⟩
    cases hko : keepOf ds with
    | nil => exact absurd hko (hne hp)
    | cons x t =>
      have hxk : x ∈ keepOf ds := by rw [hko]; simp
      have hxg : x ∈ grp := hperm.mem_iff.mp (List.mem_append_left _ hxk)
      refine ⟨x, hxg, ?_⟩
      intro hxr
      have hxs := hrem _ hxr
      rw [hrepd] at hxs
      obtain ⟨rep', hrep'm, hxin⟩ := hxs
      rw [(removal_groups _ _ _ _).1] at hrep'm
      obtain ⟨⟨k', grp'⟩, hg', hdec'⟩ := hrep' rep' hrep'm
      obtain ⟨ds', hds', _, hr', _⟩ := groupDecision_some _ _ _ _ _ hdec'
      rw [hr', List.mem_map] at hxin
      obtain ⟨y, hyr, hyid⟩ := hxin
      have hperm' := Restic.Props.C22.partition sub now grp' o.policy ds' hds'
      have hyg : y ∈ grp' := hperm'.mem_iff.mp (List.mem_append_right _ hyr)
      have hgrpeq' := (hgrp k' grp' hg').1
      have hy : y ∈ visit ∧ keyOf o.groupBy y.sn = k' := by
        rw [hgrpeq'] at hyg
        simp only [List.mem_filter, decide_eq_true_eq] at hyg
        exact ⟨hyg.1.1, hyg.2⟩
      have hxy : y = x := hinj y hy.1 x (hsub x hxg).1 hyid
      subst hxy
      have hkk : k = k' := (hsub y hxg).2.symm.trans hy.2
      subst hkk
      have hgg : grp = grp' := hgrpeq.trans hgrpeq'.symm
      subst hgg
      rw [hds] at hds'
      injection hds' with hdd
      subst hdd
      have hgn : grp.Nodup := by
        rw [hgrpeq]
        exact (hvn.sublist List.filter_sublist).sublist List.filter_sublist
      have := (hperm.nodup_iff.mpr hgn)
      exact (List.nodup_append.mp this).2.2 y hxk y hyr rfl

end


open Restic.Props.C22

/-! ## only tag-only policies can hit the guard -/

theorem bucket_hits (l : List PSnap) (hl : l ≠ []) (b : Bucket) (hact : b.count > 0 ∨ b.count = -1) (nr : Nat) :
    ∃ pre s rest, l = pre ++ s :: rest ∧
      (stepBucket (bucketAfter b nr pre) s.civ (nr + pre.length) rest.isEmpty).2.isSome = true := by
  induction l generalizing nr with
  | nil => exact absurd rfl hl
  | cons s t ih =>
    cases t with
    | nil =>
      refine ⟨[], s, [], rfl, ?_⟩
      simp [bucketAfter, stepBucket_hit, hact]
    | cons s' t' =>
      by_cases hh : (stepBucket b s.civ nr false).2.isSome = true
      · exact ⟨[], s, s' :: t', rfl, by simpa [bucketAfter] using hh⟩
      · have hb : (stepBucket b s.civ nr false).1 = b := by
          rw [stepBucket_hit] at hh
          have hkey : bucketKey b.kind s.civ nr = b.last := by
            simpa [hact] using hh
          simp [stepBucket, hact, hkey]
        obtain ⟨pre, x, rest, hsplit, hhit⟩ := ih (by simp) (nr + 1)
        refine ⟨s :: pre, x, rest, by simp [hsplit], ?_⟩
        simp only [bucketAfter, hb, List.length_cons]
        have : nr + (pre.length + 1) = nr + 1 + pre.length := by omega
        rw [this]; exact hhit

/-- **keep_nonempty_of_count**: a policy with any count rule (n > 0 or unlimited) keeps at least one
    snapshot of every non-empty list — so only policies made of keep-tag / keep-within rules can
    run into the "refusing to delete last snapshot" guard -/
theorem keep_nonempty_of_count (sub : Int → Dur → Int) (now : Int) (l : List PSnap) (p : Policy)
    (ds : List Decision) (h : applyPolicy sub now l p = .ok ds) (hl : l ≠ [])
    (k : Kind) (hk : p.countOf k > 0 ∨ p.countOf k = -1) : keepOf ds ≠ [] := by
  have hsne : sortNewestFirst l ≠ [] := by
    intro e
    have := (sort_perm l).length_eq
    rw [e] at this
    cases l with
    | nil => exact hl rfl
    | cons a b => simp at this
  obtain ⟨pre, s, rest, hsplit, hhit⟩ := bucket_hits (sortNewestFirst l) hsne ⟨k, p.countOf k, -1⟩ hk 0
  rw [applyPolicy_eq] at h
  injection h with h
  have hfl := loop_flags ⟨sub, latestOf now l, p⟩ (sortNewestFirst l) [] ⟨initBuckets p, initWBuckets p⟩
    (by simp [bucketAfter]) (by simp [wbucketAfter])
  simp only [List.length_nil] at hfl
  have hkept : keptState ⟨sub, latestOf now l, p⟩ pre s rest.isEmpty = true := by
    simp only [keptState, Bool.or_eq_true]
    left; right
    simp only [List.any_eq_true]
    refine ⟨⟨k, p.countOf k, -1⟩, ?_, by simpa using hhit⟩
    simp only [initBuckets, List.mem_map]
    exact ⟨k, by cases k <;> simp [countKinds], rfl⟩
  have hmem : s ∈ keepOf ds := by
    rw [keepOf_eq, ← h, loop_snaps, hfl, kept_at]
    exact ⟨pre, rest, hsplit, by simpa using hkept⟩
  intro e; rw [e] at hmem; cases hmem

/-! ## the property, stated for `runForget` -/

section
variable (sub : Int → Dur → Int) (now : Int) (visit : List PSnap) (latestRes : Option Snap)
  (failing : List Nat) (o : Opts)

/-- **dryrun_no_remove** -/
theorem dryrun_no_remove (h : o.dryRun = true) : (runForget sub now visit latestRes failing o).removed = [] :=
  shape_dry (runForget_shape sub now visit latestRes failing o) h

/-- **abort_no_remove**: a run that fails for any reason other than a failing backend removal
    (option errors, unknown or malformed ids, "refusing to delete last snapshot") removes nothing -/
theorem abort_no_remove (h : (runForget sub now visit latestRes failing o).outcome ≠ .ok)
    (h' : (runForget sub now visit latestRes failing o).outcome ≠ .error "remove-failed") :
    (runForget sub now visit latestRes failing o).removed = [] :=
  (shape_abort (runForget_shape sub now visit latestRes failing o) h h').1

/-- **removed_eq_reported** (policy mode): every deleted snapshot is reported as removed by some
    group; after a successful run without `--dry-run` the deleted snapshots are exactly the reported ones -/
theorem removed_eq_reported (hargs : o.args = []) (n : Nat) :
    (n ∈ (runForget sub now visit latestRes failing o).removed →
      ∃ g ∈ (runForget sub now visit latestRes failing o).groups, n ∈ g.remove) ∧
    ((runForget sub now visit latestRes failing o).outcome = .ok → o.dryRun = false →
      (n ∈ (runForget sub now visit latestRes failing o).removed ↔
        ∃ g ∈ (runForget sub now visit latestRes failing o).groups, n ∈ g.remove)) := by
  have hs := runForget_shape sub now visit latestRes failing o
  have h1 := shape_removed hs
  have h2 := shape_reported hs hargs n
  refine ⟨fun hn => h2.mp (h1.1 n hn), fun hok hd => ?_⟩
  rw [h1.2 hok hd]; exact h2

/-- **removed = named** (explicit ids): only named snapshots (or the resolved `latest`) are
    deleted, and after a successful run without `--dry-run` every named snapshot is deleted -/
theorem ids_removed_named (hargs : o.args ≠ []) (n : Nat) :
    (n ∈ (runForget sub now visit latestRes failing o).removed →
      Arg.id n false ∈ o.args ∨ (Arg.latest ∈ o.args ∧ ∃ s, latestRes = some s ∧ s.id = n)) ∧
    ((runForget sub now visit latestRes failing o).outcome = .ok → o.dryRun = false →
      Arg.id n false ∈ o.args → n ∈ (runForget sub now visit latestRes failing o).removed) := by
  have hs := runForget_shape sub now visit latestRes failing o
  have h1 := shape_removed hs
  have h2 := shape_ids hs hargs n
  refine ⟨fun hn => h2.1 (h1.1 n hn), fun hok hd hn => ?_⟩
  rw [h1.2 hok hd]; exact h2.2 (Or.inl hok) hn

/-- **no_group_emptied** (as reported): with a non-empty policy every reported group keeps a snapshot -/
theorem no_group_emptied (hargs : o.args = []) (hp : o.policy.empty = false) :
    ∀ g ∈ (runForget sub now visit latestRes failing o).groups, g.keep ≠ [] :=
  shape_keep_nonempty (runForget_shape sub now visit latestRes failing o) hargs hp

/-- **no_group_emptied** (in the repository): with a non-empty policy, every group of the selected
    snapshots retains at least one snapshot, whatever the outcome of the run -/
theorem group_survives (hargs : o.args = []) (hp : o.policy.empty = false)
    (hids : (visit.map (·.sn.id)).Nodup) :
    ∀ g ∈ groupP o.groupBy (visit.filter fun s => o.filter.matches s.sn),
      ∃ s ∈ g.2, s.sn.id ∉ (runForget sub now visit latestRes failing o).removed :=
  shape_group_survives (runForget_shape sub now visit latestRes failing o) hargs hp hids

/-- **empty_policy_guard**: an empty policy removes nothing, and the run fails, unless
    `--unsafe-allow-remove-all` is combined with a snapshot filter -/
theorem empty_policy_guard (hargs : o.args = []) (hp : o.policy.empty = true)
    (hu : ¬ (o.unsafeAllowRemoveAll = true ∧ o.filter.empty = false)) :
    (runForget sub now visit latestRes failing o).removed = [] ∧
    (runForget sub now visit latestRes failing o).outcome ≠ .ok :=
  shape_empty_policy (runForget_shape sub now visit latestRes failing o) hargs hp hu

end

/-! ## non-vacuity -/

def mk (id : Nat) (t : Int) (host : String) (d : Int) : PSnap :=
  ⟨⟨id, t, host, ["/p"], []⟩, ⟨2024, 5, d, 8, 2024, 19⟩⟩
def exRepo : List PSnap := [mk 0 100 "h1" 10, mk 1 200 "h1" 11, mk 2 300 "h2" 12, mk 3 400 "h1" 13]
def exOpts (dry : Bool) (p : Policy) : Opts :=
  { policy := p, unsafeAllowRemoveAll := false, dryRun := dry, noLock := false,
    filter := ⟨[], [], [], none⟩, groupBy := ⟨false, true, true⟩, args := [] }

/-- keep-last 1 with two host groups: both groups survive, three snapshots… two are removed; the
    same with `--dry-run` removes nothing; a keep-tag policy that matches nothing is refused -/
example :
    (runForget (fun t _ => t) 1000 exRepo none [] (exOpts false (onlyLast 1))).removed = [1, 0] ∧
    (runForget (fun t _ => t) 1000 exRepo none [] (exOpts false (onlyLast 1))).groups = [⟨[3], [1, 0]⟩, ⟨[2], []⟩] ∧
    (runForget (fun t _ => t) 1000 exRepo none [] (exOpts true (onlyLast 1))).removed = [] ∧
    (runForget (fun t _ => t) 1000 exRepo none [] (exOpts false { onlyLast 0 with tags := [["zz"]] })).outcome = .error "refuse" ∧
    (runForget (fun t _ => t) 1000 exRepo none [] (exOpts false (onlyLast 0))).outcome = .fatal "no-policy" := by
  decide


end Restic.Props.C23
