import Restic.Model.Store
import Restic.Gen.Source
/-!
# C02 — Loaded data always matches its content address

Theorems about `Restic.Model.Store`. `hash` (SHA-256), `dec` (nonce split + `Key.Open`), `enc`,
`zenc`/`zdec` are arbitrary functions: nothing is assumed about them except where a hypothesis
says so. In particular SHA-256 is never assumed injective: statements that identify *contents*
conclude `… ∨ Collision hash` with the colliding pair built from the inputs.

The backend is a reply script (`List BeReply` / `List ReadReply`): every theorem about loading
holds for EVERY script — correct, altered, truncated, stale bytes, errors, in any order.
-/
namespace Restic.Props.C02
open Restic.Model.Store

/-- two different byte strings with the same hash -/
def Collision (hash : Bytes → ID) : Prop := ∃ a b : Bytes, a ≠ b ∧ hash a = hash b

/-! ### T1: regenerated call orders -/

/-- `LoadRaw`: two load attempts, each followed by a comparison with `restic.Hash(buf)`; the cache
    entry is dropped between them. -/
theorem loadRaw_hash_compared :
    let c := Restic.Gen.repo_LoadRaw_calls
    c.count "loadRaw" = 2 ∧ c.count "restic.Hash" = 2 ∧
    c.idxOf "loadRaw" < c.idxOf "restic.Hash" ∧ c.idxOf "restic.Hash" < c.idxOf "r.cache.Forget" := by decide

/-- calls that cannot influence a decision (logging, formatting, conversions) -/
def inert : List String :=
  ["debug.Log", "fmt.Errorf", "fmt.Sprintf", "errors.Errorf", "errors.New", "backend.FileType", "id.String",
   "b.packID.String", "int", "len"]

def decisive (c : List String) : List String := c.filter fun s => !(inert.contains s)

/-- `LoadRaw` consults NOTHING but the two loads and the two hash computations (and drops the
    cache entry in between): in particular no cache query decides whether the hash is compared.
    (Any additional non-logging call in `LoadRaw` makes this obligation fail and is to be reviewed.) -/
theorem loadRaw_only_loads_and_hashes :
    decisive Restic.Gen.repo_LoadRaw_calls = ["loadRaw", "restic.Hash", "r.cache.Forget", "loadRaw", "restic.Hash"] := by
  decide

/-- `packBlobIterator.Next`: between decryption / decompression and the comparison with the entry's
    ID there is exactly the hash computation — no shortcut, no other source for the ID. -/
theorem next_always_hashes :
    decisive Restic.Gen.repo_Next_calls =
      ["b.rd.Discard", "b.rd.ReadFull", "b.key.NonceSize", "b.key.NonceSize", "b.key.NonceSize", "b.key.Open",
       "entry.IsCompressed", "b.dec.DecodeAll", "restic.Hash", "id.Equal"] := by
  decide

/-- `packBlobIterator.Next`: decrypt, (decompress,) then hash and compare with the entry's ID. -/
theorem next_hash_compared :
    let c := Restic.Gen.repo_Next_calls
    c.idxOf "b.key.Open" < c.idxOf "restic.Hash" ∧ c.idxOf "restic.Hash" < c.idxOf "id.Equal" ∧
    "id.Equal" ∈ c ∧ c.idxOf "b.rd.ReadFull" < c.idxOf "b.key.Open" := by decide

/-- `saveUnpacked`: seal, verify, hash the ciphertext, then save under that name. -/
theorem saveUnpacked_hash_then_save :
    let c := Restic.Gen.repo_saveUnpacked_calls
    c.idxOf "r.key.Seal" < c.idxOf "r.verifyUnpacked" ∧ c.idxOf "r.verifyUnpacked" < c.idxOf "restic.Hash" ∧
    c.idxOf "restic.Hash" < c.idxOf "r.be.Save" ∧ "r.be.Save" ∈ c := by decide

/-- `saveAndEncrypt`: the ciphertext is verified (decrypt + hash compare) before it reaches the packer. -/
theorem saveAndEncrypt_verifies_before_pack :
    let c := Restic.Gen.repo_saveAndEncrypt_calls
    c.idxOf "r.key.Seal" < c.idxOf "r.verifyCiphertext" ∧ c.idxOf "r.verifyCiphertext" < c.idxOf "pm.SaveBlob" ∧
    "pm.SaveBlob" ∈ c ∧
    "restic.Hash" ∈ Restic.Gen.repo_verifyCiphertext_calls := by decide

/-- `savePacker`: the ID is computed from the file's hash before the upload. -/
theorem savePacker_hash_then_save :
    let c := Restic.Gen.repo_savePacker_calls
    c.idxOf "p.Packer.Finalize" < c.idxOf "restic.IDFromHash" ∧
    c.idxOf "restic.IDFromHash" < c.idxOf "r.be.Save" ∧ "r.be.Save" ∈ c := by decide

/-- `saveBlob`: zero-chunk shortcut and plain hash are the only sources of a computed ID. -/
theorem saveBlob_id_sources :
    let c := Restic.Gen.repo_saveBlob_calls
    "r.zeroChunk" ∈ c ∧ "restic.Hash" ∈ c ∧ "restic.ZeroPrefixLen" ∈ c ∧
    c.idxOf "restic.Hash" < c.idxOf "r.saveAndEncrypt" := by decide

/-! ### LoadRaw -/

/-- **Soundness of `LoadRaw` for every backend behaviour**: whatever the backend answers to the
    (one or two) reads, a successful result hashes to the requested ID. -/
theorem loadRaw_sound (hash : Bytes → ID) (t : FileType) (id : ID) (replies : List BeReply)
    (b : Bytes) (rest : List BeReply)
    (h : loadRaw hash t id replies = (.ok b, rest)) (ht : t ≠ .config) : hash b = id := by
  unfold loadRaw at h
  repeat' split at h
  all_goals simp_all
  all_goals grind

/-- … hence it is what was stored under that ID, unless SHA-256 collides. -/
theorem loadRaw_returns_stored (hash : Bytes → ID) (t : FileType) (id : ID) (replies : List BeReply)
    (b s : Bytes) (rest : List BeReply)
    (h : loadRaw hash t id replies = (.ok b, rest)) (ht : t ≠ .config) (hs : hash s = id) :
    b = s ∨ Collision hash := by
  have := loadRaw_sound hash t id replies b rest h ht
  by_cases hb : b = s
  · exact Or.inl hb
  · exact Or.inr ⟨b, s, hb, by rw [this, hs]⟩

/-- `LoadRaw` issues one or two backend reads, never more. -/
theorem loadRaw_reads (hash : Bytes → ID) (t : FileType) (id : ID) (replies : List BeReply) :
    (loadRaw hash t id replies).2 = replies.drop 1 ∨ (loadRaw hash t id replies).2 = replies.drop 2 ∨
    (loadRaw hash t id replies).1 = .stuck := by
  unfold loadRaw
  repeat' split
  all_goals simp_all
  all_goals (repeat' split)
  all_goals simp_all

/-- A healthy backend is not refused. -/
theorem loadRaw_healthy (hash : Bytes → ID) (t : FileType) (id : ID) (s : Bytes) (rest : List BeReply)
    (hs : hash s = id) : loadRaw hash t id (.data s false :: rest) = (.ok s, rest) := by
  simp [loadRaw, collect, hs]

/-- One bad read (altered, truncated, stale, error) followed by a good one is healed by the retry. -/
theorem loadRaw_retry_heals (hash : Bytes → ID) (t : FileType) (id : ID) (r1 : BeReply) (s : Bytes)
    (rest : List BeReply) (ht : t ≠ .config) (hbad : hash (collect r1).buf ≠ id) (hs : hash s = id) :
    loadRaw hash t id (r1 :: .data s false :: rest) = (.ok s, rest) := by
  have : id ≠ hash (collect r1).buf := fun h => hbad h.symm
  have c2 : collect (.data s false) = ⟨s, false⟩ := rfl
  simp [loadRaw, c2, hs, ht, this]

/-- Two bad reads: the damaged bytes are only ever returned together with `ErrInvalidData`, or not at all. -/
theorem loadRaw_twice_bad (hash : Bytes → ID) (t : FileType) (id : ID) (r1 r2 : BeReply)
    (rest : List BeReply) (ht : t ≠ .config) (h1 : hash (collect r1).buf ≠ id)
    (h2 : hash (collect r2).buf ≠ id) :
    (loadRaw hash t id (r1 :: r2 :: rest)).1 = .invalidData (collect r2).buf ∨
    (loadRaw hash t id (r1 :: r2 :: rest)).1 = .err := by
  have a1 : id ≠ hash (collect r1).buf := fun h => h1 h.symm
  have a2 : id ≠ hash (collect r2).buf := fun h => h2 h.symm
  by_cases he : (collect r2).err = true <;> simp [loadRaw, ht, a1, a2, he]

/-! ### LoadUnpacked -/

theorem loadUnpacked_sound (hash : Bytes → ID) (dec zdec : Bytes → Option Bytes) (version : Nat)
    (t : FileType) (id : ID) (replies : List BeReply) (q : Bytes) (rest : List BeReply)
    (h : loadUnpacked hash dec zdec version t id replies = (.ok q, rest)) (ht : t ≠ .config) :
    ∃ buf pt, hash buf = id ∧ extension ≤ buf.length ∧ dec buf = some pt ∧
      decompressUnpacked version zdec pt = some q := by
  unfold loadUnpacked at h
  simp only [ht, if_false] at h
  split at h
  · cases h
  · cases h
  · cases h
  · rename_i buf rest' hl
    have hb : hash buf = id := by
      unfold loadRaw at hl
      repeat' split at hl
      all_goals simp_all
      all_goals grind
    split at h
    · cases h
    · rename_i hlen
      split at h
      · cases h
      · rename_i pt hd
        split at h
        · rename_i q' hq
          simp only [Prod.mk.injEq, UnpOut.ok.injEq] at h
          exact ⟨buf, pt, hb, by omega, hd, h.1 ▸ hq⟩
        · cases h

/-! ### packBlobIterator.Next -/

/-- **Soundness of the blob iterator**: a value without error carries plaintext whose hash is the
    ID of the header/index entry it was read for — for every content of the reader. -/
theorem blobIter_sound (hash : Bytes → ID) (dec zdec : Bytes → Option Bytes) (it it' : Iter)
    (b : Blob) (p : Bytes) (h : next hash dec zdec it = (.value b p none, it')) : hash p = b.id := by
  unfold next at h
  repeat' split at h
  all_goals simp_all
  all_goals grind

/-- the value belongs to the first pending entry and `plaintext` is the decoding of exactly the
    `length` bytes at the entry's offset -/
theorem blobIter_value_decodes (hash : Bytes → ID) (dec zdec : Bytes → Option Bytes) (it it' : Iter)
    (b : Blob) (p : Bytes) (h : next hash dec zdec it = (.value b p none, it')) :
    it.blobs.head? = some b ∧ it.cur ≤ b.offset ∧
    decodeBlob dec zdec b.ulen ((it.rd.drop (b.offset - it.cur)).take b.length) = some p := by
  unfold next at h
  repeat' split at h
  all_goals simp_all [decodeBlob]
  all_goals grind

/-! ### loadBlob -/

theorem loadBlobPass_sound (hash : Bytes → ID) (dec zdec : Bytes → Option Bytes) (id : ID)
    (cands : List PackedBlob) (rs rs' : List ReadReply) (p : Bytes)
    (hc : ∀ c ∈ cands, c.blob.id = id)
    (h : loadBlobPass hash dec zdec cands rs = (.ok p, rs')) : hash p = id := by
  induction cands generalizing rs with
  | nil => simp [loadBlobPass] at h
  | cons c cs ih =>
    cases rs with
    | nil => simp [loadBlobPass] at h
    | cons r rs0 =>
      have ih' := ih rs0 (fun c' hc' => hc c' (List.mem_cons_of_mem _ hc'))
      unfold loadBlobPass at h
      split at h
      · exact ih' h
      · rename_i buf _
        split at h
        · rename_i b' p' hn
          injection h with h1 _
          injection h1 with h1
          subst h1
          -- `next` returned a clean value for the single entry `c.blob`
          have hv : next hash dec zdec { rd := buf, cur := c.blob.offset, blobs := [c.blob] } =
              (.value b' p' none, (next hash dec zdec { rd := buf, cur := c.blob.offset, blobs := [c.blob] }).2) :=
            Prod.ext hn rfl
          have h1 := blobIter_sound hash dec zdec _ _ b' p' hv
          have h2 := (blobIter_value_decodes hash dec zdec _ _ b' p' hv).1
          simp only [List.head?_cons, Option.some.injEq] at h2
          rw [h1, ← h2]
          exact hc c (List.mem_cons_self ..)
        · exact ih' h

/-- **Soundness of `LoadBlob` for every backend behaviour and every set of candidate packs**:
    a successful result hashes to the requested blob ID (both passes). -/
theorem loadBlob_sound (hash : Bytes → ID) (dec zdec : Bytes → Option Bytes) (id : ID)
    (cands : List PackedBlob) (rs rs' : List ReadReply) (p : Bytes)
    (hc : ∀ c ∈ cands, c.blob.id = id)
    (h : loadBlob hash dec zdec cands rs = (.ok p, rs')) : hash p = id := by
  unfold loadBlob at h
  split at h
  · cases h
  · split at h
    · exact loadBlobPass_sound hash dec zdec id cands _ _ p hc h
    · rename_i r hr
      exact loadBlobPass_sound hash dec zdec id cands rs rs' p hc h

theorem loadBlob_returns_stored (hash : Bytes → ID) (dec zdec : Bytes → Option Bytes) (id : ID)
    (cands : List PackedBlob) (rs rs' : List ReadReply) (p s : Bytes)
    (hc : ∀ c ∈ cands, c.blob.id = id) (hs : hash s = id)
    (h : loadBlob hash dec zdec cands rs = (.ok p, rs')) : p = s ∨ Collision hash := by
  have := loadBlob_sound hash dec zdec id cands rs rs' p hc h
  by_cases hb : p = s
  · exact Or.inl hb
  · exact Or.inr ⟨p, s, hb, by rw [this, hs]⟩

/-- A damaged or unreachable first copy does not stop the search: the intact duplicate is used. -/
theorem loadBlobPass_skips_bad (hash : Bytes → ID) (dec zdec : Bytes → Option Bytes)
    (c : PackedBlob) (cs : List PackedBlob) (r : ReadReply) (rs : List ReadReply)
    (hbad : ∀ buf, readAt c.blob.length r = some buf →
      ∀ b p, (next hash dec zdec { rd := buf, cur := c.blob.offset, blobs := [c.blob] }).1 ≠ .value b p none) :
    loadBlobPass hash dec zdec (c :: cs) (r :: rs) = loadBlobPass hash dec zdec cs rs := by
  rw [loadBlobPass]
  split
  · rfl
  · rename_i buf hb
    split
    · rename_i b p hn
      exact absurd hn (hbad buf hb b p)
    · rfl

/-! ### saving: the zero-chunk shortcut -/

theorem countZeros_eq (p : Bytes) (n : Nat) : countZeros p n = n + (p.takeWhile (· == 0)).length := by
  induction p generalizing n with
  | nil => simp [countZeros]
  | cons b rest ih =>
    unfold countZeros
    by_cases hb : (b == 0) = true
    · simp only [hb, if_true, ih, List.takeWhile_cons, List.length_cons]; omega
    · simp [hb]

theorem takeWhile_replicate_append (k : Nat) (rest : Bytes) :
    ((List.replicate k (0 : UInt8) ++ rest).takeWhile (· == 0)).length = k + (rest.takeWhile (· == 0)).length := by
  induction k with
  | zero => simp
  | succ k ih => simp only [List.replicate_succ, List.cons_append, List.takeWhile_cons, beq_self_eq_true,
      if_true, List.length_cons, ih]; omega

theorem skipZeroBlocks_inv (fuel : Nat) (p : Bytes) (n : Nat) :
    (skipZeroBlocks fuel p n).2 + ((skipZeroBlocks fuel p n).1.takeWhile (· == 0)).length =
      n + (p.takeWhile (· == 0)).length := by
  induction fuel generalizing p n with
  | zero => simp [skipZeroBlocks]
  | succ fuel ih =>
    unfold skipZeroBlocks
    split
    · rename_i hc
      rw [ih]
      have hp : p = List.replicate 1024 0 ++ p.drop 1024 := by
        conv => lhs; rw [← List.take_append_drop 1024 p, hc.2]
      conv => rhs; rw [hp, takeWhile_replicate_append]
      omega
    · rfl

/-- the two loops of `ZeroPrefixLen` compute the length of the longest all-zero prefix -/
theorem zeroPrefixLen_eq (p : Bytes) : zeroPrefixLen p = (p.takeWhile (· == 0)).length := by
  unfold zeroPrefixLen
  simp only [countZeros_eq]
  have := skipZeroBlocks_inv (p.length / 1024 + 1) p 0
  omega

theorem eq_replicate_of_takeWhile_len (p : Bytes) (h : (p.takeWhile (· == 0)).length = p.length) :
    p = List.replicate p.length 0 := by
  induction p with
  | nil => rfl
  | cons b rest ih =>
    by_cases hb : (b == 0) = true
    · simp only [List.takeWhile_cons, hb, if_true, List.length_cons, Nat.add_right_cancel_iff] at h
      simp only [List.length_cons, List.replicate_succ]
      rw [← ih h]
      simp only [beq_iff_eq] at hb
      rw [hb]
    · simp [hb] at h

/-- **The shortcut is an optimisation, not a different address**: a buffer of `MinSize` bytes with
    an all-zero prefix of `MinSize` bytes IS the buffer whose hash `zeroChunk()` caches. -/
theorem zero_shortcut_eq (hash : Bytes → ID) (buf : Bytes) (hl : buf.length = minSize)
    (hz : zeroPrefixLen buf = minSize) : zeroChunk hash = hash buf := by
  rw [zeroPrefixLen_eq, ← hl] at hz
  have := eq_replicate_of_takeWhile_len buf hz
  unfold zeroChunk
  rw [← hl, ← this]

/-- What a READ-side shortcut would have to check (the unchanged `Next` has none, see
    `next_always_hashes`): "entry ID is the zero-chunk ID and the plaintext is all zeros" identifies
    the plaintext only together with `len = MinSize`. Without the length test the conclusion is
    false for every hash function that separates two all-zero strings (`read_shortcut_needs_length`). -/
theorem read_shortcut_sound (hash : Bytes → ID) (id : ID) (p : Bytes) (hid : id = zeroChunk hash)
    (hl : p.length = minSize) (hz : zeroPrefixLen p = p.length) : hash p = id := by
  rw [hid, zero_shortcut_eq hash p hl (by rw [hz, hl])]

theorem read_shortcut_needs_length (hash : Bytes → ID) (k : Nat)
    (hsep : hash (List.replicate k 0) ≠ hash (List.replicate minSize 0)) :
    ∃ p : Bytes, zeroPrefixLen p = p.length ∧ hash p ≠ zeroChunk hash := by
  refine ⟨List.replicate k 0, ?_, hsep⟩
  rw [zeroPrefixLen_eq]
  have : (List.replicate k (0 : UInt8)).takeWhile (· == 0) = List.replicate k 0 := by
    induction k with
    | zero => rfl
    | succ n _ => simp [List.replicate_succ]
  rw [this]

/-! ### saving: addresses -/

/-- **Every blob saved without a caller-supplied ID is addressed by the hash of its plaintext**,
    including the all-zero `MinSize` special case. -/
theorem saveBlob_addr (hash : Bytes → ID) (enc) (dec zdec : Bytes → Option Bytes) (zenc) (cfg : SaveCfg)
    (tree : Bool) (buf : Bytes) (sd pn : Bool) (nonce : Bytes) (newID : ID) (known : Bool)
    (st : Option (Bytes × Nat))
    (h : saveBlob hash enc dec zdec zenc cfg tree buf nullID sd pn nonce = .ok newID known st) :
    newID = hash buf := by
  unfold saveBlob at h
  split at h
  · cases h
  · simp only [if_true] at h
    have key : (if buf.length = minSize ∧ zeroPrefixLen buf = minSize then zeroChunk hash else hash buf) = hash buf := by
      split
      · rename_i hc; exact zero_shortcut_eq hash buf hc.1 hc.2
      · rfl
    rw [key] at h
    split at h
    · split at h
      · cases h
      · injection h with h1; exact h1.symm
    · injection h with h1; exact h1.symm

/-- **What reaches the packer under `newID` decodes to bytes with hash `newID`** (extra
    verification on, the default) — also when the caller supplied the ID. -/
theorem saveAndEncrypt_decodes (hash : Bytes → ID) (enc) (dec zdec : Bytes → Option Bytes) (zenc)
    (cfg : SaveCfg) (tree : Bool) (data : Bytes) (id : ID) (nonce ct : Bytes) (ulen : Nat)
    (hv : cfg.noExtraVerify = false)
    (h : saveAndEncrypt hash enc dec zdec zenc cfg tree data id nonce = some (ct, ulen)) :
    ∃ pt, decodeBlob dec zdec ulen ct = some pt ∧ hash pt = id := by
  unfold saveAndEncrypt at h
  simp only [hv, Bool.false_eq_true, if_false] at h
  generalize (decide (cfg.version > 1) && decide (data.length > 0) && (!cfg.compressionOff || tree)) = c at h
  split at h
  · cases h
  · rename_i pt hd
    try dsimp only at h
    split at h
    · cases h
    · rename_i plaintext hstep
      split at h
      · cases h
      · rename_i hh
        simp only [Option.some.injEq, Prod.mk.injEq] at h
        obtain ⟨h1, h2⟩ := h
        subst h1 h2
        exact ⟨plaintext, by simp only [decodeBlob, hd]; exact hstep, by simpa using hh⟩

/-- **What reaches the packer under `newID` decodes to bytes with hash `newID`** (extra
    verification on, the default) — also when the caller supplied the ID. -/
theorem saveBlob_stored_decodes (hash : Bytes → ID) (enc) (dec zdec : Bytes → Option Bytes) (zenc)
    (cfg : SaveCfg) (tree : Bool) (buf : Bytes) (id : ID) (sd pn : Bool) (nonce : Bytes)
    (newID : ID) (known : Bool) (ct : Bytes) (ulen : Nat) (hv : cfg.noExtraVerify = false)
    (h : saveBlob hash enc dec zdec zenc cfg tree buf id sd pn nonce = .ok newID known (some (ct, ulen))) :
    ∃ pt, decodeBlob dec zdec ulen ct = some pt ∧ hash pt = newID := by
  unfold saveBlob at h
  split at h
  · cases h
  · dsimp only at h
    generalize (if id = nullID then if buf.length = minSize ∧ zeroPrefixLen buf = minSize then zeroChunk hash else hash buf else id) = nid at h
    split at h
    · split at h
      · cases h
      · rename_i st hs
        simp only [SaveBlobOut.ok.injEq, Option.some.injEq] at h
        obtain ⟨h1, -, h3⟩ := h
        subst h1 h3
        exact saveAndEncrypt_decodes hash enc dec zdec zenc cfg tree buf nid nonce ct ulen hv hs
    · simp at h

/-- with the round-trip laws of the parameters, verification pins a caller-supplied ID to the
    hash of the buffer as well -/
theorem saveAndEncrypt_checked (hash : Bytes → ID) (enc) (dec zdec : Bytes → Option Bytes) (zenc)
    (cfg : SaveCfg) (tree : Bool) (data : Bytes) (id : ID) (nonce : Bytes) (st : Bytes × Nat)
    (hv : cfg.noExtraVerify = false)
    (hdec : ∀ n d, dec (enc n d) = some d) (hz : ∀ d, zdec (zenc d) = some d)
    (h : saveAndEncrypt hash enc dec zdec zenc cfg tree data id nonce = some st) : id = hash data := by
  unfold saveAndEncrypt at h
  simp only [hv, Bool.false_eq_true, if_false, hdec] at h
  generalize hc : (decide (cfg.version > 1) && decide (data.length > 0) && (!cfg.compressionOff || tree)) = c at h
  cases c
  · simp only [Bool.false_eq_true, if_false, ne_eq, not_true_eq_false] at h
    split at h
    · cases h
    · rename_i hh; exact (Classical.not_not.mp hh).symm
  · have hne : data.length ≠ 0 := by
      simp only [Bool.and_eq_true, decide_eq_true_eq] at hc; omega
    simp only [if_true, hne, ne_eq, not_false_eq_true, hz] at h
    split at h
    · cases h
    · rename_i hh; exact (Classical.not_not.mp hh).symm

theorem saveBlob_given_id_checked (hash : Bytes → ID) (enc) (dec zdec : Bytes → Option Bytes) (zenc)
    (cfg : SaveCfg) (tree : Bool) (buf : Bytes) (id : ID) (sd pn : Bool) (nonce : Bytes)
    (newID : ID) (known : Bool) (st : Bytes × Nat) (hv : cfg.noExtraVerify = false)
    (hdec : ∀ n d, dec (enc n d) = some d) (hz : ∀ d, zdec (zenc d) = some d)
    (h : saveBlob hash enc dec zdec zenc cfg tree buf id sd pn nonce = .ok newID known (some st)) :
    newID = hash buf := by
  unfold saveBlob at h
  split at h
  · cases h
  · dsimp only at h
    generalize (if id = nullID then if buf.length = minSize ∧ zeroPrefixLen buf = minSize then zeroChunk hash else hash buf else id) = nid at h
    split at h
    · split at h
      · cases h
      · rename_i st' hs
        simp only [SaveBlobOut.ok.injEq, Option.some.injEq] at h
        obtain ⟨h1, -, -⟩ := h
        subst h1
        exact saveAndEncrypt_checked hash enc dec zdec zenc cfg tree buf nid nonce st' hv hdec hz hs
    · simp at h

/-- **Every unpacked file (index, snapshot, lock, key) is saved under the hash of the exact bytes
    handed to the backend**, and that name is the ID returned to the caller. -/
theorem saveUnpacked_addr (hash : Bytes → ID) (enc) (dec zdec : Bytes → Option Bytes) (zenc)
    (cfg : SaveCfg) (t : FileType) (buf nonce : Bytes) (beOK : Bool) (id name bytes : ID)
    (h : saveUnpacked hash enc dec zdec zenc cfg t buf nonce beOK = .ok id name bytes)
    (ht : t ≠ .config) : name = hash bytes ∧ id = name := by
  unfold saveUnpacked at h
  dsimp only at h
  generalize enc nonce (if t ≠ .config then compressUnpacked cfg.version zenc buf else buf) = ct at h
  cases hver : verifyUnpacked dec zdec cfg t ct buf <;> cases beOK <;> simp [hver, ht] at h
  obtain ⟨h1, h2, h3⟩ := h
  subst h3
  exact ⟨h2.symm, by rw [← h1, ← h2]⟩


/-- and (extra verification on) those bytes decode back to the buffer that was to be saved -/
theorem saveUnpacked_roundtrip (hash : Bytes → ID) (enc) (dec zdec : Bytes → Option Bytes) (zenc)
    (cfg : SaveCfg) (t : FileType) (buf nonce : Bytes) (beOK : Bool) (id name bytes : ID)
    (hv : cfg.noExtraVerify = false) (ht : t ≠ .config)
    (h : saveUnpacked hash enc dec zdec zenc cfg t buf nonce beOK = .ok id name bytes) :
    ∃ pt, dec bytes = some pt ∧ decompressUnpacked cfg.version zdec pt = some buf := by
  unfold saveUnpacked at h
  dsimp only at h
  generalize enc nonce (if t ≠ .config then compressUnpacked cfg.version zenc buf else buf) = ct at h
  cases hver : verifyUnpacked dec zdec cfg t ct buf <;> cases beOK <;> simp [hver, ht] at h
  obtain ⟨-, -, h3⟩ := h
  subst h3
  unfold verifyUnpacked at hver
  simp only [hv, Bool.false_eq_true, if_false, ht, ne_eq, not_false_eq_true, if_true] at hver
  split at hver
  · cases hver
  · rename_i pt hd
    refine ⟨pt, hd, ?_⟩
    cases hq : decompressUnpacked cfg.version zdec pt with
    | none => simp [hq] at hver
    | some q => simp [hq] at hver; rw [hver]


theorem savePacker_addr (hash : Bytes → ID) (packBytes : Bytes) :
    (savePacker hash packBytes).1 = hash (savePacker hash packBytes).2 := rfl

/-- save then load through ANY backend behaviour: what comes back for the returned ID is what
    was handed to the backend, or SHA-256 collides. -/
theorem load_saved (hash : Bytes → ID) (enc) (dec zdec : Bytes → Option Bytes) (zenc)
    (cfg : SaveCfg) (t : FileType) (buf nonce : Bytes) (id name bytes : ID) (ht : t ≠ .config)
    (hs : saveUnpacked hash enc dec zdec zenc cfg t buf nonce true = .ok id name bytes)
    (replies : List BeReply) (b : Bytes) (rest : List BeReply)
    (hl : loadRaw hash t id replies = (.ok b, rest)) : b = bytes ∨ Collision hash := by
  obtain ⟨h1, h2⟩ := saveUnpacked_addr hash enc dec zdec zenc cfg t buf nonce true id name bytes hs ht
  exact loadRaw_returns_stored hash t id replies b bytes rest hl ht (by rw [h2, h1])

/-! ### The transcription meets the executable statement -/

theorem loadRaw_spec (hash : Bytes → ID) (t : FileType) (id : ID) (replies : List BeReply) :
    specLoadOK hash t id (loadRaw hash t id replies).1 = true := by
  cases hr : (loadRaw hash t id replies).1 with
  | ok b =>
    by_cases ht : t = .config
    · simp [specLoadOK, ht]
    · have := loadRaw_sound hash t id replies b _ (Prod.ext hr rfl) ht
      simp [specLoadOK, this]
  | _ => rfl

theorem loadBlob_spec (hash : Bytes → ID) (dec zdec : Bytes → Option Bytes) (id : ID)
    (cands : List PackedBlob) (rs : List ReadReply) (hc : ∀ c ∈ cands, c.blob.id = id) :
    specBlobOK hash id (loadBlob hash dec zdec cands rs).1 = true := by
  cases hr : (loadBlob hash dec zdec cands rs).1 with
  | ok p =>
    have := loadBlob_sound hash dec zdec id cands rs _ p hc (Prod.ext hr rfl)
    simp [specBlobOK, this]
  | _ => rfl

theorem saveUnpacked_spec (hash : Bytes → ID) (enc) (dec zdec : Bytes → Option Bytes) (zenc)
    (cfg : SaveCfg) (t : FileType) (buf nonce : Bytes) (beOK : Bool) (id name bytes : ID)
    (h : saveUnpacked hash enc dec zdec zenc cfg t buf nonce beOK = .ok id name bytes) :
    specStoredOK hash t name bytes = true := by
  by_cases ht : t = .config
  · simp [specStoredOK, ht]
  · simp [specStoredOK, (saveUnpacked_addr hash enc dec zdec zenc cfg t buf nonce beOK id name bytes h ht).1]

theorem saveBlob_spec (hash : Bytes → ID) (enc) (dec zdec : Bytes → Option Bytes) (zenc) (cfg : SaveCfg)
    (tree : Bool) (buf : Bytes) (sd pn : Bool) (nonce : Bytes) (newID : ID) (known : Bool)
    (st : Option (Bytes × Nat))
    (h : saveBlob hash enc dec zdec zenc cfg tree buf nullID sd pn nonce = .ok newID known st) :
    specSaveBlobOK hash buf newID = true := by
  simp [specSaveBlobOK, saveBlob_addr hash enc dec zdec zenc cfg tree buf sd pn nonce newID known st h]

/-! ### Non-vacuity (a toy hash with collisions on purpose: nothing depends on injectivity) -/

def toyHash (b : Bytes) : ID := [UInt8.ofNat b.length, b.foldl (· + ·) 0]

example : Collision toyHash := ⟨[1, 2], [2, 1], by decide, by decide⟩

-- altered first answer, correct second answer: healed
example : loadRaw toyHash .snapshot (toyHash [1, 2, 3]) [.data [9, 9, 9] false, .data [1, 2, 3] false] =
    (.ok [1, 2, 3], []) := by decide
-- truncated twice: handed out only with ErrInvalidData
example : (loadRaw toyHash .index (toyHash [1, 2, 3]) [.data [1, 2] false, .data [1] false]).1 =
    .invalidData [1] := by decide
-- error then stale bytes of another file
example : (loadRaw toyHash .key (toyHash [1, 2, 3]) [.fail, .data [7] false]).1 = .invalidData [7] := by decide
-- a clean value from the iterator, and a hash mismatch that carries the plaintext WITH an error
example : (next toyHash some some { rd := [0, 0, 5, 6, 7], cur := 10, blobs := [⟨toyHash [5, 6, 7], false, 12, 3, 0⟩] }).1 =
    .invalidLength := by decide
example : loadBlob toyHash some some
    [⟨[1], ⟨toyHash (List.replicate 20 4), false, 0, 20, 0⟩⟩, ⟨[2], ⟨toyHash (List.replicate 20 4), false, 7, 20, 0⟩⟩]
    [.data (List.replicate 20 5), .data (List.replicate 20 4)] = (.ok (List.replicate 20 4), []) := by decide
example : zeroPrefixLen ([0, 0, 0, 1, 0]) = 3 := by decide

end Restic.Props.C02
