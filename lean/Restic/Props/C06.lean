import Restic.Proofs.C06_Parse
import Restic.Gen.Source
/-!
# C06 — Pack files list back exactly the blobs written into them

Theorems about `Restic.Model.Pack` (byte-exact transcription of Packer.Add / Finalize / makeHeader /
verifyHeader / HeaderFull and List / readHeader / readRecords / parseHeaderEntry). They hold for
**all** blob sequences (any number of blobs, any mix of compressed / uncompressed entries, any
32-byte ids, any blob data), all files (`List UInt8`) and every nonce of the right size; the layout
constants are the regenerated `Restic.Gen` facts. The cipher is a parameter with the laws
`Crypto.Lawful` (decrypting what was sealed returns it; sealing adds `crypto_macSize` bytes).
-/
namespace Restic.Props.C06
open Restic.Model.Pack Restic.Gen Restic.Proofs.C06

structure Crypto.Lawful (k : Crypto) : Prop where
  open_seal : ∀ n p, n.length = crypto_ivSize → k.openB n (k.sealB n p) = some p
  seal_len : ∀ n p, (k.sealB n p).length = p.length + crypto_macSize

/-! ## Regenerated facts (T1) -/

/-- the type-byte table of the writer … -/
theorem facts_makeHeader_cases : makeHeader_cases =
    ["b.Type == restic.DataBlob && b.UncompressedLength == 0",
     "b.Type == restic.TreeBlob && b.UncompressedLength == 0",
     "b.Type == restic.DataBlob && b.UncompressedLength != 0",
     "b.Type == restic.TreeBlob && b.UncompressedLength != 0", "default"] := by decide

/-- … and of the reader -/
theorem facts_parseHeaderEntry_cases : Restic.Gen.parseHeaderEntry_cases = ["0", "2", "1", "3", "default"] := by decide

/-- the four guards of `readRecords`, in this order -/
theorem facts_readRecords_cases : readRecords_cases =
    ["hlen == 0", "hlen < crypto.Extension", "int64(hlen) > size-int64(headerLengthSize)",
     "int64(hlen) > MaxHeaderSize-int64(headerLengthSize)"] := by decide

private def idxOf (l : List String) (s : String) : Nat := l.findIdx (· == s)

/-- `Finalize` builds the header, seals it, appends the length, verifies, and only then writes -/
theorem facts_finalize_order :
    idxOf Finalize_calls "makeHeader" < idxOf Finalize_calls "p.k.Seal" ∧
    idxOf Finalize_calls "p.k.Seal" < idxOf Finalize_calls "binary.LittleEndian.AppendUint32" ∧
    idxOf Finalize_calls "binary.LittleEndian.AppendUint32" < idxOf Finalize_calls "verifyHeader" ∧
    idxOf Finalize_calls "verifyHeader" < idxOf Finalize_calls "p.wr.Write" ∧
    idxOf Finalize_calls "p.wr.Write" < Finalize_calls.length := by decide

/-- `MaxHeaderEntries` is the number of full-size entries that fit -/
theorem facts_maxEntries :
    pack_MaxHeaderEntries = (pack_MaxHeaderSize - pack_headerSize) / pack_entrySize ∧
    pack_plainEntrySize ≤ pack_entrySize ∧ 0 < pack_entrySize ∧ pack_headerSize ≤ pack_MaxHeaderSize := by decide

/-! ## sizes -/

/-- total size of the header entries of `bs` -/
def entriesSize : List Blob → Nat
  | [] => 0
  | b :: bs => entrySizeOf b + entriesSize bs

theorem makeHeader_length (bs : List Blob) (hwf : AllWF bs) (h : Bytes) (hm : makeHeader bs = some h) :
    h.length = entriesSize bs := by
  induction bs generalizing h with
  | nil => simp only [makeHeader, Option.some.injEq] at hm; subst hm; rfl
  | cons b bs ih =>
    unfold makeHeader at hm
    cases he : encEntry b with
    | none => simp [he] at hm
    | some e =>
      cases hr : makeHeader bs with
      | none => simp [he, hr] at hm
      | some r =>
        simp only [he, hr, Option.some.injEq] at hm
        subst hm
        simp only [List.length_append, entriesSize,
          encEntry_length b e (hwf b (List.mem_cons_self ..)).id he,
          ih (fun b' hb' => hwf b' (List.mem_cons_of_mem _ hb')) r hr]

theorem makeHeader_isSome (bs : List Blob) (hwf : AllWF bs) : ∃ h, makeHeader bs = some h := by
  induction bs with
  | nil => exact ⟨[], rfl⟩
  | cons b bs ih =>
    obtain ⟨e, he⟩ := encEntry_isSome b (hwf b (List.mem_cons_self ..)).type
    obtain ⟨r, hr⟩ := ih (fun b' hb' => hwf b' (List.mem_cons_of_mem _ hb'))
    exact ⟨e ++ r, by simp [makeHeader, he, hr]⟩

theorem entriesSize_ge (bs : List Blob) (hne : bs ≠ []) : pack_plainEntrySize ≤ entriesSize bs := by
  have hf := facts_maxEntries
  cases bs with
  | nil => exact absurd rfl hne
  | cons b bs =>
    simp only [entriesSize, entrySizeOf]
    split <;> omega

theorem entriesSize_le (bs : List Blob) : entriesSize bs ≤ bs.length * pack_entrySize := by
  have hf := facts_maxEntries
  induction bs with
  | nil => simp [entriesSize]
  | cons b bs ih =>
    simp only [entriesSize, entrySizeOf, List.length_cons, Nat.add_mul, Nat.one_mul]
    split <;> omega

theorem calculateHeaderSize_eq (bs : List Blob) : calculateHeaderSize bs = pack_headerSize + entriesSize bs := by
  unfold calculateHeaderSize
  suffices h : ∀ s, bs.foldl (fun s b => s + (if b.ulen ≠ 0 then pack_entrySize else pack_plainEntrySize)) s
      = s + entriesSize bs from h _
  induction bs with
  | nil => intro s; rfl
  | cons b bs ih => intro s; simp only [List.foldl_cons, ih, entriesSize, entrySizeOf]; omega

/-! ## listing a finalized pack -/

theorem withOffsets_length (pos : Nat) (bs : List Blob) : (withOffsets pos bs).length = bs.length := by
  induction bs generalizing pos with
  | nil => rfl
  | cons b bs ih => simp [withOffsets, ih]

theorem zip_self_all (bs : List Blob) : (bs.zip bs).all (fun p => p.1 == p.2) = true := by
  induction bs with
  | nil => rfl
  | cons b bs ih => simp [ih]

/-- **Listing a well-formed trailer.** Any file that ends with `nonce ‖ seal(makeHeader bs) ‖
le32(len)` lists exactly `bs` (with cumulative offsets) and reports the trailer's size — whatever
precedes the trailer, for every number of entries up to the header limit. -/
theorem list_trailer (k : Crypto) (hk : Crypto.Lawful k) (pre nonce header : Bytes) (bs : List Blob)
    (hn : nonce.length = crypto_ivSize) (hwf : AllWF bs) (hne : bs ≠ [])
    (hm : makeHeader bs = some header)
    (hmax : header.length + pack_headerSize ≤ pack_MaxHeaderSize) :
    list k (pre ++ (nonce ++ k.sealB nonce header) ++ le32 (nonce ++ k.sealB nonce header).length)
        (pre ++ (nonce ++ k.sealB nonce header) ++ le32 (nonce ++ k.sealB nonce header).length).length
      = .ok (withOffsets 0 bs, header.length + pack_headerSize) := by
  obtain ⟨h4, hplain, hentry, hhs, hext, hmin, hmax32, _⟩ := facts_layout
  generalize hsealed : nonce ++ k.sealB nonce header = sealed
  have hL : sealed.length = header.length + crypto_Extension := by
    rw [← hsealed]; simp only [List.length_append, hk.seal_len, hn]; omega
  have hhl := makeHeader_length bs hwf header hm
  have hge := entriesSize_ge bs hne
  generalize hfile : pre ++ sealed ++ le32 sealed.length = file
  have hflen : file.length = pre.length + sealed.length + 4 := by
    rw [← hfile]; simp only [List.length_append, le32_length]
  have hdrop4 : file.drop (file.length - pack_headerLengthSize) = le32 sealed.length := by
    rw [← hfile]
    have : (pre ++ sealed ++ le32 sealed.length).length - pack_headerLengthSize = (pre ++ sealed).length := by
      simp only [List.length_append, le32_length]; omega
    rw [this, List.drop_left]
  have hhdr : headerOf file = .ok sealed := by
    unfold headerOf
    simp only [hdrop4]
    rw [unle32_le32_of_lt _ (by omega)]
    have c0 : ¬ file.length < pack_minFileSize := by omega
    have c1 : ¬ sealed.length = 0 := by omega
    have c2 : ¬ sealed.length < crypto_Extension := by omega
    have c3 : ¬ sealed.length + pack_headerLengthSize > file.length := by omega
    have c4 : ¬ sealed.length + pack_headerLengthSize > pack_MaxHeaderSize := by omega
    simp only [c0, c1, c2, c3, c4, if_false]
    congr 1
    have : file.length - pack_headerLengthSize - sealed.length = pre.length := by omega
    rw [this, ← hfile, List.append_assoc, List.drop_left, List.take_left]
  unfold list
  rw [readHeader_eq, hhdr]
  simp only
  have c5 : ¬ sealed.length < crypto_Extension := by omega
  simp only [c5, if_false]
  have hs1 : slice? sealed 0 crypto_ivSize = some nonce := by
    rw [slice?_ok _ _ _ (by omega) (by omega), ← hsealed, ← hn]; simp
  have hs2 : from? sealed crypto_ivSize = some (k.sealB nonce header) := by
    rw [from?_ok _ _ (by omega), ← hsealed, ← hn]; simp
  rw [hs1, hs2]
  simp only [hk.open_seal nonce header hn]
  rw [parseLoop_makeHeader bs hwf header hm header.length (Nat.le_refl _) 0]
  simp only
  congr 2
  rw [Nat.mod_eq_of_lt (by omega)]
  omega

/-- **Finalize succeeds and writes exactly the trailer** for well-formed blobs with consistent
offsets, as long as the header fits. -/
theorem finalize_ok (k : Crypto) (hk : Crypto.Lawful k) (nonce : Bytes) (bs : List Blob)
    (hn : nonce.length = crypto_ivSize) (hwf : AllWF bs) (hne : bs ≠ []) (hoff : withOffsets 0 bs = bs)
    (hmax : entriesSize bs + pack_headerSize ≤ pack_MaxHeaderSize) :
    ∃ header, makeHeader bs = some header ∧
      finalize k nonce bs =
        .ok ((nonce ++ k.sealB nonce header) ++ le32 (nonce ++ k.sealB nonce header).length) := by
  obtain ⟨h4, hplain, hentry, hhs, hext, hmin, hmax32, _⟩ := facts_layout
  obtain ⟨header, hm⟩ := makeHeader_isSome bs hwf
  have hhl := makeHeader_length bs hwf header hm
  refine ⟨header, hm, ?_⟩
  unfold finalize
  simp only [hm]
  have hl := list_trailer k hk [] nonce header bs hn hwf hne hm (by omega)
  simp only [List.nil_append] at hl
  unfold verifyHeader
  rw [hl]
  simp only
  have hlen : ((nonce ++ k.sealB nonce header) ++ le32 (nonce ++ k.sealB nonce header).length).length
      = header.length + pack_headerSize := by
    simp only [List.length_append, le32_length, hk.seal_len, hn]; omega
  rw [hlen, Nat.mod_eq_of_lt (by omega)]
  simp only [ne_eq, not_true_eq_false, if_false, hoff, zip_self_all, if_true]

/-! ## the packer -/

/-- running sum of the stored lengths -/
def totalLength : List Blob → Nat
  | [] => 0
  | b :: bs => b.length + totalLength bs

theorem withOffsets_append (pos : Nat) (as bs : List Blob) :
    withOffsets pos (as ++ bs) = withOffsets pos as ++ withOffsets (pos + totalLength as) bs := by
  induction as generalizing pos with
  | nil => simp [withOffsets, totalLength]
  | cons a as ih => simp only [List.cons_append, withOffsets, ih, totalLength]; rw [Nat.add_assoc]

theorem totalLength_append (as bs : List Blob) : totalLength (as ++ bs) = totalLength as + totalLength bs := by
  induction as with
  | nil => simp [totalLength]
  | cons a as ih => simp only [List.cons_append, totalLength, ih]; omega

/-- invariant of a packer: offsets are cumulative, `bytes` and the written data agree -/
structure Packer.Inv (p : Packer) : Prop where
  offsets : withOffsets 0 p.blobs = p.blobs
  bytes : p.bytes = totalLength p.blobs
  out : p.out.length = p.bytes

theorem Packer.inv_empty : Packer.Inv {} := ⟨rfl, rfl, rfl⟩

theorem Packer.inv_add (p : Packer) (hp : Packer.Inv p) (t : Nat) (id data : Bytes) (ulen : Nat) :
    Packer.Inv (p.add t id data ulen) := by
  obtain ⟨h1, h2, h3⟩ := hp
  refine ⟨?_, ?_, ?_⟩
  · simp only [Packer.add, withOffsets_append, h1, withOffsets, Nat.zero_add, h2]
  · simp only [Packer.add, totalLength_append, totalLength, h2]; omega
  · simp only [Packer.add, List.length_append, h3]

/-- a sequence of `Add` calls: (type, id, data, uncompressed length) -/
abbrev AddCall := Nat × Bytes × Bytes × Nat

def addAll (p : Packer) (adds : List AddCall) : Packer :=
  adds.foldl (fun p a => p.add a.1 a.2.1 a.2.2.1 a.2.2.2) p

/-- the well-formedness the header format needs of an `Add` call -/
def AddOK (a : AddCall) : Prop :=
  (a.1 = restic_DataBlob ∨ a.1 = restic_TreeBlob) ∧ a.2.1.length = restic_idSize ∧
  a.2.2.1.length < 4294967296 ∧ a.2.2.2 < 4294967296

theorem addAll_inv (p : Packer) (hp : Packer.Inv p) (adds : List AddCall) : Packer.Inv (addAll p adds) := by
  induction adds generalizing p with
  | nil => exact hp
  | cons a as ih => exact ih _ (Packer.inv_add p hp _ _ _ _)

theorem addAll_blobs (p : Packer) (hp : Packer.Inv p) (adds : List AddCall) :
    (addAll p adds).blobs = p.blobs ++
      expectedListing p.bytes (adds.map fun a => (a.1, a.2.1, a.2.2.1.length, a.2.2.2)) ∧
    (addAll p adds).out = p.out ++ (adds.map (·.2.2.1)).flatten := by
  induction adds generalizing p with
  | nil => simp [addAll, expectedListing]
  | cons a as ih =>
    have := ih (p.add a.1 a.2.1 a.2.2.1 a.2.2.2) (Packer.inv_add p hp _ _ _ _)
    simp only [addAll, List.foldl_cons] at this ⊢
    rw [this.1, this.2]
    simp [Packer.add, expectedListing]

theorem expectedListing_wf (pos : Nat) (adds : List AddCall) (h : ∀ a ∈ adds, AddOK a) :
    AllWF (expectedListing pos (adds.map fun a => (a.1, a.2.1, a.2.2.1.length, a.2.2.2))) := by
  induction adds generalizing pos with
  | nil => intro b hb; cases hb
  | cons a as ih =>
    intro b hb
    simp only [List.map_cons, expectedListing, List.mem_cons] at hb
    rcases hb with rfl | hb
    · obtain ⟨h1, h2, h3, h4⟩ := h a (List.mem_cons_self ..)
      exact ⟨h1, h2, h3, h4⟩
    · exact ih _ (fun a' ha' => h a' (List.mem_cons_of_mem _ ha')) b hb

/-- **Main theorem (`list_finalize`).** For every non-empty sequence of `Add` calls with data/tree
types, 32-byte ids and 32-bit lengths whose header fits into `MaxHeaderSize`: `Finalize` succeeds,
and `List` on the resulting pack file returns exactly the blobs added — same order, types, ids,
stored and uncompressed lengths, offsets equal to the running sum of the stored lengths — and a
header size that is exactly the number of bytes `Finalize` appended (`headerSize` plus the entry
sizes); the file is the concatenation of the blob data followed by that header. -/
theorem list_finalize (k : Crypto) (hk : Crypto.Lawful k) (nonce : Bytes) (adds : List AddCall)
    (hn : nonce.length = crypto_ivSize) (hne : adds ≠ []) (hok : ∀ a ∈ adds, AddOK a)
    (hmax : entriesSize (addAll {} adds).blobs + pack_headerSize ≤ pack_MaxHeaderSize) :
    let p := addAll {} adds
    let expected := expectedListing 0 (adds.map fun a => (a.1, a.2.1, a.2.2.1.length, a.2.2.2))
    ∃ p' : Packer, p.finalize k nonce = .ok p' ∧
      p.blobs = expected ∧
      list k p'.out p'.out.length = .ok (expected, pack_headerSize + entriesSize expected) ∧
      p'.out.length = totalLength expected + (pack_headerSize + entriesSize expected) ∧
      p'.out.take (totalLength expected) = (adds.map (·.2.2.1)).flatten ∧
      p'.bytes = p'.out.length := by
  intro p expected
  have hmax' : entriesSize p.blobs + pack_headerSize ≤ pack_MaxHeaderSize := hmax
  have hinv : Packer.Inv p := addAll_inv {} Packer.inv_empty adds
  obtain ⟨hblobs, hout⟩ := addAll_blobs {} Packer.inv_empty adds
  have hb : p.blobs = expected := by simpa using hblobs
  have hout' : p.out = (adds.map (·.2.2.1)).flatten := by simpa using hout
  have hwf : AllWF p.blobs := by rw [hb]; exact expectedListing_wf 0 adds hok
  have hne' : p.blobs ≠ [] := by
    rw [hb]
    cases adds with
    | nil => exact absurd rfl hne
    | cons a as => simp [expected, expectedListing]
  obtain ⟨header, hm, hfin⟩ := finalize_ok k hk nonce p.blobs hn hwf hne' hinv.offsets hmax'
  have hhl := makeHeader_length p.blobs hwf header hm
  obtain ⟨h4, hplain, hentry, hhs, hext, hmin, hmax32, _⟩ := facts_layout
  have htl : (nonce ++ k.sealB nonce header ++ le32 (nonce ++ k.sealB nonce header).length).length
      = pack_headerSize + entriesSize p.blobs := by
    simp only [List.length_append, le32_length, hk.seal_len, hn]; omega
  refine ⟨{ p with bytes := p.bytes + (nonce ++ k.sealB nonce header ++ le32 (nonce ++ k.sealB nonce header).length).length,
                   out := p.out ++ (nonce ++ k.sealB nonce header ++ le32 (nonce ++ k.sealB nonce header).length) },
    by simp [Packer.finalize, hfin], hb, ?_, ?_, ?_, ?_⟩
  · have := list_trailer k hk p.out nonce header p.blobs hn hwf hne' hm (by omega)
    simp only [← List.append_assoc] at this ⊢
    rw [this, hinv.offsets, hb, hhl, hb]
    congr 2; omega
  · simp only [List.length_append] at htl ⊢
    simp only [hinv.out, hinv.bytes, hb] at htl ⊢
    omega
  · have : totalLength expected = p.out.length := by rw [hinv.out, hinv.bytes, hb]
    simp only
    rw [this, List.take_left, hout']
  · simp only [List.length_append, hinv.out]


/-! ## totality: no input makes `List` panic -/

/-- **No panic.** For every cipher behaviour, every byte string and every claimed size, `List`
returns entries or an error: no slice expression is ever out of range and the parse loop always
terminates within its fuel. -/
theorem list_no_panic (k : Crypto) (file : Bytes) (size : Nat) : list k file size ≠ .panic := by
  obtain ⟨h4, hplain, hentry, hhs, hext, hmin, hmax32, _⟩ := facts_layout
  unfold list
  have hr := readHeader_no_panic file size
  cases hrh : readHeader file size with
  | panic => exact absurd hrh hr
  | err e => simp
  | ok buf =>
    simp only
    by_cases hl : buf.length < crypto_Extension
    · simp [hl]
    · simp only [hl, if_false]
      rw [slice?_ok _ _ _ (by omega) (by omega), from?_ok _ _ (by omega)]
      simp only
      cases k.openB ((buf.take crypto_ivSize).drop 0) (buf.drop crypto_ivSize) with
      | none => simp
      | some plain =>
        simp only
        have hp := parseLoop_no_panic plain.length plain 0 (Nat.le_refl _)
        cases hpl : parseLoop plain.length plain 0 with
        | panic => exact absurd hpl hp
        | err e => simp
        | ok es => simp

theorem verifyHeader_no_panic (k : Crypto) (enc : Bytes) (bs : List Blob) : verifyHeader k enc bs ≠ .panic := by
  unfold verifyHeader
  have hl := list_no_panic k enc enc.length
  cases hle : list k enc enc.length with
  | panic => exact absurd hle hl
  | err e => simp
  | ok r =>
    obtain ⟨decoded, hs⟩ := r
    simp only
    repeat' split
    all_goals simp

/-- `Finalize` cannot panic either (whatever the nonce and the blobs) -/
theorem finalize_no_panic (k : Crypto) (nonce : Bytes) (bs : List Blob) : finalize k nonce bs ≠ .panic := by
  unfold finalize
  cases makeHeader bs with
  | none => simp
  | some header =>
    simp only
    generalize nonce ++ k.sealB nonce header ++ le32 (nonce ++ k.sealB nonce header).length = enc
    have hv := verifyHeader_no_panic k enc bs
    cases hvv : verifyHeader k enc bs with
    | panic => exact absurd hvv hv
    | err e => simp
    | ok u => cases u; simp

/-! ## rejection of malformed trailers -/

/-- every guard of the trailer reader turns into the corresponding error of `List` -/
theorem list_of_headerOf_err (k : Crypto) (file : Bytes) (e : Err) (h : headerOf file = .err e) :
    list k file file.length = .err e := by
  unfold list
  rw [readHeader_eq, h]

/-- a file shorter than the smallest possible pack is rejected -/
theorem list_too_short (k : Crypto) (file : Bytes) (h : file.length < pack_minFileSize) :
    list k file file.length = .err .fileTooShort :=
  list_of_headerOf_err k file _ (by unfold headerOf; simp [h])

/-- the length field (last four bytes, little endian) decides: zero, smaller than the crypto
overhead, larger than what precedes it, or larger than `MaxHeaderSize - 4` are all rejected -/
theorem list_bad_length_field (k : Crypto) (file : Bytes) (hn : pack_minFileSize ≤ file.length) :
    let hlen := unle32 (file.drop (file.length - pack_headerLengthSize))
    (hlen = 0 → list k file file.length = .err .hlenZero) ∧
    (0 < hlen → hlen < crypto_Extension → list k file file.length = .err .hlenTooShort) ∧
    (crypto_Extension ≤ hlen → file.length < hlen + pack_headerLengthSize →
      list k file file.length = .err .hlenLargerThanFile) ∧
    (crypto_Extension ≤ hlen → hlen + pack_headerLengthSize ≤ file.length →
      pack_MaxHeaderSize < hlen + pack_headerLengthSize → list k file file.length = .err .hlenLargerThanMax) := by
  obtain ⟨h4, hplain, hentry, hhs, hext, hmin, hmax32, _⟩ := facts_layout
  intro hlen
  have hext0 : 0 < crypto_Extension := by decide
  have hs : ¬ file.length < pack_minFileSize := by omega
  refine ⟨fun h0 => ?_, fun h1 h2 => ?_, fun h1 h2 => ?_, fun h1 h2 h3 => ?_⟩ <;>
    apply list_of_headerOf_err <;> unfold headerOf <;> simp only [hs, if_false]
  · have : unle32 (file.drop (file.length - pack_headerLengthSize)) = 0 := h0
    simp [this]
  · have e0 : ¬ unle32 (file.drop (file.length - pack_headerLengthSize)) = 0 := by show ¬ hlen = 0; omega
    have e1 : unle32 (file.drop (file.length - pack_headerLengthSize)) < crypto_Extension := h2
    simp [e0, e1]
  · have e0 : ¬ unle32 (file.drop (file.length - pack_headerLengthSize)) = 0 := by show ¬ hlen = 0; omega
    have e1 : ¬ unle32 (file.drop (file.length - pack_headerLengthSize)) < crypto_Extension := by show ¬ hlen < _; omega
    have e2 : unle32 (file.drop (file.length - pack_headerLengthSize)) + pack_headerLengthSize > file.length := h2
    simp [e0, e1, e2]
  · have e0 : ¬ unle32 (file.drop (file.length - pack_headerLengthSize)) = 0 := by show ¬ hlen = 0; omega
    have e1 : ¬ unle32 (file.drop (file.length - pack_headerLengthSize)) < crypto_Extension := by show ¬ hlen < _; omega
    have e2 : ¬ unle32 (file.drop (file.length - pack_headerLengthSize)) + pack_headerLengthSize > file.length := by
      show ¬ hlen + _ > _; omega
    have e3 : unle32 (file.drop (file.length - pack_headerLengthSize)) + pack_headerLengthSize > pack_MaxHeaderSize := h3
    simp [e0, e1, e2, e3]

theorem le32_unle32 (b : Bytes) (h : b.length = 4) : le32 (unle32 b) = b := by
  match b, h with
  | [a, b, c, d], _ =>
    have := a.toNat_lt; have := b.toNat_lt; have := c.toNat_lt; have := d.toNat_lt
    simp only [le32, unle32]
    have e1 : (a.toNat + 256 * b.toNat + 65536 * c.toNat + 16777216 * d.toNat) % 256 = a.toNat := by omega
    have e2 : (a.toNat + 256 * b.toNat + 65536 * c.toNat + 16777216 * d.toNat) / 256 % 256 = b.toNat := by omega
    have e3 : (a.toNat + 256 * b.toNat + 65536 * c.toNat + 16777216 * d.toNat) / 65536 % 256 = c.toNat := by omega
    have e4 : (a.toNat + 256 * b.toNat + 65536 * c.toNat + 16777216 * d.toNat) / 16777216 % 256 = d.toNat := by omega
    rw [e1, e2, e3, e4]
    simp

/-- **Soundness of a listing (no wrong listing).** Whenever `List` returns entries for a file, the
file ends with `nonce ‖ ct ‖ le32(|nonce ‖ ct|)` where `ct` was accepted by the cipher's `Open`
(MAC check) under `nonce`; the entries are the parse of that authenticated plaintext, are
well-formed, carry cumulative offsets, and the reported size is exactly that trailer, within
`MaxHeaderSize`. So a truncated, extended or edited file can only be listed if the bytes in front
of its (new) end still authenticate — which the MAC excludes. -/
theorem list_ok_authentic (k : Crypto) (file : Bytes) (es : List Blob) (hs : Nat)
    (h : list k file file.length = .ok (es, hs)) :
    ∃ pre nonce ct plain,
      file = pre ++ (nonce ++ ct) ++ le32 (nonce ++ ct).length ∧ nonce.length = crypto_ivSize ∧
      k.openB nonce ct = some plain ∧ parseLoop plain.length plain 0 = .ok es ∧
      hs = (nonce ++ ct).length + pack_headerLengthSize ∧ hs ≤ pack_MaxHeaderSize ∧
      AllWF es ∧ withOffsets 0 es = es := by
  obtain ⟨h4, hplain, hentry, hhs, hext, hmin, hmax32, _⟩ := facts_layout
  unfold list at h
  rw [readHeader_eq] at h
  unfold headerOf at h
  simp only at h
  by_cases c0 : file.length < pack_minFileSize
  · simp [c0] at h
  simp only [c0, if_false] at h
  generalize hh : unle32 (file.drop (file.length - pack_headerLengthSize)) = hlen at h
  by_cases c1 : hlen = 0
  · simp [c1] at h
  by_cases c2 : hlen < crypto_Extension
  · simp [c1, c2] at h
  by_cases c3 : hlen + pack_headerLengthSize > file.length
  · simp [c1, c2, c3] at h
  by_cases c4 : hlen + pack_headerLengthSize > pack_MaxHeaderSize
  · simp [c1, c2, c3, c4] at h
  simp only [c1, c2, c3, c4, if_false] at h
  generalize hbuf : (file.drop (file.length - pack_headerLengthSize - hlen)).take hlen = buf at h
  have hbl : buf.length = hlen := by
    rw [← hbuf]; simp only [List.length_take, List.length_drop]; omega
  have c5 : ¬ buf.length < crypto_Extension := by omega
  simp only [c5, if_false] at h
  rw [slice?_ok _ _ _ (by omega) (by omega), from?_ok _ _ (by omega)] at h
  simp only [List.drop_zero] at h
  cases ho : k.openB (buf.take crypto_ivSize) (buf.drop crypto_ivSize) with
  | none => simp [ho] at h
  | some plain =>
    simp only [ho] at h
    rcases parseLoop_cases plain.length plain 0 (Nat.le_refl _) with (hp | hp) | ⟨es', hp, hwf, hoff⟩
    · simp [hp] at h
    · simp [hp] at h
    · simp only [hp, Res.ok.injEq, Prod.mk.injEq] at h
      obtain ⟨rfl, hhs'⟩ := h
      refine ⟨file.take (file.length - pack_headerLengthSize - hlen), buf.take crypto_ivSize,
        buf.drop crypto_ivSize, plain, ?_, ?_, ho, hp, ?_, ?_, hwf, hoff⟩
      · have hb : buf.take crypto_ivSize ++ buf.drop crypto_ivSize = buf := List.take_append_drop _ _
        have h4' : (file.drop (file.length - pack_headerLengthSize)).length = 4 := by
          simp only [List.length_drop]; omega
        have e1 : file.drop (file.length - pack_headerLengthSize) =
            (file.drop (file.length - pack_headerLengthSize - hlen)).drop hlen := by
          rw [List.drop_drop]; congr 1; omega
        have e0 : le32 hlen = file.drop (file.length - pack_headerLengthSize) := by
          rw [← hh, le32_unle32 _ h4']
        rw [hb, hbl, e0, e1, ← hbuf, List.append_assoc, List.take_append_drop, List.take_append_drop]
      · simp only [List.length_take]; omega
      · rw [← hhs', List.take_append_drop, hbl, Nat.mod_eq_of_lt (by omega)]; omega
      · rw [← hhs', hbl, Nat.mod_eq_of_lt (by omega)]; omega

theorem headerOf_cases (file : Bytes) :
    (headerOf file = .err .fileTooShort ∨ headerOf file = .err .hlenZero ∨ headerOf file = .err .hlenTooShort ∨
      headerOf file = .err .hlenLargerThanFile ∨ headerOf file = .err .hlenLargerThanMax) ∨
    (∃ buf, headerOf file = .ok buf ∧ crypto_Extension ≤ buf.length) := by
  obtain ⟨h4, hplain, hentry, hhs, hext, hmin, hmax32, _⟩ := facts_layout
  unfold headerOf
  simp only
  by_cases c0 : file.length < pack_minFileSize
  · simp [c0]
  simp only [c0, if_false]
  generalize unle32 (file.drop (file.length - pack_headerLengthSize)) = hlen
  by_cases c1 : hlen = 0
  · simp [c1]
  by_cases c2 : hlen < crypto_Extension
  · simp [c1, c2]
  by_cases c3 : hlen + pack_headerLengthSize > file.length
  · simp [c1, c2, c3]
  by_cases c4 : hlen + pack_headerLengthSize > pack_MaxHeaderSize
  · simp [c1, c2, c3, c4]
  right
  simp only [c1, c2, c3, c4, if_false]
  refine ⟨_, rfl, ?_⟩
  simp only [List.length_take, List.length_drop]
  omega

/-- the error "invalid header, too short" of `List` is unreachable when the size is the file's
length: the length-field guard has already excluded it -/
theorem list_never_headerTooShort (k : Crypto) (file : Bytes) :
    list k file file.length ≠ .err .headerTooShort := by
  obtain ⟨h4, hplain, hentry, hhs, hext, hmin, hmax32, _⟩ := facts_layout
  intro h
  unfold list at h
  rw [readHeader_eq] at h
  rcases headerOf_cases file with (hh | hh | hh | hh | hh) | ⟨buf, hh, hbl⟩
  · simp [hh] at h
  · simp [hh] at h
  · simp [hh] at h
  · simp [hh] at h
  · simp [hh] at h
  · have hbl' : ¬ buf.length < crypto_Extension := by omega
    simp only [hh, hbl', if_false] at h
    rw [slice?_ok _ _ _ (by omega) (by omega), from?_ok _ _ (by omega)] at h
    simp only [List.drop_zero] at h
    cases ho : k.openB (buf.take crypto_ivSize) (buf.drop crypto_ivSize) with
    | none => simp [ho] at h
    | some plain =>
      simp only [ho] at h
      rcases parseLoop_cases plain.length plain 0 (Nat.le_refl _) with (hp | hp) | ⟨es', hp, _⟩
      · simp [hp] at h
      · simp [hp] at h
      · simp [hp] at h

end Restic.Props.C06
