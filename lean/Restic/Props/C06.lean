import Restic.Proofs.C06_Parse
import Restic.Gen.Source
/-!
# C06 — Pack files list back exactly the blobs written into them

Theorems about `Restic.Model.Pack` (byte-exact transcription of Packer.Add / Finalize / makeHeader /
verifyHeader / HeaderFull and List / readHeader / readRecords / parseHeaderEntry). They hold for
**all** blob sequences (any number of blobs, any mix of compressed / uncompressed entries, any
32-byte ids, any blob data), all files (`List UInt8`) and every nonce of the right size; the layout
constants are the regenerated `Restic.Gen` facts. The cipher is a parameter with the laws
`Crypto.Lawful` (decrypting what was sealed returns it; sealing adds `crypto_macSize` bytes).
-/
namespace Restic.Props.C06
open Restic.Model.Pack Restic.Gen Restic.Proofs.C06

structure Crypto.Lawful (k : Crypto) : Prop where
  open_seal : ∀ n p, n.length = crypto_ivSize → k.openB n (k.sealB n p) = some p
  seal_len : ∀ n p, (k.sealB n p).length = p.length + crypto_macSize

/-! ## Regenerated facts (T1) -/

/-- the type-byte table of the writer … -/
theorem facts_makeHeader_cases : makeHeader_cases =
    ["b.Type == restic.DataBlob && b.UncompressedLength == 0",
     "b.Type == restic.TreeBlob && b.UncompressedLength == 0",
     "b.Type == restic.DataBlob && b.UncompressedLength != 0",
     "b.Type == restic.TreeBlob && b.UncompressedLength != 0", "default"] := by decide

/-- … and of the reader -/
theorem facts_parseHeaderEntry_cases : Restic.Gen.parseHeaderEntry_cases = ["0", "2", "1", "3", "default"] := by decide

/-- the four guards of `readRecords`, in this order -/
theorem facts_readRecords_cases : readRecords_cases =
    ["hlen == 0", "hlen < crypto.Extension", "int64(hlen) > size-int64(headerLengthSize)",
     "int64(hlen) > MaxHeaderSize-int64(headerLengthSize)"] := by decide

private def idxOf (l : List String) (s : String) : Nat := l.findIdx (· == s)

/-- `Finalize` builds the header, seals it, appends the length, verifies, and only then writes -/
theorem facts_finalize_order :
    idxOf Finalize_calls "makeHeader" < idxOf Finalize_calls "p.k.Seal" ∧
    idxOf Finalize_calls "p.k.Seal" < idxOf Finalize_calls "binary.LittleEndian.AppendUint32" ∧
    idxOf Finalize_calls "binary.LittleEndian.AppendUint32" < idxOf Finalize_calls "verifyHeader" ∧
    idxOf Finalize_calls "verifyHeader" < idxOf Finalize_calls "p.wr.Write" ∧
    idxOf Finalize_calls "p.wr.Write" < Finalize_calls.length := by decide

/-- `MaxHeaderEntries` is the number of full-size entries that fit -/
theorem facts_maxEntries :
    pack_MaxHeaderEntries = (pack_MaxHeaderSize - pack_headerSize) / pack_entrySize ∧
    pack_plainEntrySize ≤ pack_entrySize ∧ 0 < pack_entrySize ∧ pack_headerSize ≤ pack_MaxHeaderSize := by decide

/-! ## sizes -/

/-- total size of the header entries of `bs` -/
def entriesSize : List Blob → Nat
  | [] => 0
  | b :: bs => entrySizeOf b + entriesSize bs

theorem makeHeader_length (bs : List Blob) (hwf : AllWF bs) (h : Bytes) (hm : makeHeader bs = some h) :
    h.length = entriesSize bs := by
  induction bs generalizing h with
  | nil => simp only [makeHeader, Option.some.injEq] at hm; subst hm; rfl
  | cons b bs ih =>
    unfold makeHeader at hm
    cases he : encEntry b with
    | none => simp [he] at hm
    | some e =>
      cases hr : makeHeader bs with
      | none => simp [he, hr] at hm
      | some r =>
        simp only [he, hr, Option.some.injEq] at hm
        subst hm
        simp only [List.length_append, entriesSize,
          encEntry_length b e (hwf b (List.mem_cons_self ..)).id he,
          ih (fun b' hb' => hwf b' (List.mem_cons_of_mem _ hb')) r hr]

theorem makeHeader_isSome (bs : List Blob) (hwf : AllWF bs) : ∃ h, makeHeader bs = some h := by
  induction bs with
  | nil => exact ⟨[], rfl⟩
  | cons b bs ih =>
    obtain ⟨e, he⟩ := encEntry_isSome b (hwf b (List.mem_cons_self ..)).type
    obtain ⟨r, hr⟩ := ih (fun b' hb' => hwf b' (List.mem_cons_of_mem _ hb'))
    exact ⟨e ++ r, by simp [makeHeader, he, hr]⟩

theorem entriesSize_ge (bs : List Blob) (hne : bs ≠ []) : pack_plainEntrySize ≤ entriesSize bs := by
  have hf := facts_maxEntries
  cases bs with
  | nil => exact absurd rfl hne
  | cons b bs =>
    simp only [entriesSize, entrySizeOf]
    split <;> omega

theorem entriesSize_le (bs : List Blob) : entriesSize bs ≤ bs.length * pack_entrySize := by
  have hf := facts_maxEntries
  induction bs with
  | nil => simp [entriesSize]
  | cons b bs ih =>
    simp only [entriesSize, entrySizeOf, List.length_cons, Nat.add_mul, Nat.one_mul]
    split <;> omega

theorem calculateHeaderSize_eq (bs : List Blob) : calculateHeaderSize bs = pack_headerSize + entriesSize bs := by
  unfold calculateHeaderSize
  suffices h : ∀ s, bs.foldl (fun s b => s + (if b.ulen ≠ 0 then pack_entrySize else pack_plainEntrySize)) s
      = s + entriesSize bs from h _
  induction bs with
  | nil => intro s; rfl
  | cons b bs ih => intro s; simp only [List.foldl_cons, ih, entriesSize, entrySizeOf]; omega

/-! ## listing a finalized pack -/

theorem withOffsets_length (pos : Nat) (bs : List Blob) : (withOffsets pos bs).length = bs.length := by
  induction bs generalizing pos with
  | nil => rfl
  | cons b bs ih => simp [withOffsets, ih]

theorem zip_self_all (bs : List Blob) : (bs.zip bs).all (fun p => p.1 == p.2) = true := by
  induction bs with
  | nil => rfl
  | cons b bs ih => simp [ih]

/-- **Listing a well-formed trailer.** Any file that ends with `nonce ‖ seal(makeHeader bs) ‖
le32(len)` lists exactly `bs` (with cumulative offsets) and reports the trailer's size — whatever
precedes the trailer, for every number of entries up to the header limit. -/
theorem list_trailer (k : Crypto) (hk : Crypto.Lawful k) (pre nonce header : Bytes) (bs : List Blob)
    (hn : nonce.length = crypto_ivSize) (hwf : AllWF bs) (hne : bs ≠ [])
    (hm : makeHeader bs = some header)
    (hmax : header.length + pack_headerSize ≤ pack_MaxHeaderSize) :
    list k (pre ++ (nonce ++ k.sealB nonce header) ++ le32 (nonce ++ k.sealB nonce header).length)
        (pre ++ (nonce ++ k.sealB nonce header) ++ le32 (nonce ++ k.sealB nonce header).length).length
      = .ok (withOffsets 0 bs, header.length + pack_headerSize) := by
  obtain ⟨h4, hplain, hentry, hhs, hext, hmin, hmax32, _⟩ := facts_layout
  generalize hsealed : nonce ++ k.sealB nonce header = sealed
  have hL : sealed.length = header.length + crypto_Extension := by
    rw [← hsealed]; simp only [List.length_append, hk.seal_len, hn]; omega
  have hhl := makeHeader_length bs hwf header hm
  have hge := entriesSize_ge bs hne
  generalize hfile : pre ++ sealed ++ le32 sealed.length = file
  have hflen : file.length = pre.length + sealed.length + 4 := by
    rw [← hfile]; simp only [List.length_append, le32_length]
  have hdrop4 : file.drop (file.length - pack_headerLengthSize) = le32 sealed.length := by
    rw [← hfile]
    have : (pre ++ sealed ++ le32 sealed.length).length - pack_headerLengthSize = (pre ++ sealed).length := by
      simp only [List.length_append, le32_length]; omega
    rw [this, List.drop_left]
  have hhdr : headerOf file = .ok sealed := by
    unfold headerOf
    simp only [hdrop4]
    rw [unle32_le32_of_lt _ (by omega)]
    have c0 : ¬ file.length < pack_minFileSize := by omega
    have c1 : ¬ sealed.length = 0 := by omega
    have c2 : ¬ sealed.length < crypto_Extension := by omega
    have c3 : ¬ sealed.length + pack_headerLengthSize > file.length := by omega
    have c4 : ¬ sealed.length + pack_headerLengthSize > pack_MaxHeaderSize := by omega
    simp only [c0, c1, c2, c3, c4, if_false]
    congr 1
    have : file.length - pack_headerLengthSize - sealed.length = pre.length := by omega
    rw [this, ← hfile, List.append_assoc, List.drop_left, List.take_left]
  unfold list
  rw [readHeader_eq, hhdr]
  simp only
  have c5 : ¬ sealed.length < crypto_Extension := by omega
  simp only [c5, if_false]
  have hs1 : slice? sealed 0 crypto_ivSize = some nonce := by
    rw [slice?_ok _ _ _ (by omega) (by omega), ← hsealed, ← hn]; simp
  have hs2 : from? sealed crypto_ivSize = some (k.sealB nonce header) := by
    rw [from?_ok _ _ (by omega), ← hsealed, ← hn]; simp
  rw [hs1, hs2]
  simp only [hk.open_seal nonce header hn]
  rw [parseLoop_makeHeader bs hwf header hm header.length (Nat.le_refl _) 0]
  simp only
  congr 2
  rw [Nat.mod_eq_of_lt (by omega)]
  omega

/-- **Finalize succeeds and writes exactly the trailer** for well-formed blobs with consistent
offsets, as long as the header fits. -/
theorem finalize_ok (k : Crypto) (hk : Crypto.Lawful k) (nonce : Bytes) (bs : List Blob)
    (hn : nonce.length = crypto_ivSize) (hwf : AllWF bs) (hne : bs ≠ []) (hoff : withOffsets 0 bs = bs)
    (hmax : entriesSize bs + pack_headerSize ≤ pack_MaxHeaderSize) :
    ∃ header, makeHeader bs = some header ∧
      finalize k nonce bs =
        .ok ((nonce ++ k.sealB nonce header) ++ le32 (nonce ++ k.sealB nonce header).length) := by
  obtain ⟨h4, hplain, hentry, hhs, hext, hmin, hmax32, _⟩ := facts_layout
  obtain ⟨header, hm⟩ := makeHeader_isSome bs hwf
  have hhl := makeHeader_length bs hwf header hm
  refine ⟨header, hm, ?_⟩
  unfold finalize
  simp only [hm]
  have hl := list_trailer k hk [] nonce header bs hn hwf hne hm (by omega)
  simp only [List.nil_append] at hl
  unfold verifyHeader
  rw [hl]
  simp only
  have hlen : ((nonce ++ k.sealB nonce header) ++ le32 (nonce ++ k.sealB nonce header).length).length
      = header.length + pack_headerSize := by
    simp only [List.length_append, le32_length, hk.seal_len, hn]; omega
  rw [hlen, Nat.mod_eq_of_lt (by omega)]
  simp only [ne_eq, not_true_eq_false, if_false, hoff, zip_self_all, if_true]

/-! ## the packer -/

/-- running sum of the stored lengths -/
def totalLength : List Blob → Nat
  | [] => 0
  | b :: bs => b.length + totalLength bs

theorem withOffsets_append (pos : Nat) (as bs : List Blob) :
    withOffsets pos (as ++ bs) = withOffsets pos as ++ withOffsets (pos + totalLength as) bs := by
  induction as generalizing pos with
  | nil => simp [withOffsets, totalLength]
  | cons a as ih => simp only [List.cons_append, withOffsets, ih, totalLength]; rw [Nat.add_assoc]

theorem totalLength_append (as bs : List Blob) : totalLength (as ++ bs) = totalLength as + totalLength bs := by
  induction as with
  | nil => simp [totalLength]
  | cons a as ih => simp only [List.cons_append, totalLength, ih]; omega

/-- invariant of a packer: offsets are cumulative, `bytes` and the written data agree -/
structure Packer.Inv (p : Packer) : Prop where
  offsets : withOffsets 0 p.blobs = p.blobs
  bytes : p.bytes = totalLength p.blobs
  out : p.out.length = p.bytes

theorem Packer.inv_empty : Packer.Inv {} := ⟨rfl, rfl, rfl⟩

theorem Packer.inv_add (p : Packer) (hp : Packer.Inv p) (t : Nat) (id data : Bytes) (ulen : Nat) :
    Packer.Inv (p.add t id data ulen) := by
  obtain ⟨h1, h2, h3⟩ := hp
  refine ⟨?_, ?_, ?_⟩
  · simp only [Packer.add, withOffsets_append, h1, withOffsets, Nat.zero_add, h2]
  · simp only [Packer.add, totalLength_append, totalLength, h2]; omega
  · simp only [Packer.add, List.length_append, h3]

/-- a sequence of `Add` calls: (type, id, data, uncompressed length) -/
abbrev AddCall := Nat × Bytes × Bytes × Nat

def addAll (p : Packer) (adds : List AddCall) : Packer :=
  adds.foldl (fun p a => p.add a.1 a.2.1 a.2.2.1 a.2.2.2) p

/-- the well-formedness the header format needs of an `Add` call -/
def AddOK (a : AddCall) : Prop :=
  (a.1 = restic_DataBlob ∨ a.1 = restic_TreeBlob) ∧ a.2.1.length = restic_idSize ∧
  a.2.2.1.length < 4294967296 ∧ a.2.2.2 < 4294967296

theorem addAll_inv (p : Packer) (hp : Packer.Inv p) (adds : List AddCall) : Packer.Inv (addAll p adds) := by
  induction adds generalizing p with
  | nil => exact hp
  | cons a as ih => exact ih _ (Packer.inv_add p hp _ _ _ _)

theorem addAll_blobs (p : Packer) (hp : Packer.Inv p) (adds : List AddCall) :
    (addAll p adds).blobs = p.blobs ++
      expectedListing p.bytes (adds.map fun a => (a.1, a.2.1, a.2.2.1.length, a.2.2.2)) ∧
    (addAll p adds).out = p.out ++ (adds.map (·.2.2.1)).flatten := by
  induction adds generalizing p with
  | nil => simp [addAll, expectedListing]
  | cons a as ih =>
    have := ih (p.add a.1 a.2.1 a.2.2.1 a.2.2.2) (Packer.inv_add p hp _ _ _ _)
    simp only [addAll, List.foldl_cons] at this ⊢
    rw [this.1, this.2]
    simp [Packer.add, expectedListing]

theorem expectedListing_wf (pos : Nat) (adds : List AddCall) (h : ∀ a ∈ adds, AddOK a) :
    AllWF (expectedListing pos (adds.map fun a => (a.1, a.2.1, a.2.2.1.length, a.2.2.2))) := by
  induction adds generalizing pos with
  | nil => intro b hb; cases hb
  | cons a as ih =>
    intro b hb
    simp only [List.map_cons, expectedListing, List.mem_cons] at hb
    rcases hb with rfl | hb
    · obtain ⟨h1, h2, h3, h4⟩ := h a (List.mem_cons_self ..)
      exact ⟨h1, h2, h3, h4⟩
    · exact ih _ (fun a' ha' => h a' (List.mem_cons_of_mem _ ha')) b hb

/-- **Main theorem (`list_finalize`).** For every non-empty sequence of `Add` calls with data/tree
types, 32-byte ids and 32-bit lengths whose header fits into `MaxHeaderSize`: `Finalize` succeeds,
and `List` on the resulting pack file returns exactly the blobs added — same order, types, ids,
stored and uncompressed lengths, offsets equal to the running sum of the stored lengths — and a
header size that is exactly the number of bytes `Finalize` appended (`headerSize` plus the entry
sizes); the file is the concatenation of the blob data followed by that header. -/
theorem list_finalize (k : Crypto) (hk : Crypto.Lawful k) (nonce : Bytes) (adds : List AddCall)
    (hn : nonce.length = crypto_ivSize) (hne : adds ≠ []) (hok : ∀ a ∈ adds, AddOK a)
    (hmax : entriesSize (addAll {} adds).blobs + pack_headerSize ≤ pack_MaxHeaderSize) :
    let p := addAll {} adds
    let expected := expectedListing 0 (adds.map fun a => (a.1, a.2.1, a.2.2.1.length, a.2.2.2))
    ∃ p' : Packer, p.finalize k nonce = .ok p' ∧
      p.blobs = expected ∧
      list k p'.out p'.out.length = .ok (expected, pack_headerSize + entriesSize expected) ∧
      p'.out.length = totalLength expected + (pack_headerSize + entriesSize expected) ∧
      p'.out.take (totalLength expected) = (adds.map (·.2.2.1)).flatten ∧
      p'.bytes = p'.out.length := by
  intro p expected
  have hmax' : entriesSize p.blobs + pack_headerSize ≤ pack_MaxHeaderSize := hmax
  have hinv : Packer.Inv p := addAll_inv {} Packer.inv_empty adds
  obtain ⟨hblobs, hout⟩ := addAll_blobs {} Packer.inv_empty adds
  have hb : p.blobs = expected := by simpa using hblobs
  have hout' : p.out = (adds.map (·.2.2.1)).flatten := by simpa using hout
  have hwf : AllWF p.blobs := by rw [hb]; exact expectedListing_wf 0 adds hok
  have hne' : p.blobs ≠ [] := by
    rw [hb]
    cases adds with
    | nil => exact absurd rfl hne
    | cons a as => simp [expected, expectedListing]
  obtain ⟨header, hm, hfin⟩ := finalize_ok k hk nonce p.blobs hn hwf hne' hinv.offsets hmax'
  have hhl := makeHeader_length p.blobs hwf header hm
  obtain ⟨h4, hplain, hentry, hhs, hext, hmin, hmax32, _⟩ := facts_layout
  have htl : (nonce ++ k.sealB nonce header ++ le32 (nonce ++ k.sealB nonce header).length).length
      = pack_headerSize + entriesSize p.blobs := by
    simp only [List.length_append, le32_length, hk.seal_len, hn]; omega
  refine ⟨{ p with bytes := p.bytes + (nonce ++ k.sealB nonce header ++ le32 (nonce ++ k.sealB nonce header).length).length,
                   out := p.out ++ (nonce ++ k.sealB nonce header ++ le32 (nonce ++ k.sealB nonce header).length) },
    by simp [Packer.finalize, hfin], hb, ?_, ?_, ?_, ?_⟩
  · have := list_trailer k hk p.out nonce header p.blobs hn hwf hne' hm (by omega)
    simp only [← List.append_assoc] at this ⊢
    rw [this, hinv.offsets, hb, hhl, hb]
    congr 2; omega
  · simp only [List.length_append] at htl ⊢
    simp only [hinv.out, hinv.bytes, hb] at htl ⊢
    omega
  · have : totalLength expected = p.out.length := by rw [hinv.out, hinv.bytes, hb]
    simp only
    rw [this, List.take_left, hout']
  · simp only [List.length_append, hinv.out]


/-! ## totality: no input makes `List` panic -/

/-- **No panic.** For every cipher behaviour, every byte string and every claimed size, `List`
returns entries or an error: no slice expression is ever out of range and the parse loop always
terminates within its fuel. -/
theorem list_no_panic (k : Crypto) (file : Bytes) (size : Nat) : list k file size ≠ .panic := by
  obtain ⟨h4, hplain, hentry, hhs, hext, hmin, hmax32, _⟩ := facts_layout
  unfold list
  have hr := readHeader_no_panic file size
  cases hrh : readHeader file size with
  | panic => exact absurd hrh hr
  | err e => simp
  | ok buf =>
    simp only
    by_cases hl : buf.length < crypto_Extension
    · simp [hl]
    · simp only [hl, if_false]
      rw [slice?_ok _ _ _ (by omega) (by omega), from?_ok _ _ (by omega)]
      simp only
      cases k.openB ((buf.take crypto_ivSize).drop 0) (buf.drop crypto_ivSize) with
      | none => simp
      | some plain =>
        simp only
        have hp := parseLoop_no_panic plain.length plain 0 (Nat.le_refl _)
        cases hpl : parseLoop plain.length plain 0 with
        | panic => exact absurd hpl hp
        | err e => simp
        | ok es => simp

theorem verifyHeader_no_panic (k : Crypto) (enc : Bytes) (bs : List Blob) : verifyHeader k enc bs ≠ .panic := by
  unfold verifyHeader
  have hl := list_no_panic k enc enc.length
  cases hle : list k enc enc.length with
  | panic => exact absurd hle hl
  | err e => simp
  | ok r =>
    obtain ⟨decoded, hs⟩ := r
    simp only
    repeat' split
    all_goals simp

/-- `Finalize` cannot panic either (whatever the nonce and the blobs) -/
theorem finalize_no_panic (k : Crypto) (nonce : Bytes) (bs : List Blob) : finalize k nonce bs ≠ .panic := by
  unfold finalize
  cases makeHeader bs with
  | none => simp
  | some header =>
    simp only
    generalize nonce ++ k.sealB nonce header ++ le32 (nonce ++ k.sealB nonce header).length = enc
    have hv := verifyHeader_no_panic k enc bs
    cases hvv : verifyHeader k enc bs with
    | panic => exact absurd hvv hv
    | err e => simp
    | ok u => cases u; simp

/-! ## rejection of malformed trailers -/

/-- every guard of the trailer reader turns into the corresponding error of `List` -/
theorem list_of_headerOf_err (k : Crypto) (file : Bytes) (e : Err) (h : headerOf file = .err e) :
    list k file file.length = .err e := by
  unfold list
  rw [readHeader_eq, h]

/-- a file shorter than the smallest possible pack is rejected -/
theorem list_too_short (k : Crypto) (file : Bytes) (h : file.length < pack_minFileSize) :
    list k file file.length = .err .fileTooShort :=
  list_of_headerOf_err k file _ (by unfold headerOf; simp [h])

/-- the length field (last four bytes, little endian) decides: zero, smaller than the crypto
overhead, larger than what precedes it, or larger than `MaxHeaderSize - 4` are all rejected -/
theorem list_bad_length_field (k : Crypto) (file : Bytes) (hn : pack_minFileSize ≤ file.length) :
    let hlen := unle32 (file.drop (file.length - pack_headerLengthSize))
    (hlen = 0 → list k file file.length = .err .hlenZero) ∧
    (0 < hlen → hlen < crypto_Extension → list k file file.length = .err .hlenTooShort) ∧
    (crypto_Extension ≤ hlen → file.length < hlen + pack_headerLengthSize →
      list k file file.length = .err .hlenLargerThanFile) ∧
    (crypto_Extension ≤ hlen → hlen + pack_headerLengthSize ≤ file.length →
      pack_MaxHeaderSize < hlen + pack_headerLengthSize → list k file file.length = .err .hlenLargerThanMax) := by
  obtain ⟨h4, hplain, hentry, hhs, hext, hmin, hmax32, _⟩ := facts_layout
  intro hlen
  have hext0 : 0 < crypto_Extension := by decide
  have hs : ¬ file.length < pack_minFileSize := by omega
  refine ⟨fun h0 => ?_, fun h1 h2 => ?_, fun h1 h2 => ?_, fun h1 h2 h3 => ?_⟩ <;>
    apply list_of_headerOf_err <;> unfold headerOf <;> simp only [hs, if_false]
  · have : unle32 (file.drop (file.length - pack_headerLengthSize)) = 0 := h0
    simp [this]
  · have e0 : ¬ unle32 (file.drop (file.length - pack_headerLengthSize)) = 0 := by show ¬ hlen = 0; omega
    have e1 : unle32 (file.drop (file.length - pack_headerLengthSize)) < crypto_Extension := h2
    simp [e0, e1]
  · have e0 : ¬ unle32 (file.drop (file.length - pack_headerLengthSize)) = 0 := by show ¬ hlen = 0; omega
    have e1 : ¬ unle32 (file.drop (file.length - pack_headerLengthSize)) < crypto_Extension := by show ¬ hlen < _; omega
    have e2 : unle32 (file.drop (file.length - pack_headerLengthSize)) + pack_headerLengthSize > file.length := h2
    simp [e0, e1, e2]
  · have e0 : ¬ unle32 (file.drop (file.length - pack_headerLengthSize)) = 0 := by show ¬ hlen = 0; omega
    have e1 : ¬ unle32 (file.drop (file.length - pack_headerLengthSize)) < crypto_Extension := by show ¬ hlen < _; omega
    have e2 : ¬ unle32 (file.drop (file.length - pack_headerLengthSize)) + pack_headerLengthSize > file.length := by
      show ¬ hlen + _ > _; omega
    have e3 : unle32 (file.drop (file.length - pack_headerLengthSize)) + pack_headerLengthSize > pack_MaxHeaderSize := h3
    simp [e0, e1, e2, e3]

theorem le32_unle32 (b : Bytes) (h : b.length = 4) : le32 (unle32 b) = b := by
  match b, h with
  | [a, b, c, d], _ =>
    have := a.toNat_lt; have := b.toNat_lt; have := c.toNat_lt; have := d.toNat_lt
    simp only [le32, unle32]
    have e1 : (a.toNat + 256 * b.toNat + 65536 * c.toNat + 16777216 * d.toNat) % 256 = a.toNat := by omega
    have e2 : (a.toNat + 256 * b.toNat + 65536 * c.toNat + 16777216 * d.toNat) / 256 % 256 = b.toNat := by omega
    have e3 : (a.toNat + 256 * b.toNat + 65536 * c.toNat + 16777216 * d.toNat) / 65536 % 256 = c.toNat := by omega
    have e4 : (a.toNat + 256 * b.toNat + 65536 * c.toNat + 16777216 * d.toNat) / 16777216 % 256 = d.toNat := by omega
    rw [e1, e2, e3, e4]
    simp

/-- **Soundness of a listing (no wrong listing).** Whenever `List` returns entries for a file, the
file ends with `nonce ‖ ct ‖ le32(|nonce ‖ ct|)` where `ct` was accepted by the cipher's `Open`
(MAC check) under `nonce`; the entries are the parse of that authenticated plaintext, are
well-formed, carry cumulative offsets, and the reported size is exactly that trailer, within
`MaxHeaderSize`. So a truncated, extended or edited file can only be listed if the bytes in front
of its (new) end still authenticate — which the MAC excludes. -/
theorem list_ok_authentic (k : Crypto) (file : Bytes) (es : List Blob) (hs : Nat)
    (h : list k file file.length = .ok (es, hs)) :
    ∃ pre nonce ct plain,
      file = pre ++ (nonce ++ ct) ++ le32 (nonce ++ ct).length ∧ nonce.length = crypto_ivSize ∧
      k.openB nonce ct = some plain ∧ parseLoop plain.length plain 0 = .ok es ∧
      hs = (nonce ++ ct).length + pack_headerLengthSize ∧ hs ≤ pack_MaxHeaderSize ∧
      AllWF es ∧ withOffsets 0 es = es := by
  obtain ⟨h4, hplain, hentry, hhs, hext, hmin, hmax32, _⟩ := facts_layout
  unfold list at h
  rw [readHeader_eq] at h
  unfold headerOf at h
  simp only at h
  by_cases c0 : file.length < pack_minFileSize
  · simp [c0] at h
  simp only [c0, if_false] at h
  generalize hh : unle32 (file.drop (file.length - pack_headerLengthSize)) = hlen at h
  by_cases c1 : hlen = 0
  · simp [c1] at h
  by_cases c2 : hlen < crypto_Extension
  · simp [c1, c2] at h
  by_cases c3 : hlen + pack_headerLengthSize > file.length
  · simp [c1, c2, c3] at h
  by_cases c4 : hlen + pack_headerLengthSize > pack_MaxHeaderSize
  · simp [c1, c2, c3, c4] at h
  simp only [c1, c2, c3, c4, if_false] at h
  generalize hbuf : (file.drop (file.length - pack_headerLengthSize - hlen)).take hlen = buf at h
  have hbl : buf.length = hlen := by
    rw [← hbuf]; simp only [List.length_take, List.length_drop]; omega
  have c5 : ¬ buf.length < crypto_Extension := by omega
  simp only [c5, if_false] at h
  rw [slice?_ok _ _ _ (by omega) (by omega), from?_ok _ _ (by omega)] at h
  simp only [List.drop_zero] at h
  cases ho : k.openB (buf.take crypto_ivSize) (buf.drop crypto_ivSize) with
  | none => simp [ho] at h
  | some plain =>
    simp only [ho] at h
    rcases parseLoop_cases plain.length plain 0 (Nat.le_refl _) with (hp | hp) | ⟨es', hp, hwf, hoff⟩
    · simp [hp] at h
    · simp [hp] at h
    · simp only [hp, Res.ok.injEq, Prod.mk.injEq] at h
      obtain ⟨rfl, hhs'⟩ := h
      refine ⟨file.take (file.length - pack_headerLengthSize - hlen), buf.take crypto_ivSize,
        buf.drop crypto_ivSize, plain, ?_, ?_, ho, hp, ?_, ?_, hwf, hoff⟩
      · have hb : buf.take crypto_ivSize ++ buf.drop crypto_ivSize = buf := List.take_append_drop _ _
        have h4' : (file.drop (file.length - pack_headerLengthSize)).length = 4 := by
          simp only [List.length_drop]; omega
        have e1 : file.drop (file.length - pack_headerLengthSize) =
            (file.drop (file.length - pack_headerLengthSize - hlen)).drop hlen := by
          rw [List.drop_drop]; congr 1; omega
        have e0 : le32 hlen = file.drop (file.length - pack_headerLengthSize) := by
          rw [← hh, le32_unle32 _ h4']
        rw [hb, hbl, e0, e1, ← hbuf, List.append_assoc, List.take_append_drop, List.take_append_drop]
      · simp only [List.length_take]; omega
      · rw [← hhs', List.take_append_drop, hbl, Nat.mod_eq_of_lt (by omega)]; omega
      · rw [← hhs', hbl, Nat.mod_eq_of_lt (by omega)]; omega

theorem headerOf_cases (file : Bytes) :
    (headerOf file = .err .fileTooShort ∨ headerOf file = .err .hlenZero ∨ headerOf file = .err .hlenTooShort ∨
      headerOf file = .err .hlenLargerThanFile ∨ headerOf file = .err .hlenLargerThanMax) ∨
    (∃ buf, headerOf file = .ok buf ∧ crypto_Extension ≤ buf.length) := by
  obtain ⟨h4, hplain, hentry, hhs, hext, hmin, hmax32, _⟩ := facts_layout
  unfold headerOf
  simp only
  by_cases c0 : file.length < pack_minFileSize
  · simp [c0]
  simp only [c0, if_false]
  generalize unle32 (file.drop (file.length - pack_headerLengthSize)) = hlen
  by_cases c1 : hlen = 0
  · simp [c1]
  by_cases c2 : hlen < crypto_Extension
  · simp [c1, c2]
  by_cases c3 : hlen + pack_headerLengthSize > file.length
  · simp [c1, c2, c3]
  by_cases c4 : hlen + pack_headerLengthSize > pack_MaxHeaderSize
  · simp [c1, c2, c3, c4]
  right
  simp only [c1, c2, c3, c4, if_false]
  refine ⟨_, rfl, ?_⟩
  simp only [List.length_take, List.length_drop]
  omega

/-- the error "invalid header, too short" of `List` is unreachable when the size is the file's
length: the length-field guard has already excluded it -/
theorem list_never_headerTooShort (k : Crypto) (file : Bytes) :
    list k file file.length ≠ .err .headerTooShort := by
  obtain ⟨h4, hplain, hentry, hhs, hext, hmin, hmax32, _⟩ := facts_layout
  intro h
  unfold list at h
  rw [readHeader_eq] at h
  rcases headerOf_cases file with (hh | hh | hh | hh | hh) | ⟨buf, hh, hbl⟩
  · simp [hh] at h
  · simp [hh] at h
  · simp [hh] at h
  · simp [hh] at h
  · simp [hh] at h
  · have hbl' : ¬ buf.length < crypto_Extension := by omega
    simp only [hh, hbl', if_false] at h
    rw [slice?_ok _ _ _ (by omega) (by omega), from?_ok _ _ (by omega)] at h
    simp only [List.drop_zero] at h
    cases ho : k.openB (buf.take crypto_ivSize) (buf.drop crypto_ivSize) with
    | none => simp [ho] at h
    | some plain =>
      simp only [ho] at h
      rcases parseLoop_cases plain.length plain 0 (Nat.le_refl _) with (hp | hp) | ⟨es', hp, _⟩
      · simp [hp] at h
      · simp [hp] at h
      · simp [hp] at h


/-! ## `HeaderFull` and the header-entry limit -/

/-- `HeaderFull` is false exactly while one more (full-size) entry still fits -/
theorem headerFull_iff (n : Nat) : headerFull n = false ↔ n + 1 ≤ pack_MaxHeaderEntries := by
  obtain ⟨hme, hpe, hepos, hhm⟩ := facts_maxEntries
  unfold headerFull
  rw [decide_eq_false_iff_not, hme, Nat.le_div_iff_mul_le hepos]
  omega

/-- a packer that holds at most `MaxHeaderEntries` blobs always fits into `MaxHeaderSize` -/
theorem fits_of_count (bs : List Blob) (h : bs.length ≤ pack_MaxHeaderEntries) :
    entriesSize bs + pack_headerSize ≤ pack_MaxHeaderSize := by
  obtain ⟨hme, hpe, hepos, hhm⟩ := facts_maxEntries
  have h1 := entriesSize_le bs
  have h2 : bs.length * pack_entrySize ≤ pack_MaxHeaderEntries * pack_entrySize := Nat.mul_le_mul_right _ h
  have h3 : pack_MaxHeaderEntries * pack_entrySize ≤ pack_MaxHeaderSize - pack_headerSize := by
    rw [hme]; exact Nat.div_mul_le_self _ _
  omega

/-- so: if `HeaderFull` was false when the last blob was added, `Finalize` will not hit the limit -/
theorem fits_of_not_full (bs : List Blob) (hne : bs ≠ []) (h : headerFull (bs.length - 1) = false) :
    entriesSize bs + pack_headerSize ≤ pack_MaxHeaderSize := by
  apply fits_of_count
  have := (headerFull_iff _).1 h
  have : 0 < bs.length := List.length_pos_iff.2 hne
  omega

/-- the limit is tight for compressed entries: one entry more than `MaxHeaderEntries` does not fit -/
theorem over_limit (bs : List Blob) (hc : ∀ b ∈ bs, b.ulen ≠ 0) (h : pack_MaxHeaderEntries < bs.length) :
    pack_MaxHeaderSize < entriesSize bs + pack_headerSize := by
  obtain ⟨hme, hpe, hepos, hhm⟩ := facts_maxEntries
  have hes : entriesSize bs = bs.length * pack_entrySize := by
    induction bs with
    | nil => simp [entriesSize]
    | cons b bs ih =>
      have hb := hc b (List.mem_cons_self ..)
      simp only [entriesSize, entrySizeOf, hb, ne_eq, not_false_eq_true, if_true, List.length_cons,
        Nat.add_mul, Nat.one_mul]
      by_cases hl : pack_MaxHeaderEntries < bs.length
      · rw [ih (fun b' hb' => hc b' (List.mem_cons_of_mem _ hb')) hl]; omega
      · -- induction hypothesis not applicable: prove the size formula directly
        clear ih
        have : ∀ l : List Blob, (∀ b ∈ l, b.ulen ≠ 0) → entriesSize l = l.length * pack_entrySize := by
          intro l
          induction l with
          | nil => intro _; simp [entriesSize]
          | cons a l ih2 =>
            intro hl2
            simp only [entriesSize, entrySizeOf, hl2 a (List.mem_cons_self ..), ne_eq, not_false_eq_true, if_true,
              List.length_cons, Nat.add_mul, Nat.one_mul, ih2 (fun b' hb' => hl2 b' (List.mem_cons_of_mem _ hb'))]
            omega
        rw [this bs (fun b' hb' => hc b' (List.mem_cons_of_mem _ hb'))]; omega
  rw [hes]
  have h1 : (pack_MaxHeaderEntries + 1) * pack_entrySize ≤ bs.length * pack_entrySize :=
    Nat.mul_le_mul_right _ h
  have h2 : pack_MaxHeaderSize - pack_headerSize < (pack_MaxHeaderEntries + 1) * pack_entrySize := by
    rw [hme]
    have := Nat.div_add_mod (pack_MaxHeaderSize - pack_headerSize) pack_entrySize
    have hm := Nat.mod_lt (pack_MaxHeaderSize - pack_headerSize) hepos
    rw [Nat.add_mul, Nat.one_mul, Nat.mul_comm]
    omega
  omega

/-- **A header beyond the limit is never written**: `Finalize` fails ("header decoding failed")
whenever the entries exceed `MaxHeaderSize`. -/
theorem finalize_overfull (k : Crypto) (hk : Crypto.Lawful k) (nonce : Bytes) (bs : List Blob)
    (hn : nonce.length = crypto_ivSize) (hwf : AllWF bs)
    (hover : pack_MaxHeaderSize < entriesSize bs + pack_headerSize)
    (h32 : entriesSize bs + pack_headerSize < 4294967296) :
    finalize k nonce bs = .err .verifyDecode := by
  obtain ⟨h4, hplain, hentry, hhs, hext, hmin, hmax32, _⟩ := facts_layout
  have hminmax : pack_minFileSize ≤ pack_MaxHeaderSize := by decide
  obtain ⟨header, hm⟩ := makeHeader_isSome bs hwf
  have hhl := makeHeader_length bs hwf header hm
  unfold finalize
  simp only [hm]
  generalize hsealed : nonce ++ k.sealB nonce header = sealed
  have hL : sealed.length = header.length + crypto_Extension := by
    rw [← hsealed]; simp only [List.length_append, hk.seal_len, hn]; omega
  generalize henc : sealed ++ le32 sealed.length = enc
  have hel : enc.length = sealed.length + 4 := by rw [← henc]; simp [le32_length]
  have hho : headerOf enc = .err .hlenLargerThanMax := by
    unfold headerOf
    have hd : enc.drop (enc.length - pack_headerLengthSize) = le32 sealed.length := by
      rw [← henc]
      have : (sealed ++ le32 sealed.length).length - pack_headerLengthSize = sealed.length := by
        simp only [List.length_append, le32_length]; omega
      rw [this, List.drop_left]
    simp only [hd]
    rw [unle32_le32_of_lt _ (by omega)]
    have c0 : ¬ enc.length < pack_minFileSize := by omega
    have c1 : ¬ sealed.length = 0 := by omega
    have c2 : ¬ sealed.length < crypto_Extension := by omega
    have c3 : ¬ sealed.length + pack_headerLengthSize > enc.length := by omega
    have c4 : sealed.length + pack_headerLengthSize > pack_MaxHeaderSize := by omega
    simp only [c0, c1, c2, c3, c4, if_false, if_true]
  unfold verifyHeader
  rw [list_of_headerOf_err k enc _ hho]

/-! ## `Finalize` only ever writes a header that lists back (no law about the cipher needed) -/

theorem zip_all_eq (as bs : List Blob) (hl : as.length = bs.length)
    (h : (as.zip bs).all (fun p => p.1 == p.2) = true) : as = bs := by
  induction as generalizing bs with
  | nil => cases bs with
    | nil => rfl
    | cons b bs => simp at hl
  | cons a as ih =>
    cases bs with
    | nil => simp at hl
    | cons b bs =>
      simp only [List.zip_cons_cons, List.all_cons, Bool.and_eq_true, beq_iff_eq] at h
      simp only [List.length_cons, Nat.add_right_cancel_iff] at hl
      rw [h.1, ih bs hl h.2]

/-- **Verify-before-write.** Whatever the cipher does: if `Finalize` returns bytes to append, then
`List` on exactly those bytes returns exactly the packer's blobs, every blob is representable
(data/tree type, 32-byte id, 32-bit lengths) and the offsets are cumulative. -/
theorem finalize_sound (k : Crypto) (nonce : Bytes) (bs : List Blob) (h : Bytes)
    (hf : finalize k nonce bs = .ok h) :
    list k h h.length = .ok (bs, h.length % 4294967296) ∧ AllWF bs ∧ withOffsets 0 bs = bs := by
  unfold finalize at hf
  cases hm : makeHeader bs with
  | none => simp [hm] at hf
  | some header =>
    simp only [hm] at hf
    generalize nonce ++ k.sealB nonce header ++ le32 (nonce ++ k.sealB nonce header).length = enc at hf
    cases hv : verifyHeader k enc bs with
    | panic => simp [hv] at hf
    | err e => simp [hv] at hf
    | ok u =>
      simp only [hv, Res.ok.injEq] at hf
      subst hf
      unfold verifyHeader at hv
      cases hl : list k enc enc.length with
      | panic => simp [hl] at hv
      | err e => simp [hl] at hv
      | ok r =>
        obtain ⟨decoded, hs⟩ := r
        simp only [hl] at hv
        by_cases c1 : hs ≠ enc.length % 4294967296
        · simp [c1] at hv
        · simp only [c1, if_false] at hv
          by_cases c2 : decoded.length ≠ bs.length
          · simp [c2] at hv
          · simp only [c2, if_false] at hv
            by_cases c3 : (decoded.zip bs).all (fun p => p.1 == p.2) = true
            · have heq := zip_all_eq decoded bs (by simpa using c2) c3
              subst heq
              obtain ⟨_, _, _, _, _, _, _, _, _, _, hwf, hoff⟩ := list_ok_authentic k enc decoded hs hl
              have : hs = enc.length % 4294967296 := by simpa using c1
              exact ⟨by rw [this], hwf, hoff⟩
            · simp [c3] at hv

/-- **Wide lengths are caught** (`finalize_rejects_wide`): a blob whose stored or uncompressed length
does not fit into 32 bits, whose type is not data/tree, or a packer with inconsistent offsets never
yields a pack — the truncating `uint32` conversion in `makeHeader` is caught by `verifyHeader`. -/
theorem finalize_rejects_wide (k : Crypto) (nonce : Bytes) (bs : List Blob)
    (hbad : (∃ b ∈ bs, 4294967296 ≤ b.length ∨ 4294967296 ≤ b.ulen ∨
              ¬ (b.type = restic_DataBlob ∨ b.type = restic_TreeBlob)) ∨ withOffsets 0 bs ≠ bs) :
    ∀ h, finalize k nonce bs ≠ .ok h := by
  intro h hf
  obtain ⟨_, hwf, hoff⟩ := finalize_sound k nonce bs h hf
  rcases hbad with ⟨b, hb, hbad⟩ | hbad
  · have := hwf b hb
    rcases hbad with h1 | h1 | h1
    · have := this.length; omega
    · have := this.ulen; omega
    · exact h1 this.type
  · exact hbad hoff

/-! ## Link to the executable statements used by the driver -/

theorem offsetsOK_iff (pos : Nat) (bs : List Blob) : offsetsOK pos bs = true ↔ withOffsets pos bs = bs := by
  induction bs generalizing pos with
  | nil => simp [offsetsOK, withOffsets]
  | cons b bs ih =>
    simp only [offsetsOK, withOffsets, Bool.and_eq_true, beq_iff_eq, ih, List.cons.injEq]
    constructor
    · rintro ⟨h1, h2⟩; exact ⟨by cases b; simp_all, h2⟩
    · rintro ⟨h1, h2⟩; exact ⟨by cases b; simp_all, h2⟩

/-- `Finalize` succeeds exactly for representable packer contents: the model meets `specFinalize`
(for headers below 4 GiB, i.e. fewer than about 10⁸ entries). -/
theorem finalize_spec (k : Crypto) (hk : Crypto.Lawful k) (nonce : Bytes) (bs : List Blob)
    (hn : nonce.length = crypto_ivSize) (h32 : entriesSize bs + pack_headerSize < 4294967296) :
    specFinalize bs (match finalize k nonce bs with | .ok _ => true | _ => false) = true := by
  obtain ⟨h4, hplain, hentry, hhs, hext, hmin, hmax32, _⟩ := facts_layout
  unfold specFinalize
  by_cases hr : representable bs = true
  · -- representable ⇒ Finalize succeeds
    rw [hr]
    unfold representable at hr
    simp only [Bool.and_eq_true, Bool.not_eq_true', List.all_eq_true, Bool.or_eq_true, beq_iff_eq,
      decide_eq_true_eq] at hr
    obtain ⟨⟨⟨hne, hall⟩, hoff⟩, hsz⟩ := hr
    have hwf : AllWF bs := fun b hb => by
      obtain ⟨⟨⟨h1, h2⟩, h3⟩, h4⟩ := hall b hb
      exact ⟨h1, h2, h3, h4⟩
    have hne' : bs ≠ [] := by intro h; simp [h] at hne
    rw [calculateHeaderSize_eq] at hsz
    obtain ⟨header, _, hfin⟩ := finalize_ok k hk nonce bs hn hwf hne' ((offsetsOK_iff 0 bs).1 hoff) (by omega)
    simp [hfin]
  · -- not representable ⇒ Finalize fails
    have hr' : representable bs = false := by simpa using hr
    rw [hr']
    cases hf : finalize k nonce bs with
    | panic => simp
    | err e => simp
    | ok h =>
      exfalso
      obtain ⟨hl, hwf, hoff⟩ := finalize_sound k nonce bs h hf
      apply hr
      unfold representable
      simp only [Bool.and_eq_true, Bool.not_eq_true', List.all_eq_true, Bool.or_eq_true, beq_iff_eq,
        decide_eq_true_eq]
      refine ⟨⟨⟨?_, fun b hb => ⟨⟨⟨(hwf b hb).type, (hwf b hb).id⟩, (hwf b hb).length⟩, (hwf b hb).ulen⟩⟩,
        (offsetsOK_iff 0 bs).2 hoff⟩, ?_⟩
      · -- non-empty: an empty packer yields a file shorter than the minimum
        cases bs with
        | cons b bs => rfl
        | nil =>
          exfalso
          simp only [finalize, makeHeader] at hf
          have hlen : (nonce ++ k.sealB nonce [] ++ le32 (nonce ++ k.sealB nonce []).length).length < pack_minFileSize := by
            simp only [List.length_append, le32_length, hk.seal_len, hn, List.length_nil]; omega
          unfold verifyHeader at hf
          rw [list_too_short k _ hlen] at hf
          simp at hf
      · rw [calculateHeaderSize_eq]
        by_cases hover : pack_MaxHeaderSize < entriesSize bs + pack_headerSize
        · rw [finalize_overfull k hk nonce bs hn hwf hover h32] at hf
          cases hf
        · omega

/-- the conclusion of `list_finalize` is exactly what `specListing` checks on the implementation -/
theorem list_finalize_spec (k : Crypto) (hk : Crypto.Lawful k) (nonce : Bytes) (adds : List AddCall)
    (hn : nonce.length = crypto_ivSize) (hne : adds ≠ []) (hok : ∀ a ∈ adds, AddOK a)
    (hmax : entriesSize (addAll {} adds).blobs + pack_headerSize ≤ pack_MaxHeaderSize) :
    ∃ p' es hs, (addAll {} adds).finalize k nonce = .ok p' ∧ list k p'.out p'.out.length = .ok (es, hs) ∧
      specListing (adds.map fun a => (a.1, a.2.1, a.2.2.1.length, a.2.2.2)) p'.out.length es hs = true := by
  obtain ⟨p', hfin, _, hl, hlen, _, _⟩ := list_finalize k hk nonce adds hn hne hok hmax
  refine ⟨p', _, _, hfin, hl, ?_⟩
  unfold specListing
  have hsum : ∀ (l : List (Nat × Bytes × Nat × Nat)) (pos s : Nat),
      l.foldl (fun s a => s + a.2.2.1) s = s + totalLength (expectedListing pos l) := by
    intro l
    induction l with
    | nil => intro pos s; simp [expectedListing, totalLength]
    | cons a l ih =>
      intro pos s
      obtain ⟨t, id, len, ulen⟩ := a
      simp only [List.foldl_cons, expectedListing, totalLength, ih (pos + len) (s + len)]
      omega
  simp only [beq_self_eq_true, Bool.true_and, Bool.and_eq_true, beq_iff_eq]
  refine ⟨?_, ?_⟩
  · rw [hsum _ 0 0, hlen]; omega
  · rw [calculateHeaderSize_eq]


/-! ## Non-vacuity -/

/-- a toy cipher satisfying the laws: the "ciphertext" is the plaintext followed by 16 zero bytes -/
def toyCrypto : Crypto where
  sealB := fun _ p => p ++ List.replicate crypto_macSize 0
  openB := fun _ ct => if crypto_macSize ≤ ct.length ∧ ct.drop (ct.length - crypto_macSize) = List.replicate crypto_macSize 0
    then some (ct.take (ct.length - crypto_macSize)) else none

theorem toyCrypto_lawful : Crypto.Lawful toyCrypto where
  open_seal := by intro n p _; simp [toyCrypto]
  seal_len := by intro n p; simp [toyCrypto]

/-- two `Add` calls (a plain data blob and a compressed tree blob) used in the examples below -/
def exampleAdds : List AddCall :=
  [(restic_DataBlob, List.replicate 32 7, [1, 2, 3], 0), (restic_TreeBlob, List.replicate 32 9, [4], 70000)]

/-- the hypotheses of `list_finalize` are satisfiable by a non-trivial packer -/
example : Crypto.Lawful toyCrypto ∧ (List.replicate 16 (1 : UInt8)).length = crypto_ivSize ∧ exampleAdds ≠ [] ∧
    (∀ a ∈ exampleAdds, AddOK a) ∧
    entriesSize (addAll {} exampleAdds).blobs + pack_headerSize ≤ pack_MaxHeaderSize := by
  refine ⟨toyCrypto_lawful, by decide, by decide, ?_, by decide⟩
  intro a ha
  simp only [exampleAdds, List.mem_cons, List.not_mem_nil, or_false] at ha
  rcases ha with rfl | rfl <;> (unfold AddOK; decide)

/-- example (labelled as such): the model lists that pack back, with offsets 0 and 3 and header size 36+37+41 -/
example : ((addAll {} exampleAdds).finalize toyCrypto (List.replicate 16 1)).rec
    (fun p' => (list toyCrypto p'.out p'.out.length).rec (fun r => (r.1.map (·.offset), r.2)) (fun _ => ([], 0)) ([], 0))
    (fun _ => ([], 0)) ([], 0) = ([0, 3], 114) := by decide

/-- example: `HeaderFull` flips exactly at `MaxHeaderEntries` -/
example : headerFull (pack_MaxHeaderEntries - 1) = false ∧ headerFull pack_MaxHeaderEntries = true := by decide

/-- example: 80 zero bytes are rejected because the length field is zero; 10 bytes are too short -/
example : list toyCrypto (List.replicate 80 0) 80 = .err .hlenZero ∧
    list toyCrypto (List.replicate 10 0) 10 = .err .fileTooShort := by decide

/-- example: a blob with a 2³² uncompressed length is refused by `Finalize` -/
example : ∀ h, finalize toyCrypto (List.replicate 16 1)
    [{ type := restic_DataBlob, id := List.replicate 32 0, length := 5, offset := 0, ulen := 4294967296 }] ≠ .ok h :=
  finalize_rejects_wide _ _ _ (Or.inl ⟨_, List.mem_cons_self .., Or.inr (Or.inl (Nat.le_refl _))⟩)

end Restic.Props.C06
