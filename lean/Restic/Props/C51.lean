import Restic.Model.SelfUpdate
import Restic.Gen.Source
/-!
# C51 — self-update installs only a signed, hash-matching binary

Theorems over `Restic.Model.SelfUpdate` (transcription of `findHash`, `getGithubDataFile`,
`DownloadLatestStableRelease`), for all release metadata, all download results and all behaviours
of OpenPGP verification, SHA-256 and extraction (they are parameters, `Env`).

* `install_only_if` — the target is written only if the served SHA256SUMS verified against the
  served signature, lists a hash for exactly the downloaded file name, and that hash equals the
  SHA-256 of the downloaded archive ("forbid overrides": every earlier failure returns first).
* `otherwise_unchanged`, `unchanged_before_extract`, `up_to_date_unchanged` — in every other case
  the target is not touched.
* `findHash_exact` — the hash returned belongs to the *first* line whose second field is exactly
  the file name; `splitDS_two` — and that line is literally `hex ␣␣ name`.
* `model_meets_spec` — the transcription satisfies the executable statement `specOK`.
* `call_order` (T1) — GPGVerify → findHash → sha256 → compare → extractToFile in the source.
-/
namespace Restic.Props.C51
open Restic.Model.SelfUpdate

/-- what was served to one run, as far as the decision depends on it -/
structure Served (env : Env) (cur : Bytes) where
  version : Bytes
  assets : List Asset
  sumsFile : Bytes
  sums : Bytes
  sigFile : Bytes
  sig : Bytes
  fname : Bytes
  buf : Bytes
  hLatest : env.latest = some (version, assets)
  hNew : version ≠ cur
  hSums : getFile env assets sumsName = some (sumsFile, sums)
  hSig : getFile env assets sigName = some (sigFile, sig)
  hArchive : getFile env assets env.suffix = some (fname, buf)

/-- **install only if** signed ∧ listed under the exact name ∧ hash equal -/
theorem install_only_if (env : Env) (cur c : Bytes) (h : (download env cur).written = some c) :
    ∃ s : Served env cur,
      env.gpgVerify s.sums s.sig = .ok true ∧
      findHash s.sums s.fname = .ok (env.sha256 s.buf) ∧
      (env.extract s.buf s.fname = .installed c ∨ env.extract s.buf s.fname = .installedChmodErr c) := by
  unfold download at h
  split at h
  · simp [stop] at h
  · next version assets hl =>
    split at h
    · simp at h
    · next hnew =>
      split at h
      · simp [stop] at h
      · next sf sums hs =>
        split at h
        · simp [stop] at h
        · next gf sig hg =>
          split at h
          · simp [stop] at h
          · simp [stop] at h
          · next hv =>
            split at h
            · simp [stop] at h
            · next fname buf ha =>
              split at h
              · simp [stop] at h
              · simp [stop] at h
              · next want hw =>
                split at h
                · simp [stop] at h
                · next heq =>
                  have heq' : want = env.sha256 buf := by simpa using heq
                  refine ⟨⟨version, assets, sf, sums, gf, sig, fname, buf, hl, hnew, hs, hg, ha⟩, hv, ?_, ?_⟩
                  · simpa [heq'] using hw
                  · split at h
                    · simp [stop] at h
                    · next c' hx => simp at h; subst h; exact Or.inl hx
                    · next c' hx => simp at h; subst h; exact Or.inr hx

/-- **otherwise unchanged**: if what was served does not carry a verified signature together with
    a listed hash equal to the archive's, the target is not touched. -/
theorem otherwise_unchanged (env : Env) (cur : Bytes)
    (h : ∀ s : Served env cur,
      ¬ (env.gpgVerify s.sums s.sig = .ok true ∧ findHash s.sums s.fname = .ok (env.sha256 s.buf))) :
    (download env cur).written = none := by
  cases hw : (download env cur).written with
  | none => rfl
  | some c =>
    obtain ⟨s, h1, h2, _⟩ := install_only_if env cur c hw
    exact absurd ⟨h1, h2⟩ (h s)

/-- a signature that does not verify (error or false) never leads to a write -/
theorem unchanged_if_signature_rejected (env : Env) (cur : Bytes)
    (h : ∀ d s, env.gpgVerify d s ≠ .ok true) : (download env cur).written = none :=
  otherwise_unchanged env cur (fun s hh => h _ _ hh.1)

/-- an archive whose hash is not the listed one never leads to a write -/
theorem unchanged_if_hash_differs (env : Env) (cur : Bytes)
    (h : ∀ s : Served env cur, findHash s.sums s.fname ≠ .ok (env.sha256 s.buf)) :
    (download env cur).written = none :=
  otherwise_unchanged env cur (fun s hh => h s hh.2)

/-- every return before `extractToFile` leaves the target alone -/
theorem unchanged_before_extract (env : Env) (cur : Bytes)
    (h : (download env cur).stage ≠ .extract ∧ (download env cur).stage ≠ .done) :
    (download env cur).written = none := by
  unfold download at h ⊢
  repeat' split
  all_goals simp_all [stop]

theorem up_to_date_unchanged (env : Env) (cur : Bytes) (assets : List Asset)
    (h : env.latest = some (cur, assets)) : download env cur = ⟨.upToDate, false, none⟩ := by
  unfold download; simp [h]

/-- success is reported only after a write -/
theorem success_means_installed_or_up_to_date (env : Env) (cur : Bytes)
    (h : (download env cur).err = false) :
    (download env cur).stage = .upToDate ∨ (download env cur).written.isSome = true := by
  unfold download at h ⊢
  repeat' split
  all_goals simp_all [stop]

/-! ### findHash -/

/-- **first exact match wins** -/
theorem findHashLines_exact (name : Bytes) (ls : List Bytes) (h : Bytes)
    (hf : findHashLines name ls = .ok h) :
    ∃ pre line post hx, ls = pre ++ line :: post ∧ splitDS line [] = [hx, name] ∧
      hexDecode hx = some h ∧ ∀ l ∈ pre, ∀ a, splitDS l [] ≠ [a, name] := by
  induction ls with
  | nil => simp [findHashLines] at hf
  | cons line rest ih =>
    unfold findHashLines at hf
    split at hf
    · next hx nm hsplit =>
      split at hf
      · next hname =>
        split at hf
        · next d hd =>
          simp at hf; subst hf; subst hname
          exact ⟨[], line, rest, hx, rfl, hsplit, hd, by simp⟩
        · simp at hf
      · next hname =>
        obtain ⟨pre, l, post, hx', hls, hs, hd, hpre⟩ := ih hf
        refine ⟨line :: pre, l, post, hx', by simp [hls], hs, hd, ?_⟩
        intro l' hl' a
        simp only [List.mem_cons] at hl'
        rcases hl' with rfl | hl'
        · rw [hsplit]; intro heq; simp at heq; exact hname heq.2
        · exact hpre l' hl' a
    · next hnot =>
      obtain ⟨pre, l, post, hx', hls, hs, hd, hpre⟩ := ih hf
      refine ⟨line :: pre, l, post, hx', by simp [hls], hs, hd, ?_⟩
      intro l' hl' a
      simp only [List.mem_cons] at hl'
      rcases hl' with rfl | hl'
      · intro heq; exact hnot a name heq
      · exact hpre l' hl' a

theorem findHash_exact (buf name h : Bytes) (hf : findHash buf name = .ok h) :
    ∃ pre line post hx, scanLines buf = pre ++ line :: post ∧ splitDS line [] = [hx, name] ∧
      hexDecode hx = some h ∧ ∀ l ∈ pre, ∀ a, splitDS l [] ≠ [a, name] :=
  findHashLines_exact name _ h hf

def sep : Bytes := [0x20, 0x20]

def joinDS : List Bytes → Bytes
  | [] => []
  | [x] => x
  | x :: y :: r => x ++ sep ++ joinDS (y :: r)

theorem splitDS_ne_nil (s cur : Bytes) : splitDS s cur ≠ [] := by
  fun_induction splitDS s cur <;> simp_all

theorem joinDS_cons (x : Bytes) (l : List Bytes) (h : l ≠ []) :
    joinDS (x :: l) = x ++ sep ++ joinDS l := by
  cases l with
  | nil => exact absurd rfl h
  | cons y r => rfl

/-- `strings.Split` loses nothing: joining the fields with the separator gives the line back -/
theorem joinDS_splitDS (s cur : Bytes) : joinDS (splitDS s cur) = cur.reverse ++ s := by
  fun_induction splitDS s cur with
  | case1 cur => simp [joinDS]
  | case2 c cur => simp [joinDS]
  | case3 a b rest cur hab ih =>
    rw [joinDS_cons _ _ (splitDS_ne_nil _ _), ih]
    obtain ⟨rfl, rfl⟩ := hab
    simp [sep]
  | case4 a b rest cur hab ih =>
    rw [ih]; simp

/-- the matching line is literally `<hex>␣␣<file name>` -/
theorem splitDS_two (line a b : Bytes) (h : splitDS line [] = [a, b]) : line = a ++ sep ++ b := by
  have := joinDS_splitDS line []
  rw [h] at this
  simpa [joinDS] using this.symm

/-! ### link to the executable statement -/

theorem model_meets_spec (env : Env) (cur c : Bytes) (h : (download env cur).written = some c) :
    ∃ s : Served env cur,
      specOK true (env.gpgVerify s.sums s.sig == .ok true)
        (match findHash s.sums s.fname with | .ok d => some d | _ => none) (env.sha256 s.buf) = true := by
  obtain ⟨s, h1, h2, _⟩ := install_only_if env cur c h
  exact ⟨s, by simp [specOK, h1, h2]⟩

/-! ### T1: the order of the checks in the source -/

def checkCalls : List String :=
  ["GitHubLatestRelease", "GPGVerify", "findHash", "sha256.Sum256", "bytes.Equal", "extractToFile"]

/-- release lookup, then signature verification, then hash lookup, hashing, comparison, and only
    then the one call that writes -/
theorem call_order :
    (Restic.Gen.downloadLatest_calls.filter fun c => c ∈ checkCalls) = checkCalls := by decide

/-- `extractToFile` is the last call in the function that can touch the target -/
theorem extract_is_last_check :
    (Restic.Gen.downloadLatest_calls.reverse.takeWhile fun c => c != "extractToFile").all
      (fun c => c ∉ checkCalls) = true := by decide

/-! ### non-vacuity -/

def asc (s : String) : Bytes := s.toList.map fun c => UInt8.ofNat c.toNat

def exSums : Bytes := (asc "00ff  other\nabcd  restic_linux_amd64.bz2\n")
def exName : Bytes := (asc "restic_linux_amd64.bz2")

example : findHash exSums exName = .ok [0xab, 0xcd] := by decide
example : findHash exSums (asc "restic_linux_amd64.bz") = .notFound := by decide
example : findHash (asc "zz  f\nabcd  f\n") (asc "f") = .badHex := by decide
/-- three spaces: the name field starts with a blank and does not match -/
example : findHash (asc "abcd   f\n") (asc "f") = .notFound := by decide

def exEnv (gpg : GpgResult) (hash : Bytes) : Env :=
  { latest := some ((asc "1.0"), [⟨sumsName, [1]⟩, ⟨sigName, [2]⟩, ⟨exName, [3]⟩]),
    fetch := fun u => if u = [1] then some exSums else if u = [2] then some [0x73] else if u = [3] then some [0x42] else none,
    gpgVerify := fun _ _ => gpg, sha256 := fun _ => hash,
    extract := fun _ _ => .installed [0x4e, 0x45, 0x57], suffix := (asc "linux_amd64.bz2") }

example : (download (exEnv (.ok true) [0xab, 0xcd]) []).written = some [0x4e, 0x45, 0x57] := by decide
example : (download (exEnv .error [0xab, 0xcd]) []) = ⟨.gpgError, true, none⟩ := by decide
example : (download (exEnv (.ok true) [0xab, 0xce]) []) = ⟨.hashMismatch, true, none⟩ := by decide
example : specOK true false (some [1]) [1] = false := by decide
example : specOK true true (some [1]) [2] = false := by decide

end Restic.Props.C51
