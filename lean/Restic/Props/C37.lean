import Restic.Model.Sema
import Restic.Gen.Source
import Restic.Gen.Consts
/-!
# C37 — Backend concurrency limits hold and lock operations are never blocked

Theorems about `Restic.Model.Sema` (atomic-step model of internal/backend/sema/backend.go), for
every number of connections, every table of calls (any length) and every schedule (`List Act`).
-/
namespace Restic.Props.C37
open Restic.Model.Sema

/-- the inductive invariant -/
def Inv (s : Sys) : Prop :=
  s.tokens = s.threads.countP holdsToken ∧ s.tokens ≤ s.n ∧
  (∀ t ∈ s.threads, t.called = true → t.valid = true ∧ t.cancelled = false) ∧
  (∀ t ∈ s.threads, (t.pc = .haveToken ∨ t.pc = .passedGate) → t.isLock = false ∧ t.valid = true)

/-- second invariant: a call that reached the wrapped backend is inside it or has returned -/
def Inv2 (s : Sys) : Prop := ∀ t ∈ s.threads, t.called = true → t.pc = .running ∨ t.pc = .done

theorem lookup_lt {l : List Thread} {i : Nat} {t : Thread} (h : l[i]? = some t) :
    ∃ hi : i < l.length, l[i] = t := by
  rw [List.getElem?_eq_some_iff] at h; exact h

theorem lookup_mem {l : List Thread} {i : Nat} {t : Thread} (h : l[i]? = some t) : t ∈ l :=
  List.mem_of_getElem? h

/-- membership after replacing one entry -/
theorem mem_set {l : List Thread} {i : Nat} {t' x : Thread} (h : x ∈ l.set i t') : x ∈ l ∨ x = t' :=
  List.mem_or_eq_of_mem_set h

theorem init_inv (n : Nat) (calls : List (Bool × Bool × Bool)) : Inv (init n calls) := by
  refine ⟨?_, Nat.zero_le _, ?_, ?_⟩
  · simp only [init]
    symm
    rw [List.countP_eq_zero]
    intro t ht
    simp only [List.mem_map] at ht
    obtain ⟨c, _, rfl⟩ := ht
    simp [holdsToken]
  · intro t ht
    simp only [init, List.mem_map] at ht
    obtain ⟨c, _, rfl⟩ := ht
    simp
  · intro t ht
    simp only [init, List.mem_map] at ht
    obtain ⟨c, _, rfl⟩ := ht
    simp

/-- replacing the entry of one thread preserves the invariant when the token counter is adjusted
    by exactly the change of that thread's token status and the local clauses hold for the new entry -/
theorem set_inv (s : Sys) (i : Nat) (t t' : Thread) (tok : Nat) (fr : Bool) (h : Inv s)
    (ht : s.threads[i]? = some t)
    (htok : tok + (if holdsToken t then 1 else 0) = s.tokens + (if holdsToken t' then 1 else 0))
    (hle : tok ≤ s.n)
    (hcall : t'.called = true → t'.valid = true ∧ t'.cancelled = false)
    (hgate : (t'.pc = .haveToken ∨ t'.pc = .passedGate) → t'.isLock = false ∧ t'.valid = true) :
    Inv { n := s.n, tokens := tok, frozen := fr, threads := s.threads.set i t' } := by
  obtain ⟨hTok, _, hCall, hLock⟩ := h
  obtain ⟨hi, hget⟩ := lookup_lt ht
  refine ⟨?_, hle, ?_, ?_⟩
  · simp only [List.countP_set hi, hget]
    have hb := List.boole_getElem_le_countP (p := holdsToken) hi
    rw [hget] at hb
    omega
  · intro x hx
    rcases mem_set hx with hx | rfl
    · exact hCall x hx
    · exact hcall
  · intro x hx
    rcases mem_set hx with hx | rfl
    · exact hLock x hx
    · exact hgate

theorem step_inv (s s' : Sys) (a : Act) (h : Inv s) (h2 : Inv2 s) (st : step s a = some s') : Inv s' := by
  have h0 := h
  obtain ⟨hTok, hLe, hCall, hLock⟩ := h
  cases a with
  | reject i =>
    simp only [step] at st
    split at st
    · rename_i t ht
      split at st
      · rename_i hc
        injection st with st; subst st
        exact set_inv s i t _ s.tokens s.frozen h0 ht (by simp [holdsToken, hc.1]) hLe
          (fun hcd => hCall t (lookup_mem ht) hcd) (by simp)
      · cases st
    · cases st
  | getToken i =>
    simp only [step] at st
    split at st
    · rename_i t ht
      split at st
      · rename_i hc
        injection st with st; subst st
        exact set_inv s i t _ (s.tokens + 1) s.frozen h0 ht (by simp [holdsToken, hc.1, hc.2.2.1])
          (by omega) (fun hcd => hCall t (lookup_mem ht) hcd) (fun _ => ⟨hc.2.2.1, hc.2.1⟩)
      · cases st
    · cases st
  | passGate i =>
    simp only [step] at st
    split at st
    · rename_i t ht
      split at st
      · rename_i hc
        injection st with st; subst st
        have hg := hLock t (lookup_mem ht) (Or.inl hc.1)
        exact set_inv s i t _ s.tokens s.frozen h0 ht (by simp [holdsToken, hc.1, hg.1]) hLe
          (fun hcd => hCall t (lookup_mem ht) hcd) (fun _ => hg)
      · cases st
    · cases st
  | enter i =>
    simp only [step] at st
    split at st
    · rename_i t ht
      split at st
      · rename_i hc
        have hvalid : t.valid = true := by
          rcases hc with hc | hc
          · exact (hLock t (lookup_mem ht) (Or.inr hc)).2
          · exact hc.2.1
        split at st
        · injection st with st; subst st
          refine set_inv s i t _ s.tokens s.frozen h0 ht ?_ hLe
            (fun hcd => hCall t (lookup_mem ht) hcd) (by simp)
          rcases hc with hc | hc
          · simp [holdsToken, hc]
          · simp [holdsToken, hc.2.2]
        · rename_i hcan
          injection st with st; subst st
          refine set_inv s i t _ s.tokens s.frozen h0 ht ?_ hLe
            (fun _ => ⟨hvalid, by simpa using hcan⟩) (by simp)
          rcases hc with hc | hc
          · simp [holdsToken, hc]
          · simp [holdsToken, hc.2.2]
      · cases st
    · cases st
  | finish i =>
    simp only [step] at st
    split at st
    · rename_i t ht
      split at st
      · rename_i hc
        injection st with st; subst st
        obtain ⟨hi, hget⟩ := lookup_lt ht
        have hb := List.boole_getElem_le_countP (p := holdsToken) hi
        rw [hget] at hb
        have hd : holdsToken { t with pc := PC.done } = false := by simp [holdsToken]
        have hpos : t.isLock = false → 0 < s.tokens := by
          intro hl
          have hh : holdsToken t = true := by rcases hc with hc | hc <;> simp [holdsToken, hc, hl]
          rw [hh] at hb; simp only [if_true] at hb; omega
        refine set_inv s i t _ _ s.frozen h0 ht ?_ ?_
          (fun hcd => hCall t (lookup_mem ht) hcd) (by simp)
        · rw [hd]
          cases hl : t.isLock
          · have hh : holdsToken t = true := by rcases hc with hc | hc <;> simp [holdsToken, hc, hl]
            have := hpos hl
            simp [hh]; omega
          · have hh : holdsToken t = false := by simp [holdsToken, hl]
            simp [hh]
        · split <;> omega
      · cases st
    · cases st
  | cancel i =>
    simp only [step] at st
    split at st
    · rename_i t ht
      split at st
      · rename_i hc
        injection st with st; subst st
        -- the call has not reached the wrapped backend yet
        have hnc : t.called = false := by
          cases hcd : t.called
          · rfl
          · rcases h2 t (lookup_mem ht) hcd with h | h <;> rcases hc with hc | hc | hc <;> simp [h] at hc
        exact set_inv s i t _ s.tokens s.frozen h0 ht (by simp [holdsToken]) hLe
          (fun hcd => by simp [hnc] at hcd) (fun hg => hLock t (lookup_mem ht) hg)
      · injection st with st; subst st; exact ⟨hTok, hLe, hCall, hLock⟩
    · cases st
  | freeze =>
    simp only [step] at st
    split at st
    · injection st with st; subst st; exact ⟨hTok, hLe, hCall, hLock⟩
    · cases st
  | unfreeze =>
    simp only [step] at st
    split at st
    · injection st with st; subst st; exact ⟨hTok, hLe, hCall, hLock⟩
    · cases st

theorem step_inv2 (s s' : Sys) (a : Act) (h2 : Inv2 s) (st : step s a = some s') : Inv2 s' := by
  have upd : ∀ (j : Nat) (u u' : Thread), s.threads[j]? = some u →
      (u'.called = true → u'.pc = .running ∨ u'.pc = .done) →
      ∀ x ∈ s.threads.set j u', x.called = true → x.pc = .running ∨ x.pc = .done := by
    intro j u u' _ hu' x hx
    rcases mem_set hx with hx | rfl
    · exact h2 x hx
    · exact hu'
  cases a with
  | freeze => simp only [step] at st; split at st <;> cases st; exact h2
  | unfreeze => simp only [step] at st; split at st <;> cases st; exact h2
  | reject j | finish j =>
    simp only [step] at st
    split at st
    · rename_i u hu
      split at st
      · cases st; exact upd j u _ hu (fun _ => Or.inr rfl)
      · cases st
    · cases st
  | getToken j | passGate j =>
    simp only [step] at st
    split at st
    · rename_i u hu
      split at st
      · rename_i hc
        cases st
        refine upd j u _ hu (fun hcd => ?_)
        rcases h2 u (lookup_mem hu) hcd with h | h <;> simp [h] at hc
      · cases st
    · cases st
  | enter j =>
    simp only [step] at st
    split at st
    · rename_i u hu
      split at st
      · rename_i hc
        split at st
        · cases st
          refine upd j u _ hu (fun hcd => ?_)
          rcases h2 u (lookup_mem hu) hcd with h | h <;> rcases hc with hc | hc <;> simp [h] at hc
        · cases st; exact upd j u _ hu (fun _ => Or.inl rfl)
      · cases st
    · cases st
  | cancel j =>
    simp only [step] at st
    split at st
    · rename_i u hu
      split at st
      · cases st; exact upd j u _ hu (fun hcd => h2 u (lookup_mem hu) hcd)
      · cases st; exact h2
    · cases st

theorem init_inv2 (n : Nat) (calls : List (Bool × Bool × Bool)) : Inv2 (init n calls) := by
  intro t ht hc
  simp only [init, List.mem_map] at ht
  obtain ⟨c, _, rfl⟩ := ht
  simp at hc

theorem run_inv : ∀ (acts : List Act) (s s' : Sys), Inv s ∧ Inv2 s → run s acts = some s' → Inv s' ∧ Inv2 s'
  | [], s, s', h, hr => by simp only [run] at hr; injection hr with hr; subst hr; exact h
  | a :: as, s, s', h, hr => by
    simp only [run] at hr
    split at hr
    · rename_i s1 h1; exact run_inv as s1 s' ⟨step_inv s s1 a h.1 h.2 h1, step_inv2 s s1 a h.2 h1⟩ hr
    · cases hr

theorem reach_inv (n : Nat) (calls : List (Bool × Bool × Bool)) (acts : List Act) (s : Sys)
    (h : run (init n calls) acts = some s) : Inv s :=
  (run_inv acts _ _ ⟨init_inv n calls, init_inv2 n calls⟩ h).1

theorem reach_inv2 (n : Nat) (calls : List (Bool × Bool × Bool)) (acts : List Act) (s : Sys)
    (h : run (init n calls) acts = some s) : Inv2 s :=
  (run_inv acts _ _ ⟨init_inv n calls, init_inv2 n calls⟩ h).2

/-! ### The property theorems -/

/-- **limit**: in every reachable state (any number of calls, any schedule) the number of non-lock
    operations inside the wrapped backend is at most the number of tokens taken, which is at most
    the configured number of connections. -/
theorem limit (n : Nat) (calls : List (Bool × Bool × Bool)) (acts : List Act) (s : Sys)
    (h : run (init n calls) acts = some s) :
    s.threads.countP runningNonLock ≤ s.tokens ∧ s.tokens ≤ s.n := by
  obtain ⟨hTok, hLe, _, _⟩ := reach_inv n calls acts s h
  refine ⟨?_, hLe⟩
  rw [hTok]
  apply List.countP_mono_left
  intro t _ ht
  simp only [runningNonLock, Bool.and_eq_true, Bool.not_eq_true', beq_iff_eq] at ht
  simp [holdsToken, ht.1, ht.2]

/-- `step` never changes the capacity -/
theorem step_n (s s' : Sys) (a : Act) (st : step s a = some s') : s'.n = s.n := by
  cases a <;> simp only [step] at st <;> (repeat' split at st) <;>
    first | (cases st; done) | (cases st; simp [setT])

theorem run_n : ∀ (acts : List Act) (s s' : Sys), run s acts = some s' → s'.n = s.n
  | [], s, s', hr => by simp only [run] at hr; injection hr with hr; subst hr; rfl
  | a :: as, s, s', hr => by
    simp only [run] at hr
    split at hr
    · rename_i s1 h1; rw [run_n as s1 s' hr, step_n s s1 a h1]
    · cases hr

/-- **frozen_no_start**: while the backend is frozen no call can pass the gate. -/
theorem frozen_no_start (s : Sys) (i : Nat) (h : s.frozen = true) : step s (.passGate i) = none := by
  simp only [step]
  split
  · simp [h]
  · rfl

/-- a non-lock call is still in front of the gate -/
def beforeGate (t : Thread) : Prop := t.pc = .start ∨ t.pc = .haveToken

/-- **frozen_no_admission** (one step, any action): while frozen, a non-lock call that has not passed
    the gate stays in front of it (it may take a token, or be rejected for invalid arguments) and does
    not reach the wrapped backend. -/
theorem frozen_no_admission (s s' : Sys) (a : Act) (hf : s.frozen = true) (st : step s a = some s')
    (i : Nat) (t t' : Thread) (ht : s.threads[i]? = some t) (ht' : s'.threads[i]? = some t')
    (hnl : t.isLock = false) (hb : beforeGate t) :
    t'.called = t.called ∧ (beforeGate t' ∨ (t'.pc = .done ∧ t.valid = false)) := by
  have key : ∀ (j : Nat) (u u' : Thread), s.threads[j]? = some u →
      (j = i → u'.called = u.called ∧ (beforeGate u' ∨ (u'.pc = .done ∧ u.valid = false))) →
      (s.threads.set j u')[i]? = some t' →
      t'.called = t.called ∧ (beforeGate t' ∨ (t'.pc = .done ∧ t.valid = false)) := by
    intro j u u' hu hji hset
    by_cases hj : j = i
    · subst hj
      obtain ⟨hi, _⟩ := lookup_lt ht
      rw [List.getElem?_set_self hi] at hset
      injection hset with hset; subst hset
      rw [hu] at ht; injection ht with ht; subst ht
      exact hji rfl
    · rw [List.getElem?_set_ne hj] at hset
      rw [ht] at hset; injection hset with hset; subst hset
      exact ⟨rfl, Or.inl hb⟩
  cases a with
  | reject j =>
    simp only [step] at st
    split at st
    · rename_i u hu
      split at st
      · rename_i hc
        injection st with st; subst st
        simp only [setT] at ht'
        refine key j u _ hu ?_ ht'
        exact fun _ => ⟨rfl, Or.inr ⟨rfl, hc.2⟩⟩
      · cases st
    · cases st
  | getToken j =>
    simp only [step] at st
    split at st
    · rename_i u hu
      split at st
      · injection st with st; subst st
        simp only [setT] at ht'
        refine key j u _ hu ?_ ht'
        exact fun _ => ⟨rfl, Or.inl (Or.inr rfl)⟩
      · cases st
    · cases st
  | passGate j =>
    rw [frozen_no_start s j hf] at st; cases st
  | enter j =>
    simp only [step] at st
    split at st
    · rename_i u hu
      split at st
      · rename_i hc
        have hne : j ≠ i := by
          intro e; subst e
          rw [hu] at ht; injection ht with ht; subst ht
          rcases hc with hc | hc
          · rcases hb with hb | hb <;> simp [hc] at hb
          · simp [hnl] at hc
        split at st <;>
        · injection st with st; subst st
          simp only [setT] at ht'
          refine key j u _ hu ?_ ht'
          exact fun e => absurd e hne
      · cases st
    · cases st
  | finish j =>
    simp only [step] at st
    split at st
    · rename_i u hu
      split at st
      · rename_i hc
        have hne : j ≠ i := by
          intro e; subst e
          rw [hu] at ht; injection ht with ht; subst ht
          rcases hc with hc | hc <;> rcases hb with hb | hb <;> simp [hc] at hb
        injection st with st; subst st
        try simp only [setT] at ht'
        refine key j u _ hu ?_ ht'
        exact fun e => absurd e hne
      · cases st
    · cases st
  | cancel j =>
    simp only [step] at st
    split at st
    · rename_i u hu
      split at st
      · injection st with st; subst st
        simp only [setT] at ht'
        refine key j u _ hu ?_ ht'
        intro e; subst e
        rw [hu] at ht; injection ht with ht; subst ht
        exact ⟨rfl, Or.inl hb⟩
      · injection st with st; subst st
        rw [ht] at ht'; injection ht' with ht'; subst ht'; exact ⟨rfl, Or.inl hb⟩
    · cases st
  | freeze =>
    simp [step, hf] at st
  | unfreeze =>
    simp [step, hf] at st
    subst st
    rw [ht] at ht'; injection ht' with ht'; subst ht'; exact ⟨rfl, Or.inl hb⟩

/-- **lock_never_blocked**: in every reachable state — in particular when all tokens are taken and the
    backend is frozen — every unfinished lock-file call has an enabled step of its own. -/
theorem lock_never_blocked (n : Nat) (calls : List (Bool × Bool × Bool)) (acts : List Act) (s : Sys)
    (h : run (init n calls) acts = some s) (i : Nat) (t : Thread) (ht : s.threads[i]? = some t)
    (hl : t.isLock = true) (hnd : t.pc ≠ .done) :
    (step s (.reject i)).isSome ∨ (step s (.enter i)).isSome ∨ (step s (.finish i)).isSome := by
  obtain ⟨_, _, _, hGate⟩ := reach_inv n calls acts s h
  have hg := hGate t (lookup_mem ht)
  simp only [step, ht]
  cases hpc : t.pc
  · -- start
    cases hv : t.valid
    · left; simp
    · right; left; simp [hl]; split <;> rfl
  · exact absurd (hg (Or.inl hpc)).1 (by simp [hl])
  · exact absurd (hg (Or.inr hpc)).1 (by simp [hl])
  · right; right; simp
  · right; right; simp
  · exact absurd hpc hnd

/-- **cancelled_ctx_no_backend_call**: a call whose context is already cancelled (or whose arguments
    are invalid) never reaches the wrapped backend. -/
theorem cancelled_ctx_no_backend_call (n : Nat) (calls : List (Bool × Bool × Bool)) (acts : List Act)
    (s : Sys) (h : run (init n calls) acts = some s) (t : Thread) (ht : t ∈ s.threads)
    (hc : t.cancelled = true ∨ t.valid = false) : t.called = false := by
  obtain ⟨_, _, hCall, _⟩ := reach_inv n calls acts s h
  cases hcd : t.called
  · rfl
  · have := hCall t ht hcd
    rcases hc with hc | hc <;> simp [this.1, this.2] at hc

/-- link to the executable statement: every reachable state of the transcription satisfies
    `specState` (limit and no-call-after-cancel), for all `n`, call tables and schedules. -/
theorem reach_specState (n : Nat) (calls : List (Bool × Bool × Bool)) (acts : List Act) (s : Sys)
    (h : run (init n calls) acts = some s) : specState s = true := by
  have hn : s.n = n := by rw [run_n acts _ s h]; rfl
  have hl := limit n calls acts s h
  simp only [specState, Bool.and_eq_true, decide_eq_true_eq, List.all_eq_true, Bool.or_eq_true,
    Bool.not_eq_true', Bool.and_eq_true]
  refine ⟨by omega, ?_⟩
  intro t ht
  cases hcd : t.called
  · exact Or.inl rfl
  · obtain ⟨_, _, hCall, _⟩ := reach_inv n calls acts s h
    have := hCall t ht hcd
    exact Or.inr ⟨this.1, this.2⟩

/-- **frozen_quiet_run** (whole run segments): if the backend is frozen and no call is between the
    gate and the backend call (which is the case whenever `Freeze` is taken in a settled state), then
    for every schedule without `unfreeze` the backend stays frozen and no non-lock call newly reaches
    the wrapped backend. -/
theorem frozen_quiet_run : ∀ (acts : List Act) (s s' : Sys), s.frozen = true →
    (∀ t ∈ s.threads, t.isLock = false → t.pc ≠ .passedGate) →
    Act.unfreeze ∉ acts → run s acts = some s' →
    s'.frozen = true ∧ ∀ (i : Nat) (t t' : Thread), s.threads[i]? = some t → s'.threads[i]? = some t' →
      t.isLock = false → t'.called = t.called
  | [], s, s', hf, _, _, hr => by
    simp only [run] at hr; injection hr with hr; subst hr
    refine ⟨hf, ?_⟩
    intro i t t' ht ht' _; rw [ht] at ht'; injection ht' with e; rw [e]
  | a :: as, s, s', hf, hq, hnu, hr => by
    simp only [run] at hr
    split at hr
    · rename_i s1 h1
      have hne : a ≠ .unfreeze := fun e => hnu (e ▸ List.mem_cons_self)
      have hnu' : Act.unfreeze ∉ as := fun e => hnu (List.mem_cons_of_mem _ e)
      -- one step: frozen stays, the table keeps its shape, quietness and `called` are preserved
      have one : s1.frozen = true ∧ s1.threads.length = s.threads.length ∧
          (∀ (i : Nat) (t t1 : Thread), s.threads[i]? = some t → s1.threads[i]? = some t1 →
            t1.isLock = t.isLock ∧ (t.isLock = false → t1.called = t.called ∧ t1.pc ≠ .passedGate)) := by
        have upd : ∀ (j : Nat) (u u' : Thread), s.threads[j]? = some u →
            (u'.isLock = u.isLock ∧ (u.isLock = false → u'.called = u.called ∧ u'.pc ≠ .passedGate)) →
            ∀ (i : Nat) (t t1 : Thread), s.threads[i]? = some t → (s.threads.set j u')[i]? = some t1 →
            t1.isLock = t.isLock ∧ (t.isLock = false → t1.called = t.called ∧ t1.pc ≠ .passedGate) := by
          intro j u u' hu hloc i t t1 ht ht1
          by_cases hj : j = i
          · subst hj
            obtain ⟨hi, _⟩ := lookup_lt ht
            rw [List.getElem?_set_self hi] at ht1
            injection ht1 with ht1; subst ht1
            rw [hu] at ht; injection ht with ht; subst ht
            exact hloc
          · rw [List.getElem?_set_ne hj] at ht1
            rw [ht] at ht1; injection ht1 with ht1; subst ht1
            exact ⟨rfl, fun hnl => ⟨rfl, hq t (lookup_mem ht) hnl⟩⟩
        cases a with
        | reject j =>
          simp only [step] at h1
          split at h1
          · rename_i u hu
            split at h1
            · injection h1 with h1; subst h1
              exact ⟨hf, by simp [setT], upd j u _ hu ⟨rfl, fun _ => ⟨rfl, by simp⟩⟩⟩
            · cases h1
          · cases h1
        | getToken j =>
          simp only [step] at h1
          split at h1
          · rename_i u hu
            split at h1
            · injection h1 with h1; subst h1
              exact ⟨hf, by simp [setT], upd j u _ hu ⟨rfl, fun _ => ⟨rfl, by simp⟩⟩⟩
            · cases h1
          · cases h1
        | passGate j => rw [frozen_no_start s j hf] at h1; cases h1
        | enter j =>
          simp only [step] at h1
          split at h1
          · rename_i u hu
            split at h1
            · rename_i hc
              -- only a lock call can enter: non-lock calls are not at passedGate
              have hlk : u.isLock = true := by
                rcases hc with hc | hc
                · cases hl : u.isLock
                  · exact absurd hc (hq u (lookup_mem hu) hl)
                  · rfl
                · exact hc.2.2
              split at h1 <;>
              · injection h1 with h1; subst h1
                exact ⟨hf, by simp [setT], upd j u _ hu ⟨rfl, fun hl => by simp [hlk] at hl⟩⟩
            · cases h1
          · cases h1
        | finish j =>
          simp only [step] at h1
          split at h1
          · rename_i u hu
            split at h1
            · injection h1 with h1; subst h1
              exact ⟨hf, by simp [setT], upd j u _ hu ⟨rfl, fun _ => ⟨rfl, by simp⟩⟩⟩
            · cases h1
          · cases h1
        | cancel j =>
          simp only [step] at h1
          split at h1
          · rename_i u hu
            split at h1
            · injection h1 with h1; subst h1
              exact ⟨hf, by simp [setT], upd j u _ hu ⟨rfl, fun hl => ⟨rfl, hq u (lookup_mem hu) hl⟩⟩⟩
            · injection h1 with h1; subst h1
              refine ⟨hf, rfl, ?_⟩
              intro i t t1 ht ht1
              rw [ht] at ht1; injection ht1 with ht1; subst ht1
              exact ⟨rfl, fun hl => ⟨rfl, hq t (lookup_mem ht) hl⟩⟩
          · cases h1
        | freeze => simp [step, hf] at h1
        | unfreeze => exact absurd rfl hne
      obtain ⟨hf1, hlen, hstep⟩ := one
      have hq1 : ∀ t ∈ s1.threads, t.isLock = false → t.pc ≠ .passedGate := by
        intro t1 hm hl1
        obtain ⟨i, hi, hget⟩ := List.getElem_of_mem hm
        have hi' : i < s.threads.length := hlen ▸ hi
        have h1g : s1.threads[i]? = some t1 := by rw [List.getElem?_eq_getElem hi, hget]
        have h0g : s.threads[i]? = some s.threads[i] := List.getElem?_eq_getElem hi'
        have := hstep i _ t1 h0g h1g
        exact (this.2 (this.1 ▸ hl1)).2
      obtain ⟨hf', hrest⟩ := frozen_quiet_run as s1 s' hf1 hq1 hnu' hr
      refine ⟨hf', ?_⟩
      intro i t t' ht ht' hnl
      obtain ⟨hi, _⟩ := lookup_lt ht
      have hi1 : i < s1.threads.length := hlen ▸ hi
      have h1g : s1.threads[i]? = some s1.threads[i] := List.getElem?_eq_getElem hi1
      have := hstep i t _ ht h1g
      rw [hrest i _ t' h1g ht' (this.1 ▸ hnl), (this.2 hnl).1]
    · cases hr

/-! ### Link between the model and the observation-level predicate `specObs` -/

/-- a step never changes the shape of the call table nor a call's file type -/
theorem step_attrs (s s' : Sys) (a : Act) (st : step s a = some s') :
    s'.threads.length = s.threads.length ∧
    ∀ (i : Nat) (t t' : Thread), s.threads[i]? = some t → s'.threads[i]? = some t' → t'.isLock = t.isLock := by
  have upd : ∀ (j : Nat) (u u' : Thread), s.threads[j]? = some u → u'.isLock = u.isLock →
      (s.threads.set j u').length = s.threads.length ∧
      ∀ (i : Nat) (t t' : Thread), s.threads[i]? = some t → (s.threads.set j u')[i]? = some t' → t'.isLock = t.isLock := by
    intro j u u' hu hl
    refine ⟨by simp, ?_⟩
    intro i t t' ht ht'
    by_cases hj : j = i
    · subst hj
      obtain ⟨hi, _⟩ := lookup_lt ht
      rw [List.getElem?_set_self hi] at ht'
      injection ht' with ht'; subst ht'
      rw [hu] at ht; injection ht with ht; subst ht
      exact hl
    · rw [List.getElem?_set_ne hj, ht] at ht'
      injection ht' with ht'; subst ht'; rfl
  have same : s'.threads = s.threads → s'.threads.length = s.threads.length ∧
      ∀ (i : Nat) (t t' : Thread), s.threads[i]? = some t → s'.threads[i]? = some t' → t'.isLock = t.isLock := by
    intro e
    refine ⟨by rw [e], ?_⟩
    intro i t t' ht ht'
    rw [e, ht] at ht'; injection ht' with ht'; subst ht'; rfl
  cases a with
  | freeze => simp only [step] at st; split at st <;> cases st; exact same rfl
  | unfreeze => simp only [step] at st; split at st <;> cases st; exact same rfl
  | reject j | getToken j | passGate j | finish j =>
    simp only [step] at st
    split at st
    · rename_i u hu
      split at st
      · cases st; exact upd j u _ hu rfl
      · cases st
    · cases st
  | enter j =>
    simp only [step] at st
    split at st
    · rename_i u hu
      split at st
      · split at st <;> (cases st; exact upd j u _ hu rfl)
      · cases st
    · cases st
  | cancel j =>
    simp only [step] at st
    split at st
    · rename_i u hu
      split at st
      · cases st; exact upd j u _ hu rfl
      · cases st; exact same rfl
    · cases st

theorem run_attrs : ∀ (acts : List Act) (s s' : Sys), run s acts = some s' →
    s'.threads.length = s.threads.length ∧
    ∀ (i : Nat) (t t' : Thread), s.threads[i]? = some t → s'.threads[i]? = some t' → t'.isLock = t.isLock
  | [], s, s', hr => by
    simp only [run] at hr; injection hr with hr; subst hr
    exact ⟨rfl, fun i t t' ht ht' => by rw [ht] at ht'; injection ht' with e; rw [e]⟩
  | a :: as, s, s', hr => by
    simp only [run] at hr
    split at hr
    · rename_i s1 h1
      obtain ⟨l1, a1⟩ := step_attrs s s1 a h1
      obtain ⟨l2, a2⟩ := run_attrs as s1 s' hr
      refine ⟨by rw [l2, l1], ?_⟩
      intro i t t' ht ht'
      obtain ⟨hi, _⟩ := lookup_lt ht
      have hi1 : i < s1.threads.length := l1 ▸ hi
      have h1g : s1.threads[i]? = some s1.threads[i] := List.getElem?_eq_getElem hi1
      rw [a2 i _ t' h1g ht', a1 i t _ ht h1g]
    · cases hr


/-- a cancelled context stays cancelled -/
theorem step_cancelled_mono (s s' : Sys) (a : Act) (st : step s a = some s') :
    s'.threads.length = s.threads.length ∧
    ∀ (i : Nat) (t t' : Thread), s.threads[i]? = some t → s'.threads[i]? = some t' → (t.cancelled = true → t'.cancelled = true) := by
  have upd : ∀ (j : Nat) (u u' : Thread), s.threads[j]? = some u → (u.cancelled = true → u'.cancelled = true) →
      (s.threads.set j u').length = s.threads.length ∧
      ∀ (i : Nat) (t t' : Thread), s.threads[i]? = some t → (s.threads.set j u')[i]? = some t' → (t.cancelled = true → t'.cancelled = true) := by
    intro j u u' hu hl
    refine ⟨by simp, ?_⟩
    intro i t t' ht ht'
    by_cases hj : j = i
    · subst hj
      obtain ⟨hi, _⟩ := lookup_lt ht
      rw [List.getElem?_set_self hi] at ht'
      injection ht' with ht'; subst ht'
      rw [hu] at ht; injection ht with ht; subst ht
      exact hl
    · rw [List.getElem?_set_ne hj, ht] at ht'
      injection ht' with ht'; subst ht'; exact id
  have same : s'.threads = s.threads → s'.threads.length = s.threads.length ∧
      ∀ (i : Nat) (t t' : Thread), s.threads[i]? = some t → s'.threads[i]? = some t' → (t.cancelled = true → t'.cancelled = true) := by
    intro e
    refine ⟨by rw [e], ?_⟩
    intro i t t' ht ht'
    rw [e, ht] at ht'; injection ht' with ht'; subst ht'; exact id
  cases a with
  | freeze => simp only [step] at st; split at st <;> cases st; exact same rfl
  | unfreeze => simp only [step] at st; split at st <;> cases st; exact same rfl
  | reject j | getToken j | passGate j | finish j =>
    simp only [step] at st
    split at st
    · rename_i u hu
      split at st
      · cases st; exact upd j u _ hu (fun h => by first | exact h | rfl)
      · cases st
    · cases st
  | enter j =>
    simp only [step] at st
    split at st
    · rename_i u hu
      split at st
      · split at st <;> (cases st; exact upd j u _ hu (fun h => by first | exact h | rfl))
      · cases st
    · cases st
  | cancel j =>
    simp only [step] at st
    split at st
    · rename_i u hu
      split at st
      · cases st; exact upd j u _ hu (fun h => by first | exact h | rfl)
      · cases st; exact same rfl
    · cases st

theorem run_cancelled_mono : ∀ (acts : List Act) (s s' : Sys), run s acts = some s' →
    s'.threads.length = s.threads.length ∧
    ∀ (i : Nat) (t t' : Thread), s.threads[i]? = some t → s'.threads[i]? = some t' → (t.cancelled = true → t'.cancelled = true)
  | [], s, s', hr => by
    simp only [run] at hr; injection hr with hr; subst hr
    exact ⟨rfl, fun i t t' ht ht' => by rw [ht] at ht'; injection ht' with e; rw [e]; exact id⟩
  | a :: as, s, s', hr => by
    simp only [run] at hr
    split at hr
    · rename_i s1 h1
      obtain ⟨l1, a1⟩ := step_cancelled_mono s s1 a h1
      obtain ⟨l2, a2⟩ := run_cancelled_mono as s1 s' hr
      refine ⟨by rw [l2, l1], ?_⟩
      intro i t t' ht ht'
      obtain ⟨hi, _⟩ := lookup_lt ht
      have hi1 : i < s1.threads.length := l1 ▸ hi
      have h1g : s1.threads[i]? = some s1.threads[i] := List.getElem?_eq_getElem hi1
      exact fun hc => a2 i _ t' h1g ht' (a1 i t _ ht h1g hc)
    · cases hr



/-- **cancelled_while_waiting_no_backend_call** (the order the lock code relies on): if the context of
    a call is cancelled while the call is still waiting for a token or parked at the freeze gate — e.g.
    by `tryRefreshStaleLock` cancelling the lock context while the backend is frozen — the call never
    reaches the wrapped backend, whatever happens afterwards (Unfreeze, tokens becoming free, …). -/
theorem cancelled_while_waiting_no_backend_call (n : Nat) (calls : List (Bool × Bool × Bool))
    (pre post : List Act) (s1 s : Sys) (i : Nat) (t1 : Thread)
    (h1 : run (init n calls) pre = some s1) (ht1 : s1.threads[i]? = some t1)
    (hw : t1.pc = .start ∨ t1.pc = .haveToken ∨ t1.pc = .passedGate)
    (h2 : run s1 (.cancel i :: post) = some s) (t : Thread) (ht : s.threads[i]? = some t) :
    t.called = false := by
  simp only [run, step, ht1, hw, if_true] at h2
  have hinv := run_inv post _ s ⟨step_inv s1 _ (.cancel i) (reach_inv n calls pre s1 h1) (reach_inv2 n calls pre s1 h1)
      (by simp [step, ht1, hw]), step_inv2 s1 _ (.cancel i) (reach_inv2 n calls pre s1 h1) (by simp [step, ht1, hw])⟩ h2
  obtain ⟨hi, _⟩ := lookup_lt ht1
  have hset : (setT s1 i { t1 with cancelled := true }).threads[i]? = some { t1 with cancelled := true } := by
    simp only [setT]; exact List.getElem?_set_self hi
  have hc := (run_cancelled_mono post _ s h2).2 i _ t hset ht rfl
  cases hcd : t.called
  · rfl
  · have := hinv.1.2.2.1 t (lookup_mem ht) hcd
    rw [hc] at this; exact absurd this.2 (by simp)

/-- link between the model and the observation-level predicate the driver evaluates on the
    implementation: for two states of the model (before / after a harness command) where `s'` satisfies
    the invariant, lock calls have taken their always-enabled steps (settled), and — when frozen
    before and after — no non-lock call was newly called (conclusion of `frozen_quiet_run`), `specObs`
    finds no violated clause. -/
theorem specObs_of_model (s s' : Sys) (hs : Inv s') (hlen : s.threads.length = s'.threads.length)
    (hsettled : ∀ t ∈ s'.threads, t.isLock = true → t.pc = .running ∨ t.pc = .done)
    (hrel : ∀ (i : Nat) (t t' : Thread), s.threads[i]? = some t → s'.threads[i]? = some t' →
      t'.isLock = t.isLock ∧ (s.frozen = true → s'.frozen = true → t.isLock = false → t'.called = t.called)) :
    specObs s'.n s.frozen s'.frozen (s.threads.map obsOf) (s'.threads.map obsOf) = none := by
  obtain ⟨hTok, hLe, hCall, _⟩ := hs
  unfold specObs
  have h1 : ¬ (List.countP (fun o => !o.isLock && o.inner) (s'.threads.map obsOf) > s'.n) := by
    rw [List.countP_map]
    have : List.countP ((fun o => !o.isLock && o.inner) ∘ obsOf) s'.threads ≤ List.countP holdsToken s'.threads := by
      apply List.countP_mono_left
      intro t _ ht
      simp only [Function.comp, obsOf, Bool.and_eq_true, Bool.not_eq_true', beq_iff_eq] at ht
      simp [holdsToken, ht.1, ht.2]
    omega
  have h2 : (s'.threads.map obsOf).any (fun o => o.isLock && !(o.inner || o.returned)) = false := by
    rw [List.any_map, List.any_eq_false]
    intro t ht
    simp only [Function.comp, obsOf, Bool.and_eq_true, Bool.not_eq_true', Bool.or_eq_false_iff, beq_eq_false_iff_ne, not_and]
    intro hl
    rcases hsettled t ht hl with h | h <;> simp [h]
  have h3 : (s'.threads.map obsOf).any (fun o => o.called && (o.cancelled || !o.valid)) = false := by
    rw [List.any_map, List.any_eq_false]
    intro t ht
    simp only [Function.comp, obsOf, Bool.and_eq_true, Bool.or_eq_true, Bool.not_eq_true', not_and, not_or]
    intro hc
    have := hCall t ht hc
    simp [this.1, this.2]
  have h4 : (s.frozen && s'.frozen &&
      (List.range (s'.threads.map obsOf).length).any (fun i =>
        let c := (s'.threads.map obsOf).getD i default
        let p := (s.threads.map obsOf).getD i { c with inner := false, called := false, returned := false }
        !c.isLock && c.called && !p.called)) = false := by
    cases hf : s.frozen
    · simp
    · cases hf' : s'.frozen
      · simp
      · simp only [Bool.and_self, Bool.true_and]
        rw [List.any_eq_false]
        intro i hi
        simp only [List.mem_range, List.length_map] at hi
        have hi0 : i < s.threads.length := hlen ▸ hi
        simp only [List.getD_eq_getElem?_getD, List.getElem?_map, List.getElem?_eq_getElem hi,
          List.getElem?_eq_getElem hi0, Option.map_some, Option.getD_some]
        have := hrel i _ _ (List.getElem?_eq_getElem hi0) (List.getElem?_eq_getElem hi)
        cases hl : (s.threads[i]).isLock
        · have hc := this.2 hf hf' hl
          simp only [obsOf, hc]
          cases (s.threads[i]).called <;> simp
        · simp [obsOf, this.1, hl]
  simp only [h1, h2, h3, h4, if_false, Bool.false_eq_true]

/-- **model_meets_specObs**: along any run of the model from a reachable state `s` to `s'` without
    `unfreeze`, where in `s` nobody is between gate and backend call when frozen (settled) and in `s'`
    every lock call has taken its always-enabled steps, the observation-level predicate evaluated by
    the driver on the implementation holds for the model's own observations. -/
theorem model_meets_specObs (n : Nat) (calls : List (Bool × Bool × Bool)) (pre acts : List Act) (s s' : Sys)
    (h0 : run (init n calls) pre = some s) (h1 : run s acts = some s')
    (hq : s.frozen = true → ∀ t ∈ s.threads, t.isLock = false → t.pc ≠ .passedGate)
    (hnu : Act.unfreeze ∉ acts)
    (hsettled : ∀ t ∈ s'.threads, t.isLock = true → t.pc = .running ∨ t.pc = .done) :
    specObs s'.n s.frozen s'.frozen (s.threads.map obsOf) (s'.threads.map obsOf) = none := by
  have hinv : Inv s' := (run_inv acts s s' ⟨reach_inv n calls pre s h0, reach_inv2 n calls pre s h0⟩ h1).1
  obtain ⟨hlen, hattr⟩ := run_attrs acts s s' h1
  apply specObs_of_model s s' hinv hlen.symm hsettled
  intro i t t' ht ht'
  refine ⟨hattr i t t' ht ht', ?_⟩
  intro hf _ hl
  exact (frozen_quiet_run acts s s' hf (hq hf) hnu h1).2 i t t' ht ht' hl

/-! ### T1: facts regenerated from internal/backend/sema/backend.go on every run -/

/-- `typeDependentLimit` takes the token first and only then passes the freeze gate (lock then
    unlock of `freezeLock`); this is the `getToken`-before-`passGate` order of the model. -/
theorem t1_token_before_gate :
    Restic.Gen.sema_typeDependentLimit_calls.idxOf "be.sem.GetToken"
      < Restic.Gen.sema_typeDependentLimit_calls.idxOf "be.freezeLock.Lock"
    ∧ Restic.Gen.sema_typeDependentLimit_calls.idxOf "be.freezeLock.Lock"
      < Restic.Gen.sema_typeDependentLimit_calls.idxOf "be.freezeLock.Unlock"
    ∧ "be.freezeLock.Unlock" ∈ Restic.Gen.sema_typeDependentLimit_calls := by decide

/-- `Freeze`/`Unfreeze` are exactly lock/unlock of the same mutex the gate uses. -/
theorem t1_freeze_is_gate_mutex :
    Restic.Gen.sema_Freeze_calls = ["be.freezeLock.Lock"]
    ∧ Restic.Gen.sema_Unfreeze_calls = ["be.freezeLock.Unlock"] := by decide

/-- in each wrapped method: argument validation, then `typeDependentLimit`, then the context check,
    then the wrapped backend's method (order `reject` / `getToken`+`passGate` / `enter` of the model) -/
def wrappedOrder (calls : List String) (inner : String) : Bool :=
  calls.idxOf "h.Valid" < calls.idxOf "be.typeDependentLimit" &&
  calls.idxOf "be.typeDependentLimit" < calls.idxOf "ctx.Err" &&
  calls.idxOf "ctx.Err" < calls.idxOf inner && calls.contains inner &&
  calls.count "be.typeDependentLimit" == 1 && calls.contains "be.typeDependentLimit()"

theorem t1_wrapped_order :
    wrappedOrder Restic.Gen.sema_Save_calls "be.Backend.Save" = true
    ∧ wrappedOrder Restic.Gen.sema_Load_calls "be.Backend.Load" = true
    ∧ wrappedOrder Restic.Gen.sema_Stat_calls "be.Backend.Stat" = true
    ∧ wrappedOrder Restic.Gen.sema_Remove_calls "be.Backend.Remove" = true := by decide

/-- evaluated by the compiled current source (harness stream `facts`): after
    `typeDependentLimit(t)` exactly the non-lock types hold one token, lock files hold none, and the
    returned function gives it back — the `isLock` exemption of the model. -/
theorem t1_lock_exempt :
    Restic.Gen.sema_tokens_held_lock = 0
    ∧ Restic.Gen.sema_tokens_held_data = 1 ∧ Restic.Gen.sema_tokens_held_key = 1
    ∧ Restic.Gen.sema_tokens_held_snapshot = 1 ∧ Restic.Gen.sema_tokens_held_index = 1
    ∧ Restic.Gen.sema_tokens_held_config = 1
    ∧ Restic.Gen.sema_tokens_after_release_data = 0 ∧ Restic.Gen.sema_tokens_after_release_key = 0
    ∧ Restic.Gen.sema_tokens_after_release_snapshot = 0 ∧ Restic.Gen.sema_tokens_after_release_index = 0
    ∧ Restic.Gen.sema_tokens_after_release_config = 0 ∧ Restic.Gen.sema_tokens_after_release_lock = 0 := by
  decide

/-! ### Non-vacuity: concrete reachable states -/

/-- two connections, three data calls and one lock call: both slots taken, backend frozen, third data
    call waiting — reachable, and the lock call still has an enabled step (and completes). -/
def exCalls : List (Bool × Bool × Bool) := [(false, true, false), (false, true, false), (false, true, false), (true, true, false)]
def exSched : List Act := [.getToken 0, .passGate 0, .enter 0, .getToken 1, .passGate 1, .enter 1, .freeze]

example : (run (init 2 exCalls) exSched).map (fun s => (s.tokens, s.frozen, s.threads.countP runningNonLock)) = some (2, true, 2) := by decide
example : (run (init 2 exCalls) (exSched ++ [.getToken 2])) = none := by decide
example : ((run (init 2 exCalls) (exSched ++ [.enter 3, .finish 3])).map (fun s => (s.threads.getD 3 default).pc)) = some .done := by decide
-- a cancelled call passes through without reaching the backend; an invalid one is rejected
example : ((run (init 1 [(false, true, true), (false, false, false)]) [.getToken 0, .passGate 0, .enter 0, .finish 0, .reject 1]).map
    (fun s => (s.tokens, s.threads.map (·.called)))) = some (0, [false, false]) := by decide
-- the hypotheses of `frozen_quiet_run` are satisfiable by a reachable non-trivial state
example : ∃ s, run (init 2 exCalls) exSched = some s ∧ s.frozen = true ∧
    (∀ t ∈ s.threads, t.isLock = false → t.pc ≠ .passedGate) := by
  refine ⟨_, rfl, by decide, by decide⟩

end Restic.Props.C37
