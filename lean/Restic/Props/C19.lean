import Restic.Model.FileRestore
import Restic.Model.FileRestoreFacts
import Restic.Proofs.C19_File
import Restic.Proofs.C19_Write
/-!
# C19 — restore leaves each selected file with exactly the snapshot content

Statement (properties.jsonl): whatever the target already contains (missing, shorter, longer,
different content, unreadable, a directory or symlink in the way, hard-linked elsewhere), after a
successful restore with --overwrite always or if-changed every selected regular file has exactly
the snapshot content and size, with or without --sparse. With if-newer and never, existing files
are left untouched exactly when the mode says so.

Model: `restoreFile` (`Restic/Model/FileRestore.lean`): `withOverwriteCheck` / `shouldOverwrite` /
`verifyFile` (not fail-fast, mtime shortcut for if-changed), the sparse decision and
matching-blob skipping of `restoreFiles`, `createFile` / `ensureSize`, and the blob writes
(`partialFile.WriteAt`, zero-prefix skipping) delivered in ANY order.

Main theorem `restore_file_exact`: for every hash function, node, pre-existing state, option set
(sparse, delete, fallocate support) and every delivery order of the blob writes. It needs two
facts about the source that are FALSE on the unmodified tree and hold after the two `fix:`
commits; both are regenerated from the source on every run (`source_has_fixes`):
 * `sparseTruncFirst`   — `ensureSize` cuts an existing file to length 0 before the sparse
                          `Truncate(size)` (finding F6: unreadable existing file + --sparse);
 * `hardlinkDropsState` — `verifyFile` discards the state of a hard linked file that needs a
                          restore (new finding: matching blobs of a hard linked file are lost).
For each of them a negation witness is proved (`f6_witness`, `hardlink_witness`): without the
fix the model ends with wrong bytes although the restore succeeds; both reproduce on the real
binary (see docs/C19.md).

The documented contract of if-changed (same size and mtime ⇒ same content) is an explicit
hypothesis (`contractBoundary … = false`).
-/
namespace Restic.Props.C19
open Restic.Model.FileRestore

variable {ID : Type} [DecidableEq ID]

/-! ## the base file `createFile` hands to `ensureSize` -/

/-- the old content that survives `createFile`'s open/replace logic -/
def baseOf : Target → File
  | .regular f _ _ l _ => if l > 1 then File.empty else f
  | _ => File.empty

theorem createFile_ok (cfg : Cfg) (t : Target) (n : Nat) (sp : Bool) (f0 : File)
    (h : createFile cfg t n sp = .ok f0) : f0 = ensureSize cfg (baseOf t) n sp := by
  cases t with
  | missing => simp [createFile] at h; simp [baseOf, h]
  | symlink => simp [createFile] at h; simp [baseOf, h]
  | special => simp [createFile] at h; simp [baseOf, h]
  | dir e m =>
    simp only [createFile] at h
    split at h
    · simp at h; simp [baseOf, h]
    · simp at h
  | regular f r w l m =>
    simp only [createFile] at h
    split at h <;> rename_i hl
    · simp at h; simp [baseOf, hl, h]
    · simp at h; simp [baseOf, hl, h]

theorem ensureSize_dense_len_le (cfg : Cfg) (f : File) (n : Nat) : (ensureSize cfg f n false).len ≤ n := by
  simp only [ensureSize, Bool.false_eq_true, if_false]
  split
  · simp
  · split
    · simp only [File.len_preallocate]; rename_i h1 h2; simp at h2; omega
    · omega

theorem ensureSize_dense_len_ge (cfg : Cfg) (f : File) (n : Nat) :
    min f.len n ≤ (ensureSize cfg f n false).len := by
  simp only [ensureSize, Bool.false_eq_true, if_false]
  split
  · simp; omega
  · split
    · simp only [File.len_preallocate]; omega
    · omega

theorem ensureSize_dense_read (cfg : Cfg) (f : File) (n i : Nat) (hi : i < n) :
    (ensureSize cfg f n false).read i = f.read i := by
  simp only [ensureSize, Bool.false_eq_true, if_false]
  split
  · rw [File.read_truncate, if_pos hi]
  · split
    · rw [File.read_preallocate]
    · rfl

theorem ensureSize_sparse (cfg : Cfg) (f : File) (n : Nat)
    (h : cfg.sparseTruncFirst = true ∨ f.len = 0) :
    (ensureSize cfg f n true).len = n ∧ ∀ i, (ensureSize cfg f n true).read i = 0 := by
  simp only [ensureSize, if_true]
  refine ⟨rfl, fun i => ?_⟩
  rw [File.read_truncate]
  split
  · rcases h with h | h
    · simp [h]
    · split
      · simp
      · exact File.read_ge f (by omega)
  · rfl

/-! ## what `verifyFile` (not fail-fast) establishes about matching blobs -/

/-- blob `k + j` of the list is flagged by `g` only if its segment of `f` is in bounds and
    hashes to the blob id -/
def MatchOK (hash : Bytes → ID) (f : File) : List (Blob ID) → (Nat → Bool) → Nat → Nat → Prop
  | [], _, _, _ => True
  | b :: rest, g, k, off =>
    (g k = true → (b.data.length = 0 ∨ off + b.data.length ≤ f.len) ∧ b.id = hash (f.seg off b.data.length)) ∧
    MatchOK hash f rest g (k + 1) (off + b.data.length)

omit [DecidableEq ID] in
theorem matchOK_of_all_false (hash : Bytes → ID) (f : File) (bs : List (Blob ID)) (g : Nat → Bool) (k off : Nat)
    (h : ∀ j, g (k + j) = false) : MatchOK hash f bs g k off := by
  induction bs generalizing k off with
  | nil => trivial
  | cons b rest ih =>
    refine ⟨fun hk => ?_, ih (k + 1) _ (fun j => by have := h (1 + j); rwa [← Nat.add_assoc] at this)⟩
    have := h 0
    simp only [Nat.add_zero] at this
    rw [this] at hk
    cases hk

theorem verifyBlobs_matchOK (hash : Bytes → ID) (f : File) (bs : List (Blob ID)) (off : Nat)
    (ms : List Bool) (full : Bool) (h : verifyBlobs hash false f bs off = .ok (ms, full))
    (k : Nat) (g : Nat → Bool) (hg : ∀ j, g (k + j) = ms.getD j false) : MatchOK hash f bs g k off := by
  induction bs generalizing off ms full k with
  | nil => trivial
  | cons b rest ih =>
    simp only [verifyBlobs] at h
    by_cases hEof : b.data.length ≠ 0 ∧ f.len < off + b.data.length
    · rw [if_pos hEof] at h
      simp only [Bool.false_eq_true, if_false, Except.ok.injEq, Prod.mk.injEq] at h
      apply matchOK_of_all_false
      intro j
      rw [hg j, ← h.1]
      simp [List.getD_eq_getElem?_getD, List.getElem?_replicate]
      split <;> rfl
    · rw [if_neg hEof] at h
      simp only [Bool.false_and, Bool.false_eq_true, if_false] at h
      cases hv : verifyBlobs hash false f rest (off + b.data.length) with
      | error e => rw [hv] at h; simp at h
      | ok r =>
        obtain ⟨ms', full'⟩ := r
        rw [hv] at h
        simp only [Except.ok.injEq, Prod.mk.injEq] at h
        obtain ⟨hms, _⟩ := h
        refine ⟨fun hk => ?_, ih _ ms' full' hv (k + 1) (fun j => ?_)⟩
        · have h0 := hg 0
          simp only [Nat.add_zero] at h0
          rw [h0, ← hms] at hk
          simp only [List.getD_cons_zero, decide_eq_true_eq] at hk
          exact ⟨by omega, hk⟩
        · have := hg (1 + j)
          rw [← Nat.add_assoc] at this
          rw [this, ← hms, Nat.add_comm 1 j]
          simp

theorem verifyBlobs_length (hash : Bytes → ID) (f : File) (bs : List (Blob ID)) (off : Nat)
    (ms : List Bool) (full : Bool) (h : verifyBlobs hash false f bs off = .ok (ms, full)) :
    ms.length = bs.length := by
  induction bs generalizing off ms full with
  | nil =>
    simp only [verifyBlobs, Except.ok.injEq, Prod.mk.injEq] at h
    rw [← h.1]; rfl
  | cons b rest ih =>
    simp only [verifyBlobs] at h
    by_cases hEof : b.data.length ≠ 0 ∧ f.len < off + b.data.length
    · rw [if_pos hEof] at h
      simp only [Bool.false_eq_true, if_false, Except.ok.injEq, Prod.mk.injEq] at h
      rw [← h.1]; simp
    · rw [if_neg hEof] at h
      simp only [Bool.false_and, Bool.false_eq_true, if_false] at h
      cases hv : verifyBlobs hash false f rest (off + b.data.length) with
      | error e => rw [hv] at h; simp at h
      | ok r =>
        obtain ⟨ms', full'⟩ := r
        rw [hv] at h
        simp only [Except.ok.injEq, Prod.mk.injEq] at h
        rw [← h.1]
        simp [ih _ _ _ hv]

omit [DecidableEq ID] in
theorem blobWrites_idx_lt (bs : List (Blob ID)) (k off : Nat) :
    ∀ y ∈ blobWrites bs k off, y.idx < k + bs.length := by
  induction bs generalizing k off with
  | nil => intro y hy; cases hy
  | cons b rest ih =>
    intro y hy
    simp only [blobWrites, List.mem_cons] at hy
    rcases hy with hy | hy
    · subst hy; simp
    · have := ih (k + 1) _ y hy
      simp only [List.length_cons]; omega

omit [DecidableEq ID] in
theorem matchOK_writes (hash : Bytes → ID) (f : File) (bs : List (Blob ID)) (g : Nat → Bool) (k off : Nat)
    (h : MatchOK hash f bs g k off) :
    ∀ w ∈ blobWrites bs k off, g w.idx = true →
      (w.data.length = 0 ∨ w.off + w.data.length ≤ f.len) ∧ w.id = hash (f.seg w.off w.data.length) := by
  induction bs generalizing k off with
  | nil => intro w hw; cases hw
  | cons b rest ih =>
    intro w hw hgw
    simp only [blobWrites, List.mem_cons] at hw
    rcases hw with hw | hw
    · subst hw; exact h.1 hgw
    · exact ih (k + 1) _ h.2 w hw hgw

omit [DecidableEq ID] in
theorem blobWrites_blob (bs : List (Blob ID)) (k off : Nat) :
    ∀ w ∈ blobWrites bs k off, ∃ b ∈ bs, w.id = b.id ∧ w.data = b.data := by
  induction bs generalizing k off with
  | nil => intro w hw; cases hw
  | cons b rest ih =>
    intro w hw
    simp only [blobWrites, List.mem_cons] at hw
    rcases hw with hw | hw
    · subst hw; exact ⟨b, List.mem_cons_self, rfl, rfl⟩
    · obtain ⟨b', hb', h1, h2⟩ := ih _ _ w hw
      exact ⟨b', List.mem_cons_of_mem _ hb', h1, h2⟩

/-! ## the core: base file + writes in any order = the concatenation -/

omit [DecidableEq ID] in
/-- `f0` is what `createFile` returned; blobs flagged by `g` are already present in `f0`; all
    other blobs are written (in any order, `ws`); in sparse mode `f0` reads as zeros. -/
theorem writes_give_concat (bs : List (Blob ID)) (g : Nat → Bool) (sp : Bool) (f0 : File)
    (ws : List (Write ID))
    (hws : ∀ w, w ∈ ws ↔ (w ∈ blobWrites bs 0 0 ∧ g w.idx = false))
    (h1 : f0.len ≤ totalLen bs)
    (h2 : ∀ w ∈ blobWrites bs 0 0, g w.idx = true →
      (w.data = [] ∨ w.off + w.data.length ≤ f0.len) ∧
      ∀ i, InRange w i → f0.read i = w.data.getD (i - w.off) 0)
    (h3 : sp = true → f0.len = totalLen bs ∧ ∀ i, f0.read i = 0) :
    (ws.foldl (pwrite sp) f0).toBytes = concat bs := by
  have hW := blobWrites_disj bs 0 0
  have hends : ∀ w ∈ blobWrites bs 0 0, w.off + w.data.length ≤ totalLen bs := by
    intro w hw
    have := (blobWrites_off_ge bs 0 0 w hw).2
    omega
  have hdisj : Disj ws := fun a ha b hb i => hW a ((hws a).mp ha).1 b ((hws b).mp hb).1 i
  have hle : (ws.foldl (pwrite sp) f0).len ≤ totalLen bs :=
    len_foldl_le sp ws f0 _ (fun w hw => hends w ((hws w).mp hw).1) h1
  have hge : totalLen bs ≤ (ws.foldl (pwrite sp) f0).len := by
    by_cases hpos : 0 < totalLen bs
    · obtain ⟨w, hw, hne, hend⟩ := blobWrites_last bs 0 0 hpos
      have hf0 := len_foldl_ge sp ws f0
      cases sp with
      | true => have := (h3 rfl).1; omega
      | false =>
        cases hg : g w.idx with
        | true =>
          rcases (h2 w hw hg).1 with he | he
          · exact absurd he hne
          · omega
        | false =>
          have := len_foldl_end ws f0 w ((hws w).mpr ⟨hw, hg⟩) hne
          omega
    · omega
  have hlen : (ws.foldl (pwrite sp) f0).len = totalLen bs := Nat.le_antisymm hle hge
  rw [File.toBytes_eq_seg, hlen]
  apply seg_eq_concat_of_writes _ bs 0 0
  intro w hw
  apply File.seg_eq_of_read
  · rw [hlen]; exact hends w hw
  · intro i hi1 hi2
    have hin : InRange w i := ⟨hi1, hi2⟩
    cases hg : g w.idx with
    | false =>
      exact read_foldl_in sp ws hdisj f0 w ((hws w).mpr ⟨hw, hg⟩) i hin (fun hs => Or.inl ((h3 hs).2 i))
    | true =>
      rw [read_foldl_out sp ws f0 i]
      · exact (h2 w hw hg).2 i hin
      · intro x hx hxin
        have hx' := (hws x).mp hx
        have : x = w := hW x hx'.1 w hw i hxin hin
        rw [this, hg] at hx'
        exact absurd hx'.2 (by simp)

/-! ## the main theorem -/

/-- no segment of any file collides with a blob of the node -/
def NoCol (hash : Bytes → ID) (node : FNode ID) : Prop :=
  ∀ b ∈ node.content, ∀ x : Bytes, hash x = b.id → x = b.data

omit [DecidableEq ID] in
theorem collision_of_not_noCol (hash : Bytes → ID) (node : FNode ID) (hwf : WF hash node)
    (h : ¬NoCol hash node) : Collision hash := by
  apply Classical.byContradiction
  intro hc
  apply h
  intro b hb x hx
  apply Classical.byContradiction
  intro hne
  exact hc ⟨x, b.data, hne, by rw [hx, hwf.ids b hb]⟩

omit [DecidableEq ID] in
theorem mem_todoWrites (node : FNode ID) (st : Option FileState) (w : Write ID) :
    w ∈ todoWrites node st ↔ (w ∈ blobWrites node.content 0 0 ∧ hasMatchingBlob st w.idx = false) := by
  simp [todoWrites, List.mem_filter]

/-- `restoreContent` with state `st`, whenever the blobs flagged as matching by `st` really are
    present in the (surviving) old file -/
theorem restoreContent_exact (hash : Bytes → ID) (cfg : Cfg) (zc : ID) (t : Target) (node : FNode ID)
    (hwf : WF hash node) (st : Option FileState) (order : List (Write ID))
    (hord : order.Perm (todoWrites node st))
    (hsparse : fileSparse cfg zc node st = true → cfg.sparseTruncFirst = true ∨ (baseOf t).len = 0)
    (hmatch : ∀ w ∈ blobWrites node.content 0 0, hasMatchingBlob st w.idx = true →
      (w.data = [] ∨ w.off + w.data.length ≤ (baseOf t).len) ∧
      ∀ i, InRange w i → (baseOf t).read i = w.data.getD (i - w.off) 0)
    (hst : st.isSome = true → fileSparse cfg zc node st = false)
    (f : File) (h : restoreContent cfg zc t node st order = .ok f) :
    f.toBytes = concat node.content := by
  have hsize := hwf.size
  -- both branches are `createFile` followed by the writes of `ws`
  have key : ∀ (sp : Bool) (ws : List (Write ID)) (f0 : File),
      (∀ w, w ∈ ws ↔ (w ∈ blobWrites node.content 0 0 ∧ hasMatchingBlob st w.idx = false)) →
      createFile cfg t node.size sp = .ok f0 →
      (sp = true → cfg.sparseTruncFirst = true ∨ (baseOf t).len = 0) →
      (sp = true → ∀ w ∈ blobWrites node.content 0 0, hasMatchingBlob st w.idx = false) →
      (ws.foldl (pwrite sp) f0).toBytes = concat node.content := by
    intro sp ws f0 hws hc hsp hnomatch
    have hf0 := createFile_ok cfg t node.size sp f0 hc
    cases sp with
    | true =>
      have hs := ensureSize_sparse cfg (baseOf t) node.size (hsp rfl)
      rw [← hf0] at hs
      apply writes_give_concat node.content (hasMatchingBlob st) true f0 ws hws
      · rw [hs.1, hsize]; exact Nat.le_refl _
      · intro w hw hg
        rw [hnomatch rfl w hw] at hg
        cases hg
      · intro _; exact ⟨by rw [hs.1, hsize], hs.2⟩
    | false =>
      apply writes_give_concat node.content (hasMatchingBlob st) false f0 ws hws
      · rw [hf0, ← hsize]; exact ensureSize_dense_len_le cfg _ _
      · intro w hw hg
        obtain ⟨hb, hr⟩ := hmatch w hw hg
        have hend : w.off + w.data.length ≤ node.size := by
          have := (blobWrites_off_ge node.content 0 0 w hw).2
          omega
        constructor
        · rcases hb with hb | hb
          · exact Or.inl hb
          · right
            have := ensureSize_dense_len_ge cfg (baseOf t) node.size
            rw [hf0]
            omega
        · intro i hin
          rw [hf0, ensureSize_dense_read cfg _ _ i (by unfold InRange at hin; omega)]
          exact hr i hin
      · intro hs; cases hs
  unfold restoreContent at h
  split at h
  · rename_i hempty
    have hnil : todoWrites node st = [] := by simpa using hempty
    have := key false [] f (fun w => by rw [← mem_todoWrites, hnil]) h (fun hs => by cases hs) (fun hs => by cases hs)
    simpa using this
  · simp only at h
    cases hc : createFile cfg t node.size (fileSparse cfg zc node st) with
    | error e => rw [hc] at h; simp at h
    | ok f0 =>
      rw [hc] at h
      simp only [Except.ok.injEq] at h
      rw [← h]
      apply key _ order f0 (fun w => by rw [hord.mem_iff, mem_todoWrites]) hc hsparse
      intro hs w hw
      cases hst' : st with
      | none => simp [hasMatchingBlob]
      | some s =>
        have := hst (by simp [hst'])
        rw [this] at hs
        cases hs

/-- `verifyFile` succeeded (not fail-fast): the blobs it flags are present in the old file -/
theorem verifyFile_state_sound (hash : Bytes → ID) (t : Target) (node : FNode ID) (tm : Bool)
    (hwf : WF hash node) (hnc : NoCol hash node) (s : FileState)
    (h : verifyFile hash t node false tm = .ok s) :
    ∃ f w l m, t = .regular f true w l m ∧
      ∀ x ∈ blobWrites node.content 0 0, hasMatchingBlob (some s) x.idx = true →
        (x.data = [] ∨ x.off + x.data.length ≤ f.len) ∧
        ∀ i, InRange x i → f.read i = x.data.getD (i - x.off) 0 := by
  cases t with
  | missing => simp [verifyFile] at h
  | symlink => simp [verifyFile] at h
  | dir => simp [verifyFile] at h
  | special => simp [verifyFile] at h
  | regular f r w l m =>
    cases r with
    | false => simp [verifyFile] at h
    | true =>
      refine ⟨f, w, l, m, rfl, ?_⟩
      simp only [verifyFile, Bool.not_true, Bool.false_eq_true, if_false, Bool.false_and] at h
      split at h
      · simp only [Except.ok.injEq] at h
        intro x _ hx
        rw [← h] at hx
        simp [hasMatchingBlob] at hx
      · cases hv : verifyBlobs hash false f node.content 0 with
        | error e => rw [hv] at h; simp at h
        | ok r =>
          obtain ⟨ms, full⟩ := r
          rw [hv] at h
          simp only [Except.ok.injEq] at h
          intro x hx hgx
          have hm := verifyBlobs_matchOK hash f node.content 0 ms full hv 0
            (hasMatchingBlob (some s)) (fun j => by rw [← h]; simp [hasMatchingBlob])
          obtain ⟨hb, hid⟩ := matchOK_writes hash f node.content _ 0 0 hm x hx hgx
          obtain ⟨b, hbm, hbid, hbdata⟩ := blobWrites_blob node.content 0 0 x hx
          have hseg : f.seg x.off x.data.length = x.data := by
            rw [hbdata]
            apply hnc b hbm
            rw [← hbdata, ← hid, hbid]
          constructor
          · rcases hb with hb | hb
            · left; exact List.eq_nil_of_length_eq_zero hb
            · exact Or.inr hb
          · intro i hin
            rcases hb with hb | hb
            · unfold InRange at hin; omega
            · exact File.read_of_seg f x.off x.data hb hseg i hin.1 hin.2

/-- `verifyFile` found nothing to restore: the old file is the snapshot content (for the mtime
    shortcut this is the documented contract, passed as hypothesis) -/
theorem verifyFile_no_restore (hash : Bytes → ID) (t : Target) (node : FNode ID) (tm : Bool)
    (hwf : WF hash node) (hnc : NoCol hash node) (s : FileState)
    (h : verifyFile hash t node false tm = .ok s) (hn : needsRestore (some s) = false)
    (hcontract : ∀ f w l m, t = .regular f true w l m → tm = true → m = node.mtime → f.len = node.size →
      f.toBytes = concat node.content) :
    ∃ f w l m, t = .regular f true w l m ∧ f.toBytes = concat node.content := by
  obtain ⟨f, w, l, m, ht, hall⟩ := verifyFile_state_sound hash t node tm hwf hnc s h
  refine ⟨f, w, l, m, ht, ?_⟩
  subst ht
  simp only [verifyFile, Bool.not_true, Bool.false_eq_true, if_false, Bool.false_and] at h
  split at h
  · rename_i hc
    simp only [Bool.and_eq_true, beq_iff_eq, decide_eq_true_eq] at hc
    exact hcontract f w l m rfl hc.1.1 hc.1.2 hc.2.symm
  · cases hv : verifyBlobs hash false f node.content 0 with
    | error e => rw [hv] at h; simp at h
    | ok r =>
      obtain ⟨ms, full⟩ := r
      rw [hv] at h
      simp only [Except.ok.injEq] at h
      rw [← h] at hn
      simp only [needsRestore, Bool.or_eq_false_iff, Bool.not_eq_false', Bool.and_eq_true,
        decide_eq_true_eq, List.any_eq_false, Bool.not_eq_true'] at hn
      obtain ⟨⟨hsz, _⟩, hall_true⟩ := hn
      -- every blob is flagged, so every segment is the blob
      have hlen : f.len = totalLen node.content := by rw [← hsz, hwf.size]
      have hmslen : ms.length = node.content.length := verifyBlobs_length hash f node.content 0 ms full hv
      rw [File.toBytes_eq_seg, hlen]
      apply seg_eq_concat_of_writes f node.content 0 0
      intro x hx
      have hidx : x.idx < ms.length := by
        have := blobWrites_idx_lt node.content 0 0 x hx
        omega
      have hflag : hasMatchingBlob (some s) x.idx = true := by
        rw [← h]
        simp only [hasMatchingBlob]
        have hmem : ms[x.idx] ∈ ms := List.getElem_mem hidx
        have := hall_true _ hmem
        simp [List.getD_eq_getElem?_getD, hidx, this]
      obtain ⟨hb, hr⟩ := hall x hx hflag
      rcases hb with hb | hb
      · rw [hb]; simp [File.seg]
      · exact File.seg_eq_of_read f x.off x.data hb (fun i h1 h2 => hr i ⟨h1, h2⟩)

/-- **C19, always / if-changed.** After a restore that did not report an error, the file holds
    exactly the snapshot content — for every pre-existing state, sparse on/off, delete on/off,
    fallocate support or not, and every delivery order of the blobs — or a hash collision is
    exhibited. `hfix1`/`hfix2` are the two source facts established by `source_has_fixes`. -/
theorem restore_file_exact (hash : Bytes → ID) (cfg : Cfg) (zc : ID) (ow : Overwrite)
    (how : ow = .always ∨ ow = .ifChanged) (t : Target) (node : FNode ID) (hwf : WF hash node)
    (order : Option FileState → List (Write ID))
    (hord : ∀ st, (order st).Perm (todoWrites node st))
    (hfix1 : cfg.sparseTruncFirst = true) (hfix2 : cfg.hardlinkDropsState = true)
    (hcontract : contractBoundary ow t node = false) :
    (match restoreFile hash cfg zc ow t node order with
      | .failed _ => True
      | o => o.finalBytes t = some (concat node.content)) ∨ Collision hash := by
  by_cases hnc : ¬NoCol hash node
  · exact Or.inr (collision_of_not_noCol hash node hwf hnc)
  have hnc : NoCol hash node := Classical.not_not.mp hnc
  left
  have hso : shouldOverwrite ow node t = true := by
    rcases how with h | h <;> subst h <;> rfl
  -- the if-changed contract in the form needed below
  have hcontract' : ∀ f w l m, t = .regular f true w l m → (ow == Overwrite.ifChanged) = true →
      m = node.mtime → f.len = node.size → f.toBytes = concat node.content := by
    intro f w l m ht hic hm hl
    have : ow = .ifChanged := by simpa using hic
    subst this ht
    simp only [contractBoundary, Bool.and_eq_false_iff, Bool.not_eq_false', beq_iff_eq,
      decide_eq_false_iff_not] at hcontract
    rcases hcontract with (h | h) | h
    · exact absurd (by simpa using hm) (by simpa using h)
    · exact absurd hl h
    · exact h
  unfold restoreFile
  simp only [hso, Bool.not_true, Bool.false_eq_true, if_false]
  -- the restore-from-scratch path (no state)
  have scratch : ∀ f, restoreContent cfg zc t node none (order none) = .ok f →
      f.toBytes = concat node.content := by
    intro f hf
    exact restoreContent_exact hash cfg zc t node hwf none (order none) (hord none)
      (fun _ => Or.inl hfix1) (fun w _ hg => by simp [hasMatchingBlob] at hg) (fun hs => by cases hs) f hf
  cases hv : verifyFile hash t node false (ow == Overwrite.ifChanged) with
  | error e =>
    simp only [needsRestore, Bool.not_true, Bool.false_eq_true, if_false]
    cases hr : restoreContent cfg zc t node none (order none) with
    | error e => trivial
    | ok f => simp [Outcome.finalBytes, scratch f hr]
  | ok s =>
    simp only
    by_cases hdrop : dropIfHardlinked cfg t s = none
    · rw [hdrop]
      simp only [needsRestore, Bool.not_true, Bool.false_eq_true, if_false]
      cases hr : restoreContent cfg zc t node none (order none) with
      | error e => trivial
      | ok f => simp [Outcome.finalBytes, scratch f hr]
    · have hkeep : dropIfHardlinked cfg t s = some s := by
        unfold dropIfHardlinked at hdrop ⊢
        split
        · rename_i hc; simp [hc] at hdrop
        · rfl
      rw [hkeep]
      by_cases hn : needsRestore (some s) = true
      · simp only [hn, Bool.not_true, Bool.false_eq_true, if_false]
        -- not dropped although it needs a restore: the file is not hard linked
        have hlinks : ¬ t.links > 1 := by
          intro hl
          unfold dropIfHardlinked at hkeep
          simp [hfix2, hn, hl] at hkeep
        obtain ⟨f0, w, l, m, ht, hsound⟩ := verifyFile_state_sound hash t node _ hwf hnc s hv
        have hbase : baseOf t = f0 := by
          subst ht
          simp only [Target.links] at hlinks
          simp [baseOf, hlinks]
        cases hr : restoreContent cfg zc t node (some s) (order (some s)) with
        | error e => trivial
        | ok f =>
          have := restoreContent_exact hash cfg zc t node hwf (some s) (order (some s)) (hord _)
            (fun _ => Or.inl hfix1) (by rw [hbase]; exact hsound) (fun _ => by simp [fileSparse]) f hr
          simp [Outcome.finalBytes, this]
      · have hn' : needsRestore (some s) = false := by simpa using hn
        simp only [hn', Bool.not_false, if_true]
        obtain ⟨f, w, l, m, ht, hsame⟩ := verifyFile_no_restore hash t node _ hwf hnc s hv hn' hcontract'
        subst ht
        simp [Outcome.finalBytes, hsame]

theorem body_ne_untouched (c : Bool) (r : Except CErr File) :
    (match (if c = true then Outcome.metadataOnly else
        match r with | .ok f => Outcome.restored f | .error e => Outcome.failed e) with
      | .untouched => True | _ => False) ↔ False := by
  cases c <;> cases r <;> simp

/-- **C19, if-newer / never.** The existing item is left untouched exactly when the mode says
    so: `restoreFile` returns `untouched` iff something exists and (never, or if-newer and the
    snapshot's file is not newer). -/
theorem skip_iff (hash : Bytes → ID) (cfg : Cfg) (zc : ID) (ow : Overwrite) (t : Target) (node : FNode ID)
    (order : Option FileState → List (Write ID)) :
    (match restoreFile hash cfg zc ow t node order with | .untouched => True | _ => False) ↔
      (t ≠ .missing ∧ (ow = .never ∨ (ow = .ifNewer ∧ ¬ node.mtime > t.mtime))) := by
  unfold restoreFile
  cases hso : shouldOverwrite ow node t with
  | false =>
    simp only [Bool.not_false, if_true, true_iff]
    cases ow <;> cases t <;> simp_all [shouldOverwrite]
  | true =>
    simp only [Bool.not_true, Bool.false_eq_true, if_false]
    have hrhs : ¬(t ≠ .missing ∧ (ow = .never ∨ (ow = .ifNewer ∧ ¬ node.mtime > t.mtime))) := by
      cases ow <;> cases t <;> simp_all [shouldOverwrite]
    exact (body_ne_untouched _ _).trans ⟨False.elim, fun h => absurd h hrhs⟩

/-- an untouched item keeps its bytes (by construction of `finalBytes`; stated for completeness) -/
theorem untouched_same (t : Target) (f : File) (r w : Bool) (l : Nat) (m : Int)
    (h : t = .regular f r w l m) : Outcome.untouched.finalBytes t = some f.toBytes := by
  subst h; rfl

/-- when if-newer / never do overwrite (nothing there, or the snapshot's file is newer) the
    result is exact as well: same proof as `restore_file_exact`, the state is `none` or computed
    without the mtime shortcut -/
theorem restore_file_exact_when_overwriting (hash : Bytes → ID) (cfg : Cfg) (zc : ID) (ow : Overwrite)
    (how : ow = .ifNewer ∨ ow = .never) (t : Target) (node : FNode ID) (hwf : WF hash node)
    (hso : shouldOverwrite ow node t = true)
    (order : Option FileState → List (Write ID))
    (hord : ∀ st, (order st).Perm (todoWrites node st))
    (hfix1 : cfg.sparseTruncFirst = true) (hfix2 : cfg.hardlinkDropsState = true) :
    (match restoreFile hash cfg zc ow t node order with
      | .failed _ => True
      | o => o.finalBytes t = some (concat node.content)) ∨ Collision hash := by
  -- the decision procedure after `shouldOverwrite` only looks at `ow == ifChanged`, which is
  -- false here exactly as for `always`
  have hal := restore_file_exact hash cfg zc .always (Or.inl rfl) t node hwf order hord hfix1 hfix2
    (by simp [contractBoundary])
  have : restoreFile hash cfg zc ow t node order = restoreFile hash cfg zc .always t node order := by
    unfold restoreFile
    have h1 : shouldOverwrite Overwrite.always node t = true := rfl
    have h2 : (ow == Overwrite.ifChanged) = false := by rcases how with h | h <;> subst h <;> rfl
    have h3 : (Overwrite.always == Overwrite.ifChanged) = false := rfl
    simp only [hso, h1, h2, h3]
  rw [this]
  exact hal

/-- the executable statement `specRestore` holds of the transcription's result -/
theorem restoreFile_meets_spec (hash : Bytes → ID) (cfg : Cfg) (zc : ID) (ow : Overwrite)
    (t : Target) (node : FNode ID) (hwf : WF hash node)
    (order : Option FileState → List (Write ID))
    (hord : ∀ st, (order st).Perm (todoWrites node st))
    (hfix1 : cfg.sparseTruncFirst = true) (hfix2 : cfg.hardlinkDropsState = true) :
    (match restoreFile hash cfg zc ow t node order with
      | .failed _ => True
      | o => specRestore ow t node (o.finalBytes t) = true) ∨ Collision hash := by
  by_cases hc : Collision hash
  · exact Or.inr hc
  left
  cases hso : shouldOverwrite ow node t with
  | false =>
    have : restoreFile hash cfg zc ow t node order = .untouched := by
      unfold restoreFile; simp [hso]
    rw [this]
    simp only [specRestore, hso, Bool.false_eq_true, if_false]
    cases t <;> simp [Outcome.finalBytes]
  | true =>
    by_cases hcb : contractBoundary ow t node = true
    · cases hr : restoreFile hash cfg zc ow t node order <;> simp [specRestore, hso, hcb]
    · have hcb' : contractBoundary ow t node = false := by simpa using hcb
      have key : (match restoreFile hash cfg zc ow t node order with
          | .failed _ => True
          | o => o.finalBytes t = some (concat node.content)) := by
        cases ow with
        | always => exact (restore_file_exact hash cfg zc _ (Or.inl rfl) t node hwf order hord hfix1 hfix2 hcb').resolve_right hc
        | ifChanged => exact (restore_file_exact hash cfg zc _ (Or.inr rfl) t node hwf order hord hfix1 hfix2 hcb').resolve_right hc
        | ifNewer => exact (restore_file_exact_when_overwriting hash cfg zc _ (Or.inl rfl) t node hwf hso order hord hfix1 hfix2).resolve_right hc
        | never => exact (restore_file_exact_when_overwriting hash cfg zc _ (Or.inr rfl) t node hwf hso order hord hfix1 hfix2).resolve_right hc
      cases hr : restoreFile hash cfg zc ow t node order with
      | failed e => trivial
      | untouched => rw [hr] at key; simp only at key; simp [specRestore, hso, key]
      | metadataOnly => rw [hr] at key; simp only at key; simp [specRestore, hso, key]
      | restored f => rw [hr] at key; simp only at key; simp [specRestore, hso, key]

/-! ## tie T1: the two source facts, re-proved against the regenerated call lists -/

/-- On the current source `ensureSize` truncates to 0 before the sparse truncate and
    `verifyFile` consults the link count. Fails to build on the unmodified tree (F6 and the
    hard-link finding), which `vcheck` reports together with a concrete failing input. -/
theorem source_has_fixes :
    sparseTruncFirstOfSource = true ∧ hardlinkDropsStateOfSource = true ∧
    createFileEndsInEnsureSize = true ∧ writeAtUsesZeroPrefix = true := by decide

/-! ## negation witnesses for the unmodified source -/

def idh (b : Bytes) : Bytes := b

/-- five zero bytes in one blob -/
def zeros5 : FNode Bytes := ⟨5, [⟨[0, 0, 0, 0, 0], [0, 0, 0, 0, 0]⟩], 0⟩
/-- `01 02` + `03` in two blobs -/
def twoBlobs : FNode Bytes := ⟨3, [⟨[1, 2], [1, 2]⟩, ⟨[3], [3]⟩], 0⟩

/-- F6: snapshot file = five zero bytes (one blob), existing file `b0 31` not readable,
    `--sparse`. Without the truncate-to-0 the "restored" file is `b0 31 00 00 00`. -/
theorem f6_witness :
    (match restoreFile idh ⟨true, false, true, false, true⟩ [9] .always
        (.regular (File.ofBytes [0xb0, 0x31]) false true 1 0)
        zeros5 (fun st => todoWrites zeros5 st) with
      | .restored f => f.toBytes == [0xb0, 0x31, 0, 0, 0]
      | _ => false) = true := by decide

/-- the same input with the fix gives five zero bytes -/
theorem f6_fixed :
    (match restoreFile idh ⟨true, false, true, true, true⟩ [9] .always
        (.regular (File.ofBytes [0xb0, 0x31]) false true 1 0)
        zeros5 (fun st => todoWrites zeros5 st) with
      | .restored f => f.toBytes == [0, 0, 0, 0, 0]
      | _ => false) = true := by decide

/-- hard-link finding: snapshot file `01 02` + `03` (two blobs), existing file `01 02 07` with two
    hard links. Blob 0 matches and is skipped, `createFile` replaces the file by an empty one:
    the result is `00 00 03`. -/
theorem hardlink_witness :
    (match restoreFile idh ⟨false, false, true, true, false⟩ [9] .always
        (.regular (File.ofBytes [1, 2, 7]) true true 2 0)
        twoBlobs (fun st => todoWrites twoBlobs st) with
      | .restored f => f.toBytes == [0, 0, 3]
      | _ => false) = true := by decide

theorem hardlink_fixed :
    (match restoreFile idh ⟨false, false, true, true, true⟩ [9] .always
        (.regular (File.ofBytes [1, 2, 7]) true true 2 0)
        twoBlobs (fun st => todoWrites twoBlobs st) with
      | .restored f => f.toBytes == [1, 2, 3]
      | _ => false) = true := by decide

/-! ## non-vacuity -/

/-- the hypotheses of `restore_file_exact` are satisfiable with a partially matching, longer
    existing file and reversed delivery order -/
example : WF idh twoBlobs := ⟨by decide, by decide⟩

example :
    (match restoreFile idh ⟨false, false, false, true, true⟩ [9] .ifChanged
        (.regular (File.ofBytes [1, 2, 7, 7]) true true 1 5)
        twoBlobs (fun st => (todoWrites twoBlobs st).reverse) with
      | .restored f => f.toBytes == [1, 2, 3]
      | _ => false) = true := by decide

example : (todoWrites twoBlobs none).reverse.Perm (todoWrites twoBlobs none) := List.reverse_perm _

end Restic.Props.C19
