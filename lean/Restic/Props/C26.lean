import Restic.Proofs.RepoTrace
import Restic.Gen.Source
/-!
# C26 — Snapshot rewrites never lose the snapshot at any crash point

`tag`, `rewrite` and `repair snapshots` replace a snapshot file by a new one. The language of
backend operations they may produce is `Restic.Model.RepoTrace.accept_rewrite1` (one snapshot:
`[blob/index saves]* ; save snap' ; (remove snap)?`) and `accept_rewrites` (a whole command run over
several snapshots). The theorems hold for *all* repositories and traces and speak about *every*
prefix of the trace (= every crash point).

Full statement of the property (properties.jsonl): at every interruption point at least one of
old/new exists (`one_exists`, `lineage_kept`), the new snapshot keeps the first snapshot's id as
original (`original_kept_tag`, `original_kept_rewrite`) and keeps the tree unless a filter or
repair changed it (`tree_kept_tag`, `tree_kept_rewrite`).

Deliberate exception, visible in the model: `filterAndReplaceSnapshot` *removes* a snapshot whose
filtered root tree is the null ID without saving a replacement ("removed empty snapshot"; in
practice: `repair snapshots` on a snapshot whose root tree cannot be loaded). For that outcome
there is no `snap'`, and `lineage_kept` excludes exactly the lineages reported that way.
-/
namespace Restic.Props.C26
open Restic.Model.RepoTrace Restic.Proofs.RepoTrace

/-- ids of the snapshot files a trace saves -/
def newSnapIds (tr : List Ev) : List Nat :=
  tr.filterMap fun e => match e with
    | .saveSnap n _ => some n
    | _ => none

theorem snapPresent_apply_add {r : Repo} {e : Ev} (hg : addGuard r e = true) {s : Nat}
    (hp : snapPresent r s = true) : snapPresent (apply r e) s = true := by
  unfold snapPresent at *
  rw [List.any_eq_true] at *
  obtain ⟨x, hx, h⟩ := hp
  exact ⟨x, (addGuard_sub hg).snaps x hx, h⟩

theorem rewrite1Go_one_exists (old key : Nat) (tr : List Ev) (r : Repo)
    (hp : snapPresent r old = true) (h : rewrite1Go old key r tr = true) (k : Nat) :
    snapPresent (applyAll r (tr.take k)) old = true ∨
      ∃ n ∈ newSnapIds tr, snapPresent (applyAll r (tr.take k)) n = true := by
  induction tr generalizing r k with
  | nil => left; simpa [applyAll] using hp
  | cons e rest ih =>
    cases k with
    | zero => left; simpa [applyAll] using hp
    | succ k =>
      have other : ∀ (hg : addGuard r e = true) (hgo : rewrite1Go old key (apply r e) rest = true),
          snapPresent (applyAll r ((e :: rest).take (k + 1))) old = true ∨
          ∃ n ∈ newSnapIds (e :: rest), snapPresent (applyAll r ((e :: rest).take (k + 1))) n = true := by
        intro hg hgo
        rcases ih (apply r e) (snapPresent_apply_add hg hp) hgo k with h1 | ⟨n, hn, h1⟩
        · left; simpa [List.take_succ_cons, applyAll_cons] using h1
        · right
          refine ⟨n, ?_, by simpa [List.take_succ_cons, applyAll_cons] using h1⟩
          unfold newSnapIds at *
          rw [List.filterMap_cons]
          split <;> simp [hn]
      cases e with
      | savePack p bs =>
        simp only [rewrite1Go, Bool.and_eq_true] at h
        exact other h.1 h.2
      | saveIndex i es =>
        simp only [rewrite1Go, Bool.and_eq_true] at h
        exact other h.1 h.2
      | removePack p => simp [rewrite1Go, addGuard] at h
      | removeIndex p => simp [rewrite1Go, addGuard] at h
      | removeSnap p => simp [rewrite1Go, addGuard] at h
      | saveSnap n sn =>
        simp only [rewrite1Go, Bool.and_eq_true] at h
        obtain ⟨⟨⟨hg, hne⟩, _⟩, hrest⟩ := h
        have hold : snapPresent (apply r (.saveSnap n sn)) old = true := snapPresent_apply_add hg hp
        have hnew : snapPresent (apply r (.saveSnap n sn)) n = true := by
          simp [snapPresent, apply]
        have hmem : n ∈ newSnapIds (Ev.saveSnap n sn :: rest) := by simp [newSnapIds]
        match rest, hrest with
        | [], _ =>
          left; simpa [List.take_succ_cons, applyAll_cons, applyAll] using hold
        | [.removeSnap o], hrest =>
          simp only [beq_iff_eq] at hrest
          subst hrest
          cases k with
          | zero => left; simpa [List.take_succ_cons, applyAll_cons, applyAll] using hold
          | succ k =>
            right
            refine ⟨n, hmem, ?_⟩
            simp only [List.take_succ_cons, applyAll_cons, List.take_nil, applyAll_nil]
            simp only [bne_iff_ne, ne_eq] at hne
            simp [snapPresent, apply, hne]

/-- **C26, single snapshot** (`[blob/index saves]* ; save snap' ; (remove snap)?`):
    at every crash point the old or the new snapshot file exists. -/
theorem one_exists (r : Repo) (old : Nat) (tr : List Ev) (hacc : accept_rewrite1 r old tr = true) :
    ∀ k, snapPresent (applyAll r (tr.take k)) old = true ∨
      ∃ n ∈ newSnapIds tr, snapPresent (applyAll r (tr.take k)) n = true := by
  intro k
  unfold accept_rewrite1 at hacc
  split at hacc
  · exact absurd hacc (by simp)
  · rename_i so hl
    have hp : snapPresent r old = true := by
      unfold lookupSnap at hl
      unfold snapPresent
      rw [List.any_eq_true]
      cases hf : r.snaps.find? (fun x => x.1 == old) with
      | none => simp [hf] at hl
      | some x => exact ⟨x, List.mem_of_find?_eq_some hf, by have := List.find?_some hf; simpa using this⟩
    exact rewrite1Go_one_exists old so.key tr r hp hacc k

/-- the snapshot saved last (if a removal may follow) is present with the recorded lineage key -/
def LastOK (r : Repo) : Option (Nat × Nat) → Prop
  | none => True
  | some (n, k) => ∃ sn, (n, sn) ∈ r.snaps ∧ sn.key = k

/-- **C26, whole command run** (any number of snapshots, any mix of replaced / kept / emptied):
    a lineage that is present and not reported as emptied is present at every crash point. -/
theorem lineage_kept (ek : List Nat) (κ : Nat) (hκ : κ ∉ ek) (tr : List Ev) (r : Repo)
    (last : Option (Nat × Nat)) (hl : LastOK r last)
    (hacc : accept_rewrites ek r last tr = true) (hk : keyPresent r κ = true) :
    ∀ k, keyPresent (applyAll r (tr.take k)) κ = true := by
  induction tr generalizing r last with
  | nil => intro k; simpa [applyAll] using hk
  | cons e rest ih =>
    intro k
    cases k with
    | zero => simpa [applyAll] using hk
    | succ k =>
      simp only [List.take_succ_cons, applyAll_cons]
      cases e with
      | savePack p bs =>
        simp only [accept_rewrites, Bool.and_eq_true] at hacc
        exact ih (apply r (.savePack p bs)) none trivial hacc.2 (by simpa [keyPresent, apply] using hk) k
      | saveIndex i es =>
        simp only [accept_rewrites, Bool.and_eq_true] at hacc
        exact ih (apply r (.saveIndex i es)) none trivial hacc.2 (by simpa [keyPresent, apply] using hk) k
      | removePack p => simp [accept_rewrites] at hacc
      | removeIndex p => simp [accept_rewrites] at hacc
      | saveSnap n sn =>
        simp only [accept_rewrites, Bool.and_eq_true] at hacc
        refine ih (apply r (.saveSnap n sn)) (some (n, sn.key)) ⟨sn, by simp [apply], rfl⟩ hacc.2 ?_ k
        unfold keyPresent at *
        rw [List.any_eq_true] at *
        obtain ⟨x, hx, h⟩ := hk
        exact ⟨x, by simp [apply, hx], h⟩
      | removeSnap o =>
        simp only [accept_rewrites, Bool.and_eq_true, Bool.or_eq_true] at hacc
        refine ih (apply r (.removeSnap o)) none trivial hacc.2 ?_ k
        unfold keyPresent at *
        rw [List.any_eq_true] at *
        obtain ⟨x, hx, hxk⟩ := hk
        by_cases hxo : x.1 = o
        · -- the witness is removed: its lineage is covered
          rcases hacc.1 with hA | hB
          · match last, hl, hA with
            | some (n, k'), hl, hA =>
              simp only [Bool.and_eq_true, bne_iff_ne, ne_eq] at hA
              obtain ⟨sn, hsn, hkey⟩ := hl
              have hcov := hA.2
              unfold removalCovered at hcov
              rw [List.all_eq_true] at hcov
              have := hcov x hx
              simp only [Bool.or_eq_true, bne_iff_ne, ne_eq, hxo, not_true_eq_false, false_or, beq_iff_eq] at this
              refine ⟨(n, sn), ?_, ?_⟩
              · simp only [apply, List.mem_filter, bne_iff_ne, ne_eq]
                exact ⟨hsn, fun hno => hA.1 hno.symm⟩
              · simp only [beq_iff_eq] at hxk ⊢
                rw [hkey, ← this, hxk]
          · unfold removalCovered at hB
            rw [List.all_eq_true] at hB
            have := hB x hx
            simp only [Bool.or_eq_true, bne_iff_ne, ne_eq, hxo, not_true_eq_false, false_or,
              List.contains_eq_mem, decide_eq_true_eq] at this
            simp only [beq_iff_eq] at hxk
            exact absurd (hxk ▸ this) hκ
        · refine ⟨x, ?_, hxk⟩
          simp only [apply, List.mem_filter, bne_iff_ne, ne_eq]
          exact ⟨hx, hxo⟩

/-- a whole rewrite run keeps the abstract check at every crash point (new snapshots are only
    saved once their closure is indexed; removing a snapshot file never hurts) -/
theorem rewrites_checkOK (ek : List Nat) (tr : List Ev) (r : Repo) (last : Option (Nat × Nat))
    (hacc : accept_rewrites ek r last tr = true) (hc : checkOK r = true) :
    ∀ k, checkOK (applyAll r (tr.take k)) = true := by
  induction tr generalizing r last with
  | nil => intro k; simpa [applyAll] using hc
  | cons e rest ih =>
    intro k
    cases k with
    | zero => simpa [applyAll] using hc
    | succ k =>
      simp only [List.take_succ_cons, applyAll_cons]
      cases e with
      | savePack p bs =>
        simp only [accept_rewrites, Bool.and_eq_true] at hacc
        exact ih _ none hacc.2 (checkOK_step hacc.1 hc) k
      | saveIndex i es =>
        simp only [accept_rewrites, Bool.and_eq_true] at hacc
        exact ih _ none hacc.2 (checkOK_step hacc.1 hc) k
      | saveSnap n sn =>
        simp only [accept_rewrites, Bool.and_eq_true] at hacc
        exact ih _ _ hacc.2 (checkOK_step hacc.1 hc) k
      | removeSnap o =>
        simp only [accept_rewrites, Bool.and_eq_true] at hacc
        exact ih _ none hacc.2 (checkOK_removeSnap o hc) k
      | removePack p => simp [accept_rewrites] at hacc
      | removeIndex p => simp [accept_rewrites] at hacc

/-! ### The decision logic of the Go functions produces accepted traces -/

theorem restorable_needs_eq {r : Repo} {a b : Snap} (h : a.needs = b.needs) :
    restorable r a = restorable r b := by
  unfold restorable; rw [h]

/-- `changeTags`: whatever the tag edit decided, the backend operations are in the language -/
theorem changeTagsOps_accepted (r : Repo) (old newId : Nat) (so : Snap) (changed : Bool)
    (hl : lookupSnap r old = some so) (hne : newId ≠ old) (hres : restorable r so = true) :
    accept_rewrite1 r old (changeTagsOps old so changed newId) = true := by
  unfold accept_rewrite1
  rw [hl]
  cases changed with
  | false => simp [changeTagsOps, rewrite1Go]
  | true =>
    simp only [changeTagsOps, if_true, rewrite1Go, addGuard, Bool.and_eq_true,
      bne_iff_ne, ne_eq, beq_iff_eq, and_true]
    refine ⟨?_, hne⟩
    rw [← hres]; exact restorable_needs_eq rfl

/-- **C26 end to end for `changeTags`**: at every crash point of the operations it issues, the
    old snapshot or the new one exists. -/
theorem changeTags_safe (r : Repo) (old newId : Nat) (so : Snap) (changed : Bool)
    (hl : lookupSnap r old = some so) (hne : newId ≠ old) (hres : restorable r so = true) (k : Nat) :
    snapPresent (applyAll r ((changeTagsOps old so changed newId).take k)) old = true ∨
      snapPresent (applyAll r ((changeTagsOps old so changed newId).take k)) newId = true := by
  rcases one_exists r old _ (changeTagsOps_accepted r old newId so changed hl hne hres) k with h | ⟨n, hn, h⟩
  · exact Or.inl h
  · right
    cases changed with
    | false => simp [changeTagsOps, newSnapIds] at hn
    | true =>
      simp [changeTagsOps, newSnapIds] at hn
      subst hn; exact h

/-- uploads: guarded pack / index saves only -/
def uploadsOnly (r : Repo) (up : List Ev) : Bool := acceptAdds r up && up.all (fun e => !isSaveSnap e)

theorem uploads_snaps {r : Repo} {up : List Ev} (h : uploadsOnly r up = true) :
    (applyAll r up).snaps = r.snaps := by
  induction up generalizing r with
  | nil => rfl
  | cons e up ih =>
    simp only [uploadsOnly, acceptAdds, List.all_cons, Bool.and_eq_true] at h
    rw [applyAll_cons, ih (r := apply r e) (by simp [uploadsOnly, h.1.2, h.2.2])]
    cases e <;> simp_all [addGuard, isSaveSnap, apply]

theorem rewrite1Go_uploads (old key : Nat) {r : Repo} {up : List Ev} (h : uploadsOnly r up = true)
    (tail : List Ev) :
    rewrite1Go old key r (up ++ tail) = rewrite1Go old key (applyAll r up) tail := by
  induction up generalizing r with
  | nil => rfl
  | cons e up ih =>
    simp only [uploadsOnly, acceptAdds, List.all_cons, Bool.and_eq_true] at h
    have hup : uploadsOnly (apply r e) up = true := by simp [uploadsOnly, h.1.2, h.2.2]
    have hg := h.1.1
    have hns := h.2.1
    rw [applyAll_cons, ← ih hup]
    cases e with
    | saveSnap n sn => simp [isSaveSnap] at hns
    | savePack p bs => simp only [List.cons_append, rewrite1Go, hg, Bool.true_and]
    | saveIndex i es => simp only [List.cons_append, rewrite1Go, hg, Bool.true_and]
    | removePack p => simp [addGuard] at hg
    | removeIndex p => simp [addGuard] at hg
    | removeSnap p => simp [addGuard] at hg

theorem lookupSnap_congr {r r' : Repo} (h : r'.snaps = r.snaps) (s : Nat) :
    lookupSnap r' s = lookupSnap r s := by unfold lookupSnap; rw [h]

theorem snapPresent_congr {r r' : Repo} (h : r'.snaps = r.snaps) (s : Nat) :
    snapPresent r' s = snapPresent r s := by unfold snapPresent; rw [h]

/-- `filterAndReplaceSnapshot`: unless it reports "removed empty snapshot", its backend
    operations are in the language — for every combination of dry-run / forget / keep-empty /
    changed tree / changed metadata. `uploads` is what the filter wrote inside `WithBlobUploader`;
    the hypothesis on `filtered` says the new root tree's closure is indexed once that returned
    (the flush at the end of `WithBlobUploader`, theorem `C11.backupRun_accepted` for the shape). -/
theorem filterAndReplaceOps_accepted (r : Repo) (old newId : Nat) (so : Snap) (uploads : List Ev)
    (filtered : Option (Nat × List Handle)) (summaryChanged metaChanged keepEmpty dryRun forget : Bool)
    (hl : lookupSnap r old = some so) (hne : newId ≠ old)
    (hup : uploadsOnly r uploads = true)
    (hneeds : ∀ t nd, filtered = some (t, nd) → nd.all (indexed (applyAll r uploads)) = true)
    (hout : (filterAndReplaceOps old so uploads filtered summaryChanged metaChanged keepEmpty dryRun forget newId).1
              ≠ .removedEmpty) :
    accept_rewrite1 r old
      (filterAndReplaceOps old so uploads filtered summaryChanged metaChanged keepEmpty dryRun forget newId).2 = true := by
  have hnil : rewrite1Go old so.key r uploads = true := by
    have := rewrite1Go_uploads old so.key hup []
    rw [List.append_nil] at this
    rw [this]; rfl
  unfold accept_rewrite1
  rw [hl]
  unfold filterAndReplaceOps at *
  cases filtered with
  | none =>
    cases keepEmpty with
    | true => simpa using hnil
    | false =>
      cases forget with
      | false => simpa using hnil
      | true => cases dryRun <;> simp at hout
  | some tn =>
    obtain ⟨t, nd⟩ := tn
    simp only at hout ⊢
    split
    · exact hnil
    · split
      · exact hnil
      · have hn := hneeds t nd rfl
        rw [List.append_assoc, rewrite1Go_uploads old so.key hup]
        cases forget with
        | false =>
          simp only [Bool.false_eq_true, if_false, List.append_nil, rewrite1Go, addGuard,
            Bool.and_eq_true, bne_iff_ne, ne_eq, beq_iff_eq, and_true]
          exact ⟨hn, hne⟩
        | true =>
          simp only [if_true, List.singleton_append, rewrite1Go, addGuard,
            Bool.and_eq_true, bne_iff_ne, ne_eq, beq_iff_eq, and_true]
          exact ⟨hn, hne⟩

/-! ### original / tree of the new snapshot -/

/-- `tag`: the new snapshot keeps the first snapshot's id as original, the tree, the lineage -/
theorem original_kept_tag (old newId : Nat) (so : Snap) (n : Nat) (sn' : Snap)
    (h : Ev.saveSnap n sn' ∈ changeTagsOps old so true newId) :
    specOriginal true old so sn' = true ∧ sn'.tree = so.tree ∧ sn'.key = so.key ∧ sn'.needs = so.needs := by
  simp only [changeTagsOps, if_true, List.mem_cons, Ev.saveSnap.injEq, List.mem_nil_iff, or_false,
    reduceCtorEq] at h
  obtain ⟨_, rfl⟩ := h
  simp [specOriginal]

theorem tree_kept_tag (old newId : Nat) (so : Snap) (n : Nat) (sn' : Snap)
    (h : Ev.saveSnap n sn' ∈ changeTagsOps old so true newId) : sn'.tree = so.tree :=
  (original_kept_tag old newId so n sn' h).2.1

/-- `rewrite` / `repair snapshots`: original = id of the replaced snapshot; tree = what the
    filter returned (so: unchanged unless the filter or repair changed it — an unchanged tree with
    unchanged metadata is not rewritten at all, see `filterAndReplaceOps`) -/
theorem original_kept_rewrite (old newId : Nat) (so : Snap) (uploads : List Ev)
    (filtered : Option (Nat × List Handle)) (summaryChanged metaChanged keepEmpty dryRun forget : Bool)
    (hup : ∀ e ∈ uploads, isSaveSnap e = false) (n : Nat) (sn' : Snap)
    (h : Ev.saveSnap n sn' ∈
      (filterAndReplaceOps old so uploads filtered summaryChanged metaChanged keepEmpty dryRun forget newId).2) :
    specOriginal false old so sn' = true ∧ sn'.key = so.key ∧
      ∃ t nd, filtered = some (t, nd) ∧ sn'.tree = t ∧ sn'.needs = nd := by
  have hno : Ev.saveSnap n sn' ∉ uploads := fun hm => by simpa [isSaveSnap] using hup _ hm
  unfold filterAndReplaceOps at h
  cases filtered with
  | none =>
    simp only at h
    split at h
    · exact absurd h hno
    · split at h
      · exact absurd h hno
      · split at h
        · exact absurd h hno
        · simp only [List.mem_append, List.mem_singleton, reduceCtorEq, or_false] at h
          exact absurd h hno
  | some tn =>
    obtain ⟨t, nd⟩ := tn
    simp only at h
    split at h
    · exact absurd h hno
    · split at h
      · exact absurd h hno
      · simp only [List.mem_append, List.mem_singleton, Ev.saveSnap.injEq] at h
        rcases h with (h | h) | h
        · exact absurd h hno
        · obtain ⟨_, rfl⟩ := h
          exact ⟨by simp [specOriginal], rfl, t, nd, rfl, rfl, rfl⟩
        · split at h <;> simp at h

theorem tree_kept_rewrite (old newId : Nat) (so : Snap) (uploads : List Ev)
    (keepEmpty dryRun forget : Bool) (nd : List Handle) :
    -- filter returned the old tree and nothing else changed: no backend operation beyond the uploads
    (filterAndReplaceOps old so uploads (some (so.tree, nd)) false false keepEmpty dryRun forget newId)
      = (.unchanged, uploads) := by
  simp [filterAndReplaceOps]

/-! ### T1: call order in the three Go functions (regenerated from the source on every run) -/

def relevantCalls (l : List String) : List String :=
  l.filter fun c => c == "repo.WithBlobUploader" || c == "data.SaveSnapshot" || c == "repo.RemoveUnpacked"

/-- `changeTags`: SaveSnapshot, then RemoveUnpacked. `filterAndReplaceSnapshot`: the filter runs
    inside WithBlobUploader (flush before anything else), the first RemoveUnpacked is the
    "removed empty snapshot" branch, then SaveSnapshot, then the `--forget` RemoveUnpacked — the
    branch order of `filterAndReplaceOps`. `rewriteSnapshot` and `runRepairSnapshots` go through
    `filterAndReplaceSnapshot` and neither save nor remove snapshot files themselves. -/
theorem save_before_remove :
    relevantCalls Restic.Gen.changeTags_calls = ["data.SaveSnapshot", "repo.RemoveUnpacked"] ∧
    relevantCalls Restic.Gen.filterAndReplaceSnapshot_calls
      = ["repo.WithBlobUploader", "repo.RemoveUnpacked", "data.SaveSnapshot", "repo.RemoveUnpacked"] ∧
    relevantCalls Restic.Gen.rewriteSnapshot_calls = [] ∧
    "filterAndReplaceSnapshot" ∈ Restic.Gen.rewriteSnapshot_calls ∧
    relevantCalls Restic.Gen.runRepairSnapshots_calls = [] ∧
    "filterAndReplaceSnapshot" ∈ Restic.Gen.runRepairSnapshots_calls := by decide

/-! ### Non-vacuity -/

def exBlob : Blob := ⟨1, 7, 0, 40⟩
def exRepo : Repo :=
  { packs := [(100, [exBlob])], indexes := [(200, [(100, [exBlob])])],
    snaps := [(1, { key := 5, tree := 7, orig := none, needs := [(1, 7)] })] }
def exSnap : Snap := { key := 5, tree := 7, orig := none, needs := [(1, 7)] }

example : checkOK exRepo = true := by decide
example : accept_rewrite1 exRepo 1 (changeTagsOps 1 exSnap true 2) = true := by decide
example : (changeTagsOps 1 exSnap true 2).length = 2 := by decide
-- remove before save is outside the language
example : accept_rewrite1 exRepo 1 [.removeSnap 1, .saveSnap 2 exSnap] = false := by decide
example : accept_rewrites [] exRepo none [.saveSnap 2 exSnap, .removeSnap 1] = true := by decide
example : accept_rewrites [] exRepo none [.removeSnap 1, .saveSnap 2 exSnap] = false := by decide
-- the save of the new snapshot FAILED (a failed operation leaves no event): the removal of the old
-- one is then outside the language — "remove(old) only after save(new) succeeded"
example : accept_rewrites [] exRepo none [.removeSnap 1] = false := by decide
example : accept_rewrite1 exRepo 1 [.removeSnap 1] = false := by decide
-- a rewrite with uploads: new tree blob 8 in pack 101, indexed by 201, then the snapshot, then forget
def exBlob2 : Blob := ⟨1, 8, 0, 33⟩
example : (filterAndReplaceOps 1 exSnap [.savePack 101 [exBlob2], .saveIndex 201 [(101, [exBlob2])]]
      (some (8, [(1, 8)])) false false false false true 2).1 = .replaced := by decide
example : accept_rewrite1 exRepo 1 (filterAndReplaceOps 1 exSnap
      [.savePack 101 [exBlob2], .saveIndex 201 [(101, [exBlob2])]]
      (some (8, [(1, 8)])) false false false false true 2).2 = true := by decide
-- snapshot saved before its index: rejected
example : accept_rewrite1 exRepo 1 [.savePack 101 [exBlob2], .saveSnap 2 { exSnap with tree := 8, needs := [(1, 8)] },
      .saveIndex 201 [(101, [exBlob2])]] = false := by decide

end Restic.Props.C26
