import Restic.Model.TreeCodec
import Restic.Gen.Source
/-!
# C41 — Trees are encoded deterministically and without loss

Theorems about `Restic.Model.TreeCodec`: the builder (`AddNode`/`Finalize`), the tree saver loop,
the tree iterator and the `MarshalJSON`/`UnmarshalJSON` wrapper.  `encoding/json` and `strconv`
are oracles; the laws assumed about them (J1, J2, J3) are explicit hypotheses (`Laws`, `Obj`).
-/
namespace Restic.Props.C41
open Restic.Model.TreeCodec

/-! ### the byte-wise order is a strict order -/

theorem u8_eq_of_not_lt {a b : UInt8} (h1 : ¬ a < b) (h2 : ¬ b < a) : a = b := by
  apply UInt8.toNat_inj.mp
  simp only [UInt8.lt_iff_toNat_lt] at h1 h2
  omega

theorem bytesLt_irrefl (a : Bytes) : bytesLt a a = false := by
  induction a with
  | nil => rfl
  | cons x xs ih => simp [bytesLt, ih]

theorem bytesLt_trans {a b c : Bytes} (h1 : bytesLt a b = true) (h2 : bytesLt b c = true) :
    bytesLt a c = true := by
  induction a generalizing b c with
  | nil =>
    cases c with
    | nil => cases b <;> simp [bytesLt] at h1 h2
    | cons z zs => rfl
  | cons x xs ih =>
    cases b with
    | nil => simp [bytesLt] at h1
    | cons y ys =>
      cases c with
      | nil => simp [bytesLt] at h2
      | cons z zs =>
        simp only [bytesLt] at h1 h2 ⊢
        by_cases hxy : x < y
        · by_cases hyz : y < z
          · have : x < z := by
              simp only [UInt8.lt_iff_toNat_lt] at *; omega
            simp [this]
          · simp only [hyz, if_false] at h2
            by_cases hzy : z < y
            · simp [hzy] at h2
            · have := u8_eq_of_not_lt hyz hzy
              subst this; simp [hxy]
        · simp only [hxy, if_false] at h1
          by_cases hyx : y < x
          · simp [hyx] at h1
          · have := u8_eq_of_not_lt hxy hyx
            subst this
            simp only [hyx, if_false] at h1
            by_cases hyz : x < z
            · simp [hyz]
            · simp only [hyz, if_false] at h2 ⊢
              by_cases hzy : z < x
              · simp [hzy] at h2
              · simp only [hzy, if_false] at h2 ⊢
                exact ih h1 h2

theorem bytesLt_asymm {a b : Bytes} (h1 : bytesLt a b = true) : bytesLt b a = false := by
  cases h : bytesLt b a with
  | false => rfl
  | true => have := bytesLt_trans h1 h; rw [bytesLt_irrefl] at this; cases this

theorem bytesLt_nil_right (a : Bytes) : bytesLt a [] = false := by cases a <;> rfl

/-! ### the builder -/

/-- names strictly increasing, starting above `last` (`last = []` initially: every name non-empty) -/
def sortedFrom (last : Bytes) : List (Bytes × Bytes) → Prop
  | [] => True
  | (n, _) :: r => bytesLt last n = true ∧ sortedFrom n r

/-- what the builder appends for a list of (name, encoding) -/
def emit (last : Bytes) : List (Bytes × Bytes) → Bytes
  | [] => []
  | (n, e) :: r => (if last ≠ [] then [44] else []) ++ e ++ emit n r

def withSome (l : List (Bytes × Bytes)) : List (Bytes × Option Bytes) := l.map fun p => (p.1, some p.2)

theorem buildFrom_sorted (b : Builder) (l : List (Bytes × Bytes)) (h : sortedFrom b.lastName l) :
    buildFrom b (withSome l) = some (b.buf ++ emit b.lastName l ++ treeSuffix) := by
  induction l generalizing b with
  | nil => simp [withSome, buildFrom, finalize, emit]
  | cons p r ih =>
    obtain ⟨n, e⟩ := p
    obtain ⟨h1, h2⟩ := h
    simp only [withSome, List.map_cons, buildFrom, addNode, bytesLe, h1, Bool.not_true]
    simp only [Bool.false_eq_true, if_false]
    have := ih { buf := b.buf ++ (if b.lastName ≠ [] then [44] else []) ++ e, lastName := n, count := b.count + 1 } h2
    simp only [withSome] at this
    rw [this]
    simp [emit, List.append_assoc]

/-- **unsorted_rejected**: a list whose names are not strictly increasing (or that contains an
    empty name) is refused by the builder — no tree blob is produced -/
theorem buildFrom_unsorted (b : Builder) (l : List (Bytes × Bytes)) (h : ¬ sortedFrom b.lastName l) :
    buildFrom b (withSome l) = none := by
  induction l generalizing b with
  | nil => exact absurd trivial h
  | cons p r ih =>
    obtain ⟨n, e⟩ := p
    by_cases h1 : bytesLt b.lastName n = true
    · have h2 : ¬ sortedFrom n r := fun h2 => h ⟨h1, h2⟩
      simp only [withSome, List.map_cons, buildFrom, addNode, bytesLe, h1, Bool.not_true]
      simp only [Bool.false_eq_true, if_false]
      exact ih { buf := b.buf ++ (if b.lastName ≠ [] then [44] else []) ++ e, lastName := n, count := b.count + 1 } h2
    · have h1 : bytesLt b.lastName n = false := by simpa using h1
      simp [withSome, buildFrom, addNode, bytesLe, h1]

/-- encodings separated by commas -/
def tailEncs : List Bytes → Bytes
  | [] => []
  | e :: r => 44 :: e ++ tailEncs r

def joinEncs : List Bytes → Bytes
  | [] => []
  | e :: r => e ++ tailEncs r

theorem emit_tail (last : Bytes) (hl : last ≠ []) (l : List (Bytes × Bytes)) (h : sortedFrom last l) :
    emit last l = tailEncs (l.map (·.2)) := by
  induction l generalizing last with
  | nil => rfl
  | cons p r ih =>
    obtain ⟨n, e⟩ := p
    have hn : n ≠ [] := by
      intro hn; have h1 := h.1; simp only [hn, bytesLt_nil_right] at h1; cases h1
    simp [emit, tailEncs, hl, ih n hn h.2]

theorem emit_join (l : List (Bytes × Bytes)) (h : sortedFrom [] l) :
    emit [] l = joinEncs (l.map (·.2)) := by
  cases l with
  | nil => rfl
  | cons p r =>
    obtain ⟨n, e⟩ := p
    have hn : n ≠ [] := by
      intro hn; have h1 := h.1; simp only [hn, bytesLt_nil_right] at h1; cases h1
    simp [emit, joinEncs, emit_tail n hn r h.2]

/-- **build_bytes**: for strictly sorted names the blob is `{"nodes":[` e1 `,` e2 … `]}` newline -/
theorem buildTree_sorted (l : List (Bytes × Bytes)) (h : sortedFrom [] l) :
    buildTree (withSome l) = some (treePrefix ++ joinEncs (l.map (·.2)) ++ treeSuffix) := by
  have := buildFrom_sorted newBuilder l h
  rw [buildTree, this]
  simp only [newBuilder, emit_join l h]

theorem buildTree_unsorted (l : List (Bytes × Bytes)) (h : ¬ sortedFrom [] l) :
    buildTree (withSome l) = none := buildFrom_unsorted newBuilder l h

theorem buildTree_isSome_iff (l : List (Bytes × Bytes)) :
    (buildTree (withSome l)).isSome = true ↔ sortedFrom [] l := by
  by_cases h : sortedFrom [] l
  · simp [buildTree_sorted l h, h]
  · simp [buildTree_unsorted l h, h]

/-! ### determinism: the blob depends only on the set of entries -/

theorem sortedFrom_all {last : Bytes} {l : List (Bytes × Bytes)} (h : sortedFrom last l) :
    ∀ p ∈ l, bytesLt last p.1 = true := by
  induction l generalizing last with
  | nil => intro p hp; cases hp
  | cons q r ih =>
    obtain ⟨n, e⟩ := q
    intro p hp
    rcases List.mem_cons.mp hp with h' | h'
    · subst h'; exact h.1
    · exact bytesLt_trans h.1 (ih h.2 p h')

theorem sorted_unique {last1 last2 : Bytes} {l1 l2 : List (Bytes × Bytes)}
    (h1 : sortedFrom last1 l1) (h2 : sortedFrom last2 l2) (hm : ∀ p, p ∈ l1 ↔ p ∈ l2) : l1 = l2 := by
  induction l1 generalizing last1 last2 l2 with
  | nil =>
    cases l2 with
    | nil => rfl
    | cons q r => exact absurd ((hm q).mpr List.mem_cons_self) (by simp)
  | cons a r1 ih =>
    cases l2 with
    | nil => exact absurd ((hm a).mp List.mem_cons_self) (by simp)
    | cons b r2 =>
      have hab : a = b := by
        by_cases hab : a = b
        · exact hab
        · exfalso
          have ha : a ∈ r2 := by
            rcases List.mem_cons.mp ((hm a).mp List.mem_cons_self) with h | h
            · exact absurd h hab
            · exact h
          have hb : b ∈ r1 := by
            rcases List.mem_cons.mp ((hm b).mpr List.mem_cons_self) with h | h
            · exact absurd h.symm hab
            · exact h
          have x1 := sortedFrom_all h2.2 a ha
          have x2 := sortedFrom_all h1.2 b hb
          have := bytesLt_asymm x1
          rw [x2] at this; cases this
      subst hab
      have hnot1 : a ∉ r1 := fun h => by
        have := sortedFrom_all h1.2 a h; rw [bytesLt_irrefl] at this; cases this
      have hnot2 : a ∉ r2 := fun h => by
        have := sortedFrom_all h2.2 a h; rw [bytesLt_irrefl] at this; cases this
      have : r1 = r2 := by
        apply ih h1.2 h2.2
        intro p
        constructor
        · intro hp
          rcases List.mem_cons.mp ((hm p).mp (List.mem_cons_of_mem _ hp)) with h | h
          · subst h; exact absurd hp hnot1
          · exact h
        · intro hp
          rcases List.mem_cons.mp ((hm p).mpr (List.mem_cons_of_mem _ hp)) with h | h
          · subst h; exact absurd hp hnot2
          · exact h
      rw [this]

/-- **tree_deterministic**: two successful builds from the same set of entries (whatever order
    or multiplicity bookkeeping produced the two lists) give identical bytes -/
theorem tree_deterministic (l1 l2 : List (Bytes × Bytes)) (b1 b2 : Bytes)
    (h1 : buildTree (withSome l1) = some b1) (h2 : buildTree (withSome l2) = some b2)
    (hm : ∀ p, p ∈ l1 ↔ p ∈ l2) : b1 = b2 := by
  have s1 : sortedFrom [] l1 := (buildTree_isSome_iff l1).mp (by simp [h1])
  have s2 : sortedFrom [] l2 := (buildTree_isSome_iff l2).mp (by simp [h2])
  have := sorted_unique s1 s2 hm
  subst this
  rw [h1] at h2; exact Option.some.inj h2

/-! ### the iterator decodes what the builder wrote -/

/-- J3 (law about the stdlib encoder and the decoder's scanner): `e` is one JSON object — it
    starts with `{` and scanning stops exactly at its end, whatever follows.  Checked for every
    encoding in the correspondence run (the model iterator is run on the real bytes). -/
structure Obj (e : Bytes) : Prop where
  head : ∃ r, e = 123 :: r
  delim : ∀ rest, scanValue (e ++ rest) = some (e, rest)

theorem iterNext_first {e : Bytes} (he : Obj e) (rest : Bytes) :
    iterNext (e ++ rest) = .node e rest := by
  obtain ⟨r, hr⟩ := he.head
  have hd := he.delim rest
  subst hr
  simp only [List.cons_append] at hd
  simp only [iterNext, List.cons_append, skipWS, isWS]
  simp only [skipComma, skipWS, isWS]
  simp [hd, skipWS, isWS]

theorem iterNext_comma {e : Bytes} (he : Obj e) (rest : Bytes) :
    iterNext (44 :: (e ++ rest)) = .node e rest := by
  obtain ⟨r, hr⟩ := he.head
  have hd := he.delim rest
  subst hr
  simp only [List.cons_append] at hd
  simp only [iterNext, List.cons_append, skipWS, isWS]
  simp only [skipComma, skipWS, isWS]
  simp [hd, skipWS, isWS]

theorem iterNext_suffix : iterNext treeSuffix = .eof := by decide

theorem iterAll_tail' (S : Bytes) (hS : iterNext S = .eof) (encs : List Bytes) (h : ∀ e ∈ encs, Obj e)
    (fuel : Nat) (hf : encs.length < fuel) :
    iterAll fuel (tailEncs encs ++ S) = (encs, true) := by
  induction encs generalizing fuel with
  | nil =>
    cases fuel with
    | zero => cases hf
    | succ f => simp [iterAll, tailEncs, hS]
  | cons e r ih =>
    cases fuel with
    | zero => cases hf
    | succ f =>
      have he := h e List.mem_cons_self
      have := ih (fun x hx => h x (List.mem_cons_of_mem _ hx)) f (by simp at hf; omega)
      simp only [iterAll, tailEncs, List.cons_append, List.append_assoc, iterNext_comma he, this]

theorem iterAll_join' (S : Bytes) (hS : iterNext S = .eof) (encs : List Bytes) (h : ∀ e ∈ encs, Obj e)
    (fuel : Nat) (hf : encs.length < fuel) :
    iterAll fuel (joinEncs encs ++ S) = (encs, true) := by
  cases encs with
  | nil =>
    cases fuel with
    | zero => cases hf
    | succ f => simp [iterAll, joinEncs, hS]
  | cons e r =>
    cases fuel with
    | zero => cases hf
    | succ f =>
      have he := h e List.mem_cons_self
      have := iterAll_tail' S hS r (fun x hx => h x (List.mem_cons_of_mem _ hx)) f (by simp at hf; omega)
      simp only [iterAll, joinEncs, List.append_assoc, iterNext_first he, this]

theorem iterAll_join (encs : List Bytes) (h : ∀ e ∈ encs, Obj e) (fuel : Nat) (hf : encs.length < fuel) :
    iterAll fuel (joinEncs encs ++ treeSuffix) = (encs, true) :=
  iterAll_join' treeSuffix iterNext_suffix encs h fuel hf

theorem iterInit_prefix (rest : Bytes) : iterInit (treePrefix ++ rest) = some rest := by
  simp [iterInit, treePrefix, expect, skipWS, isWS, initLoop, skipComma, scanStr, nodesKey]

theorem obj_length_pos {e : Bytes} (he : Obj e) : 0 < e.length := by
  obtain ⟨r, hr⟩ := he.head; subst hr; simp

theorem tailEncs_length (encs : List Bytes) (h : ∀ e ∈ encs, Obj e) :
    encs.length ≤ (tailEncs encs).length := by
  induction encs with
  | nil => simp
  | cons e r ih =>
    have := ih (fun x hx => h x (List.mem_cons_of_mem _ hx))
    simp [tailEncs]; omega

theorem joinEncs_length (encs : List Bytes) (h : ∀ e ∈ encs, Obj e) :
    encs.length ≤ (joinEncs encs).length := by
  cases encs with
  | nil => simp
  | cons e r =>
    have := tailEncs_length r (fun x hx => h x (List.mem_cons_of_mem _ hx))
    have := obj_length_pos (h e List.mem_cons_self)
    simp [joinEncs]; omega

/-- **iterator ∘ builder**: iterating over a built tree yields exactly the node encodings that
    were added, in order, and ends without error -/
theorem decodeRaw_build (encs : List Bytes) (h : ∀ e ∈ encs, Obj e) :
    decodeRaw (treePrefix ++ joinEncs encs ++ treeSuffix) = some (encs, true) := by
  have hl := joinEncs_length encs h
  simp only [decodeRaw, List.append_assoc, iterInit_prefix]
  rw [iterAll_join encs h]
  simp [treeSuffix]; omega

/-! ### Node.MarshalJSON / UnmarshalJSON -/

/-- the fields that are stored as plain JSON strings are valid UTF-8 (hypothesis of the round
    trip; without it the unchanged code alters the field — finding F7) -/
def PlainOK (o : Oracles) (n : Node) : Prop :=
  o.validUTF8 n.typ = true ∧ o.validUTF8 n.user = true ∧ o.validUTF8 n.group = true ∧
  o.validUTF8 n.error = true ∧ (∀ x ∈ n.xattrs, o.validUTF8 x.1 = true) ∧
  (∀ g ∈ n.generic, o.validUTF8 g.1 = true)

/-- timestamps within years 0–9999 -/
def YearsOK (n : Node) : Prop :=
  (0 ≤ n.mtime.year ∧ n.mtime.year ≤ 9999) ∧ (0 ≤ n.atime.year ∧ n.atime.year ≤ 9999) ∧
  (0 ≤ n.ctime.year ∧ n.ctime.year ≤ 9999)

/-- laws assumed about the stdlib oracles.  `canon` = "generic attribute values are JSON in the
    form `json.Marshal` writes" (restic only stores such values). -/
structure Laws (o : Oracles) (canon : List (Bytes × Bytes) → Prop) : Prop where
  /-- `strconv.Quote` output is `"` … `"` and valid UTF-8 -/
  quote_shape : ∀ s, ∃ m, o.quote s = 34 :: (m ++ [34]) ∧ o.validUTF8 m = true
  /-- J1 -/
  unquote_quote : ∀ s, o.unquote (o.quote s) = some s
  valid_nil : o.validUTF8 [] = true
  /-- J2: decoding an encoded struct gives the struct back when its plain strings are valid
      UTF-8, years are 0–9999, generic values canonical, and `linktarget_raw` is absent or
      non-empty; an invalid `linktarget` string may come back altered (the raw copy does not) -/
  dec_enc : ∀ (v : Node) (b : Bytes), o.validUTF8 v.name = true → PlainOK o v → YearsOK v →
      canon v.generic → v.raw ≠ some [] → o.jsonEnc v = some b →
      ∃ lt, o.jsonDec b = some { v with linkTarget := lt } ∧
        (o.validUTF8 v.linkTarget = true → lt = v.linkTarget)

theorem fixTime_id {t : Time} (h : 0 ≤ t.year ∧ t.year ≤ 9999) : fixTime t = t := by
  unfold fixTime
  have h1 : ¬ t.year < 0 := by omega
  have h2 : ¬ t.year > 9999 := by omega
  simp [h1, h2]

/-- `fixTime` always lands in 0–9999, so `json.Marshal` never fails on a timestamp -/
theorem fixTime_range (t : Time) : 0 ≤ (fixTime t).year ∧ (fixTime t).year ≤ 9999 := by
  unfold fixTime
  split
  · simp
  · split
    · simp
    · constructor <;> omega

/-- **node_roundtrip**: every field of a node survives encode → decode: names and link targets
    with arbitrary bytes, extended and generic attributes, numbers, content, subtree, and
    timestamps within years 0–9999.  (Plain-string fields must be valid UTF-8, see `PlainOK`.) -/
theorem node_roundtrip {o : Oracles} {canon : List (Bytes × Bytes) → Prop} (L : Laws o canon)
    (n : Node) (b : Bytes) (hraw : n.raw = none) (hp : PlainOK o n) (hy : YearsOK n)
    (hg : canon n.generic) (hm : marshalNode o n = .ok b) : unmarshalNode o b = some n := by
  obtain ⟨m, hq, hmv⟩ := L.quote_shape n.name
  have hinner : ((o.quote n.name).drop 1).dropLast = m := by simp [hq]
  let rawv : Option Bytes := if o.validUTF8 n.linkTarget = true then none else some n.linkTarget
  let v : Node := { n with name := m, raw := rawv }
  have hwrap : wrapNode o n = v := by
    simp only [wrapNode, hinner, fixTime_id hy.1, fixTime_id hy.2.1, fixTime_id hy.2.2]
    rfl
  simp only [marshalNode, hraw, Option.isSome_none, Bool.false_eq_true, if_false] at hm
  cases henc : o.jsonEnc (wrapNode o n) with
  | none => simp [henc] at hm
  | some b' =>
    simp only [henc] at hm
    have hb : b' = b := by injection hm
    subst hb
    rw [hwrap] at henc
    have hrawne : v.raw ≠ some [] := by
      show rawv ≠ some []
      by_cases hv : o.validUTF8 n.linkTarget = true
      · simp [rawv, hv]
      · simp only [rawv, hv]
        intro h
        have : n.linkTarget = [] := by injection h
        rw [this, L.valid_nil] at hv; exact hv rfl
    obtain ⟨lt, hdec, hlt⟩ := L.dec_enc v b' hmv hp hy hg hrawne henc
    have huq : o.unquote (34 :: m ++ [34]) = some n.name := by
      have := L.unquote_quote n.name
      rw [hq] at this
      simpa using this
    simp only [unmarshalNode, hdec]
    by_cases hv : o.validUTF8 n.linkTarget = true
    · have hlt' : lt = n.linkTarget := hlt hv
      have hr : rawv = none := by simp [rawv, hv]
      subst hlt'
      simp only [v, hr]
      cases n; simp_all
    · have hr : rawv = some n.linkTarget := by simp [rawv, hv]
      simp only [v, hr]
      cases n; simp_all

/-- decoded nodes never carry `LinkTargetRaw`, so encoding them again cannot hit the
    "LinkTargetRaw must not be set manually" panic -/
theorem unmarshal_raw_none {o : Oracles} {b : Bytes} {n : Node} (h : unmarshalNode o b = some n) :
    n.raw = none := by
  simp only [unmarshalNode] at h
  split at h
  · cases h
  · split at h
    · cases h
    · rename_i nj _ name _
      split at h
      · injection h with h; subst h; rfl
      · rename_i hr
        injection h with h; subst h; exact hr

theorem marshal_no_panic {o : Oracles} {n : Node} (h : n.raw = none) : marshalNode o n ≠ .panic := by
  simp only [marshalNode, h, Option.isSome_none, Bool.false_eq_true, if_false]
  split <;> simp

/-- a name is never handed to the JSON encoder as is: what is encoded is the `strconv.Quote`d
    form, which is valid UTF-8 for *every* byte string (this is why names survive) -/
theorem wrapped_name_valid {o : Oracles} {canon : List (Bytes × Bytes) → Prop} (L : Laws o canon)
    (n : Node) : o.validUTF8 (wrapNode o n).name = true := by
  obtain ⟨m, hq, hmv⟩ := L.quote_shape n.name
  simp [wrapNode, hq, hmv]

/-- an invalid-UTF-8 link target is always accompanied by its raw copy -/
theorem wrapped_raw {o : Oracles} (n : Node) :
    o.validUTF8 n.linkTarget = false → (wrapNode o n).raw = some n.linkTarget := by
  intro h; simp [wrapNode, h]

/-! ### whole trees: decode ∘ encode = id -/

/-- `json.Marshal` of every node of a list (what `AddNode` does one by one) -/
def marshalAll (o : Oracles) : List Node → Option (List (Bytes × Bytes))
  | [] => some []
  | n :: r =>
    match marshalNode o n, marshalAll o r with
    | .ok b, some l => some ((n.name, b) :: l)
    | _, _ => none

/-- `Decode(&node)` for every raw value the iterator delivers -/
def unmarshalAll (o : Oracles) : List Bytes → Option (List Node)
  | [] => some []
  | e :: r =>
    match unmarshalNode o e, unmarshalAll o r with
    | some n, some l => some (n :: l)
    | _, _ => none

/-- SaveTree: marshal and add all nodes, finalize -/
def encodeTree (o : Oracles) (nodes : List Node) : Option Bytes :=
  match marshalAll o nodes with
  | some l => buildTree (withSome l)
  | none => none

/-- LoadTree + full iteration -/
def decodeTree (o : Oracles) (b : Bytes) : Option (List Node) :=
  match decodeRaw b with
  | some (raws, true) => unmarshalAll o raws
  | _ => none

/-- the hypotheses of the property for one node -/
def NodeOK (o : Oracles) (canon : List (Bytes × Bytes) → Prop) (n : Node) : Prop :=
  n.raw = none ∧ PlainOK o n ∧ YearsOK n ∧ canon n.generic

theorem unmarshalAll_marshalAll {o : Oracles} {canon : List (Bytes × Bytes) → Prop} (L : Laws o canon)
    (nodes : List Node) (l : List (Bytes × Bytes)) (hok : ∀ n ∈ nodes, NodeOK o canon n)
    (h : marshalAll o nodes = some l) : unmarshalAll o (l.map (·.2)) = some nodes := by
  induction nodes generalizing l with
  | nil => simp only [marshalAll] at h; cases h; rfl
  | cons n r ih =>
    simp only [marshalAll] at h
    split at h
    · rename_i b l' hm hr
      cases h
      obtain ⟨h1, h2, h3, h4⟩ := hok n List.mem_cons_self
      have hn := node_roundtrip L n b h1 h2 h3 h4 hm
      have hrr := ih l' (fun x hx => hok x (List.mem_cons_of_mem _ hx)) hr
      simp only [List.map_cons, unmarshalAll, hn, hrr]
    · cases h

theorem marshalAll_obj {o : Oracles} (J3 : ∀ n b, marshalNode o n = .ok b → Obj b)
    (nodes : List Node) (l : List (Bytes × Bytes)) (h : marshalAll o nodes = some l) :
    ∀ e ∈ l.map (·.2), Obj e := by
  induction nodes generalizing l with
  | nil => simp only [marshalAll] at h; cases h; intro e he; cases he
  | cons n r ih =>
    simp only [marshalAll] at h
    split at h
    · rename_i b l' hm hr
      cases h
      intro e he
      rcases List.mem_cons.mp he with h' | h'
      · subst h'; exact J3 n _ hm
      · exact ih l' hr e h'
    · cases h

/-- **tree_roundtrip**: a directory listing that the builder accepts (names strictly increasing)
    decodes to exactly the nodes that were encoded — every field of every entry. -/
theorem tree_roundtrip {o : Oracles} {canon : List (Bytes × Bytes) → Prop} (L : Laws o canon)
    (J3 : ∀ n b, marshalNode o n = .ok b → Obj b)
    (nodes : List Node) (hok : ∀ n ∈ nodes, NodeOK o canon n) (bytes : Bytes)
    (h : encodeTree o nodes = some bytes) : decodeTree o bytes = some nodes := by
  simp only [encodeTree] at h
  split at h
  · rename_i l hl
    have hs : sortedFrom [] l := (buildTree_isSome_iff l).mp (by simp [h])
    rw [buildTree_sorted l hs] at h
    injection h with h
    subst h
    simp only [decodeTree, decodeRaw_build _ (marshalAll_obj J3 nodes l hl)]
    exact unmarshalAll_marshalAll L nodes l hok hl
  · cases h

theorem marshalAll_names {o : Oracles} (nodes : List Node) (l : List (Bytes × Bytes))
    (h : marshalAll o nodes = some l) : l.map (·.1) = nodes.map (·.name) := by
  induction nodes generalizing l with
  | nil => simp only [marshalAll] at h; cases h; rfl
  | cons n r ih =>
    simp only [marshalAll] at h
    split at h
    · rename_i b l' hm hr
      cases h
      simp [ih l' hr]
    · cases h

/-! ### treeSaver.save -/

/-- the (name, encoding) pairs of the futures that delivered a node -/
def futNodes : List Fut → List (Bytes × Bytes)
  | [] => []
  | .node n :: r =>
    match n.enc with
    | some e => (n.name, e) :: futNodes r
    | none => futNodes r
  | _ :: r => futNodes r

/-- a future that does not abort the save: a node, an excluded item or an ignored error -/
def benign : Fut → Prop
  | .failed c i => c = false ∧ i = true
  | .excluded => True
  | .node n => n.enc.isSome = true

/-- **save_in_list_order**: whatever the futures' completion order was (it is not an input of
    the loop: `take` is called on the futures in list order), excluded items and ignored errors
    are skipped and the blob is the builder's encoding of the delivered nodes in list order. -/
theorem saveLoop_sorted (futs : List Fut) (hb : ∀ f ∈ futs, benign f) (b : Builder)
    (hs : sortedFrom b.lastName (futNodes futs)) (last : Option TNode) (w : Nat) :
    ∃ w', saveLoop futs b last w =
      .ok (b.buf ++ emit b.lastName (futNodes futs) ++ treeSuffix) w' := by
  induction futs generalizing b last w with
  | nil => exact ⟨w, by simp [saveLoop, finalize, futNodes, emit]⟩
  | cons f fs ih =>
    have hfs : ∀ f ∈ fs, benign f := fun x hx => hb x (List.mem_cons_of_mem _ hx)
    have hf := hb f List.mem_cons_self
    cases f with
    | failed c i =>
      obtain ⟨hc, hi⟩ := hf
      subst hc; subst hi
      simp only [saveLoop, Bool.false_eq_true, if_false, if_true, futNodes]
      exact ih hfs b hs last (w + 1)
    | excluded =>
      simp only [saveLoop, futNodes]
      exact ih hfs b hs last w
    | node n =>
      simp only [benign] at hf
      cases he : n.enc with
      | none => rw [he] at hf; cases hf
      | some e =>
        simp only [futNodes, he] at hs ⊢
        obtain ⟨h1, h2⟩ := hs
        simp only [saveLoop, addNode, bytesLe, h1, Bool.not_true, Bool.false_eq_true, if_false, he]
        obtain ⟨w', hw'⟩ := ih hfs { buf := b.buf ++ (if b.lastName ≠ [] then [44] else []) ++ e, lastName := n.name, count := b.count + 1 } h2 (some n) w
        exact ⟨w', by rw [hw']; simp [emit, List.append_assoc]⟩

theorem treeSave_eq_build (futs : List Fut) (hb : ∀ f ∈ futs, benign f)
    (hs : sortedFrom [] (futNodes futs)) :
    ∃ w', some (treeSave futs) = (buildTree (withSome (futNodes futs))).map (fun b => SaveRes.ok b w') := by
  obtain ⟨w', hw'⟩ := saveLoop_sorted futs hb newBuilder hs none 0
  refine ⟨w', ?_⟩
  rw [treeSave, hw', buildTree, buildFrom_sorted newBuilder _ hs]
  rfl

/-- bytes produced, ignoring the errFn call counter -/
def saveBytes : SaveRes → Option Bytes
  | .ok b _ => some b
  | .err _ => none

theorem saveLoop_last_key (fs : List Fut) (b : Builder) (l1 l2 : TNode) (hk : l1.key = l2.key) (w1 w2 : Nat) :
    saveBytes (saveLoop fs b (some l1) w1) = saveBytes (saveLoop fs b (some l2) w2) := by
  induction fs generalizing b l1 l2 w1 w2 with
  | nil => rfl
  | cons f fs ih =>
    cases f with
    | failed c i =>
      simp only [saveLoop]
      split
      · rfl
      · split
        · exact ih b l1 l2 hk _ _
        · rfl
    | excluded => simp only [saveLoop]; exact ih b l1 l2 hk _ _
    | node n =>
      simp only [saveLoop]
      split
      · exact ih _ n n rfl _ _
      · simp only [hk]
        split
        · exact ih _ n n rfl _ _
        · rfl
      · rfl

/-- **identical_duplicate_tolerated**: a second copy of the node just added (same name, `Equals`)
    is skipped with a warning; the blob is the same as without the copy. -/
theorem saveLoop_dup (n n' : TNode) (fs : List Fut) (b b' : Builder) (last : Option TNode) (w : Nat)
    (h : addNode b n.name n.enc = .ok b') (hn : n'.name = n.name) (hk : n'.key = n.key) :
    saveBytes (saveLoop (.node n :: .node n' :: fs) b last w) = saveBytes (saveLoop (.node n :: fs) b last w) := by
  have hlast : b'.lastName = n.name := by
    simp only [addNode] at h
    split at h
    · cases h
    · split at h
      · cases h
      · injection h with h; subst h; rfl
  have hrej : addNode b' n'.name n'.enc = .notOrdered := by
    simp [addNode, bytesLe, hn, hlast, bytesLt_irrefl]
  simp only [saveLoop, h, hrej, hk, if_true]
  exact saveLoop_last_key fs b' n' n hk _ _

/-- a different node under the same name aborts the save (no blob with duplicate names) -/
theorem saveLoop_conflict (n n' : TNode) (fs : List Fut) (b b' : Builder) (last : Option TNode) (w : Nat)
    (h : addNode b n.name n.enc = .ok b') (hn : n'.name = n.name) (hk : n'.key ≠ n.key) :
    saveLoop (.node n :: .node n' :: fs) b last w = .err "order" := by
  have hlast : b'.lastName = n.name := by
    simp only [addNode] at h
    split at h
    · cases h
    · split at h
      · cases h
      · injection h with h; subst h; rfl
  have hrej : addNode b' n'.name n'.enc = .notOrdered := by
    simp [addNode, bytesLe, hn, hlast, bytesLt_irrefl]
  simp [saveLoop, h, hrej, hk]

/-! ### unknown keys around "nodes" are ignored -/

/-- a key without quote or backslash that is not `nodes` -/
def KeyOK (k : Bytes) : Prop := k ≠ nodesKey ∧ ∀ c ∈ k, c ≠ 34 ∧ c ≠ 92

/-- `v` is one JSON value for the scanner when followed by `,` or `}` -/
def ValOK (v : Bytes) : Prop :=
  ∀ rest, scanValue (v ++ 44 :: rest) = some (v, 44 :: rest) ∧
          scanValue (v ++ 125 :: rest) = some (v, 125 :: rest)

/-- `"k":v,` for every unknown member in front of "nodes" -/
def renderPre : List (Bytes × Bytes) → Bytes
  | [] => []
  | (k, v) :: r => 34 :: k ++ [34, 58] ++ v ++ [44] ++ renderPre r

/-- `,"k":v` for every unknown member behind the array -/
def renderPost : List (Bytes × Bytes) → Bytes
  | [] => []
  | (k, v) :: r => 44 :: 34 :: k ++ [34, 58] ++ v ++ renderPost r

theorem scanStr_plain (k rest acc : Bytes) (h : ∀ c ∈ k, c ≠ 34 ∧ c ≠ 92) :
    scanStr (k ++ 34 :: rest) acc = some (acc.reverse ++ k, rest) := by
  induction k generalizing acc with
  | nil => unfold scanStr; simp
  | cons c cs ih =>
    have hc := h c List.mem_cons_self
    have := ih (c :: acc) (fun x hx => h x (List.mem_cons_of_mem _ hx))
    simp only [List.cons_append]
    unfold scanStr
    simp [hc.1, hc.2, this]

/-- `"nodes":[` -/
def nodesOpen : Bytes := 34 :: nodesKey ++ [34, 58, 91]

theorem initLoop_nodes (f : Nat) (rest : Bytes) : initLoop (f + 1) (nodesOpen ++ rest) = some rest := by
  simp [initLoop, nodesOpen, nodesKey, skipComma, skipWS, isWS, scanStr, expect]

theorem initLoop_pre (pre : List (Bytes × Bytes)) (hp : ∀ m ∈ pre, KeyOK m.1 ∧ ValOK m.2)
    (f : Nat) (hf : pre.length < f) (rest : Bytes) :
    initLoop f (renderPre pre ++ nodesOpen ++ rest) = some rest := by
  induction pre generalizing f with
  | nil =>
    cases f with
    | zero => cases hf
    | succ f => simpa [renderPre] using initLoop_nodes f rest
  | cons m r ih =>
    obtain ⟨k, v⟩ := m
    cases f with
    | zero => cases hf
    | succ f =>
      obtain ⟨⟨hk1, hk2⟩, hv⟩ := hp (k, v) List.mem_cons_self
      have ihr := ih (fun x hx => hp x (List.mem_cons_of_mem _ hx)) f (by simp at hf; omega)
      -- shape of what follows the value: `,` then the next member or "nodes"
      have hnext : ∃ X, renderPre r ++ nodesOpen ++ rest = 34 :: X := by
        cases r with
        | nil => exact ⟨_, by simp [renderPre, nodesOpen]; rfl⟩
        | cons m' r' => obtain ⟨k', v'⟩ := m'; exact ⟨_, by simp [renderPre]; rfl⟩
      obtain ⟨X, hX⟩ := hnext
      have hs := scanStr_plain k ([58] ++ v ++ [44] ++ (renderPre r ++ nodesOpen ++ rest)) [] hk2
      have hval := (hv (renderPre r ++ nodesOpen ++ rest)).1
      have hcont : initLoop f (44 :: (renderPre r ++ nodesOpen ++ rest)) = some rest := by
        rw [← ihr]
        cases f with
        | zero => rfl
        | succ f' =>
          rw [hX]
          simp [initLoop, skipComma, skipWS, isWS]
      simp only [renderPre, List.append_assoc, List.cons_append, List.nil_append] at hs hval hcont ⊢
      simp only [initLoop, skipComma, skipWS, isWS]
      simp only [List.nil_append, List.reverse_nil] at hs
      simp [hs, expect, skipWS, isWS, hk1, hval, hcont]

theorem tailLoop_post (post : List (Bytes × Bytes)) (hp : ∀ m ∈ post, KeyOK m.1 ∧ ValOK m.2)
    (f : Nat) (hf : post.length < f) : tailLoop f (renderPost post ++ [125]) = .eof := by
  induction post generalizing f with
  | nil =>
    cases f with
    | zero => cases hf
    | succ f => simp [tailLoop, renderPost, skipComma, skipWS, isWS]
  | cons m r ih =>
    obtain ⟨k, v⟩ := m
    cases f with
    | zero => cases hf
    | succ f =>
      obtain ⟨⟨_, hk2⟩, hv⟩ := hp (k, v) List.mem_cons_self
      have ihr := ih (fun x hx => hp x (List.mem_cons_of_mem _ hx)) f (by simp at hf; omega)
      have hs := scanStr_plain k ([58] ++ v ++ (renderPost r ++ [125])) [] hk2
      have hval : scanValue (v ++ (renderPost r ++ [125])) = some (v, renderPost r ++ [125]) := by
        cases r with
        | nil => simpa [renderPost] using (hv []).2
        | cons m' r' =>
          obtain ⟨k', v'⟩ := m'
          have := (hv (34 :: k' ++ [34, 58] ++ v' ++ renderPost r' ++ [125])).1
          simpa [renderPost, List.append_assoc] using this
      simp only [renderPost, List.append_assoc, List.cons_append, List.nil_append, List.reverse_nil] at hs hval ihr ⊢
      simp only [tailLoop, skipComma, skipWS, isWS]
      simp [hs, expect, skipWS, isWS, hval, ihr]

theorem renderPre_length (pre : List (Bytes × Bytes)) : pre.length ≤ (renderPre pre).length := by
  induction pre with
  | nil => simp
  | cons m r ih => obtain ⟨k, v⟩ := m; simp [renderPre]; omega

theorem renderPost_length (post : List (Bytes × Bytes)) : post.length ≤ (renderPost post).length := by
  induction post with
  | nil => simp
  | cons m r ih => obtain ⟨k, v⟩ := m; simp [renderPost]; omega

/-- **unknown_keys_ignored**: members with unknown keys before and after `"nodes"` (as a future
    format might add) do not change what the iterator delivers. -/
theorem unknown_keys_ignored (pre post : List (Bytes × Bytes))
    (hpre : ∀ m ∈ pre, KeyOK m.1 ∧ ValOK m.2) (hpost : ∀ m ∈ post, KeyOK m.1 ∧ ValOK m.2)
    (encs : List Bytes) (h : ∀ e ∈ encs, Obj e) :
    decodeRaw ([123] ++ renderPre pre ++ nodesOpen ++ (joinEncs encs ++ (93 :: (renderPost post ++ [125]))))
      = some (encs, true) := by
  have h1 := renderPre_length pre
  have h2 := joinEncs_length encs h
  have hS : iterNext (93 :: (renderPost post ++ [125])) = .eof := by
    simp only [iterNext, skipWS, isWS]
    have := tailLoop_post post hpost ((renderPost post ++ [125]).length + 1)
      (by have := renderPost_length post; simp; omega)
    simpa using this
  have hinit : iterInit ([123] ++ renderPre pre ++ nodesOpen ++ (joinEncs encs ++ (93 :: (renderPost post ++ [125]))))
      = some (joinEncs encs ++ (93 :: (renderPost post ++ [125]))) := by
    simp only [iterInit, expect, List.append_assoc, List.cons_append, List.nil_append, skipWS, isWS]
    have := initLoop_pre pre hpre
      ((renderPre pre ++ (nodesOpen ++ (joinEncs encs ++ 93 :: (renderPost post ++ [125])))).length + 1)
      (by simp; omega) (joinEncs encs ++ (93 :: (renderPost post ++ [125])))
    simpa [List.append_assoc] using this
  simp only [decodeRaw, hinit]
  rw [iterAll_join' _ hS encs h]
  simp; omega

/-! ### the transcription meets the executable statements -/

def pairsOf (names encs : List Bytes) : List (Bytes × Bytes) := names.zip encs

theorem strictSorted_cons (x : Bytes) (r : List (Bytes × Bytes)) :
    strictSorted (x :: r.map (·.1)) = true ↔ bytesLt [] x = true ∧ sortedFrom x r := by
  induction r generalizing x with
  | nil => simp [strictSorted, sortedFrom]
  | cons p r ih =>
    obtain ⟨y, e⟩ := p
    simp only [List.map_cons, strictSorted, Bool.and_eq_true, ih y, sortedFrom]
    constructor
    · rintro ⟨⟨h1, h2⟩, _, h4⟩; exact ⟨h1, h2, h4⟩
    · rintro ⟨h1, h2, h4⟩
      refine ⟨⟨h1, h2⟩, ?_, h4⟩
      cases y with
      | nil => rw [bytesLt_nil_right] at h2; cases h2
      | cons c cs => rfl

theorem strictSorted_iff (l : List (Bytes × Bytes)) :
    strictSorted (l.map (·.1)) = true ↔ sortedFrom [] l := by
  cases l with
  | nil => simp [strictSorted, sortedFrom]
  | cons p r =>
    obtain ⟨x, e⟩ := p
    simp only [List.map_cons, strictSorted_cons, sortedFrom]

/-- what the driver computes from a built blob: the raw values if iteration ended cleanly -/
def decodedOf (built : Option Bytes) : Option (List Bytes) :=
  match built with
  | none => none
  | some b =>
    match decodeRaw b with
    | some (raws, true) => some raws
    | _ => none

/-- **model ⇒ specTree**: builder + iterator of the model satisfy the executable statement for
    every list of entries (sorted or not), given J3 for the encodings -/
theorem model_meets_specTree (l : List (Bytes × Bytes)) (h : ∀ e ∈ l.map (·.2), Obj e) :
    specTree (l.map (·.1)) (l.map (·.2)) (buildTree (withSome l)) (decodedOf (buildTree (withSome l))) = true := by
  by_cases hs : sortedFrom [] l
  · have hss := (strictSorted_iff l).mpr hs
    have hd := decodeRaw_build _ h
    simp only [List.append_assoc] at hd
    simp [specTree, buildTree_sorted l hs, decodedOf, hd, hss]
  · have hss : strictSorted (l.map (·.1)) = false := by
      cases hx : strictSorted (l.map (·.1)) with
      | false => rfl
      | true => exact absurd ((strictSorted_iff l).mp hx) hs
    simp [specTree, buildTree_unsorted l hs, hss]

/-- **model ⇒ specNode** -/
theorem model_meets_specNode {o : Oracles} {canon : List (Bytes × Bytes) → Prop} (L : Laws o canon)
    (n : Node) (b : Bytes) (hok : NodeOK o canon n) (hm : marshalNode o n = .ok b) :
    specNode n (unmarshalNode o b) = true := by
  obtain ⟨h1, h2, h3, h4⟩ := hok
  simp [specNode, node_roundtrip L n b h1 h2 h3 h4 hm]

/-! ### T1: facts regenerated from the source on every run -/

/-- `MarshalJSON` fixes the three timestamps, quotes the name and tests the link target before
    handing the struct to `json.Marshal`; `UnmarshalJSON` unquotes after `json.Unmarshal` -/
theorem marshal_call_order :
    (Restic.Gen.Node_MarshalJSON_calls.count "fixTime" = 3) ∧
    (Restic.Gen.Node_MarshalJSON_calls.idxOf "strconv.Quote" < Restic.Gen.Node_MarshalJSON_calls.idxOf "json.Marshal") ∧
    (Restic.Gen.Node_MarshalJSON_calls.idxOf "utf8.ValidString" < Restic.Gen.Node_MarshalJSON_calls.idxOf "json.Marshal") ∧
    "json.Marshal" ∈ Restic.Gen.Node_MarshalJSON_calls ∧
    (Restic.Gen.Node_UnmarshalJSON_calls.idxOf "json.Unmarshal" < Restic.Gen.Node_UnmarshalJSON_calls.idxOf "strconv.Unquote") ∧
    "strconv.Unquote" ∈ Restic.Gen.Node_UnmarshalJSON_calls := by decide

/-- the tree saver takes each future (in the `range nodes` loop) before it adds the node, and
    finalizes afterwards; the directory entries were sorted by `sort.Strings` -/
theorem saver_call_order :
    (Restic.Gen.treeSaver_save_calls.idxOf "fn.take" < Restic.Gen.treeSaver_save_calls.idxOf "builder.AddNode") ∧
    (Restic.Gen.treeSaver_save_calls.idxOf "builder.AddNode" < Restic.Gen.treeSaver_save_calls.idxOf "builder.Finalize") ∧
    "builder.Finalize" ∈ Restic.Gen.treeSaver_save_calls ∧
    "fnr.node.Equals" ∈ Restic.Gen.treeSaver_save_calls ∧
    "sort.Strings" ∈ Restic.Gen.dirToNodeAndEntries_calls ∧
    "json.Marshal" ∈ Restic.Gen.TreeJSONBuilder_AddNode_calls := by decide

/-! ### Non-vacuity: the hypotheses are satisfiable by a non-trivial instance -/

/-- a toy oracle: quoting adds quotes, everything is "valid", and the JSON codec knows one node -/
def exNode : Node :=
  { name := [97, 255], linkTarget := [255], raw := none,
    mtime := ⟨2024, [1]⟩, atime := ⟨0, []⟩, ctime := ⟨9999, [2]⟩,
    typ := [102], user := [117], group := [], error := [], xattrs := [([120], [0, 255])], generic := [],
    nums := [420, 1000], content := some [[1, 2]], subtree := none }

def exEnc : Bytes := [123, 34, 97, 34, 58, 34, 125, 34, 125]   -- {"a":"}"}

def exOracles : Oracles :=
  { quote := fun s => 34 :: (s ++ [34]),
    unquote := fun q => some ((q.drop 1).dropLast),
    validUTF8 := fun s => s.all (· < 128),
    jsonEnc := fun v => if v = wrapNode
        { quote := fun s => 34 :: (s ++ [34]), unquote := fun _ => none, validUTF8 := fun s => s.all (· < 128),
          jsonEnc := fun _ => none, jsonDec := fun _ => none } exNode then some exEnc else none,
    jsonDec := fun b => if b = exEnc then some { exNode with name := [97, 255], raw := some [255] } else none }

example : marshalNode exOracles exNode = .ok exEnc := by decide
example : unmarshalNode exOracles exEnc = some exNode := by decide
example : specNode exNode (unmarshalNode exOracles exEnc) = true := by decide
/-- the scanner treats `{"a":"}"}` as one object whatever follows (J3 instance) -/
example : Obj exEnc := by
  refine ⟨⟨_, rfl⟩, fun rest => ?_⟩
  simp [exEnc, scanValue, skipWS, isWS, scanComp]
example : buildTree [([97], some exEnc), ([98], some exEnc)] =
    some (treePrefix ++ exEnc ++ [44] ++ exEnc ++ treeSuffix) := by decide
example : decodeRaw (treePrefix ++ exEnc ++ [44] ++ exEnc ++ treeSuffix) = some ([exEnc, exEnc], true) := by decide
example : buildTree [([98], some exEnc), ([97], some exEnc)] = none := by decide
example : buildTree [([], some exEnc)] = none := by decide
example : treeSave [.node ⟨[97], some exEnc, 1⟩, .excluded, .node ⟨[97], some exEnc, 1⟩, .failed false true,
    .node ⟨[98], some exEnc, 2⟩] = .ok (treePrefix ++ exEnc ++ [44] ++ exEnc ++ treeSuffix) 2 := by decide
example : treeSave [.node ⟨[97], some exEnc, 1⟩, .node ⟨[97], some exEnc, 7⟩] = .err "order" := by decide

/-! ### Observation (outside the statement of C41, transcribed faithfully)
`treeIterator.next` passes an `io.EOF` from `dec.Token()` on as a clean end of the tree.  A tree
document that is cut off at a token boundary is therefore accepted as a complete (shorter) tree;
reproduced on the real iterator (docs/C41.md). -/
example : decodeRaw treePrefix = some ([], true) := by decide
example : decodeRaw (treePrefix ++ exEnc ++ [44]) = some ([exEnc], true) := by decide

end Restic.Props.C41
