import Restic.Model.TreeCodec
namespace Restic.Props.C41
open Restic.Model.TreeCodec

theorem placeholder : True := trivial

end Restic.Props.C41
