import Restic.Proofs.C56_Inv
import Restic.Gen.Source
/-!
# C56 — The index hash table behaves as a multimap

Statement (properties.jsonl): for any sequence of insertions, including many entries with equal
keys, colliding buckets and table growth, looking up a blob ID yields exactly the entries inserted
for it, the first-entry position of a key never changes, and iteration yields every entry once.

All theorems are about `Restic.Model.IndexMap` (transcription of `indexmap.go`), for **every** hash
function, every history of `add`/`preallocate` operations of any length below the
`2^bloomShift` entry limit of the data structure (beyond it the Go code panics by design), every id.
`bloomShift`/`maxLoad` are the regenerated constants of the current source.
-/
namespace Restic.Props.C56
open Restic.Model.IndexMap Restic.Proofs.C56

/-! ### T1: facts about the regenerated constants used below -/

theorem bloomShift_lt_wordBits : bloomShift < wordBits := by decide
theorem maxLoad_pos : 0 < maxLoad := by decide

/-- T1 (regenerated from indexmap.go): `add` grows the table *before* it hashes the id (the bucket
    is computed for the new table size), then allocates the entry and builds the pointer word with
    `bloomInsertID`; `preallocate` rehashes with `bloomInsertID` and grows the block list last -/
theorem add_call_order :
    Restic.Gen.indexMap_add_calls.idxOf "m.preallocate" < Restic.Gen.indexMap_add_calls.idxOf "m.hash"
    ∧ Restic.Gen.indexMap_add_calls.idxOf "m.hash" < Restic.Gen.indexMap_add_calls.idxOf "m.newEntry"
    ∧ "bloomInsertID" ∈ Restic.Gen.indexMap_add_calls
    ∧ "bloomInsertID" ∈ Restic.Gen.indexMap_preallocate_calls
    ∧ Restic.Gen.indexMap_preallocate_calls.getLast? = some "m.blockList.preallocate" := by decide

section
variable (hash : ID → Nat)

/-! ### helper lemmas: positions and inserted values -/

/-- the value inserted at position `p` (1-based) -/
def valAt (ins : List Val) (p : Nat) : Val := ins.getD (p - 1) default

theorem range_map_valAt (ins : List Val) : (List.range' 1 ins.length).map (valAt ins) = ins := by
  apply List.ext_getElem
  · simp
  · intro i h1 h2
    simp [valAt, List.getD_eq_getElem?_getD, h2]

theorem peek_valAt {m : IndexMap} {ins : List Val} (inv : Inv hash m ins) {p : Nat} (h0 : 0 < p)
    (hs : p < m.blockList.size) : ∃ e, m.blockList.peek p = some e ∧ e.v = valAt ins p := by
  obtain ⟨e, he⟩ := inv.wf.peek_some hs
  have hi : p - 1 < ins.length := by have := inv.size; omega
  have := inv.vals (p - 1) hi
  have hp : p - 1 + 1 = p := by omega
  rw [hp, he] at this
  refine ⟨e, he, ?_⟩
  simp only [Option.map_some, Option.some.injEq] at this
  simp [valAt, List.getD_eq_getElem?_getD, hi, this]

theorem filterMap_peek_map_v {m : IndexMap} {ins : List Val} (inv : Inv hash m ins) :
    ∀ ps : List Nat, (∀ p, p ∈ ps → 0 < p ∧ p < m.blockList.size) →
      (ps.filterMap m.blockList.peek).map (·.v) = ps.map (valAt ins)
  | [], _ => rfl
  | p :: ps, h => by
    obtain ⟨e, he, hv⟩ := peek_valAt hash inv (h p (List.mem_cons_self ..)).1 (h p (List.mem_cons_self ..)).2
    simp only [List.filterMap_cons, he, List.map_cons, hv]
    rw [filterMap_peek_map_v inv ps (fun q hq => h q (List.mem_cons_of_mem _ hq))]

theorem idAt_eq {m : IndexMap} {ins : List Val} (inv : Inv hash m ins) {p : Nat} (h0 : 0 < p)
    (hs : p < m.blockList.size) : idAt m.blockList p = some (valAt ins p).id := by
  obtain ⟨e, he, hv⟩ := peek_valAt hash inv h0 hs
  simp [idAt, he, hv]

theorem chainEntries_filter (hat : HAT) (id : ID) : ∀ l : List Nat,
    (chainEntries hat l).filter (fun e => e.v.id = id) = (matching hat id l).filterMap hat.peek
  | [] => rfl
  | p :: l => by
    have ih := chainEntries_filter hat id l
    simp only [chainEntries, matching] at ih ⊢
    cases hp : hat.peek p with
    | none => simp [List.filterMap_cons, List.filter_cons, hp, idAt, ih]
    | some e =>
      by_cases hid : e.v.id = id
      · simp [List.filterMap_cons, List.filter_cons, hp, idAt, hid, ih]
      · simp [List.filterMap_cons, List.filter_cons, hp, idAt, hid, ih]

/-- the positions holding `id`, in increasing order -/
def positionsOf (ins : List Val) (id : ID) : List Nat :=
  (List.range' 1 ins.length).filter fun p => decide ((valAt ins p).id = id)

theorem positionsOf_map (ins : List Val) (id : ID) :
    (positionsOf ins id).map (valAt ins) = ins.filter (fun v => decide (v.id = id)) := by
  have := List.filter_map (f := valAt ins) (p := fun v => decide (v.id = id)) (l := List.range' 1 ins.length)
  rw [range_map_valAt] at this
  rw [this]; rfl

theorem mem_positionsOf (ins : List Val) (id : ID) (p : Nat) :
    p ∈ positionsOf ins id ↔ 0 < p ∧ p < ins.length + 1 ∧ (valAt ins p).id = id := by
  simp only [positionsOf, List.mem_filter, List.mem_range'_1, decide_eq_true_eq]
  constructor
  · rintro ⟨⟨h1, h2⟩, h3⟩; exact ⟨by omega, by omega, h3⟩
  · rintro ⟨h1, h2, h3⟩; exact ⟨⟨by omega, by omega⟩, h3⟩

/-- the chain of the bucket of `id`, filtered by `id`, is a permutation of the positions of `id` -/
theorem matching_perm {m : IndexMap} {ins : List Val} (inv : Inv hash m ins) (id : ID) {w : Nat} {l : List Nat}
    (c : Chain m.blockList w l)
    (ml : ∀ p, p ∈ l ↔ (0 < p ∧ p < m.blockList.size ∧ ∃ id', idAt m.blockList p = some id' ∧
      bucketOf hash m.buckets.size id' = bucketOf hash m.buckets.size id)) :
    (matching m.blockList id l).Perm (positionsOf ins id) := by
  have hmp := mem_positionsOf ins id
  unfold matching positionsOf at *
  rw [List.perm_ext_iff_of_nodup (c.nodup.filter _)
    ((List.nodup_range' (step := 1) (by omega)).filter _)]
  intro p
  rw [hmp]
  simp only [List.mem_filter, decide_eq_true_eq, ml p]
  have hsz := inv.size
  constructor
  · rintro ⟨⟨h0, hs, _⟩, hid⟩
    rw [idAt_eq hash inv h0 hs] at hid
    exact ⟨h0, by omega, Option.some.inj hid⟩
  · rintro ⟨h0, hs, hid⟩
    have hs' : p < m.blockList.size := by omega
    have := idAt_eq hash inv h0 hs'
    exact ⟨⟨h0, hs', _, this, by rw [hid]⟩, by rw [this, hid]⟩

theorem matching_bounds {m : IndexMap} {w : Nat} {l : List Nat} (c : Chain m.blockList w l) (id : ID) :
    ∀ p, p ∈ matching m.blockList id l → 0 < p ∧ p < m.blockList.size := by
  intro p hp
  exact c.mem_bounds p (List.mem_filter.mp hp).1

/-- the chain behind the bucket of `id` in an invariant state -/
theorem bucket_chain {m : IndexMap} {ins : List Val} (inv : Inv hash m ins) (id : ID) :
    ∃ w l, m.buckets[m.hashOf hash id]? = some w ∧ Chain m.blockList w l ∧
      (matching m.blockList id l).Perm (positionsOf ins id) := by
  have hlt : m.hashOf hash id < m.buckets.size := bucketOf_lt hash inv.nb id
  obtain ⟨l, cl, ml⟩ := inv.part.chains _ _ (Array.getElem?_eq_getElem hlt)
  exact ⟨_, l, Array.getElem?_eq_getElem hlt, cl, matching_perm hash inv id cl ml⟩

/-! ### lookups in a reachable state -/

/-- **refines_multimap**: `valuesWithID` yields exactly the values inserted for the id (as a multiset) -/
theorem valuesWithID_multimap {m : IndexMap} {ins : List Val} (st : State hash m ins) (id : ID) :
    ∃ L, m.valuesWithID hash id = .ok L ∧ (L.map (·.v)).Perm (ins.filter fun v => decide (v.id = id)) := by
  rcases st with ⟨hb, _, _, hins⟩ | inv
  · subst hins; exact ⟨[], by simp [IndexMap.valuesWithID, hb], by simp⟩
  · obtain ⟨w, l, hw, cl, hperm⟩ := bucket_chain hash inv id
    have hne : (m.buckets.size == 0) = false := by
      have hnb := inv.nb
      have : m.buckets.size ≠ 0 := by omega
      simp [this]
    refine ⟨_, by simp only [IndexMap.valuesWithID, hne, hw]; exact walkValues_chain cl id _ cl.length_lt_size, ?_⟩
    rw [chainEntries_filter, filterMap_peek_map_v hash inv _ (matching_bounds cl id), ← positionsOf_map]
    exact hperm.map _

/-- `get` returns the first entry `valuesWithID` would yield -/
theorem get_eq_head {m : IndexMap} {ins : List Val} (st : State hash m ins) (id : ID) :
    ∃ L, m.valuesWithID hash id = .ok L ∧ m.get hash id = .ok L.head? := by
  rcases st with ⟨hb, _, _, _⟩ | inv
  · exact ⟨[], by simp [IndexMap.valuesWithID, hb], by simp [IndexMap.get, hb]⟩
  · obtain ⟨w, l, hw, cl, _⟩ := bucket_chain hash inv id
    have hne : (m.buckets.size == 0) = false := by
      have hnb := inv.nb
      have : m.buckets.size ≠ 0 := by omega
      simp [this]
    exact ⟨_, by simp only [IndexMap.valuesWithID, hne, hw]; exact walkValues_chain cl id _ cl.length_lt_size,
      by simp only [IndexMap.get, hne, hw]; exact walkGet_chain cl id _ cl.length_lt_size⟩

/-- **get_first**: `get` finds an inserted entry of the id, and `none` iff nothing was inserted for it -/
theorem get_spec {m : IndexMap} {ins : List Val} (st : State hash m ins) (id : ID) :
    ∃ r, m.get hash id = .ok r ∧
      (r = none ↔ ∀ v, v ∈ ins → v.id ≠ id) ∧ (∀ e, r = some e → e.v ∈ ins ∧ e.v.id = id) := by
  obtain ⟨L, hL, hg⟩ := get_eq_head hash st id
  obtain ⟨L', hL', hperm⟩ := valuesWithID_multimap hash st id
  rw [hL] at hL'; cases hL'
  refine ⟨L.head?, hg, ?_, ?_⟩
  · rw [List.head?_eq_none_iff]
    constructor
    · intro h v hv hid
      subst h
      have : v ∈ ins.filter fun v => decide (v.id = id) := by simp [hv, hid]
      have := hperm.symm.subset this
      simp at this
    · intro h
      have : ins.filter (fun v => decide (v.id = id)) = [] := by
        rw [List.filter_eq_nil_iff]; intro v hv; simpa using h v hv
      rw [this] at hperm
      simpa using hperm.eq_nil
  · intro e he
    have hm : e ∈ L := List.mem_of_mem_head? he
    have : e.v ∈ L.map (·.v) := List.mem_map_of_mem hm
    have := hperm.subset this
    simpa using this

theorem firstPos_of_min (ins : List Val) (id : ID) (p : Nat) (hp : p ∈ positionsOf ins id)
    (hmin : ∀ q, q ∈ positionsOf ins id → p ≤ q) : firstPos ins id = (p : Int) := by
  obtain ⟨h0, hs, hid⟩ := (mem_positionsOf ins id p).mp hp
  have hi : p - 1 < ins.length := by omega
  have hv : valAt ins p = ins[p - 1] := by simp [valAt, List.getD_eq_getElem?_getD, hi]
  have : ins.findIdx? (fun v => v.id == id) = some (p - 1) := by
    rw [List.findIdx?_eq_some_iff_getElem]
    refine ⟨hi, by rw [← hv]; simpa using hid, ?_⟩
    intro j hj hpj
    have hj' : j < ins.length := by omega
    have hq : j + 1 ∈ positionsOf ins id := by
      rw [mem_positionsOf]
      refine ⟨by omega, by omega, ?_⟩
      simp only [valAt, Nat.add_sub_cancel, List.getD_eq_getElem?_getD, hj', List.getElem?_eq_getElem, Option.getD_some]
      simpa using hpj
    have := hmin _ hq
    omega
  simp only [firstPos, this]
  omega

theorem firstPos_of_none (ins : List Val) (id : ID) (h : positionsOf ins id = []) : firstPos ins id = -1 := by
  have : ins.findIdx? (fun v => v.id == id) = none := by
    rw [List.findIdx?_eq_none_iff]
    intro v hv
    obtain ⟨i, hi, rfl⟩ := List.getElem_of_mem hv
    have hn : i + 1 ∉ positionsOf ins id := by rw [h]; simp
    rw [mem_positionsOf] at hn
    simp only [valAt, Nat.add_sub_cancel, List.getD_eq_getElem?_getD, hi, List.getElem?_eq_getElem, Option.getD_some] at hn
    have : ¬ ins[i].id = id := fun h' => hn ⟨by omega, by omega, h'⟩
    simpa using this
  simp [firstPos, this]

/-- `firstIndex` is the position of the first insertion of the id (`-1` if none) -/
theorem firstIndex_eq {m : IndexMap} {ins : List Val} (st : State hash m ins) (id : ID) :
    m.firstIndex hash id = .ok (firstPos ins id) := by
  rcases st with ⟨hb, _, _, hins⟩ | inv
  · subst hins; simp [IndexMap.firstIndex, hb, firstPos]
  · obtain ⟨w, l, hw, cl, hperm⟩ := bucket_chain hash inv id
    have hne : (m.buckets.size == 0) = false := by
      have hnb := inv.nb
      have : m.buckets.size ≠ 0 := by omega
      simp [this]
    simp only [IndexMap.firstIndex, hne, hw, Bool.false_eq_true, if_false]
    rw [walkFirst_chain cl id _ _ cl.length_lt_size]
    congr 1
    rcases firstOf_spec (matching m.blockList id l) with ⟨hnil, hr⟩ | ⟨p, hp, hr, hmin⟩
    · rw [hr, firstPos_of_none]
      rw [hnil] at hperm; exact hperm.symm.eq_nil
    · rw [hr, firstPos_of_min ins id p (hperm.subset hp)]
      intro q hq
      exact hmin q (hperm.symm.subset hq)

theorem refAll_eq (hat : HAT) : ∀ ps : List Nat, (∀ p, p ∈ ps → p < hat.size) → (∀ p, p ∈ ps → (hat.peek p).isSome) →
    refAll hat ps = .ok (ps.filterMap hat.peek)
  | [], _, _ => rfl
  | p :: ps, h, hs => by
    obtain ⟨e, he⟩ := Option.isSome_iff_exists.mp (hs p (List.mem_cons_self ..))
    simp only [refAll, ref_of_peek (h p (List.mem_cons_self ..)) he, Res.bind,
      refAll_eq hat ps (fun q hq => h q (List.mem_cons_of_mem _ hq)) (fun q hq => hs q (List.mem_cons_of_mem _ hq)),
      List.filterMap_cons, he]

/-- **values_each_once**: iteration yields exactly the inserted values, each once (in insertion order) -/
theorem values_eq {m : IndexMap} {ins : List Val} (st : State hash m ins) :
    ∃ L, m.values = .ok L ∧ L.map (·.v) = ins := by
  rcases st with ⟨_, _, hs, hins⟩ | inv
  · subst hins; exact ⟨[], by simp [IndexMap.values, hs, refAll], rfl⟩
  · have hsz := inv.size
    have hb : ∀ p, p ∈ List.range' 1 (m.blockList.size - 1) → 0 < p ∧ p < m.blockList.size := by
      intro p hp; rw [List.mem_range'_1] at hp; omega
    refine ⟨_, refAll_eq _ _ (fun p hp => (hb p hp).2) (fun p hp => ?_), ?_⟩
    · obtain ⟨e, he⟩ := inv.wf.peek_some (hb p hp).2
      simp [he]
    · rw [filterMap_peek_map_v hash inv _ hb]
      have : m.blockList.size - 1 = ins.length := by omega
      rw [this, range_map_valAt]

theorem len_eq {m : IndexMap} {ins : List Val} (st : State hash m ins) : m.len = ins.length := by
  rcases st with ⟨_, hn, _, hins⟩ | inv
  · subst hins; simpa [IndexMap.len] using hn
  · exact inv.num

/-! ### histories -/

theorem inserted_append (a b : List Op) : inserted (a ++ b) = inserted a ++ inserted b := by
  induction a with
  | nil => rfl
  | cons op a ih => cases op <;> simp [inserted, ih]

theorem run_append (a b : List Op) (m : IndexMap) :
    run hash (a ++ b) m = (run hash a m).bind (run hash b) := by
  induction a generalizing m with
  | nil => rfl
  | cons op a ih =>
    simp only [List.cons_append, run]
    cases step hash m op <;> simp [Res.bind, ih]

theorem run_state : ∀ (ops : List Op) (m : IndexMap) (ins : List Val), State hash m ins →
    ins.length + (inserted ops).length < 2 ^ bloomShift →
    ∃ m', run hash ops m = .ok m' ∧ State hash m' (ins ++ inserted ops)
  | [], m, ins, st, _ => ⟨m, rfl, by simpa [inserted] using st⟩
  | .add v :: ops, m, ins, st, hb => by
    simp only [inserted, List.length_cons] at hb
    obtain ⟨m1, h1, inv1⟩ := add_spec hash st v (by omega)
    obtain ⟨m', h', st'⟩ := run_state ops m1 (ins ++ [v]) (Or.inr inv1) (by simp; omega)
    exact ⟨m', by simp [run, step, h1, Res.bind, h'], by simpa [inserted] using st'⟩
  | .prealloc n :: ops, m, ins, st, hb => by
    obtain ⟨m1, h1, st1, _⟩ := preallocate_spec hash st n
    obtain ⟨m', h', st'⟩ := run_state ops m1 ins st1 (by simpa [inserted] using hb)
    exact ⟨m', by simp [run, step, h1, Res.bind, h'], by simpa [inserted] using st'⟩

/-- **no_panic / refinement**: every history with fewer than `2^bloomShift` insertions runs without
    panic or non-termination and ends in a state that represents exactly the inserted values -/
theorem run_refines (ops : List Op) (hb : (inserted ops).length < 2 ^ bloomShift) :
    ∃ m, run hash ops IndexMap.empty = .ok m ∧ State hash m (inserted ops) := by
  obtain ⟨m, h, st⟩ := run_state hash ops IndexMap.empty [] (State.empty hash) (by change 0 + _ < _; omega)
  exact ⟨m, h, by simpa using st⟩

/-- **refines_multimap** for histories -/
theorem lookup_after_history (ops : List Op) (hb : (inserted ops).length < 2 ^ bloomShift) (id : ID) :
    ∃ m L, run hash ops IndexMap.empty = .ok m ∧ m.valuesWithID hash id = .ok L ∧
      (L.map (·.v)).Perm ((inserted ops).filter fun v => decide (v.id = id)) := by
  obtain ⟨m, h, st⟩ := run_refines hash ops hb
  obtain ⟨L, hL, hp⟩ := valuesWithID_multimap hash st id
  exact ⟨m, L, h, hL, hp⟩

theorem firstPos_append (ins more : List Val) (id : ID) (h : firstPos ins id ≠ -1) :
    firstPos (ins ++ more) id = firstPos ins id := by
  unfold firstPos at h ⊢
  cases hf : ins.findIdx? (fun v => v.id == id) with
  | none => simp [hf] at h
  | some i =>
    have : (ins ++ more).findIdx? (fun v => v.id == id) = some i := by
      rw [List.findIdx?_append, hf]; rfl
    simp [this]

/-- **firstIndex_stable**: once an id has a first-entry position, no later operation changes it -/
theorem firstIndex_stable (ops more : List Op) (hb : (inserted (ops ++ more)).length < 2 ^ bloomShift)
    (id : ID) (k : Int) (m : IndexMap) (hrun : run hash ops IndexMap.empty = .ok m)
    (hk : m.firstIndex hash id = .ok k) (hk0 : k ≠ -1) :
    ∃ m', run hash (ops ++ more) IndexMap.empty = .ok m' ∧ m'.firstIndex hash id = .ok k := by
  have hb1 : (inserted ops).length < 2 ^ bloomShift := by
    rw [inserted_append, List.length_append] at hb; omega
  obtain ⟨m1, h1, st1⟩ := run_refines hash ops hb1
  rw [hrun] at h1; cases h1
  rw [firstIndex_eq hash st1 id] at hk; cases hk
  obtain ⟨m', h', st'⟩ := run_refines hash (ops ++ more) hb
  refine ⟨m', h', ?_⟩
  rw [firstIndex_eq hash st' id, inserted_append, firstPos_append _ _ _ hk0]

/-! ### the executable statement holds in every reachable state -/

/-- what a state answers to the observations of the correspondence run -/
theorem spec_holds {m : IndexMap} {ins : List Val} (st : State hash m ins) (id : ID) :
    (∃ L, m.valuesWithID hash id = .ok L ∧ specValuesWithID ins id (L.map (·.v)) = true) ∧
    (∃ r, m.get hash id = .ok r ∧ specGet ins id (r.map (·.v)) = true) ∧
    (∃ k, m.firstIndex hash id = .ok k ∧ specFirstIndex ins id k = true) ∧
    (∃ L, m.values = .ok L ∧ specValues ins (L.map (·.v)) = true) ∧
    specLen ins m.len = true := by
  refine ⟨?_, ?_, ?_, ?_, ?_⟩
  · obtain ⟨L, hL, hp⟩ := valuesWithID_multimap hash st id
    refine ⟨L, hL, ?_⟩
    simp only [specValuesWithID, List.isPerm_iff]
    have : (fun v : Val => v.id == id) = fun v => decide (v.id = id) := by
      funext v; apply Bool.eq_iff_iff.mpr; simp
    rw [this]; exact hp
  · obtain ⟨r, hr, hnone, hsome⟩ := get_spec hash st id
    refine ⟨r, hr, ?_⟩
    cases r with
    | none =>
      simp only [specGet, Option.map_none, Bool.not_eq_true', List.any_eq_false, beq_iff_eq]
      exact fun v hv => by simpa using hnone.mp rfl v hv
    | some e =>
      obtain ⟨h1, h2⟩ := hsome e rfl
      simp [specGet, h1, h2]
  · exact ⟨_, firstIndex_eq hash st id, by simp [specFirstIndex]⟩
  · obtain ⟨L, hL, hv⟩ := values_eq hash st
    exact ⟨L, hL, by simp [specValues, hv, List.isPerm_iff]⟩
  · simp [specLen, len_eq hash st]

/-- main theorem: after any history (below the entry limit) the model meets `specOK` -/
theorem history_meets_spec (ops : List Op) (hb : (inserted ops).length < 2 ^ bloomShift) (id : ID) :
    ∃ m, run hash ops IndexMap.empty = .ok m ∧
      (∃ L, m.valuesWithID hash id = .ok L ∧ specValuesWithID (inserted ops) id (L.map (·.v)) = true) ∧
      (∃ r, m.get hash id = .ok r ∧ specGet (inserted ops) id (r.map (·.v)) = true) ∧
      (∃ k, m.firstIndex hash id = .ok k ∧ specFirstIndex (inserted ops) id k = true) ∧
      (∃ L, m.values = .ok L ∧ specValues (inserted ops) (L.map (·.v)) = true) ∧
      specLen (inserted ops) m.len = true := by
  obtain ⟨m, h, st⟩ := run_refines hash ops hb
  exact ⟨m, h, spec_holds hash st id⟩

/-! ### the hashed array tree (`hat_ref_alloc`) and word width -/

/-- `Alloc` returns the next position and keeps everything stored before, across block growth -/
theorem hat_ref_alloc {h : HAT} (wf : HATWF h) :
    ∃ h', h.alloc = .ok (h', h.size) ∧ HATWF h' ∧ h'.size = h.size + 1 ∧
      ∀ q, q < h.size → h'.ref q = h.ref q := by
  obtain ⟨h', ha, wf', hs, hp⟩ := wf.alloc
  refine ⟨h', ha, wf', hs, ?_⟩
  intro q hq
  obtain ⟨e, hr, he⟩ := wf.ref_eq hq
  rw [hr, ref_of_peek (by omega) (by rw [hp q hq]; exact he)]

/-- `preallocate` (block size doubling with pairwise merging) keeps every stored entry in place -/
theorem hat_ref_preallocate {h : HAT} (wf : HATWF h) (n : Nat) :
    HATWF (h.preallocate n) ∧ ∀ q, q < h.size → (h.preallocate n).ref q = h.ref q := by
  obtain ⟨wf', hs, hp, _⟩ := wf.preallocate n
  refine ⟨wf', ?_⟩
  intro q hq
  obtain ⟨e, hr, he⟩ := wf.ref_eq hq
  rw [hr, ref_of_peek (by omega) (by rw [hp q hq]; exact he)]

/-- a written entry is read back, all others are untouched -/
theorem hat_ref_set {h : HAT} (wf : HATWF h) (p q : Nat) (e : Entry) (hp : p < h.size) (hq : q < h.size) :
    (h.set p e).ref q = if q = p then .ok e else h.ref q := by
  obtain ⟨e0, he0⟩ := wf.peek_some hp
  obtain ⟨eq, hrq, heq⟩ := wf.ref_eq hq
  by_cases h' : q = p
  · subst h'
    rw [if_pos rfl]
    exact ref_of_peek (by rw [hat_set_size]; exact hq) (by simp [wf.peek_set, he0])
  · rw [if_neg h', hrq]
    exact ref_of_peek (by rw [hat_set_size]; exact hq) (by simp [wf.peek_set, h', heq])

/-- every pointer word of a chain fits in a 64-bit `uint` -/
theorem chain_word_lt {hat : HAT} {w : Nat} {l : List Nat} (c : Chain hat w l) : w < 2 ^ wordBits := by
  induction c with
  | nil => exact Nat.two_pow_pos _
  | cons _ _ hk _ _ _ ih => exact bloomInsertID_lt _ bloomShift_lt_wordBits hk ih

/-- **word_lt**: in a reachable state every bucket word fits in 64 bits (the model's unbounded
    naturals never exceed the Go `uint`) -/
theorem word_lt {m : IndexMap} {ins : List Val} (st : State hash m ins) (b w : Nat)
    (hw : m.buckets[b]? = some w) : w < 2 ^ wordBits := by
  rcases st with ⟨hb, _, _, _⟩ | inv
  · have : m.buckets[b]? = none := Array.getElem?_eq_none (by omega)
    rw [this] at hw; cases hw
  · obtain ⟨l, cl, _⟩ := inv.part.chains b w hw
    exact chain_word_lt cl

end

/-! ### non-vacuity: concrete histories (examples, not part of the proof) -/

/-- a byte-sum hash: the ids `[1]`, `[65]` collide in every table size ≤ 64 and `[1]`, `[29]`
    share a bloom bit -/
def exHash (id : ID) : Nat := id.foldl (fun a b => a + b.toNat) 0

def exOps : List Op :=
  [.add ⟨[1], 0, 0, 10, 0⟩, .add ⟨[65], 1, 5, 10, 0⟩, .add ⟨[1], 2, 7, 10, 0⟩, .prealloc 1000, .add ⟨[29], 3, 0, 10, 0⟩]

example : (inserted exOps).length < 2 ^ bloomShift := by decide

example : ∃ m, run exHash exOps IndexMap.empty = .ok m ∧
    (∃ L, m.valuesWithID exHash [1] = .ok L ∧ L.length = 2) ∧ m.firstIndex exHash [1] = .ok 1 := by
  obtain ⟨m, h, st⟩ := run_refines exHash exOps (by decide)
  obtain ⟨L, hL, hp⟩ := valuesWithID_multimap exHash st [1]
  refine ⟨m, h, ⟨L, hL, ?_⟩, ?_⟩
  · have := hp.length_eq
    simpa [exOps, inserted] using this
  · rw [firstIndex_eq exHash st [1]]; rfl

end Restic.Props.C56
