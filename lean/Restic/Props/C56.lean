import Restic.Model.IndexMap
namespace Restic.Props.C56
end Restic.Props.C56
