import Restic.Proofs.C20_Traverse
import Restic.Proofs.Select_Link
import Restic.Gen.Source
/-!
# C20 — Restore includes / excludes and `--delete` select exactly the matching paths

Theorems about the transcription of `selectIncludeFilter` / `selectExcludeFilter`
(cmd/restic/cmd_restore.go), the pruned traversal `traverseTreeInner` and
`removeUnexpectedFiles` (internal/restorer/restorer.go) in `Restic.Model.Select`, for ALL
snapshot trees and pattern lists. The exactness corollaries use the C28 theorems
(`list_upward`, `list_child_sound`, `list_matched_child`) and carry their hypotheses
(`ValidLists`: validated patterns, oracle law G1).

An `enter p` event is `ensureDir` of the directory `p` (first pass), a `visit p` event is the
creation of the non-directory `p` after `ensureDir` of its parent; `leave p names` is the
`leaveDir` call of the second pass, where `--delete` removes unexpected entries.
-/
namespace Restic.Props.C20
open Restic.Model.Filter Restic.Model.Select Restic.Proofs.C20 Restic.Proofs.Select Restic.Props.C28

theorem take_ne_nil {p : List Str} {k : Nat} (h1 : 0 < k) (h2 : k < p.length) : p.take k ≠ [] := by
  intro h
  have hl : (p.take k).length = k := by rw [List.length_take]; omega
  rw [h] at hl; simp at hl; omega

/-! ## include patterns -/

/-- With include patterns, restore writes exactly the snapshot items (files, other nodes and
    directories alike) whose path matches a pattern list: the `childMayBeSelected` pruning never
    cuts off a matching item (C28 `list_child_sound`). -/
theorem include_exact (glob : Glob) (lists : List PatList) (hv : ValidLists glob lists)
    (root : List Node) (p : List Str) (d f : Bool) :
    (∃ ev ∈ (trList (selectInclude glob lists) [] root).1, evItem ev = some (p, d, f)) ↔
      (HasItem [] root p d f ∧ (selectInclude glob lists p d).1 = true) := by
  rw [tr_list_item]
  constructor
  · rintro ⟨h1, h2, _⟩; exact ⟨h1, h2⟩
  · rintro ⟨h1, h2⟩
    refine ⟨h1, h2, ?_⟩
    intro k hk1 hk2
    apply selectInclude_child_sound glob lists hv (p.take k) (p.drop k) (take_ne_nil hk1 hk2) d
    rw [List.take_append_drop]; exact h2

/-- every directory that exists after an include-restore into an empty target is an ancestor of
    (or is) a written matching item: `created` only contains prefixes of entered / visited paths -/
theorem created_iff (evs : List Ev) (q : List Str) :
    q ∈ created evs ↔ ∃ ev ∈ evs, ∃ p d f, evItem ev = some (p, d, f) ∧ ∃ k, k ≤ p.length ∧ q = p.take k := by
  unfold created
  simp only [List.mem_flatMap]
  constructor
  · rintro ⟨ev, hev, hq⟩
    cases ev with
    | enter p =>
      simp only [List.mem_map, List.mem_range] at hq
      rcases hq with ⟨k, hk, rfl⟩
      exact ⟨_, hev, p, true, false, rfl, k, by omega, rfl⟩
    | visit p f =>
      simp only [List.mem_map, List.mem_range] at hq
      rcases hq with ⟨k, hk, rfl⟩
      exact ⟨_, hev, p, false, f, rfl, k, by omega, rfl⟩
    | leave p e => simp at hq
  · rintro ⟨ev, hev, p, d, f, hi, k, hk, rfl⟩
    refine ⟨ev, hev, ?_⟩
    cases ev with
    | enter p' =>
      simp only [evItem, Option.some.injEq, Prod.mk.injEq] at hi
      rcases hi with ⟨rfl, _, _⟩
      simp only [List.mem_map, List.mem_range]
      exact ⟨k, by omega, rfl⟩
    | visit p' f' =>
      simp only [evItem, Option.some.injEq, Prod.mk.injEq] at hi
      rcases hi with ⟨rfl, _, _⟩
      simp only [List.mem_map, List.mem_range]
      exact ⟨k, by omega, rfl⟩
    | leave p' e => simp [evItem] at hi

/-- a directory selected by include patterns is always traversed, so `leaveDir` never receives a
    nil name list for it (which would make `--delete` treat every entry as unexpected) -/
theorem include_leave_has_names (glob : Glob) (lists : List PatList) (hv : ValidLists glob lists)
    (root : List Node) (p : List Str) (exp : Option (List Str))
    (h : Ev.leave p exp ∈ (trList (selectInclude glob lists) [] root).1)
    (hsel : (selectInclude glob lists p true).1 = true) : ∃ names, exp = some names := by
  have := tr_list_leave (selectInclude glob lists) [] root p exp h
  exact this.2.2.2 (selectInclude_matched_child glob lists hv p hsel)

/-! ## exclude patterns -/

theorem selectExclude_fst (glob : Glob) (lists : List PatList) (p : List Str) (d : Bool) :
    (selectExclude glob lists p d).1 = exSelect glob lists p := rfl

theorem selectExclude_snd (glob : Glob) (lists : List PatList) (p : List Str) :
    (selectExclude glob lists p true).2 = exSelect glob lists p := by
  simp [selectExclude]

/-- General form (negated patterns allowed): an item is written iff neither it nor a directory
    above it matches the exclude lists. -/
theorem exclude_general (glob : Glob) (lists : List PatList) (root : List Node) (p : List Str) (d f : Bool) :
    (∃ ev ∈ (trList (selectExclude glob lists) [] root).1, evItem ev = some (p, d, f)) ↔
      (HasItem [] root p d f ∧ exSelect glob lists p = true ∧
        ∀ k, 0 < k → k < p.length → exSelect glob lists (p.take k) = true) := by
  rw [tr_list_item]
  unfold ChainT
  simp only [selectExclude_fst, selectExclude_snd, List.length_nil]

/-- Without negated patterns restore writes exactly the items that match no pattern: a match on a
    directory covers its contents (C28 `list_upward`), so pruning at excluded directories loses
    nothing that should be written and an unmatched item has no excluded ancestor. -/
theorem exclude_exact (glob : Glob) (lists : List PatList) (hv : ValidLists glob lists) (hn : NoNeg lists)
    (root : List Node) (p : List Str) (d f : Bool) :
    (∃ ev ∈ (trList (selectExclude glob lists) [] root).1, evItem ev = some (p, d, f)) ↔
      (HasItem [] root p d f ∧ exSelect glob lists p = true) := by
  rw [exclude_general]
  constructor
  · rintro ⟨h1, h2, _⟩; exact ⟨h1, h2⟩
  · rintro ⟨h1, h2⟩
    refine ⟨h1, h2, ?_⟩
    intro k hk1 hk2
    cases hex : exSelect glob lists (p.take k) with
    | true => rfl
    | false =>
      have := exSelect_upward glob lists hv hn (p.take k) (p.drop k) (take_ne_nil hk1 hk2) hex
      rw [List.take_append_drop] at this
      rw [this] at h2; cases h2

/-! ## `--delete` -/

/-- membership in `deletedTops`, spelled out -/
theorem deletedTops_iff (sel : List Str → Bool → Bool × Bool) (evs : List Ev) (pre : List (List Str))
    (e : List Str) :
    e ∈ deletedTops sel evs pre ↔
      ∃ p exp, Ev.leave p exp ∈ evs ∧ e ∈ pre ∧ e.length = p.length + 1 ∧ isPrefix p e = true ∧
        (exp.getD []).contains (e.getLast?.getD []) = false ∧ (sel e false).1 = true := by
  unfold deletedTops
  simp only [List.mem_flatMap]
  constructor
  · rintro ⟨ev, hev, he⟩
    cases ev with
    | leave p exp =>
      simp only [List.mem_filter, Bool.and_eq_true, decide_eq_true_eq, Bool.not_eq_true'] at he
      exact ⟨p, exp, hev, he.1, he.2.1.1.1, he.2.1.1.2, he.2.1.2, he.2.2⟩
    | enter p => simp at he
    | visit p f => simp at he
  · rintro ⟨p, exp, hev, h1, h2, h3, h4, h5⟩
    refine ⟨_, hev, ?_⟩
    simp only [List.mem_filter, Bool.and_eq_true, decide_eq_true_eq, Bool.not_eq_true']
    exact ⟨h1, ⟨⟨h2, h3⟩, h4⟩, h5⟩

/-- FULL STATEMENT of the `--delete` part (NOT provable for the current code, see the negation
    witness below and finding C20:delete:selected-stale-entry-survives): every pre-existing entry
    directly inside a snapshot directory that the traversal reaches, which is not in that
    directory's listing and is selected, is removed. -/
def DeleteExactFull (sel : List Str → Bool → Bool × Bool) (root : List Node) (pre : List (List Str)) : Prop :=
  ∀ e ∈ pre, ∀ parent, e.length = parent.length + 1 → isPrefix parent e = true →
    (parent = [] ∨ HasItem [] root parent true false) → ChainT sel 0 e →
    (∀ c ∈ entries [] root, c.path ≠ e) → (sel e false).1 = true →
      e ∈ deletedTops sel (traverse sel root) pre

/-- PROVED PART (`_partial`): only what should be removed is removed — a removed entry existed
    before, lies directly inside a snapshot directory reached by the traversal (or the root) whose
    `leaveDir` ran, is not named in that directory's listing, and is selected. What is missing for
    the full statement is the converse in directories where nothing was restored. -/
theorem delete_exact_partial (sel : List Str → Bool → Bool × Bool) (root : List Node)
    (pre : List (List Str)) (e : List Str) (h : e ∈ deletedTops sel (traverse sel root) pre) :
    e ∈ pre ∧ (sel e false).1 = true ∧
      ∃ parent exp, e.length = parent.length + 1 ∧ isPrefix parent e = true ∧
        (parent = [] ∨ (HasItem [] root parent true false ∧ ChainT sel 0 parent)) ∧
        Ev.leave parent exp ∈ traverse sel root ∧
        (exp.getD []).contains (e.getLast?.getD []) = false := by
  rcases (deletedTops_iff sel _ pre e).mp h with ⟨p, exp, hev, h1, h2, h3, h4, h5⟩
  refine ⟨h1, h5, p, exp, h2, h3, ?_, hev, h4⟩
  unfold traverse at hev
  generalize htr : trList sel [] root = r at hev
  obtain ⟨evs, hr⟩ := r
  simp only [List.mem_append, List.mem_cons, List.not_mem_nil, or_false] at hev
  rcases hev with (hev | hev) | hev
  · cases hev
  · have := tr_list_leave sel [] root p exp (by rw [htr]; exact hev)
    exact Or.inr ⟨this.1, this.2.1⟩
  · split at hev
    · simp only [List.mem_singleton, Ev.leave.injEq] at hev
      exact Or.inl hev.1
    · simp at hev

/-! ## tie T1: shape of the transcribed functions -/

theorem source_shape :
    Restic.Gen.restorer_traverseTreeInner_calls.filter
        (fun c => c = "res.SelectFilter" || c = "visitor.enterDir" || c = "res.traverseTreeInner" ||
          c = "visitor.leaveDir" || c = "visitor.visitNode") =
      ["res.SelectFilter", "visitor.enterDir", "res.traverseTreeInner", "visitor.leaveDir", "visitor.visitNode"] ∧
    Restic.Gen.restorer_removeUnexpectedFiles_calls.filter
        (fun c => c = "fs.Readdirnames" || c = "res.SelectFilter" || c = "fs.RemoveAll") =
      ["fs.Readdirnames", "res.SelectFilter", "fs.RemoveAll"] := by
  decide

/-! ## examples: non-vacuity and the negation witness for the full `--delete` statement -/

def exTree : List Node :=
  [.dir "a".toList [.file "z".toList 3], .dir "b".toList [.file "x1".toList 1], .file "x".toList 5]

def exLists (pats : List String) : List PatList :=
  [⟨false, pats.map fun s => match preparePattern id s.toList with | .ok p => p | _ => ⟨[], false⟩⟩]

def gl : Glob := fun p c => some (if p = ['*'] then decide ('/' ∉ c)
  else if p = "x*".toList then c.head? = some 'x' else p == c)

example : traverse (selectInclude gl (exLists ["x*"])) exTree =
    [.enter [], .visit ["b".toList, "x1".toList] true, .leave ["b".toList] (some ["x1".toList]),
     .visit ["x".toList] true, .leave [] (some ["a".toList, "b".toList, "x".toList])] := by decide

/-- the stale entry `b/xold` (selected, not in the snapshot) is removed … -/
example : deletedTops (selectInclude gl (exLists ["x*"])) (traverse (selectInclude gl (exLists ["x*"])) exTree)
    [["a".toList, "xold".toList], ["b".toList, "xold".toList]] = [["b".toList, "xold".toList]] := by decide

/-- … but the equally selected stale entry `a/xold` survives, because nothing below `a` is
    restored and `leaveDir` is therefore not called for `a`: the full statement is false. -/
example : ¬ DeleteExactFull (selectInclude gl (exLists ["x*"])) exTree
    [["a".toList, "xold".toList], ["b".toList, "xold".toList]] := by
  intro h
  have := h ["a".toList, "xold".toList] (by simp) ["a".toList] (by decide) (by decide)
    (Or.inr ⟨⟨["a".toList], true, false, 0⟩, by decide, rfl, rfl, rfl⟩)
    (by intro k h1 h2
        have hk : k = 1 := by simp at h2; omega
        subst hk; decide)
    (by decide) (by decide)
  revert this
  decide

example : specDeleteOK (selectInclude gl (exLists ["x*"])) exTree false
    [["a".toList, "xold".toList], ["b".toList, "xold".toList]]
    [[], ["b".toList], ["b".toList, "x1".toList], ["x".toList], ["a".toList, "xold".toList]] = true := by decide

example : specDeleteOK (selectInclude gl (exLists ["x*"])) exTree true
    [["a".toList, "xold".toList], ["b".toList, "xold".toList]]
    [[], ["b".toList], ["b".toList, "x1".toList], ["x".toList], ["a".toList, "xold".toList]] = false := by decide

end Restic.Props.C20
