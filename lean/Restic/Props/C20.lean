import Restic.Proofs.C20_Traverse
import Restic.Proofs.Select_Link
import Restic.Gen.Source
/-!
# C20 — Restore includes / excludes and `--delete` select exactly the matching paths

Theorems about the transcription of `selectIncludeFilter` / `selectExcludeFilter`
(cmd/restic/cmd_restore.go), the pruned traversal `traverseTreeInner` and
`removeUnexpectedFiles` (internal/restorer/restorer.go) in `Restic.Model.Select`, for ALL
snapshot trees and pattern lists. The exactness corollaries use the C28 theorems
(`list_upward`, `list_child_sound`, `list_matched_child`) and carry their hypotheses
(`ValidLists`: validated patterns, oracle law G1).

An `enter p` event is `ensureDir` of the directory `p` (first pass), a `visit p` event is the
creation of the non-directory `p` after `ensureDir` of its parent; `leave p names` is the
`leaveDir` call of the second pass, where `--delete` removes unexpected entries.
-/
namespace Restic.Props.C20
open Restic.Model.Filter Restic.Model.Select Restic.Proofs.C20 Restic.Proofs.Select Restic.Props.C28 Restic.Proofs.C28

theorem take_ne_nil {p : List Str} {k : Nat} (h1 : 0 < k) (h2 : k < p.length) : p.take k ≠ [] := by
  intro h
  have hl : (p.take k).length = k := by rw [List.length_take]; omega
  rw [h] at hl; simp at hl; omega

/-! ## include patterns -/

/-- With include patterns, restore writes exactly the snapshot items (files, other nodes and
    directories alike) whose path matches a pattern list: the `childMayBeSelected` pruning never
    cuts off a matching item (C28 `list_child_sound`). -/
theorem include_exact (glob : Glob) (lists : List PatList) (hv : ValidLists glob lists)
    (root : List Node) (p : List Str) (d f : Bool) :
    (∃ ev ∈ (trList (selectInclude glob lists) [] root).1, evItem ev = some (p, d, f)) ↔
      (HasItem [] root p d f ∧ (selectInclude glob lists p d).1 = true) := by
  rw [tr_list_item]
  constructor
  · rintro ⟨h1, h2, _⟩; exact ⟨h1, h2⟩
  · rintro ⟨h1, h2⟩
    refine ⟨h1, h2, ?_⟩
    intro k hk1 hk2
    apply selectInclude_child_sound glob lists hv (p.take k) (p.drop k) (take_ne_nil hk1 hk2) d
    rw [List.take_append_drop]; exact h2

/-- every directory that exists after an include-restore into an empty target is an ancestor of
    (or is) a written matching item: `created` only contains prefixes of entered / visited paths -/
theorem created_iff (evs : List Ev) (q : List Str) :
    q ∈ created evs ↔ ∃ ev ∈ evs, ∃ p d f, evItem ev = some (p, d, f) ∧ ∃ k, k ≤ p.length ∧ q = p.take k := by
  unfold created
  simp only [List.mem_flatMap]
  constructor
  · rintro ⟨ev, hev, hq⟩
    cases ev with
    | enter p =>
      simp only [List.mem_map, List.mem_range] at hq
      rcases hq with ⟨k, hk, rfl⟩
      exact ⟨_, hev, p, true, false, rfl, k, by omega, rfl⟩
    | visit p f =>
      simp only [List.mem_map, List.mem_range] at hq
      rcases hq with ⟨k, hk, rfl⟩
      exact ⟨_, hev, p, false, f, rfl, k, by omega, rfl⟩
    | leave p e => simp at hq
    | skipped p e => simp at hq
  · rintro ⟨ev, hev, p, d, f, hi, k, hk, rfl⟩
    refine ⟨ev, hev, ?_⟩
    cases ev with
    | enter p' =>
      simp only [evItem, Option.some.injEq, Prod.mk.injEq] at hi
      rcases hi with ⟨rfl, _, _⟩
      simp only [List.mem_map, List.mem_range]
      exact ⟨k, by omega, rfl⟩
    | visit p' f' =>
      simp only [evItem, Option.some.injEq, Prod.mk.injEq] at hi
      rcases hi with ⟨rfl, _, _⟩
      simp only [List.mem_map, List.mem_range]
      exact ⟨k, by omega, rfl⟩
    | leave p' e => simp [evItem] at hi
    | skipped p' e => simp [evItem] at hi

/-- a directory selected by include patterns is always traversed, so `leaveDir` never receives a
    nil name list for it (which would make `--delete` treat every entry as unexpected) -/
theorem include_leave_has_names (glob : Glob) (lists : List PatList) (hv : ValidLists glob lists)
    (root : List Node) (p : List Str) (exp : Option (List Str))
    (h : Ev.leave p exp ∈ (trList (selectInclude glob lists) [] root).1)
    (hsel : (selectInclude glob lists p true).1 = true) : ∃ names, exp = some names := by
  have := tr_list_leave (selectInclude glob lists) [] root p exp h
  exact this.2.2.2.1 (selectInclude_matched_child glob lists hv p hsel)

/-! ## exclude patterns -/

theorem selectExclude_fst (glob : Glob) (lists : List PatList) (p : List Str) (d : Bool) :
    (selectExclude glob lists p d).1 = exSelect glob lists p := rfl

theorem selectExclude_snd (glob : Glob) (lists : List PatList) (p : List Str) :
    (selectExclude glob lists p true).2 = exSelect glob lists p := by
  simp [selectExclude]

/-- General form (negated patterns allowed): an item is written iff neither it nor a directory
    above it matches the exclude lists. -/
theorem exclude_general (glob : Glob) (lists : List PatList) (root : List Node) (p : List Str) (d f : Bool) :
    (∃ ev ∈ (trList (selectExclude glob lists) [] root).1, evItem ev = some (p, d, f)) ↔
      (HasItem [] root p d f ∧ exSelect glob lists p = true ∧
        ∀ k, 0 < k → k < p.length → exSelect glob lists (p.take k) = true) := by
  rw [tr_list_item]
  unfold ChainT
  simp only [selectExclude_fst, selectExclude_snd, List.length_nil]

/-- Without negated patterns restore writes exactly the items that match no pattern: a match on a
    directory covers its contents (C28 `list_upward`), so pruning at excluded directories loses
    nothing that should be written and an unmatched item has no excluded ancestor. -/
theorem exclude_exact (glob : Glob) (lists : List PatList) (hv : ValidLists glob lists) (hn : NoNeg lists)
    (root : List Node) (p : List Str) (d f : Bool) :
    (∃ ev ∈ (trList (selectExclude glob lists) [] root).1, evItem ev = some (p, d, f)) ↔
      (HasItem [] root p d f ∧ exSelect glob lists p = true) := by
  rw [exclude_general]
  constructor
  · rintro ⟨h1, h2, _⟩; exact ⟨h1, h2⟩
  · rintro ⟨h1, h2⟩
    refine ⟨h1, h2, ?_⟩
    intro k hk1 hk2
    cases hex : exSelect glob lists (p.take k) with
    | true => rfl
    | false =>
      have := exSelect_upward glob lists hv hn (p.take k) (p.drop k) (take_ne_nil hk1 hk2) hex
      rw [List.take_append_drop] at this
      rw [this] at h2; cases h2

/-! ## `--delete` -/

/-- membership in `deletedTops`, spelled out: `removeUnexpectedFiles` ran for the parent directory
    (from `leaveDir` or `skippedDir`), the entry existed, is not named in the snapshot listing of
    that directory and is selected -/
theorem deletedTops_iff (sel : List Str → Bool → Bool × Bool) (evs : List Ev) (pre : List (List Str))
    (e : List Str) :
    e ∈ deletedTops sel evs pre ↔
      ∃ ev ∈ evs, ∃ p exp, delDir ev = some (p, exp) ∧ e ∈ pre ∧ e.length = p.length + 1 ∧
        isPrefix p e = true ∧ (exp.getD []).contains (e.getLast?.getD []) = false ∧ (sel e false).1 = true := by
  unfold deletedTops
  simp only [List.mem_flatMap]
  constructor
  · rintro ⟨ev, hev, he⟩
    cases hd : delDir ev with
    | none => rw [hd] at he; simp at he
    | some pe =>
      obtain ⟨p, exp⟩ := pe
      rw [hd] at he
      simp only [List.mem_filter, Bool.and_eq_true, decide_eq_true_eq, Bool.not_eq_true'] at he
      exact ⟨ev, hev, p, exp, hd, he.1, he.2.1.1.1, he.2.1.1.2, he.2.1.2, he.2.2⟩
  · rintro ⟨ev, hev, p, exp, hd, h1, h2, h3, h4, h5⟩
    refine ⟨ev, hev, ?_⟩
    rw [hd]
    simp only [List.mem_filter, Bool.and_eq_true, decide_eq_true_eq, Bool.not_eq_true']
    exact ⟨h1, ⟨⟨h2, h3⟩, h4⟩, h5⟩

/-- completeness of `--delete` for a list of visitor events: every pre-existing entry directly
    inside a snapshot directory that the traversal reaches (the root included), which is not named
    in that directory's listing and is selected, is removed -/
def DeleteComplete (sel : List Str → Bool → Bool × Bool) (root : List Node) (evs : List Ev)
    (pre : List (List Str)) : Prop :=
  ∀ parent ns, (parent, ns) ∈ dirListings root →
    (∀ k, 0 < k → k ≤ parent.length → (sel (parent.take k) true).2 = true) →
    ∀ e ∈ pre, e.length = parent.length + 1 → isPrefix parent e = true →
      ns.contains (e.getLast?.getD []) = false → (sel e false).1 = true →
        e ∈ deletedTops sel evs pre

/-- FULL STRENGTH, completeness half (holds since the fix `skippedDir`, finding
    C20:delete:selected-stale-entry-survives…; false before, see the negation witness below). -/
theorem delete_complete (sel : List Str → Bool → Bool × Bool) (root : List Node) (pre : List (List Str)) :
    DeleteComplete sel root (traverse sel root) pre := by
  intro parent ns hmem hchain e he hlen hpre hns hsel
  rw [deletedTops_iff]
  unfold dirListings at hmem
  unfold traverse
  generalize htr : trList sel [] root = r
  obtain ⟨evs, hr⟩ := r
  simp only
  rcases List.mem_cons.mp hmem with h | h
  · -- the root directory
    simp only [Prod.mk.injEq] at h
    rcases h with ⟨rfl, rfl⟩
    by_cases hh : hr = true
    · exact ⟨Ev.leave [] (some (root.map Node.name)), by simp [hh], [], _, rfl, he, hlen, hpre, hns, hsel⟩
    · exact ⟨Ev.skipped [] (some (root.map Node.name)), by simp [hh], [], _, rfl, he, hlen, hpre, hns, hsel⟩
  · have hc : ChainT sel ([] : List Str).length parent := by
      intro k h1 h2
      exact hchain k (by simpa using h1) (by omega)
    have hs : (sel parent true).2 = true := by
      rcases dirListings_prefix [] root parent ns h with ⟨n, rest, hr'⟩
      have := hchain parent.length (by rw [hr']; simp) (Nat.le_refl _)
      rw [List.take_length] at this
      exact this
    rcases tr_list_deldir sel [] root parent ns h hc hs with ⟨ev, hev, hd⟩
    rw [htr] at hev
    exact ⟨ev, by simp only [List.mem_append]; exact Or.inl (Or.inr hev), parent, _, hd, he, hlen, hpre, hns, hsel⟩

/-- soundness half: only what should be removed is removed — a removed entry existed before, is
    selected, and lies directly inside a snapshot directory whose tree was handed to
    `removeUnexpectedFiles` with a name list that does not contain the entry's name -/
theorem delete_sound (sel : List Str → Bool → Bool × Bool) (root : List Node)
    (pre : List (List Str)) (e : List Str) (h : e ∈ deletedTops sel (traverse sel root) pre) :
    e ∈ pre ∧ (sel e false).1 = true ∧
      ∃ (parent : List Str) (exp : Option (List Str)), e.length = parent.length + 1 ∧
        isPrefix parent e = true ∧ (exp.getD []).contains (e.getLast?.getD []) = false := by
  rcases (deletedTops_iff sel _ pre e).mp h with ⟨ev, _, p, exp, _, h1, h2, h3, h4, h5⟩
  exact ⟨h1, h5, p, exp, h2, h3, h4⟩

/-- with include patterns no reachability hypothesis is needed: a selected stale entry directly
    inside ANY directory of the snapshot is removed (a match below a directory makes every
    directory above it traversable, C28 `list_child_sound`) -/
theorem include_delete_complete (glob : Glob) (lists : List PatList) (hv : ValidLists glob lists)
    (root : List Node) (pre : List (List Str)) (parent ns : List Str)
    (hmem : (parent, ns) ∈ dirListings root) (e : List Str) (he : e ∈ pre)
    (hlen : e.length = parent.length + 1) (hpre : isPrefix parent e = true)
    (hns : ns.contains (e.getLast?.getD []) = false)
    (hsel : (selectInclude glob lists e false).1 = true) :
    e ∈ deletedTops (selectInclude glob lists) (traverse (selectInclude glob lists) root) pre := by
  apply delete_complete (selectInclude glob lists) root pre parent ns hmem _ e he hlen hpre hns hsel
  intro k hk1 hk2
  have hpe : e.take parent.length = parent := by
    simp only [isPrefix, Bool.and_eq_true, decide_eq_true_eq, beq_iff_eq] at hpre
    exact hpre.2
  have hk : parent.take k = e.take k := by
    rw [← hpe, List.take_take]
    congr 1; omega
  rw [hk]
  apply selectInclude_child_sound glob lists hv (e.take k) (e.drop k) _ false
  · rw [List.take_append_drop]; exact hsel
  · intro h
    have hl : (e.take k).length = k := by rw [List.length_take]; omega
    rw [h] at hl; simp at hl; omega

/-- `--delete` never removes an entry that bears the name of ANY node of the snapshot directory
    it lies in — unselected nodes and sockets (which restore cannot recreate) included: the name
    list handed to `removeUnexpectedFiles` is the full listing of the snapshot directory.
    (`hsel`: a selected directory is traversed — true for exclude filters by definition and for
    validated include filters by `selectInclude_matched_child`.) -/
theorem delete_keeps_listed_names (sel : List Str → Bool → Bool × Bool) (root : List Node)
    (hsel : ∀ p, (sel p true).1 = true → (sel p true).2 = true)
    (pre : List (List Str)) (e : List Str) (h : e ∈ deletedTops sel (traverse sel root) pre) :
    ∃ parent ns, (parent, ns) ∈ dirListings root ∧ e.length = parent.length + 1 ∧
      isPrefix parent e = true ∧ ns.contains (e.getLast?.getD []) = false := by
  rcases (deletedTops_iff sel _ pre e).mp h with ⟨ev, hev, p, exp, hd, _, h2, h3, h4, _⟩
  unfold traverse at hev
  generalize htr : trList sel [] root = r at hev
  obtain ⟨evs, hr⟩ := r
  simp only [List.mem_append, List.mem_cons, List.not_mem_nil, or_false] at hev
  rcases hev with (hev | hev) | hev
  · subst hev; simp [delDir] at hd
  · -- a directory below the root
    have hev' : ev ∈ (trList sel [] root).1 := by rw [htr]; exact hev
    cases hexp : exp with
    | some ns =>
      rw [hexp] at hd h4
      have := tr_list_deldir_names sel [] root ev p ns hev' hd
      exact ⟨p, ns, List.mem_cons_of_mem _ this, h2, h3, h4⟩
    | none =>
      -- a nil name list only reaches `leaveDir` for a selected directory that was not traversed
      exfalso
      rw [hexp] at hd
      cases ev with
      | leave p' e' =>
        simp only [delDir, Option.some.injEq, Prod.mk.injEq] at hd
        rcases hd with ⟨rfl, rfl⟩
        have hl := tr_list_leave sel [] root p' none hev'
        have h1 := hl.2.2.2.2 rfl
        rcases hl.2.2.2.1 (hsel p' h1) with ⟨ns, hns⟩
        cases hns
      | skipped p' e' =>
        simp only [delDir, Option.some.injEq, Prod.mk.injEq] at hd
        rcases hd with ⟨rfl, rfl⟩
        -- `skippedDir` is only called for traversed directories, which always have a name list
        exact absurd hev' (skipped_none_notin sel [] root p')
      | enter p' => simp [delDir] at hd
      | visit p' f' => simp [delDir] at hd
  · split at hev
    · simp only [List.mem_singleton] at hev; subst hev
      simp only [delDir, Option.some.injEq, Prod.mk.injEq] at hd
      rcases hd with ⟨rfl, rfl⟩
      exact ⟨[], _, List.mem_cons_self, h2, h3, h4⟩
    · simp only [List.mem_singleton] at hev; subst hev
      simp only [delDir, Option.some.injEq, Prod.mk.injEq] at hd
      rcases hd with ⟨rfl, rfl⟩
      exact ⟨[], _, List.mem_cons_self, h2, h3, h4⟩

/-! ## option collection (`CollectPatterns`) -/

theorem validateAll_parsed (clean : Str → Str) (glob : Glob) (hg : G1 glob) (h3 : G3 glob) (raw : List Str)
    (h : validateAll clean glob raw = true) : ValidPats glob (parsedOr clean raw) := by
  unfold validateAll at h
  unfold parsedOr
  cases hp : parsePatterns clean raw with
  | ok ps =>
    rw [hp] at h
    simp only at h ⊢
    rw [List.all_eq_true] at h
    exact ⟨hg, fun p hpm => noErr_of_valid glob h3 p (h p hpm), parsePatterns_parts_ne clean raw ps hp⟩
  | err e => rw [hp] at h; cases h
  | panic => rw [hp] at h; cases h
  | fuel => rw [hp] at h; cases h

/-- what `CollectPatterns` hands to the command: every case-sensitive list is validated (so the
    C28 theorems apply to it) and consists of the flag values followed by the lines of the
    case-sensitive pattern files; the case-insensitive list consists of the lower-cased flag values
    followed by the lower-cased lines of the case-insensitive pattern files -/
theorem collect_spec (clean : Str → Str) (glob : Glob) (hg : G1 glob) (h3 : G3 glob)
    (o : PatternOpts) (lists : List PatList) (h : collectPatterns clean glob o = some lists) :
    ∀ l ∈ lists,
      (l.insensitive = false → ValidPats glob l.pats ∧ l.pats = parsedOr clean o.sens) ∧
      (l.insensitive = true → l.pats = parsedOr clean (o.insens.map lowerStr)) := by
  unfold collectPatterns at h
  by_cases c1 : (!o.files.isEmpty && !validateAll clean glob (readPatternLines o.files)) = true
  · rw [if_pos c1] at h; cases h
  rw [if_neg c1] at h
  by_cases c2 : (!o.ifiles.isEmpty && !validateAll clean glob (readPatternLines o.ifiles)) = true
  · rw [if_pos c2] at h; cases h
  rw [if_neg c2] at h
  by_cases c3 : (!o.insens.isEmpty && !validateAll clean glob o.insens) = true
  · rw [if_pos c3] at h; cases h
  rw [if_neg c3] at h
  by_cases c4 : (!o.sens.isEmpty && !validateAll clean glob o.sens) = true
  · rw [if_pos c4] at h; cases h
  rw [if_neg c4] at h
  simp only [Option.some.injEq] at h
  subst h
  intro l hl
  simp only [List.mem_append] at hl
  rcases hl with hl | hl
  · by_cases hi : o.insens.isEmpty = true
    · rw [if_pos hi] at hl; simp at hl
    · rw [if_neg hi] at hl
      simp only [List.mem_singleton] at hl; subst hl
      exact ⟨fun h => by simp at h, fun _ => rfl⟩
  · by_cases hs : o.sens.isEmpty = true
    · rw [if_pos hs] at hl; simp at hl
    · rw [if_neg hs] at hl
      simp only [List.mem_singleton] at hl; subst hl
      refine ⟨fun _ => ⟨?_, rfl⟩, fun h => by simp at h⟩
      apply validateAll_parsed clean glob hg h3
      cases hv : validateAll clean glob o.sens with
      | true => rfl
      | false =>
        exfalso; apply c4
        have : o.sens.isEmpty = false := by simpa using hs
        simp [this, hv]

/-! ## tie T1: shape of the transcribed functions -/

theorem source_shape :
    Restic.Gen.restorer_traverseTreeInner_calls.filter
        (fun c => c = "res.SelectFilter" || c = "visitor.enterDir" || c = "res.traverseTreeInner" ||
          c = "visitor.leaveDir" || c = "visitor.visitNode") =
      ["res.SelectFilter", "visitor.enterDir", "res.traverseTreeInner", "visitor.leaveDir", "visitor.visitNode"] ∧
    Restic.Gen.restorer_removeUnexpectedFiles_calls.filter
        (fun c => c = "fs.Readdirnames" || c = "res.SelectFilter" || c = "fs.RemoveAll") =
      ["fs.Readdirnames", "res.SelectFilter", "fs.RemoveAll"] := by
  decide

/-! ## examples: non-vacuity and the negation witness for the full `--delete` statement -/

def exTree : List Node :=
  [.dir "a".toList [.file "z".toList 3], .dir "b".toList [.file "x1".toList 1], .file "x".toList 5]

def exLists (pats : List String) : List PatList :=
  [⟨false, pats.map fun s => match preparePattern id s.toList with | .ok p => p | _ => ⟨[], false⟩⟩]

def gl : Glob := fun p c => some (if p = ['*'] then decide ('/' ∉ c)
  else if p = "x*".toList then c.head? = some 'x' else p == c)

example : traverse (selectInclude gl (exLists ["x*"])) exTree =
    [.enter [], .skipped ["a".toList] (some ["z".toList]),
     .visit ["b".toList, "x1".toList] true, .leave ["b".toList] (some ["x1".toList]),
     .visit ["x".toList] true, .leave [] (some ["a".toList, "b".toList, "x".toList])] := by decide

/-- both stale selected entries are removed … -/
example : deletedTops (selectInclude gl (exLists ["x*"])) (traverse (selectInclude gl (exLists ["x*"])) exTree)
    [["a".toList, "xold".toList], ["b".toList, "xold".toList]] =
      [["a".toList, "xold".toList], ["b".toList, "xold".toList]] := by decide

/-- … whereas before the fix `a/xold` survived, because nothing below `a` is restored and
    `leaveDir` is not called for `a`: completeness was false (negation witness, replayed on the
    real code by the harness: `restore --include X.TXT --delete`). -/
example : ¬ DeleteComplete (selectInclude gl (exLists ["x*"])) exTree
    (traverseOld (selectInclude gl (exLists ["x*"])) exTree)
    [["a".toList, "xold".toList], ["b".toList, "xold".toList]] := by
  intro h
  have := h ["a".toList] ["z".toList] (by decide)
    (by intro k h1 h2
        have hk : k = 1 := by simp at h2; omega
        subst hk; decide)
    ["a".toList, "xold".toList] (by simp) (by decide) (by decide) (by decide) (by decide)
  revert this
  decide

example : specDeleteOK (selectInclude gl (exLists ["x*"])) exTree true
    [["a".toList, "xold".toList], ["b".toList, "xold".toList]]
    [[], ["b".toList], ["b".toList, "x1".toList], ["x".toList]] = true := by decide

example : specDeleteOK (selectInclude gl (exLists ["x*"])) exTree true
    [["a".toList, "xold".toList], ["b".toList, "xold".toList]]
    [[], ["b".toList], ["b".toList, "x1".toList], ["x".toList], ["a".toList, "xold".toList]] = false := by decide

end Restic.Props.C20
