import Restic.Proofs.RepoTrace
import Restic.Gen.Source
/-!
# C14 — Readers never see a snapshot whose data is not yet indexed

Statement (properties.jsonl): with any number of concurrent non-exclusive writers, a reading
command never fails because a snapshot it listed references blobs missing from the index it
loaded. Writers persist packs before the index entries naming them, and index entries before the
snapshots that use them.

Formal reading. All writers' backend operations, in the one global order in which the backend
executed them, form a trace `g`; every operation passes its guard in the *global* state reached
so far (`accept_global`; `interleave_accepted` shows that any interleaving of per-writer traces
that are accepted from their own view has this property). No exclusive lock holder runs, so
nothing is removed. A reader lists the snapshot files at time `t1` (after `t1` operations of `g`)
and lists + loads the index files at time `t2`.
 * `reader_sees_indexed`  if `t1 ≤ t2`, every blob in the closure of every snapshot listed at `t1`
                          is found in the index loaded at `t2`, backed by a pack that exists at `t2`
                          and at every later time `t3` at which the reader fetches it;
 * `reader_order`         (T1, regenerated) every reader command performs its snapshot listing
                          before `LoadIndex`: restore, dump, ls, find, diff, copy, check, stats,
                          rewrite, cat, list, recover, repair snapshots, backup (parent snapshot),
                          and the fuse snapshots directory (`updateSnapshots` reloads the index after
                          listing);
 * `order_needed`         the hypothesis `t1 ≤ t2` cannot be dropped (concrete counterexample).
-/
namespace Restic.Props.C14
open Restic.Model.RepoTrace Restic.Proofs.RepoTrace

/-- the loaded index (index files `ixs`, as listed at `t2`) names a pack for `h` that exists in `r` -/
def indexedBy (ixs : List (Nat × List IndexEntry)) (r : Repo) (h : Handle) : Bool :=
  ixs.any fun ix => ix.2.any fun e => e.2.any fun b => b.h == h && packHas r e.1 b

theorem indexed_eq_indexedBy (r : Repo) (h : Handle) : indexed r h = indexedBy r.indexes r h := rfl

theorem indexedBy_mono {ixs : List (Nat × List IndexEntry)} {r r' : Repo} (hs : SubPI r r') {h : Handle}
    (hx : indexedBy ixs r h = true) : indexedBy ixs r' h = true := by
  unfold indexedBy at *
  rw [List.any_eq_true] at *
  obtain ⟨ix, hix, h2⟩ := hx
  refine ⟨ix, hix, ?_⟩
  rw [List.any_eq_true] at *
  obtain ⟨e, he, h3⟩ := h2
  refine ⟨e, he, ?_⟩
  rw [List.any_eq_true] at *
  obtain ⟨b, hb, h4⟩ := h3
  refine ⟨b, hb, ?_⟩
  rw [Bool.and_eq_true] at *
  exact ⟨h4.1, packHas_mono hs h4.2⟩

theorem accept_global_take {r : Repo} {g : List Ev} (h : accept_global r g = true) (k : Nat) :
    acceptAdds r (g.take k) = true := acceptAdds_take h k

theorem acceptAdds_split {r : Repo} {a b : List Ev} (h : acceptAdds r (a ++ b) = true) :
    acceptAdds r a = true ∧ acceptAdds (applyAll r a) b = true := by
  induction a generalizing r with
  | nil => exact ⟨rfl, h⟩
  | cons e a ih =>
    simp only [List.cons_append, acceptAdds, Bool.and_eq_true] at h ⊢
    obtain ⟨h1, h2⟩ := ih h.2
    exact ⟨⟨h.1, h1⟩, by rw [applyAll_cons]; exact h2⟩

/-- states along an accepted global trace only grow -/
theorem global_monotone {r : Repo} {g : List Ev} (h : accept_global r g = true) {j k : Nat} (hjk : j ≤ k) :
    Sub (applyAll r (g.take j)) (applyAll r (g.take k)) := by
  have hk := accept_global_take h k
  have hsplit : g.take k = (g.take k).take j ++ (g.take k).drop j := (List.take_append_drop j _).symm
  rw [hsplit] at hk
  have h2 := (acceptAdds_split hk).2
  have htake : (g.take k).take j = g.take j := by rw [List.take_take, Nat.min_eq_left hjk]
  rw [htake] at h2
  have := (acceptAdds_safe h2).1
  rw [← applyAll_append, ← htake, List.take_append_drop] at this
  rw [← htake]
  exact this

/-- **C14**: for every interleaving of guarded writer operations, a reader that lists snapshots at
    `t1` and loads the index at `t2 ≥ t1` finds every blob of every listed snapshot in the loaded
    index, and the pack named there exists from `t2` on (`t3 ≥ t2`: when the blob is fetched). -/
theorem reader_sees_indexed (r0 : Repo) (g : List Ev) (hacc : accept_global r0 g = true)
    (hc : checkOK r0 = true) (t1 t2 t3 : Nat) (h12 : t1 ≤ t2) (h23 : t2 ≤ t3) :
    ∀ x ∈ (applyAll r0 (g.take t1)).snaps, ∀ h ∈ x.2.needs,
      indexedBy (applyAll r0 (g.take t2)).indexes (applyAll r0 (g.take t3)) h = true := by
  intro x hx h hh
  have hc1 : checkOK (applyAll r0 (g.take t1)) = true :=
    (acceptAdds_safe (accept_global_take hacc t1)).2 hc
  unfold checkOK snapsOK at hc1
  rw [Bool.and_eq_true, List.all_eq_true] at hc1
  have hres := hc1.2 x hx
  unfold restorable at hres
  rw [List.all_eq_true] at hres
  have h1 : indexed (applyAll r0 (g.take t1)) h = true := hres h hh
  have h2 : indexed (applyAll r0 (g.take t2)) h = true :=
    indexed_mono (global_monotone hacc h12).toSubPI h1
  rw [indexed_eq_indexedBy] at h2
  exact indexedBy_mono (global_monotone hacc h23).toSubPI h2

/-- the hypothesis `t1 ≤ t2` is needed: loading the index first and listing snapshots afterwards
    can show a snapshot whose tree is in no loaded index file (writer finished in between) -/
theorem order_needed : ∃ (r0 : Repo) (g : List Ev) (t1 t2 : Nat),
    accept_global r0 g = true ∧ checkOK r0 = true ∧ t2 < t1 ∧
    ∃ x ∈ (applyAll r0 (g.take t1)).snaps, ∃ h ∈ x.2.needs,
      indexedBy (applyAll r0 (g.take t2)).indexes (applyAll r0 (g.take t1)) h = false := by
  refine ⟨Repo.empty,
    [.savePack 1 [⟨1, 5, 0, 10⟩], .saveIndex 2 [(1, [⟨1, 5, 0, 10⟩])],
     .saveSnap 3 { key := 0, tree := 5, orig := none, needs := [(1, 5)] }], 3, 1, ?_, ?_, ?_, ?_⟩
  · decide
  · decide
  · decide
  · exact ⟨(3, { key := 0, tree := 5, orig := none, needs := [(1, 5)] }), by decide, (1, 5), by decide, by decide⟩

/-! ### Any interleaving of accepted writer traces is globally accepted -/

theorem apply_subPI_mono {a b : Repo} (h : SubPI a b) (e : Ev) (hk : keepsPI e = true) :
    SubPI (apply a e) (apply b e) := by
  cases e <;> simp [keepsPI] at hk <;> constructor <;> intro x hx <;>
    simp only [apply, List.mem_cons] at hx ⊢
  · rcases hx with rfl | hx
    · exact Or.inl rfl
    · exact Or.inr (h.packs x hx)
  · exact h.indexes x hx
  · exact h.packs x hx
  · rcases hx with rfl | hx
    · exact Or.inl rfl
    · exact Or.inr (h.indexes x hx)
  · exact h.packs x hx
  · exact h.indexes x hx
  · exact h.packs x hx
  · exact h.indexes x hx

theorem addGuard_mono {a b : Repo} (h : SubPI a b) {e : Ev} (hg : addGuard a e = true) :
    addGuard b e = true := by
  cases e with
  | savePack p bs => rfl
  | saveIndex i es =>
    simp only [addGuard] at *
    rw [List.all_eq_true] at *
    exact fun en hen => entryOK_mono h (hg en hen)
  | saveSnap s sn => exact restorable_mono h hg
  | removePack p => simp [addGuard] at hg
  | removeIndex p => simp [addGuard] at hg
  | removeSnap p => simp [addGuard] at hg

/-- a trace accepted from a smaller repository is accepted from a larger one (a writer that
    started later and saw more index files is covered by its own smaller view) -/
theorem acceptAdds_mono {a b : Repo} (h : SubPI a b) {tr : List Ev} (ha : acceptAdds a tr = true) :
    acceptAdds b tr = true := by
  induction tr generalizing a b with
  | nil => rfl
  | cons e tr ih =>
    simp only [acceptAdds, Bool.and_eq_true] at ha ⊢
    exact ⟨addGuard_mono h ha.1, ih (apply_subPI_mono h e (addGuard_keepsPI ha.1)) ha.2⟩

/-- operations of process `p` in a process-tagged global trace -/
def proj (p : Nat) (g : List (Nat × Ev)) : List Ev := (g.filter (fun x => x.1 == p)).map (·.2)

theorem interleave_aux (g : List (Nat × Ev)) (G : Repo) (L : Nat → Repo)
    (hsub : ∀ p, SubPI (L p) G) (hacc : ∀ p, acceptAdds (L p) (proj p g) = true) :
    acceptAdds G (g.map (·.2)) = true := by
  induction g generalizing G L with
  | nil => rfl
  | cons x g ih =>
    obtain ⟨p, e⟩ := x
    have hp := hacc p
    simp only [proj, List.filter_cons, beq_self_eq_true, if_true, List.map_cons, acceptAdds, Bool.and_eq_true] at hp
    have hgG : addGuard G e = true := addGuard_mono (hsub p) hp.1
    have hkeep := addGuard_keepsPI hp.1
    simp only [List.map_cons, acceptAdds, Bool.and_eq_true]
    refine ⟨hgG, ih (apply G e) (fun q => if q = p then apply (L p) e else L q) ?_ ?_⟩
    · intro q
      by_cases hq : q = p
      · simp only [hq, if_true]; exact apply_subPI_mono (hsub p) e hkeep
      · simp only [hq, if_false]; exact (hsub q).trans (apply_subPI G e hkeep)
    · intro q
      by_cases hq : q = p
      · simp only [hq, if_true]; exact hp.2
      · simp only [hq, if_false]
        have := hacc q
        have hne : ((p, e).1 == q) = false := by simpa using fun h => hq h.symm
        simpa [proj, List.filter_cons, hne] using this

/-- **any number of writers**: if each writer's own operation sequence is accepted from the
    initial repository, every interleaving of them is accepted globally -/
theorem interleave_accepted (r0 : Repo) (g : List (Nat × Ev))
    (h : ∀ p, acceptAdds r0 (proj p g) = true) : accept_global r0 (g.map (·.2)) = true :=
  interleave_aux g r0 (fun _ => r0) (fun _ => SubPI.refl r0) h

/-! ### T1: every reader lists snapshots before it loads the index -/

structure ReaderCmd where
  name : String
  calls : List String
  lister : String
  loader : String

def firstIdx (l : List String) (c : String) : Nat := l.idxOf c
def lastIdx (l : List String) (c : String) : Nat := l.length - 1 - l.reverse.idxOf c

/-- first listing before first index load, last listing before last index load, both present -/
def orderOK (c : ReaderCmd) : Bool :=
  c.calls.contains c.lister && c.calls.contains c.loader &&
  decide (firstIdx c.calls c.lister < firstIdx c.calls c.loader) &&
  decide (lastIdx c.calls c.lister < lastIdx c.calls c.loader)

def readerCommands : List ReaderCmd := [
  ⟨"restore", Restic.Gen.runRestore_calls, "opts.SnapshotFilter.FindLatest", "repo.LoadIndex"⟩,
  ⟨"dump", Restic.Gen.runDump_calls, "opts.SnapshotFilter.FindLatest", "repo.LoadIndex"⟩,
  ⟨"ls", Restic.Gen.runLs_calls, "restic.MemorizeList", "repo.LoadIndex"⟩,
  ⟨"find", Restic.Gen.runFind_calls, "restic.MemorizeList", "repo.LoadIndex"⟩,
  ⟨"diff", Restic.Gen.runDiff_calls, "restic.MemorizeList", "repo.LoadIndex"⟩,
  ⟨"copy", Restic.Gen.runCopy_calls, "restic.MemorizeList", "srcRepo.LoadIndex"⟩,
  ⟨"check", Restic.Gen.runCheck_calls, "chkr.LoadSnapshots", "chkr.LoadIndex"⟩,
  ⟨"stats", Restic.Gen.runStats_calls, "restic.MemorizeList", "repo.LoadIndex"⟩,
  ⟨"rewrite", Restic.Gen.runRewrite_calls, "restic.MemorizeList", "repo.LoadIndex"⟩,
  ⟨"cat", Restic.Gen.runCat_calls, "data.FindSnapshot", "repo.LoadIndex"⟩,
  ⟨"list", Restic.Gen.packfileList_calls, "?.FindLatest", "repo.LoadIndex"⟩,
  ⟨"recover", Restic.Gen.runRecover_calls, "restic.MemorizeList", "repo.LoadIndex"⟩,
  ⟨"repair snapshots", Restic.Gen.runRepairSnapshots_calls, "restic.MemorizeList", "repo.LoadIndex"⟩,
  ⟨"backup (parent)", Restic.Gen.runBackup_calls, "findParentSnapshot", "repo.LoadIndex"⟩,
  ⟨"mount (fuse snapshots dir)", Restic.Gen.fuse_updateSnapshots_calls, "d.root.cfg.Filter.FindAll", "d.root.repo.LoadIndex"⟩]

theorem reader_order : readerCommands.all orderOK = true := by decide

/-- the writer side of the statement, from the same regenerated facts: pack saved before its
    index entry is stored, packs flushed before the index, index flushed before the snapshot -/
theorem writer_order :
    Restic.Gen.savePacker_calls.idxOf "r.be.Save" < Restic.Gen.savePacker_calls.idxOf "r.idx.StorePack" ∧
    "r.idx.StorePack" ∈ Restic.Gen.savePacker_calls ∧
    Restic.Gen.Repository_flush_calls = ["r.flushBlobSaver", "r.flushPackUploader", "r.idx.Flush"] ∧
    Restic.Gen.Archiver_Snapshot_calls.idxOf "arch.Repo.WithBlobUploader"
      < Restic.Gen.Archiver_Snapshot_calls.idxOf "data.SaveSnapshot" ∧
    "data.SaveSnapshot" ∈ Restic.Gen.Archiver_Snapshot_calls := by decide

/-- `copy` as a writer: `copyTreeBatched` saves snapshots only after `WithBlobUploader` has
    returned (i.e. after the flush of packs and index) — no `copySaveSnapshot` inside the uploader
    callback (calls inside the callback end before the `WithBlobUploader` call expression ends). -/
theorem copy_snapshot_after_flush :
    (Restic.Gen.copyTreeBatched_calls.filter (· == "copySaveSnapshot")).length = 1 ∧
    Restic.Gen.copyTreeBatched_calls.idxOf "dstRepo.WithBlobUploader"
      < Restic.Gen.copyTreeBatched_calls.idxOf "copySaveSnapshot" ∧
    "dstRepo.WithBlobUploader" ∈ Restic.Gen.copyTreeBatched_calls := by decide

/-- the long-running reader: the exact call shape of fuse `updateSnapshots`. A flat call list
    cannot see a new condition around `LoadIndex`, so the whole shape is pinned: listing
    (`FindAll`), sort, hash, then `LoadIndex`, then `makeDirs` — any restructuring of this function
    stops this proof and sends the check into the search with the `fuse` correspondence stream. -/
theorem fuse_refresh_shape :
    Restic.Gen.fuse_updateSnapshots_calls =
      ["d.mutex.Lock", "d.mutex.Unlock", "time.Since", "append", "d.root.cfg.Filter.FindAll",
       "si.Time.Equal", "si.ID", "sj.ID", "bytes.Compare", "si.Time.Before", "sort.Slice", "sha256.New",
       "sn.ID", "h.Write", "h.Sum", "time.Now", "d.root.repo.LoadIndex", "time.Now", "d.makeDirs"] := by decide

example : refreshReloads [.listSnapshots, .other, .listIndex] = true := by decide
example : refreshReloads [.listIndex, .listSnapshots] = false := by decide

/-! ### Non-vacuity: two writers interleaved, a reader in between -/

def bA : Blob := ⟨1, 5, 0, 10⟩
def bB : Blob := ⟨1, 6, 0, 12⟩
def gEx : List (Nat × Ev) :=
  [(1, .savePack 1 [bA]), (2, .savePack 11 [bB]), (1, .saveIndex 2 [(1, [bA])]),
   (1, .saveSnap 3 { key := 0, tree := 5, orig := none, needs := [(1, 5)] }),
   (2, .saveIndex 12 [(11, [bB])]), (2, .saveSnap 13 { key := 1, tree := 6, orig := none, needs := [(1, 6)] })]

example : ∀ p ∈ [0, 1, 2, 3], acceptAdds Repo.empty (proj p gEx) = true := by decide
example : accept_global Repo.empty (gEx.map (·.2)) = true := by decide
-- listing at t1 = 4 sees snapshot 3; the index loaded at t2 = 4 has its tree
example : (applyAll Repo.empty ((gEx.map (·.2)).take 4)).snaps.length = 1 := by decide
example : indexedBy (applyAll Repo.empty ((gEx.map (·.2)).take 4)).indexes
    (applyAll Repo.empty ((gEx.map (·.2)).take 6)) (1, 5) = true := by decide

end Restic.Props.C14
