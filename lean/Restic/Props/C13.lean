import Restic.Model.LockRefresh
import Restic.Props.C12
import Restic.Gen.Source
import Restic.Gen.Consts
/-!
# C13 — Lock holders stop before their lock can be considered stale

Theorems about `Restic.Model.LockRefresh` (the two goroutines `refreshLocks` / `monitorLockRefresh`
with their unbuffered channels, forced refresh under `Freeze`, lock-file removal by others, standby,
unlock) for all schedules, plus the refresh-without-gap statement proved on the C12 model.
-/
namespace Restic.Props.C13
open Restic.Model.LockRefresh

/-- invariant of the non-cancelled holder (protocol with the fixed monitor select) -/
structure InvB (P : Params) (s : St) : Prop where
  a1 : s.opStart ≤ s.now
  a2 : s.monAt ≤ s.now
  a3 : s.fileTime ≤ s.now
  a4 : s.lastM ≤ s.now
  a5 : s.newTime ≤ s.now
  /-- the monitor's stamp is at most `D` after the stamp of the newest file (or after a wake-up) -/
  b : s.lastM ≤ s.fileTime + P.D ∨ s.lastM ≤ s.wake + P.D
  c1 : s.rl = .refreshing ∨ s.rl = .forced1 ∨ s.rl = .forced2 ∨ s.rl = .notifying ∨ s.rl = .reporting true →
        s.now ≤ s.opStart + P.D
  d1 : s.rl = .refreshing → (s.newTime = s.opStart ∨ s.opStart ≤ s.wake) ∧ s.fileTime ≤ s.newTime
  d2 : s.rl = .notifying → (s.fileTime = s.opStart ∨ s.opStart ≤ s.wake)
  d3 : s.rl = .forced2 → (s.opStart ≤ s.newTime ∨ s.opStart ≤ s.wake) ∧ s.fileTime ≤ s.newTime
  d4 : s.rl = .reporting true → (s.opStart ≤ s.fileTime ∨ s.opStart ≤ s.wake)
  e1 : s.mon = .waiting ↔ (s.rl = .forced1 ∨ s.rl = .forced2 ∨ s.rl = .reporting true)
  e2 : s.mon ≠ .done
  e3 : s.rl ≠ .done ∧ s.rl ≠ .reporting false
  f : s.rl = .forced1 ∨ s.rl = .forced2 → s.frozen = true
  g : s.mon = .idle → s.now ≤ s.lastM + P.R + P.p ∨ s.now ≤ s.wake + P.p
  h : s.mon = .requesting → s.monAt ≤ s.lastM + P.R + P.p ∨ s.monAt ≤ s.wake + P.p
  i : s.mon = .requesting → s.rl = .refreshing ∨ s.rl = .notifying → s.opStart ≤ s.monAt
  j : s.mon = .requesting → s.rl = .idle → s.now ≤ s.monAt + P.D

def Inv (P : Params) (s : St) : Prop := s.cancelled = true ∨ InvB P s

theorem init_inv (P : Params) (t0 t1 : Nat) (h0 : t0 ≤ t1) (h1 : t1 ≤ t0 + P.D) : Inv P (init t0 t1) := by
  right
  constructor <;> simp [init] <;> omega

/-- a cancelled context stays cancelled -/
theorem step_cancelled (P : Params) (s s' : St) (a : Act) (st : step P s a = some s')
    (hc : s.cancelled = true) : s'.cancelled = true := by
  cases a <;> simp only [step] at st <;> (repeat' split at st) <;>
    first | (cases st; done) | (cases st; simp_all)

set_option maxHeartbeats 1000000 in
theorem step_invB (P : Params) (hfix : P.fixed = true) (s s' : St) (a : Act) (h : InvB P s)
    (hc' : s'.cancelled = false) (st : step P s a = some s') : InvB P s' := by
  obtain ⟨a1, a2, a3, a4, a5, b, c1, d1, d2, d3, d4, e1, e2, e3, f, g, h, i, j⟩ := h
  cases a with
  | tick =>
    simp only [step] at st
    split at st
    · rename_i hg
      simp only [mayTick, notifyEnabled, Bool.and_eq_true, Bool.or_eq_true, Bool.not_eq_true',
        decide_eq_true_eq, beq_eq_false_iff_ne, ne_eq, Bool.and_eq_false_iff,
        Bool.or_eq_false_iff, Bool.and_true, hfix] at hg
      cases st
      cases hmon : s.mon <;> constructor <;> grind
    · cases st
  | notify =>
    simp only [step] at st
    split at st
    · rename_i hg
      simp only [notifyEnabled, Bool.and_eq_true, Bool.or_eq_true, beq_iff_eq, hfix] at hg
      split at st <;> (cases st; constructor <;> grind)
    · cases st
  | standby k =>
    simp only [step] at st
    cases st
    constructor <;> grind
  | removeByOther => simp only [step] at st; cases st; constructor <;> grind
  | unlock => simp only [step] at st; cases st; simp at hc'
  | rlStartRefresh | rlRefreshOk | rlRefreshHalf | rlRefreshFail | monPollDue | rlRecvForce | forceCreate
  | forceAdopt | forceFail | rlExit | monExit =>
    simp only [step] at st
    split at st
    · cases st
      first | (simp at hc'; done) | (constructor <;> grind)
    · cases st
  | report =>
    simp only [step] at st
    split at st
    · split at st
      · cases st; constructor <;> grind
      · cases st; simp at hc'
      · cases st
    · cases st

theorem step_inv (P : Params) (hfix : P.fixed = true) (s s' : St) (a : Act) (h : Inv P s)
    (st : step P s a = some s') : Inv P s' := by
  cases hc' : s'.cancelled
  · right
    rcases h with h | h
    · have := step_cancelled P s s' a st h; rw [hc'] at this; cases this
    · exact step_invB P hfix s s' a h hc' st
  · exact Or.inl hc'

theorem run_inv (P : Params) (hfix : P.fixed = true) : ∀ (acts : List Act) (s s' : St),
    Inv P s → run P s acts = some s' → Inv P s'
  | [], s, s', h, hr => by simp only [run] at hr; injection hr with hr; subst hr; exact h
  | a :: as, s, s', h, hr => by
    simp only [run] at hr
    split at hr
    · rename_i s1 h1; exact run_inv P hfix as s1 s' (step_inv P hfix s s1 a h h1) hr
    · cases hr

/-! ### The property theorems -/

/-- the bound, from the invariant -/
theorem inv_bound (P : Params) (s : St) (h : Inv P s) (ha : active s = true) :
    s.now ≤ s.fileTime + P.R + P.p + 2 * P.D ∨ s.now ≤ s.wake + P.R + P.p + 2 * P.D := by
  simp only [active, Bool.and_eq_true, Bool.not_eq_true'] at ha
  rcases h with h | h
  · rw [ha.1] at h; cases h
  · obtain ⟨a1, a2, a3, a4, a5, b, c1, d1, d2, d3, d4, e1, e2, e3, f, g, h, i, j⟩ := h
    have hfz := ha.2
    cases hmon : s.mon <;> rcases hrl : s.rl with _ | _ | _ | _ | _ | (_ | _) | _ <;> grind

/-- **cancel_before_stale**: for every schedule of refresh ticks, refresh failures, lock-file removals
    by others, standby periods and unlock: whenever the holder may still modify the repository (context
    alive, backend not frozen), its newest lock file is at most `R + p + 2D` old — or the host woke up
    from standby less than that ago. -/
theorem cancel_before_stale (P : Params) (hfix : P.fixed = true) (t0 t1 : Nat) (h0 : t0 ≤ t1)
    (h1 : t1 ≤ t0 + P.D) (acts : List Act) (s : St) (hr : run P (init t0 t1) acts = some s)
    (ha : active s = true) :
    s.now ≤ s.fileTime + P.R + P.p + 2 * P.D ∨ s.now ≤ s.wake + P.R + P.p + 2 * P.D :=
  inv_bound P s (run_inv P hfix acts _ s (init_inv P t0 t1 h0 h1) hr) ha

/-- link to the executable statement -/
theorem reach_specOK (P : Params) (hfix : P.fixed = true) (t0 t1 : Nat) (h0 : t0 ≤ t1)
    (h1 : t1 ≤ t0 + P.D) (acts : List Act) (s : St) (hr : run P (init t0 t1) acts = some s) :
    specOK P s = true := by
  unfold specOK
  cases ha : active s
  · simp
  · have := cancel_before_stale P hfix t0 t1 h0 h1 acts s hr ha
    simp only [Bool.not_true, Bool.false_or, Bool.or_eq_true, decide_eq_true_eq]
    exact this

/-- **not_judged_stale**: if `R + p + 2D + 2·eps ≤ S` then an active holder whose newest lock file was
    written after the last wake-up cannot have that file judged stale (`Time + S < now + 2·eps`, the
    test of C12's remover) by anybody. -/
theorem not_judged_stale (P : Params) (hfix : P.fixed = true) (S eps : Nat)
    (ht : P.R + P.p + 2 * P.D + 2 * eps ≤ S) (t0 t1 : Nat) (h0 : t0 ≤ t1)
    (h1 : t1 ≤ t0 + P.D) (acts : List Act) (s : St) (hr : run P (init t0 t1) acts = some s)
    (ha : active s = true) (hw : s.wake ≤ s.fileTime) : ¬ (s.fileTime + S < s.now + 2 * eps) := by
  have := cancel_before_stale P hfix t0 t1 h0 h1 acts s hr ha
  omega

/-- **removed_lock_detected**: when the forced refresh runs and the holder's lock file has been removed
    by somebody else, the refresh cannot succeed (neither of its existence checks passes); its only
    continuation cancels the context, and does so while the backend is still frozen. -/
theorem removed_lock_detected (P : Params) (hfix : P.fixed = true) (t0 t1 : Nat) (h0 : t0 ≤ t1)
    (h1 : t1 ≤ t0 + P.D) (acts : List Act) (s : St) (hr : run P (init t0 t1) acts = some s)
    (hc : s.cancelled = false) (hf : s.rl = .forced1 ∨ s.rl = .forced2) (hp : s.present = false) :
    step P s .forceCreate = none ∧ step P s .forceAdopt = none ∧
    ∃ s', step P s .forceFail = some s' ∧ s'.cancelled = true ∧ s'.cancelledFrozen = true := by
  have hinv := run_inv P hfix acts _ s (init_inv P t0 t1 h0 h1) hr
  rcases hinv with h | h
  · rw [hc] at h; cases h
  · have hfz := h.f hf
    refine ⟨by simp [step, hp], by simp [step, hp], ?_⟩
    simp only [step, hf, if_true]
    exact ⟨_, rfl, rfl, hfz⟩

/-- while the forced refresh runs the backend is frozen, i.e. the holder is not `active` -/
theorem forced_refresh_frozen (P : Params) (hfix : P.fixed = true) (t0 t1 : Nat) (h0 : t0 ≤ t1)
    (h1 : t1 ≤ t0 + P.D) (acts : List Act) (s : St) (hr : run P (init t0 t1) acts = some s)
    (hf : s.rl = .forced1 ∨ s.rl = .forced2) : active s = false := by
  have hinv := run_inv P hfix acts _ s (init_inv P t0 t1 h0 h1) hr
  rcases hinv with h | h
  · simp [active, h]
  · simp [active, h.f hf]

/-- **unlock_on_exit**: refreshLocks leaves only with a cancelled context, and removes the lock file. -/
theorem unlock_on_exit (P : Params) (s s' : St) (st : step P s .rlExit = some s') :
    s'.cancelled = true ∧ s'.present = false ∧ s'.rl = .done := by
  simp only [step] at st
  split at st
  · rename_i hg; cases st; exact ⟨hg.1, rfl, rfl⟩
  · cases st

/-- **refresh_no_gap**: proved on the protocol model of C12 (refresh = create the replacement, then
    remove the old file; T1 fact `C12.t1_refresh_create_before_remove`): a holder — also in the middle
    of a refresh — always has a lock file of its own in the repository, and that file is fresh. -/
theorem refresh_no_gap (P : Restic.Model.Lock.Params) (ht : Restic.Props.C12.timingOK P) (now : Nat)
    (excls : List Bool) (acts : List Restic.Model.Lock.Act) (s : Restic.Model.Lock.Sys)
    (h : Restic.Model.Lock.run P (Restic.Model.Lock.init now excls) acts = some s)
    (p : Restic.Model.Lock.Proc) (hp : p ∈ s.procs) (hh : Restic.Model.Lock.holds p = true) :
    ∃ b, Restic.Props.C12.lockFile p = some b ∧ Restic.Model.Lock.filePresent p = true ∧
      Restic.Model.Lock.canJudgeStale P s.now b = false :=
  Restic.Props.C12.holder_has_fresh_file P ht now excls acts s h p hp hh

/-! ### Negation witness for the select as it is in restic 0.18 (`fixed = false`)

The monitor posts its force request while refreshLocks is inside a regular refresh; the refresh then
succeeds and refreshLocks blocks sending `refreshed`, the monitor blocks sending `forceRefresh`:
nothing but `Unlock` gets them out, no refresh ever happens again, the context is never cancelled.
Time passes without bound while the holder stays active. -/

def unfixedP : Params := { R := 5, p := 1, D := 1, fixed := false }

/-- the schedule reaching the deadlock: four ticks, a refresh starts at the last moment, the monitor
    becomes due and posts its request, the refresh succeeds -/
def deadlockPrefix : List Act :=
  [.tick, .tick, .tick, .tick, .tick, .rlStartRefresh, .monPollDue, .rlRefreshOk]

example : (run unfixedP (init 0 0) deadlockPrefix).map (fun s => (s.rl, s.mon, s.now, s.fileTime, active s)) =
    some (.notifying, .requesting, 5, 5, true) := by decide

/-- in the deadlock state of the unfixed protocol time can pass -/
theorem deadlock_tick (s : St) (h1 : s.rl = .notifying) (h2 : s.mon = .requesting) :
    step unfixedP s .tick = some { s with now := s.now + 1 } := by
  simp [step, mayTick, notifyEnabled, h1, h2, unfixedP]

theorem deadlock_run (k : Nat) : ∀ (s : St), s.rl = .notifying → s.mon = .requesting →
    run unfixedP s (List.replicate k .tick) = some { s with now := s.now + k } := by
  induction k with
  | zero => intro s _ _; simp [run]
  | succ k ih =>
    intro s h1 h2
    have := ih { s with now := s.now + 1 } h1 h2
    simp only [List.replicate_succ, run, deadlock_tick s h1 h2, this, Option.some.injEq]
    simp only [Nat.add_assoc, Nat.add_comm 1 k]

theorem run_append (P : Params) : ∀ (l1 l2 : List Act) (s s1 : St), run P s l1 = some s1 →
    run P s (l1 ++ l2) = run P s1 l2 := by
  intro l1
  induction l1 with
  | nil => intro l2 s s1 h; simp only [run] at h; injection h with h; subst h; rfl
  | cons a l ih =>
    intro l2 s s1 h
    simp only [List.cons_append, run] at h ⊢
    split at h
    · rename_i s2 h2
      first | exact ih l2 s2 s1 h | (simp only [h2]; exact ih l2 s2 s1 h) | (rw [h2]; exact ih l2 s2 s1 h)
    · cases h

/-- the deadlock state reached by `deadlockPrefix` -/
def deadSt : St :=
  { now := 5, wake := 0, rl := .notifying, mon := .requesting, cancelled := false, frozen := false,
    cancelledFrozen := false, fileTime := 5, present := true, lastR := 5, lastM := 0, opStart := 5,
    monAt := 5, newTime := 5 }

/-- **cancel_before_stale fails for the unfixed select**: for every `k` there is a schedule after which
    the holder is still active (never suspended) although its newest lock file is `k` old — beyond
    any bound. -/
theorem unfixed_violates (k : Nat) : ∃ (acts : List Act) (s : St),
    run unfixedP (init 0 0) acts = some s ∧ active s = true ∧ s.wake = 0 ∧ s.now = s.fileTime + k := by
  have hp : run unfixedP (init 0 0) deadlockPrefix = some deadSt := by decide
  refine ⟨deadlockPrefix ++ List.replicate k .tick, { deadSt with now := deadSt.now + k }, ?_, rfl, rfl, rfl⟩
  rw [run_append _ _ _ _ _ hp]
  exact deadlock_run k deadSt rfl rfl

/-! ### T1: constants and call orders of the current source -/

/-- monitor poll interval (1 s) and the operation bound assumed for the timing statement (2 min), ns -/
def assumedPoll_ns : Nat := 1000000000
def assumedOp_ns : Nat := 120 * 1000000000

/-- `refreshabilityTimeout + poll + 2·op + 2·skew ≤ staleLockTimeout` for the regenerated constants:
    the hypothesis of `not_judged_stale` with the real numbers (22.5 min + 1 s + 4 min + 2 min ≤ 30 min);
    and `p + 2D` is within the stall bound `M = refreshInterval` used for C12. -/
theorem timing_gen :
    Restic.Gen.lock_refreshabilityTimeout_ns + assumedPoll_ns + 2 * assumedOp_ns + 2 * (60 * 1000000000)
      ≤ Restic.Gen.lock_staleLockTimeout_ns
    ∧ assumedPoll_ns + 2 * assumedOp_ns ≤ Restic.Gen.lock_refreshInterval_ns
    ∧ Restic.Gen.lock_refreshInterval_ns = Restic.Gen.lock_defaultRefreshInterval_ns := by decide

/-- refreshLocks' deferred exit cancels the context before it removes the lock file; the regular
    refresh and the forced refresh are the calls the model's `rlStartRefresh`/`rlRecvForce` stand for -/
theorem t1_refreshLocks_calls :
    Restic.Gen.lock_refreshLocks_calls.idxOf "unlocker.cancel" < Restic.Gen.lock_refreshLocks_calls.idxOf "lock.unlock"
    ∧ "lock.refresh" ∈ Restic.Gen.lock_refreshLocks_calls
    ∧ "tryRefreshStaleLock" ∈ Restic.Gen.lock_refreshLocks_calls := by decide

/-- tryRefreshStaleLock: freeze, forced refresh, cancel (on failure) — all before the deferred unfreeze;
    refreshStaleLock: existence check, create replacement, wait, existence check, adopt -/
theorem t1_forced_refresh_calls :
    Restic.Gen.lock_tryRefreshStaleLock_calls.filter (fun c => c == "freeze.Freeze" || c == "freeze.Unfreeze" || c == "lock.refreshStaleLock" || c == "cancel")
      = ["freeze.Freeze", "freeze.Unfreeze", "lock.refreshStaleLock", "cancel"]
    ∧ Restic.Gen.lock_refreshStaleLock_calls.filter (fun c => c == "l.checkExistence" || c == "l.createReplacementLock" || c == "time.Sleep" || c == "l.adoptReplacementLock")
      = ["l.checkExistence", "l.createReplacementLock", "time.Sleep", "l.checkExistence", "l.adoptReplacementLock"] := by
  decide

/-! ### Non-vacuity -/

def exP : Params := { R := 5, p := 1, D := 1, fixed := true }

-- a regular refresh, then refreshes fail, the monitor forces a refresh which succeeds
example : (run exP (init 0 0) [.tick, .tick, .rlStartRefresh, .rlRefreshOk, .notify, .tick, .tick, .tick, .tick, .tick,
    .monPollDue, .rlRecvForce, .forceCreate, .forceAdopt, .report]).map
      (fun s => (s.now, s.fileTime, s.lastM, active s, s.rl, s.mon)) = some (7, 7, 7, true, .idle, .idle) := by decide
-- the lock file is removed by somebody else: the forced refresh fails and cancels while frozen
example : (run exP (init 0 0) [.removeByOther, .tick, .tick, .tick, .tick, .tick, .monPollDue, .rlRecvForce, .forceFail]).map
      (fun s => (s.cancelled, s.cancelledFrozen, active s)) = some (true, true, false) := by decide
-- the same schedule that deadlocks the unfixed select is harmless with the fix
example : (run exP (init 0 0) (deadlockPrefix ++ [.notify])).map (fun s => (s.rl, s.mon, s.lastM)) =
    some (.idle, .idle, 5) := by decide
-- time cannot run away from an active holder: the sixth tick is refused until the monitor has reacted
example : run exP (init 0 0) [.tick, .tick, .tick, .tick, .tick, .tick, .tick] = none := by decide

end Restic.Props.C13
