import Restic.Model.PackerGen
namespace Restic.Props.C44
end Restic.Props.C44
