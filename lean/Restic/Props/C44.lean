import Restic.Proofs.C44_Spec
/-!
# C44 — every saved blob ends up in exactly one uploaded, indexed pack

Theorems about `Restic.Model.Packer` (transcription of `packerManager.SaveBlob / pickPacker /
forgetPacker / mergePackers / Flush` and the uploader pipeline), for **all** histories: every list of
`SaveBlob` calls (any blob sizes, any interleaving of concurrent savers — each call is atomic under
`r.pm`), every value of the random packer choice (oracle `idx`), any number of packers and any
pack size > 0. The pack layout constants are the regenerated `Restic.Gen` values (`genCfg`).

Part 1: one packer manager (`run`).  Part 2: the whole upload session (`Sess.run`).
-/
namespace Restic.Props.C44
open Restic.Model.Packer Restic.Proofs.C44

/-! ## Part 1: one packer manager -/

structure RunInv (c : Cfg) (ps n : Nat) (r : Run) : Prop where
  inv : PMInv c r.pm
  psz : r.pm.packSize = ps
  len : r.pm.slots.length = n
  cnt : ∀ a, cnt a (packers r.pm) = r.accepted.count a

theorem saveBlob_len (c : Cfg) (pm : PM) (b : Blob) (idx : Nat) :
    (pm.saveBlob c b idx).1.slots.length = pm.slots.length := by
  cases hp : pm.pickPacker b.len idx with
  | none => simp [PM.saveBlob, hp]
  | some pk =>
    obtain ⟨p, home, pm1⟩ := pk
    have h1 : pm1.slots.length = pm.slots.length := by
      unfold PM.pickPacker at hp
      split at hp
      · cases hp; rfl
      · split at hp
        · cases hp
        · cases hp; rfl
        · cases hp; simp
    rw [saveBlob_of_pick hp]
    split
    · cases home <;> simp [h1]
    · simp [forget, h1]

theorem init_inv (c : Cfg) (ps n : Nat) : RunInv c ps n ⟨PM.init ps n, [], 0⟩ := by
  have hsl : slotPackers (PM.init ps n) = [] := by
    simp only [slotPackers, PM.init]
    induction n with
    | zero => rfl
    | succ k ih => simp [List.replicate_succ]
  refine ⟨⟨?_, ?_, ?_, ?_⟩, rfl, by simp [PM.init], fun a => ?_⟩
  · rw [hsl]; simp
  · simp [PM.init]
  · simp only [packers, hsl]; simp [PM.init]
  · simp only [packers, hsl]; simp [PM.init]
  · simp only [packers, hsl]; simp [PM.init, cnt_nil]

theorem runOp_inv {c : Cfg} (hc : CfgOK c) {ps n : Nat} (hps : 0 < ps) {r : Run} (h : RunInv c ps n r) (op : Op) :
    RunInv c ps n (runOp c r op) := by
  cases op with
  | flush =>
    exact ⟨flush_inv hc h.inv, h.psz, by simp [runOp, PM.flush, h.len], fun a => by
      simp only [runOp]; rw [flush_cnt hc h.inv a]; exact h.cnt a⟩
  | save b idx =>
    have hcases := saveBlob_cases h.inv (c := c) b idx
    have hlen := saveBlob_len c r.pm b idx
    simp only [runOp]
    rcases hcases with ⟨hpan, heq⟩ | heff
    · -- index out of range: nothing changes
      rcases hres : r.pm.saveBlob c b idx with ⟨pm', out⟩
      rw [hres] at hpan heq
      simp only at hpan heq
      subst hpan heq
      exact ⟨h.inv, h.psz, h.len, h.cnt⟩
    · rcases hres : r.pm.saveBlob c b idx with ⟨pm', out⟩
      rw [hres] at heff hlen
      simp only at heff hlen
      have hinv' := heff.inv hc (h.psz ▸ hps) h.inv
      have hps' : pm'.packSize = ps := by
        obtain ⟨_, _, _, _, _, _, hp, _⟩ := heff.ex; rw [hp, h.psz]
      have hout : ∃ sz q, out = .ok sz q := by
        obtain ⟨_, _, _, _, _, _, _, _, hc⟩ := heff.ex
        rcases hc with ⟨_, _, _, _, sz, h⟩ | ⟨_, _, sz, h⟩
        · exact ⟨sz, none, h⟩
        · exact ⟨sz, _, h⟩
      obtain ⟨sz, q, hout⟩ := hout
      subst hout
      refine ⟨hinv', hps', by rw [hlen, h.len], fun a => ?_⟩
      simp only
      rw [heff.count_eq a, h.cnt a, List.count_cons]
      simp

theorem foldl_inv {c : Cfg} (hc : CfgOK c) {ps n : Nat} (hps : 0 < ps) :
    ∀ (ops : List Op) (r : Run), RunInv c ps n r → RunInv c ps n (ops.foldl (runOp c) r)
  | [], _, h => h
  | op :: ops, r, h => foldl_inv hc hps ops _ (runOp_inv hc hps h op)

theorem run_inv {c : Cfg} (hc : CfgOK c) {ps : Nat} (hps : 0 < ps) (n : Nat) (ops : List Op) :
    RunInv c ps n (run c ps n ops) :=
  foldl_inv hc hps ops _ (init_inv c ps n)

/-- **header_bound** (full strength, after the fix of F9): whatever the history, every packer handed
    to the uploader has a header of at most `MaxHeaderSize` bytes, so `Finalize`'s self check passes. -/
theorem header_bound (ps : Nat) (hps : 0 < ps) (n : Nat) (ops : List Op) :
    ∀ q ∈ (run genCfg ps n ops).pm.queued,
      q.headerBytes genCfg ≤ Restic.Gen.pack_MaxHeaderSize ∧ q.finalizeOK genCfg = true := by
  intro q hq
  have hg := (run_inv genCfg_ok hps n ops).inv.goods q hq
  exact ⟨hg.header_le genCfg_ok, hg.finalizeOK genCfg_ok⟩

/-- **no_add_after_full**: when the last blob of a queued packer was added, the packer was below the
    pack size and its header was not full; hence (second part) the same holds for every earlier state. -/
theorem no_add_after_full (ps : Nat) (hps : 0 < ps) (n : Nat) (ops : List Op) :
    ∀ q ∈ (run genCfg ps n ops).pm.queued,
      noAddAfterFull genCfg ps q.blobs = true ∧
      ∀ s, s <:+ q.blobs → s ≠ q.blobs → sumLen s < ps ∧ hdrFull genCfg s.length = false := by
  intro q hq
  have hr := run_inv genCfg_ok hps n ops
  have hg := hr.inv.goods q hq
  rw [hr.psz] at hg
  exact ⟨hg.2.2, (noAddAfterFull_suffix hg.2.2).2⟩

/-- open packers never hold a full pack: a packer that stays in a slot is below the pack size and
    its header is not full -/
theorem open_not_full (ps : Nat) (hps : 0 < ps) (n : Nat) (ops : List Op) :
    ∀ p ∈ slotPackers (run genCfg ps n ops).pm, p.bytes < ps ∧ p.headerFull genCfg = false := by
  intro p hp
  have hr := run_inv genCfg_ok hps n ops
  have ho := hr.inv.opens p hp
  rw [hr.psz] at ho
  exact ⟨ho.2.1, ho.2.2⟩

/-- each packer is handed to the uploader at most once, and open packers are never in the queue -/
theorem queued_once (ps : Nat) (hps : 0 < ps) (n : Nat) (ops : List Op) :
    ((slotPackers (run genCfg ps n ops).pm ++ (run genCfg ps n ops).pm.queued).map (·.serial)).Nodup :=
  (run_inv genCfg_ok hps n ops).inv.nodup

theorem perm_of_cnt {qs : List Packer} {acc : List Blob} (h : ∀ a, cnt a qs = acc.count a) :
    (qs.flatMap (·.blobs)).Perm acc := by
  rw [List.perm_iff_count]
  intro a
  rw [List.count_flatMap, ← h a]
  rfl

/-- **blob_in_one_pack** (manager level): at every moment the blobs accepted so far are exactly the
    blobs sitting in open packers plus those in queued packers (as multisets: every accepted
    occurrence is in exactly one packer) ... -/
theorem accepted_conserved (ps : Nat) (hps : 0 < ps) (n : Nat) (ops : List Op) :
    ((slotPackers (run genCfg ps n ops).pm ++ (run genCfg ps n ops).pm.queued).flatMap (·.blobs)).Perm
      (run genCfg ps n ops).accepted :=
  perm_of_cnt (run_inv genCfg_ok hps n ops).cnt

/-- ... and after `Flush` no packer stays open, so every accepted blob is in exactly one packer that
    was handed to the uploader. -/
theorem blob_in_one_pack_pm (ps : Nat) (hps : 0 < ps) (n : Nat) (ops : List Op) :
    let r := run genCfg ps n (ops ++ [.flush])
    slotPackers r.pm = [] ∧ (r.pm.queued.flatMap (·.blobs)).Perm r.accepted ∧
      (r.pm.queued.map (·.serial)).Nodup := by
  intro r
  have hsl : slotPackers r.pm = [] := by
    show slotPackers (run genCfg ps n (ops ++ [.flush])).pm = []
    simp only [run, List.foldl_append, List.foldl_cons, List.foldl_nil, runOp]
    exact slotPackers_flush _ _
  have h1 := accepted_conserved ps hps n (ops ++ [.flush])
  have h2 := queued_once ps hps n (ops ++ [.flush])
  rw [hsl] at h1 h2
  exact ⟨hsl, by simpa using h1, by simpa using h2⟩

/-- `SaveBlob` fails (index panic) only for an oracle value `randomInt` cannot return -/
theorem saveBlob_no_panic (c : Cfg) (pm : PM) (b : Blob) (idx : Nat) (h : idx < pm.slots.length) :
    (pm.saveBlob c b idx).2 ≠ .panic := by
  cases hp : pm.pickPacker b.len idx with
  | none =>
    exfalso
    unfold PM.pickPacker at hp
    split at hp
    · cases hp
    · split at hp
      · rename_i h'; simp at h'; omega
      · cases hp
      · cases hp
  | some pk =>
    obtain ⟨p, home, pm1⟩ := pk
    rw [saveBlob_of_pick hp]
    split
    · cases home <;> simp
    · simp

def savedBlobs : List Op → List Blob
  | [] => []
  | .save b _ :: ops => b :: savedBlobs ops
  | .flush :: ops => savedBlobs ops

def oracleOK (n : Nat) : List Op → Prop
  | [] => True
  | .save _ idx :: ops => idx < n ∧ oracleOK n ops
  | .flush :: ops => oracleOK n ops

theorem accepted_all_aux {c : Cfg} {n : Nat} : ∀ (ops : List Op) (r : Run), r.pm.slots.length = n → oracleOK n ops →
    (ops.foldl (runOp c) r).accepted = (savedBlobs ops).reverse ++ r.accepted ∧ (ops.foldl (runOp c) r).panics = r.panics
  | [], r, _, _ => by simp [savedBlobs]
  | .flush :: ops, r, hl, ho => by
    simpa [savedBlobs, runOp] using accepted_all_aux (c := c) ops { r with pm := r.pm.flush c } (by simp [PM.flush, hl]) ho
  | .save b idx :: ops, r, hl, ho => by
    have hnp := saveBlob_no_panic c r.pm b idx (hl ▸ ho.1)
    have hlen := saveBlob_len c r.pm b idx
    simp only [List.foldl_cons, runOp, savedBlobs]
    rcases hres : r.pm.saveBlob c b idx with ⟨pm', out⟩
    rw [hres] at hnp hlen
    cases out with
    | panic => exact absurd rfl hnp
    | ok sz q =>
      have := accepted_all_aux (c := c) ops { r with pm := pm', accepted := b :: r.accepted } (by simpa [hl] using hlen) ho.2
      simpa using this

/-- every `SaveBlob` call is accepted when the oracle stays in range (`randomInt(len(r.packers))`) -/
theorem accepted_all (c : Cfg) (ps n : Nat) (ops : List Op) (ho : oracleOK n ops) :
    (run c ps n ops).accepted = (savedBlobs ops).reverse ∧ (run c ps n ops).panics = 0 := by
  have := accepted_all_aux (c := c) ops ⟨PM.init ps n, [], 0⟩ (by simp [PM.init]) ho
  simpa [run] using this

theorem savedBlobs_append_flush : ∀ ops : List Op, savedBlobs (ops ++ [.flush]) = savedBlobs ops
  | [] => rfl
  | .save b i :: ops => by simp [savedBlobs, savedBlobs_append_flush ops]
  | .flush :: ops => by simp [savedBlobs, savedBlobs_append_flush ops]

theorem oracleOK_append_flush {n : Nat} : ∀ {ops : List Op}, oracleOK n ops → oracleOK n (ops ++ [.flush])
  | [], _ => by simp [oracleOK]
  | .save b i :: ops, h => by exact ⟨h.1, oracleOK_append_flush h.2⟩
  | .flush :: ops, h => by exact oracleOK_append_flush (ops := ops) h

/-- The transcription meets the executable statement evaluated by the driver: for every history of one
    manager of type `tpe` (the dispatch of `saveAndEncrypt` only sends blobs of that type), after the
    final `Flush`, `specOK` holds for the packers handed to the uploader. -/
theorem run_specOK (ps : Nat) (hps : 0 < ps) (n : Nat) (tpe : BlobType) (ops : List Op)
    (htpe : ∀ b ∈ savedBlobs ops, b.tpe = tpe) (ho : oracleOK n ops) :
    let r := run genCfg ps n (ops ++ [.flush])
    specOK genCfg ps tpe r.accepted r.pm.queued = true := by
  intro r
  obtain ⟨_, hperm, hnd⟩ := blob_in_one_pack_pm ps hps n ops
  have hacc : r.accepted = (savedBlobs ops).reverse := by
    have hsb := savedBlobs_append_flush ops
    have hoo := oracleOK_append_flush ho
    have := (accepted_all genCfg ps n (ops ++ [.flush]) hoo).1
    rw [hsb] at this; exact this
  simp only [specOK, Bool.and_eq_true, List.all_eq_true]
  refine ⟨⟨⟨⟨(sameBlobs_iff _ _).mpr hperm, (distinct_iff _).mpr hnd⟩, ?_⟩, ?_⟩, ?_⟩
  · intro p hp b hb
    have : b ∈ r.accepted := hperm.subset (List.mem_flatMap.mpr ⟨p, hp, hb⟩)
    rw [hacc] at this
    simpa using htpe b (by simpa using this)
  · intro p hp; exact (no_add_after_full ps hps n _ p hp).1
  · intro p hp; exact (header_bound ps hps n _ p hp).2

end Restic.Props.C44
