import Restic.Proofs.C44_Spec
import Restic.Gen.Source
/-!
# C44 — every saved blob ends up in exactly one uploaded, indexed pack

Theorems about `Restic.Model.Packer` (transcription of `packerManager.SaveBlob / pickPacker /
forgetPacker / mergePackers / Flush` and the uploader pipeline), for **all** histories: every list of
`SaveBlob` calls (any blob sizes, any interleaving of concurrent savers — each call is atomic under
`r.pm`), every value of the random packer choice (oracle `idx`), any number of packers and any
pack size > 0. The pack layout constants are the regenerated `Restic.Gen` values (`genCfg`).

Part 1: one packer manager (`run`).  Part 2: the whole upload session (`Sess.run`).
-/
namespace Restic.Props.C44
open Restic.Model.Packer Restic.Proofs.C44

/-! ## Part 1: one packer manager -/

structure RunInv (c : Cfg) (ps n : Nat) (r : Run) : Prop where
  inv : PMInv c r.pm
  psz : r.pm.packSize = ps
  len : r.pm.slots.length = n
  cnt : ∀ a, cnt a (packers r.pm) = r.accepted.count a

theorem saveBlob_len (c : Cfg) (pm : PM) (b : Blob) (idx : Nat) :
    (pm.saveBlob c b idx).1.slots.length = pm.slots.length := by
  cases hp : pm.pickPacker b.len idx with
  | none => simp [PM.saveBlob, hp]
  | some pk =>
    obtain ⟨p, home, pm1⟩ := pk
    have h1 : pm1.slots.length = pm.slots.length := by
      unfold PM.pickPacker at hp
      split at hp
      · cases hp; rfl
      · split at hp
        · cases hp
        · cases hp; rfl
        · cases hp; simp
    rw [saveBlob_of_pick hp]
    split
    · cases home <;> simp [h1]
    · simp [forget, h1]

theorem init_inv (c : Cfg) (ps n : Nat) : RunInv c ps n ⟨PM.init ps n, [], 0⟩ := by
  have hsl : slotPackers (PM.init ps n) = [] := by
    simp only [slotPackers, PM.init]
    induction n with
    | zero => rfl
    | succ k ih => simp [List.replicate_succ]
  refine ⟨⟨?_, ?_, ?_, ?_⟩, rfl, by simp [PM.init], fun a => ?_⟩
  · rw [hsl]; simp
  · simp [PM.init]
  · simp only [packers, hsl]; simp [PM.init]
  · simp only [packers, hsl]; simp [PM.init]
  · simp only [packers, hsl]; simp [PM.init, cnt_nil]

theorem runOp_inv {c : Cfg} (hc : CfgOK c) {ps n : Nat} (hps : 0 < ps) {r : Run} (h : RunInv c ps n r) (op : Op) :
    RunInv c ps n (runOp c r op) := by
  cases op with
  | flush =>
    exact ⟨flush_inv hc h.inv, h.psz, by simp [runOp, PM.flush, h.len], fun a => by
      simp only [runOp]; rw [flush_cnt hc h.inv a]; exact h.cnt a⟩
  | save b idx =>
    have hcases := saveBlob_cases h.inv (c := c) b idx
    have hlen := saveBlob_len c r.pm b idx
    simp only [runOp]
    rcases hcases with ⟨hpan, heq⟩ | heff
    · -- index out of range: nothing changes
      rcases hres : r.pm.saveBlob c b idx with ⟨pm', out⟩
      rw [hres] at hpan heq
      simp only at hpan heq
      subst hpan heq
      exact ⟨h.inv, h.psz, h.len, h.cnt⟩
    · rcases hres : r.pm.saveBlob c b idx with ⟨pm', out⟩
      rw [hres] at heff hlen
      simp only at heff hlen
      have hinv' := heff.inv hc (h.psz ▸ hps) h.inv
      have hps' : pm'.packSize = ps := by
        obtain ⟨_, _, _, _, _, _, hp, _⟩ := heff.ex; rw [hp, h.psz]
      have hout : ∃ sz q, out = .ok sz q := by
        obtain ⟨_, _, _, _, _, _, _, _, hc⟩ := heff.ex
        rcases hc with ⟨_, _, _, _, sz, h⟩ | ⟨_, _, sz, h⟩
        · exact ⟨sz, none, h⟩
        · exact ⟨sz, _, h⟩
      obtain ⟨sz, q, hout⟩ := hout
      subst hout
      refine ⟨hinv', hps', by rw [hlen, h.len], fun a => ?_⟩
      simp only
      rw [heff.count_eq a, h.cnt a, List.count_cons]
      simp

theorem foldl_inv {c : Cfg} (hc : CfgOK c) {ps n : Nat} (hps : 0 < ps) :
    ∀ (ops : List Op) (r : Run), RunInv c ps n r → RunInv c ps n (ops.foldl (runOp c) r)
  | [], _, h => h
  | op :: ops, r, h => foldl_inv hc hps ops _ (runOp_inv hc hps h op)

theorem run_inv {c : Cfg} (hc : CfgOK c) {ps : Nat} (hps : 0 < ps) (n : Nat) (ops : List Op) :
    RunInv c ps n (run c ps n ops) :=
  foldl_inv hc hps ops _ (init_inv c ps n)

/-- **header_bound** (full strength, after the fix of F9): whatever the history, every packer handed
    to the uploader has a header of at most `MaxHeaderSize` bytes, so `Finalize`'s self check passes. -/
theorem header_bound (ps : Nat) (hps : 0 < ps) (n : Nat) (ops : List Op) :
    ∀ q ∈ (run genCfg ps n ops).pm.queued,
      q.headerBytes genCfg ≤ Restic.Gen.pack_MaxHeaderSize ∧ q.finalizeOK genCfg = true := by
  intro q hq
  have hg := (run_inv genCfg_ok hps n ops).inv.goods q hq
  exact ⟨hg.header_le genCfg_ok, hg.finalizeOK genCfg_ok⟩

/-- **no_add_after_full**: when the last blob of a queued packer was added, the packer was below the
    pack size and its header was not full; hence (second part) the same holds for every earlier state. -/
theorem no_add_after_full (ps : Nat) (hps : 0 < ps) (n : Nat) (ops : List Op) :
    ∀ q ∈ (run genCfg ps n ops).pm.queued,
      noAddAfterFull genCfg ps q.blobs = true ∧
      ∀ s, s <:+ q.blobs → s ≠ q.blobs → sumLen s < ps ∧ hdrFull genCfg s.length = false := by
  intro q hq
  have hr := run_inv genCfg_ok hps n ops
  have hg := hr.inv.goods q hq
  rw [hr.psz] at hg
  exact ⟨hg.2.2, (noAddAfterFull_suffix hg.2.2).2⟩

/-- open packers never hold a full pack: a packer that stays in a slot is below the pack size and
    its header is not full -/
theorem open_not_full (ps : Nat) (hps : 0 < ps) (n : Nat) (ops : List Op) :
    ∀ p ∈ slotPackers (run genCfg ps n ops).pm, p.bytes < ps ∧ p.headerFull genCfg = false := by
  intro p hp
  have hr := run_inv genCfg_ok hps n ops
  have ho := hr.inv.opens p hp
  rw [hr.psz] at ho
  exact ⟨ho.2.1, ho.2.2⟩

/-- each packer is handed to the uploader at most once, and open packers are never in the queue -/
theorem queued_once (ps : Nat) (hps : 0 < ps) (n : Nat) (ops : List Op) :
    ((slotPackers (run genCfg ps n ops).pm ++ (run genCfg ps n ops).pm.queued).map (·.serial)).Nodup :=
  (run_inv genCfg_ok hps n ops).inv.nodup

theorem perm_of_cnt {qs : List Packer} {acc : List Blob} (h : ∀ a, cnt a qs = acc.count a) :
    (qs.flatMap (·.blobs)).Perm acc := by
  rw [List.perm_iff_count]
  intro a
  rw [List.count_flatMap, ← h a]
  rfl

/-- **blob_in_one_pack** (manager level): at every moment the blobs accepted so far are exactly the
    blobs sitting in open packers plus those in queued packers (as multisets: every accepted
    occurrence is in exactly one packer) ... -/
theorem accepted_conserved (ps : Nat) (hps : 0 < ps) (n : Nat) (ops : List Op) :
    ((slotPackers (run genCfg ps n ops).pm ++ (run genCfg ps n ops).pm.queued).flatMap (·.blobs)).Perm
      (run genCfg ps n ops).accepted :=
  perm_of_cnt (run_inv genCfg_ok hps n ops).cnt

/-- ... and after `Flush` no packer stays open, so every accepted blob is in exactly one packer that
    was handed to the uploader. -/
theorem blob_in_one_pack_pm (ps : Nat) (hps : 0 < ps) (n : Nat) (ops : List Op) :
    let r := run genCfg ps n (ops ++ [.flush])
    slotPackers r.pm = [] ∧ (r.pm.queued.flatMap (·.blobs)).Perm r.accepted ∧
      (r.pm.queued.map (·.serial)).Nodup := by
  intro r
  have hsl : slotPackers r.pm = [] := by
    show slotPackers (run genCfg ps n (ops ++ [.flush])).pm = []
    simp only [run, List.foldl_append, List.foldl_cons, List.foldl_nil, runOp]
    exact slotPackers_flush _ _
  have h1 := accepted_conserved ps hps n (ops ++ [.flush])
  have h2 := queued_once ps hps n (ops ++ [.flush])
  rw [hsl] at h1 h2
  exact ⟨hsl, by simpa using h1, by simpa using h2⟩

/-- `SaveBlob` fails (index panic) only for an oracle value `randomInt` cannot return -/
theorem saveBlob_no_panic (c : Cfg) (pm : PM) (b : Blob) (idx : Nat) (h : idx < pm.slots.length) :
    (pm.saveBlob c b idx).2 ≠ .panic := by
  cases hp : pm.pickPacker b.len idx with
  | none =>
    exfalso
    unfold PM.pickPacker at hp
    split at hp
    · cases hp
    · split at hp
      · rename_i h'; simp at h'; omega
      · cases hp
      · cases hp
  | some pk =>
    obtain ⟨p, home, pm1⟩ := pk
    rw [saveBlob_of_pick hp]
    split
    · cases home <;> simp
    · simp

def savedBlobs : List Op → List Blob
  | [] => []
  | .save b _ :: ops => b :: savedBlobs ops
  | .flush :: ops => savedBlobs ops

def oracleOK (n : Nat) : List Op → Prop
  | [] => True
  | .save _ idx :: ops => idx < n ∧ oracleOK n ops
  | .flush :: ops => oracleOK n ops

theorem accepted_all_aux {c : Cfg} {n : Nat} : ∀ (ops : List Op) (r : Run), r.pm.slots.length = n → oracleOK n ops →
    (ops.foldl (runOp c) r).accepted = (savedBlobs ops).reverse ++ r.accepted ∧ (ops.foldl (runOp c) r).panics = r.panics
  | [], r, _, _ => by simp [savedBlobs]
  | .flush :: ops, r, hl, ho => by
    simpa [savedBlobs, runOp] using accepted_all_aux (c := c) ops { r with pm := r.pm.flush c } (by simp [PM.flush, hl]) ho
  | .save b idx :: ops, r, hl, ho => by
    have hnp := saveBlob_no_panic c r.pm b idx (hl ▸ ho.1)
    have hlen := saveBlob_len c r.pm b idx
    simp only [List.foldl_cons, runOp, savedBlobs]
    rcases hres : r.pm.saveBlob c b idx with ⟨pm', out⟩
    rw [hres] at hnp hlen
    cases out with
    | panic => exact absurd rfl hnp
    | ok sz q =>
      have := accepted_all_aux (c := c) ops { r with pm := pm', accepted := b :: r.accepted } (by simpa [hl] using hlen) ho.2
      simpa using this

/-- every `SaveBlob` call is accepted when the oracle stays in range (`randomInt(len(r.packers))`) -/
theorem accepted_all (c : Cfg) (ps n : Nat) (ops : List Op) (ho : oracleOK n ops) :
    (run c ps n ops).accepted = (savedBlobs ops).reverse ∧ (run c ps n ops).panics = 0 := by
  have := accepted_all_aux (c := c) ops ⟨PM.init ps n, [], 0⟩ (by simp [PM.init]) ho
  simpa [run] using this

theorem savedBlobs_append_flush : ∀ ops : List Op, savedBlobs (ops ++ [.flush]) = savedBlobs ops
  | [] => rfl
  | .save b i :: ops => by simp [savedBlobs, savedBlobs_append_flush ops]
  | .flush :: ops => by simp [savedBlobs, savedBlobs_append_flush ops]

theorem oracleOK_append_flush {n : Nat} : ∀ {ops : List Op}, oracleOK n ops → oracleOK n (ops ++ [.flush])
  | [], _ => by simp [oracleOK]
  | .save b i :: ops, h => by exact ⟨h.1, oracleOK_append_flush h.2⟩
  | .flush :: ops, h => by exact oracleOK_append_flush (ops := ops) h

/-- The transcription meets the executable statement evaluated by the driver: for every history of one
    manager of type `tpe` (the dispatch of `saveAndEncrypt` only sends blobs of that type), after the
    final `Flush`, `specOK` holds for the packers handed to the uploader. -/
theorem run_specOK (ps : Nat) (hps : 0 < ps) (n : Nat) (tpe : BlobType) (ops : List Op)
    (htpe : ∀ b ∈ savedBlobs ops, b.tpe = tpe) (ho : oracleOK n ops) :
    let r := run genCfg ps n (ops ++ [.flush])
    specOK genCfg ps tpe r.accepted r.pm.queued = true := by
  intro r
  obtain ⟨_, hperm, hnd⟩ := blob_in_one_pack_pm ps hps n ops
  have hacc : r.accepted = (savedBlobs ops).reverse := by
    have hsb := savedBlobs_append_flush ops
    have hoo := oracleOK_append_flush ho
    have := (accepted_all genCfg ps n (ops ++ [.flush]) hoo).1
    rw [hsb] at this; exact this
  simp only [specOK, Bool.and_eq_true, List.all_eq_true]
  refine ⟨⟨⟨⟨(sameBlobs_iff _ _).mpr hperm, (distinct_iff _).mpr hnd⟩, ?_⟩, ?_⟩, ?_⟩
  · intro p hp b hb
    have : b ∈ r.accepted := hperm.subset (List.mem_flatMap.mpr ⟨p, hp, hb⟩)
    rw [hacc] at this
    simpa using htpe b (by simpa using this)
  · intro p hp; exact (no_add_after_full ps hps n _ p hp).1
  · intro p hp; exact (header_bound ps hps n _ p hp).2

/-! ## Part 2: the upload session (both managers, uploader goroutines, index) -/

def tag (t : BlobType) (l : List Packer) : List (BlobType × Packer) := l.map (fun q => (t, q))

def pipeline (s : Sess) : List (BlobType × Packer) := s.chan ++ s.uploaded ++ s.indexed

def allQueuedOf (pm : BlobType → PM) : List (BlobType × Packer) :=
  tag .tree (pm .tree).queued ++ tag .data (pm .data).queued

structure SessInv (c : Cfg) (ps : Nat) (s : Sess) : Prop where
  inv : ∀ t, PMInv c (s.pm t)
  psz : ∀ t, (s.pm t).packSize = ps
  pipe : (pipeline s).Perm (allQueuedOf s.pm)
  cnt : ∀ t a, cnt a (packers (s.pm t)) = (s.accepted.filter (fun b => b.tpe = t)).count a

theorem perm_of_getElem? {α} : ∀ {l : List α} {k : Nat} {x : α}, l[k]? = some x → l.Perm (x :: l.eraseIdx k)
  | [], _, _, h => by simp at h
  | a :: l, 0, x, h => by simp at h; subst h; simp
  | a :: l, k + 1, x, h => by
    simp at h
    have := perm_of_getElem? h
    simp only [List.eraseIdx_cons_succ]
    exact (List.Perm.cons a this).trans (List.Perm.swap x a _)

/-- adding packers `new` (newest first) to the queue log of manager `t` and, in any order, to the channel -/
theorem pipe_push {s : Sess} (t : BlobType) (pm : PM) (new : List Packer) (sent : List (BlobType × Packer))
    (hq : pm.queued = new ++ (s.pm t).queued) (hsent : sent.Perm (tag t new))
    (hpipe : (pipeline s).Perm (allQueuedOf s.pm)) :
    (s.chan ++ sent ++ s.uploaded ++ s.indexed).Perm (allQueuedOf (s.upd t pm)) := by
  have h1 : (s.chan ++ sent ++ s.uploaded ++ s.indexed).Perm (sent ++ pipeline s) := by
    simp only [pipeline, List.append_assoc]
    exact List.perm_append_comm_assoc _ _ _
  refine h1.trans ((List.Perm.append hsent hpipe).trans ?_)
  cases t with
  | tree =>
    simp only [allQueuedOf, Sess.upd, if_true, hq]
    simp [tag]
  | data =>
    simp only [allQueuedOf, Sess.upd, if_true, hq]
    simp only [tag, List.map_append, ← List.append_assoc, reduceCtorEq, if_false]
    exact List.Perm.append_right _ List.perm_append_comm

theorem Sess.step_inv {c : Cfg} (hc : CfgOK c) {ps : Nat} (hps : 0 < ps) {s : Sess} (h : SessInv c ps s) (a : Act) :
    SessInv c ps (s.step c a) := by
  cases a with
  | save b idx =>
    have hcases := saveBlob_cases (h.inv b.tpe) (c := c) b idx
    simp only [Sess.step]
    rcases hres : (s.pm b.tpe).saveBlob c b idx with ⟨pm', out⟩
    rw [hres] at hcases
    simp only at hcases
    rcases hcases with ⟨hpan, _⟩ | heff
    · subst hpan; exact h
    · have hinv' := heff.inv hc ((h.psz b.tpe).symm ▸ hps) (h.inv b.tpe)
      obtain ⟨A, B, old, p, hsl, hold, hpsz, hnext, hcase⟩ := heff.ex
      have hcnt : ∀ t a, cnt a (packers (s.upd b.tpe pm' t)) =
          ((b :: s.accepted).filter (fun x => x.tpe = t)).count a := by
        intro t a
        by_cases ht : t = b.tpe
        · subst ht
          simp only [Sess.upd, if_true, List.filter_cons, decide_true]
          rw [heff.count_eq a, h.cnt, List.count_cons]; simp
        · have : ¬ b.tpe = t := fun h' => ht h'.symm
          simp only [Sess.upd, ht, if_false, List.filter_cons, this, decide_false]
          exact h.cnt t a
      have hinvs : ∀ t, PMInv c (s.upd b.tpe pm' t) := by
        intro t; simp only [Sess.upd]; split
        · exact hinv'
        · exact h.inv t
      have hpszs : ∀ t, (s.upd b.tpe pm' t).packSize = ps := by
        intro t; simp only [Sess.upd]; split
        · rw [hpsz]; exact h.psz _
        · exact h.psz t
      rcases hcase with ⟨_, hq', _, _, sz, hout⟩ | ⟨_, hq', sz, hout⟩
      · subst hout
        refine ⟨hinvs, hpszs, ?_, hcnt⟩
        have := pipe_push (s := s) b.tpe pm' [] [] (by simpa using hq') (by simp [tag]) h.pipe
        simpa [pipeline] using this
      · subst hout
        refine ⟨hinvs, hpszs, ?_, hcnt⟩
        have := pipe_push (s := s) b.tpe pm' [p.add b] [(b.tpe, p.add b)] (by simpa using hq') (by simp [tag]) h.pipe
        simpa [pipeline] using this
  | flush t =>
    simp only [Sess.step]
    have hinv' := flush_inv hc (h.inv t)
    refine ⟨?_, ?_, ?_, ?_⟩
    · intro t'; simp only [Sess.upd]; split
      · exact hinv'
      · exact h.inv t'
    · intro t'; simp only [Sess.upd]; split
      · exact h.psz t
      · exact h.psz t'
    · have := pipe_push (s := s) t ((s.pm t).flush c) ((s.pm t).mergePackers c)
        (((s.pm t).mergePackers c).reverse.map (fun q => (t, q))) rfl
        (by simp only [tag]; exact (List.reverse_perm _).map _) h.pipe
      simpa [pipeline] using this
    · intro t' a; simp only [Sess.upd]
      split
      · rename_i ht; subst ht
        rw [flush_cnt hc (h.inv _) a]; exact h.cnt _ a
      · exact h.cnt t' a
  | upload k =>
    simp only [Sess.step]
    cases hk : s.chan[k]? with
    | none => exact h
    | some x =>
      obtain ⟨t, q⟩ := x
      refine ⟨h.inv, h.psz, ?_, h.cnt⟩
      have hp := perm_of_getElem? hk
      have : (s.chan.eraseIdx k ++ (s.uploaded ++ [(t, q)]) ++ s.indexed).Perm (pipeline s) := by
        simp only [pipeline]
        refine List.Perm.append_right _ ?_
        have h1 : (s.chan.eraseIdx k ++ (s.uploaded ++ [(t, q)])).Perm ((t, q) :: (s.chan.eraseIdx k ++ s.uploaded)) := by
          rw [← List.append_assoc]
          exact List.perm_append_comm
        exact h1.trans (List.Perm.append_right s.uploaded hp.symm)
      exact this.trans h.pipe
  | store k =>
    simp only [Sess.step]
    cases hk : s.uploaded[k]? with
    | none => exact h
    | some x =>
      obtain ⟨t, q⟩ := x
      refine ⟨h.inv, h.psz, ?_, h.cnt⟩
      have hp := perm_of_getElem? hk
      have : (s.chan ++ s.uploaded.eraseIdx k ++ (s.indexed ++ [(t, q)])).Perm (pipeline s) := by
        simp only [pipeline, List.append_assoc]
        refine List.Perm.append_left _ ?_
        refine List.Perm.trans ?_ (List.Perm.append_right _ hp.symm)
        simp only [List.cons_append]
        exact ((List.Perm.append_left _ List.perm_append_comm).trans List.perm_middle)
      exact this.trans h.pipe

theorem sess_init_inv (c : Cfg) (ps n : Nat) : SessInv c ps (Sess.init ps n) := by
  have h := init_inv c ps n
  refine ⟨fun _ => h.inv, fun _ => rfl, by simp [pipeline, allQueuedOf, Sess.init, PM.init, tag], fun t a => ?_⟩
  simpa [Sess.init] using h.cnt a

theorem sess_foldl_inv {c : Cfg} (hc : CfgOK c) {ps : Nat} (hps : 0 < ps) :
    ∀ (acts : List Act) (s : Sess), SessInv c ps s → SessInv c ps (acts.foldl (Sess.step c) s)
  | [], _, h => h
  | a :: acts, s, h => sess_foldl_inv hc hps acts _ (Sess.step_inv hc hps h a)

theorem sess_run_inv {c : Cfg} (hc : CfgOK c) {ps : Nat} (hps : 0 < ps) (n : Nat) (acts : List Act) :
    SessInv c ps (Sess.run c ps n acts) :=
  sess_foldl_inv hc hps acts _ (sess_init_inv c ps n)

theorem mem_allQueued {pm : BlobType → PM} {t : BlobType} {p : Packer} :
    (t, p) ∈ allQueuedOf pm ↔ p ∈ (pm t).queued := by
  cases t <;> simp [allQueuedOf, tag]

theorem cnt_pos_of_mem {a : Blob} {l : List Packer} {p : Packer} (hp : p ∈ l) (ha : a ∈ p.blobs) : 0 < cnt a l := by
  induction l with
  | nil => cases hp
  | cons q l ih =>
    rw [cnt_cons]
    rcases List.mem_cons.mp hp with h | h
    · subst h; have := List.count_pos_iff.mpr ha; omega
    · have := ih h; omega

theorem SessInv.tpe_of_mem {c : Cfg} {ps : Nat} {s : Sess} (h : SessInv c ps s) {t : BlobType} {p : Packer}
    (hp : p ∈ packers (s.pm t)) {b : Blob} (hb : b ∈ p.blobs) : b.tpe = t := by
  have h1 := cnt_pos_of_mem hp hb
  rw [h.cnt t b] at h1
  have := List.count_pos_iff.mp h1
  simpa using (List.mem_filter.mp this).2

/-- **no_type_mix**: whatever the schedule, a packer of the tree manager only ever holds tree blobs
    and a packer of the data manager only data blobs — open packers as well as every pack on its way
    through the uploader (the type recorded with the upload task is the type of all its blobs). -/
theorem no_type_mix (ps : Nat) (hps : 0 < ps) (n : Nat) (acts : List Act) :
    let s := Sess.run genCfg ps n acts
    (∀ t, ∀ p ∈ slotPackers (s.pm t), ∀ b ∈ p.blobs, b.tpe = t) ∧
    (∀ x ∈ pipeline s, ∀ b ∈ x.2.blobs, b.tpe = x.1) := by
  intro s
  have h := sess_run_inv genCfg_ok hps n acts
  refine ⟨fun t p hp b hb => h.tpe_of_mem (List.mem_append_left _ hp) hb, ?_⟩
  rintro ⟨t, p⟩ hx b hb
  have : p ∈ (s.pm t).queued := mem_allQueued.mp (h.pipe.subset hx)
  exact h.tpe_of_mem (List.mem_append_right _ this) hb

/-- **header_bound / no_add_after_full** for the session: every pack that reaches the uploader
    (waiting, uploaded or indexed), under every schedule -/
theorem sess_packs_good (ps : Nat) (hps : 0 < ps) (n : Nat) (acts : List Act) :
    ∀ x ∈ pipeline (Sess.run genCfg ps n acts),
      x.2.headerBytes genCfg ≤ Restic.Gen.pack_MaxHeaderSize ∧ x.2.finalizeOK genCfg = true ∧
      noAddAfterFull genCfg ps x.2.blobs = true := by
  rintro ⟨t, p⟩ hx
  have h := sess_run_inv genCfg_ok hps n acts
  have hq : p ∈ ((Sess.run genCfg ps n acts).pm t).queued := mem_allQueued.mp (h.pipe.subset hx)
  have hg := (h.inv t).goods p hq
  rw [h.psz t] at hg
  exact ⟨hg.header_le genCfg_ok, hg.finalizeOK genCfg_ok, hg.2.2⟩

theorem count_split (a : Blob) (l : List Blob) :
    (l.filter (fun b => b.tpe = .tree)).count a + (l.filter (fun b => b.tpe = .data)).count a = l.count a := by
  induction l with
  | nil => rfl
  | cons b l ih =>
    cases hb : b.tpe <;> simp [hb, List.count_cons] <;> omega

def ids (l : List (BlobType × Packer)) : List (BlobType × Nat) := l.map (fun x => (x.1, x.2.serial))

theorem SessInv.ids_nodup {c : Cfg} {ps : Nat} {s : Sess} (h : SessInv c ps s) : (ids (pipeline s)).Nodup := by
  have hp : (ids (pipeline s)).Perm (ids (allQueuedOf s.pm)) := h.pipe.map _
  rw [hp.nodup_iff]
  have ht : ((s.pm .tree).queued.map (·.serial)).Nodup := by
    have := (h.inv .tree).nodup
    rw [packers, List.map_append, List.nodup_append] at this; exact this.2.1
  have hd : ((s.pm .data).queued.map (·.serial)).Nodup := by
    have := (h.inv .data).nodup
    rw [packers, List.map_append, List.nodup_append] at this; exact this.2.1
  simp only [ids, allQueuedOf, tag, List.map_append, List.map_map]
  rw [List.nodup_append]
  refine ⟨?_, ?_, ?_⟩
  · have : (List.map ((fun x => (x.1, x.2.serial)) ∘ fun q => (BlobType.tree, q)) (s.pm .tree).queued) =
        ((s.pm .tree).queued.map (·.serial)).map (fun n => (BlobType.tree, n)) := by simp
    rw [this]; exact List.Pairwise.map _ (fun a b hab => by simpa using hab) ht
  · have : (List.map ((fun x => (x.1, x.2.serial)) ∘ fun q => (BlobType.data, q)) (s.pm .data).queued) =
        ((s.pm .data).queued.map (·.serial)).map (fun n => (BlobType.data, n)) := by simp
    rw [this]; exact List.Pairwise.map _ (fun a b hab => by simpa using hab) hd
  · intro a ha b hb hab
    simp only [List.mem_map, Function.comp] at ha hb
    obtain ⟨_, _, rfl⟩ := ha
    obtain ⟨_, _, rfl⟩ := hb
    simp at hab

/-- the upload session has ended: both managers flushed, the uploader drained (`packerWg.Wait()`
    returned) -/
def ended (s : Sess) : Prop := s.chan = [] ∧ s.uploaded = [] ∧ ∀ t, slotPackers (s.pm t) = []

/-- **blob_in_one_pack**: for every schedule of savers, uploader goroutines and flushes and every
    packer choice: once the session has ended, the accepted blobs are exactly (as a multiset, i.e.
    occurrence by occurrence) the blobs of the packs that were uploaded and indexed, and these packs
    are pairwise different packers. -/
theorem blob_in_one_pack (ps : Nat) (hps : 0 < ps) (n : Nat) (acts : List Act)
    (hend : ended (Sess.run genCfg ps n acts)) :
    let s := Sess.run genCfg ps n acts
    (s.indexed.flatMap (·.2.blobs)).Perm s.accepted ∧ (ids s.indexed).Nodup := by
  intro s
  have h := sess_run_inv genCfg_ok hps n acts
  obtain ⟨hc, hu, hs⟩ := hend
  have hpipe : pipeline s = s.indexed := by
    show pipeline (Sess.run genCfg ps n acts) = (Sess.run genCfg ps n acts).indexed
    simp [pipeline, hc, hu]
  refine ⟨?_, by have := h.ids_nodup; rw [show pipeline (Sess.run genCfg ps n acts) = s.indexed from hpipe] at this; exact this⟩
  have hperm := h.pipe
  rw [hpipe] at hperm
  refine (hperm.flatMap_right _).trans ?_
  rw [List.perm_iff_count]
  intro a
  have ht := h.cnt .tree a
  have hd := h.cnt .data a
  simp only [packers, hs, List.nil_append] at ht hd
  simp only [allQueuedOf, tag, List.flatMap_append, List.count_append, List.flatMap_map]
  rw [List.count_flatMap, List.count_flatMap]
  have e1 : (List.map (List.count a ∘ fun q => q.blobs) (s.pm .tree).queued).sum = cnt a (s.pm .tree).queued := rfl
  have e2 : (List.map (List.count a ∘ fun q => q.blobs) (s.pm .data).queued).sum = cnt a (s.pm .data).queued := rfl
  rw [e1, e2, ht, hd]
  exact count_split a _

/-! ### event order: queued once, uploaded after queued, indexed after uploaded -/

structure LogInv (s : Sess) : Prop where
  ord : orderOK s.log = true
  q_iff : ∀ t n, Ev.queue t n ∈ s.log ↔ (t, n) ∈ ids (pipeline s)
  u_iff : ∀ t n, Ev.upload t n ∈ s.log ↔ (t, n) ∈ ids (s.uploaded ++ s.indexed)
  i_iff : ∀ t n, Ev.index t n ∈ s.log ↔ (t, n) ∈ ids s.indexed

theorem orderOK_queues : ∀ (N : List (BlobType × Nat)) (log : List Ev), orderOK log = true → N.Nodup →
    (∀ x ∈ N, Ev.queue x.1 x.2 ∉ log) →
    orderOK ((N.map (fun x => Ev.queue x.1 x.2)).reverse ++ log) = true
  | [], log, h, _, _ => by simpa using h
  | x :: N, log, h, hnd, hnot => by
    simp only [List.map_cons, List.reverse_cons, List.append_assoc, List.singleton_append]
    apply orderOK_queues N
    · simp only [orderOK, h, Bool.true_and, Bool.not_eq_true', List.contains_eq_mem, decide_eq_false_iff_not]
      exact hnot x List.mem_cons_self
    · exact (List.nodup_cons.mp hnd).2
    · intro y hy hmem
      rcases List.mem_cons.mp hmem with h1 | h1
      · have : y = x := by cases x; cases y; simp at h1; simp [h1]
        exact (List.nodup_cons.mp hnd).1 (this ▸ hy)
      · exact hnot y (List.mem_cons_of_mem _ hy) h1

theorem mem_queues_append {N : List (BlobType × Nat)} {log : List Ev} {e : Ev} :
    e ∈ (N.map (fun x => Ev.queue x.1 x.2)).reverse ++ log ↔ (∃ x ∈ N, e = Ev.queue x.1 x.2) ∨ e ∈ log := by
  simp [eq_comm]

theorem ids_erase {l : List (BlobType × Packer)} {k : Nat} {x : BlobType × Packer} (h : l[k]? = some x)
    (a : BlobType × Nat) :
    (ids l).count a = (ids (l.eraseIdx k)).count a + (if (x.1, x.2.serial) == a then 1 else 0) := by
  have := ((perm_of_getElem? h).map (fun x => (x.1, x.2.serial))).count_eq a
  simpa [ids, List.count_cons] using this

/-- effect of a step that sends the packers `new` to the channel -/
theorem LogInv.push {s s' : Sess} (h : LogInv s) (new : List (BlobType × Packer))
    (hchan : s'.chan = s.chan ++ new) (hup : s'.uploaded = s.uploaded) (hix : s'.indexed = s.indexed)
    (hlog : s'.log = ((ids new).map (fun x => Ev.queue x.1 x.2)).reverse ++ s.log)
    (hnd : (ids (pipeline s')).Nodup) : LogInv s' := by
  have hpipe : (ids (pipeline s')).Perm (ids new ++ ids (pipeline s)) := by
    simp only [pipeline, hchan, hup, hix, ids, List.map_append, List.append_assoc]
    exact List.perm_append_comm_assoc _ _ _
  have hnd' := hpipe.nodup_iff.mp hnd
  rw [List.nodup_append] at hnd'
  refine ⟨?_, ?_, ?_, ?_⟩
  · rw [hlog]
    apply orderOK_queues _ _ h.ord hnd'.1
    intro x hx hmem
    exact hnd'.2.2 x hx x ((h.q_iff x.1 x.2).mp hmem) rfl
  · intro t n
    rw [hlog, mem_queues_append, h.q_iff, hpipe.mem_iff, List.mem_append]
    constructor
    · rintro (⟨x, hx, he⟩ | h1)
      · cases he; exact Or.inl hx
      · exact Or.inr h1
    · rintro (h1 | h1)
      · exact Or.inl ⟨(t, n), h1, rfl⟩
      · exact Or.inr h1
  · intro t n
    rw [hlog, mem_queues_append, h.u_iff, hup, hix]
    constructor
    · rintro (⟨x, _, he⟩ | h1)
      · cases he
      · exact h1
    · exact Or.inr
  · intro t n
    rw [hlog, mem_queues_append, h.i_iff, hix]
    constructor
    · rintro (⟨x, _, he⟩ | h1)
      · cases he
      · exact h1
    · exact Or.inr

theorem LogInv.step {c : Cfg} (hc : CfgOK c) {ps : Nat} (hps : 0 < ps) {s : Sess} (hs : SessInv c ps s)
    (h : LogInv s) (a : Act) : LogInv (s.step c a) := by
  have hnd' := (Sess.step_inv hc hps hs a).ids_nodup
  have hnd := hs.ids_nodup
  cases a with
  | save b idx =>
    simp only [Sess.step] at hnd' ⊢
    rcases hres : (s.pm b.tpe).saveBlob c b idx with ⟨pm', out⟩
    rw [hres] at hnd'
    cases out with
    | panic => exact h
    | ok sz q =>
      cases q with
      | none => exact h.push [] (by simp) rfl rfl (by simp [ids]) hnd'
      | some q => exact h.push [(b.tpe, q)] rfl rfl rfl (by simp [ids]) hnd'
  | flush t =>
    simp only [Sess.step] at hnd' ⊢
    refine h.push (((s.pm t).mergePackers c).reverse.map (fun q => (t, q))) rfl rfl rfl ?_ hnd'
    simp [ids, Function.comp_def]
  | upload k =>
    simp only [Sess.step] at hnd' ⊢
    cases hk : s.chan[k]? with
    | none => exact h
    | some x =>
      obtain ⟨t, q⟩ := x
      rw [hk] at hnd'
      simp only at hnd' ⊢
      have hcnt := ids_erase hk
      have hP1 : (ids (s.chan.eraseIdx k ++ (s.uploaded ++ [(t, q)]) ++ s.indexed)).Perm (ids (pipeline s)) := by
        rw [List.perm_iff_count]; intro a; have := hcnt a
        simp only [pipeline, ids, List.map_append, List.map_cons, List.map_nil, List.count_append, List.count_cons, List.count_nil] at this ⊢
        omega
      have hP2 : (ids (s.uploaded ++ [(t, q)] ++ s.indexed)).Perm ((t, q.serial) :: ids (s.uploaded ++ s.indexed)) := by
        rw [List.perm_iff_count]; intro a
        simp only [ids, List.map_append, List.map_cons, List.map_nil, List.count_append, List.count_cons, List.count_nil]
        omega
      have hP0 : (ids (pipeline s)).Perm ((t, q.serial) :: (ids (s.chan.eraseIdx k) ++ ids (s.uploaded ++ s.indexed))) := by
        rw [List.perm_iff_count]; intro a; have := hcnt a
        simp only [pipeline, ids, List.map_append, List.count_append, List.count_cons] at this ⊢
        omega
      have hnd2 := hP0.nodup_iff.mp hnd
      rw [List.nodup_cons] at hnd2
      have hnotU : (t, q.serial) ∉ ids (s.uploaded ++ s.indexed) := fun hm => hnd2.1 (List.mem_append_right _ hm)
      have hmemQ : (t, q.serial) ∈ ids (pipeline s) := hP0.symm.subset List.mem_cons_self
      refine ⟨?_, ?_, ?_, ?_⟩
      · simp only [orderOK, h.ord, Bool.true_and, Bool.and_eq_true, Bool.not_eq_true', List.contains_eq_mem,
          decide_eq_true_eq, decide_eq_false_iff_not]
        exact ⟨(h.q_iff t q.serial).mpr hmemQ, fun hm => hnotU ((h.u_iff t q.serial).mp hm)⟩
      · intro t' n'
        simp only [pipeline] at hP1 ⊢
        rw [List.mem_cons, hP1.mem_iff]
        have := h.q_iff t' n'
        simp only [pipeline] at this
        rw [← this]; simp
      · intro t' n'
        rw [List.mem_cons, hP2.mem_iff, List.mem_cons, ← h.u_iff]; simp
      · intro t' n'
        rw [List.mem_cons, ← h.i_iff]; simp
  | store k =>
    simp only [Sess.step] at hnd' ⊢
    cases hk : s.uploaded[k]? with
    | none => exact h
    | some x =>
      obtain ⟨t, q⟩ := x
      rw [hk] at hnd'
      simp only at hnd' ⊢
      have hcnt := ids_erase hk
      have hP1 : (ids (s.chan ++ s.uploaded.eraseIdx k ++ (s.indexed ++ [(t, q)]))).Perm (ids (pipeline s)) := by
        rw [List.perm_iff_count]; intro a; have := hcnt a
        simp only [pipeline, ids, List.map_append, List.map_cons, List.map_nil, List.count_append, List.count_cons, List.count_nil] at this ⊢
        omega
      have hP2 : (ids (s.uploaded.eraseIdx k ++ (s.indexed ++ [(t, q)]))).Perm (ids (s.uploaded ++ s.indexed)) := by
        rw [List.perm_iff_count]; intro a; have := hcnt a
        simp only [ids, List.map_append, List.map_cons, List.map_nil, List.count_append, List.count_cons, List.count_nil] at this ⊢
        omega
      have hP3 : (ids (s.indexed ++ [(t, q)])).Perm ((t, q.serial) :: ids s.indexed) := by
        rw [List.perm_iff_count]; intro a
        simp only [ids, List.map_append, List.map_cons, List.map_nil, List.count_append, List.count_cons, List.count_nil]
        omega
      have hP0 : (ids (pipeline s)).Perm ((t, q.serial) :: (ids s.chan ++ ids (s.uploaded.eraseIdx k) ++ ids s.indexed)) := by
        rw [List.perm_iff_count]; intro a; have := hcnt a
        simp only [pipeline, ids, List.map_append, List.count_append, List.count_cons] at this ⊢
        omega
      have hnd2 := hP0.nodup_iff.mp hnd
      rw [List.nodup_cons] at hnd2
      have hnotI : (t, q.serial) ∉ ids s.indexed := fun hm => hnd2.1 (List.mem_append_right _ hm)
      have hmemU : (t, q.serial) ∈ ids (s.uploaded ++ s.indexed) := by
        have hp := perm_of_getElem? hk
        exact List.mem_map.mpr ⟨(t, q), List.mem_append_left _ (hp.symm.subset List.mem_cons_self), rfl⟩
      refine ⟨?_, ?_, ?_, ?_⟩
      · simp only [orderOK, h.ord, Bool.true_and, Bool.and_eq_true, Bool.not_eq_true', List.contains_eq_mem,
          decide_eq_true_eq, decide_eq_false_iff_not]
        exact ⟨(h.u_iff t q.serial).mpr hmemU, fun hm => hnotI ((h.i_iff t q.serial).mp hm)⟩
      · intro t' n'
        simp only [pipeline] at hP1 ⊢
        rw [List.mem_cons, hP1.mem_iff]
        have := h.q_iff t' n'
        simp only [pipeline] at this
        rw [← this]; simp
      · intro t' n'
        rw [List.mem_cons, hP2.mem_iff, ← h.u_iff]; simp
      · intro t' n'
        rw [List.mem_cons, hP3.mem_iff, List.mem_cons, ← h.i_iff]; simp

theorem log_foldl {c : Cfg} (hc : CfgOK c) {ps : Nat} (hps : 0 < ps) :
    ∀ (acts : List Act) (s : Sess), SessInv c ps s → LogInv s → LogInv (acts.foldl (Sess.step c) s)
  | [], _, _, h => h
  | a :: acts, s, hs, h => log_foldl hc hps acts _ (Sess.step_inv hc hps hs a) (h.step hc hps hs a)

/-- **uploaded, then indexed, each exactly once**: for every schedule the event log of the session is
    ordered (`orderOK`): a packer is handed to the uploader at most once, written to the backend only
    after that and at most once, and indexed (`StorePack`) only after the backend write, at most once;
    moreover every indexed pack has its upload event in the log. -/
theorem upload_then_index (ps : Nat) (hps : 0 < ps) (n : Nat) (acts : List Act) :
    let s := Sess.run genCfg ps n acts
    orderOK s.log = true ∧
    (∀ x ∈ s.indexed, Ev.index x.1 x.2.serial ∈ s.log ∧ Ev.upload x.1 x.2.serial ∈ s.log ∧ Ev.queue x.1 x.2.serial ∈ s.log) := by
  intro s
  have hl : LogInv s := log_foldl genCfg_ok hps acts _ (sess_init_inv genCfg ps n)
    ⟨rfl, by simp [Sess.init, pipeline, ids], by simp [Sess.init, ids], by simp [Sess.init, ids]⟩
  refine ⟨hl.ord, fun x hx => ?_⟩
  have hi : (x.1, x.2.serial) ∈ ids s.indexed := List.mem_map.mpr ⟨x, hx, rfl⟩
  refine ⟨(hl.i_iff _ _).mpr hi, (hl.u_iff _ _).mpr ?_, (hl.q_iff _ _).mpr ?_⟩
  · simp only [ids, List.map_append, List.mem_append]; exact Or.inr hi
  · simp only [ids, pipeline, List.map_append, List.mem_append]; exact Or.inr hi

/-! ### the shape of a session end (`flushPackUploader`) -/

def isDrain : Act → Bool
  | .upload _ => true
  | .store _ => true
  | _ => false

theorem drain_pm (c : Cfg) : ∀ (drain : List Act) (s : Sess), (∀ a ∈ drain, isDrain a = true) →
    (drain.foldl (Sess.step c) s).pm = s.pm
  | [], _, _ => rfl
  | a :: drain, s, h => by
    have h1 : (s.step c a).pm = s.pm := by
      have ha := h a List.mem_cons_self
      cases a with
      | save _ _ => simp [isDrain] at ha
      | flush _ => simp [isDrain] at ha
      | upload k => simp only [Sess.step]; split <;> rfl
      | store k => simp only [Sess.step]; split <;> rfl
    rw [List.foldl_cons, drain_pm c drain _ (fun a ha => h a (List.mem_cons_of_mem _ ha)), h1]

/-- `flushPackUploader`: after `treePM.Flush`, `dataPM.Flush` and any amount of uploader activity, if
    the uploader has drained (nothing waiting, nothing uploaded-but-unindexed: `packerWg.Wait()`
    returned) the session has ended in the sense of `blob_in_one_pack`. -/
theorem ended_of_flush_drain (c : Cfg) (ps n : Nat) (pre drain : List Act) (hd : ∀ a ∈ drain, isDrain a = true)
    (hq : (Sess.run c ps n (pre ++ [.flush .tree, .flush .data] ++ drain)).chan = [])
    (hu : (Sess.run c ps n (pre ++ [.flush .tree, .flush .data] ++ drain)).uploaded = []) :
    ended (Sess.run c ps n (pre ++ [.flush .tree, .flush .data] ++ drain)) := by
  refine ⟨hq, hu, fun t => ?_⟩
  simp only [Sess.run, List.foldl_append, List.foldl_cons, List.foldl_nil]
  rw [drain_pm c drain _ hd]
  cases t <;> simp [Sess.step, Sess.upd, slotPackers_flush]


/-! ### F9: why the unfixed merge rule (byte size only) is not enough -/

/-- a packer holding `k` one-byte uncompressed data blobs -/
def tiny (serial k : Nat) : Packer := ⟨serial, List.replicate k ⟨.data, 0, 1, 0⟩, k, k⟩

theorem tiny_open {c : Cfg} {ps : Nat} (serial k : Nat) (hk : k + 1 < ps)
    (hh : c.headerSize + (k + 2) * c.entrySize ≤ c.maxHeaderSize) : Open c ps (tiny serial (k + 1)) := by
  have hsum : sumLen (List.replicate k (⟨.data, 0, 1, 0⟩ : Blob)) = k := by
    simp [sumLen, List.map_replicate, List.sum_replicate_nat]
  have hle : (k + 1) * c.entrySize ≤ (k + 2) * c.entrySize := Nat.mul_le_mul_right _ (by omega)
  refine ⟨⟨⟨by simp [tiny], ?_⟩, by simp only [tiny]; omega, ?_⟩, by simp only [tiny]; omega, ?_⟩
  · simp [tiny, sumLen, List.map_replicate, List.sum_replicate_nat]
  · simp only [tiny, List.replicate_succ, noAddAfterFull, Bool.and_eq_true, decide_eq_true_eq, Bool.not_eq_true',
      hsum, List.length_replicate]
    exact ⟨by omega, hdrFull_false.mpr (by omega)⟩
  · simp only [tiny]; exact hdrFull_false.mpr hh

/-- two legitimate open packers with `k+1` one-byte blobs each, whose combined byte size passes the
    size test of `mergePackers` but whose merged header does not fit -/
theorem merge_on_size_only_overflows_gen {c : Cfg} {ps : Nat} (k : Nat) (hk : 2 * (k + 1) < ps)
    (hopen : c.headerSize + (k + 2) * c.entrySize ≤ c.maxHeaderSize)
    (hover : c.maxHeaderSize < c.headerSize + 2 * (k + 1) * c.plainEntrySize)
    (hcount : c.maxHeaderEntries < 2 * (k + 1)) :
    Open c ps (tiny 0 (k + 1)) ∧ Open c ps (tiny 1 (k + 1)) ∧
      (tiny 0 (k + 1)).bytes + (tiny 1 (k + 1)).bytes < ps ∧
      ((tiny 0 (k + 1)).merge (tiny 1 (k + 1))).finalizeOK c = false ∧
      ¬ ((tiny 0 (k + 1)).n + (tiny 1 (k + 1)).n ≤ c.maxHeaderEntries) := by
  refine ⟨tiny_open 0 k (by omega) hopen, tiny_open 1 k (by omega) hopen, by simp only [tiny]; omega, ?_, by simp only [tiny]; omega⟩
  have hb : (fun b => entryBytes c b) (⟨.data, 0, 1, 0⟩ : Blob) = c.plainEntrySize := by simp [entryBytes]
  simp only [Packer.finalizeOK, Packer.headerBytes, merge_blobs, tiny, List.map_append, List.map_replicate,
    List.sum_append, List.sum_replicate_nat, hb, decide_eq_false_iff_not]
  have : 2 * (k + 1) * c.plainEntrySize = (k + 1) * c.plainEntrySize + (k + 1) * c.plainEntrySize := by
    rw [Nat.mul_assoc, Nat.two_mul]
  omega

/-- **Negation witness for the unfixed code (F9).** Two packers with 240 000 one-byte blobs each are
    legitimate open packers of a manager with the default pack size; their combined byte size is far
    below the pack size — the only thing `mergePackers` tested before the fix — but the merged
    packer's header (17.8 MB) exceeds `MaxHeaderSize`, so `Finalize` fails. The fixed rule refuses
    this merge because the entry counts add up to more than `MaxHeaderEntries`. -/
theorem merge_on_size_only_overflows :
    Open genCfg Restic.Gen.repo_DefaultPackSize (tiny 0 (239999 + 1)) ∧
    Open genCfg Restic.Gen.repo_DefaultPackSize (tiny 1 (239999 + 1)) ∧
      (tiny 0 (239999 + 1)).bytes + (tiny 1 (239999 + 1)).bytes < Restic.Gen.repo_DefaultPackSize ∧
      ((tiny 0 (239999 + 1)).merge (tiny 1 (239999 + 1))).finalizeOK genCfg = false ∧
      ¬ ((tiny 0 (239999 + 1)).n + (tiny 1 (239999 + 1)).n ≤ genCfg.maxHeaderEntries) :=
  merge_on_size_only_overflows_gen 239999 (by decide) (by decide) (by decide) (by decide)

/-! ### facts regenerated from the source (tie T1) -/

/-- position of the first occurrence -/
def pos (x : String) (l : List String) : Nat := l.findIdx (· == x)

/-- `packerManager.SaveBlob` takes `r.pm` first (and releases it by `defer`), then picks a packer,
    adds, tests size and header, forgets and queues: one atomic step of the model. -/
theorem saveBlob_shape :
    Restic.Gen.pmSaveBlob_calls.take 2 = ["r.pm.Lock", "r.pm.Unlock"] ∧
    (Restic.Gen.pmSaveBlob_calls.filter (fun c => c ∈ ["r.pickPacker", "packer.Add", "packer.Size", "packer.HeaderFull", "r.forgetPacker", "r.queueFn"])) =
      ["r.pickPacker", "packer.Add", "packer.Size", "packer.HeaderFull", "packer.Size", "r.forgetPacker", "r.queueFn"] := by
  decide

/-- `Flush` runs under the same mutex and queues what `mergePackers` returns -/
theorem flush_shape :
    Restic.Gen.pmFlush_calls.take 2 = ["r.pm.Lock", "r.pm.Unlock"] ∧
    pos "r.mergePackers" Restic.Gen.pmFlush_calls < pos "r.queueFn" Restic.Gen.pmFlush_calls ∧
    "r.queueFn" ∈ Restic.Gen.pmFlush_calls := by
  decide

/-- the merge condition looks at both sizes **and** both entry counts (the fix of F9) -/
theorem merge_checks_count :
    ["p.Size", "packer.Size", "p.Count", "packer.Count"].all (· ∈ Restic.Gen.pmMergePackers_calls) = true ∧
    pos "packer.Count" Restic.Gen.pmMergePackers_calls < pos "p.Merge" Restic.Gen.pmMergePackers_calls := by
  decide

/-- `savePacker`: Finalize, then the backend write, then `StorePack` (upload before index) -/
theorem savePacker_upload_before_index :
    pos "p.Packer.Finalize" Restic.Gen.savePacker_calls < pos "r.be.Save" Restic.Gen.savePacker_calls ∧
    pos "r.be.Save" Restic.Gen.savePacker_calls < pos "r.idx.StorePack" Restic.Gen.savePacker_calls ∧
    "r.idx.StorePack" ∈ Restic.Gen.savePacker_calls := by
  decide

/-- `flushPackUploader` / `flush`: both managers are flushed, then the uploader is shut down and
    waited for, and only then the index is flushed: the session shape of `ended_of_flush_drain`. -/
theorem flush_order :
    Restic.Gen.flushPackUploader_calls = ["r.treePM.Flush", "r.dataPM.Flush", "r.uploader.TriggerShutdown", "r.packerWg.Wait"] ∧
    Restic.Gen.repoFlush_calls = ["r.flushBlobSaver", "r.flushPackUploader", "r.idx.Flush"] := by
  decide

/-- `Packer.HeaderFull` (the test `hdrFull` of the model transcribes) asks whether ONE MORE entry still
    fits: it takes the packer lock, and the only conversions / literals in its body are
    `uint(len(p.blobs) + 1)` and `1`, i.e. the expression is
    `headerSize + uint(len(p.blobs)+1)*entrySize > MaxHeaderSize` and not a comparison of the current
    count with a limit. (The constants themselves are regenerated, `consts_ok`.) -/
theorem headerFull_expr :
    Restic.Gen.headerFull_callargs = ["p.m.Lock()", "p.m.Unlock()", "len(p.blobs)", "uint(len(p.blobs) + 1)"] ∧
    Restic.Gen.headerFull_literals = ["1"] := by
  decide

/-- `saveAndEncrypt` dispatches on the blob type: tree blobs to `treePM`, data blobs to `dataPM`,
    anything else panics (`Sess.step`'s `.save`). -/
theorem dispatch_cases : Restic.Gen.saveAndEncrypt_cases = ["restic.TreeBlob", "restic.DataBlob", "default"] := by
  decide

/-- constants: the oracle range of `pickPacker` is not empty, every admissible pack size is positive
    (hypothesis `0 < ps` of the theorems), and the layout constants satisfy `CfgOK` (`genCfg_ok`);
    `MaxHeaderEntries` is exactly the largest entry count whose header fits. -/
theorem consts_ok :
    0 < Restic.Gen.repo_defaultPackerCount ∧ 0 < Restic.Gen.repo_MinPackSize ∧ CfgOK genCfg ∧
    genCfg.headerSize + (genCfg.maxHeaderEntries + 1) * genCfg.entrySize > genCfg.maxHeaderSize :=
  ⟨by decide, by decide, genCfg_ok, by decide⟩

/-! ### non-vacuity -/

/-- a small concrete history: three blobs into two packers (pack size 100), the second one fills
    packer 0; the final Flush merges nothing (one open packer) — two packs are handed to the uploader -/
example : ((run genCfg 100 2 [.save ⟨.data, 1, 60, 0⟩ 0, .save ⟨.data, 2, 50, 0⟩ 0, .save ⟨.data, 3, 10, 7⟩ 1, .flush]).pm.queued.map
    (fun p => (p.serial, p.n, p.bytes))) = [(1, 1, 10), (0, 2, 110)] := by decide

/-- Flush merges two small open packers into one pack -/
example : ((run genCfg 100 2 [.save ⟨.data, 1, 20, 0⟩ 0, .save ⟨.data, 2, 30, 0⟩ 1, .flush]).pm.queued.map
    (fun p => (p.serial, p.blobs.map (·.id)))) = [(0, [2, 1])] := by decide

/-- an oversized blob gets its own pack and is queued at once -/
example : ((run genCfg 100 2 [.save ⟨.tree, 1, 100, 0⟩ 0]).pm.queued.map (·.n), slotPackers (run genCfg 100 2 [.save ⟨.tree, 1, 100, 0⟩ 0]).pm)
    = ([1], []) := by decide

/-- a complete session: one tree blob, two data blobs, flushes, both packs uploaded and indexed;
    the hypotheses of `blob_in_one_pack` are satisfiable -/
example : ended (Sess.run genCfg 100 2
    [.save ⟨.tree, 1, 10, 0⟩ 0, .save ⟨.data, 2, 30, 0⟩ 1, .save ⟨.data, 3, 30, 0⟩ 0, .flush .tree, .flush .data,
     .upload 1, .upload 0, .store 0, .store 0]) ∧
    (Sess.run genCfg 100 2
    [.save ⟨.tree, 1, 10, 0⟩ 0, .save ⟨.data, 2, 30, 0⟩ 1, .save ⟨.data, 3, 30, 0⟩ 0, .flush .tree, .flush .data,
     .upload 1, .upload 0, .store 0, .store 0]).indexed.length = 2 := by
  refine ⟨⟨by decide, by decide, fun t => by cases t <;> decide⟩, by decide⟩

end Restic.Props.C44
