import Restic.Model.Fuse
/-!
# C46 — Reading a mounted file returns exactly the requested byte range

Theorems about `Restic.Model.Fuse` (transcription of `file.Open` / `openFile.Read` of
internal/fuse/file.go and of `sort.Search`). All statements hold for every blob layout (any
number of blobs, any sizes, empty blobs anywhere), every offset and every request size.
-/
namespace Restic.Props.C46
open Restic.Model.Fuse

/-! ### `cumsize` -/

theorem cumsizeFrom_length (acc : Nat) (ss : List Nat) :
    (cumsizeFrom acc ss).length = ss.length + 1 := by
  induction ss generalizing acc with
  | nil => rfl
  | cons s ss ih => simp [cumsizeFrom, ih]

/-- `cumsize[i]` is the total length of the first `i` blobs -/
theorem cumsizeFrom_get {α : Type} (acc : Nat) (bs : List (List α)) (i : Nat) (hi : i ≤ bs.length) :
    (cumsizeFrom acc (bs.map List.length))[i]? = some (acc + (bs.take i).flatten.length) := by
  induction bs generalizing acc i with
  | nil =>
    have : i = 0 := by simpa using hi
    subst this; simp [cumsizeFrom]
  | cons b bs ih =>
    cases i with
    | zero => simp [cumsizeFrom]
    | succ i =>
      have hi' : i ≤ bs.length := by simpa using hi
      simp only [List.map_cons, cumsizeFrom, List.getElem?_cons_succ, ih _ _ hi', List.take_succ_cons,
        List.flatten_cons, List.length_append]
      congr 1; omega

theorem cumsizeFrom_getLastD (acc : Nat) (ss : List Nat) (d : Nat) :
    (cumsizeFrom acc ss).getLastD d = acc + ss.sum := by
  induction ss generalizing acc d with
  | nil => simp [cumsizeFrom]
  | cons s ss ih =>
    cases hss : ss with
    | nil => simp [cumsizeFrom]
    | cons t ts =>
      have := ih (acc + s) acc
      simp only [cumsizeFrom, hss, List.getLastD_cons, List.sum_cons] at this ⊢
      omega

theorem sum_map_length {α : Type} (bs : List (List α)) :
    (bs.map List.length).sum = bs.flatten.length := by
  induction bs with
  | nil => rfl
  | cons b bs ih => simp only [List.map_cons, List.sum_cons, ih, List.flatten_cons, List.length_append]

/-! ### `sort.Search` -/

/-- Loop invariant of the binary search: everything below `i` is false, everything from `j`
    (below `n`) is true; then the result `r` splits `[0,n)` the same way. `mono` is the
    precondition of `sort.Search` (f false on a prefix, true on the rest). -/
theorem searchLoop_spec (f : Nat → Bool) (n : Nat)
    (mono : ∀ a b, a ≤ b → b < n → f a = true → f b = true)
    (fuel i j : Nat) (hij : i ≤ j) (hjn : j ≤ n) (hfuel : j - i ≤ fuel)
    (hlo : ∀ x, x < i → f x = false) (hhi : ∀ x, j ≤ x → x < n → f x = true) :
    let r := searchLoop f fuel i j
    i ≤ r ∧ r ≤ j ∧ (∀ x, x < r → f x = false) ∧ (∀ x, r ≤ x → x < n → f x = true) := by
  induction fuel generalizing i j with
  | zero =>
    have : i = j := by omega
    subst this
    exact ⟨Nat.le_refl _, Nat.le_refl _, hlo, hhi⟩
  | succ fuel ih =>
    simp only [searchLoop]
    by_cases hlt : i < j
    · simp only [hlt, if_true]
      have hh1 : i ≤ (i + j) / 2 := by omega
      have hh2 : (i + j) / 2 < j := by omega
      cases hf : f ((i + j) / 2) with
      | false =>
        simp only [Bool.not_false, if_true]
        have := ih ((i + j) / 2 + 1) j (by omega) hjn (by omega)
          (by
            intro x hx
            cases hfx : f x with
            | false => rfl
            | true =>
              have := mono x ((i + j) / 2) (by omega) (by omega) hfx
              rw [hf] at this; cases this)
          hhi
        exact ⟨by omega, this.2.1, this.2.2⟩
      | true =>
        simp only [Bool.not_true, Bool.false_eq_true, if_false]
        have := ih i ((i + j) / 2) hh1 (by omega) (by omega) hlo
          (by
            intro x hx hxn
            exact mono _ x hx hxn hf)
        exact ⟨this.1, by omega, this.2.2⟩
    · have : i = j := by omega
      subst this
      simp only [Nat.lt_irrefl, if_false]
      exact ⟨Nat.le_refl _, Nat.le_refl _, hlo, hhi⟩

/-- `sort.Search(n, f)` returns the smallest index in `[0, n]` from which `f` is true
    (`n` if there is none), for every `f` that is false on a prefix and true on the rest. -/
theorem search_spec (f : Nat → Bool) (n : Nat)
    (mono : ∀ a b, a ≤ b → b < n → f a = true → f b = true) :
    search n f ≤ n ∧ (∀ x, x < search n f → f x = false) ∧
      (∀ x, search n f ≤ x → x < n → f x = true) := by
  have := searchLoop_spec f n mono n 0 n (Nat.zero_le _) (Nat.le_refl _) (by omega)
    (by intro x hx; omega) (by intro x hx hxn; omega)
  exact ⟨this.2.1, this.2.2⟩

/-! ### the copy loop -/

theorem copyLoop_zero {α : Type} (bs : List (List α)) (rem : Nat) (acc : List α) :
    copyLoop (bs.map some) 0 rem acc = .ok (acc ++ bs.flatten.take rem) := by
  induction bs generalizing rem acc with
  | nil => simp [copyLoop]
  | cons b bs ih =>
    simp only [List.map_cons, copyLoop]
    by_cases hr : rem = 0
    · simp [hr]
    · simp only [hr, if_false, Nat.not_lt_zero, Nat.lt_irrefl, ih, List.flatten_cons, List.take_append,
        List.append_assoc]
      congr 2
      · congr 1
        · rw [List.take_eq_take_iff]; simp [Nat.min_assoc]
        · congr 1; omega

theorem copyLoop_offset {α : Type} (b : List α) (bs : List (List α)) (offset rem : Nat)
    (h : offset ≤ b.length) :
    copyLoop (some b :: bs.map some) offset rem [] = .ok (((b ++ bs.flatten).drop offset).take rem) := by
  simp only [copyLoop]
  by_cases hr : rem = 0
  · simp [hr]
  · have h' : ¬ offset > b.length := by omega
    simp only [hr, if_false, h', List.nil_append, copyLoop_zero]
    have hb : (if offset > 0 then b.drop offset else b) = b.drop offset := by
      by_cases h0 : offset > 0
      · simp [h0]
      · have : offset = 0 := by omega
        simp [this]
    rw [hb, List.drop_append_of_le_length h, List.take_append]
    congr 2
    · rw [List.take_eq_take_iff]; simp [Nat.min_assoc]
    · congr 1; simp only [List.length_drop]; omega

/-! ### The property theorems -/

/-- **C46, full strength.** For a file whose blobs all load and whose index sizes are the blob
    lengths, `Read(off, n)` returns exactly `content[off : off+n]` cut at the end of the file —
    for every layout (empty blobs included), every offset (also past the end), every size. -/
theorem read_range {α : Type} (blobs : List (List α)) (off n : Nat) :
    readAt (mkFile blobs) off n = .ok ((blobs.flatten.drop off).take n) := by
  have hmap : (mkFile blobs).map (·.1) = blobs.map List.length := by
    simp [mkFile, List.map_map, Function.comp_def]
  have hmap2 : ∀ s, ((mkFile blobs).map (·.2)).drop s = (blobs.drop s).map some := by
    intro s; simp [mkFile, List.map_drop, List.map_map, Function.comp_def]
  unfold readAt readWith
  simp only [hmap, hmap2]
  have hlast : (cumsize (blobs.map List.length)).getLastD 0 = blobs.flatten.length := by
    simp only [cumsize, cumsizeFrom_getLastD, sum_map_length, Nat.zero_add]
  have hlen : (cumsize (blobs.map List.length)).length = blobs.length + 1 := by
    simp [cumsize, cumsizeFrom_length]
  have hget : ∀ i, i ≤ blobs.length →
      (cumsize (blobs.map List.length))[i]? = some ((blobs.take i).flatten.length) := by
    intro i hi
    have := cumsizeFrom_get 0 blobs i hi
    simpa [cumsize] using this
  simp only [hlast]
  by_cases htot : blobs.flatten.length = 0
  · have : blobs.flatten = [] := List.length_eq_zero_iff.mp htot
    simp [this]
  · simp only [htot, if_false, hlen]
    -- the search predicate in terms of prefix lengths
    let f : Nat → Bool := fun i => decide ((cumsize (blobs.map List.length)).getD i 0 > off)
    have hf : ∀ i, i ≤ blobs.length → f i = decide ((blobs.take i).flatten.length > off) := by
      intro i hi
      show decide ((cumsize (blobs.map List.length)).getD i 0 > off) = _
      simp [List.getD, hget i hi]
    have hprefmono : ∀ a b, a ≤ b → (blobs.take a).flatten.length ≤ (blobs.take b).flatten.length := by
      intro a b hab
      have : blobs.take a = (blobs.take b).take a := by
        rw [List.take_take, Nat.min_eq_left hab]
      rw [this]
      conv => rhs; rw [← List.take_append_drop a (blobs.take b)]
      simp only [List.flatten_append, List.length_append]
      omega
    have mono : ∀ a b, a ≤ b → b < blobs.length + 1 → f a = true → f b = true := by
      intro a b hab hb ha
      rw [hf a (by omega)] at ha
      rw [hf b (by omega)]
      have := hprefmono a b hab
      simp only [decide_eq_true_eq] at ha ⊢
      omega
    have hs := search_spec f (blobs.length + 1) mono
    show (match search (blobs.length + 1) f with
      | 0 => ReadRes.panic
      | s + 1 => match (cumsize (blobs.map List.length))[s]? with
        | none => ReadRes.panic
        | some c => copyLoop ((blobs.drop s).map some) (off - c) n []) = _
    cases hsv : search (blobs.length + 1) f with
    | zero =>
      -- impossible: cumsize[0] = 0 ≤ off
      exfalso
      have h0 := hs.2.2 0 (by omega) (by omega)
      rw [hf 0 (by omega)] at h0
      simp at h0
    | succ s =>
      rw [hsv] at hs
      have hsle : s ≤ blobs.length := by omega
      have hbelow := hs.2.1 s (by omega)
      rw [hf s hsle] at hbelow
      have hpre : (blobs.take s).flatten.length ≤ off := by simpa using hbelow
      simp only [hget s hsle]
      -- split the content at blob `s`
      have hsplit : blobs.flatten = (blobs.take s).flatten ++ (blobs.drop s).flatten := by
        rw [← List.flatten_append, List.take_append_drop]
      have hdrop : ((blobs.take s).flatten ++ (blobs.drop s).flatten).drop off =
          (blobs.drop s).flatten.drop (off - (blobs.take s).flatten.length) := by
        rw [List.drop_append, List.drop_eq_nil_of_le hpre, List.nil_append]
      rw [hsplit, hdrop]
      cases hd : blobs.drop s with
      | nil => simp [copyLoop]
      | cons b rest =>
        have hslt : s < blobs.length := by
          have := congrArg List.length hd
          simp at this; omega
        have habove := hs.2.2 (s + 1) (Nat.le_refl _) (by omega)
        rw [hf (s + 1) (by omega)] at habove
        have hb : blobs.take (s + 1) = blobs.take s ++ [b] := by
          have h1 : blobs[s]? = some b := by
            have : (blobs.drop s)[0]? = some b := by rw [hd]; rfl
            simpa using this
          rw [List.take_add_one, h1]; rfl
        have hoff : off - (blobs.take s).flatten.length ≤ b.length := by
          simp only [hb, List.flatten_append, List.length_append, decide_eq_true_eq, List.flatten_cons,
            List.flatten_nil, List.append_nil] at habove
          omega
        simp only [List.map_cons]
        rw [copyLoop_offset b rest _ n hoff, List.flatten_cons]

/-- the transcription meets the executable reading of C46 -/
theorem read_spec {α : Type} [BEq α] [LawfulBEq α] (blobs : List (List α)) (off n : Nat) (out : List α)
    (h : readAt (mkFile blobs) off n = .ok out) : specOK blobs off n out = true := by
  rw [read_range] at h
  injection h with h
  simp [specOK, h]

/-- no read of a well-formed file panics or fails -/
theorem read_no_panic {α : Type} (blobs : List (List α)) (off n : Nat) :
    readAt (mkFile blobs) off n ≠ .panic ∧ readAt (mkFile blobs) off n ≠ .err := by
  rw [read_range]; exact ⟨fun h => (by cases h), fun h => (by cases h)⟩

/-- reads past the end of the file are empty -/
theorem read_past_eof {α : Type} (blobs : List (List α)) (off n : Nat)
    (h : blobs.flatten.length ≤ off) : readAt (mkFile blobs) off n = .ok [] := by
  rw [read_range, List.drop_eq_nil_of_le h, List.take_nil]

/-- the result never has more than `n` bytes and is a full `n` bytes whenever the file has them -/
theorem read_length {α : Type} (blobs : List (List α)) (off n : Nat) :
    ∃ out, readAt (mkFile blobs) off n = .ok out ∧ out.length = min n (blobs.flatten.length - off) :=
  ⟨_, read_range blobs off n, by simp⟩

/-- consecutive reads tile the file: reading `n` then `m` bytes equals reading `n+m` at once
    (what the kernel relies on when it splits a request) -/
theorem read_tiles {α : Type} (blobs : List (List α)) (off n m : Nat) :
    ∃ a b, readAt (mkFile blobs) off n = .ok a ∧ readAt (mkFile blobs) (off + n) m = .ok b ∧
      readAt (mkFile blobs) off (n + m) = .ok (a ++ b) := by
  refine ⟨_, _, read_range blobs off n, read_range blobs (off + n) m, ?_⟩
  rw [read_range]
  congr 1
  rw [← List.drop_drop, ← List.take_append_drop n (List.drop off blobs.flatten)]
  simp only [List.take_append_drop]
  rw [List.take_add]

/-- a negative `int64` offset is a huge `uint64`, so it is past the end of any file that fits -/
theorem negative_offset_past_eof {α : Type} (blobs : List (List α)) (o : Int) (n : Nat)
    (ho : o < 0) (hmin : -9223372036854775808 ≤ o) (hsz : blobs.flatten.length < 9223372036854775808) :
    readAt (mkFile blobs) (offsetOfInt o) n = .ok [] := by
  apply read_past_eof
  unfold offsetOfInt
  simp only [ho, if_true]
  omega

/-! ### Opens that return early, and re-opening the same node -/

theorem cumsizeFrom_eq_cons (acc : Nat) (ss : List Nat) :
    cumsizeFrom acc ss = acc :: (cumsizeFrom acc ss).tail := by
  cases ss <;> simp [cumsizeFrom]

theorem openLoop_ok (cancelAt : Option Nat) (i : Nat) (ss : List Nat) (bytes : Nat) (acc : List Nat)
    (hc : ∀ c, cancelAt = some c → i + ss.length ≤ c) :
    openLoop cancelAt i (ss.map some) bytes acc = .ok (acc ++ (cumsizeFrom bytes ss).tail) := by
  induction ss generalizing i bytes acc with
  | nil => simp [openLoop, cumsizeFrom]
  | cons s ss ih =>
    have hnc : cancelledAt cancelAt i = false := by
      unfold cancelledAt
      cases hca : cancelAt with
      | none => rfl
      | some c =>
        have := hc c hca
        simp only [List.length_cons] at this
        simp only [decide_eq_false_iff_not]; omega
    simp only [List.map_cons, openLoop, hnc, Bool.false_eq_true, if_false]
    rw [ih (i + 1) (bytes + s) (acc ++ [bytes + s]) (by
      intro c hca; have := hc c hca; simp only [List.length_cons] at this; omega)]
    simp only [cumsizeFrom, List.tail_cons, List.append_assoc]
    rw [cumsizeFrom_eq_cons (bytes + s) ss]
    simp

/-- an Open that is not cancelled before its last check and finds every id builds exactly the
    prefix-sum table -/
theorem openNode_ok (ss : List Nat) (cancelAt : Option Nat) (hc : ∀ c, cancelAt = some c → ss.length ≤ c) :
    openNode (ss.map some) cancelAt = .ok (cumsize ss) := by
  unfold openNode
  rw [openLoop_ok cancelAt 0 ss 0 [0] (by intro c h; have := hc c h; omega)]
  unfold cumsize
  rw [cumsizeFrom_eq_cons 0 ss]
  simp

theorem openLoop_ok_inv (cancelAt : Option Nat) (i : Nat) (sizes : List (Option Nat)) (bytes : Nat)
    (acc cs : List Nat) (h : openLoop cancelAt i sizes bytes acc = .ok cs) :
    ∃ ss, sizes = ss.map some ∧ cs = acc ++ (cumsizeFrom bytes ss).tail := by
  induction sizes generalizing i bytes acc with
  | nil =>
    simp only [openLoop] at h
    injection h with h
    exact ⟨[], rfl, by simp [cumsizeFrom, h]⟩
  | cons sz rest ih =>
    simp only [openLoop] at h
    split at h
    · cases h
    · cases sz with
      | none => cases h
      | some s =>
        obtain ⟨ss, h1, h2⟩ := ih _ _ _ h
        refine ⟨s :: ss, by simp [h1], ?_⟩
        rw [h2]
        simp only [cumsizeFrom, List.tail_cons, List.append_assoc]
        rw [cumsizeFrom_eq_cons (bytes + s) ss]
        simp

/-- whatever the cancellation point: if Open returns a handle at all, every id was found and the
    handle's table is the complete prefix-sum table (never a partial one) -/
theorem openNode_ok_inv (sizes : List (Option Nat)) (cancelAt : Option Nat) (cs : List Nat)
    (h : openNode sizes cancelAt = .ok cs) : ∃ ss, sizes = ss.map some ∧ cs = cumsize ss := by
  obtain ⟨ss, h1, h2⟩ := openLoop_ok_inv cancelAt 0 sizes 0 [0] cs h
  refine ⟨ss, h1, ?_⟩
  rw [h2]; unfold cumsize
  rw [cumsizeFrom_eq_cons 0 ss]
  simp

/-- an Open whose context is already cancelled when it starts fails (for a non-empty file) -/
theorem openNode_precancelled (sizes : List (Option Nat)) (hne : sizes ≠ []) :
    openNode sizes (some 0) = .cancelled := by
  cases sizes with
  | nil => exact absurd rfl hne
  | cons a as => simp [openNode, openLoop, cancelledAt]

/-- the view an attempt has of the index is consistent with the file's blobs: an id is either not
    found or found with the length of its blob -/
def ViewOf {α : Type} : List (List α) → List (Option Nat) → Prop
  | [], [] => True
  | b :: bs, sz :: ss => (sz = none ∨ sz = some b.length) ∧ ViewOf bs ss
  | _, _ => False

theorem viewOf_all_some {α : Type} (blobs : List (List α)) (ss : List Nat)
    (h : ViewOf blobs (ss.map some)) : ss = blobs.map List.length := by
  induction blobs generalizing ss with
  | nil =>
    cases ss with
    | nil => rfl
    | cons a as => exact h.elim
  | cons b bs ih =>
    cases ss with
    | nil => exact h.elim
    | cons a as =>
      simp only [ViewOf, List.map_cons] at h
      rcases h.1 with h1 | h1
      · cases h1
      · injection h1 with h1
        simp only [List.map_cons, h1, ih as h.2]

/-- **re-open**. Take any sequence of Opens of the same node — cancelled before they start,
    cancelled at any point of the loop, failing because an id is not (yet) in the index, or
    succeeding. Every handle that any of these attempts returns reads exactly the requested range,
    for every offset and size: earlier failed or interrupted Opens leave nothing behind. -/
theorem reopen_read_range {α : Type} (blobs : List (List α))
    (attempts : List (List (Option Nat) × Option Nat))
    (hview : ∀ a ∈ attempts, ViewOf blobs a.1)
    (cs : List Nat) (hcs : OpenRes.ok cs ∈ openSeq attempts) (off n : Nat) :
    readWith cs (blobs.map some) off n = .ok ((blobs.flatten.drop off).take n) := by
  simp only [openSeq, List.mem_map] at hcs
  obtain ⟨a, ha, hopen⟩ := hcs
  obtain ⟨ss, h1, h2⟩ := openNode_ok_inv a.1 a.2 cs hopen
  have hv := hview a ha
  rw [h1] at hv
  have hss := viewOf_all_some blobs ss hv
  have := read_range blobs off n
  unfold readAt at this
  have hm1 : (mkFile blobs).map (·.1) = blobs.map List.length := by
    simp [mkFile, List.map_map, Function.comp_def]
  have hm2 : (mkFile blobs).map (·.2) = blobs.map some := by
    simp [mkFile, List.map_map, Function.comp_def]
  rw [hm1, hm2] at this
  rw [h2, hss]; exact this

/-! ### Non-vacuity: concrete layouts with empty blobs, boundary offsets, reads past the end -/

example : readAt (mkFile [[1, 2, 3], [], [4, 5], [], [6]]) 2 3 = .ok [3, 4, 5] := by decide
example : readAt (mkFile [[], [], [1, 2, 3], []]) 3 2 = .ok ([] : List Nat) := by decide
example : readAt (mkFile [[1, 2, 3], [4]]) 3 5 = .ok [4] := by decide
example : readAt (mkFile ([[], []] : List (List Nat))) 0 5 = .ok [] := by decide
example : search 5 (fun i => decide ([0, 3, 3, 5, 5].getD i 0 > 3)) = 3 := by decide
/-- the transcription really distinguishes index size from blob length: a blob shorter than the
    index says makes `blob[offset:]` panic -/
example : readAt [(5, some [1, 2]), (1, some [9])] 4 1 = .panic := by decide

/-- interrupted at the third lookup, then re-opened: same table as a first Open -/
example : openSeq [([some 3, some 0, some 2], some 0), ([some 3, some 0, some 2], some 2),
    ([some 3, none, some 2], none), ([some 3, some 0, some 2], none), ([some 3, some 0, some 2], some 3)]
    = [.cancelled, .cancelled, .notFound, .ok [0, 3, 3, 5], .ok [0, 3, 3, 5]] := by decide

end Restic.Props.C46
